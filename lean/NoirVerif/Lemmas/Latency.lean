/-
  Lemmas/Latency.lean — helper lemmas for C18: the `ChannelSource` retry automaton and the
  invariants of the logical-time pipeline model.
-/
import NoirVerif.Model.ChannelSource
import NoirVerif.Model.Latency
import NoirVerif.Lemmas.Batcher

/-! ## ChannelSource -/
namespace Noir.ChannelSource

variable {α : Type}

/-- the last event of `prev :: evs` -/
def lastEv (prev : Option (Ev α)) : List (Ev α) → Option (Ev α)
  | [] => prev
  | e :: es => lastEv (some e) es

/-- Invariant of the automaton, relative to the last event `prev`:
    `retry_count ≤ MAX_RETRY + 1`; in a live state it exceeds `MAX_RETRY` only right after
    `FlushBatch` was returned; inside `recv()` it is 0. -/
def Inv (s : St) (prev : Option (Ev α)) : Prop :=
  s.retry ≤ Consts.MAX_RETRY + 1 ∧
  (s.terminated = false → s.retry > Consts.MAX_RETRY → prev = some (.ret .flushBatch)) ∧
  (s.blocked = true → s.retry = 0)

theorem inv_init : Inv init (none : Option (Ev α)) := by
  refine ⟨by simp [init], ?_, by simp [init]⟩
  intro _ h; simp [init] at h

theorem step_inv (s : St) (prev : Option (Ev α)) (p : Poll α) (h : Inv s prev) :
    Inv (step s p).1 (some (step s p).2) := by
  obtain ⟨h1, h2, h3⟩ := h
  cases ht : s.terminated with
  | true =>
    simp only [step, ht, if_true]
    exact ⟨h1, fun hf => by simp [ht] at hf, h3⟩
  | false =>
    cases hb : s.blocked with
    | true =>
      have hr := h3 hb
      cases p with
      | ok a =>
        simp only [step, ht, hb, Bool.false_eq_true, if_false, if_true]
        exact ⟨by simp; omega, fun _ hgt => by simp at hgt; omega, by simp⟩
      | empty =>
        simp only [step, ht, hb, Bool.false_eq_true, if_false, if_true]
        exact ⟨h1, fun _ hgt => by omega, h3⟩
      | disc =>
        simp only [step, ht, hb, Bool.false_eq_true, if_false, if_true]
        exact ⟨by simp; omega, fun hf => by simp at hf, by simp⟩
    | false =>
      cases p with
      | ok a =>
        simp only [step, ht, hb, Bool.false_eq_true, if_false]
        exact ⟨by simp, fun _ hgt => by simp at hgt, by simp⟩
      | disc =>
        simp only [step, ht, hb, Bool.false_eq_true, if_false]
        exact ⟨by simp; omega, fun hf => by simp at hf, by simp⟩
      | empty =>
        simp only [step, ht, hb, Bool.false_eq_true, if_false]
        by_cases hlt : s.retry < Consts.MAX_RETRY
        · simp only [hlt, if_true]
          exact ⟨by simp; omega, fun _ hgt => by simp at hgt; omega, by simp⟩
        · simp only [hlt, if_false]
          by_cases heq : s.retry = Consts.MAX_RETRY
          · simp only [heq, if_true]
            exact ⟨by simp, fun _ _ => rfl, by simp⟩
          · simp only [heq, if_false]
            exact ⟨by simp, fun _ hgt => by simp at hgt, by simp⟩

/-- the step enters `recv()` only from a live, awake state whose counter is past `MAX_RETRY` -/
theorem step_block (s : St) (p : Poll α) (h : (step s p).2 = .block) :
    s.terminated = false ∧ s.retry > Consts.MAX_RETRY := by
  unfold step at h
  by_cases ht : s.terminated = true
  · simp [ht] at h
  · by_cases hb : s.blocked = true
    · simp only [ht, hb, if_true] at h
      cases p <;> simp at h
    · simp only [ht, hb] at h
      cases p with
      | ok a => simp at h
      | disc => simp at h
      | empty =>
        simp only [Bool.false_eq_true, if_false] at h
        by_cases hlt : s.retry < Consts.MAX_RETRY
        · simp [hlt] at h
        · by_cases heq : s.retry = Consts.MAX_RETRY
          · simp [heq] at h
          · exact ⟨by simpa using ht, by omega⟩

theorem block_after_flush_aux : ∀ (ps : List (Poll α)) (s : St) (prev : Option (Ev α)),
    Inv s prev → ∀ i, (runFrom s ps)[i]? = some .block →
      (match i with
       | 0 => prev
       | j + 1 => (runFrom s ps)[j]?) = some (.ret .flushBatch) := by
  intro ps
  induction ps with
  | nil => intro s prev _ i h; simp [runFrom] at h
  | cons p ps ih =>
    intro s prev hinv i h
    cases i with
    | zero =>
      simp only [runFrom, List.getElem?_cons_zero, Option.some.injEq] at h
      obtain ⟨h1, h2⟩ := step_block s p h
      exact hinv.2.1 h1 h2
    | succ i =>
      simp only [runFrom, List.getElem?_cons_succ] at h
      have := ih (step s p).1 (some (step s p).2) (step_inv s prev p hinv) i h
      cases i with
      | zero => simpa [runFrom] using this
      | succ j => simpa [runFrom] using this

theorem stateAfter_inv : ∀ (ps : List (Poll α)) (s : St) (prev : Option (Ev α)),
    Inv s prev → Inv (stateAfter s ps) (lastEv prev (runFrom s ps)) := by
  intro ps
  induction ps with
  | nil => intro s prev h; simpa [stateAfter, runFrom, lastEv] using h
  | cons p ps ih =>
    intro s prev h
    simpa [stateAfter, runFrom, lastEv] using ih _ _ (step_inv s prev p h)

/-- from a live, awake state with `retry + k = MAX_RETRY`: `k` spins, then `FlushBatch` -/
theorem spin_then_flush : ∀ (k : Nat) (s : St), s.terminated = false → s.blocked = false →
    s.retry + k = Consts.MAX_RETRY →
    runFrom s (List.replicate (k + 1) (Poll.empty : Poll α)) =
      List.replicate k Ev.spin ++ [Ev.ret Elem.flushBatch] := by
  intro k
  induction k with
  | zero =>
    intro s ht hb hr
    simp [runFrom, step, ht, hb, show s.retry = Consts.MAX_RETRY by omega]
  | succ k ih =>
    intro s ht hb hr
    have hlt : s.retry < Consts.MAX_RETRY := by omega
    have hs : step s (Poll.empty : Poll α) = ({ s with retry := s.retry + 1 }, .spin) := by
      simp [step, ht, hb, hlt]
    rw [List.replicate_succ, runFrom, hs]
    simp only
    rw [ih _ (by simpa using ht) (by simpa using hb) (by simp; omega)]
    simp [List.replicate_succ]

theorem lastEv_eq : ∀ (l : List (Ev α)) (prev : Option (Ev α)), lastEv prev l = (l.getLast?).or prev := by
  intro l
  induction l with
  | nil => intro prev; rfl
  | cons e es ih =>
    intro prev
    rw [lastEv, ih, List.getLast?_cons]
    cases es.getLast? <;> rfl

end Noir.ChannelSource

/-! ## Pipeline model -/
namespace Noir.Latency
open Noir.Batcher (SingleOk)

variable {α : Type}

/-! ### chains -/

theorem downF_append (fs : List (α → List α)) (xs ys : List α) :
    downF fs (xs ++ ys) = downF fs xs ++ downF fs ys := by
  induction fs generalizing xs ys with
  | nil => rfl
  | cons f fs ih => simp [downF, List.flatMap_append, ih]

theorem downF_nil (fs : List (α → List α)) : downF fs ([] : List α) = [] := by
  induction fs with
  | nil => rfl
  | cons f fs ih => simpa [downF] using ih

/-! ### one stage -/

/-- what a stage holds, oldest first -/
def Stage.held (t : Stage α) : List α := t.chan.flatten ++ t.buf

/-- per-stage invariant: `Single` never buffers; a block in its untimed receive has empty buffers -/
def StageOk (t : Stage α) : Prop := SingleOk t.mode t.buf ∧ (t.idle = true → t.buf = [])

theorem push_held (t : Stage α) (hs : SingleOk t.mode t.buf) (x : α) (el : Bool) :
    (t.push x el).held = t.held ++ [x] ∧ SingleOk (t.push x el).mode (t.push x el).buf ∧
    (t.push x el).f = t.f ∧ (t.push x el).mode = t.mode := by
  have hc := Batcher.enqueue_conserve t.mode t.buf hs x el
  have hk := Batcher.step_singleOk t.mode t.buf hs (.enqueue x el)
  refine ⟨?_, by simpa [Stage.push, Batcher.step] using hk, rfl, rfl⟩
  simp only [Stage.held, Stage.push, List.flatten_append, List.append_assoc]
  rw [hc]

theorem pushAll_held : ∀ (xs : List α) (t : Stage α) (els : List Bool), SingleOk t.mode t.buf →
    (t.pushAll xs els).held = t.held ++ xs ∧ SingleOk (t.pushAll xs els).mode (t.pushAll xs els).buf ∧
    (t.pushAll xs els).f = t.f ∧ (t.pushAll xs els).mode = t.mode := by
  intro xs
  induction xs with
  | nil => intro t els hs; simp [Stage.pushAll, hs]
  | cons x xs ih =>
    intro t els hs
    obtain ⟨h1, h2, h3, h4⟩ := push_held t hs x (els.headD false)
    obtain ⟨g1, g2, g3, g4⟩ := ih (t.push x (els.headD false)) els.tail h2
    simp only [Stage.pushAll]
    refine ⟨by rw [g1, h1]; simp, g2, by rw [g3, h3], by rw [g4, h4]⟩

theorem feed_spec (t : Stage α) (xs : List α) (els : List Bool) (h : StageOk t) :
    (t.feed xs els).held = t.held ++ xs.flatMap t.f ∧ StageOk (t.feed xs els) ∧
    (t.feed xs els).f = t.f ∧ (t.feed xs els).mode = t.mode ∧ (t.feed xs els).idle = false := by
  obtain ⟨g1, g2, g3, g4⟩ := pushAll_held (xs.flatMap t.f) t els h.1
  refine ⟨by simpa [Stage.feed, Stage.held] using g1, ⟨by simpa [Stage.feed] using g2, by simp [Stage.feed]⟩,
    by simpa [Stage.feed] using g3, by simpa [Stage.feed] using g4, rfl⟩

theorem flushIdle_spec (t : Stage α) :
    (t.flushIdle).held = t.held ∧ StageOk t.flushIdle ∧ (t.flushIdle).f = t.f ∧
    (t.flushIdle).mode = t.mode ∧ (t.flushIdle).buf = [] ∧ (t.flushIdle).idle = true := by
  have hc := Batcher.flush_conserve t.buf
  have hf := Batcher.flush_fst t.buf
  refine ⟨?_, ⟨?_, ?_⟩, rfl, rfl, by simpa [Stage.flushIdle] using hf, rfl⟩
  · simp only [Stage.held, Stage.flushIdle, List.flatten_append, List.append_assoc]
    rw [hc]
  · intro _; simpa [Stage.flushIdle] using hf
  · intro _; simpa [Stage.flushIdle] using hf

/-! ### the pipeline invariant -/

def AllOk (l : List (Stage α)) : Prop := ∀ t ∈ l, StageOk t

theorem pending_cons (s : Stage α) (rest : List (Stage α)) :
    pending (s :: rest) = pending rest ++ downF (fsOf rest) s.held := rfl

/-- `recv` conserves: delivered ++ in flight is unchanged, chains and modes are unchanged -/
theorem recvL_spec : ∀ (i : Nat) (els : List Bool) (l : List (Stage α)) (sink : List α), AllOk l →
    (recvL i els l sink).2 ++ pending (recvL i els l sink).1 = sink ++ pending l ∧
    AllOk (recvL i els l sink).1 ∧ fsOf (recvL i els l sink).1 = fsOf l ∧
    (recvL i els l sink).1.map (·.mode) = l.map (·.mode) := by
  intro i
  induction i with
  | zero =>
    intro els l sink hok
    cases l with
    | nil => simp [recvL, pending, AllOk, fsOf]
    | cons s rest =>
      cases hc : s.chan with
      | nil => simp [recvL, hc, hok]
      | cons b bs =>
        cases rest with
        | nil =>
          have hs := hok s (by simp)
          simp only [recvL, hc]
          refine ⟨?_, ?_, by simp [fsOf], by simp⟩
          · simp [pending, fsOf, downF, hc, List.append_assoc]
          · intro t ht
            simp at ht; subst ht
            exact ⟨hs.1, hs.2⟩
        | cons t rest' =>
          have hs := hok s (by simp)
          have ht := hok t (by simp)
          obtain ⟨g1, g2, g3, g4, _⟩ := feed_spec t b els ht
          simp only [recvL, hc]
          refine ⟨?_, ?_, by simp [fsOf, g3], by simp [g4]⟩
          · simp only [pending_cons, Stage.held, hc, List.flatten_cons, List.append_assoc]
            have e1 : (t.feed b els).chan.flatten ++ (t.feed b els).buf
                = t.chan.flatten ++ (t.buf ++ b.flatMap t.f) := by
              have := g1; simp only [Stage.held, List.append_assoc] at this; exact this
            rw [e1]
            simp only [fsOf, List.map_cons, g3, downF, downF_append, List.flatMap_append,
              List.append_assoc]
          · intro u hu
            simp only [List.mem_cons] at hu
            rcases hu with rfl | rfl | hu
            · exact ⟨hs.1, hs.2⟩
            · exact g2
            · exact hok u (by simp [hu])
  | succ i ih =>
    intro els l sink hok
    cases l with
    | nil => simp [recvL, pending, AllOk, fsOf]
    | cons s rest =>
      obtain ⟨g1, g2, g3, g4⟩ := ih els rest sink (fun t ht => hok t (by simp [ht]))
      simp only [recvL]
      refine ⟨?_, ?_, by simp [fsOf] at g3 ⊢; exact g3, by simp [g4]⟩
      · rw [pending_cons, pending_cons, g3, ← List.append_assoc, g1, List.append_assoc]
      · intro u hu
        simp only [List.mem_cons] at hu
        rcases hu with rfl | hu
        · exact hok u (by simp)
        · exact g2 u hu

theorem timeoutL_spec : ∀ (i : Nat) (l : List (Stage α)), AllOk l →
    pending (timeoutL i l) = pending l ∧ AllOk (timeoutL i l) ∧ fsOf (timeoutL i l) = fsOf l ∧
    (timeoutL i l).map (·.mode) = l.map (·.mode) := by
  intro i
  induction i using Nat.strongRecOn with
  | _ i ih =>
    intro l hok
    match i, l with
    | 0, l => simp [timeoutL, hok]
    | _ + 1, [] => simp [timeoutL, pending, AllOk, fsOf]
    | _ + 1, [s] => simp [timeoutL, hok]
    | 1, s :: t :: rest =>
      simp only [timeoutL]
      split
      · obtain ⟨g1, g2, g3, g4, _⟩ := flushIdle_spec t
        refine ⟨?_, ?_, by simp [fsOf, g3], by simp [g4]⟩
        · simp only [pending_cons, g1, fsOf, List.map_cons, g3]
        · intro u hu
          simp only [List.mem_cons] at hu
          rcases hu with rfl | rfl | hu
          · exact hok u (by simp)
          · exact g2
          · exact hok u (by simp [hu])
      · exact ⟨rfl, hok, rfl, rfl⟩
    | i + 2, s :: t :: rest =>
      obtain ⟨g1, g2, g3, g4⟩ := ih (i + 1) (by omega) (t :: rest) (fun u hu => hok u (by simp [hu]))
      simp only [timeoutL]
      refine ⟨?_, ?_, by simp only [fsOf, List.map_cons] at g3 ⊢; rw [g3], by simp only [List.map_cons] at g4 ⊢; rw [g4]⟩
      · rw [pending_cons, pending_cons, g3, g1]
      · intro u hu
        simp only [List.mem_cons] at hu
        rcases hu with rfl | hu
        · exact hok u (by simp)
        · exact g2 u hu

/-- the invariant of the whole state -/
structure Inv (s : State α) : Prop where
  ok : AllOk s.stages
  /-- conservation: delivered ++ in flight (as the sink will see it) = what the chains make of
      everything emitted -/
  bal : s.sink ++ pending s.stages = downF (fsOf s.stages) s.emitted

theorem inv_init (cfg : List (Batcher.Mode × (α → List α))) : Inv (State.init cfg) := by
  constructor
  · intro t ht
    simp only [State.init, List.mem_map] at ht
    obtain ⟨c, _, rfl⟩ := ht
    exact ⟨fun _ => rfl, fun _ => rfl⟩
  · simp only [State.init, List.nil_append, downF_nil]
    induction cfg with
    | nil => rfl
    | cons c cfg ih =>
      rw [List.map_cons, pending_cons, ih]
      simp [Stage.held, Stage.new, downF_nil]

/-- static part of the state: chains and modes never change -/
def sameCfg (s s' : State α) : Prop :=
  fsOf s'.stages = fsOf s.stages ∧ s'.stages.map (·.mode) = s.stages.map (·.mode)

theorem step_inv (s : State α) (e : Ev α) (h : Inv s) : Inv (step s e) ∧ sameCfg s (step s e) := by
  obtain ⟨hok, hbal⟩ := h
  cases e with
  | src x els =>
    cases hst : s.stages with
    | nil => simp only [step, hst]; exact ⟨⟨by rw [hst]; intro t ht; simp at ht, by rw [hst] at hbal ⊢; exact hbal⟩, by simp [sameCfg]⟩
    | cons s0 rest =>
      rw [hst] at hok hbal
      obtain ⟨g1, g2, g3, g4, _⟩ := feed_spec s0 [x] els (hok s0 (by simp))
      simp only [step, hst]
      refine ⟨⟨?_, ?_⟩, by simp [sameCfg, fsOf, g3, g4, hst]⟩
      · intro u hu
        simp only [List.mem_cons] at hu
        rcases hu with rfl | hu
        · exact g2
        · exact hok u (by simp [hu])
      · simp only [pending_cons, g1, fsOf, List.map_cons, g3, downF,
          downF_append, List.flatMap_cons, List.flatMap_nil, List.append_nil]
        simp only [pending_cons, fsOf, List.map_cons, downF] at hbal
        rw [← hbal]; simp [List.append_assoc]
  | srcIdle =>
    cases hst : s.stages with
    | nil => simp only [step, hst]; exact ⟨⟨by rw [hst]; intro t ht; simp at ht, by rw [hst] at hbal ⊢; exact hbal⟩, by simp [sameCfg]⟩
    | cons s0 rest =>
      rw [hst] at hok hbal
      obtain ⟨g1, g2, g3, g4, _⟩ := flushIdle_spec s0
      simp only [step, hst]
      refine ⟨⟨?_, ?_⟩, by simp [sameCfg, fsOf, g3, g4, hst]⟩
      · intro u hu
        simp only [List.mem_cons] at hu
        rcases hu with rfl | hu
        · exact g2
        · exact hok u (by simp [hu])
      · simp only [pending_cons, g1, fsOf, List.map_cons, g3]
        simpa [pending_cons, fsOf] using hbal
  | recv i els =>
    obtain ⟨g1, g2, g3, g4⟩ := recvL_spec i els s.stages s.sink hok
    simp only [step]
    exact ⟨⟨g2, by simp only; rw [g1, g3]; exact hbal⟩, ⟨g3, g4⟩⟩
  | timeout i =>
    obtain ⟨g1, g2, g3, g4⟩ := timeoutL_spec i s.stages hok
    simp only [step]
    exact ⟨⟨g2, by simp only; rw [g1, g3]; exact hbal⟩, ⟨g3, g4⟩⟩

theorem run_inv : ∀ (es : List (Ev α)) (s : State α), Inv s → Inv (run s es) ∧ sameCfg s (run s es) := by
  intro es
  induction es with
  | nil => intro s h; exact ⟨h, rfl, rfl⟩
  | cons e es ih =>
    intro s h
    obtain ⟨h1, h2⟩ := step_inv s e h
    obtain ⟨h3, h4⟩ := ih _ h1
    exact ⟨h3, h4.1.trans h2.1, h4.2.trans h2.2⟩

theorem pending_quiescent (l : List (Stage α)) (hq : Quiescent l) : pending l = [] := by
  induction l with
  | nil => rfl
  | cons s rest ih =>
    have hs := hq s (by simp)
    rw [pending_cons, ih (fun t ht => hq t (by simp [ht]))]
    simp [Stage.held, hs.1, hs.2, downF_nil]

theorem run_append (s : State α) (a b : List (Ev α)) : run s (a ++ b) = run (run s a) b := by
  induction a generalizing s with
  | nil => rfl
  | cons e a ih => simp [run, ih]


/-! ### the quiescing schedule -/

/-- list-level step for the events that do not touch the source -/
def stepL (p : List (Stage α) × List α) : Ev α → List (Stage α) × List α
  | .recv i els => recvL i els p.1 p.2
  | .timeout i => (timeoutL i p.1, p.2)
  | _ => p

def runL (p : List (Stage α) × List α) : List (Ev α) → List (Stage α) × List α
  | [] => p
  | e :: es => runL (stepL p e) es

/-- events of blocks ≥ 1 / channels: `recv i`, `timeout (i+1)` -/
def Inner : Ev α → Bool
  | .recv _ _ => true
  | .timeout (_ + 1) => true
  | _ => false

theorem runL_append (p : List (Stage α) × List α) (a b : List (Ev α)) :
    runL p (a ++ b) = runL (runL p a) b := by
  induction a generalizing p with
  | nil => rfl
  | cons e a ih => simp [runL, ih]

theorem step_inner (s : State α) (e : Ev α) (he : Inner e = true) :
    step s e = ⟨(stepL (s.stages, s.sink) e).1, (stepL (s.stages, s.sink) e).2, s.emitted⟩ := by
  cases e with
  | recv i els => rfl
  | timeout i => rfl
  | src x els => simp [Inner] at he
  | srcIdle => simp [Inner] at he

theorem run_inner : ∀ (es : List (Ev α)) (s : State α), (∀ e ∈ es, Inner e = true) →
    run s es = ⟨(runL (s.stages, s.sink) es).1, (runL (s.stages, s.sink) es).2, s.emitted⟩ := by
  intro es
  induction es with
  | nil => intro s _; rfl
  | cons e es ih =>
    intro s h
    rw [run, step_inner s e (h e (by simp)), ih _ (fun e' he' => h e' (by simp [he']))]
    rfl

theorem shift_inner (e : Ev α) (he : Inner e = true) : Inner e.shift = true := by
  cases e with
  | recv i els => rfl
  | timeout i => rfl
  | src x els => simp [Inner] at he
  | srcIdle => simp [Inner] at he

theorem stepL_shift (s : Stage α) (rest : List (Stage α)) (sink : List α) (e : Ev α)
    (he : Inner e = true) :
    stepL (s :: rest, sink) e.shift = (s :: (stepL (rest, sink) e).1, (stepL (rest, sink) e).2) := by
  cases e with
  | recv i els => rfl
  | src x els => simp [Inner] at he
  | srcIdle => simp [Inner] at he
  | timeout i =>
    cases i with
    | zero => simp [Inner] at he
    | succ i =>
      cases rest with
      | nil => cases i <;> simp [stepL, Ev.shift, timeoutL]
      | cons t rest => simp [stepL, Ev.shift, timeoutL]

theorem runL_shift (s : Stage α) : ∀ (es : List (Ev α)) (rest : List (Stage α)) (sink : List α),
    (∀ e ∈ es, Inner e = true) →
    runL (s :: rest, sink) (es.map Ev.shift) = (s :: (runL (rest, sink) es).1, (runL (rest, sink) es).2) := by
  intro es
  induction es with
  | nil => intro rest sink _; rfl
  | cons e es ih =>
    intro rest sink h
    rw [List.map_cons, runL, stepL_shift s rest sink e (h e (by simp)),
      ih _ _ (fun e' he' => h e' (by simp [he']))]
    rfl

theorem settleEvs_inner : ∀ (fuel : Nat) (l : List (Stage α)), ∀ e ∈ settleEvs fuel l, Inner e = true := by
  intro fuel
  induction fuel with
  | zero => intro l e he; simp [settleEvs] at he
  | succ fuel ih =>
    intro l e he
    match l with
    | [] => simp [settleEvs] at he
    | [s] =>
      simp only [settleEvs, List.mem_replicate] at he
      rw [he.2]; rfl
    | s :: t :: rest =>
      simp only [settleEvs, List.mem_append, List.mem_replicate, List.mem_singleton, List.mem_map] at he
      rcases he with (⟨_, rfl⟩ | rfl) | ⟨e', he', rfl⟩
      · rfl
      · rfl
      · exact shift_inner e' (ih _ e' he')

/-- draining the last channel into the sink -/
theorem drain_last : ∀ (bs : List (List α)) (s : Stage α) (sink : List α), s.chan = bs →
    runL ([s], sink) (List.replicate bs.length (.recv 0 [])) = ([{ s with chan := [] }], sink ++ bs.flatten) := by
  intro bs
  induction bs with
  | nil => intro s sink h; cases s; simp_all [runL]
  | cons b bs ih =>
    intro s sink h
    rw [List.length_cons, List.replicate_succ, runL]
    have : stepL ([s], sink) (.recv 0 []) = ([{ s with chan := bs }], sink ++ b) := by
      simp [stepL, recvL, h]
    rw [this, ih _ _ rfl]
    simp [List.append_assoc]

/-- draining channel 0 into block 1 -/
theorem drain_head : ∀ (bs : List (List α)) (s t : Stage α) (rest : List (Stage α)) (sink : List α),
    s.chan = bs →
    runL (s :: t :: rest, sink) (List.replicate bs.length (.recv 0 [])) =
      ({ s with chan := [] } :: t.feedAll bs :: rest, sink) := by
  intro bs
  induction bs with
  | nil => intro s t rest sink h; cases s; simp_all [runL, Stage.feedAll]
  | cons b bs ih =>
    intro s t rest sink h
    rw [List.length_cons, List.replicate_succ, runL]
    have : stepL (s :: t :: rest, sink) (.recv 0 []) = ({ s with chan := bs } :: t.feed b [] :: rest, sink) := by
      simp [stepL, recvL, h]
    rw [this, ih _ _ _ _ rfl]
    simp [Stage.feedAll]

theorem feedAll_spec : ∀ (bs : List (List α)) (t : Stage α), StageOk t →
    StageOk (t.feedAll bs) ∧ (t.feedAll bs).mode = t.mode := by
  intro bs
  induction bs with
  | nil => intro t h; exact ⟨h, rfl⟩
  | cons b bs ih =>
    intro t h
    obtain ⟨_, g2, _, g4, _⟩ := feed_spec t b [] h
    obtain ⟨k1, k2⟩ := ih _ g2
    exact ⟨k1, k2.trans g4⟩

/-- after its (single) timeout the block holds nothing in its batcher -/
theorem afterTimeout_spec (s t : Stage α) (hs : s.chan = []) (ht : StageOk t)
    (ha : isAdaptive t.mode = true) :
    (Stage.afterTimeout s t).buf = [] ∧ StageOk (Stage.afterTimeout s t) ∧
    (Stage.afterTimeout s t).mode = t.mode := by
  unfold Stage.afterTimeout
  split
  · obtain ⟨_, g2, _, g4, g5, _⟩ := flushIdle_spec t
    exact ⟨g5, g2, g4⟩
  · rename_i hne
    have hidle : t.idle = true := by
      simp [timeoutEnabled, hs, ha] at hne; exact hne
    exact ⟨ht.2 hidle, ht, rfl⟩

/-- **Settling.** From a stage list whose head has an empty batcher and whose other blocks are
    adaptive, the schedule `settleEvs` leaves every buffer and every channel empty. -/
theorem settle_quiescent : ∀ (fuel : Nat) (l : List (Stage α)) (sink : List α), l.length ≤ fuel →
    AllOk l → (∀ s ∈ l.head?, s.buf = []) → (∀ t ∈ l.tail, isAdaptive t.mode = true) →
    Quiescent (runL (l, sink) (settleEvs fuel l)).1 := by
  intro fuel
  induction fuel with
  | zero =>
    intro l sink hl _ _ _
    have : l = [] := List.eq_nil_of_length_eq_zero (by omega)
    subst this
    intro s hs; simp [settleEvs, runL] at hs
  | succ fuel ih =>
    intro l sink hl hok hhead hadp
    match l with
    | [] => intro s hs; simp [settleEvs, runL] at hs
    | [s] =>
      rw [settleEvs, drain_last s.chan s sink rfl]
      intro u hu
      simp only [List.mem_singleton] at hu
      subst hu
      exact ⟨hhead s (by simp), rfl⟩
    | s :: t :: rest =>
      have hsb : s.buf = [] := hhead s (by simp)
      have hta : isAdaptive t.mode = true := hadp t (by simp)
      obtain ⟨f1, f2⟩ := feedAll_spec s.chan t (hok t (by simp))
      obtain ⟨a1, a2, a3⟩ := afterTimeout_spec { s with chan := [] } (t.feedAll s.chan) rfl f1
        (by rw [f2]; exact hta)
      rw [settleEvs, runL_append, runL_append, drain_head s.chan s t rest sink rfl]
      have hto : runL ({ s with chan := [] } :: t.feedAll s.chan :: rest, sink) [Ev.timeout 1] =
          ({ s with chan := [] } :: Stage.afterTimeout { s with chan := [] } (t.feedAll s.chan) :: rest, sink) := by
        simp only [runL, stepL, timeoutL, Stage.afterTimeout]
        split <;> rfl
      rw [hto, runL_shift _ _ _ _ (settleEvs_inner fuel _)]
      have hq := ih (Stage.afterTimeout { s with chan := [] } (t.feedAll s.chan) :: rest) sink
        (by simp at hl ⊢; omega)
        (by
          intro u hu
          simp only [List.mem_cons] at hu
          rcases hu with rfl | hu
          · exact a2
          · exact hok u (by simp [hu]))
        (by intro u hu; simp at hu; subst hu; exact a1)
        (by intro u hu; exact hadp u (by simp at hu ⊢; exact Or.inr hu))
      intro u hu
      simp only [List.mem_cons] at hu
      rcases hu with rfl | hu
      · exact ⟨hsb, rfl⟩
      · exact hq u hu

/-- the timeouts of the schedule: exactly one per non-source block, in pipeline order -/
theorem timeoutIdx_shift (es : List (Ev α)) :
    (es.map Ev.shift).filterMap timeoutIdx = (es.filterMap timeoutIdx).map (· + 1) := by
  induction es with
  | nil => rfl
  | cons e es ih =>
    cases e <;> simp only [List.map_cons, Ev.shift, List.filterMap_cons, timeoutIdx, ih, List.map_cons]

theorem map_succ_range' : ∀ (n a : Nat), (List.range' a n).map (· + 1) = List.range' (a + 1) n := by
  intro n
  induction n with
  | zero => intro a; rfl
  | succ n ih => intro a; simp [List.range'_succ, ih]

theorem filterMap_replicate_recv (k : Nat) :
    (List.replicate k (Ev.recv 0 [] : Ev α)).filterMap timeoutIdx = [] := by
  induction k with
  | zero => rfl
  | succ k _ => simp [List.replicate_succ, timeoutIdx]

theorem settleEvs_timeouts : ∀ (fuel : Nat) (l : List (Stage α)), l.length ≤ fuel →
    (settleEvs fuel l).filterMap timeoutIdx = List.range' 1 (l.length - 1) := by
  intro fuel
  induction fuel with
  | zero =>
    intro l hl
    have : l = [] := List.eq_nil_of_length_eq_zero (by omega)
    subst this; rfl
  | succ fuel ih =>
    intro l hl
    match l with
    | [] => rfl
    | [s] => simp [settleEvs, filterMap_replicate_recv]
    | s :: t :: rest =>
      rw [settleEvs, List.filterMap_append, List.filterMap_append, filterMap_replicate_recv,
        timeoutIdx_shift, ih _ (by simp at hl ⊢; omega)]
      simp only [List.length_cons, Nat.add_sub_cancel, List.nil_append, List.filterMap_cons,
        timeoutIdx, List.filterMap_nil]
      rw [map_succ_range', List.range'_succ]
      rfl

theorem settleEvs_noSrc (fuel : Nat) (l : List (Stage α)) : ∀ e ∈ settleEvs fuel l, Ev.isSrc e = false := by
  intro e he
  have := settleEvs_inner fuel l e he
  cases e <;> simp_all [Inner, Ev.isSrc]

/-! ### facts about the initial state and the ghost -/

theorem fsOf_init (cfg : List (Batcher.Mode × (α → List α))) :
    fsOf (State.init cfg).stages = cfg.map (·.2) := by
  simp [State.init, fsOf, Stage.new, List.map_map, Function.comp_def]

theorem modes_init (cfg : List (Batcher.Mode × (α → List α))) :
    (State.init cfg).stages.map (·.mode) = cfg.map (·.1) := by
  simp [State.init, Stage.new, List.map_map, Function.comp_def]

/-- the items of the `src` events of a schedule, in order -/
def srcItems : List (Ev α) → List α
  | [] => []
  | .src x _ :: es => x :: srcItems es
  | _ :: es => srcItems es

theorem run_emitted : ∀ (es : List (Ev α)) (s : State α), Inv s → s.stages ≠ [] →
    (run s es).emitted = s.emitted ++ srcItems es := by
  intro es
  induction es with
  | nil => intro s _ _; simp [run, srcItems]
  | cons e es ih =>
    intro s h hne
    obtain ⟨h1, h2⟩ := step_inv s e h
    have hne' : (step s e).stages ≠ [] := by
      intro h0
      have := congrArg List.length h2.1
      simp [fsOf, h0] at this
      exact hne (List.eq_nil_of_length_eq_zero this.symm)
    rw [run, ih _ h1 hne']
    cases e with
    | src x els =>
      cases hst : s.stages with
      | nil => exact absurd hst hne
      | cons s0 rest => simp [step, hst, srcItems]
    | srcIdle =>
      cases hst : s.stages with
      | nil => exact absurd hst hne
      | cons s0 rest => simp [step, hst, srcItems]
    | recv i els => simp [step, srcItems]
    | timeout i => simp [step, srcItems]

/-- **Quiescing from any state that satisfies the invariant.** -/
theorem quiesce_spec (s : State α) (h : Inv s)
    (hadp : ∀ t ∈ s.stages.tail, isAdaptive t.mode = true) :
    let q := run s (quiesceSched s)
    Quiescent q.stages ∧ q.sink = downF (fsOf s.stages) s.emitted ∧ q.emitted = s.emitted ∧
    fsOf q.stages = fsOf s.stages ∧
    (quiesceSched s).filterMap timeoutIdx = List.range' 1 (s.stages.length - 1) ∧
    (∀ e ∈ quiesceSched s, Ev.isSrc e = false) := by
  intro q
  cases hst : s.stages with
  | nil =>
    have hq : q = s := by simp [q, quiesceSched, hst, run]
    have hb := h.bal
    rw [hst] at hb
    refine ⟨by rw [hq, hst]; intro t ht; simp at ht, ?_, by rw [hq], by rw [hq, hst], by simp [quiesceSched, hst],
      by simp [quiesceSched, hst]⟩
    rw [hq]; simpa [pending] using hb
  | cons s0 rest =>
    have hsched : quiesceSched s = .srcIdle :: settleEvs (rest.length + 1) (s0.flushIdle :: rest) := by
      simp [quiesceSched, hst]
    obtain ⟨hi1, hc1⟩ := step_inv s .srcIdle h
    have hstep : (step s .srcIdle).stages = s0.flushIdle :: rest := by simp [step, hst]
    have hinner := settleEvs_inner (rest.length + 1) (s0.flushIdle :: rest)
    have hq : q = ⟨(runL (s0.flushIdle :: rest, s.sink) (settleEvs (rest.length + 1) (s0.flushIdle :: rest))).1,
        (runL (s0.flushIdle :: rest, s.sink) (settleEvs (rest.length + 1) (s0.flushIdle :: rest))).2, s.emitted⟩ := by
      simp only [q, hsched, run]
      rw [run_inner _ _ hinner, hstep]
      simp [step, hst]
    obtain ⟨hi2, hc2⟩ := run_inv (settleEvs (rest.length + 1) (s0.flushIdle :: rest)) _ hi1
    have hq' : q = run (step s .srcIdle) (settleEvs (rest.length + 1) (s0.flushIdle :: rest)) := by
      simp only [q, hsched, run]
    have hquiet : Quiescent q.stages := by
      rw [hq]
      apply settle_quiescent _ _ _ (by simp)
      · rw [← hstep]; exact hi1.ok
      · intro u hu; simp at hu; subst hu; exact (flushIdle_spec s0).2.2.2.2.1
      · intro t ht; exact hadp t (by rw [hst]; simpa using ht)
    have hfs : fsOf q.stages = fsOf s.stages := by rw [hq']; exact hc2.1.trans hc1.1
    have hem : q.emitted = s.emitted := by rw [hq]
    refine ⟨hquiet, ?_, hem, by rw [← hst]; exact hfs, ?_, ?_⟩
    · have hb := hi2.bal
      rw [← hq', pending_quiescent _ hquiet, List.append_nil, hfs, hem] at hb
      rw [← hst]; exact hb
    · rw [hsched, List.filterMap_cons]
      simp only [timeoutIdx]
      rw [settleEvs_timeouts _ _ (by simp)]
      simp
    · intro e he
      rw [hsched] at he
      simp only [List.mem_cons] at he
      rcases he with rfl | he
      · rfl
      · exact settleEvs_noSrc _ _ e he

/-! ### the work bound `phi` decreases with every enabled event except `src` -/

def bw (w : α → Nat) (buf : List α) : Nat := (buf.map (fun y => 2 + w y)).sum
def cw (w : α → Nat) (chan : List (List α)) : Nat := (chan.map (fun b => 2 + (b.map w).sum)).sum
def stageW (w : α → Nat) (t : Stage α) : Nat := bw w t.buf + cw w t.chan
def armed (t : Stage α) : Nat := if t.idle then 0 else 1

theorem phi_cons (s : Stage α) (rest : List (Stage α)) :
    phi (s :: rest) = stageW (wt (fsOf rest)) s + armed s + phi rest := rfl

theorem bw_append (w : α → Nat) (a b : List α) : bw w (a ++ b) = bw w a + bw w b := by
  simp [bw, List.sum_append]

theorem cw_append (w : α → Nat) (a b : List (List α)) : cw w (a ++ b) = cw w a + cw w b := by
  simp [cw, List.sum_append]

theorem sum_le_bw (w : α → Nat) (l : List α) : (l.map w).sum ≤ bw w l := by
  induction l with
  | nil => simp [bw]
  | cons x l ih => simp only [bw, List.map_cons, List.sum_cons] at ih ⊢; omega

theorem batch_le (w : α → Nat) (l : List α) (h : l ≠ []) : 2 + (l.map w).sum ≤ bw w l := by
  cases l with
  | nil => exact absurd rfl h
  | cons x l =>
    have := sum_le_bw w l
    simp only [bw, List.map_cons, List.sum_cons] at this ⊢; omega

theorem flush_work (w : α → Nat) (buf : List α) :
    cw w (Batcher.flush buf).2 + bw w (Batcher.flush buf).1 ≤ bw w buf := by
  cases buf with
  | nil => simp [Batcher.flush, cw, bw]
  | cons x l =>
    have := batch_le w (x :: l) (by simp)
    simp only [Batcher.flush, List.isEmpty_cons, Bool.false_eq_true, if_false]
    simp only [cw, List.map_cons, List.map_nil, List.sum_cons, List.sum_nil] at this ⊢
    simp only [bw, List.map_nil, List.sum_nil] at this ⊢
    omega

theorem enqueue_work (m : Batcher.Mode) (buf : List α) (x : α) (el : Bool) (w : α → Nat) :
    cw w (Batcher.enqueue m buf x el).2 + bw w (Batcher.enqueue m buf x el).1 ≤ bw w buf + (2 + w x) := by
  have hb : bw w (buf ++ [x]) = bw w buf + (2 + w x) := by simp [bw_append, bw]
  cases m with
  | single => simp [Batcher.enqueue, cw, bw]; omega
  | fixed n =>
    simp only [Batcher.enqueue]
    split
    · have := flush_work w (buf ++ [x]); omega
    · simp [cw, hb]
  | adaptive n =>
    simp only [Batcher.enqueue]
    split
    · have := flush_work w (buf ++ [x]); omega
    · simp [cw, hb]

theorem push_work (w : α → Nat) (t : Stage α) (x : α) (el : Bool) :
    stageW w (t.push x el) ≤ stageW w t + (2 + w x) := by
  have := enqueue_work t.mode t.buf x el w
  simp only [stageW, Stage.push, cw_append]
  omega

theorem pushAll_work (w : α → Nat) : ∀ (xs : List α) (t : Stage α) (els : List Bool),
    stageW w (t.pushAll xs els) ≤ stageW w t + bw w xs := by
  intro xs
  induction xs with
  | nil => intro t els; simp [Stage.pushAll, bw]
  | cons x xs ih =>
    intro t els
    have h1 := push_work w t x (els.headD false)
    have h2 := ih (t.push x (els.headD false)) els.tail
    simp only [Stage.pushAll]
    have : bw w (x :: xs) = (2 + w x) + bw w xs := by simp [bw]
    omega

theorem bw_flatMap (f : α → List α) (fs : List (α → List α)) (b : List α) :
    bw (wt fs) (b.flatMap f) = (b.map (wt (f :: fs))).sum := by
  induction b with
  | nil => simp [bw]
  | cons y b ih =>
    rw [List.flatMap_cons, bw_append, ih]
    simp [wt, bw]

theorem feed_work (fs : List (α → List α)) (t : Stage α) (b : List α) (els : List Bool) :
    stageW (wt fs) (t.feed b els) ≤ stageW (wt fs) t + (b.map (wt (t.f :: fs))).sum := by
  have := pushAll_work (wt fs) (b.flatMap t.f) t els
  rw [bw_flatMap] at this
  simpa [Stage.feed, stageW] using this

theorem flushIdle_work (w : α → Nat) (t : Stage α) : stageW w t.flushIdle ≤ stageW w t := by
  have := flush_work w t.buf
  simp only [stageW, Stage.flushIdle, cw_append]
  omega

theorem recvL_work : ∀ (i : Nat) (els : List Bool) (l : List (Stage α)) (sink : List α), AllOk l →
    (recvEnabledL i l = true → phi (recvL i els l sink).1 < phi l) ∧
    (recvEnabledL i l = false → recvL i els l sink = (l, sink)) := by
  intro i
  induction i with
  | zero =>
    intro els l sink hok
    cases l with
    | nil => simp [recvEnabledL, recvL]
    | cons s rest =>
      cases hc : s.chan with
      | nil => simp [recvEnabledL, recvL, hc]
      | cons b bs =>
        refine ⟨fun _ => ?_, fun h => by simp [recvEnabledL, hc] at h⟩
        cases rest with
        | nil =>
          simp only [recvL, hc, phi_cons, stageW, armed, cw, List.map_cons, List.sum_cons]
          omega
        | cons t rest' =>
          obtain ⟨_, _, g3, _, g5⟩ := feed_spec t b els (hok t (by simp))
          have hw := feed_work (fsOf rest') t b els
          simp only [recvL, hc, phi_cons, fsOf, List.map_cons, g3]
          simp only [stageW, armed, g5, cw, List.map_cons, List.sum_cons, hc, Bool.false_eq_true, if_false] at hw ⊢
          have : (if t.idle = true then 0 else 1) + 1 ≥ 1 := by omega
          simp only [fsOf] at hw
          split <;> omega
  | succ i ih =>
    intro els l sink hok
    cases l with
    | nil => simp [recvEnabledL, recvL]
    | cons s rest =>
      have hok' : AllOk rest := fun t ht => hok t (by simp [ht])
      obtain ⟨h1, h2⟩ := ih els rest sink hok'
      obtain ⟨_, _, g3, _⟩ := recvL_spec i els rest sink hok'
      refine ⟨fun he => ?_, fun he => ?_⟩
      · have := h1 (by simpa [recvEnabledL] using he)
        simp only [recvL, phi_cons, g3]
        omega
      · have := h2 (by simpa [recvEnabledL] using he)
        simp only [recvL, this]

theorem timeoutL_work : ∀ (i : Nat) (l : List (Stage α)), AllOk l →
    (timeoutEnabledL i l = true → phi (timeoutL i l) < phi l) ∧
    (timeoutEnabledL i l = false → timeoutL i l = l) := by
  intro i
  induction i using Nat.strongRecOn with
  | _ i ih =>
    intro l hok
    match i, l with
    | 0, l => simp [timeoutEnabledL, timeoutL]
    | _ + 1, [] => simp [timeoutEnabledL, timeoutL]
    | _ + 1, [s] => simp [timeoutEnabledL, timeoutL]
    | 1, s :: t :: rest =>
      refine ⟨fun he => ?_, fun he => ?_⟩
      · have he' : timeoutEnabled s t = true := by simpa [timeoutEnabledL] using he
        have hidle : t.idle = false := by
          simp only [timeoutEnabled, Bool.and_eq_true, Bool.not_eq_true'] at he'; exact he'.1.2
        obtain ⟨_, _, g3, _, _, g6⟩ := flushIdle_spec t
        have hw := flushIdle_work (wt (fsOf rest)) t
        simp only [timeoutL, he', if_true, phi_cons, fsOf, List.map_cons, g3, armed, g6, hidle]
        simp only [fsOf] at hw
        simp; omega
      · have he' : timeoutEnabled s t = false := by simpa [timeoutEnabledL] using he
        simp [timeoutL, he']
    | i + 2, s :: t :: rest =>
      have hok' : AllOk (t :: rest) := fun u hu => hok u (by simp [hu])
      obtain ⟨h1, h2⟩ := ih (i + 1) (by omega) (t :: rest) hok'
      obtain ⟨_, _, g3, _⟩ := timeoutL_spec (i + 1) (t :: rest) hok'
      refine ⟨fun he => ?_, fun he => ?_⟩
      · have := h1 (by simpa [timeoutEnabledL] using he)
        have e1 := phi_cons s (timeoutL (i + 1) (t :: rest))
        have e2 := phi_cons s (t :: rest)
        rw [g3] at e1
        simp only [timeoutL]
        omega
      · have := h2 (by simpa [timeoutEnabledL] using he)
        simp only [timeoutL, this]

/-- every event except `src`: if enabled it lowers the work bound, otherwise it changes nothing -/
theorem step_work (s : State α) (h : Inv s) (e : Ev α) (he : Ev.isSrc e = false) :
    (Enabled s e = true → phi (step s e).stages < phi s.stages) ∧
    (Enabled s e = false → step s e = s) := by
  cases e with
  | src x els => simp [Ev.isSrc] at he
  | srcIdle =>
    cases hst : s.stages with
    | nil => simp [Enabled, step, hst]
    | cons s0 rest =>
      have hs0 := h.ok s0 (by rw [hst]; simp)
      refine ⟨fun hen => ?_, fun hen => ?_⟩
      · have hidle : s0.idle = false := by simpa [Enabled, hst] using hen
        obtain ⟨_, _, g3, _, _, g6⟩ := flushIdle_spec s0
        have hw := flushIdle_work (wt (fsOf rest)) s0
        simp only [step, hst, phi_cons, armed, g6, hidle]
        simp; omega
      · have hidle : s0.idle = true := by simpa [Enabled, hst] using hen
        have hb := hs0.2 hidle
        have : s0.flushIdle = s0 := by
          cases s0; simp_all [Stage.flushIdle, Batcher.flush]
        cases s
        simp_all [step]
  | recv i els =>
    obtain ⟨h1, h2⟩ := recvL_work i els s.stages s.sink h.ok
    refine ⟨fun hen => by simpa [step] using h1 (by simpa [Enabled] using hen), fun hen => ?_⟩
    have := h2 (by simpa [Enabled] using hen)
    cases s
    simp_all [step]
  | timeout i =>
    obtain ⟨h1, h2⟩ := timeoutL_work i s.stages h.ok
    refine ⟨fun hen => by simpa [step] using h1 (by simpa [Enabled] using hen), fun hen => ?_⟩
    have := h2 (by simpa [Enabled] using hen)
    cases s
    simp_all [step]

theorem run_work : ∀ (es : List (Ev α)) (s : State α), Inv s → (∀ e ∈ es, Ev.isSrc e = false) →
    countEnabled s es + phi (run s es).stages ≤ phi s.stages := by
  intro es
  induction es with
  | nil => intro s _ _; simp [countEnabled, run]
  | cons e es ih =>
    intro s h hes
    obtain ⟨h1, h2⟩ := step_work s h e (hes e (by simp))
    have hi := (step_inv s e h).1
    have := ih (step s e) hi (fun e' he' => hes e' (by simp [he']))
    simp only [countEnabled, run]
    cases hen : Enabled s e with
    | true => have := h1 hen; simp; omega
    | false => rw [h2 hen] at this ⊢; simp; omega

theorem chans_empty_of_stuck : ∀ (l : List (Stage α)), (∀ i, recvEnabledL i l = false) →
    ∀ t ∈ l, t.chan = [] := by
  intro l
  induction l with
  | nil => intro _ t ht; simp at ht
  | cons s rest ih =>
    intro h t ht
    simp only [List.mem_cons] at ht
    rcases ht with rfl | ht
    · have := h 0
      simpa [recvEnabledL] using this
    · exact ih (fun i => by simpa [recvEnabledL] using h (i + 1)) t ht

theorem idle_of_stuck : ∀ (l : List (Stage α)), (∀ i, timeoutEnabledL i l = false) →
    (∀ t ∈ l, t.chan = []) → (∀ t ∈ l.tail, isAdaptive t.mode = true) → ∀ t ∈ l.tail, t.idle = true := by
  intro l
  induction l with
  | nil => intro _ _ _ t ht; simp at ht
  | cons s rest ih =>
    intro h hch hadp t ht
    cases rest with
    | nil => simp at ht
    | cons u rest' =>
      simp only [List.tail_cons, List.mem_cons] at ht
      rcases ht with rfl | ht
      · have h1 := h 1
        have hs := hch s (by simp)
        have ha := hadp t (by simp)
        simp [timeoutEnabledL, timeoutEnabled, hs, ha] at h1
        exact h1
      · exact ih (fun i => by
            cases i with
            | zero => rfl
            | succ j => simpa [timeoutEnabledL] using h (j + 2))
          (fun v hv => hch v (by simp [hv])) (fun v hv => hadp v (by simp at hv ⊢; exact Or.inr hv)) t
          (by simpa using ht)

/-- when nothing but new input is enabled, nothing is buffered or queued any more -/
theorem stuck_quiescent (s : State α) (h : Inv s) (hst : Stuck s)
    (hadp : ∀ t ∈ s.stages.tail, isAdaptive t.mode = true) : Quiescent s.stages := by
  have hch := chans_empty_of_stuck s.stages (fun i => hst (.recv i []) rfl)
  have hid := idle_of_stuck s.stages (fun i => hst (.timeout i) rfl) hch hadp
  intro t ht
  refine ⟨?_, hch t ht⟩
  cases hl : s.stages with
  | nil => rw [hl] at ht; simp at ht
  | cons s0 rest =>
    rw [hl] at ht hid
    simp only [List.mem_cons] at ht
    rcases ht with rfl | ht
    · have := hst .srcIdle rfl
      have hidle : t.idle = true := by simpa [Enabled, hl] using this
      exact (h.ok t (by rw [hl]; simp)).2 hidle
    · exact (h.ok t (by rw [hl]; simp [ht])).2 (hid t (by simpa using ht))

theorem srcItems_noSrc : ∀ (es : List (Ev α)), (∀ e ∈ es, Ev.isSrc e = false) → srcItems es = [] := by
  intro es
  induction es with
  | nil => intro _; rfl
  | cons e es ih =>
    intro h
    have he := h e (by simp)
    cases e with
    | src x els => simp [Ev.isSrc] at he
    | srcIdle => exact ih (fun e' he' => h e' (by simp [he']))
    | recv i els => exact ih (fun e' he' => h e' (by simp [he']))
    | timeout i => exact ih (fun e' he' => h e' (by simp [he']))

/-! ### a block times out at most once between two receives -/

def idleAtL : Nat → List (Stage α) → Bool
  | _, [] => true
  | 0, s :: _ => s.idle
  | i + 1, _ :: rest => idleAtL i rest

theorem idle_blocks_timeout : ∀ (i : Nat) (l : List (Stage α)), idleAtL i l = true → timeoutEnabledL i l = false := by
  intro i
  induction i using Nat.strongRecOn with
  | _ i ih =>
    intro l h
    match i, l with
    | 0, l => rfl
    | _ + 1, [] => rfl
    | _ + 1, [s] => rfl
    | 1, s :: t :: rest =>
      have : t.idle = true := by simpa [idleAtL] using h
      simp [timeoutEnabledL, timeoutEnabled, this]
    | i + 2, s :: t :: rest =>
      have := ih (i + 1) (by omega) (t :: rest) (by simpa [idleAtL] using h)
      simpa [timeoutEnabledL] using this

theorem timeout_sets_idle : ∀ (i : Nat) (l : List (Stage α)), timeoutEnabledL i l = true →
    idleAtL i (timeoutL i l) = true := by
  intro i
  induction i using Nat.strongRecOn with
  | _ i ih =>
    intro l h
    match i, l with
    | 0, l => simp [timeoutEnabledL] at h
    | _ + 1, [] => simp [timeoutEnabledL] at h
    | _ + 1, [s] => simp [timeoutEnabledL] at h
    | 1, s :: t :: rest =>
      have he : timeoutEnabled s t = true := by simpa [timeoutEnabledL] using h
      simp [timeoutL, he, idleAtL, Stage.flushIdle]
    | i + 2, s :: t :: rest =>
      have := ih (i + 1) (by omega) (t :: rest) (by simpa [timeoutEnabledL] using h)
      simpa [timeoutL, idleAtL] using this

theorem timeout_keeps_idle : ∀ (j i : Nat) (l : List (Stage α)), idleAtL i l = true →
    idleAtL i (timeoutL j l) = true := by
  intro j
  induction j using Nat.strongRecOn with
  | _ j ih =>
    intro i l h
    match j, l with
    | 0, l => simpa [timeoutL] using h
    | _ + 1, [] => simp [timeoutL, idleAtL]
    | _ + 1, [s] => simpa [timeoutL] using h
    | 1, s :: t :: rest =>
      simp only [timeoutL]
      split
      · match i with
        | 0 => simpa [idleAtL] using h
        | 1 => simp [idleAtL, Stage.flushIdle]
        | i + 2 => simpa [idleAtL] using h
      · exact h
    | j + 2, s :: t :: rest =>
      simp only [timeoutL]
      match i with
      | 0 => simpa [idleAtL] using h
      | i + 1 => exact ih (j + 1) (by omega) i (t :: rest) (by simpa [idleAtL] using h)

theorem recv_keeps_idle : ∀ (j : Nat) (els : List Bool) (i : Nat) (l : List (Stage α)) (sink : List α),
    j + 1 ≠ i → idleAtL i (recvL j els l sink).1 = idleAtL i l := by
  intro j
  induction j with
  | zero =>
    intro els i l sink hne
    cases l with
    | nil => rfl
    | cons s rest =>
      cases hc : s.chan with
      | nil => simp [recvL, hc]
      | cons b bs =>
        cases rest with
        | nil => cases i <;> simp [recvL, hc, idleAtL]
        | cons t rest' =>
          match i with
          | 0 => simp [recvL, hc, idleAtL]
          | 1 => exact absurd rfl hne
          | i + 2 => simp [recvL, hc, idleAtL]
  | succ j ih =>
    intro els i l sink hne
    cases l with
    | nil => rfl
    | cons s rest =>
      match i with
      | 0 => simp [recvL, idleAtL]
      | i + 1 => simpa [recvL, idleAtL] using ih els i rest sink (by omega)

/-- **One timeout per drained block.** In any schedule (input included) that contains no receive of
    block `i ≥ 1`, at most one `timeout i` is enabled; none if the block is already idle. -/
theorem countTimeouts_le : ∀ (es : List (Ev α)) (i : Nat) (s : State α), 1 ≤ i → noRecvOf i es = true →
    countTimeouts i s es ≤ 1 ∧ (idleAtL i s.stages = true → countTimeouts i s es = 0) := by
  intro es
  induction es with
  | nil => intro i s _ _; simp [countTimeouts]
  | cons e es ih =>
    intro i s hi hno
    obtain ⟨i', rfl⟩ : ∃ i', i = i' + 1 := ⟨i - 1, by omega⟩
    cases e with
    | src x els =>
      obtain ⟨h1, h2⟩ := ih (i' + 1) (step s (.src x els)) hi (by simpa [noRecvOf] using hno)
      have hid : idleAtL (i' + 1) (step s (.src x els)).stages = idleAtL (i' + 1) s.stages := by
        cases hst : s.stages <;> simp [step, hst, idleAtL]
      simp only [countTimeouts, Nat.zero_add]
      exact ⟨h1, fun h => h2 (by rw [hid]; exact h)⟩
    | srcIdle =>
      obtain ⟨h1, h2⟩ := ih (i' + 1) (step s .srcIdle) hi (by simpa [noRecvOf] using hno)
      have hid : idleAtL (i' + 1) (step s .srcIdle).stages = idleAtL (i' + 1) s.stages := by
        cases hst : s.stages <;> simp [step, hst, idleAtL]
      simp only [countTimeouts, Nat.zero_add]
      exact ⟨h1, fun h => h2 (by rw [hid]; exact h)⟩
    | recv j els =>
      have hj : j + 1 ≠ i' + 1 := by
        simp only [noRecvOf, Bool.and_eq_true, bne_iff_ne] at hno; exact hno.1
      obtain ⟨h1, h2⟩ := ih (i' + 1) (step s (.recv j els)) hi (by
        simp only [noRecvOf, Bool.and_eq_true] at hno; exact hno.2)
      have hid : idleAtL (i' + 1) (step s (.recv j els)).stages = idleAtL (i' + 1) s.stages := by
        simpa [step] using recv_keeps_idle j els (i' + 1) s.stages s.sink hj
      simp only [countTimeouts, Nat.zero_add]
      exact ⟨h1, fun h => h2 (by rw [hid]; exact h)⟩
    | timeout j =>
      obtain ⟨h1, h2⟩ := ih (i' + 1) (step s (.timeout j)) hi (by simpa [noRecvOf] using hno)
      have hkeep : idleAtL (i' + 1) s.stages = true → idleAtL (i' + 1) (step s (.timeout j)).stages = true := by
        intro h; simpa [step] using timeout_keeps_idle j (i' + 1) s.stages h
      simp only [countTimeouts]
      by_cases hji : j = i' + 1
      · subst hji
        cases hen : timeoutEnabledL (i' + 1) s.stages with
        | true =>
          have hset : idleAtL (i' + 1) (step s (.timeout (i' + 1))).stages = true := by
            simpa [step] using timeout_sets_idle (i' + 1) s.stages hen
          have h0 := h2 hset
          refine ⟨by simp [Enabled, hen, h0], fun hidle => ?_⟩
          have := idle_blocks_timeout (i' + 1) s.stages hidle
          rw [hen] at this; cases this
        | false =>
          simp only [Enabled, hen, beq_self_eq_true, Bool.and_false, Bool.false_eq_true, if_false, Nat.zero_add]
          exact ⟨h1, fun h => h2 (hkeep h)⟩
      · have e0 : (if (decide (j = i' + 1) && Enabled s (.timeout j)) = true then 1 else 0) = 0 := by
          simp [hji]
        rw [e0, Nat.zero_add]
        exact ⟨h1, fun h => h2 (hkeep h)⟩

end Noir.Latency

/-! ## The general network -/
namespace Noir.Net
open Noir.Batcher (SingleOk)

variable {α : Type}

/-- per-row invariant relative to what the destinations have received over the row's links -/
def RowInv (m : Batcher.Mode) (rcv : Nat → List α) (ρ : Row α) : Prop :=
  ∀ d, rcv d ++ (ρ.out d).flatten ++ ρ.buf d = ρ.sent d ∧ SingleOk m (ρ.buf d)

theorem push_inv (m : Batcher.Mode) (dest : α → Nat) (rcv : Nat → List α) (ρ : Row α) (y : α) (el : Bool)
    (h : RowInv m rcv ρ) :
    RowInv m rcv (ρ.push m dest y el) ∧
    ∀ d, (ρ.push m dest y el).sent d = ρ.sent d ++ (if dest y = d then [y] else []) := by
  constructor
  · intro d
    by_cases hd : d = dest y
    · subst hd
      obtain ⟨h1, h2⟩ := h (dest y)
      have hc := Batcher.enqueue_conserve m (ρ.buf (dest y)) h2 y el
      have hk := Batcher.step_singleOk m (ρ.buf (dest y)) h2 (.enqueue y el)
      refine ⟨?_, by simpa [Row.push, Batcher.step] using hk⟩
      simp only [Row.push, if_true, List.flatten_append, List.append_assoc]
      rw [hc, ← h1]; simp [List.append_assoc]
    · simpa [Row.push, hd] using h d
  · intro d
    by_cases hd : d = dest y
    · subst hd; simp [Row.push]
    · have : ¬ dest y = d := fun h => hd h.symm
      simp [Row.push, hd, this]

theorem pushAll_inv (m : Batcher.Mode) (dest : α → Nat) (rcv : Nat → List α) :
    ∀ (ys : List α) (ρ : Row α) (els : List Bool), RowInv m rcv ρ →
    RowInv m rcv (Row.pushAll m dest ρ ys els) ∧
    ∀ d, (Row.pushAll m dest ρ ys els).sent d = ρ.sent d ++ ys.filter (fun y => dest y = d) := by
  intro ys
  induction ys with
  | nil => intro ρ els h; exact ⟨h, fun d => by simp [Row.pushAll]⟩
  | cons y ys ih =>
    intro ρ els h
    obtain ⟨h1, h2⟩ := push_inv m dest rcv ρ y (els.headD false) h
    obtain ⟨g1, g2⟩ := ih _ els.tail h1
    refine ⟨g1, fun d => ?_⟩
    simp only [Row.pushAll]
    rw [g2 d, h2 d]
    by_cases hd : dest y = d <;> simp [hd, List.filter_cons]

theorem flushAll_inv (m : Batcher.Mode) (rcv : Nat → List α) (ρ : Row α) (h : RowInv m rcv ρ) :
    RowInv m rcv ρ.flushAll ∧ (∀ d, ρ.flushAll.buf d = []) ∧ ρ.flushAll.sent = ρ.sent := by
  refine ⟨fun d => ?_, fun d => Batcher.flush_fst _, rfl⟩
  obtain ⟨h1, _⟩ := h d
  have hc := Batcher.flush_conserve (ρ.buf d)
  refine ⟨?_, fun _ => Batcher.flush_fst _⟩
  simp only [Row.flushAll, List.flatten_append, List.append_assoc]
  rw [hc]; simpa [List.append_assoc] using h1

/-- the invariant of the network -/
structure Inv (c : Cfg α) (s : State α) : Prop where
  /-- per link, exactly and in order: received ++ in flight (channel, then batcher) = enqueued -/
  link : ∀ i r, RowInv (c.mode i) (s.recvOn i r) (s.row i r)
  /-- a replica enqueues towards `d` exactly the elements, of what it made of its input, routed to `d` -/
  routed : ∀ i r d, i ≤ c.depth →
      (s.row i r).sent d = ((s.got i r).flatMap (c.f i)).filter (fun y => dest c i y = d)
  /-- rows beyond the last layer (the sink has no `End`) are never written -/
  beyond : ∀ i r d, c.depth < i → (s.row i r).sent d = []
  /-- a replica in its untimed receive (or asleep source) holds nothing in ANY of its batchers -/
  idle : ∀ i r, s.idle i r = true → ∀ d, (s.row i r).buf d = []

theorem inv_init (c : Cfg α) : Inv c (State.init : State α) := by
  refine ⟨fun i r d => ⟨by simp [State.init, Row.empty], fun _ => rfl⟩, fun i r d _ => by simp [State.init, Row.empty],
    fun i r d _ => rfl, fun i r _ d => rfl⟩

theorem process_inv (c : Cfg α) (s : State α) (i r : Nat) (xs : List α) (els : List Bool)
    (hi : i ≤ c.depth) (h : Inv c s) : Inv c (process c s i r xs els) := by
  obtain ⟨g1, g2⟩ := pushAll_inv (c.mode i) (dest c i) (s.recvOn i r) (xs.flatMap (c.f i)) (s.row i r) els (h.link i r)
  refine ⟨fun i' r' => ?_, fun i' r' d hi' => ?_, fun i' r' d hi' => ?_, fun i' r' hid d => ?_⟩
  · by_cases hir : i' = i ∧ r' = r
    · obtain ⟨rfl, rfl⟩ := hir
      simpa [process, setRow] using g1
    · simpa [process, setRow, hir] using h.link i' r'
  · by_cases hir : i' = i ∧ r' = r
    · obtain ⟨rfl, rfl⟩ := hir
      simp only [process, setRow, and_self, if_true]
      rw [g2 d, h.routed i' r' d hi']
      simp [List.flatMap_append, List.filter_append]
    · simpa [process, setRow, hir] using h.routed i' r' d hi'
  · have hir : ¬ (i' = i ∧ r' = r) := by omega
    simpa [process, setRow, hir] using h.beyond i' r' d hi'
  · by_cases hir : i' = i ∧ r' = r
    · simp [process, hir] at hid
    · have : s.idle i' r' = true := by
        simp only [process] at hid; rw [if_neg hir] at hid; exact hid
      simpa [process, setRow, hir] using h.idle i' r' this d

theorem flushIdle_inv (c : Cfg α) (s : State α) (i r : Nat) (h : Inv c s) : Inv c (flushIdle s i r) := by
  obtain ⟨g1, g2, g3⟩ := flushAll_inv (c.mode i) (s.recvOn i r) (s.row i r) (h.link i r)
  refine ⟨fun i' r' => ?_, fun i' r' d hi' => ?_, fun i' r' d hi' => ?_, fun i' r' hid d => ?_⟩
  · by_cases hir : i' = i ∧ r' = r
    · obtain ⟨rfl, rfl⟩ := hir
      simpa [flushIdle, setRow] using g1
    · simpa [flushIdle, setRow, hir] using h.link i' r'
  · by_cases hir : i' = i ∧ r' = r
    · obtain ⟨rfl, rfl⟩ := hir
      simpa [flushIdle, setRow, g3] using h.routed i' r' d hi'
    · simpa [flushIdle, setRow, hir] using h.routed i' r' d hi'
  · by_cases hir : i' = i ∧ r' = r
    · obtain ⟨rfl, rfl⟩ := hir
      simpa [flushIdle, setRow, g3] using h.beyond i' r' d hi'
    · simpa [flushIdle, setRow, hir] using h.beyond i' r' d hi'
  · by_cases hir : i' = i ∧ r' = r
    · obtain ⟨rfl, rfl⟩ := hir
      simpa [flushIdle, setRow] using g2 d
    · have : s.idle i' r' = true := by
        simp only [flushIdle] at hid; rw [if_neg hir] at hid; exact hid
      simpa [flushIdle, setRow, hir] using h.idle i' r' this d

/-- taking the oldest batch `b` off link `(j, u) → (j+1, r)` -/
theorem pop_inv (c : Cfg α) (s : State α) (j u r : Nat) (b : List α) (bs : List (List α))
    (hout : (s.row j u).out r = b :: bs) (h : Inv c s) :
    Inv c (pop s j u r b bs) := by
  unfold pop
  refine ⟨fun i' r' d => ?_, fun i' r' d hi' => ?_, fun i' r' d hi' => ?_, fun i' r' hid d => ?_⟩
  · by_cases hir : i' = j ∧ r' = u
    · obtain ⟨rfl, rfl⟩ := hir
      obtain ⟨h1, h2⟩ := h.link i' r' d
      by_cases hd : d = r
      · subst hd
        rw [hout] at h1
        refine ⟨?_, by simpa [setRow] using h2⟩
        simp only [setRow, and_self, if_true, true_and]
        rw [← h1]; simp [List.append_assoc]
      · simpa [setRow, hd] using h.link i' r' d
    · have : ¬ (i' = j ∧ r' = u ∧ d = r) := fun hh => hir ⟨hh.1, hh.2.1⟩
      simpa [setRow, hir, this] using h.link i' r' d
  · by_cases hir : i' = j ∧ r' = u
    · obtain ⟨rfl, rfl⟩ := hir
      simpa [setRow] using h.routed i' r' d hi'
    · simpa [setRow, hir] using h.routed i' r' d hi'
  · by_cases hir : i' = j ∧ r' = u
    · obtain ⟨rfl, rfl⟩ := hir
      simpa [setRow] using h.beyond i' r' d hi'
    · simpa [setRow, hir] using h.beyond i' r' d hi'
  · by_cases hir : i' = j ∧ r' = u
    · obtain ⟨rfl, rfl⟩ := hir
      simpa [setRow] using h.idle i' r' hid d
    · simpa [setRow, hir] using h.idle i' r' hid d

theorem step_inv (c : Cfg α) (s : State α) (e : Ev α) (h : Inv c s) : Inv c (step c s e) := by
  cases e with
  | src r x els =>
    simp only [step]
    split
    · exact process_inv c s 0 r [x] els (Nat.zero_le _) h
    · exact h
  | srcIdle r =>
    simp only [step]
    split
    · exact flushIdle_inv c s 0 r h
    · exact h
  | timeout i r =>
    simp only [step]
    split
    · exact flushIdle_inv c s i r h
    · exact h
  | recv i r u els =>
    simp only [step]
    split
    · split
      · exact h
      · rename_i b bs hout
        have hp := pop_inv c s (i - 1) u r b bs hout h
        split
        · rename_i hi
          exact process_inv c _ i r b els hi hp
        · rename_i hi
          -- the sink: only its ghost `got` changes, and `routed` does not speak about it
          refine ⟨hp.link, fun i' r' d hi' => ?_, hp.beyond, hp.idle⟩
          have hir : ¬ (i' = i ∧ r' = r) := by omega
          simpa [sinkGot, hir] using hp.routed i' r' d hi'
    · exact h

theorem run_inv (c : Cfg α) : ∀ (es : List (Ev α)) (s : State α), Inv c s → Inv c (run c s es) := by
  intro es
  induction es with
  | nil => intro s h; exact h
  | cons e es ih => intro s h; exact ih _ (step_inv c s e h)

/-! ### termination: the work bound of the network -/

theorem sumTo_point_le (g g' : Nat → Nat) (k0 δ : Nat) (hne : ∀ k, k ≠ k0 → g' k = g k)
    (hk : g' k0 ≤ g k0 + δ) : ∀ n, sumTo n g' ≤ sumTo n g + δ := by
  intro n
  induction n with
  | zero => simp [sumTo]
  | succ n ih =>
    simp only [sumTo]
    by_cases h : n = k0
    · subst h
      have : sumTo n g' = sumTo n g := by
        clear ih hk
        have : ∀ m, m ≤ n → sumTo m g' = sumTo m g := by
          intro m
          induction m with
          | zero => intro _; rfl
          | succ m ihm => intro hm; simp only [sumTo]; rw [ihm (by omega), hne m (by omega)]
        exact this n (Nat.le_refl _)
      omega
    · rw [hne n h]; omega

theorem sumTo_congr (g g' : Nat → Nat) : ∀ n, (∀ k, k < n → g' k = g k) → sumTo n g' = sumTo n g := by
  intro n
  induction n with
  | zero => intro _; rfl
  | succ n ih => intro h; simp only [sumTo]; rw [ih (fun k hk => h k (by omega)), h n (by omega)]

theorem sumTo_point_dec (g g' : Nat → Nat) (k0 δ : Nat) (hne : ∀ k, k ≠ k0 → g' k = g k)
    (hk : g' k0 + δ ≤ g k0) : ∀ n, k0 < n → sumTo n g' + δ ≤ sumTo n g := by
  intro n
  induction n with
  | zero => intro h; omega
  | succ n ih =>
    intro hlt
    simp only [sumTo]
    by_cases h : n = k0
    · subst h
      rw [sumTo_congr g g' n (fun k hk => hne k (by omega))]
      omega
    · have := ih (by omega)
      rw [hne n h]; omega

theorem sumTo_mono (g g' : Nat → Nat) : ∀ n, (∀ k, g' k ≤ g k) → sumTo n g' ≤ sumTo n g := by
  intro n h
  induction n with
  | zero => simp [sumTo]
  | succ n ih => simp only [sumTo]; have := h n; omega

open Noir.Latency (bw cw sum_le_bw batch_le flush_work enqueue_work bw_append cw_append)

theorem cellW_eq (c : Cfg α) (s : State α) (i r d : Nat) :
    cellW c s i r d = bw (wOut c i) ((s.row i r).buf d) + cw (wOut c i) ((s.row i r).out d) := rfl

/-- weight of a row's cells as a function of the row alone -/
def rowCells (c : Cfg α) (i : Nat) (ρ : Row α) (d : Nat) : Nat :=
  bw (wOut c i) (ρ.buf d) + cw (wOut c i) (ρ.out d)

theorem push_cells (c : Cfg α) (i : Nat) (dest : α → Nat) (ρ : Row α) (y : α) (el : Bool) (n : Nat) :
    sumTo n (rowCells c i (ρ.push (c.mode i) dest y el)) ≤ sumTo n (rowCells c i ρ) + (2 + wOut c i y) := by
  apply sumTo_point_le _ _ (dest y)
  · intro k hk; simp [rowCells, Row.push, hk]
  · have := enqueue_work (c.mode i) (ρ.buf (dest y)) y el (wOut c i)
    simp only [rowCells, Row.push, if_true, cw_append]
    omega

theorem pushAll_cells (c : Cfg α) (i : Nat) (dest : α → Nat) (n : Nat) :
    ∀ (ys : List α) (ρ : Row α) (els : List Bool),
    sumTo n (rowCells c i (Row.pushAll (c.mode i) dest ρ ys els)) ≤ sumTo n (rowCells c i ρ) + bw (wOut c i) ys := by
  intro ys
  induction ys with
  | nil => intro ρ els; simp [Row.pushAll, bw]
  | cons y ys ih =>
    intro ρ els
    have h1 := push_cells c i dest ρ y (els.headD false) n
    have h2 := ih (ρ.push (c.mode i) dest y (els.headD false)) els.tail
    have : bw (wOut c i) (y :: ys) = (2 + wOut c i y) + bw (wOut c i) ys := by simp [bw]
    simp only [Row.pushAll]
    omega

theorem flushAll_cells (c : Cfg α) (i : Nat) (ρ : Row α) (n : Nat) :
    sumTo n (rowCells c i ρ.flushAll) ≤ sumTo n (rowCells c i ρ) := by
  apply sumTo_mono
  intro k
  have := flush_work (wOut c i) (ρ.buf k)
  simp only [rowCells, Row.flushAll, cw_append]
  omega

theorem bw_flatMap_net (c : Cfg α) (i : Nat) (hi1 : 1 ≤ i) (hi : i ≤ c.depth) (b : List α) :
    bw (wOut c i) (b.flatMap (c.f i)) = (b.map (wOut c (i - 1))).sum := by
  have hw : ∀ y, wOut c (i - 1) y = ((c.f i y).map (fun z => 2 + wOut c i z)).sum := by
    intro y
    have e1 : c.depth - (i - 1) = (c.depth - i) + 1 := by omega
    have e2 : i - 1 + 1 = i := by omega
    simp only [wOut, e1, e2, wtN]
  induction b with
  | nil => simp [bw]
  | cons y b ih =>
    rw [List.flatMap_cons, bw_append, ih, List.map_cons, List.sum_cons, hw y]
    simp [bw]

/-- `phi` only depends on the rows and idle flags of real replicas -/
theorem rowW_eq (c : Cfg α) (s : State α) (i r : Nat) :
    rowW c s i r = sumTo (c.width (i + 1)) (rowCells c i (s.row i r)) + (if s.idle i r then 0 else 1) := rfl

/-- changing one real replica's row/flag by at most `+δ` -/
theorem phi_point_le (c : Cfg α) (s s' : State α) (i0 r0 δ : Nat)
    (hne : ∀ i r, ¬ (i = i0 ∧ r = r0) → rowW c s' i r = rowW c s i r)
    (hk : rowW c s' i0 r0 ≤ rowW c s i0 r0 + δ) : phi c s' ≤ phi c s + δ := by
  unfold phi
  apply sumTo_point_le _ _ i0
  · intro i hi
    exact sumTo_congr _ _ _ (fun r _ => hne i r (fun h => hi h.1))
  · apply sumTo_point_le _ _ r0
    · intro r hr; exact hne i0 r (fun h => hr h.2)
    · exact hk

theorem phi_point_dec (c : Cfg α) (s s' : State α) (i0 r0 δ : Nat) (hi0 : i0 ≤ c.depth) (hr0 : r0 < c.width i0)
    (hne : ∀ i r, ¬ (i = i0 ∧ r = r0) → rowW c s' i r = rowW c s i r)
    (hk : rowW c s' i0 r0 + δ ≤ rowW c s i0 r0) : phi c s' + δ ≤ phi c s := by
  unfold phi
  apply sumTo_point_dec _ _ i0 δ _ _ _ (by omega)
  · intro i hi
    exact sumTo_congr _ _ _ (fun r _ => hne i r (fun h => hi h.1))
  · apply sumTo_point_dec _ _ r0 δ _ _ _ hr0
    · intro r hr; exact hne i0 r (fun h => hr h.2)
    · exact hk

theorem process_work (c : Cfg α) (s : State α) (i r : Nat) (xs : List α) (els : List Bool) :
    phi c (process c s i r xs els) ≤ phi c s + bw (wOut c i) (xs.flatMap (c.f i)) + 1 := by
  have := phi_point_le c s (process c s i r xs els) i r (bw (wOut c i) (xs.flatMap (c.f i)) + 1)
    (by
      intro i' r' hne
      simp only [rowW_eq, process, setRow, if_neg hne])
    (by
      have hc := pushAll_cells c i (dest c i) (c.width (i + 1)) (xs.flatMap (c.f i)) (s.row i r) els
      simp only [rowW_eq, process, setRow, and_self, if_true]
      split <;> simp <;> omega)
  omega

theorem flushIdle_work (c : Cfg α) (s : State α) (i r : Nat) (hi : i ≤ c.depth) (hr : r < c.width i)
    (hidle : s.idle i r = false) : phi c (flushIdle s i r) + 1 ≤ phi c s := by
  apply phi_point_dec c s (flushIdle s i r) i r 1 hi hr
  · intro i' r' hne
    simp only [rowW_eq, flushIdle, setRow, if_neg hne]
  · have hc := flushAll_cells c i (s.row i r) (c.width (i + 1))
    simp only [rowW_eq, flushIdle, setRow, and_self, if_true, hidle]
    simp; omega

/-- every event except `src`: enabled → the work bound drops; not enabled → nothing changes -/
theorem step_work (c : Cfg α) (s : State α) (e : Ev α) (he : Ev.isSrc e = false) :
    (Enabled c s e = true → phi c (step c s e) < phi c s) ∧
    (Enabled c s e = false → step c s e = s) := by
  cases e with
  | src r x els => simp [Ev.isSrc] at he
  | srcIdle r =>
    refine ⟨fun hen => ?_, fun hen => by simp only [Enabled] at hen; simp [step, hen]⟩
    simp only [Enabled, Bool.and_eq_true, decide_eq_true_eq, Bool.not_eq_true'] at hen
    have := flushIdle_work c s 0 r (Nat.zero_le _) hen.1 hen.2
    simp only [step, hen.1, hen.2, decide_true, Bool.not_false, Bool.and_self, if_true]
    omega
  | timeout i r =>
    refine ⟨fun hen => ?_, fun hen => by simp only [Enabled] at hen; simp [step, hen]⟩
    simp only [Enabled] at hen
    have hen' := hen
    simp only [timeoutEnabled, Bool.and_eq_true, decide_eq_true_eq, Bool.not_eq_true'] at hen'
    have := flushIdle_work c s i r hen'.1.1.1.1.2 hen'.1.1.1.2 hen'.1.2
    simp only [step, hen, if_true]
    omega
  | recv i r u els =>
    constructor
    · intro hen
      simp only [Enabled, Bool.and_eq_true, Bool.not_eq_true', List.isEmpty_eq_false_iff] at hen
      obtain ⟨hg, hne⟩ := hen
      have hg' := hg
      simp only [recvGuard, Bool.and_eq_true, decide_eq_true_eq] at hg'
      obtain ⟨⟨⟨hi1, hi2⟩, hr⟩, hu⟩ := hg'
      cases hout : (s.row (i - 1) u).out r with
      | nil => exact absurd hout hne
      | cons b bs =>
        simp only [step, hg, if_true, hout]
        -- first the pop …
        have hpop : phi c (pop s (i - 1) u r b bs) + (2 + (b.map (wOut c (i - 1))).sum) ≤ phi c s := by
          apply phi_point_dec c s _ (i - 1) u _ (by omega) hu
          · intro i' r' hne'
            simp only [rowW_eq, pop, setRow, if_neg hne']
          · have hcell : sumTo (c.width (i - 1 + 1)) (rowCells c (i - 1) ((pop s (i - 1) u r b bs).row (i - 1) u))
                + (2 + (b.map (wOut c (i - 1))).sum) ≤ sumTo (c.width (i - 1 + 1)) (rowCells c (i - 1) (s.row (i - 1) u)) := by
              apply sumTo_point_dec _ _ r
              · intro k hk; simp [rowCells, pop, setRow, hk]
              · simp only [rowCells, pop, setRow, and_self, if_true, hout, cw, List.map_cons, List.sum_cons]; omega
              · have : i - 1 + 1 = i := by omega
                rw [this]; exact hr
            have hid : (pop s (i - 1) u r b bs).idle (i - 1) u = s.idle (i - 1) u := rfl
            rw [rowW_eq, rowW_eq, hid]
            omega
        split
        · rename_i hid
          have hp := process_work c (pop s (i - 1) u r b bs) i r b els
          rw [bw_flatMap_net c i hi1 hid b] at hp
          omega
        · -- the sink
          have : phi c (sinkGot (pop s (i - 1) u r b bs) i r b) = phi c (pop s (i - 1) u r b bs) := rfl
          omega
    · intro hen
      simp only [Enabled, Bool.and_eq_false_iff, Bool.not_eq_false', List.isEmpty_iff] at hen
      rcases hen with hg | hout
      · simp [step, hg]
      · simp only [step, hout]
        split <;> rfl

theorem run_work (c : Cfg α) : ∀ (es : List (Ev α)) (s : State α), (∀ e ∈ es, Ev.isSrc e = false) →
    countEnabled c s es + phi c (run c s es) ≤ phi c s := by
  intro es
  induction es with
  | nil => intro s _; simp [countEnabled, run]
  | cons e es ih =>
    intro s hes
    obtain ⟨h1, h2⟩ := step_work c s e (hes e (by simp))
    have := ih (step c s e) (fun e' he' => hes e' (by simp [he']))
    simp only [countEnabled, run]
    cases hen : Enabled c s e with
    | true => have := h1 hen; simp; omega
    | false => rw [h2 hen] at this ⊢; simp; omega

/-- no event but input enabled ⇒ every real link has delivered everything -/
theorem noEnabled_delivered (c : Cfg α) (s : State α) (h : Inv c s) (hst : NoEnabled c s)
    (hadp : ∀ i, 1 ≤ i → i ≤ c.depth → isAdaptive (c.mode i) = true) : Delivered c s := by
  have hout : ∀ i u r, i ≤ c.depth → u < c.width i → r < c.width (i + 1) → (s.row i u).out r = [] := by
    intro i u r hi hu hr
    have := hst (.recv (i + 1) r u []) rfl
    simpa [Enabled, recvGuard, hi, hu, hr] using this
  have hidle : ∀ i r, i ≤ c.depth → r < c.width i → s.idle i r = true := by
    intro i r hi hr
    cases i with
    | zero =>
      have := hst (.srcIdle r) rfl
      simpa [Enabled, hr] using this
    | succ i =>
      have := hst (.timeout (i + 1) r) rfl
      have hin : inputEmpty c s (i + 1) r = true := by
        simp only [inputEmpty, List.all_eq_true, List.mem_range, Nat.add_sub_cancel, List.isEmpty_iff]
        intro u hu
        exact hout i u r (by omega) hu hr
      simpa [Enabled, timeoutEnabled, hi, hr, hin, hadp (i + 1) (by omega) hi] using this
  intro i r d hi hr hd
  have hb := h.idle i r (hidle i r hi hr) d
  have ho := hout i r d hi hr hd
  refine ⟨hb, ho, ?_⟩
  have := (h.link i r d).1
  simpa [ho, hb] using this

/-! ### bounded delay for a serviced batcher -/

theorem rowStep_inv (m : Batcher.Mode) (dest : α → Nat) (rcv : Nat → List α) (ρ : Row α) (op : RowOp α)
    (h : RowInv m rcv ρ) : RowInv m rcv (ρ.step m dest op) := by
  cases op with
  | enq y el => exact (push_inv m dest rcv ρ y el h).1
  | flushAll => exact (flushAll_inv m rcv ρ h).1

theorem runOps_inv (m : Batcher.Mode) (dest : α → Nat) (rcv : Nat → List α) :
    ∀ (ops : List (RowOp α)) (ρ : Row α), RowInv m rcv ρ → RowInv m rcv (Row.runOps m dest ρ ops) := by
  intro ops
  induction ops with
  | nil => intro ρ h; exact h
  | cons op ops ih => intro ρ h; exact ih _ (rowStep_inv m dest rcv ρ op h)

theorem rowStep_mono (m : Batcher.Mode) (dest : α → Nat) (ρ : Row α) (op : RowOp α) (d : Nat) :
    (∃ e, (ρ.step m dest op).out d = ρ.out d ++ e) ∧ (∃ e, (ρ.step m dest op).sent d = ρ.sent d ++ e) := by
  cases op with
  | enq y el =>
    by_cases hd : d = dest y
    · subst hd
      exact ⟨⟨(Batcher.enqueue m (ρ.buf (dest y)) y el).2, by simp [Row.step, Row.push]⟩,
        ⟨[y], by simp [Row.step, Row.push]⟩⟩
    · exact ⟨⟨[], by simp [Row.step, Row.push, hd]⟩, ⟨[], by simp [Row.step, Row.push, hd]⟩⟩
  | flushAll => exact ⟨⟨_, rfl⟩, ⟨[], by simp [Row.step, Row.flushAll]⟩⟩

theorem runOps_mono (m : Batcher.Mode) (dest : α → Nat) (d : Nat) :
    ∀ (ops : List (RowOp α)) (ρ : Row α),
    (∃ e, (Row.runOps m dest ρ ops).out d = ρ.out d ++ e) ∧ (∃ e, (Row.runOps m dest ρ ops).sent d = ρ.sent d ++ e) := by
  intro ops
  induction ops with
  | nil => intro ρ; exact ⟨⟨[], by simp [Row.runOps]⟩, ⟨[], by simp [Row.runOps]⟩⟩
  | cons op ops ih =>
    intro ρ
    obtain ⟨⟨e1, h1⟩, ⟨e2, h2⟩⟩ := rowStep_mono m dest ρ op d
    obtain ⟨⟨e3, h3⟩, ⟨e4, h4⟩⟩ := ih (ρ.step m dest op)
    exact ⟨⟨e1 ++ e3, by simp [Row.runOps, h3, h1]⟩, ⟨e2 ++ e4, by simp [Row.runOps, h4, h2]⟩⟩

theorem runOps_append (m : Batcher.Mode) (dest : α → Nat) (ρ : Row α) (a b : List (RowOp α)) :
    Row.runOps m dest ρ (a ++ b) = Row.runOps m dest (Row.runOps m dest ρ a) b := by
  induction a generalizing ρ with
  | nil => rfl
  | cons op a ih => simp [Row.runOps, ih]

/-- a servicing call leaves the batcher towards `d` empty (`Adaptive`) -/
theorem services_empties (n : Nat) (dest : α → Nat) (ρ : Row α) (d : Nat) (op : RowOp α)
    (hs : services dest d op = true) : (ρ.step (.adaptive n) dest op).buf d = [] := by
  cases op with
  | flushAll => exact Batcher.flush_fst _
  | enq y el =>
    simp only [services, Bool.and_eq_true, decide_eq_true_eq] at hs
    obtain ⟨rfl, rfl⟩ := hs
    simp [Row.step, Row.push, Batcher.enqueue, Batcher.flush_fst]

end Noir.Net
