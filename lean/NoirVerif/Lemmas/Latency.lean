/-
  Lemmas/Latency.lean — helper lemmas for C18: the `ChannelSource` retry automaton and the
  invariants of the logical-time pipeline model.
-/
import NoirVerif.Model.ChannelSource
import NoirVerif.Model.Latency
import NoirVerif.Lemmas.Batcher

/-! ## ChannelSource -/
namespace Noir.ChannelSource

variable {α : Type}

/-- the last event of `prev :: evs` -/
def lastEv (prev : Option (Ev α)) : List (Ev α) → Option (Ev α)
  | [] => prev
  | e :: es => lastEv (some e) es

/-- Invariant of the automaton, relative to the last event `prev`:
    `retry_count ≤ MAX_RETRY + 1`; in a live state it exceeds `MAX_RETRY` only right after
    `FlushBatch` was returned; inside `recv()` it is 0. -/
def Inv (s : St) (prev : Option (Ev α)) : Prop :=
  s.retry ≤ Consts.MAX_RETRY + 1 ∧
  (s.terminated = false → s.retry > Consts.MAX_RETRY → prev = some (.ret .flushBatch)) ∧
  (s.blocked = true → s.retry = 0)

theorem inv_init : Inv init (none : Option (Ev α)) := by
  refine ⟨by simp [init], ?_, by simp [init]⟩
  intro _ h; simp [init] at h

theorem step_inv (s : St) (prev : Option (Ev α)) (p : Poll α) (h : Inv s prev) :
    Inv (step s p).1 (some (step s p).2) := by
  obtain ⟨h1, h2, h3⟩ := h
  cases ht : s.terminated with
  | true =>
    simp only [step, ht, if_true]
    exact ⟨h1, fun hf => by simp [ht] at hf, h3⟩
  | false =>
    cases hb : s.blocked with
    | true =>
      have hr := h3 hb
      cases p with
      | ok a =>
        simp only [step, ht, hb, Bool.false_eq_true, if_false, if_true]
        exact ⟨by simp; omega, fun _ hgt => by simp at hgt; omega, by simp⟩
      | empty =>
        simp only [step, ht, hb, Bool.false_eq_true, if_false, if_true]
        exact ⟨h1, fun _ hgt => by omega, h3⟩
      | disc =>
        simp only [step, ht, hb, Bool.false_eq_true, if_false, if_true]
        exact ⟨by simp; omega, fun hf => by simp at hf, by simp⟩
    | false =>
      cases p with
      | ok a =>
        simp only [step, ht, hb, Bool.false_eq_true, if_false]
        exact ⟨by simp, fun _ hgt => by simp at hgt, by simp⟩
      | disc =>
        simp only [step, ht, hb, Bool.false_eq_true, if_false]
        exact ⟨by simp; omega, fun hf => by simp at hf, by simp⟩
      | empty =>
        simp only [step, ht, hb, Bool.false_eq_true, if_false]
        by_cases hlt : s.retry < Consts.MAX_RETRY
        · simp only [hlt, if_true]
          exact ⟨by simp; omega, fun _ hgt => by simp at hgt; omega, by simp⟩
        · simp only [hlt, if_false]
          by_cases heq : s.retry = Consts.MAX_RETRY
          · simp only [heq, if_true]
            exact ⟨by simp, fun _ _ => rfl, by simp⟩
          · simp only [heq, if_false]
            exact ⟨by simp, fun _ hgt => by simp at hgt, by simp⟩

/-- the step enters `recv()` only from a live, awake state whose counter is past `MAX_RETRY` -/
theorem step_block (s : St) (p : Poll α) (h : (step s p).2 = .block) :
    s.terminated = false ∧ s.retry > Consts.MAX_RETRY := by
  unfold step at h
  by_cases ht : s.terminated = true
  · simp [ht] at h
  · by_cases hb : s.blocked = true
    · simp only [ht, hb, if_true] at h
      cases p <;> simp at h
    · simp only [ht, hb] at h
      cases p with
      | ok a => simp at h
      | disc => simp at h
      | empty =>
        simp only [Bool.false_eq_true, if_false] at h
        by_cases hlt : s.retry < Consts.MAX_RETRY
        · simp [hlt] at h
        · by_cases heq : s.retry = Consts.MAX_RETRY
          · simp [heq] at h
          · exact ⟨by simpa using ht, by omega⟩

theorem block_after_flush_aux : ∀ (ps : List (Poll α)) (s : St) (prev : Option (Ev α)),
    Inv s prev → ∀ i, (runFrom s ps)[i]? = some .block →
      (match i with
       | 0 => prev
       | j + 1 => (runFrom s ps)[j]?) = some (.ret .flushBatch) := by
  intro ps
  induction ps with
  | nil => intro s prev _ i h; simp [runFrom] at h
  | cons p ps ih =>
    intro s prev hinv i h
    cases i with
    | zero =>
      simp only [runFrom, List.getElem?_cons_zero, Option.some.injEq] at h
      obtain ⟨h1, h2⟩ := step_block s p h
      exact hinv.2.1 h1 h2
    | succ i =>
      simp only [runFrom, List.getElem?_cons_succ] at h
      have := ih (step s p).1 (some (step s p).2) (step_inv s prev p hinv) i h
      cases i with
      | zero => simpa [runFrom] using this
      | succ j => simpa [runFrom] using this

theorem stateAfter_inv : ∀ (ps : List (Poll α)) (s : St) (prev : Option (Ev α)),
    Inv s prev → Inv (stateAfter s ps) (lastEv prev (runFrom s ps)) := by
  intro ps
  induction ps with
  | nil => intro s prev h; simpa [stateAfter, runFrom, lastEv] using h
  | cons p ps ih =>
    intro s prev h
    simpa [stateAfter, runFrom, lastEv] using ih _ _ (step_inv s prev p h)

/-- from a live, awake state with `retry + k = MAX_RETRY`: `k` spins, then `FlushBatch` -/
theorem spin_then_flush : ∀ (k : Nat) (s : St), s.terminated = false → s.blocked = false →
    s.retry + k = Consts.MAX_RETRY →
    runFrom s (List.replicate (k + 1) (Poll.empty : Poll α)) =
      List.replicate k Ev.spin ++ [Ev.ret Elem.flushBatch] := by
  intro k
  induction k with
  | zero =>
    intro s ht hb hr
    simp [runFrom, step, ht, hb, show s.retry = Consts.MAX_RETRY by omega]
  | succ k ih =>
    intro s ht hb hr
    have hlt : s.retry < Consts.MAX_RETRY := by omega
    have hs : step s (Poll.empty : Poll α) = ({ s with retry := s.retry + 1 }, .spin) := by
      simp [step, ht, hb, hlt]
    rw [List.replicate_succ, runFrom, hs]
    simp only
    rw [ih _ (by simpa using ht) (by simpa using hb) (by simp; omega)]
    simp [List.replicate_succ]

theorem lastEv_eq : ∀ (l : List (Ev α)) (prev : Option (Ev α)), lastEv prev l = (l.getLast?).or prev := by
  intro l
  induction l with
  | nil => intro prev; rfl
  | cons e es ih =>
    intro prev
    rw [lastEv, ih, List.getLast?_cons]
    cases es.getLast? <;> rfl

end Noir.ChannelSource

/-! ## Pipeline model -/
namespace Noir.Latency
open Noir.Batcher (SingleOk)

variable {α : Type}

/-! ### chains -/

theorem downF_append (fs : List (α → List α)) (xs ys : List α) :
    downF fs (xs ++ ys) = downF fs xs ++ downF fs ys := by
  induction fs generalizing xs ys with
  | nil => rfl
  | cons f fs ih => simp [downF, List.flatMap_append, ih]

theorem downF_nil (fs : List (α → List α)) : downF fs ([] : List α) = [] := by
  induction fs with
  | nil => rfl
  | cons f fs ih => simpa [downF] using ih

/-! ### one stage -/

/-- what a stage holds, oldest first -/
def Stage.held (t : Stage α) : List α := t.chan.flatten ++ t.buf

/-- per-stage invariant: `Single` never buffers; a block in its untimed receive has empty buffers -/
def StageOk (t : Stage α) : Prop := SingleOk t.mode t.buf ∧ (t.idle = true → t.buf = [])

theorem push_held (t : Stage α) (hs : SingleOk t.mode t.buf) (x : α) (el : Bool) :
    (t.push x el).held = t.held ++ [x] ∧ SingleOk (t.push x el).mode (t.push x el).buf ∧
    (t.push x el).f = t.f ∧ (t.push x el).mode = t.mode := by
  have hc := Batcher.enqueue_conserve t.mode t.buf hs x el
  have hk := Batcher.step_singleOk t.mode t.buf hs (.enqueue x el)
  refine ⟨?_, by simpa [Stage.push, Batcher.step] using hk, rfl, rfl⟩
  simp only [Stage.held, Stage.push, List.flatten_append, List.append_assoc]
  rw [hc]

theorem pushAll_held : ∀ (xs : List α) (t : Stage α) (els : List Bool), SingleOk t.mode t.buf →
    (t.pushAll xs els).held = t.held ++ xs ∧ SingleOk (t.pushAll xs els).mode (t.pushAll xs els).buf ∧
    (t.pushAll xs els).f = t.f ∧ (t.pushAll xs els).mode = t.mode := by
  intro xs
  induction xs with
  | nil => intro t els hs; simp [Stage.pushAll, hs]
  | cons x xs ih =>
    intro t els hs
    obtain ⟨h1, h2, h3, h4⟩ := push_held t hs x (els.headD false)
    obtain ⟨g1, g2, g3, g4⟩ := ih (t.push x (els.headD false)) els.tail h2
    simp only [Stage.pushAll]
    refine ⟨by rw [g1, h1]; simp, g2, by rw [g3, h3], by rw [g4, h4]⟩

theorem feed_spec (t : Stage α) (xs : List α) (els : List Bool) (h : StageOk t) :
    (t.feed xs els).held = t.held ++ xs.flatMap t.f ∧ StageOk (t.feed xs els) ∧
    (t.feed xs els).f = t.f ∧ (t.feed xs els).mode = t.mode ∧ (t.feed xs els).idle = false := by
  obtain ⟨g1, g2, g3, g4⟩ := pushAll_held (xs.flatMap t.f) t els h.1
  refine ⟨by simpa [Stage.feed, Stage.held] using g1, ⟨by simpa [Stage.feed] using g2, by simp [Stage.feed]⟩,
    by simpa [Stage.feed] using g3, by simpa [Stage.feed] using g4, rfl⟩

theorem flushIdle_spec (t : Stage α) :
    (t.flushIdle).held = t.held ∧ StageOk t.flushIdle ∧ (t.flushIdle).f = t.f ∧
    (t.flushIdle).mode = t.mode ∧ (t.flushIdle).buf = [] ∧ (t.flushIdle).idle = true := by
  have hc := Batcher.flush_conserve t.buf
  have hf := Batcher.flush_fst t.buf
  refine ⟨?_, ⟨?_, ?_⟩, rfl, rfl, by simpa [Stage.flushIdle] using hf, rfl⟩
  · simp only [Stage.held, Stage.flushIdle, List.flatten_append, List.append_assoc]
    rw [hc]
  · intro _; simpa [Stage.flushIdle] using hf
  · intro _; simpa [Stage.flushIdle] using hf

/-! ### the pipeline invariant -/

def AllOk (l : List (Stage α)) : Prop := ∀ t ∈ l, StageOk t

theorem pending_cons (s : Stage α) (rest : List (Stage α)) :
    pending (s :: rest) = pending rest ++ downF (fsOf rest) s.held := rfl

/-- `recv` conserves: delivered ++ in flight is unchanged, chains and modes are unchanged -/
theorem recvL_spec : ∀ (i : Nat) (els : List Bool) (l : List (Stage α)) (sink : List α), AllOk l →
    (recvL i els l sink).2 ++ pending (recvL i els l sink).1 = sink ++ pending l ∧
    AllOk (recvL i els l sink).1 ∧ fsOf (recvL i els l sink).1 = fsOf l ∧
    (recvL i els l sink).1.map (·.mode) = l.map (·.mode) := by
  intro i
  induction i with
  | zero =>
    intro els l sink hok
    cases l with
    | nil => simp [recvL, pending, AllOk, fsOf]
    | cons s rest =>
      cases hc : s.chan with
      | nil => simp [recvL, hc, hok]
      | cons b bs =>
        cases rest with
        | nil =>
          have hs := hok s (by simp)
          simp only [recvL, hc]
          refine ⟨?_, ?_, by simp [fsOf], by simp⟩
          · simp [pending, fsOf, downF, hc, List.append_assoc]
          · intro t ht
            simp at ht; subst ht
            exact ⟨hs.1, hs.2⟩
        | cons t rest' =>
          have hs := hok s (by simp)
          have ht := hok t (by simp)
          obtain ⟨g1, g2, g3, g4, _⟩ := feed_spec t b els ht
          simp only [recvL, hc]
          refine ⟨?_, ?_, by simp [fsOf, g3], by simp [g4]⟩
          · simp only [pending_cons, Stage.held, hc, List.flatten_cons, List.append_assoc]
            have e1 : (t.feed b els).chan.flatten ++ (t.feed b els).buf
                = t.chan.flatten ++ (t.buf ++ b.flatMap t.f) := by
              have := g1; simp only [Stage.held, List.append_assoc] at this; exact this
            rw [e1]
            simp only [fsOf, List.map_cons, g3, downF, downF_append, List.flatMap_append,
              List.append_assoc]
          · intro u hu
            simp only [List.mem_cons] at hu
            rcases hu with rfl | rfl | hu
            · exact ⟨hs.1, hs.2⟩
            · exact g2
            · exact hok u (by simp [hu])
  | succ i ih =>
    intro els l sink hok
    cases l with
    | nil => simp [recvL, pending, AllOk, fsOf]
    | cons s rest =>
      obtain ⟨g1, g2, g3, g4⟩ := ih els rest sink (fun t ht => hok t (by simp [ht]))
      simp only [recvL]
      refine ⟨?_, ?_, by simp [fsOf] at g3 ⊢; exact g3, by simp [g4]⟩
      · rw [pending_cons, pending_cons, g3, ← List.append_assoc, g1, List.append_assoc]
      · intro u hu
        simp only [List.mem_cons] at hu
        rcases hu with rfl | hu
        · exact hok u (by simp)
        · exact g2 u hu

theorem timeoutL_spec : ∀ (i : Nat) (l : List (Stage α)), AllOk l →
    pending (timeoutL i l) = pending l ∧ AllOk (timeoutL i l) ∧ fsOf (timeoutL i l) = fsOf l ∧
    (timeoutL i l).map (·.mode) = l.map (·.mode) := by
  intro i
  induction i using Nat.strongRecOn with
  | _ i ih =>
    intro l hok
    match i, l with
    | 0, l => simp [timeoutL, hok]
    | _ + 1, [] => simp [timeoutL, pending, AllOk, fsOf]
    | _ + 1, [s] => simp [timeoutL, hok]
    | 1, s :: t :: rest =>
      simp only [timeoutL]
      split
      · obtain ⟨g1, g2, g3, g4, _⟩ := flushIdle_spec t
        refine ⟨?_, ?_, by simp [fsOf, g3], by simp [g4]⟩
        · simp only [pending_cons, g1, fsOf, List.map_cons, g3]
        · intro u hu
          simp only [List.mem_cons] at hu
          rcases hu with rfl | rfl | hu
          · exact hok u (by simp)
          · exact g2
          · exact hok u (by simp [hu])
      · exact ⟨rfl, hok, rfl, rfl⟩
    | i + 2, s :: t :: rest =>
      obtain ⟨g1, g2, g3, g4⟩ := ih (i + 1) (by omega) (t :: rest) (fun u hu => hok u (by simp [hu]))
      simp only [timeoutL]
      refine ⟨?_, ?_, by simp only [fsOf, List.map_cons] at g3 ⊢; rw [g3], by simp only [List.map_cons] at g4 ⊢; rw [g4]⟩
      · rw [pending_cons, pending_cons, g3, g1]
      · intro u hu
        simp only [List.mem_cons] at hu
        rcases hu with rfl | hu
        · exact hok u (by simp)
        · exact g2 u hu

/-- the invariant of the whole state -/
structure Inv (s : State α) : Prop where
  ok : AllOk s.stages
  /-- conservation: delivered ++ in flight (as the sink will see it) = what the chains make of
      everything emitted -/
  bal : s.sink ++ pending s.stages = downF (fsOf s.stages) s.emitted

theorem inv_init (cfg : List (Batcher.Mode × (α → List α))) : Inv (State.init cfg) := by
  constructor
  · intro t ht
    simp only [State.init, List.mem_map] at ht
    obtain ⟨c, _, rfl⟩ := ht
    exact ⟨fun _ => rfl, fun _ => rfl⟩
  · simp only [State.init, List.nil_append, downF_nil]
    induction cfg with
    | nil => rfl
    | cons c cfg ih =>
      rw [List.map_cons, pending_cons, ih]
      simp [Stage.held, Stage.new, downF_nil]

/-- static part of the state: chains and modes never change -/
def sameCfg (s s' : State α) : Prop :=
  fsOf s'.stages = fsOf s.stages ∧ s'.stages.map (·.mode) = s.stages.map (·.mode)

theorem step_inv (s : State α) (e : Ev α) (h : Inv s) : Inv (step s e) ∧ sameCfg s (step s e) := by
  obtain ⟨hok, hbal⟩ := h
  cases e with
  | src x els =>
    cases hst : s.stages with
    | nil => simp only [step, hst]; exact ⟨⟨by rw [hst]; intro t ht; simp at ht, by rw [hst] at hbal ⊢; exact hbal⟩, by simp [sameCfg]⟩
    | cons s0 rest =>
      rw [hst] at hok hbal
      obtain ⟨g1, g2, g3, g4, _⟩ := feed_spec s0 [x] els (hok s0 (by simp))
      simp only [step, hst]
      refine ⟨⟨?_, ?_⟩, by simp [sameCfg, fsOf, g3, g4, hst]⟩
      · intro u hu
        simp only [List.mem_cons] at hu
        rcases hu with rfl | hu
        · exact g2
        · exact hok u (by simp [hu])
      · simp only [pending_cons, g1, fsOf, List.map_cons, g3, downF,
          downF_append, List.flatMap_cons, List.flatMap_nil, List.append_nil]
        simp only [pending_cons, fsOf, List.map_cons, downF] at hbal
        rw [← hbal]; simp [List.append_assoc]
  | srcIdle =>
    cases hst : s.stages with
    | nil => simp only [step, hst]; exact ⟨⟨by rw [hst]; intro t ht; simp at ht, by rw [hst] at hbal ⊢; exact hbal⟩, by simp [sameCfg]⟩
    | cons s0 rest =>
      rw [hst] at hok hbal
      obtain ⟨g1, g2, g3, g4, _⟩ := flushIdle_spec s0
      simp only [step, hst]
      refine ⟨⟨?_, ?_⟩, by simp [sameCfg, fsOf, g3, g4, hst]⟩
      · intro u hu
        simp only [List.mem_cons] at hu
        rcases hu with rfl | hu
        · exact g2
        · exact hok u (by simp [hu])
      · simp only [pending_cons, g1, fsOf, List.map_cons, g3]
        simpa [pending_cons, fsOf] using hbal
  | recv i els =>
    obtain ⟨g1, g2, g3, g4⟩ := recvL_spec i els s.stages s.sink hok
    simp only [step]
    exact ⟨⟨g2, by simp only; rw [g1, g3]; exact hbal⟩, ⟨g3, g4⟩⟩
  | timeout i =>
    obtain ⟨g1, g2, g3, g4⟩ := timeoutL_spec i s.stages hok
    simp only [step]
    exact ⟨⟨g2, by simp only; rw [g1, g3]; exact hbal⟩, ⟨g3, g4⟩⟩

theorem run_inv : ∀ (es : List (Ev α)) (s : State α), Inv s → Inv (run s es) ∧ sameCfg s (run s es) := by
  intro es
  induction es with
  | nil => intro s h; exact ⟨h, rfl, rfl⟩
  | cons e es ih =>
    intro s h
    obtain ⟨h1, h2⟩ := step_inv s e h
    obtain ⟨h3, h4⟩ := ih _ h1
    exact ⟨h3, h4.1.trans h2.1, h4.2.trans h2.2⟩

theorem pending_quiescent (l : List (Stage α)) (hq : Quiescent l) : pending l = [] := by
  induction l with
  | nil => rfl
  | cons s rest ih =>
    have hs := hq s (by simp)
    rw [pending_cons, ih (fun t ht => hq t (by simp [ht]))]
    simp [Stage.held, hs.1, hs.2, downF_nil]

theorem run_append (s : State α) (a b : List (Ev α)) : run s (a ++ b) = run (run s a) b := by
  induction a generalizing s with
  | nil => rfl
  | cons e a ih => simp [run, ih]


/-! ### the quiescing schedule -/

/-- list-level step for the events that do not touch the source -/
def stepL (p : List (Stage α) × List α) : Ev α → List (Stage α) × List α
  | .recv i els => recvL i els p.1 p.2
  | .timeout i => (timeoutL i p.1, p.2)
  | _ => p

def runL (p : List (Stage α) × List α) : List (Ev α) → List (Stage α) × List α
  | [] => p
  | e :: es => runL (stepL p e) es

/-- events of blocks ≥ 1 / channels: `recv i`, `timeout (i+1)` -/
def Inner : Ev α → Bool
  | .recv _ _ => true
  | .timeout (_ + 1) => true
  | _ => false

theorem runL_append (p : List (Stage α) × List α) (a b : List (Ev α)) :
    runL p (a ++ b) = runL (runL p a) b := by
  induction a generalizing p with
  | nil => rfl
  | cons e a ih => simp [runL, ih]

theorem step_inner (s : State α) (e : Ev α) (he : Inner e = true) :
    step s e = ⟨(stepL (s.stages, s.sink) e).1, (stepL (s.stages, s.sink) e).2, s.emitted⟩ := by
  cases e with
  | recv i els => rfl
  | timeout i => rfl
  | src x els => simp [Inner] at he
  | srcIdle => simp [Inner] at he

theorem run_inner : ∀ (es : List (Ev α)) (s : State α), (∀ e ∈ es, Inner e = true) →
    run s es = ⟨(runL (s.stages, s.sink) es).1, (runL (s.stages, s.sink) es).2, s.emitted⟩ := by
  intro es
  induction es with
  | nil => intro s _; rfl
  | cons e es ih =>
    intro s h
    rw [run, step_inner s e (h e (by simp)), ih _ (fun e' he' => h e' (by simp [he']))]
    rfl

theorem shift_inner (e : Ev α) (he : Inner e = true) : Inner e.shift = true := by
  cases e with
  | recv i els => rfl
  | timeout i => rfl
  | src x els => simp [Inner] at he
  | srcIdle => simp [Inner] at he

theorem stepL_shift (s : Stage α) (rest : List (Stage α)) (sink : List α) (e : Ev α)
    (he : Inner e = true) :
    stepL (s :: rest, sink) e.shift = (s :: (stepL (rest, sink) e).1, (stepL (rest, sink) e).2) := by
  cases e with
  | recv i els => rfl
  | src x els => simp [Inner] at he
  | srcIdle => simp [Inner] at he
  | timeout i =>
    cases i with
    | zero => simp [Inner] at he
    | succ i =>
      cases rest with
      | nil => cases i <;> simp [stepL, Ev.shift, timeoutL]
      | cons t rest => simp [stepL, Ev.shift, timeoutL]

theorem runL_shift (s : Stage α) : ∀ (es : List (Ev α)) (rest : List (Stage α)) (sink : List α),
    (∀ e ∈ es, Inner e = true) →
    runL (s :: rest, sink) (es.map Ev.shift) = (s :: (runL (rest, sink) es).1, (runL (rest, sink) es).2) := by
  intro es
  induction es with
  | nil => intro rest sink _; rfl
  | cons e es ih =>
    intro rest sink h
    rw [List.map_cons, runL, stepL_shift s rest sink e (h e (by simp)),
      ih _ _ (fun e' he' => h e' (by simp [he']))]
    rfl

theorem settleEvs_inner : ∀ (fuel : Nat) (l : List (Stage α)), ∀ e ∈ settleEvs fuel l, Inner e = true := by
  intro fuel
  induction fuel with
  | zero => intro l e he; simp [settleEvs] at he
  | succ fuel ih =>
    intro l e he
    match l with
    | [] => simp [settleEvs] at he
    | [s] =>
      simp only [settleEvs, List.mem_replicate] at he
      rw [he.2]; rfl
    | s :: t :: rest =>
      simp only [settleEvs, List.mem_append, List.mem_replicate, List.mem_singleton, List.mem_map] at he
      rcases he with (⟨_, rfl⟩ | rfl) | ⟨e', he', rfl⟩
      · rfl
      · rfl
      · exact shift_inner e' (ih _ e' he')

/-- draining the last channel into the sink -/
theorem drain_last : ∀ (bs : List (List α)) (s : Stage α) (sink : List α), s.chan = bs →
    runL ([s], sink) (List.replicate bs.length (.recv 0 [])) = ([{ s with chan := [] }], sink ++ bs.flatten) := by
  intro bs
  induction bs with
  | nil => intro s sink h; cases s; simp_all [runL]
  | cons b bs ih =>
    intro s sink h
    rw [List.length_cons, List.replicate_succ, runL]
    have : stepL ([s], sink) (.recv 0 []) = ([{ s with chan := bs }], sink ++ b) := by
      simp [stepL, recvL, h]
    rw [this, ih _ _ rfl]
    simp [List.append_assoc]

/-- draining channel 0 into block 1 -/
theorem drain_head : ∀ (bs : List (List α)) (s t : Stage α) (rest : List (Stage α)) (sink : List α),
    s.chan = bs →
    runL (s :: t :: rest, sink) (List.replicate bs.length (.recv 0 [])) =
      ({ s with chan := [] } :: t.feedAll bs :: rest, sink) := by
  intro bs
  induction bs with
  | nil => intro s t rest sink h; cases s; simp_all [runL, Stage.feedAll]
  | cons b bs ih =>
    intro s t rest sink h
    rw [List.length_cons, List.replicate_succ, runL]
    have : stepL (s :: t :: rest, sink) (.recv 0 []) = ({ s with chan := bs } :: t.feed b [] :: rest, sink) := by
      simp [stepL, recvL, h]
    rw [this, ih _ _ _ _ rfl]
    simp [Stage.feedAll]

theorem feedAll_spec : ∀ (bs : List (List α)) (t : Stage α), StageOk t →
    StageOk (t.feedAll bs) ∧ (t.feedAll bs).mode = t.mode := by
  intro bs
  induction bs with
  | nil => intro t h; exact ⟨h, rfl⟩
  | cons b bs ih =>
    intro t h
    obtain ⟨_, g2, _, g4, _⟩ := feed_spec t b [] h
    obtain ⟨k1, k2⟩ := ih _ g2
    exact ⟨k1, k2.trans g4⟩

/-- after its (single) timeout the block holds nothing in its batcher -/
theorem afterTimeout_spec (s t : Stage α) (hs : s.chan = []) (ht : StageOk t)
    (ha : isAdaptive t.mode = true) :
    (Stage.afterTimeout s t).buf = [] ∧ StageOk (Stage.afterTimeout s t) ∧
    (Stage.afterTimeout s t).mode = t.mode := by
  unfold Stage.afterTimeout
  split
  · obtain ⟨_, g2, _, g4, g5, _⟩ := flushIdle_spec t
    exact ⟨g5, g2, g4⟩
  · rename_i hne
    have hidle : t.idle = true := by
      simp [timeoutEnabled, hs, ha] at hne; exact hne
    exact ⟨ht.2 hidle, ht, rfl⟩

/-- **Settling.** From a stage list whose head has an empty batcher and whose other blocks are
    adaptive, the schedule `settleEvs` leaves every buffer and every channel empty. -/
theorem settle_quiescent : ∀ (fuel : Nat) (l : List (Stage α)) (sink : List α), l.length ≤ fuel →
    AllOk l → (∀ s ∈ l.head?, s.buf = []) → (∀ t ∈ l.tail, isAdaptive t.mode = true) →
    Quiescent (runL (l, sink) (settleEvs fuel l)).1 := by
  intro fuel
  induction fuel with
  | zero =>
    intro l sink hl _ _ _
    have : l = [] := List.eq_nil_of_length_eq_zero (by omega)
    subst this
    intro s hs; simp [settleEvs, runL] at hs
  | succ fuel ih =>
    intro l sink hl hok hhead hadp
    match l with
    | [] => intro s hs; simp [settleEvs, runL] at hs
    | [s] =>
      rw [settleEvs, drain_last s.chan s sink rfl]
      intro u hu
      simp only [List.mem_singleton] at hu
      subst hu
      exact ⟨hhead s (by simp), rfl⟩
    | s :: t :: rest =>
      have hsb : s.buf = [] := hhead s (by simp)
      have hta : isAdaptive t.mode = true := hadp t (by simp)
      obtain ⟨f1, f2⟩ := feedAll_spec s.chan t (hok t (by simp))
      obtain ⟨a1, a2, a3⟩ := afterTimeout_spec { s with chan := [] } (t.feedAll s.chan) rfl f1
        (by rw [f2]; exact hta)
      rw [settleEvs, runL_append, runL_append, drain_head s.chan s t rest sink rfl]
      have hto : runL ({ s with chan := [] } :: t.feedAll s.chan :: rest, sink) [Ev.timeout 1] =
          ({ s with chan := [] } :: Stage.afterTimeout { s with chan := [] } (t.feedAll s.chan) :: rest, sink) := by
        simp only [runL, stepL, timeoutL, Stage.afterTimeout]
        split <;> rfl
      rw [hto, runL_shift _ _ _ _ (settleEvs_inner fuel _)]
      have hq := ih (Stage.afterTimeout { s with chan := [] } (t.feedAll s.chan) :: rest) sink
        (by simp at hl ⊢; omega)
        (by
          intro u hu
          simp only [List.mem_cons] at hu
          rcases hu with rfl | hu
          · exact a2
          · exact hok u (by simp [hu]))
        (by intro u hu; simp at hu; subst hu; exact a1)
        (by intro u hu; exact hadp u (by simp at hu ⊢; exact Or.inr hu))
      intro u hu
      simp only [List.mem_cons] at hu
      rcases hu with rfl | hu
      · exact ⟨hsb, rfl⟩
      · exact hq u hu

/-- the timeouts of the schedule: exactly one per non-source block, in pipeline order -/
theorem timeoutIdx_shift (es : List (Ev α)) :
    (es.map Ev.shift).filterMap timeoutIdx = (es.filterMap timeoutIdx).map (· + 1) := by
  induction es with
  | nil => rfl
  | cons e es ih =>
    cases e <;> simp only [List.map_cons, Ev.shift, List.filterMap_cons, timeoutIdx, ih, List.map_cons]

theorem map_succ_range' : ∀ (n a : Nat), (List.range' a n).map (· + 1) = List.range' (a + 1) n := by
  intro n
  induction n with
  | zero => intro a; rfl
  | succ n ih => intro a; simp [List.range'_succ, ih]

theorem filterMap_replicate_recv (k : Nat) :
    (List.replicate k (Ev.recv 0 [] : Ev α)).filterMap timeoutIdx = [] := by
  induction k with
  | zero => rfl
  | succ k _ => simp [List.replicate_succ, timeoutIdx]

theorem settleEvs_timeouts : ∀ (fuel : Nat) (l : List (Stage α)), l.length ≤ fuel →
    (settleEvs fuel l).filterMap timeoutIdx = List.range' 1 (l.length - 1) := by
  intro fuel
  induction fuel with
  | zero =>
    intro l hl
    have : l = [] := List.eq_nil_of_length_eq_zero (by omega)
    subst this; rfl
  | succ fuel ih =>
    intro l hl
    match l with
    | [] => rfl
    | [s] => simp [settleEvs, filterMap_replicate_recv]
    | s :: t :: rest =>
      rw [settleEvs, List.filterMap_append, List.filterMap_append, filterMap_replicate_recv,
        timeoutIdx_shift, ih _ (by simp at hl ⊢; omega)]
      simp only [List.length_cons, Nat.add_sub_cancel, List.nil_append, List.filterMap_cons,
        timeoutIdx, List.filterMap_nil]
      rw [map_succ_range', List.range'_succ]
      rfl

theorem settleEvs_noSrc (fuel : Nat) (l : List (Stage α)) : ∀ e ∈ settleEvs fuel l, Ev.isSrc e = false := by
  intro e he
  have := settleEvs_inner fuel l e he
  cases e <;> simp_all [Inner, Ev.isSrc]

/-! ### facts about the initial state and the ghost -/

theorem fsOf_init (cfg : List (Batcher.Mode × (α → List α))) :
    fsOf (State.init cfg).stages = cfg.map (·.2) := by
  simp [State.init, fsOf, Stage.new, List.map_map, Function.comp_def]

theorem modes_init (cfg : List (Batcher.Mode × (α → List α))) :
    (State.init cfg).stages.map (·.mode) = cfg.map (·.1) := by
  simp [State.init, Stage.new, List.map_map, Function.comp_def]

/-- the items of the `src` events of a schedule, in order -/
def srcItems : List (Ev α) → List α
  | [] => []
  | .src x _ :: es => x :: srcItems es
  | _ :: es => srcItems es

theorem run_emitted : ∀ (es : List (Ev α)) (s : State α), Inv s → s.stages ≠ [] →
    (run s es).emitted = s.emitted ++ srcItems es := by
  intro es
  induction es with
  | nil => intro s _ _; simp [run, srcItems]
  | cons e es ih =>
    intro s h hne
    obtain ⟨h1, h2⟩ := step_inv s e h
    have hne' : (step s e).stages ≠ [] := by
      intro h0
      have := congrArg List.length h2.1
      simp [fsOf, h0] at this
      exact hne (List.eq_nil_of_length_eq_zero this.symm)
    rw [run, ih _ h1 hne']
    cases e with
    | src x els =>
      cases hst : s.stages with
      | nil => exact absurd hst hne
      | cons s0 rest => simp [step, hst, srcItems]
    | srcIdle =>
      cases hst : s.stages with
      | nil => exact absurd hst hne
      | cons s0 rest => simp [step, hst, srcItems]
    | recv i els => simp [step, srcItems]
    | timeout i => simp [step, srcItems]

/-- **Quiescing from any state that satisfies the invariant.** -/
theorem quiesce_spec (s : State α) (h : Inv s)
    (hadp : ∀ t ∈ s.stages.tail, isAdaptive t.mode = true) :
    let q := run s (quiesceSched s)
    Quiescent q.stages ∧ q.sink = downF (fsOf s.stages) s.emitted ∧ q.emitted = s.emitted ∧
    fsOf q.stages = fsOf s.stages ∧
    (quiesceSched s).filterMap timeoutIdx = List.range' 1 (s.stages.length - 1) ∧
    (∀ e ∈ quiesceSched s, Ev.isSrc e = false) := by
  intro q
  cases hst : s.stages with
  | nil =>
    have hq : q = s := by simp [q, quiesceSched, hst, run]
    have hb := h.bal
    rw [hst] at hb
    refine ⟨by rw [hq, hst]; intro t ht; simp at ht, ?_, by rw [hq], by rw [hq, hst], by simp [quiesceSched, hst],
      by simp [quiesceSched, hst]⟩
    rw [hq]; simpa [pending] using hb
  | cons s0 rest =>
    have hsched : quiesceSched s = .srcIdle :: settleEvs (rest.length + 1) (s0.flushIdle :: rest) := by
      simp [quiesceSched, hst]
    obtain ⟨hi1, hc1⟩ := step_inv s .srcIdle h
    have hstep : (step s .srcIdle).stages = s0.flushIdle :: rest := by simp [step, hst]
    have hinner := settleEvs_inner (rest.length + 1) (s0.flushIdle :: rest)
    have hq : q = ⟨(runL (s0.flushIdle :: rest, s.sink) (settleEvs (rest.length + 1) (s0.flushIdle :: rest))).1,
        (runL (s0.flushIdle :: rest, s.sink) (settleEvs (rest.length + 1) (s0.flushIdle :: rest))).2, s.emitted⟩ := by
      simp only [q, hsched, run]
      rw [run_inner _ _ hinner, hstep]
      simp [step, hst]
    obtain ⟨hi2, hc2⟩ := run_inv (settleEvs (rest.length + 1) (s0.flushIdle :: rest)) _ hi1
    have hq' : q = run (step s .srcIdle) (settleEvs (rest.length + 1) (s0.flushIdle :: rest)) := by
      simp only [q, hsched, run]
    have hquiet : Quiescent q.stages := by
      rw [hq]
      apply settle_quiescent _ _ _ (by simp)
      · rw [← hstep]; exact hi1.ok
      · intro u hu; simp at hu; subst hu; exact (flushIdle_spec s0).2.2.2.2.1
      · intro t ht; exact hadp t (by rw [hst]; simpa using ht)
    have hfs : fsOf q.stages = fsOf s.stages := by rw [hq']; exact hc2.1.trans hc1.1
    have hem : q.emitted = s.emitted := by rw [hq]
    refine ⟨hquiet, ?_, hem, by rw [← hst]; exact hfs, ?_, ?_⟩
    · have hb := hi2.bal
      rw [← hq', pending_quiescent _ hquiet, List.append_nil, hfs, hem] at hb
      rw [← hst]; exact hb
    · rw [hsched, List.filterMap_cons]
      simp only [timeoutIdx]
      rw [settleEvs_timeouts _ _ (by simp)]
      simp
    · intro e he
      rw [hsched] at he
      simp only [List.mem_cons] at he
      rcases he with rfl | he
      · rfl
      · exact settleEvs_noSrc _ _ e he

end Noir.Latency
