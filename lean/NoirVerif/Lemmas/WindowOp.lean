/-
  Lemmas/WindowOp.lean — the per-key projection of the keyed dispatch of `WindowOperator::next`
  (Model/WindowOp.lean, src/operator/window/mod.rs:173-221), generic in the window manager.

  `winop_units_independent` / `winop_keys_independent`: for ANY `Mgr` and ANY input, the outputs
  carrying key `k` are — in order — the outputs of ONE manager instance (`soloStep`, state
  `Option σ`: `none` = "no entry for `k` in `KeyedWindowManager::windows`") that is fed exactly
  `k`'s data elements (key stripped) and the control elements `Watermark`, `FlushAndRestart`,
  `Terminate` (`proj k`); the instance is created from `init` by the first data element that
  arrives while it is absent (mod.rs:185-189) and dropped when `recycle` holds after a control
  element (mod.rs:207); while absent it sees no control element. `FlushBatch` reaches no manager
  (mod.rs:197).

  Order inside the unit emitted for one control element: the model iterates the managers in
  insertion order, the real code in the iteration order of a `HashMap` (unspecified). What is
  order-independent — and all the projection needs — is: (1) there is at most one manager per key
  (`NoDupKeys`, an invariant), (2) the results of one manager are emitted contiguously, in the
  order `process` returned them (mod.rs:202-206: `buffer.extend(ret…)` inside the `retain`
  closure). Hence the key-`k` subsequence of a unit does not depend on the iteration order; this
  is made explicit by `winop_keys_independent_shuffled`, where the map is permuted arbitrarily
  before every input element.
-/
import NoirVerif.Model.CountWindowOp
import NoirVerif.Props.C12
import NoirVerif.Props.C13
namespace Noir.WindowOp

variable {κ σ α β : Type}

/-! ### vocabulary -/

/-- the manager of key `k` in the map (`windows.get(k)`) -/
def find [DecidableEq κ] (k : κ) : List (κ × σ) → Option σ
  | [] => none
  | (k', s) :: rest => if k' = k then some s else find k rest

def keys (ws : List (κ × σ)) : List κ := ws.map (·.1)

/-- a `HashMap` holds at most one entry per key -/
def NoDupKeys (ws : List (κ × σ)) : Prop := (keys ws).Nodup

/-- what the manager of key `k` sees of one input element of the operator -/
def projElem [DecidableEq κ] (k : κ) : Elem (κ × α) → Option (Elem α)
  | .item (k', x) => if k' = k then some (.item x) else none
  | .ts (k', x) t => if k' = k then some (.ts x t) else none
  | .flushBatch => none
  | .wm w => some (.wm w)
  | .term => some .term
  | .far => some .far

/-- `k`'s sub-sequence of the input: its data elements (key stripped) and all control elements -/
def proj [DecidableEq κ] (k : κ) (es : List (Elem (κ × α))) : List (Elem α) := es.filterMap (projElem k)

/-- a result carrying key `k` in the operator's output, with the key stripped -/
def keyOut [DecidableEq κ] (k : κ) : Elem (κ × β) → Option (WResult β)
  | .item (k', v) => if k' = k then some ⟨v, none⟩ else none
  | .ts (k', v) t => if k' = k then some ⟨v, some t⟩ else none
  | _ => none

/-- ONE manager instance with re-creation. State `none`: the key has no manager. -/
def soloStep (m : Mgr σ α β) (o : Option σ) : Elem α → Option σ × List (WResult β)
  | .item x => let r := m.step (o.getD m.init) (.item x); (some r.1, r.2)
  | .ts x t => let r := m.step (o.getD m.init) (.ts x t); (some r.1, r.2)
  | .flushBatch => (o, [])
  | .wm w =>
    match o with
    | none => (none, [])
    | some s => let r := m.step s (.wm w); (if m.recycle r.1 then none else some r.1, r.2)
  | .term =>
    match o with
    | none => (none, [])
    | some s => let r := m.step s .term; (if m.recycle r.1 then none else some r.1, r.2)
  | .far =>
    match o with
    | none => (none, [])
    | some s => let r := m.step s .far; (if m.recycle r.1 then none else some r.1, r.2)

/-- all results of the instance on a sequence, in order -/
def soloRun (m : Mgr σ α β) : Option σ → List (Elem α) → List (WResult β)
  | _, [] => []
  | o, e :: es => (soloStep m o e).2 ++ soloRun m (soloStep m o e).1 es

def soloState (m : Mgr σ α β) : Option σ → List (Elem α) → Option σ
  | o, [] => o
  | o, e :: es => soloState m (soloStep m o e).1 es

/-- the instance of key `k` driven by the operator's (unprojected) input -/
def keyStep [DecidableEq κ] (m : Mgr σ α β) (k : κ) (o : Option σ) (e : Elem (κ × α)) :
    Option σ × List (WResult β) :=
  match projElem k e with
  | none => (o, [])
  | some e' => soloStep m o e'

/-- its results, one unit per input element of the operator -/
def keyUnits [DecidableEq κ] (m : Mgr σ α β) (k : κ) : Option σ → List (Elem (κ × α)) → List (List (WResult β))
  | _, [] => []
  | o, e :: es => (keyStep m k o e).2 :: keyUnits m k (keyStep m k o e).1 es

def keyState [DecidableEq κ] (m : Mgr σ α β) (k : κ) : Option σ → List (Elem (κ × α)) → Option σ
  | o, [] => o
  | o, e :: es => keyState m k (keyStep m k o e).1 es

/-! ### elementary facts -/

@[simp] theorem keyOut_toElem [DecidableEq κ] (k k' : κ) (r : WResult β) :
    keyOut k (r.toElem k') = if k' = k then some r else none := by
  obtain ⟨v, ts⟩ := r
  cases ts <;> simp [WResult.toElem, keyOut]

theorem filterMap_keyOut_same [DecidableEq κ] (k : κ) (rs : List (WResult β)) :
    (rs.map (WResult.toElem k)).filterMap (keyOut k) = rs := by
  induction rs with
  | nil => rfl
  | cons r rs ih => simp [ih]

theorem filterMap_keyOut_other [DecidableEq κ] (k k' : κ) (h : k' ≠ k) (rs : List (WResult β)) :
    (rs.map (WResult.toElem k')).filterMap (keyOut k) = [] := by
  induction rs with
  | nil => rfl
  | cons r rs ih => simp [ih, h]

theorem find_none_of_not_mem [DecidableEq κ] (k : κ) : ∀ (ws : List (κ × σ)), k ∉ keys ws → find k ws = none := by
  intro ws
  induction ws with
  | nil => intro _; rfl
  | cons p rest ih =>
    obtain ⟨k', s⟩ := p
    intro h
    simp only [keys, List.map_cons, List.mem_cons, not_or] at h
    have hne : ¬ k' = k := fun e => h.1 e.symm
    simp only [find, hne, if_false]
    exact ih h.2

theorem find_some_mem [DecidableEq κ] (k : κ) : ∀ (ws : List (κ × σ)) (s : σ), find k ws = some s → (k, s) ∈ ws := by
  intro ws
  induction ws with
  | nil => intro s h; simp [find] at h
  | cons p rest ih =>
    obtain ⟨k', s'⟩ := p
    intro s h
    by_cases hk : k' = k
    · subst hk; simp only [find, if_true, Option.some.injEq] at h; subst h; simp
    · simp only [find, hk, if_false] at h; exact List.mem_cons_of_mem _ (ih s h)

theorem find_of_mem [DecidableEq κ] (k : κ) : ∀ (ws : List (κ × σ)) (s : σ), NoDupKeys ws → (k, s) ∈ ws → find k ws = some s := by
  intro ws
  induction ws with
  | nil => intro s _ h; simp at h
  | cons p rest ih =>
    obtain ⟨k', s'⟩ := p
    intro s hnd h
    simp only [NoDupKeys, keys, List.map_cons, List.nodup_cons] at hnd
    simp only [List.mem_cons, Prod.mk.injEq] at h
    rcases h with ⟨rfl, rfl⟩ | h
    · simp [find]
    · have hne : ¬ k' = k := by
        intro e; subst e
        exact hnd.1 (List.mem_map.mpr ⟨(k', s), h, rfl⟩)
      simp only [find, hne, if_false]
      exact ih s hnd.2 h

/-- the content of a duplicate-free map does not depend on the order of its entries -/
theorem find_perm [DecidableEq κ] (k : κ) (ws ws' : List (κ × σ)) (hp : ws'.Perm ws) (hnd : NoDupKeys ws) :
    find k ws' = find k ws := by
  have hnd' : NoDupKeys ws' := by
    unfold NoDupKeys keys at *
    exact (hp.map _).nodup_iff.mpr hnd
  cases h : find k ws with
  | some s => exact find_of_mem k ws' s hnd' (hp.mem_iff.mpr (find_some_mem k ws s h))
  | none =>
    cases h' : find k ws' with
    | none => rfl
    | some s' =>
      have := find_of_mem k ws s' hnd (hp.mem_iff.mp (find_some_mem k ws' s' h'))
      rw [h] at this; cases this

/-! ### `upsert` (mod.rs:185-191) -/

theorem upsert_same [DecidableEq κ] (m : Mgr σ α β) (k : κ) (e : Elem α) : ∀ (ws : List (κ × σ)),
    find k (upsert m k e ws).1 = some (m.step ((find k ws).getD m.init) e).1 ∧
    (upsert m k e ws).2.1 = (m.step ((find k ws).getD m.init) e).2 := by
  intro ws
  induction ws with
  | nil => simp [upsert, find]
  | cons p rest ih =>
    obtain ⟨k', s⟩ := p
    by_cases hk : k' = k
    · subst hk; simp [upsert, find]
    · simp only [upsert, hk, if_false, find]; exact ih

theorem upsert_other [DecidableEq κ] (m : Mgr σ α β) (k k2 : κ) (hne : k ≠ k2) (e : Elem α) : ∀ (ws : List (κ × σ)),
    find k2 (upsert m k e ws).1 = find k2 ws := by
  intro ws
  induction ws with
  | nil => simp [upsert, find, hne]
  | cons p rest ih =>
    obtain ⟨k', s⟩ := p
    by_cases hk : k' = k
    · subst hk; simp [upsert, find, hne]
    · simp only [upsert, hk, if_false, find, ih]

theorem upsert_keys [DecidableEq κ] (m : Mgr σ α β) (k : κ) (e : Elem α) : ∀ (ws : List (κ × σ)),
    keys (upsert m k e ws).1 = if k ∈ keys ws then keys ws else keys ws ++ [k] := by
  intro ws
  induction ws with
  | nil => simp [upsert, keys]
  | cons p rest ih =>
    obtain ⟨k', s⟩ := p
    by_cases hk : k' = k
    · subst hk; simp [upsert, keys]
    · have hk' : ¬ k = k' := fun e => hk e.symm
      simp only [upsert, hk, if_false, keys, List.map_cons, List.mem_cons, hk', false_or] at *
      rw [ih]; split <;> simp [*]

theorem upsert_nodup [DecidableEq κ] (m : Mgr σ α β) (k : κ) (e : Elem α) (ws : List (κ × σ))
    (h : NoDupKeys ws) : NoDupKeys (upsert m k e ws).1 := by
  unfold NoDupKeys at *
  rw [upsert_keys]
  split
  · exact h
  · rename_i hk
    rw [List.nodup_append]
    refine ⟨h, by simp, ?_⟩
    intro a ha b hb
    simp only [List.mem_singleton] at hb; subst hb
    intro e; subst e; exact hk ha

/-! ### `broadcast` (mod.rs:201-208) -/

theorem broadcast_keys_sublist (m : Mgr σ α β) (e : Elem α) : ∀ (ws : List (κ × σ)),
    (keys (broadcast m e ws).1).Sublist (keys ws) := by
  intro ws
  induction ws with
  | nil => simp [broadcast, keys]
  | cons p rest ih =>
    obtain ⟨k, s⟩ := p
    simp only [broadcast, keys, List.map_cons] at *
    split
    · exact List.Sublist.cons _ ih
    · simp only [List.map_cons]; exact List.Sublist.cons_cons _ ih

theorem broadcast_nodup (m : Mgr σ α β) (e : Elem α) (ws : List (κ × σ)) (h : NoDupKeys ws) :
    NoDupKeys (broadcast m e ws).1 :=
  List.Nodup.sublist (broadcast_keys_sublist m e ws) h

/-- what `retain` does to the manager of key `k` -/
def retained (m : Mgr σ α β) (e : Elem α) : Option σ → Option σ × List (WResult β)
  | none => (none, [])
  | some s => (if m.recycle (m.step s e).1 then none else some (m.step s e).1, (m.step s e).2)

theorem broadcast_key [DecidableEq κ] (m : Mgr σ α β) (k : κ) (e : Elem α) : ∀ (ws : List (κ × σ)), NoDupKeys ws →
    find k (broadcast m e ws).1 = (retained m e (find k ws)).1 ∧
    (broadcast m e ws).2.1.filterMap (keyOut k) = (retained m e (find k ws)).2 := by
  intro ws
  induction ws with
  | nil => intro _; simp [broadcast, find, retained]
  | cons p rest ih =>
    obtain ⟨k', s⟩ := p
    intro hnd
    have hnd' : NoDupKeys rest := by
      simp only [NoDupKeys, keys, List.map_cons, List.nodup_cons] at hnd; exact hnd.2
    have hk'rest : k' ∉ keys rest := by
      simp only [NoDupKeys, keys, List.map_cons, List.nodup_cons] at hnd; exact hnd.1
    obtain ⟨ih1, ih2⟩ := ih hnd'
    by_cases hk : k' = k
    · subst hk
      have hnone : find k' rest = none := find_none_of_not_mem k' rest hk'rest
      rw [hnone] at ih1 ih2
      simp only [retained] at ih1 ih2
      simp only [broadcast, find, if_true, retained, List.filterMap_append, filterMap_keyOut_same, ih2,
        List.append_nil, and_true]
      split
      · exact ih1
      · simp [find]
    · simp only [broadcast, find, hk, if_false, List.filterMap_append,
        filterMap_keyOut_other k k' hk, List.nil_append]
      refine ⟨?_, ih2⟩
      split
      · exact ih1
      · simp only [find, hk, if_false]; exact ih1

/-! ### one step of the operator, seen from key `k` -/

theorem step_key [DecidableEq κ] (m : Mgr σ α β) (k : κ) (st : State κ σ) (e : Elem (κ × α))
    (hnd : NoDupKeys st.windows) :
    find k (step m st e).1.windows = (keyStep m k (find k st.windows) e).1 ∧
    (step m st e).2.filterMap (keyOut k) = (keyStep m k (find k st.windows) e).2 ∧
    NoDupKeys (step m st e).1.windows := by
  cases e with
  | item p =>
    obtain ⟨k', x⟩ := p
    refine ⟨?_, ?_, upsert_nodup m k' _ _ hnd⟩
    · by_cases hk : k' = k
      · subst hk
        simp only [step, keyStep, projElem, if_true, soloStep]
        exact (upsert_same m k' (.item x) st.windows).1
      · simp only [step, keyStep, projElem, hk, if_false]
        exact upsert_other m k' k hk _ _
    · by_cases hk : k' = k
      · subst hk
        simp only [step, keyStep, projElem, if_true, soloStep, filterMap_keyOut_same]
        exact (upsert_same m k' (.item x) st.windows).2
      · simp only [step, keyStep, projElem, hk, if_false]
        exact filterMap_keyOut_other k k' hk _
  | ts p t =>
    obtain ⟨k', x⟩ := p
    refine ⟨?_, ?_, upsert_nodup m k' _ _ hnd⟩
    · by_cases hk : k' = k
      · subst hk
        simp only [step, keyStep, projElem, if_true, soloStep]
        exact (upsert_same m k' (.ts x t) st.windows).1
      · simp only [step, keyStep, projElem, hk, if_false]
        exact upsert_other m k' k hk _ _
    · by_cases hk : k' = k
      · subst hk
        simp only [step, keyStep, projElem, if_true, soloStep, filterMap_keyOut_same]
        exact (upsert_same m k' (.ts x t) st.windows).2
      · simp only [step, keyStep, projElem, hk, if_false]
        exact filterMap_keyOut_other k k' hk _
  | flushBatch => exact ⟨rfl, by simp [step, keyStep, projElem, keyOut], hnd⟩
  | wm w =>
    obtain ⟨h1, h2⟩ := broadcast_key m k (.wm w) st.windows hnd
    refine ⟨?_, ?_, broadcast_nodup m _ _ hnd⟩
    · simp only [step, keyStep, projElem, h1]
      cases find k st.windows <;> simp [retained, soloStep]
    · simp only [step, keyStep, projElem, List.filterMap_append, h2]
      cases find k st.windows <;> simp [retained, soloStep, keyOut]
  | term =>
    obtain ⟨h1, h2⟩ := broadcast_key m k .term st.windows hnd
    refine ⟨?_, ?_, broadcast_nodup m _ _ hnd⟩
    · simp only [step, keyStep, projElem, h1]
      cases find k st.windows <;> simp [retained, soloStep]
    · simp only [step, keyStep, projElem, List.filterMap_append, h2]
      cases find k st.windows <;> simp [retained, soloStep, keyOut]
  | far =>
    obtain ⟨h1, h2⟩ := broadcast_key m k .far st.windows hnd
    refine ⟨?_, ?_, broadcast_nodup m _ _ hnd⟩
    · simp only [step, keyStep, projElem, h1]
      cases find k st.windows <;> simp [retained, soloStep]
    · simp only [step, keyStep, projElem, List.filterMap_append, h2]
      cases find k st.windows <;> simp [retained, soloStep, keyOut]

/-! ### whole runs -/

/-- unit by unit, from any state of the operator -/
theorem runUnits_key [DecidableEq κ] (m : Mgr σ α β) (k : κ) : ∀ (es : List (Elem (κ × α))) (st : State κ σ),
    NoDupKeys st.windows →
    (runUnits m st es).map (List.filterMap (keyOut k)) = keyUnits m k (find k st.windows) es ∧
    find k (stateAfter m st es).windows = keyState m k (find k st.windows) es ∧
    NoDupKeys (stateAfter m st es).windows := by
  intro es
  induction es with
  | nil => intro st h; exact ⟨rfl, rfl, h⟩
  | cons e es ih =>
    intro st hnd
    obtain ⟨h1, h2, h3⟩ := step_key m k st e hnd
    obtain ⟨i1, i2, i3⟩ := ih (step m st e).1 h3
    simp only [runUnits, stateAfter, keyUnits, keyState, List.map_cons]
    rw [h2, i1, i2, h1]
    exact ⟨rfl, rfl, i3⟩

/-- the units of the solo instance, flattened, are its run on the projected input -/
theorem keyUnits_flatten [DecidableEq κ] (m : Mgr σ α β) (k : κ) : ∀ (es : List (Elem (κ × α))) (o : Option σ),
    (keyUnits m k o es).flatten = soloRun m o (proj k es) ∧
    keyState m k o es = soloState m o (proj k es) := by
  intro es
  induction es with
  | nil => intro o; exact ⟨rfl, rfl⟩
  | cons e es ih =>
    intro o
    simp only [keyUnits, keyState, keyStep, proj, List.filterMap_cons, List.flatten_cons]
    cases h : projElem k e with
    | none => simpa [proj] using ih o
    | some e' =>
      simp only [soloRun, soloState]
      obtain ⟨i1, i2⟩ := ih (soloStep m o e').1
      simp only [proj] at i1 i2
      rw [i1, i2]; exact ⟨rfl, rfl⟩

theorem filterMap_flatten {γ δ : Type} (f : γ → Option δ) (l : List (List γ)) :
    l.flatten.filterMap f = (l.map (List.filterMap f)).flatten := by
  induction l with
  | nil => rfl
  | cons a l ih => simp [List.filterMap_append, ih]

theorem soloRun_append (m : Mgr σ α β) : ∀ (es es' : List (Elem α)) (o : Option σ),
    soloRun m o (es ++ es') = soloRun m o es ++ soloRun m (soloState m o es) es' ∧
    soloState m o (es ++ es') = soloState m (soloState m o es) es' := by
  intro es
  induction es with
  | nil => intros; exact ⟨rfl, rfl⟩
  | cons e es ih =>
    intro es' o
    obtain ⟨h1, h2⟩ := ih es' (soloStep m o e).1
    simp only [List.cons_append, soloRun, soloState, h1, h2, List.append_assoc, and_self]

theorem runUnits_append [DecidableEq κ] (m : Mgr σ α β) : ∀ (a b : List (Elem (κ × α))) (st : State κ σ),
    runUnits m st (a ++ b) = runUnits m st a ++ runUnits m (stateAfter m st a) b := by
  intro a
  induction a with
  | nil => intros; rfl
  | cons e a ih => intro b st; simp only [List.cons_append, runUnits, stateAfter, ih]

theorem stateAfter_append [DecidableEq κ] (m : Mgr σ α β) : ∀ (a b : List (Elem (κ × α))) (st : State κ σ),
    stateAfter m st (a ++ b) = stateAfter m (stateAfter m st a) b := by
  intro a
  induction a with
  | nil => intros; rfl
  | cons e a ih => intro b st; simp only [List.cons_append, stateAfter, ih]

/-- the operator is causal: what it emits while consuming a prefix does not depend on the rest -/
theorem run_append [DecidableEq κ] (m : Mgr σ α β) (a b : List (Elem (κ × α))) :
    run m (a ++ b) = run m a ++ (runUnits m (stateAfter m State.init a) b).flatten := by
  simp only [run, runUnits_append, List.flatten_append]

theorem proj_append [DecidableEq κ] (k : κ) (a b : List (Elem (κ × α))) : proj k (a ++ b) = proj k a ++ proj k b := by
  simp [proj]

/-! ### the projection theorem -/

/-- **Per-key projection, unit by unit.** For any manager and any input, the results carrying key
    `k` in the unit of outputs caused by the `i`-th input element are exactly what the solo
    instance of `k` emits for that element (nothing if the element is a data element of another
    key or a `FlushBatch`). -/
theorem winop_units_independent [DecidableEq κ] (m : Mgr σ α β) (es : List (Elem (κ × α))) (k : κ) :
    (runUnits m State.init es).map (List.filterMap (keyOut k)) = keyUnits m k none es := by
  have := (runUnits_key m k es State.init (by simp [State.init, NoDupKeys, keys])).1
  simpa [State.init, find] using this

/-- **Per-key projection.** For any manager and any input, the sub-sequence of the operator's
    output that carries key `k` (keys stripped, in output order) is the output of ONE manager
    instance fed with `k`'s data elements and all control elements, re-created from `init` after it
    was recycled. -/
theorem winop_keys_independent [DecidableEq κ] (m : Mgr σ α β) (es : List (Elem (κ × α))) (k : κ) :
    (run m es).filterMap (keyOut k) = soloRun m none (proj k es) := by
  rw [run, filterMap_flatten, winop_units_independent, (keyUnits_flatten m k es none).1]

/-- the final state of the operator holds, for key `k`, the final state of its solo instance -/
theorem winop_state_independent [DecidableEq κ] (m : Mgr σ α β) (es : List (Elem (κ × α))) (k : κ) :
    find k (stateAfter m State.init es).windows = soloState m none (proj k es) := by
  have := (runUnits_key m k es State.init (by simp [State.init, NoDupKeys, keys])).2.1
  rw [this, (keyUnits_flatten m k es _).2]; rfl

/-- every data element of the output carries a key and is a result of that key's solo instance:
    results never mix keys -/
theorem winop_out_mem [DecidableEq κ] (m : Mgr σ α β) (es : List (Elem (κ × α))) (k : κ) (v : β) :
    (∀ t, Elem.ts (k, v) t ∈ run m es → (⟨v, some t⟩ : WResult β) ∈ soloRun m none (proj k es)) ∧
    (Elem.item (k, v) ∈ run m es → (⟨v, none⟩ : WResult β) ∈ soloRun m none (proj k es)) := by
  rw [← winop_keys_independent]
  constructor
  · intro t h; exact List.mem_filterMap.mpr ⟨_, h, by simp [keyOut]⟩
  · intro h; exact List.mem_filterMap.mpr ⟨_, h, by simp [keyOut]⟩

/-! ### the iteration order of the hash map does not matter -/

/-- the operator with its map permuted by `sh n` before the `n`-th input element is processed -/
def runUnitsSh [DecidableEq κ] (m : Mgr σ α β) (sh : Nat → List (κ × σ) → List (κ × σ)) :
    Nat → State κ σ → List (Elem (κ × α)) → List (List (Elem (κ × β)))
  | _, _, [] => []
  | n, st, e :: es =>
    (step m ⟨sh n st.windows, st.panic⟩ e).2 :: runUnitsSh m sh (n + 1) (step m ⟨sh n st.windows, st.panic⟩ e).1 es

theorem runUnitsSh_key [DecidableEq κ] (m : Mgr σ α β) (sh : Nat → List (κ × σ) → List (κ × σ))
    (hsh : ∀ n l, (sh n l).Perm l) (k : κ) : ∀ (es : List (Elem (κ × α))) (n : Nat) (st : State κ σ),
    NoDupKeys st.windows →
    (runUnitsSh m sh n st es).map (List.filterMap (keyOut k)) = keyUnits m k (find k st.windows) es := by
  intro es
  induction es with
  | nil => intros; rfl
  | cons e es ih =>
    intro n st hnd
    have hnd' : NoDupKeys (sh n st.windows) := by
      unfold NoDupKeys keys at *
      exact ((hsh n st.windows).map _).nodup_iff.mpr hnd
    obtain ⟨h1, h2, h3⟩ := step_key m k ⟨sh n st.windows, st.panic⟩ e hnd'
    simp only [runUnitsSh, keyUnits, List.map_cons]
    rw [h2, ih (n + 1) _ h3, h1]
    simp only [find_perm k st.windows (sh n st.windows) (hsh n st.windows) hnd]

/-- **Per-key projection, any iteration order.** Whatever permutation of the map is used before
    each input element (the `HashMap` iteration order of the real code), the key-`k` results of
    every unit are the same: those of the solo instance of `k`. -/
theorem winop_keys_independent_shuffled [DecidableEq κ] (m : Mgr σ α β)
    (sh : Nat → List (κ × σ) → List (κ × σ)) (hsh : ∀ n l, (sh n l).Perm l)
    (es : List (Elem (κ × α))) (k : κ) :
    (runUnitsSh m sh 0 State.init es).map (List.filterMap (keyOut k)) = keyUnits m k none es := by
  have := runUnitsSh_key m sh hsh k es 0 State.init (by simp [State.init, NoDupKeys, keys])
  simpa [State.init, find] using this

/-! ### shape of a unit: results first, then the forwarded control element -/

/-- the control element an input element is forwarded as (mod.rs:197, 211-217) -/
def ctrlOf {γ δ : Type} : Elem γ → List (Elem δ)
  | .wm w => [.wm w]
  | .flushBatch => [.flushBatch]
  | .term => [.term]
  | .far => [.far]
  | _ => []

theorem broadcast_data (m : Mgr σ α β) (e : Elem α) : ∀ (ws : List (κ × σ)),
    ∀ o ∈ (broadcast m e ws).2.1, o.isData = true := by
  intro ws
  induction ws with
  | nil => intro o h; simp [broadcast] at h
  | cons p rest ih =>
    obtain ⟨k, s⟩ := p
    intro o h
    simp only [broadcast, List.mem_append, List.mem_map] at h
    rcases h with ⟨r, _, rfl⟩ | h
    · obtain ⟨v, ts⟩ := r; cases ts <;> rfl
    · exact ih o h

/-- every unit is `results ++ [forwarded control element]` -/
theorem step_shape [DecidableEq κ] (m : Mgr σ α β) (st : State κ σ) (e : Elem (κ × α)) :
    ∃ ds : List (Elem (κ × β)), (∀ o ∈ ds, o.isData = true) ∧ (step m st e).2 = ds ++ ctrlOf e := by
  cases e with
  | item p =>
    obtain ⟨k, x⟩ := p
    refine ⟨(upsert m k (.item x) st.windows).2.1.map (WResult.toElem k), ?_, by simp only [step, ctrlOf, List.append_nil]⟩
    intro o h; simp only [List.mem_map] at h
    obtain ⟨r, _, rfl⟩ := h; obtain ⟨v, ts⟩ := r; cases ts <;> rfl
  | ts p t =>
    obtain ⟨k, x⟩ := p
    refine ⟨(upsert m k (.ts x t) st.windows).2.1.map (WResult.toElem k), ?_, by simp only [step, ctrlOf, List.append_nil]⟩
    intro o h; simp only [List.mem_map] at h
    obtain ⟨r, _, rfl⟩ := h; obtain ⟨v, ts⟩ := r; cases ts <;> rfl
  | flushBatch => exact ⟨[], by simp, rfl⟩
  | wm w => exact ⟨_, broadcast_data m _ _, rfl⟩
  | term => exact ⟨_, broadcast_data m _ _, rfl⟩
  | far => exact ⟨_, broadcast_data m _ _, rfl⟩

end Noir.WindowOp

/-! ## Count windows under the keyed dispatch (helper lemmas for Props/C12WinOp.lean) -/
namespace Noir.CountWindow
open Noir.WindowOp

variable {α : Type}

/-- all results of one manager, in order -/
def results (c : Cfg) : List (Slot α) → List (Elem α) → List (Result α)
  | _, [] => []
  | ws, e :: es => (process c ws e).2.toList ++ results c (process c ws e).1 es

/-- end of an iteration / of the stream -/
def isEnd : Elem α → Bool
  | .far => true
  | .term => true
  | _ => false

def NoEnd (es : List (Elem α)) : Prop := ∀ e ∈ es, isEnd e = false

/-- what the end of an iteration emits for the open group `r`: nothing in exact mode or if it is
    empty, else the group -/
def endGroup (c : Cfg) (r : List α) : List (List α) := if c.exact || r.isEmpty then [] else [r]

/-- **Specification of a count-window stream of one key** (any number of iterations, any
    `Watermark`/`FlushBatch` noise): `cur` = the arrivals of the current iteration so far. An
    iteration with arrivals `cur` yields the sliding groups of `cur`, then `endGroup` of what is
    left open; the next iteration starts from nothing. -/
def spec (c : Cfg) : List α → List (Elem α) → List (List α)
  | cur, [] => groups c.size c.slide cur
  | cur, .item x :: es => spec c (cur ++ [x]) es
  | cur, .ts x _ :: es => spec c (cur ++ [x]) es
  | cur, .far :: es => groups c.size c.slide cur ++ endGroup c (residual c.size c.slide cur) ++ spec c [] es
  | cur, .term :: es => groups c.size c.slide cur ++ endGroup c (residual c.size c.slide cur) ++ spec c [] es
  | cur, .wm _ :: es => spec c cur es
  | cur, .flushBatch :: es => spec c cur es

/-- the arrival sequences of the iterations of a one-key stream (the last one possibly open) -/
def iterArrivals : List α → List (Elem α) → List (List α)
  | cur, [] => [cur]
  | cur, .item x :: es => iterArrivals (cur ++ [x]) es
  | cur, .ts x _ :: es => iterArrivals (cur ++ [x]) es
  | cur, .far :: es => cur :: iterArrivals [] es
  | cur, .term :: es => cur :: iterArrivals [] es
  | cur, .wm _ :: es => iterArrivals cur es
  | cur, .flushBatch :: es => iterArrivals cur es

theorem runFrom_results (c : Cfg) : ∀ (es : List (Elem α)) (ws : List (Slot α)) (i : Nat),
    (runFrom c ws i es).map (·.2) = results c ws es := by
  intro es
  induction es with
  | nil => intros; rfl
  | cons e es ih =>
    intro ws i
    simp only [runFrom, results]
    cases h : (process c ws e).2 with
    | none => simp [ih]
    | some r => simp [ih]

theorem results_append (c : Cfg) : ∀ (a b : List (Elem α)) (ws : List (Slot α)),
    results c ws (a ++ b) = results c ws a ++ results c (stateAfter c ws a) b ∧
    stateAfter c ws (a ++ b) = stateAfter c (stateAfter c ws a) b := by
  intro a
  induction a with
  | nil => intros; exact ⟨rfl, rfl⟩
  | cons e a ih =>
    intro b ws
    obtain ⟨h1, h2⟩ := ih b (process c ws e).1
    simp only [List.cons_append, results, stateAfter, h1, h2, List.append_assoc, and_self]

theorem mgr_init (c : Cfg) : (mgr c).init = ([] : List (Slot α)) := rfl
theorem mgr_step (c : Cfg) (ws : List (Slot α)) (e : Elem α) :
    (mgr c).step ws e = ((process c ws e).1, ((process c ws e).2.map Result.toW).toList) := rfl
theorem mgr_recycle (c : Cfg) (ws : List (Slot α)) : (mgr c).recycle ws = false := rfl

theorem option_map_toList {γ δ : Type} (f : γ → δ) (o : Option γ) : (o.map f).toList = o.toList.map f := by
  cases o <;> rfl

/-- one step of the solo instance is one step of the plain manager: it is never recycled, and an
    absent manager behaves like the initial one on control elements -/
theorem soloStep_eq (c : Cfg) (o : Option (List (Slot α))) (e : Elem α) :
    (soloStep (mgr c) o e).2 = (process c (o.getD []) e).2.toList.map Result.toW ∧
    (soloStep (mgr c) o e).1.getD [] = (process c (o.getD []) e).1 := by
  cases e with
  | item x => simp [soloStep, mgr_step, mgr_init, option_map_toList]
  | ts x t => simp [soloStep, mgr_step, mgr_init, option_map_toList]
  | flushBatch => simp [soloStep, process]
  | wm w => cases o <;> simp [soloStep, mgr_step, mgr_recycle, process]
  | far => cases o <;> simp [soloStep, mgr_step, mgr_recycle, process, processEnd, option_map_toList]
  | term => cases o <;> simp [soloStep, mgr_step, mgr_recycle, process, processEnd, option_map_toList]

/-- the solo instance of the keyed dispatch is the plain manager -/
theorem solo_eq_results (c : Cfg) : ∀ (es : List (Elem α)) (o : Option (List (Slot α))),
    soloRun (mgr c) o es = (results c (o.getD []) es).map Result.toW := by
  intro es
  induction es with
  | nil => intros; rfl
  | cons e es ih =>
    intro o
    obtain ⟨h1, h2⟩ := soloStep_eq c o e
    simp only [soloRun, results, List.map_append, ih, h1, h2]

theorem isEnd_false_cases (e : Elem α) (h : isEnd e = false) : e.isData = true ∨ (∀ ws : List (Slot α), ∀ c, process c ws e = (ws, none)) := by
  cases e with
  | item x => left; rfl
  | ts x t => left; rfl
  | wm w => right; intros; rfl
  | flushBatch => right; intros; rfl
  | far => simp [isEnd] at h
  | term => simp [isEnd] at h

/-- `Watermark`/`FlushBatch` are invisible to the manager -/
theorem results_noEnd (c : Cfg) : ∀ (seg : List (Elem α)) (ws : List (Slot α)), NoEnd seg →
    results c ws seg = results c ws (seg.filter Elem.isData) ∧
    stateAfter c ws seg = stateAfter c ws (seg.filter Elem.isData) := by
  intro seg
  induction seg with
  | nil => intros; exact ⟨rfl, rfl⟩
  | cons e seg ih =>
    intro ws hn
    have hn' : NoEnd seg := fun x hx => hn x (by simp [hx])
    rcases isEnd_false_cases e (hn e (by simp)) with hd | hp
    · obtain ⟨h1, h2⟩ := ih (process c ws e).1 hn'
      simp only [List.filter_cons, hd, if_true, results, stateAfter, h1, h2, and_self]
    · have hnd : e.isData = false := by
        cases e <;> first | rfl | (have := hp ([] : List (Slot α)) ⟨1, 1, true⟩; simp [process, processItem, pad, updFirst, Slot.empty, Slot.update] at this)
      obtain ⟨h1, h2⟩ := ih ws hn'
      simp only [List.filter_cons, hnd, results, stateAfter, hp, Option.toList, List.nil_append]
      exact ⟨h1, h2⟩

@[simp] theorem values_item (x : α) (es : List (Elem α)) : values (.item x :: es) = x :: values es := rfl
@[simp] theorem values_ts (x : α) (t : Int) (es : List (Elem α)) : values (.ts x t :: es) = x :: values es := rfl
@[simp] theorem values_wm (w : Int) (es : List (Elem α)) : values (.wm w :: es) = values es := rfl
@[simp] theorem values_fb (es : List (Elem α)) : values (.flushBatch :: es) = values es := rfl
@[simp] theorem values_far (es : List (Elem α)) : values (.far :: es) = values es := rfl
@[simp] theorem values_term (es : List (Elem α)) : values (.term :: es) = values es := rfl
@[simp] theorem values_nil : values ([] : List (Elem α)) = [] := rfl

theorem values_filter_data (es : List (Elem α)) : values (es.filter Elem.isData) = values es := by
  induction es with
  | nil => rfl
  | cons e es ih =>
    cases e <;> simp [List.filter_cons, Elem.isData, ih]

/-- one iteration (data with noise, no end) from the initial state: the groups of the arrivals -/
theorem results_segment (c : Cfg) (hS : 1 ≤ c.slide) (hSN : c.slide ≤ c.size) (seg : List (Elem α))
    (hn : NoEnd seg) :
    (results c [] seg).map (·.items) = groups c.size c.slide (values seg) ∧
    Inv c (stateAfter c ([] : List (Slot α)) seg) (residual c.size c.slide (values seg)) := by
  obtain ⟨h1, h2⟩ := results_noEnd c seg [] hn
  have hd : AllData (seg.filter Elem.isData) := fun e he => (List.mem_filter.mp he).2
  have := run_data c hS hSN (seg.filter Elem.isData) [] [] 0 hd (inv_init c (by omega)) (by simp)
  simp only [List.nil_append, values_filter_data] at this
  rw [h1, h2]
  refine ⟨?_, this.2⟩
  rw [← runFrom_results c _ [] 0]
  have h3 := congrArg (List.map (·.2)) this.1
  simp only [obs, List.map_map] at h3
  simp only [List.map_map, groups]
  exact h3

theorem spec_segment (c : Cfg) : ∀ (seg : List (Elem α)) (cur : List α) (rest : List (Elem α)), NoEnd seg →
    spec c cur (seg ++ rest) = spec c (cur ++ values seg) rest := by
  intro seg
  induction seg with
  | nil => intros; simp
  | cons e seg ih =>
    intro cur rest hn
    have hn' : NoEnd seg := fun x hx => hn x (by simp [hx])
    have he := hn e (by simp)
    cases e with
    | item x => simp [spec, ih _ _ hn']
    | ts x t => simp [spec, ih _ _ hn']
    | wm w => simp [spec, ih _ _ hn']
    | flushBatch => simp [spec, ih _ _ hn']
    | far => simp [isEnd] at he
    | term => simp [isEnd] at he

theorem iterArrivals_segment : ∀ (seg : List (Elem α)) (cur : List α) (rest : List (Elem α)), NoEnd seg →
    iterArrivals cur (seg ++ rest) = iterArrivals (cur ++ values seg) rest := by
  intro seg
  induction seg with
  | nil => intros; simp
  | cons e seg ih =>
    intro cur rest hn
    have hn' : NoEnd seg := fun x hx => hn x (by simp [hx])
    have he := hn e (by simp)
    cases e with
    | item x => simp [iterArrivals, ih _ _ hn']
    | ts x t => simp [iterArrivals, ih _ _ hn']
    | wm w => simp [iterArrivals, ih _ _ hn']
    | flushBatch => simp [iterArrivals, ih _ _ hn']
    | far => simp [isEnd] at he
    | term => simp [isEnd] at he

/-- a stream either has no end element or splits at its first one -/
theorem split_end : ∀ (es : List (Elem α)), NoEnd es ∨
    ∃ seg e rest, es = seg ++ e :: rest ∧ NoEnd seg ∧ isEnd e = true := by
  intro es
  induction es with
  | nil => left; intro e h; simp at h
  | cons e es ih =>
    by_cases he : isEnd e = true
    · right; exact ⟨[], e, es, rfl, by intro x h; simp at h, he⟩
    · rcases ih with h | ⟨seg, e', rest, h1, h2, h3⟩
      · left; intro x hx
        simp only [List.mem_cons] at hx
        rcases hx with rfl | hx
        · simpa using he
        · exact h x hx
      · right
        refine ⟨e :: seg, e', rest, by simp [h1], ?_, h3⟩
        intro x hx
        simp only [List.mem_cons] at hx
        rcases hx with rfl | hx
        · simpa using he
        · exact h2 x hx

/-- the end of an iteration: the open group is emitted (non-exact, non-empty) and all slots are dropped -/
theorem process_end (c : Cfg) (hS : 1 ≤ c.slide) (hN : 1 ≤ c.size) (ws : List (Slot α)) (r : List α)
    (inv : Inv c ws r) (e : Elem α) (he : isEnd e = true) :
    (process c ws e).1 = [] ∧ (process c ws e).2.toList.map (·.items) = endGroup c r := by
  have hp : process c ws e = processEnd c ws := by
    cases e <;> first | rfl | simp [isEnd] at he
  rw [hp]
  cases hE : c.exact with
  | true => simp [processEnd, hE, endGroup]
  | false =>
    obtain ⟨h1, h2, h3⟩ := countWindow_end_inexact c hS hN hE ws r inv
    refine ⟨h1, ?_⟩
    by_cases hr : r = []
    · simp [h2 hr, endGroup, hr]
    · obtain ⟨ts, h⟩ := h3 hr
      have : r.isEmpty = false := by cases r <;> simp_all
      simp [h, endGroup, hE, this]

/-- **C12 for a whole one-key stream** (manager level): any number of iterations, any noise -/
theorem results_spec (c : Cfg) (hS : 1 ≤ c.slide) (hSN : c.slide ≤ c.size) :
    ∀ (n : Nat) (es : List (Elem α)), es.length ≤ n → (results c [] es).map (·.items) = spec c [] es := by
  intro n
  induction n with
  | zero =>
    intro es h
    have : es = [] := List.length_eq_zero_iff.mp (by omega)
    subst this
    simp only [results, spec, List.map_nil]
    rw [groups, groupsIdx]; simp; omega
  | succ n ih =>
    intro es hlen
    rcases split_end es with hn | ⟨seg, e, rest, rfl, hn, he⟩
    · have := (results_segment c hS hSN es hn).1
      rw [this]
      have h2 := spec_segment c es [] [] hn
      simp only [List.append_nil, List.nil_append] at h2
      rw [h2]; rfl
    · obtain ⟨h1, inv⟩ := results_segment c hS hSN seg hn
      obtain ⟨e1, e2⟩ := process_end c hS (by omega) _ _ inv e he
      have hrest : rest.length ≤ n := by simp at hlen; omega
      have hsp : spec c ([] ++ values seg) (e :: rest) =
          groups c.size c.slide (values seg) ++ endGroup c (residual c.size c.slide (values seg)) ++ spec c [] rest := by
        cases e <;> first | rfl | simp [isEnd] at he
      rw [(results_append c seg (e :: rest) []).1, spec_segment c seg [] (e :: rest) hn, hsp]
      simp only [results, List.map_append, h1, e1, e2, ih rest hrest, List.append_assoc]

/-! ### results are contiguous pieces of one iteration's arrivals -/

theorem groups_infix (N S : Nat) (hS : 0 < S) (hN : 0 < N) (xs : List α) :
    ∀ g ∈ groups N S xs, g <:+: xs := by
  intro g hg
  simp only [groups, List.mem_map] at hg
  obtain ⟨p, hp, rfl⟩ := hg
  obtain ⟨j, hj, hget⟩ := List.getElem_of_mem hp
  have := (groupsIdx_spec N S hS hN xs 0 j p (by rw [List.getElem?_eq_getElem hj, hget])).1
  rw [this]
  exact (List.take_prefix _ _).isInfix.trans (List.drop_suffix _ _).isInfix

theorem residual_suffix (N S : Nat) : ∀ (n : Nat) (xs : List α), xs.length ≤ n → residual N S xs <:+ xs := by
  intro n
  induction n with
  | zero =>
    intro xs h
    have : xs = [] := List.length_eq_zero_iff.mp (by omega)
    subst this; rw [residual]; split
    · exact List.suffix_refl _
    · rename_i hc; simp at hc; omega
  | succ n ih =>
    intro xs h
    rw [residual]
    split
    · exact List.suffix_refl _
    · rename_i hc
      have : (xs.drop S).length ≤ n := by rw [List.length_drop]; omega
      exact (ih _ this).trans (List.drop_suffix _ _)

theorem spec_infix (c : Cfg) (hS : 1 ≤ c.slide) (hSN : c.slide ≤ c.size) :
    ∀ (es : List (Elem α)) (cur : List α), ∀ g ∈ spec c cur es, ∃ a ∈ iterArrivals cur es, g <:+: a := by
  intro es
  induction es with
  | nil =>
    intro cur g hg
    exact ⟨cur, by simp [iterArrivals], groups_infix _ _ (by omega) (by omega) cur g hg⟩
  | cons e es ih =>
    intro cur g hg
    have hend : ∀ g ∈ groups c.size c.slide cur ++ endGroup c (residual c.size c.slide cur) ++ spec c [] es,
        ∃ a ∈ cur :: iterArrivals [] es, g <:+: a := by
      intro g hg
      simp only [List.mem_append] at hg
      rcases hg with (hg | hg) | hg
      · exact ⟨cur, by simp, groups_infix _ _ (by omega) (by omega) cur g hg⟩
      · refine ⟨cur, by simp, ?_⟩
        unfold endGroup at hg
        split at hg
        · simp at hg
        · simp only [List.mem_singleton] at hg; subst hg
          exact (residual_suffix _ _ _ cur (Nat.le_refl _)).isInfix
      · obtain ⟨a, ha, h⟩ := ih [] g hg
        exact ⟨a, by simp [ha], h⟩
    cases e with
    | item x => exact ih _ g hg
    | ts x t => exact ih _ g hg
    | wm w => exact ih _ g hg
    | flushBatch => exact ih _ g hg
    | far => exact hend g hg
    | term => exact hend g hg

end Noir.CountWindow

/-! ## Event-time windows under the keyed dispatch (helper lemmas for Props/C13WinOp.lean)

  The solo instance of a key (`soloStep (mgr c)`) differs from a single manager in one respect:
  the operator drops a manager without open slots at a control element (`recycle`,
  event_time.rs:113-115, mod.rs:207) and creates a fresh one (`last_watermark = None`, no slot)
  for the next data element of the key. `eff o` is the manager state that the next data element
  will be processed in. The single-manager invariants (`Inv`, `Covers`) hold for a fresh manager,
  and the watermark hypothesis of the single-manager theorems (`Guarded`: arrivals are not late
  with respect to the *manager's* `last_watermark`, watermarks do not go back) follows from
  watermark safety of the operator's input because a manager's `last_watermark` is either `None`
  or the last watermark of the current iteration of the stream (`LwLink`). -/
namespace Noir.EventTimeWindow
open Noir.WindowOp

variable {α κ : Type}

/-- the state the next data element of the key is processed in -/
def eff (o : Option (State α)) : State α := o.getD State.init

theorem mgr_init (c : Cfg) : (mgr c).init = (State.init : State α) := rfl
theorem mgr_step (c : Cfg) (st : State α) (e : Elem α) : (mgr c).step st e = process c st e := rfl
theorem mgr_recycle (c : Cfg) (st : State α) : (mgr c).recycle st = st.ws.isEmpty := rfl

/-- one step of the solo instance = one step of the manager, except that a manager left without
    slots by a control element is replaced by a fresh one -/
theorem soloStep_eq (c : Cfg) (o : Option (State α)) (e : Elem α) :
    (soloStep (mgr c) o e).2 = (process c (eff o) e).2 ∧
    (eff (soloStep (mgr c) o e).1 = (process c (eff o) e).1 ∨
     (eff (soloStep (mgr c) o e).1 = State.init ∧ (process c (eff o) e).1.ws = [] ∧ e.isData = false)) := by
  cases e with
  | item x => exact ⟨rfl, Or.inl rfl⟩
  | ts x t => exact ⟨rfl, Or.inl rfl⟩
  | flushBatch => exact ⟨rfl, Or.inl (by simp [soloStep, process])⟩
  | wm w =>
    cases o with
    | none => exact ⟨by simp [soloStep, process, eff, State.init, emit], Or.inr ⟨rfl, by simp [process, eff, State.init], rfl⟩⟩
    | some s =>
      refine ⟨rfl, ?_⟩
      simp only [soloStep, mgr_step, mgr_recycle, eff, Option.getD_some]
      by_cases h : (process c s (.wm w)).1.ws.isEmpty = true
      · right; simp only [h, if_true, Option.getD_none]
        exact ⟨trivial, by simpa using h, rfl⟩
      · left; simp [h]
  | far =>
    cases o with
    | none => exact ⟨by simp [soloStep, process, eff, State.init, emit], Or.inr ⟨rfl, by simp [process], rfl⟩⟩
    | some s =>
      refine ⟨rfl, Or.inr ?_⟩
      simp [soloStep, mgr_step, mgr_recycle, eff, process, Elem.isData]
  | term =>
    cases o with
    | none => exact ⟨by simp [soloStep, process, eff, State.init, emit], Or.inr ⟨rfl, by simp [process], rfl⟩⟩
    | some s =>
      refine ⟨rfl, Or.inr ?_⟩
      simp [soloStep, mgr_step, mgr_recycle, eff, process, Elem.isData]

/-- what the arrivals of a solo run are assigned to (`assigned` for the solo instance) -/
def soloAssigned (c : Cfg) : Option (State α) → List (Elem α) → List (α × Int)
  | _, [] => []
  | o, e :: es =>
    (match e with
     | .ts x t => List.replicate (hits t (alloc c (eff o).lw t (eff o).ws)) (x, t)
     | _ => []) ++ soloAssigned c (soloStep (mgr c) o e).1 es

theorem inv_of_ws (c : Cfg) (Q : α × Int → Prop) (st st' : State α) (h : st'.ws = st.ws) (inv : Inv c Q st) :
    Inv c Q st' :=
  ⟨by rw [h]; exact inv.ok, by rw [h]; exact inv.sorted⟩

/-- the invariant of the manager holds along a solo run -/
theorem solo_inv_step (c : Cfg) (hS : 0 < c.slide) (o : Option (State α)) (e : Elem α)
    (inv : Inv c (fun _ => True) (eff o)) : Inv c (fun _ => True) (eff (soloStep (mgr c) o e).1) := by
  rcases (soloStep_eq c o e).2 with h | ⟨h, _, _⟩
  · rw [h]; exact process_inv c hS _ _ e inv (fun _ _ _ => trivial)
  · rw [h]; exact inv_init c _

/-- conservation along a solo run: emitted + still held = initially held + assigned -/
theorem solo_conserve (c : Cfg) (hS : 0 < c.slide) : ∀ (es : List (Elem α)) (o : Option (State α)),
    Inv c (fun _ => True) (eff o) →
    (outItems (soloRun (mgr c) o es) ++ held (eff (soloState (mgr c) o es)).ws).Perm
      (held (eff o).ws ++ soloAssigned c o es) := by
  intro es
  induction es with
  | nil => intro o _; simp [soloRun, soloState, soloAssigned, outItems]
  | cons e es ih =>
    intro o inv
    have inv' := solo_inv_step c hS o e inv
    have ih := ih (soloStep (mgr c) o e).1 inv'
    have hstep := process_conserve c hS (fun _ => True) (eff o) e inv
    obtain ⟨hout, hst⟩ := soloStep_eq c o e
    have hws : (eff (soloStep (mgr c) o e).1).ws = (process c (eff o) e).1.ws := by
      rcases hst with h | ⟨h, h2, _⟩
      · rw [h]
      · rw [h, h2]; rfl
    rw [← hout, ← hws] at hstep
    simp only [soloRun, soloState, soloAssigned, outItems, List.flatMap_append] at *
    rw [List.append_assoc]
    refine (List.Perm.append_left _ ih).trans ?_
    rw [← List.append_assoc, ← List.append_assoc]
    exact List.Perm.append_right _ hstep

/-- a manager's `last_watermark`, if set, is the last watermark `g` of the stream's current iteration -/
def LwLink (g : Option Int) (o : Option (State α)) : Prop := ∀ w0, (eff o).lw = some w0 → g = some w0

theorem lwLink_init (g : Option Int) : LwLink g (none : Option (State α)) := by
  intro w0 h; simp [eff, State.init] at h

/-- **coverage along a solo run**: on a watermark-safe stream every arrival is assigned to at
    least one and at most `hi` slots (`hi` = a bound on the slots containing one instant) -/
theorem solo_multi (c : Cfg) (hS : 0 < c.slide) (hSN : c.slide ≤ c.size) (hi : Nat)
    (hhi : ∀ (t : Int) (ws : List (Slot α)), (∀ s ∈ ws, s.stop = s.start + c.size) → Sorted c ws → hits t ws ≤ hi) :
    ∀ (es : List (Elem α)) (o : Option (State α)) (g : Option Int),
      Inv c (fun _ => True) (eff o) → Covers c (eff o) → LwLink g o → wmSafeGo g es = true →
      Multi 1 hi (dataOf es) (soloAssigned c o es) := by
  intro es
  induction es with
  | nil => intros; exact Multi.nil
  | cons e es ih =>
    intro o g inv hc hl hw
    have inv' := solo_inv_step c hS o e inv
    obtain ⟨_, hst⟩ := soloStep_eq c o e
    -- `Covers` after the step, given that watermarks do not go back
    have hc' : (∀ w, e = .wm w → ∀ w0, (eff o).lw = some w0 → w0 ≤ w) → Covers c (eff (soloStep (mgr c) o e).1) := by
      intro hmono
      rcases hst with h | ⟨h, _, _⟩
      · rw [h]; exact process_covers c hS _ _ e inv hc hmono
      · rw [h]; exact covers_init c
    cases e with
    | ts x t =>
      simp only [wmSafeGo, Bool.and_eq_true] at hw
      have hnl : NotLate (eff o).lw t := by
        intro w0 h0
        have := hl w0 h0; rw [this] at hw; simpa using hw.1
      have hl' : LwLink g (soloStep (mgr c) o (.ts x t)).1 := by
        intro w0 h0
        apply hl w0
        simpa [soloStep, eff, mgr_step, mgr_init, process] using h0
      simp only [dataOf, soloAssigned]
      obtain ⟨hok, hs⟩ := alloc_inv c hS (fun _ => True) (eff o).lw t (eff o).ws inv.ok inv.sorted
      exact Multi.cons _ _ _ _ (hits_pos c hS hSN _ (eff o) t inv hc hnl)
        (hhi t _ (fun s h => (hok s h).span) hs)
        (ih _ g inv' (hc' (fun w h => by cases h)) hl' hw.2)
    | wm w =>
      simp only [wmSafeGo, Bool.and_eq_true] at hw
      have hmono : ∀ w', Elem.wm (α := α) w = .wm w' → ∀ w0, (eff o).lw = some w0 → w0 ≤ w' := by
        intro w' h w0 h0
        injection h with h; subst h
        have := hl w0 h0; rw [this] at hw
        have : w0 < w := by simpa using hw.1
        omega
      have hl' : LwLink (some w) (soloStep (mgr c) o (.wm w)).1 := by
        intro w0 h0
        rcases hst with h | ⟨h, _, _⟩
        · rw [eff] at h; rw [eff, h] at h0; simp [process] at h0; rw [h0]
        · rw [eff] at h; rw [eff, h] at h0; simp [State.init] at h0
      simpa [dataOf, soloAssigned] using ih _ (some w) inv' (hc' hmono) hl' hw.2
    | far =>
      have hl' : LwLink none (soloStep (mgr c) o .far).1 := by
        intro w0 h0
        rcases hst with h | ⟨h, _, _⟩
        · cases o with
          | none => simp [soloStep, eff, State.init] at h0
          | some s => simp [soloStep, mgr_step, mgr_recycle, process, eff, State.init] at h0
        · rw [eff] at h; rw [eff, h] at h0; simp [State.init] at h0
      simpa [dataOf, soloAssigned] using ih _ none inv' (hc' (fun w h => by cases h)) hl' (by simpa [wmSafeGo] using hw)
    | term =>
      have hl' : LwLink g (soloStep (mgr c) o .term).1 := by
        intro w0 h0
        cases o with
        | none => simp [soloStep, eff, State.init] at h0
        | some s => simp [soloStep, mgr_step, mgr_recycle, process, eff, State.init] at h0
      simpa [dataOf, soloAssigned] using ih _ g inv' (hc' (fun w h => by cases h)) hl' (by simpa [wmSafeGo] using hw)
    | item y =>
      have hl' : LwLink g (soloStep (mgr c) o (.item y)).1 := by
        intro w0 h0
        apply hl w0
        simpa [soloStep, eff, mgr_step, mgr_init, process] using h0
      simpa [dataOf, soloAssigned] using ih _ g inv' (hc' (fun w h => by cases h)) hl' (by simpa [wmSafeGo] using hw)
    | flushBatch =>
      have hl' : LwLink g (soloStep (mgr c) o .flushBatch).1 := by
        intro w0 h0; exact hl w0 (by simpa [soloStep] using h0)
      simpa [dataOf, soloAssigned] using ih _ g inv' (hc' (fun w h => by cases h)) hl' (by simpa [wmSafeGo] using hw)

/-- without any hypothesis on the input: every arrival is assigned to at most `hi` slots -/
theorem solo_multi0 (c : Cfg) (hS : 0 < c.slide) (hi : Nat)
    (hhi : ∀ (t : Int) (ws : List (Slot α)), (∀ s ∈ ws, s.stop = s.start + c.size) → Sorted c ws → hits t ws ≤ hi) :
    ∀ (es : List (Elem α)) (o : Option (State α)), Inv c (fun _ => True) (eff o) →
      Multi 0 hi (dataOf es) (soloAssigned c o es) := by
  intro es
  induction es with
  | nil => intros; exact Multi.nil
  | cons e es ih =>
    intro o inv
    have inv' := solo_inv_step c hS o e inv
    cases e with
    | ts x t =>
      simp only [dataOf, soloAssigned]
      obtain ⟨hok, hs⟩ := alloc_inv c hS (fun _ => True) (eff o).lw t (eff o).ws inv.ok inv.sorted
      exact Multi.cons _ _ _ _ (Nat.zero_le _) (hhi t _ (fun s h => (hok s h).span) hs) (ih _ inv')
    | wm w => simpa [dataOf, soloAssigned] using ih _ inv'
    | far => simpa [dataOf, soloAssigned] using ih _ inv'
    | term => simpa [dataOf, soloAssigned] using ih _ inv'
    | item y => simpa [dataOf, soloAssigned] using ih _ inv'
    | flushBatch => simpa [dataOf, soloAssigned] using ih _ inv'

/-- dropping data elements (those of other keys) and `FlushBatch` keeps a stream watermark-safe -/
theorem wmSafe_proj [DecidableEq κ] (k : κ) : ∀ (es : List (Elem (κ × α))) (g : Option Int),
    wmSafeGo g es = true → wmSafeGo g (proj k es) = true := by
  intro es
  induction es with
  | nil => intros; rfl
  | cons e es ih =>
    intro g h
    cases e with
    | item p =>
      obtain ⟨k', x⟩ := p
      by_cases hk : k' = k
      · simp only [proj, List.filterMap_cons, projElem, hk, if_true, wmSafeGo] at *; exact ih g h
      · simp only [proj, List.filterMap_cons, projElem, hk, if_false, wmSafeGo] at *; exact ih g h
    | ts p t =>
      obtain ⟨k', x⟩ := p
      simp only [wmSafeGo, Bool.and_eq_true] at h
      by_cases hk : k' = k
      · simp only [proj, List.filterMap_cons, projElem, hk, if_true, wmSafeGo, Bool.and_eq_true] at *
        exact ⟨h.1, ih g h.2⟩
      · simp only [proj, List.filterMap_cons, projElem, hk, if_false] at *; exact ih g h.2
    | flushBatch => simp only [proj, List.filterMap_cons, projElem, wmSafeGo] at *; exact ih g h
    | wm w =>
      simp only [proj, List.filterMap_cons, projElem, wmSafeGo, Bool.and_eq_true] at *
      exact ⟨h.1, ih _ h.2⟩
    | far => simp only [proj, List.filterMap_cons, projElem, wmSafeGo] at *; exact ih _ h
    | term => simp only [proj, List.filterMap_cons, projElem, wmSafeGo] at *; exact ih _ h

/-- after `FlushAndRestart`/`Terminate` no key has a manager: nothing is held -/
theorem solo_end_none (c : Cfg) (o : Option (State α)) :
    (soloStep (mgr c) o .far).1 = none ∧ (soloStep (mgr c) o .term).1 = none := by
  cases o <;> simp [soloStep, mgr_step, mgr_recycle, process]

end Noir.EventTimeWindow

/-! ## Stream control protocol (helper lemmas for Props/C05WinOp.lean) -/
namespace Noir.WindowOp

variable {κ σ α β : Type}

theorem grammarGo_weaken {γ : Type} : ∀ (l : List (Elem γ)) (b : Bool), grammarGo false l = true → grammarGo b l = true := by
  intro l
  induction l with
  | nil => intro b h; simp [grammarGo] at h
  | cons e l _ =>
    intro b h
    cases b with
    | false => exact h
    | true =>
      cases e with
      | term =>
        cases l with
        | nil => simp [grammarGo] at h
        | cons e' l' => simp [grammarGo] at h
      | item a => simpa [grammarGo] using h
      | ts a t => simpa [grammarGo] using h
      | wm t => simpa [grammarGo] using h
      | flushBatch => simpa [grammarGo] using h
      | far => simpa [grammarGo] using h

/-- data elements in front of a well-formed remainder keep it well formed -/
theorem grammarGo_data_prefix {γ : Type} : ∀ (ds X : List (Elem γ)) (b : Bool), (∀ o ∈ ds, o.isData = true) →
    grammarGo false X = true → grammarGo b (ds ++ X) = true := by
  intro ds
  induction ds with
  | nil => intro X b _ h; exact grammarGo_weaken X b h
  | cons d ds ih =>
    intro X b hd h
    have hd' : ∀ o ∈ ds, o.isData = true := fun o ho => hd o (by simp [ho])
    have := ih X false hd' h
    have hdd := hd d (by simp)
    cases d with
    | item a => simpa [grammarGo] using this
    | ts a t => simpa [grammarGo] using this
    | wm t => simp [Elem.isData] at hdd
    | flushBatch => simp [Elem.isData] at hdd
    | far => simp [Elem.isData] at hdd
    | term => simp [Elem.isData] at hdd

/-- a manager emits nothing at `Terminate` -/
def Quiet (m : Mgr σ α β) (s : σ) : Prop := (m.step s .term).2 = []

/-- every manager that `retain` keeps is the result of a step and not recyclable -/
theorem broadcast_retained (m : Mgr σ α β) (e : Elem α) : ∀ (ws : List (κ × σ)),
    ∀ p ∈ (broadcast m e ws).1, ∃ s, p.2 = (m.step s e).1 ∧ m.recycle p.2 = false := by
  intro ws
  induction ws with
  | nil => intro p h; simp [broadcast] at h
  | cons q rest ih =>
    obtain ⟨k, s⟩ := q
    intro p hp
    simp only [broadcast] at hp
    split at hp
    · exact ih p hp
    · rename_i hr
      simp only [List.mem_cons] at hp
      rcases hp with rfl | hp
      · exact ⟨s, rfl, by simpa using hr⟩
      · exact ih p hp

theorem broadcast_quiet (m : Mgr σ α β) (e : Elem α) : ∀ (ws : List (κ × σ)),
    (∀ p ∈ ws, (m.step p.2 e).2 = []) → (broadcast m e ws).2.1 = [] := by
  intro ws
  induction ws with
  | nil => intro _; rfl
  | cons q rest ih =>
    obtain ⟨k, s⟩ := q
    intro h
    have h1 := h (k, s) (by simp)
    have h2 := ih (fun p hp => h p (by simp [hp]))
    simp only at h1
    simp [broadcast, h1, h2]

/-- the grammar along a run; `b` = "right after a `FlushAndRestart`", in which case every manager
    in the map is quiet at `Terminate` -/
theorem runUnits_grammar [DecidableEq κ] (m : Mgr σ α β)
    (hq : ∀ s, m.recycle (m.step s .far).1 = false → Quiet m (m.step s .far).1) :
    ∀ (es : List (Elem (κ × α))) (st : State κ σ) (b : Bool),
      (b = true → ∀ p ∈ st.windows, Quiet m p.2) → grammarGo b es = true →
      grammarGo b (runUnits m st es).flatten = true := by
  intro es
  induction es with
  | nil => intro st b _ h; simp [grammarGo] at h
  | cons e es ih =>
    intro st b hb h
    simp only [runUnits, List.flatten_cons]
    cases e with
    | item p =>
      obtain ⟨k, x⟩ := p
      have h' : grammarGo false es = true := by simpa [grammarGo] using h
      have := ih (step m st (.item (k, x))).1 false (fun h => by cases h) h'
      obtain ⟨ds, hds, hsh⟩ := step_shape m st (.item (k, x))
      rw [hsh]; simp only [ctrlOf, List.append_nil]
      exact grammarGo_data_prefix ds _ b hds this
    | ts p t =>
      obtain ⟨k, x⟩ := p
      have h' : grammarGo false es = true := by simpa [grammarGo] using h
      have := ih (step m st (.ts (k, x) t)).1 false (fun h => by cases h) h'
      obtain ⟨ds, hds, hsh⟩ := step_shape m st (.ts (k, x) t)
      rw [hsh]; simp only [ctrlOf, List.append_nil]
      exact grammarGo_data_prefix ds _ b hds this
    | flushBatch =>
      have h' : grammarGo false es = true := by simpa [grammarGo] using h
      have := ih (step m st .flushBatch).1 false (fun h => by cases h) h'
      obtain ⟨ds, hds, hsh⟩ := step_shape m st .flushBatch
      rw [hsh]; simp only [ctrlOf, List.append_assoc, List.singleton_append]
      exact grammarGo_data_prefix ds _ b hds (by simpa [grammarGo] using this)
    | wm w =>
      have h' : grammarGo false es = true := by simpa [grammarGo] using h
      have := ih (step m st (.wm w)).1 false (fun h => by cases h) h'
      obtain ⟨ds, hds, hsh⟩ := step_shape m st (.wm w)
      rw [hsh]; simp only [ctrlOf, List.append_assoc, List.singleton_append]
      exact grammarGo_data_prefix ds _ b hds (by simpa [grammarGo] using this)
    | far =>
      have h' : grammarGo true es = true := by simpa [grammarGo] using h
      have hinv : ∀ p ∈ (step m st .far).1.windows, Quiet m p.2 := by
        intro p hp
        obtain ⟨s, h1, h2⟩ := broadcast_retained m .far st.windows p hp
        rw [h1] at h2 ⊢; exact hq s h2
      have := ih (step m st .far).1 true (fun _ => hinv) h'
      obtain ⟨ds, hds, hsh⟩ := step_shape m st .far
      rw [hsh]; simp only [ctrlOf, List.append_assoc, List.singleton_append]
      exact grammarGo_data_prefix ds _ b hds (by simpa [grammarGo] using this)
    | term =>
      cases es with
      | cons e' es' => simp [grammarGo] at h
      | nil =>
        have hbt : b = true := by simpa [grammarGo] using h
        have hquiet := broadcast_quiet m .term st.windows (fun p hp => hb hbt p hp)
        simp [runUnits, step, hquiet, grammarGo, hbt]

/-- outputs do not depend on the recorded panic class -/
theorem runUnits_panic_irrel [DecidableEq κ] (m : Mgr σ α β) : ∀ (es : List (Elem (κ × α))) (ws : List (κ × σ))
    (p p' : Option String), runUnits m ⟨ws, p⟩ es = runUnits m ⟨ws, p'⟩ es := by
  intro es
  induction es with
  | nil => intros; rfl
  | cons e es ih =>
    intro ws p p'
    cases e with
    | item q => obtain ⟨k, x⟩ := q; simp only [runUnits, step]; rw [ih _ _ (p'.or _)]
    | ts q t => obtain ⟨k, x⟩ := q; simp only [runUnits, step]; rw [ih _ _ (p'.or _)]
    | flushBatch => simp only [runUnits, step]; rw [ih ws p p']
    | wm w => simp only [runUnits, step]; rw [ih _ _ (p'.or _)]
    | far => simp only [runUnits, step]; rw [ih _ _ (p'.or _)]
    | term => simp only [runUnits, step]; rw [ih _ _ (p'.or _)]

/-- the control elements of a stream, payload types forgotten -/
def ctrlPart {γ : Type} : Elem γ → Option (Elem Unit)
  | .wm w => some (.wm w)
  | .flushBatch => some .flushBatch
  | .term => some .term
  | .far => some .far
  | _ => none

theorem filterMap_ctrlPart_data {γ : Type} (ds : List (Elem γ)) (h : ∀ o ∈ ds, o.isData = true) :
    ds.filterMap ctrlPart = [] := by
  induction ds with
  | nil => rfl
  | cons d ds ih =>
    have hd := h d (by simp)
    have := ih (fun o ho => h o (by simp [ho]))
    cases d <;> simp_all [ctrlPart, Elem.isData]

theorem runUnits_ctrl [DecidableEq κ] (m : Mgr σ α β) : ∀ (es : List (Elem (κ × α))) (st : State κ σ),
    (runUnits m st es).flatten.filterMap ctrlPart = es.filterMap ctrlPart := by
  intro es
  induction es with
  | nil => intros; rfl
  | cons e es ih =>
    intro st
    obtain ⟨ds, hds, hsh⟩ := step_shape m st e
    simp only [runUnits, List.flatten_cons, List.filterMap_append, hsh, ih, filterMap_ctrlPart_data ds hds,
      List.nil_append]
    cases e <;> simp [ctrlOf, ctrlPart, List.filterMap_cons]

end Noir.WindowOp

namespace Noir.CountWindow
open Noir.WindowOp
variable {α : Type}

theorem groups_nil (N S : Nat) : groups N S ([] : List α) = [] := by
  unfold groups; rw [groupsIdx]
  have : ([] : List α).length < N ∨ S = 0 ∨ N = 0 := by simp only [List.length_nil]; omega
  rw [dif_pos this]; rfl

/-- the specification of a stream with a `FlushAndRestart` inside splits there: what follows is
    specified from that part alone -/
theorem spec_append_far (c : Cfg) : ∀ (a : List (Elem α)) (cur : List α) (b : List (Elem α)),
    spec c cur (a ++ .far :: b) = spec c cur (a ++ [.far]) ++ spec c [] b := by
  intro a
  induction a with
  | nil =>
    intro cur b
    have h1 : spec c cur (.far :: b) = groups c.size c.slide cur ++
        endGroup c (residual c.size c.slide cur) ++ spec c [] b := rfl
    have h2 : spec c cur [.far] = groups c.size c.slide cur ++
        endGroup c (residual c.size c.slide cur) ++ groups c.size c.slide [] := rfl
    rw [List.nil_append, List.nil_append, h1, h2, groups_nil, List.append_nil]
  | cons e a ih =>
    intro cur b
    cases e with
    | item x => exact ih (cur ++ [x]) b
    | ts x t => exact ih (cur ++ [x]) b
    | wm w => exact ih cur b
    | flushBatch => exact ih cur b
    | far =>
      show groups c.size c.slide cur ++ endGroup c (residual c.size c.slide cur) ++ spec c [] (a ++ .far :: b) =
        (groups c.size c.slide cur ++ endGroup c (residual c.size c.slide cur) ++ spec c [] (a ++ [.far])) ++ spec c [] b
      rw [ih [] b]; simp only [List.append_assoc]
    | term =>
      show groups c.size c.slide cur ++ endGroup c (residual c.size c.slide cur) ++ spec c [] (a ++ .far :: b) =
        (groups c.size c.slide cur ++ endGroup c (residual c.size c.slide cur) ++ spec c [] (a ++ [.far])) ++ spec c [] b
      rw [ih [] b]; simp only [List.append_assoc]

end Noir.CountWindow

/-! ## Reachable states of the count manager, non-empty groups (Props/C12WinOp.lean) -/
namespace Noir.CountWindow
open Noir.WindowOp
variable {α : Type}

/-- every state the manager reaches from its initial state, on ANY input, satisfies the
    representation invariant (for some open group) -/
theorem reachable_inv (c : Cfg) (hS : 1 ≤ c.slide) (hSN : c.slide ≤ c.size) :
    ∀ (n : Nat) (es : List (Elem α)), es.length ≤ n → ∃ cur, Inv c (stateAfter c ([] : List (Slot α)) es) cur := by
  intro n
  induction n with
  | zero =>
    intro es h
    have : es = [] := List.length_eq_zero_iff.mp (by omega)
    subst this
    exact ⟨[], inv_init c (by omega)⟩
  | succ n ih =>
    intro es hlen
    rcases split_end es with hn | ⟨seg, e, rest, rfl, hn, he⟩
    · exact ⟨_, (results_segment c hS hSN es hn).2⟩
    · obtain ⟨_, inv⟩ := results_segment c hS hSN seg hn
      obtain ⟨e1, _⟩ := process_end c hS (by omega) _ _ inv e he
      have hrest : rest.length ≤ n := by simp at hlen; omega
      rw [(results_append c seg (e :: rest) []).2]
      simp only [stateAfter, e1]
      exact ih rest hrest

/-- the state of the solo instance is the state of the plain manager -/
theorem soloState_eq (c : Cfg) : ∀ (es : List (Elem α)) (o : Option (List (Slot α))),
    (soloState (mgr c) o es).getD [] = stateAfter c (o.getD []) es := by
  intro es
  induction es with
  | nil => intros; rfl
  | cons e es ih =>
    intro o
    simp only [soloState, stateAfter, ih, (soloStep_eq c o e).2]

/-- every group of the specification is non-empty -/
theorem spec_nonempty (c : Cfg) (hS : 1 ≤ c.slide) (hSN : c.slide ≤ c.size) :
    ∀ (es : List (Elem α)) (cur : List α), ∀ g ∈ spec c cur es, g ≠ [] := by
  have hg : ∀ (cur : List α), ∀ g ∈ groups c.size c.slide cur, g ≠ [] := by
    intro cur g hg h
    have := groups_length c.size c.slide (by omega) (by omega) cur g hg
    rw [h] at this; simp at this; omega
  intro es
  induction es with
  | nil => intro cur g h; exact hg cur g h
  | cons e es ih =>
    intro cur g h
    have hend : ∀ g ∈ groups c.size c.slide cur ++ endGroup c (residual c.size c.slide cur) ++ spec c [] es, g ≠ [] := by
      intro g h
      simp only [List.mem_append] at h
      rcases h with (h | h) | h
      · exact hg cur g h
      · unfold endGroup at h
        split at h
        · simp at h
        · rename_i hc
          simp only [List.mem_singleton] at h; subst h
          intro h0; rw [h0] at hc; simp at hc
      · exact ih [] g h
    cases e with
    | item x => exact ih _ g h
    | ts x t => exact ih _ g h
    | wm w => exact ih _ g h
    | flushBatch => exact ih _ g h
    | far => exact hend g h
    | term => exact hend g h

end Noir.CountWindow
