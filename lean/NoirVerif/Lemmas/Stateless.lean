/-
  Lemmas/Stateless.lean — helper definitions and lemmas for Props/C05Stateless.lean: the control
  projection `ctrlOf` and the step lemmas of `grammarGo` / `wmSafeGo` under `liftStage`
  (Model/Stateless.lean).
-/
import NoirVerif.Model.Stateless
namespace Noir.Stateless

variable {α β : Type}

/-- the control elements of a stream (payload type forgotten) -/
def ctrlOf : List (Elem α) → List (Elem Unit)
  | [] => []
  | .item _ :: l => ctrlOf l
  | .ts _ _ :: l => ctrlOf l
  | .wm t :: l => .wm t :: ctrlOf l
  | .flushBatch :: l => .flushBatch :: ctrlOf l
  | .term :: l => .term :: ctrlOf l
  | .far :: l => .far :: ctrlOf l

theorem ctrlOf_append (l1 l2 : List (Elem α)) : ctrlOf (l1 ++ l2) = ctrlOf l1 ++ ctrlOf l2 := by
  induction l1 with
  | nil => rfl
  | cons e l ih => cases e <;> simp [ctrlOf, ih]

theorem ctrlOf_items (xs : List β) : ctrlOf (xs.map Elem.item) = [] := by
  induction xs with
  | nil => rfl
  | cons x xs ih => simpa [ctrlOf] using ih

theorem ctrlOf_tss (t : Int) (xs : List β) : ctrlOf (xs.map (fun b => Elem.ts b t)) = [] := by
  induction xs with
  | nil => rfl
  | cons x xs ih => simpa [ctrlOf] using ih

theorem liftStage_cons' (f : α → List β) (e : Elem α) (l : List (Elem α)) :
    liftStage f (e :: l) = liftElem f e ++ liftStage f l := by
  simp [liftStage]

theorem grammarGo_mono (l : List (Elem β)) (b : Bool) (h : grammarGo false l = true) :
    grammarGo b l = true := by
  cases l with
  | nil => simp [grammarGo] at h
  | cons e l =>
    cases e with
    | term =>
      cases l with
      | nil => simp [grammarGo] at h
      | cons x xs => simp [grammarGo] at h
    | item a => simpa [grammarGo] using h
    | ts a t => simpa [grammarGo] using h
    | wm t => simpa [grammarGo] using h
    | flushBatch => simpa [grammarGo] using h
    | far => simpa [grammarGo] using h

theorem grammarGo_items (xs : List β) (L : List (Elem β)) (b : Bool)
    (h : grammarGo false L = true) : grammarGo b (xs.map Elem.item ++ L) = true := by
  induction xs generalizing b with
  | nil => exact grammarGo_mono L b h
  | cons x xs ih => simp only [List.map_cons, List.cons_append, grammarGo]; exact ih false

theorem grammarGo_tss (t : Int) (xs : List β) (L : List (Elem β)) (b : Bool)
    (h : grammarGo false L = true) : grammarGo b (xs.map (fun y => Elem.ts y t) ++ L) = true := by
  induction xs generalizing b with
  | nil => exact grammarGo_mono L b h
  | cons x xs ih => simp only [List.map_cons, List.cons_append, grammarGo]; exact ih false

theorem liftStage_grammarGo (f : α → List β) (l : List (Elem α)) : ∀ b : Bool,
    grammarGo b l = true → grammarGo b (liftStage f l) = true := by
  induction l with
  | nil => intro b h; simp [grammarGo] at h
  | cons e l ih =>
    intro b h
    rw [liftStage_cons']
    cases e with
    | item a => exact grammarGo_items (f a) _ b (ih false (by simpa [grammarGo] using h))
    | ts a t => exact grammarGo_tss t (f a) _ b (ih false (by simpa [grammarGo] using h))
    | wm t =>
      have := ih false (by simpa [grammarGo] using h)
      simpa [liftElem, grammarGo] using this
    | flushBatch =>
      have := ih false (by simpa [grammarGo] using h)
      simpa [liftElem, grammarGo] using this
    | far =>
      have := ih true (by simpa [grammarGo] using h)
      simpa [liftElem, grammarGo] using this
    | term =>
      cases l with
      | nil =>
        have hb : b = true := by simpa [grammarGo] using h
        subst hb; rfl
      | cons x xs => simp [grammarGo] at h

theorem wmSafeGo_tss (t : Int) (xs : List β) (L : List (Elem β)) (w : Option Int)
    (ht : (match w with | some w => decide (w < t) | none => true) = true)
    (h : wmSafeGo w L = true) : wmSafeGo w (xs.map (fun y => Elem.ts y t) ++ L) = true := by
  induction xs with
  | nil => exact h
  | cons x xs ih =>
    simp only [List.map_cons, List.cons_append, wmSafeGo, Bool.and_eq_true]
    exact ⟨ht, ih⟩

theorem wmSafeGo_items (xs : List β) (L : List (Elem β)) (w : Option Int)
    (h : wmSafeGo w L = true) : wmSafeGo w (xs.map Elem.item ++ L) = true := by
  induction xs with
  | nil => exact h
  | cons x xs ih => simpa [wmSafeGo] using ih

theorem liftStage_wmSafeGo (f : α → List β) (l : List (Elem α)) : ∀ w : Option Int,
    wmSafeGo w l = true → wmSafeGo w (liftStage f l) = true := by
  induction l with
  | nil => intro w _; rfl
  | cons e l ih =>
    intro w h
    rw [liftStage_cons']
    cases e with
    | item a => exact wmSafeGo_items (f a) _ w (ih w (by simpa [wmSafeGo] using h))
    | ts a t =>
      simp only [wmSafeGo, Bool.and_eq_true] at h
      exact wmSafeGo_tss t (f a) _ w h.1 (ih w h.2)
    | wm t =>
      simp only [wmSafeGo, Bool.and_eq_true] at h
      simp only [liftElem, List.singleton_append, wmSafeGo, Bool.and_eq_true]
      exact ⟨h.1, ih _ h.2⟩
    | flushBatch =>
      have := ih w (by simpa [wmSafeGo] using h)
      simpa [liftElem, wmSafeGo] using this
    | far =>
      have := ih none (by simpa [wmSafeGo] using h)
      simpa [liftElem, wmSafeGo] using this
    | term =>
      have := ih w (by simpa [wmSafeGo] using h)
      simpa [liftElem, wmSafeGo] using this

end Noir.Stateless
