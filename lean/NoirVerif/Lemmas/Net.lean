import NoirVerif.Model.Net
namespace Noir.Net

theorem foldl_max_ge (f : Nat → Nat) (l : List Nat) (m : Nat) :
    m ≤ l.foldl (fun m p => max m (f p)) m ∧ ∀ p ∈ l, f p ≤ l.foldl (fun m p => max m (f p)) m := by
  induction l generalizing m with
  | nil => simp
  | cons x xs ih =>
    simp only [List.foldl_cons]
    obtain ⟨h1, h2⟩ := ih (max m (f x))
    refine ⟨by omega, ?_⟩
    intro p hp
    rcases List.mem_cons.mp hp with rfl | hp
    · omega
    · exact h2 p hp

theorem rank_le_bound (c : Config) (p : Nat) (h : p < c.nproc) : c.rank p ≤ rankBound c := by
  unfold rankBound
  exact (foldl_max_ge c.rank (List.range c.nproc) 0).2 p (List.mem_range.mpr h)

/-- In a stuck well-formed configuration nobody is blocked on a send. -/
theorem no_send_blocked (c : Config) (wf : WellFormed c) (stuck : noneRunnable c) :
    ∀ p ch, p < c.nproc → c.status p ≠ .sendBlocked ch := by
  suffices h : ∀ d p ch, p < c.nproc → c.status p = .sendBlocked ch → rankBound c - c.rank p = d → False by
    intro p ch hp hs; exact h _ p ch hp hs rfl
  intro d
  induction d using Nat.strongRecOn with
  | _ d ih =>
    intro p ch hp hs hd
    obtain ⟨hfull, hcap, hq, hprod⟩ := wf.a1 p ch hp hs
    -- the consumer is not finished, not runnable, not receive-blocked: it is send-blocked too
    have hrank := wf.a6 ch p hprod
    cases hst : c.status (c.consumer ch) with
    | finished => have := wf.a3 ch hq hst; omega
    | runnable => exact stuck _ hq hst
    | recvBlocked w =>
      have hin := wf.a4 p ch w hp hs hst
      have := (wf.a2 _ w ch hq hst hin).1
      omega
    | sendBlocked ch' =>
      have hb := rank_le_bound c _ hq
      exact ih (rankBound c - c.rank (c.consumer ch)) (by have := rank_le_bound c p hp; omega)
        (c.consumer ch) ch' hq hst rfl

/-- In a stuck well-formed configuration every process is finished. -/
theorem stuck_all_finished (c : Config) (wf : WellFormed c) (stuck : noneRunnable c) :
    allFinished c := by
  suffices h : ∀ k p, p < c.nproc → c.rank p = k → c.status p = .finished by
    intro p hp; exact h _ p hp rfl
  intro k
  induction k using Nat.strongRecOn with
  | _ k ih =>
    intro p hp hk
    cases hst : c.status p with
    | finished => rfl
    | runnable => exact absurd hst (stuck p hp)
    | sendBlocked ch => exact absurd hst (no_send_blocked c wf stuck p ch hp)
    | recvBlocked w =>
      exfalso
      apply wf.a5 p w hp hst
      intro ch hch q hq
      obtain ⟨_, hcons, hprocs⟩ := wf.a2 p w ch hp hst hch
      have hr := wf.a6 ch q hq
      rw [hcons, hk] at hr
      exact ih (c.rank q) hr q (hprocs q hq) rfl

end Noir.Net
