/-
  Lemmas/FileSplit.lean — helper lemmas for the file-split part of C15.

  Main invariant (DESIGN.md §5.21 "File split"): with `L = linesAt 0 bytes` (the lines with their start
  offsets), replica `i` emits exactly
    `L.takeWhile (off ≤ e₀)`                          for `i = 0`,
    `(L.dropWhile (off ≤ sᵢ)).takeWhile (off ≤ eᵢ)`   for `i ≠ 0`,
  i.e. the lines whose start offset lies in `(sᵢ, eᵢ]`; since `eᵢ = sᵢ₊₁`, `e_{n-1} = size`, the pieces
  telescope to `L`.
-/
import NoirVerif.Model.FileSplit
namespace Noir.FileSplit

theorem readLine_append (bs : List Nat) : (readLine bs).1 ++ (readLine bs).2 = bs := by
  induction bs with
  | nil => rfl
  | cons c cs ih =>
    simp only [readLine]
    split
    · simp
    · simp only [List.cons_append, ih]

theorem readLine_fst_length_pos {bs : List Nat} (h : bs ≠ []) : 0 < (readLine bs).1.length := by
  cases bs with
  | nil => exact absurd rfl h
  | cons c cs => simp only [readLine]; split <;> simp

theorem readLine_nil_of_fst_length_zero {bs : List Nat} (h : ¬ 0 < (readLine bs).1.length) : bs = [] := by
  cases bs with
  | nil => rfl
  | cons c cs => exact absurd (readLine_fst_length_pos (by simp)) h

/-- reading from the middle of the first line: the rest of that line is read -/
theorem readLine_drop (bs : List Nat) : ∀ s, s < (readLine bs).1.length →
    readLine (bs.drop s) = ((readLine bs).1.drop s, (readLine bs).2) := by
  induction bs with
  | nil => intro s h; simp [readLine] at h
  | cons c cs ih =>
    intro s h
    cases s with
    | zero => simp
    | succ s' =>
      simp only [readLine] at h ⊢
      split
      · rename_i hc; simp [hc] at h
      · rename_i hc
        simp only [hc, if_false, List.length_cons] at h
        simp only [List.drop_succ_cons]
        exact ih s' (by omega)

/-- seeking at or beyond the end of the first line skips it entirely -/
theorem drop_of_fst_length_le (bs : List Nat) (s : Nat) (h : (readLine bs).1.length ≤ s) :
    bs.drop s = (readLine bs).2.drop (s - (readLine bs).1.length) := by
  have := readLine_append bs
  conv => lhs; rw [← this]
  rw [List.drop_append]
  have : List.drop s (readLine bs).1 = [] := List.drop_eq_nil_of_le h
  simp [this]

/-! ### unfolding equations of the well-founded definitions -/

theorem lines_eq (bs : List Nat) :
    lines bs = if 0 < (readLine bs).1.length then (readLine bs).1 :: lines (readLine bs).2 else [] := by
  rw [lines]
  split
  rename_i l r h
  simp [h]

theorem linesAt_eq (off : Nat) (bs : List Nat) :
    linesAt off bs = if 0 < (readLine bs).1.length
      then (off, (readLine bs).1) :: linesAt (off + (readLine bs).1.length) (readLine bs).2 else [] := by
  rw [linesAt]
  split
  rename_i l r h
  simp [h]

theorem readLoop_eq (cur e : Nat) (rest : List Nat) :
    readLoop cur e rest = if cur ≤ e then
      (if 0 < (readLine rest).1.length
        then (readLine rest).1 :: readLoop (cur + (readLine rest).1.length) e (readLine rest).2 else [])
      else [] := by
  rw [readLoop]
  split
  · split
    rename_i l r h
    simp [h]
  · rfl

theorem readLine_snd_length_lt {bs : List Nat} (h : 0 < (readLine bs).1.length) :
    (readLine bs).2.length < bs.length := by
  have := readLine_length bs; omega

/-! ### lines and their offsets -/

theorem linesAt_map_snd (bs : List Nat) : ∀ off, (linesAt off bs).map (·.2) = lines bs := by
  induction h : bs.length using Nat.strongRecOn generalizing bs with
  | _ k ih =>
    intro off
    rw [linesAt_eq, lines_eq]
    by_cases hl : 0 < (readLine bs).1.length
    · simp only [hl, if_true, List.map_cons]
      rw [ih _ (by have := readLine_snd_length_lt hl; omega) _ rfl]
    · simp [hl]

theorem linesAt_off_ge (bs : List Nat) : ∀ off, ∀ p ∈ linesAt off bs, off ≤ p.1 := by
  induction h : bs.length using Nat.strongRecOn generalizing bs with
  | _ k ih =>
    intro off p hp
    rw [linesAt_eq] at hp
    by_cases hl : 0 < (readLine bs).1.length
    · simp only [hl, if_true, List.mem_cons] at hp
      rcases hp with hp | hp
      · subst hp; exact Nat.le_refl _
      · have := ih _ (by have := readLine_snd_length_lt hl; omega) _ rfl _ p hp
        omega
    · simp [hl] at hp

theorem linesAt_off_lt (bs : List Nat) : ∀ off, ∀ p ∈ linesAt off bs, p.1 < off + bs.length := by
  induction h : bs.length using Nat.strongRecOn generalizing bs with
  | _ k ih =>
    intro off p hp
    rw [linesAt_eq] at hp
    by_cases hl : 0 < (readLine bs).1.length
    · simp only [hl, if_true, List.mem_cons] at hp
      have hlen := readLine_length bs
      rcases hp with hp | hp
      · subst hp; simp only; omega
      · have := ih _ (by omega) _ rfl _ p hp
        omega
    · simp [hl] at hp

theorem dropWhile_eq_self_of_all_neg {α : Type} (p : α → Bool) (l : List α)
    (h : ∀ x ∈ l, p x = false) : l.dropWhile p = l := by
  cases l with
  | nil => rfl
  | cons x xs => simp [h x (by simp)]

theorem takeWhile_eq_self_of_all {α : Type} (p : α → Bool) (l : List α)
    (h : ∀ x ∈ l, p x = true) : l.takeWhile p = l := by
  induction l with
  | nil => rfl
  | cons x xs ih =>
    simp only [List.takeWhile_cons, h x (by simp), if_true]
    rw [ih (fun y hy => h y (by simp [hy]))]

/-- two consecutive cuts compose: the lines up to `a`, then — of the remaining ones — those up to `b ≥ a`,
    are the lines up to `b`. -/
theorem takeWhile_append_takeWhile_dropWhile {α : Type} (p q : α → Bool) (l : List α)
    (hpq : ∀ x, p x = true → q x = true) :
    l.takeWhile p ++ (l.dropWhile p).takeWhile q = l.takeWhile q := by
  induction l with
  | nil => rfl
  | cons x xs ih =>
    by_cases hp : p x = true
    · simp [hp, hpq x hp, ih]
    · simp [List.takeWhile_cons, hp]

/-! ### the read loop and the discarded first partial line -/

/-- `FileSource::next` until `FlushAndRestart` from a line start at offset `cur`: exactly the lines
    whose start offset is `≤ end`. -/
theorem readLoop_eq_takeWhile (e : Nat) (rest : List Nat) : ∀ cur,
    readLoop cur e rest = ((linesAt cur rest).takeWhile (fun p => decide (p.1 ≤ e))).map (·.2) := by
  induction h : rest.length using Nat.strongRecOn generalizing rest with
  | _ k ih =>
    intro cur
    rw [readLoop_eq, linesAt_eq]
    by_cases hc : cur ≤ e
    · by_cases hl : 0 < (readLine rest).1.length
      · simp only [hc, hl, if_true, List.takeWhile_cons, decide_true, List.map_cons]
        rw [ih _ (by have := readLine_snd_length_lt hl; omega) _ rfl]
      · simp [hc, hl]
    · by_cases hl : 0 < (readLine rest).1.length
      · simp [hc, hl]
      · simp [hc, hl]

/-- seek to offset `s` and discard up to the next `'\n'`: what remains are exactly the lines whose
    start offset is `> s`. -/
theorem discard_eq_dropWhile (bs : List Nat) : ∀ off s, s ≤ bs.length →
    linesAt (off + s + (readLine (bs.drop s)).1.length) (readLine (bs.drop s)).2
      = (linesAt off bs).dropWhile (fun p => decide (p.1 ≤ off + s)) := by
  induction h : bs.length using Nat.strongRecOn generalizing bs with
  | _ k ih =>
    intro off s hs
    by_cases hl : 0 < (readLine bs).1.length
    · conv => rhs; rw [linesAt_eq]
      simp only [hl, if_true, List.dropWhile_cons, Nat.le_add_right, decide_true]
      by_cases hsl : s < (readLine bs).1.length
      · -- the seek lands inside the first line
        rw [readLine_drop bs s hsl]
        simp only [List.length_drop]
        have e1 : off + s + ((readLine bs).1.length - s) = off + (readLine bs).1.length := by omega
        rw [e1]
        symm
        apply dropWhile_eq_self_of_all_neg
        intro p hp
        have := linesAt_off_ge _ _ p hp
        simp only [decide_eq_false_iff_not]; omega
      · -- the seek lands after the first line
        have hlen := readLine_length bs
        rw [drop_of_fst_length_le bs s (by omega)]
        have := ih _ (by omega) (readLine bs).2 rfl (off + (readLine bs).1.length)
          (s - (readLine bs).1.length) (by omega)
        have e1 : off + (readLine bs).1.length + (s - (readLine bs).1.length) = off + s := by omega
        rw [e1] at this
        exact this
    · have hb : bs = [] := readLine_nil_of_fst_length_zero hl
      subst hb
      have : s = 0 := by simp at h; omega
      subst this
      simp [linesAt_eq, readLine]

/-! ### replicas -/

/-- end offset `eᵢ` of replica `i` (file.rs:96-100) -/
def endOf (size n i : Nat) : Nat := if i = n - 1 then size else size / n * i + size / n

/-- the lines-with-offsets replica `i` is responsible for -/
def seg (bytes : List Nat) (n i : Nat) : List (Nat × List Nat) :=
  if i = 0 then (linesAt 0 bytes).takeWhile (fun p => decide (p.1 ≤ endOf bytes.length n 0))
  else ((linesAt 0 bytes).dropWhile (fun p => decide (p.1 ≤ bytes.length / n * i))).takeWhile
    (fun p => decide (p.1 ≤ endOf bytes.length n i))

theorem start_le_size (size n i : Nat) (hi : i < n) : size / n * i ≤ size := by
  have h1 : size / n * i ≤ size / n * n := Nat.mul_le_mul_left _ (by omega)
  have h2 : size / n * n ≤ size := Nat.div_mul_le_self size n
  omega

/-- Replica `i` emits exactly the lines whose start offset lies in `(sᵢ, eᵢ]` (`[0, e₀]` for `i = 0`). -/
theorem replicaLines_eq_seg (bytes : List Nat) (n i : Nat) (hi : i < n) :
    replicaLines bytes n i = (seg bytes n i).map (·.2) := by
  unfold replicaLines seg endOf
  by_cases h0 : i = 0
  · subst h0
    simp only [Nat.mul_zero, ne_eq, not_true_eq_false, if_false, List.drop_zero, if_true]
    rw [readLoop_eq_takeWhile]
  · simp only [ne_eq, h0, not_false_eq_true, if_true, if_false]
    rw [readLoop_eq_takeWhile]
    have := discard_eq_dropWhile bytes 0 (bytes.length / n * i) (start_le_size _ _ _ hi)
    simp only [Nat.zero_add] at this
    rw [this]

theorem endOf_succ (size n k : Nat) (hk : k + 1 < n) : endOf size n k = size / n * (k + 1) := by
  unfold endOf
  have : ¬ k = n - 1 := by omega
  simp only [this, if_false, Nat.mul_succ]

theorem start_le_endOf (size n k : Nat) (hk : k < n) : size / n * k ≤ endOf size n k := by
  unfold endOf
  split
  · exact start_le_size _ _ _ hk
  · exact Nat.le_add_right _ _

/-- telescoping: the first `k+1` replicas together emit the lines with start offset `≤ e_k`. -/
theorem segs_prefix (bytes : List Nat) (n : Nat) : ∀ k, k < n →
    (List.range (k + 1)).flatMap (seg bytes n)
      = (linesAt 0 bytes).takeWhile (fun p => decide (p.1 ≤ endOf bytes.length n k)) := by
  intro k
  induction k with
  | zero => intro _; simp [seg]
  | succ k ih =>
    intro hk
    rw [List.range_succ, List.flatMap_append, ih (by omega)]
    simp only [List.flatMap_cons, List.flatMap_nil, List.append_nil]
    have hseg : seg bytes n (k + 1) =
        ((linesAt 0 bytes).dropWhile (fun p => decide (p.1 ≤ endOf bytes.length n k))).takeWhile
          (fun p => decide (p.1 ≤ endOf bytes.length n (k + 1))) := by
      simp only [seg, Nat.add_one_ne_zero, if_false, endOf_succ _ _ _ hk]
    rw [hseg]
    apply takeWhile_append_takeWhile_dropWhile
    intro x hx
    have h1 := endOf_succ bytes.length n k hk
    have h2 := start_le_endOf bytes.length n (k + 1) hk
    simp only [decide_eq_true_eq] at hx ⊢
    omega

/-! ### the structural line split agrees with sequential `read_line` -/

theorem flatMap_congr' {α β : Type} (l : List α) (f g : α → List β) (h : ∀ a ∈ l, f a = g a) :
    l.flatMap f = l.flatMap g := by
  induction l with
  | nil => rfl
  | cons x xs ih =>
    simp only [List.flatMap_cons, h x (by simp)]
    rw [ih (fun a ha => h a (by simp [ha]))]

theorem readLine_noNL (cur : List Nat) (h : ∀ c ∈ cur, c ≠ NL) : readLine cur = (cur, []) := by
  induction cur with
  | nil => rfl
  | cons c cs ih =>
    have hc : c ≠ NL := h c (by simp)
    simp only [readLine, hc, if_false, ih (fun x hx => h x (by simp [hx]))]

theorem readLine_noNL_append (cur cs : List Nat) (h : ∀ c ∈ cur, c ≠ NL) :
    readLine (cur ++ NL :: cs) = (cur ++ [NL], cs) := by
  induction cur with
  | nil => simp [readLine]
  | cons c cur ih =>
    have hc : c ≠ NL := h c (by simp)
    simp only [List.cons_append, readLine, hc, if_false, ih (fun x hx => h x (by simp [hx]))]

theorem splitLines_eq_lines (bs : List Nat) : ∀ cur, (∀ c ∈ cur, c ≠ NL) →
    splitLines cur bs = lines (cur ++ bs) := by
  induction bs with
  | nil =>
    intro cur h
    rw [List.append_nil, lines_eq, readLine_noNL cur h]
    cases cur with
    | nil => simp [splitLines]
    | cons c cs => simp [splitLines, lines_eq, readLine]
  | cons c cs ih =>
    intro cur h
    by_cases hc : c = NL
    · subst hc
      rw [lines_eq, readLine_noNL_append cur cs h]
      simp only [splitLines, if_true, List.length_append, List.length_cons, List.length_nil]
      rw [ih [] (by simp)]
      simp
    · simp only [splitLines, hc, if_false]
      rw [ih (cur ++ [c]) (by intro x hx; simp at hx; rcases hx with hx | hx; exact h x hx; subst hx; exact hc)]
      simp

end Noir.FileSplit
