/-
  Lemmas/Fold.lean — helper lemmas for Props/C07 and Props/C05Fold: option-max algebra, the state
  reached by `Fold` / `KeyedFold` after the body of an iteration, association-list facts, and the
  grammar / watermark-safety recognisers over appended traces.
-/
import NoirVerif.Model.Fold
namespace Noir

/-! ### `optMax` algebra -/

theorem optMax_none_right (a : Option Int) : optMax a none = a := by cases a <;> rfl
theorem optMax_none_left (a : Option Int) : optMax none a = a := by cases a <;> rfl

theorem optMax_assoc (a b c : Option Int) : optMax (optMax a b) c = optMax a (optMax b c) := by
  cases a <;> cases b <;> cases c <;> simp [optMax, Int.max_assoc]

theorem optMax_comm (a b : Option Int) : optMax a b = optMax b a := by
  cases a <;> cases b <;> simp [optMax, Int.max_comm]

/-! ### Trace recognisers over appended traces -/

/-- the watermark state of `wmSafeGo` after a trace -/
def wmAfter {α : Type} : Option Int → List (Elem α) → Option Int
  | w, [] => w
  | _, Elem.wm t :: rest => wmAfter (some t) rest
  | _, Elem.far :: rest => wmAfter none rest
  | w, Elem.item _ :: rest => wmAfter w rest
  | w, Elem.ts _ _ :: rest => wmAfter w rest
  | w, Elem.flushBatch :: rest => wmAfter w rest
  | w, Elem.term :: rest => wmAfter w rest

theorem wmSafeGo_append {α : Type} (l₁ l₂ : List (Elem α)) (w : Option Int) :
    wmSafeGo w (l₁ ++ l₂) = (wmSafeGo w l₁ && wmSafeGo (wmAfter w l₁) l₂) := by
  induction l₁ generalizing w with
  | nil => simp [wmSafeGo, wmAfter]
  | cons e es ih =>
    cases e <;> simp [wmSafeGo, wmAfter, ih, Bool.and_assoc]

theorem wmAfter_append {α : Type} (l₁ l₂ : List (Elem α)) (w : Option Int) :
    wmAfter w (l₁ ++ l₂) = wmAfter (wmAfter w l₁) l₂ := by
  induction l₁ generalizing w with
  | nil => rfl
  | cons e es ih => cases e <;> simp [wmAfter, ih]

/-- `grammarGo` is monotone in its flag (the flag only admits more). -/
theorem grammarGo_mono {α : Type} (l : List (Elem α)) (b : Bool) :
    grammarGo false l = true → grammarGo b l = true := by
  cases b with
  | false => exact id
  | true =>
    intro h
    cases l with
    | nil => simp [grammarGo] at h
    | cons e es =>
      cases es with
      | nil => cases e <;> simp_all [grammarGo]
      | cons e' es' => cases e <;> simp_all [grammarGo]

/-- body elements in front of a non-empty rest only reset the flag -/
theorem grammarGo_body_append {α : Type} (pre rest : List (Elem α)) (b : Bool)
    (hpre : ∀ e ∈ pre, Fold.isBody e = true) (hne : pre ≠ []) :
    grammarGo b (pre ++ rest) = grammarGo false rest := by
  induction pre generalizing b with
  | nil => exact absurd rfl hne
  | cons e es ih =>
    have he := hpre e (by simp)
    have hes : ∀ e' ∈ es, Fold.isBody e' = true := fun e' h => hpre e' (by simp [h])
    by_cases hn : es = []
    · subst hn
      cases e <;> simp [Fold.isBody] at he <;> cases rest <;> simp [grammarGo]
    · have := ih false hes hn
      cases e <;> simp [Fold.isBody] at he <;>
        (cases hc : es ++ rest with
         | nil => simp at hc; exact absurd hc.1 hn
         | cons x xs => simp only [List.cons_append, hc, grammarGo]; rw [← hc]; exact this)

/-- a chunk `body* ++ [far]` brings the recogniser to the state "right after far" -/
theorem grammarGo_chunk_far {α : Type} (pre rest : List (Elem α)) (b : Bool)
    (hpre : ∀ e ∈ pre, Fold.isBody e = true) :
    grammarGo b (pre ++ Elem.far :: rest) = grammarGo true rest := by
  by_cases hn : pre = []
  · subst hn; simp [grammarGo]
  · rw [grammarGo_body_append pre _ b hpre hn]; simp [grammarGo]

end Noir

namespace Noir.Fold

variable {α β : Type}

/-! ### `values` / `dataTs` / `wmTs` element by element -/

@[simp] theorem values_nil : values ([] : List (Elem α)) = [] := rfl
@[simp] theorem values_item (a : α) (es : List (Elem α)) : values (.item a :: es) = a :: values es := rfl
@[simp] theorem values_ts (a : α) (t : Int) (es : List (Elem α)) : values (.ts a t :: es) = a :: values es := rfl
@[simp] theorem values_wm (t : Int) (es : List (Elem α)) : values (.wm t :: es) = values es := rfl
@[simp] theorem values_fb (es : List (Elem α)) : values (.flushBatch :: es) = values es := rfl
@[simp] theorem values_far (es : List (Elem α)) : values (.far :: es) = values es := rfl
@[simp] theorem values_term (es : List (Elem α)) : values (.term :: es) = values es := rfl
@[simp] theorem dataTs_nil : dataTs ([] : List (Elem α)) = [] := rfl
@[simp] theorem dataTs_item (a : α) (es : List (Elem α)) : dataTs (.item a :: es) = dataTs es := rfl
@[simp] theorem dataTs_ts (a : α) (t : Int) (es : List (Elem α)) : dataTs (.ts a t :: es) = t :: dataTs es := rfl
@[simp] theorem dataTs_wm (t : Int) (es : List (Elem α)) : dataTs (.wm t :: es) = dataTs es := rfl
@[simp] theorem dataTs_fb (es : List (Elem α)) : dataTs (.flushBatch :: es) = dataTs es := rfl
@[simp] theorem dataTs_far (es : List (Elem α)) : dataTs (.far :: es) = dataTs es := rfl
@[simp] theorem dataTs_term (es : List (Elem α)) : dataTs (.term :: es) = dataTs es := rfl
@[simp] theorem wmTs_nil : wmTs ([] : List (Elem α)) = [] := rfl
@[simp] theorem wmTs_item (a : α) (es : List (Elem α)) : wmTs (.item a :: es) = wmTs es := rfl
@[simp] theorem wmTs_ts (a : α) (t : Int) (es : List (Elem α)) : wmTs (.ts a t :: es) = wmTs es := rfl
@[simp] theorem wmTs_wm (t : Int) (es : List (Elem α)) : wmTs (.wm t :: es) = t :: wmTs es := rfl
@[simp] theorem wmTs_fb (es : List (Elem α)) : wmTs (.flushBatch :: es) = wmTs es := rfl
@[simp] theorem wmTs_far (es : List (Elem α)) : wmTs (.far :: es) = wmTs es := rfl
@[simp] theorem wmTs_term (es : List (Elem α)) : wmTs (.term :: es) = wmTs es := rfl

/-! ### Maximum of a list of timestamps -/

theorem bump_eq (o : Option Int) (t : Int) : bump o t = optMax o (some t) := by
  cases o <;> simp [bump, optMax]

theorem foldl_bump (ts : List Int) (o : Option Int) : ts.foldl bump o = optMax o (maxOpt ts) := by
  induction ts generalizing o with
  | nil => simp [maxOpt, optMax_none_right]
  | cons t ts ih => simp only [List.foldl, ih, bump_eq, maxOpt, optMax_assoc]

theorem maxOpt_eq_none (ts : List Int) : maxOpt ts = none ↔ ts = [] := by
  cases ts with
  | nil => simp [maxOpt]
  | cons t ts => cases h : maxOpt ts <;> simp [maxOpt, optMax, h]

/-- `maxOpt` is the maximum: it is attained and bounds every member -/
theorem maxOpt_spec (ts : List Int) (m : Int) (h : maxOpt ts = some m) :
    m ∈ ts ∧ ∀ t ∈ ts, t ≤ m := by
  induction ts generalizing m with
  | nil => simp [maxOpt] at h
  | cons t ts ih =>
    cases hm : maxOpt ts with
    | none =>
      have := (maxOpt_eq_none ts).mp hm
      subst this
      simp [maxOpt, optMax] at h
      subst h; simp
    | some m' =>
      simp [maxOpt, hm, optMax] at h
      obtain ⟨h1, h2⟩ := ih m' hm
      subst h
      constructor
      · rcases Int.le_total t m' with hle | hle
        · rw [Int.max_eq_right hle]; exact List.mem_cons_of_mem _ h1
        · rw [Int.max_eq_left hle]; simp
      · intro x hx
        rcases List.mem_cons.mp hx with rfl | hx
        · exact Int.le_max_left _ _
        · exact Int.le_trans (h2 x hx) (Int.le_max_right _ _)

theorem maxOpt_append (l₁ l₂ : List Int) : maxOpt (l₁ ++ l₂) = optMax (maxOpt l₁) (maxOpt l₂) := by
  induction l₁ with
  | nil => simp [maxOpt, optMax_none_left]
  | cons t ts ih => simp [maxOpt, ih, optMax_assoc]


theorem maxOpt_perm {l₁ l₂ : List Int} (h : l₁.Perm l₂) : maxOpt l₁ = maxOpt l₂ := by
  have h1 := foldl_bump l₁ none
  have h2 := foldl_bump l₂ none
  rw [optMax_none_left] at h1 h2
  rw [← h1, ← h2]
  apply h.foldl_eq'
  intro x _ y _ z
  simp only [bump_eq, optMax_assoc, optMax_comm (some x) (some y)]

/-- the maximum of the per-part maxima (parts without a timestamp contribute nothing) -/
theorem maxOpt_parts (parts : List (List Int)) :
    maxOpt (parts.filterMap maxOpt) = maxOpt parts.flatten := by
  induction parts with
  | nil => rfl
  | cons p ps ih =>
    rw [List.flatten_cons, maxOpt_append, ← ih]
    cases hp : maxOpt p with
    | none => simp [List.filterMap_cons, hp, optMax_none_left]
    | some m => simp [List.filterMap_cons, hp, maxOpt]

/-! ### The accumulator after a list of values -/

theorem foldl_accumulate_some (f : β → α → β) (init : β) (vs : List α) (b : β) :
    vs.foldl (accumulate f init) (some b) = some (vs.foldl f b) := by
  induction vs generalizing b with
  | nil => rfl
  | cons v vs ih => simp [List.foldl, accumulate, ih]

theorem foldl_accumulate_none (f : β → α → β) (init : β) (vs : List α) :
    vs.foldl (accumulate f init) none = if vs.isEmpty then none else some (vs.foldl f init) := by
  cases vs with
  | nil => rfl
  | cons v vs => simp [List.foldl, accumulate, foldl_accumulate_some]

theorem dataTs_nil_of_values_nil (xs : List (Elem α)) (h : values xs = []) : dataTs xs = [] := by
  induction xs with
  | nil => rfl
  | cons e es ih =>
    cases e <;> simp at h ⊢ <;> exact ih h

/-! ### `Fold` over the body of an iteration -/

/-- all elements are body elements (no `far`, no `term`) -/
def Body (xs : List (Elem α)) : Prop := ∀ e ∈ xs, isBody e = true

/-- the state reached from `st` after the body elements `xs` -/
def bodyState (f : β → α → β) (init : β) (st : State β) (xs : List (Elem α)) : State β :=
  ⟨(values xs).foldl (accumulate f init) st.accumulator,
   (dataTs xs).foldl bump st.timestamp,
   (wmTs xs).foldl bump st.maxWatermark, false⟩

theorem runFrom_append (f : β → α → β) (init : β) (st : State β) (xs ys : List (Elem α)) :
    runFrom f init st (xs ++ ys) =
      ((runFrom f init (runFrom f init st xs).1 ys).1,
       (runFrom f init st xs).2 ++ (runFrom f init (runFrom f init st xs).1 ys).2) := by
  induction xs generalizing st with
  | nil => simp [runFrom]
  | cons e es ih => simp [runFrom, ih, List.append_assoc]

theorem runFrom_body (f : β → α → β) (init : β) (xs : List (Elem α)) (hb : Body xs)
    (st : State β) (hd : st.done = false) :
    runFrom f init st xs = (bodyState f init st xs, []) := by
  induction xs generalizing st with
  | nil => cases st; simp_all [runFrom, bodyState]
  | cons e es ih =>
    have he := hb e (by simp)
    have hes : Body es := fun e' h => hb e' (by simp [h])
    cases e <;> simp [isBody] at he <;>
      simp [runFrom, step, hd, ih hes, bodyState]

/-- the data result the property prescribes for an iteration with body `xs` -/
def result (f : β → α → β) (init : β) (xs : List (Elem α)) : List (Elem β) :=
  if (values xs).isEmpty then [] else [mk ((values xs).foldl f init) (maxOpt (dataTs xs))]

/-- what `Fold` emits for an iteration with body `xs` ended by `marker` -/
def iterOut (f : β → α → β) (init : β) (xs : List (Elem α)) (marker : Elem β) : List (Elem β) :=
  result f init xs ++ wmElem (maxOpt (wmTs xs)) ++ [marker]

theorem flush_bodyState (f : β → α → β) (init : β) (xs : List (Elem α)) :
    flush (bodyState f init State.init xs) = result f init xs ++ wmElem (maxOpt (wmTs xs)) := by
  simp only [flush, bodyState, State.init, foldl_bump, optMax_none_left, foldl_accumulate_none, result]
  cases hv : (values xs).isEmpty <;> cases hm : maxOpt (dataTs xs) <;> cases hw : maxOpt (wmTs xs) <;>
    simp [mk, wmElem]

theorem afterFlush_bodyState (f : β → α → β) (init : β) (xs : List (Elem α)) (d : Bool) :
    afterFlush (bodyState f init State.init xs) d = ⟨none, none, none, d⟩ := by
  simp only [afterFlush, bodyState, State.init, foldl_bump, optMax_none_left, foldl_accumulate_none]
  cases hv : (values xs).isEmpty with
  | true =>
    have : values xs = [] := List.isEmpty_iff.mp hv
    simp [dataTs_nil_of_values_nil xs this, maxOpt]
  | false => simp

/-- representation invariant: a recorded timestamp implies an accumulator (fold.rs:88-93) -/
def Inv (st : State β) : Prop := st.accumulator = none → st.timestamp = none

theorem step_inv (f : β → α → β) (init : β) (st : State β) (e : Elem α) (h : Inv st) :
    Inv (step f init st e).1 := by
  unfold step
  by_cases hd : st.done = true
  · simp [hd]; exact h
  · simp only [hd, Bool.false_eq_true, if_false]
    cases e <;> simp [Inv, afterFlush, accumulate] <;> first | exact h | (intro hn; simp [hn] at *) | skip
    all_goals (cases ha : st.accumulator <;> simp_all [Inv])

theorem step_done (f : β → α → β) (init : β) (st : State β) (e : Elem α)
    (hd : st.done = false) (he : e.isTerm = false) : (step f init st e).1.done = false := by
  unfold step
  cases e <;> simp [hd, afterFlush, Elem.isTerm] at he ⊢ <;> exact hd

theorem runFrom_inv_done (f : β → α → β) (init : β) (es : List (Elem α)) (st : State β)
    (h : Inv st) (hd : st.done = false) (hnt : ∀ e ∈ es, e.isTerm = false) :
    Inv (runFrom f init st es).1 ∧ (runFrom f init st es).1.done = false := by
  induction es generalizing st with
  | nil => exact ⟨h, hd⟩
  | cons e es ih =>
    simp only [runFrom]
    exact ih _ (step_inv f init st e h) (step_done f init st e hd (hnt e (by simp)))
      (fun e' h' => hnt e' (by simp [h']))


/-! ### shape of the emitted chunks (for grammar / watermark safety) -/

theorem flush_body (st : State β) : ∀ c ∈ flush st, isBody c = true := by
  intro c hc
  simp only [flush, List.mem_append] at hc
  rcases hc with hc | hc
  · cases ha : st.accumulator <;> cases ht : st.timestamp <;> simp_all [isBody]
  · cases hw : st.maxWatermark <;> simp_all [isBody]

theorem flush_afterFlush (st : State β) (d : Bool) : flush (afterFlush st d) = [] := by
  simp [flush, afterFlush]

theorem wmSafe_flush (st : State β) : wmSafeGo none (flush st) = true := by
  cases ha : st.accumulator <;> cases ht : st.timestamp <;> cases hw : st.maxWatermark <;>
    simp [flush, ha, ht, hw, wmSafeGo]

theorem runFrom_done (f : β → α → β) (init : β) (es : List (Elem α)) (st : State β)
    (hd : st.done = true) : runFrom f init st es = (st, []) := by
  induction es with
  | nil => rfl
  | cons e es ih => simp [runFrom, step, hd, ih]

theorem step_body_out (f : β → α → β) (init : β) (st : State β) (e : Elem α)
    (he : isBody e = true) : (step f init st e).2 = [] := by
  unfold step
  by_cases hd : st.done = true
  · simp [hd]
  · cases e <;> simp [hd, isBody] at he ⊢

theorem step_body_done (f : β → α → β) (init : β) (st : State β) (e : Elem α)
    (he : isBody e = true) (hd : st.done = false) : (step f init st e).1.done = false := by
  apply step_done f init st e hd
  cases e <;> simp [isBody, Elem.isTerm] at he ⊢

end Noir.Fold

namespace Noir.KeyedFold
open Noir.Fold

variable {κ α β : Type} [DecidableEq κ]

/-! ### Association lists -/

def keys (l : List (κ × β)) : List κ := l.map Prod.fst

theorem lookup_upsert (l : List (κ × β)) (k k' : κ) (h : Option β → β) :
    lookup (upsert l k h) k' = if k' = k then some (h (lookup l k)) else lookup l k' := by
  induction l with
  | nil =>
    by_cases hk : k' = k
    · subst hk; simp [upsert, lookup]
    · have : ¬ k = k' := fun h => hk h.symm
      simp [upsert, lookup, hk, this]
  | cons p rest ih =>
    obtain ⟨k₀, v₀⟩ := p
    by_cases h0 : k₀ = k
    · subst h0
      by_cases hk : k' = k₀
      · subst hk; simp [upsert, lookup]
      · have : ¬ k₀ = k' := fun h => hk h.symm
        simp [upsert, lookup, hk, this]
    · by_cases hk : k' = k
      · subst hk; simp [upsert, lookup, h0, ih]
      · by_cases h1 : k₀ = k'
        · subst h1; simp [upsert, lookup, h0]
        · simp [upsert, lookup, h0, h1, ih, hk]

theorem keys_upsert (l : List (κ × β)) (k : κ) (h : Option β → β) :
    keys (upsert l k h) = if k ∈ keys l then keys l else keys l ++ [k] := by
  induction l with
  | nil => simp [upsert, keys]
  | cons p rest ih =>
    obtain ⟨k₀, v₀⟩ := p
    by_cases h0 : k₀ = k
    · subst h0; simp [upsert, keys]
    · have h0' : ¬ k = k₀ := fun h => h0 h.symm
      simp only [keys] at ih
      by_cases hm : k ∈ rest.map Prod.fst
      · simp [upsert, keys, h0, h0', ih, hm]
      · simp [upsert, keys, h0, h0', ih, hm]

theorem nodup_upsert (l : List (κ × β)) (k : κ) (h : Option β → β) (hn : (keys l).Nodup) :
    (keys (upsert l k h)).Nodup := by
  rw [keys_upsert]
  by_cases hm : k ∈ keys l
  · simp [hm, hn]
  · simp only [hm, if_false]
    rw [List.nodup_append]
    refine ⟨hn, by simp, ?_⟩
    intro a ha b hb
    simp at hb; subst hb
    intro hab; subst hab; exact hm ha

theorem mem_keys_upsert (l : List (κ × β)) (k k' : κ) (h : Option β → β) :
    k' ∈ keys (upsert l k h) ↔ k' ∈ keys l ∨ k' = k := by
  rw [keys_upsert]
  by_cases hm : k ∈ keys l
  · simp only [hm, if_true]
    constructor
    · exact Or.inl
    · rintro (h | rfl) <;> assumption
  · simp [hm]

theorem lookup_of_mem (l : List (κ × β)) (hn : (keys l).Nodup) (k : κ) (v : β) (h : (k, v) ∈ l) :
    lookup l k = some v := by
  induction l with
  | nil => simp at h
  | cons p rest ih =>
    obtain ⟨k₀, v₀⟩ := p
    simp only [keys, List.map_cons, List.nodup_cons] at hn
    rcases List.mem_cons.mp h with heq | hmem
    · injection heq with h1 h2; subst h1; subst h2; simp [lookup]
    · have hne : ¬ k₀ = k := by
        intro hk; subst hk
        exact hn.1 (List.mem_map.mpr ⟨(k₀, v), hmem, rfl⟩)
      simp [lookup, hne, ih hn.2 hmem]

theorem lookup_isSome_of_mem (l : List (κ × β)) (p : κ × β) (h : p ∈ l) : (lookup l p.1).isSome = true := by
  induction l with
  | nil => simp at h
  | cons q rest ih =>
    obtain ⟨k₀, v₀⟩ := q
    by_cases hk : k₀ = p.1
    · simp [lookup, hk]
    · rcases List.mem_cons.mp h with heq | hmem
      · subst heq; exact absurd rfl hk
      · simp [lookup, hk, ih hmem]

theorem lookup_eq_none_iff (l : List (κ × β)) (k : κ) : lookup l k = none ↔ k ∉ keys l := by
  induction l with
  | nil => simp [lookup, keys]
  | cons q rest ih =>
    obtain ⟨k₀, v₀⟩ := q
    simp only [keys] at ih
    by_cases hk : k₀ = k
    · simp [lookup, hk, keys]
    · have : ¬ k = k₀ := fun h => hk h.symm
      simp [lookup, hk, keys, ih, this]

/-! ### `KeyedFold` over the body of an iteration -/

/-- accumulators / timestamps after the body elements `xs` (the data branches of `step`) -/
def bodyAccs (f : β → α → β) (init : β) : List (κ × β) → List (Elem (κ × α)) → List (κ × β)
  | accs, [] => accs
  | accs, .item kv :: rest => bodyAccs f init (processItem f init accs kv.1 kv.2) rest
  | accs, .ts kv _ :: rest => bodyAccs f init (processItem f init accs kv.1 kv.2) rest
  | accs, _ :: rest => bodyAccs f init accs rest

def bodyTss : List (κ × Int) → List (Elem (κ × α)) → List (κ × Int)
  | tss, [] => tss
  | tss, .ts kv t :: rest => bodyTss (recordTs tss kv.1 t) rest
  | tss, _ :: rest => bodyTss tss rest

def bodyState (f : β → α → β) (init : β) (st : State κ β) (xs : List (Elem (κ × α))) : State κ β :=
  ⟨bodyAccs f init st.accumulators xs, bodyTss st.timestamps xs,
   (wmTs xs).foldl bump st.maxWatermark, false⟩

theorem runFrom_append (f : β → α → β) (init : β) (st : State κ β) (xs ys : List (Elem (κ × α))) :
    runFrom f init st (xs ++ ys) =
      ((runFrom f init (runFrom f init st xs).1 ys).1,
       (runFrom f init st xs).2 ++ (runFrom f init (runFrom f init st xs).1 ys).2) := by
  induction xs generalizing st with
  | nil => simp [runFrom]
  | cons e es ih => simp [runFrom, ih, List.append_assoc]

theorem runFrom_body (f : β → α → β) (init : β) (xs : List (Elem (κ × α))) (hb : Fold.Body xs)
    (st : State κ β) (hd : st.done = false) :
    runFrom f init st xs = (bodyState f init st xs, []) := by
  induction xs generalizing st with
  | nil => cases st; simp_all [runFrom, bodyState, bodyAccs, bodyTss, wmTs]
  | cons e es ih =>
    have he := hb e (by simp)
    have hes : Fold.Body es := fun e' h => hb e' (by simp [h])
    cases e <;> simp [isBody] at he <;>
      simp [runFrom, step, hd, ih hes, bodyState, bodyAccs, bodyTss, wmTs]

/-- per-key view of the accumulators: the entry of `k` is folded over exactly `k`'s values -/
theorem lookup_bodyAccs (f : β → α → β) (init : β) (xs : List (Elem (κ × α))) (accs : List (κ × β)) (k : κ) :
    lookup (bodyAccs f init accs xs) k =
      (values (proj k xs)).foldl (accumulate f init) (lookup accs k) := by
  induction xs generalizing accs with
  | nil => simp [bodyAccs, proj, values]
  | cons e es ih =>
    cases e with
    | item kv =>
      by_cases hk : kv.1 = k
      · subst hk
        simp [bodyAccs, ih, processItem, lookup_upsert, proj, values, Elem.value, accumulate]
      · have : ¬ k = kv.1 := fun h => hk h.symm
        simp [bodyAccs, ih, processItem, lookup_upsert, proj, values, hk, this]
    | ts kv t =>
      by_cases hk : kv.1 = k
      · subst hk
        simp [bodyAccs, ih, processItem, lookup_upsert, proj, values, Elem.value, accumulate]
      · have : ¬ k = kv.1 := fun h => hk h.symm
        simp [bodyAccs, ih, processItem, lookup_upsert, proj, values, hk, this]
    | wm t => simpa [bodyAccs, proj, values] using ih accs
    | flushBatch => simpa [bodyAccs, proj, values] using ih accs
    | far => simpa [bodyAccs, proj, values] using ih accs
    | term => simpa [bodyAccs, proj, values] using ih accs

theorem lookup_bodyTss (xs : List (Elem (κ × α))) (tss : List (κ × Int)) (k : κ) :
    lookup (bodyTss tss xs) k = (dataTs (proj k xs)).foldl bump (lookup tss k) := by
  induction xs generalizing tss with
  | nil => simp [bodyTss, proj, dataTs]
  | cons e es ih =>
    cases e with
    | ts kv t =>
      by_cases hk : kv.1 = k
      · subst hk
        simp [bodyTss, ih, recordTs, lookup_upsert, proj, dataTs, bump]
      · have : ¬ k = kv.1 := fun h => hk h.symm
        simp [bodyTss, ih, recordTs, lookup_upsert, proj, dataTs, hk, this]
    | item kv =>
      by_cases hk : kv.1 = k
      · simpa [bodyTss, proj, dataTs, hk] using ih tss
      · simpa [bodyTss, proj, dataTs, hk] using ih tss
    | wm t => simpa [bodyTss, proj, dataTs] using ih tss
    | flushBatch => simpa [bodyTss, proj, dataTs] using ih tss
    | far => simpa [bodyTss, proj, dataTs] using ih tss
    | term => simpa [bodyTss, proj, dataTs] using ih tss

theorem nodup_bodyAccs (f : β → α → β) (init : β) (xs : List (Elem (κ × α))) (accs : List (κ × β))
    (hn : (keys accs).Nodup) : (keys (bodyAccs f init accs xs)).Nodup := by
  induction xs generalizing accs with
  | nil => exact hn
  | cons e es ih =>
    cases e <;> simp only [bodyAccs] <;> first
      | exact ih _ (nodup_upsert _ _ _ hn)
      | exact ih _ hn

theorem occurs_iff_values (k : κ) (xs : List (Elem (κ × α))) :
    occurs k xs ↔ values (proj k xs) ≠ [] := by
  induction xs with
  | nil => simp [occurs, proj, values]
  | cons e es ih =>
    have hcons : occurs k (e :: es) ↔ (∃ kv, e.value = some kv ∧ kv.1 = k) ∨ occurs k es := by
      simp [occurs]
    rw [hcons, ih]
    cases e with
    | item kv =>
      by_cases hk : kv.1 = k
      · simp [proj, values, Elem.value, hk]
      · simp [proj, values, Elem.value, hk]
    | ts kv t =>
      by_cases hk : kv.1 = k
      · simp [proj, values, Elem.value, hk]
      · simp [proj, values, Elem.value, hk]
    | wm t => simp [proj, values, Elem.value]
    | flushBatch => simp [proj, values, Elem.value]
    | far => simp [proj, values, Elem.value]
    | term => simp [proj, values, Elem.value]



/-! ### a replica of a keyed stream sees the elements of its keys -/

/-- what a replica that owns the keys selected by `mine` receives: the data elements of those
    keys and all control elements -/
def keep (mine : κ → Bool) : Elem (κ × α) → Bool
  | .item kv => mine kv.1
  | .ts kv _ => mine kv.1
  | _ => true

omit [DecidableEq κ] in
theorem filter_keep_cons (mine : κ → Bool) (e : Elem (κ × α)) (es : List (Elem (κ × α))) :
    (e :: es).filter (keep mine) = if keep mine e then e :: es.filter (keep mine) else es.filter (keep mine) := by
  simp [List.filter_cons]

theorem proj_cons (k : κ) (e : Elem (κ × α)) (es : List (Elem (κ × α))) :
    proj k (e :: es) =
      (match e with
       | .item kv => if kv.1 = k then [Elem.item kv.2] else []
       | .ts kv t => if kv.1 = k then [Elem.ts kv.2 t] else []
       | _ => []) ++ proj k es := by
  cases e with
  | item kv => by_cases h : kv.1 = k <;> simp [proj, h]
  | ts kv t => by_cases h : kv.1 = k <;> simp [proj, h]
  | wm t => simp [proj]
  | flushBatch => simp [proj]
  | far => simp [proj]
  | term => simp [proj]

theorem proj_filter_keep (mine : κ → Bool) (k : κ) (hk : mine k = true) (xs : List (Elem (κ × α))) :
    proj k (xs.filter (keep mine)) = proj k xs := by
  induction xs with
  | nil => rfl
  | cons e es ih =>
    rw [filter_keep_cons]
    cases hke : keep mine e with
    | true => simp only [if_true]; rw [proj_cons, proj_cons, ih]
    | false =>
      simp only [Bool.false_eq_true, if_false]
      rw [proj_cons, ih]
      cases e with
      | item kv =>
        have : ¬ kv.1 = k := by intro h; simp [keep, h, hk] at hke
        simp [this]
      | ts kv t =>
        have : ¬ kv.1 = k := by intro h; simp [keep, h, hk] at hke
        simp [this]
      | wm t => simp
      | flushBatch => simp
      | far => simp
      | term => simp


/-! ### shape of the emitted chunks (for grammar / watermark safety) -/

omit [DecidableEq κ] in
theorem mk_body (v : β) (t : Option Int) : isBody (Fold.mk v t) = true := by
  cases t <;> rfl

theorem flush_body (st : State κ β) : ∀ c ∈ flush st, isBody c = true := by
  intro c hc
  simp only [flush, List.mem_append, List.mem_map] at hc
  rcases hc with ⟨p, _, rfl⟩ | hc
  · exact mk_body _ _
  · cases hw : st.maxWatermark <;> simp_all [wmElem, isBody]

theorem flush_afterFlush (st : State κ β) (d : Bool) : flush (afterFlush st d) = [] := by
  simp [flush, afterFlush, wmElem]

omit [DecidableEq κ] in
theorem wmSafe_results (l : List (κ × β)) (g : κ × β → Option Int) (rest : List (Elem (κ × β))) :
    wmSafeGo none (l.map (fun kv => Fold.mk kv (g kv)) ++ rest) = wmSafeGo none rest := by
  induction l with
  | nil => rfl
  | cons p ps ih =>
    simp only [List.map_cons, List.cons_append]
    cases hg : g p with
    | none => exact ih
    | some t =>
      show (true && wmSafeGo none _) = _
      rw [Bool.true_and]; exact ih

theorem wmSafe_flush (st : State κ β) : wmSafeGo none (flush st) = true := by
  simp only [flush]
  rw [wmSafe_results]
  cases st.maxWatermark <;> simp [wmElem, wmSafeGo]

theorem runFrom_done (f : β → α → β) (init : β) (es : List (Elem (κ × α))) (st : State κ β)
    (hd : st.done = true) : runFrom f init st es = (st, []) := by
  induction es with
  | nil => rfl
  | cons e es ih => simp [runFrom, step, hd, ih]

theorem step_body_out (f : β → α → β) (init : β) (st : State κ β) (e : Elem (κ × α))
    (he : isBody e = true) : (step f init st e).2 = [] := by
  unfold step
  by_cases hd : st.done = true
  · simp [hd]
  · cases e <;> simp [hd, isBody] at he ⊢

theorem step_body_done (f : β → α → β) (init : β) (st : State κ β) (e : Elem (κ × α))
    (he : isBody e = true) (hd : st.done = false) : (step f init st e).1.done = false := by
  unfold step
  cases e <;> simp [hd, isBody] at he ⊢ <;> exact hd

end Noir.KeyedFold

/-! ### Two-phase (local, then global) aggregation: `fold_assoc`, `group_by_fold` and what is built
    on them (`operator/mod.rs:765-774, 816-848`) -/
namespace Noir.TwoPhase

variable {α β κ : Type}

/-- the order of two consecutive elements does not matter to `local` -/
def RightComm (f : β → α → β) : Prop := ∀ b x y, f (f b x) y = f (f b y) x

/-- folding a (non-empty) partial result into the global accumulator is the same as continuing the
    local fold from that accumulator. Only non-empty parts matter: a replica that saw no element
    has no accumulator and sends nothing (fold.rs:101, keyed_fold.rs:149). -/
def Compat (loc : β → α → β) (glob : β → β → β) (init : β) : Prop :=
  ∀ a xs, xs ≠ [] → glob a (xs.foldl loc init) = xs.foldl loc a

/-- the partial results that reach the global phase: one per replica that saw at least one element -/
def partials (loc : β → α → β) (init : β) (parts : List (List α)) : List β :=
  (parts.filter (fun p => !p.isEmpty)).map (fun p => p.foldl loc init)

theorem foldl_partials (loc : β → α → β) (glob : β → β → β) (init : β) (hc : Compat loc glob init)
    (parts : List (List α)) (a : β) :
    (partials loc init parts).foldl glob a = parts.flatten.foldl loc a := by
  induction parts generalizing a with
  | nil => rfl
  | cons p ps ih =>
    cases p with
    | nil => simpa [partials] using ih a
    | cons x xs =>
      have := hc a (x :: xs) (by simp)
      simp only [partials, List.filter_cons, List.isEmpty_cons, Bool.not_false, if_true, List.map_cons,
        List.foldl_cons, List.flatten_cons, List.foldl_append] at this ⊢
      rw [this]
      exact ih _

/-- the values of key `k`, in order -/
def vals [DecidableEq κ] (k : κ) (l : List (κ × α)) : List α :=
  (l.filter (fun p => decide (p.1 = k))).map Prod.snd

theorem vals_flatten [DecidableEq κ] (k : κ) (parts : List (List (κ × α))) :
    ((parts.map (vals k)).flatten) = vals k parts.flatten := by
  induction parts with
  | nil => rfl
  | cons p ps ih => simp [vals, List.filter_append] at ih ⊢; exact ih


/-! ### operator-level two-phase: what the local instances hand to the global one -/
section OperatorLevel
open Noir.Fold

/-- the data elements of a trace -/
def dataOut {α : Type} (l : List (Elem α)) : List (Elem α) := l.filter Elem.isData

theorem values_append (l₁ l₂ : List (Elem α)) : values (l₁ ++ l₂) = values l₁ ++ values l₂ := by
  simp [values]
theorem dataTs_append (l₁ l₂ : List (Elem α)) : dataTs (l₁ ++ l₂) = dataTs l₁ ++ dataTs l₂ := by
  simp [dataTs]
theorem wmTs_append (l₁ l₂ : List (Elem α)) : wmTs (l₁ ++ l₂) = wmTs l₁ ++ wmTs l₂ := by
  simp [wmTs]

theorem values_flatten (ps : List (List (Elem α))) : values ps.flatten = (ps.map values).flatten := by
  induction ps with
  | nil => rfl
  | cons p ps ih => simp [values_append, ih]

theorem dataTs_flatten (ps : List (List (Elem α))) : dataTs ps.flatten = (ps.map dataTs).flatten := by
  induction ps with
  | nil => rfl
  | cons p ps ih => simp [dataTs_append, ih]

theorem values_dataOut (l : List (Elem α)) : values (dataOut l) = values l := by
  induction l with
  | nil => rfl
  | cons e es ih => cases e <;> simp [dataOut, List.filter_cons, Elem.isData] at ih ⊢ <;> exact ih

theorem dataTs_dataOut (l : List (Elem α)) : dataTs (dataOut l) = dataTs l := by
  induction l with
  | nil => rfl
  | cons e es ih => cases e <;> simp [dataOut, List.filter_cons, Elem.isData] at ih ⊢ <;> exact ih

theorem dataOut_append (l₁ l₂ : List (Elem α)) : dataOut (l₁ ++ l₂) = dataOut l₁ ++ dataOut l₂ := by
  simp [dataOut]

theorem dataOut_result (f : β → α → β) (init : β) (xs : List (Elem α)) :
    dataOut (result f init xs) = result f init xs := by
  unfold result
  split
  · rfl
  · cases maxOpt (dataTs xs) <;> simp [dataOut, mk, Elem.isData]

theorem dataOut_wmElem (w : Option Int) : dataOut (wmElem w : List (Elem β)) = [] := by
  cases w <;> simp [dataOut, wmElem, Elem.isData]

/-- the data part of what `Fold` emits for one iteration -/
theorem dataOut_iterOut (f : β → α → β) (init : β) (xs : List (Elem α)) :
    dataOut (result f init xs ++ wmElem (maxOpt (wmTs xs)) ++ [Elem.far]) = result f init xs := by
  rw [dataOut_append, dataOut_append, dataOut_result, dataOut_wmElem]
  simp [dataOut, Elem.isData]

theorem values_result (f : β → α → β) (init : β) (p : List (Elem α)) :
    values (result f init p) = if (values p).isEmpty then [] else [(values p).foldl f init] := by
  unfold result
  split
  · rfl
  · cases maxOpt (dataTs p) <;> simp [mk]

theorem dataTs_result (f : β → α → β) (init : β) (p : List (Elem α)) :
    dataTs (result f init p) = (maxOpt (dataTs p)).toList := by
  unfold result
  split
  · rename_i h
    have : values p = [] := List.isEmpty_iff.mp h
    simp [dataTs_nil_of_values_nil p this, maxOpt]
  · cases maxOpt (dataTs p) <;> simp [mk]

theorem values_flatMap_result (loc : β → α → β) (init : β) (ps : List (List (Elem α))) :
    values (ps.flatMap (result loc init)) = partials loc init (ps.map values) := by
  induction ps with
  | nil => rfl
  | cons p ps ih =>
    simp only [List.flatMap_cons, values_append, ih, values_result, List.map_cons, partials,
      List.filter_cons]
    cases h : (values p).isEmpty <;> simp [h]

theorem dataTs_flatMap_result (loc : β → α → β) (init : β) (ps : List (List (Elem α))) :
    dataTs (ps.flatMap (result loc init)) = (ps.map dataTs).filterMap maxOpt := by
  induction ps with
  | nil => rfl
  | cons p ps ih =>
    simp only [List.flatMap_cons, dataTs_append, ih, dataTs_result, List.map_cons, List.filterMap_cons]
    cases h : maxOpt (dataTs p) <;> simp [h]

/-- the result of an iteration does not depend on the arrival order for an order-insensitive
    function -/
theorem result_perm (f : β → α → β) (init : β) (hrc : RightComm f) (xs ys : List (Elem α))
    (h : xs.Perm ys) : result f init xs = result f init ys := by
  have hv : (values xs).Perm (values ys) := h.filterMap _
  have ht : (dataTs xs).Perm (dataTs ys) := h.filterMap _
  have he : (values xs).isEmpty = (values ys).isEmpty := by
    have := hv.length_eq
    cases hx : values xs <;> cases hy : values ys <;> simp_all
  unfold result
  rw [he, maxOpt_perm ht, hv.foldl_eq' (fun x _ y _ z => hrc z x y) init]

end OperatorLevel

/-- the Option-wrapped reduction built by `reduce` / `reduce_assoc` / `group_by_reduce` /
    `group_by_sum` (`operator/mod.rs:1590-1592, 1637-1646, 1464-1475, 1237-1251`):
    local step on an element (through `get_value = g`) -/
def optLocal {γ : Type} (op : γ → γ → γ) (g : α → γ) (acc : Option γ) (v : α) : Option γ :=
  match acc with
  | some a => some (op a (g v))
  | none => some (g v)

/-- … and the global step on a partial result -/
def optGlobal {γ : Type} (op : γ → γ → γ) (acc : Option γ) (v : Option γ) : Option γ :=
  match acc, v with
  | none, v => v
  | some a, some b => some (op a b)
  | some a, none => some a

theorem foldl_optLocal_some {γ : Type} (op : γ → γ → γ) (g : α → γ) (xs : List α) (a : γ) :
    xs.foldl (optLocal op g) (some a) = some (xs.foldl (fun c v => op c (g v)) a) := by
  induction xs generalizing a with
  | nil => rfl
  | cons x xs ih => simp [optLocal, ih]

theorem foldl_op_assoc {γ : Type} (op : γ → γ → γ) (hassoc : ∀ a b c, op (op a b) c = op a (op b c))
    (g : α → γ) (xs : List α) (a b : γ) :
    op a (xs.foldl (fun c v => op c (g v)) b) = xs.foldl (fun c v => op c (g v)) (op a b) := by
  induction xs generalizing b with
  | nil => rfl
  | cons x xs ih => simp [ih, hassoc]


section KeyedOperatorLevel
open Noir.Fold Noir.KeyedFold
variable [DecidableEq κ]

theorem flatMap_congr_mem {ι ο : Type} (l : List ι) (g h : ι → List ο) (hgh : ∀ x ∈ l, g x = h x) :
    l.flatMap g = l.flatMap h := by
  induction l with
  | nil => rfl
  | cons x xs ih =>
    simp only [List.flatMap_cons]
    rw [hgh x (by simp), ih (fun y hy => hgh y (by simp [hy]))]

theorem flatMap_map' {ι ο π : Type} (l : List ι) (g : ι → ο) (h : ο → List π) :
    (l.map g).flatMap h = l.flatMap (fun x => h (g x)) := by
  induction l with
  | nil => rfl
  | cons x xs ih => simp [ih]

omit [DecidableEq κ] in
theorem isData_mk (v : β) (t : Option Int) : (mk v t).isData = true := by cases t <;> rfl

omit [DecidableEq κ] in
theorem dataOut_map_mk {ι : Type} (l : List ι) (g : ι → β) (t : ι → Option Int) :
    dataOut (l.map (fun x => mk (g x) (t x))) = l.map (fun x => mk (g x) (t x)) := by
  induction l with
  | nil => rfl
  | cons x xs ih =>
    simp only [dataOut, List.map_cons, List.filter_cons, isData_mk, if_true] at ih ⊢
    rw [ih]

theorem proj_append (k : κ) (l₁ l₂ : List (Elem (κ × α))) :
    proj k (l₁ ++ l₂) = proj k l₁ ++ proj k l₂ := by simp [proj]

theorem proj_flatten (k : κ) (ps : List (List (Elem (κ × α)))) :
    proj k ps.flatten = (ps.map (proj k)).flatten := by
  induction ps with
  | nil => rfl
  | cons p ps ih => simp [proj_append, ih]

theorem proj_mk (k k' : κ) (v : β) (t : Option Int) :
    proj k [mk (k', v) t] = if k' = k then [mk v t] else [] := by
  cases t <;> by_cases h : k' = k <;> simp [proj, mk, h]

theorem proj_dataOut (k : κ) (l : List (Elem (κ × α))) : proj k (dataOut l) = proj k l := by
  induction l with
  | nil => rfl
  | cons e es ih =>
    cases e with
    | item kv =>
      simp only [dataOut, List.filter_cons, Elem.isData, if_true] at ih ⊢
      rw [proj_cons, proj_cons, ih]
    | ts kv t =>
      simp only [dataOut, List.filter_cons, Elem.isData, if_true] at ih ⊢
      rw [proj_cons, proj_cons, ih]
    | wm t => simpa [dataOut, List.filter_cons, Elem.isData, proj_cons] using ih
    | flushBatch => simpa [dataOut, List.filter_cons, Elem.isData, proj_cons] using ih
    | far => simpa [dataOut, List.filter_cons, Elem.isData, proj_cons] using ih
    | term => simpa [dataOut, List.filter_cons, Elem.isData, proj_cons] using ih

theorem dataOut_proj (k : κ) (l : List (Elem (κ × α))) : dataOut (proj k l) = proj k l := by
  induction l with
  | nil => rfl
  | cons e es ih =>
    rw [proj_cons, dataOut_append, ih]
    congr 1
    cases e with
    | item kv => by_cases h : kv.1 = k <;> simp [h, dataOut, Elem.isData]
    | ts kv t => by_cases h : kv.1 = k <;> simp [h, dataOut, Elem.isData]
    | wm t => rfl
    | flushBatch => rfl
    | far => rfl
    | term => rfl

/-- projecting the per-key results of an iteration on one key -/
theorem proj_map_resultFor (f : β → α → β) (init : β) (zs : List (Elem (κ × α))) (k : κ)
    (ks : List κ) (hn : ks.Nodup) :
    proj k (ks.map (resultFor f init zs)) =
      if k ∈ ks then [mk ((values (proj k zs)).foldl f init) (maxOpt (dataTs (proj k zs)))] else [] := by
  induction ks with
  | nil => rfl
  | cons k' ks ih =>
    rw [List.nodup_cons] at hn
    have hsplit : (k' :: ks).map (resultFor f init zs) =
        [resultFor f init zs k'] ++ ks.map (resultFor f init zs) := rfl
    rw [hsplit, proj_append, ih hn.2]
    simp only [resultFor, proj_mk]
    by_cases h : k' = k
    · subst h; simp [hn.1]
    · have h' : ¬ k = k' := fun e => h e.symm
      simp [h, h']

omit [DecidableEq κ] in
theorem body_filter (xs : List (Elem (κ × α))) (p : Elem (κ × α) → Bool) (hb : Body xs) :
    Body (xs.filter p) := fun e he => hb e (List.mem_filter.mp he).1

/-- the `(sum, count)` accumulator of `group_by_avg` (`operator/mod.rs:1298-1319`): local step … -/
def avgLocal (g : α → Int) (acc : Option Int × Nat) (v : α) : Option Int × Nat :=
  (optLocal (· + ·) g acc.1 v, acc.2 + 1)

/-- … and global step -/
def avgGlobal (acc l : Option Int × Nat) : Option Int × Nat :=
  (optGlobal (· + ·) acc.1 l.1, acc.2 + l.2)

omit [DecidableEq κ] in
theorem foldl_avgLocal (g : α → Int) (xs : List α) (s : Option Int) (c : Nat) :
    xs.foldl (avgLocal g) (s, c) = (xs.foldl (optLocal (· + ·) g) s, c + xs.length) := by
  induction xs generalizing s c with
  | nil => rfl
  | cons x xs ih => simp [avgLocal, ih]; omega

end KeyedOperatorLevel

/-- "keep the element with the larger value, the accumulator on ties" — `group_by_max_element`
    (`operator/mod.rs:1185-1189`) -/
def keepMax (g : α → Int) (out v : α) : α := if g v > g out then v else out
/-- "keep the element with the smaller value, the accumulator on ties" — `group_by_min_element`
    (`operator/mod.rs:1403-1407`) -/
def keepMin (g : α → Int) (out v : α) : α := if g v < g out then v else out

end Noir.TwoPhase
