/-
  Lemmas/Link.lean — the link invariant and its preservation by each kind of stage move.
-/
import NoirVerif.Model.Link
import NoirVerif.Lemmas.Batcher
namespace Noir.Link

variable {ε : Type}

/-- `remote_recv` rebuilds exactly the endpoint `remote_send` was given, when the frame travels
    on the connection chosen by `register_mux` (`DemuxCoord::from(receiver_endpoint)`). -/
theorem rebuild_tag (c : Endpoint) : rebuild (demuxOf c) (tagOf c) = c := by
  cases c; rfl

/-! ### projections -/

/-- contribution of one message to the `(p, c)` projection -/
def part (p : Coord) (c : Endpoint) (m : Msg ε) : List ε :=
  if m.src = p ∧ m.dst = c then m.body else []

theorem proj_def (p : Coord) (c : Endpoint) (q : List (Msg ε)) : proj p c q = q.flatMap (part p c) := rfl

@[simp] theorem proj_nil (p : Coord) (c : Endpoint) : proj p c ([] : List (Msg ε)) = [] := rfl

@[simp] theorem proj_cons (p : Coord) (c : Endpoint) (m : Msg ε) (q : List (Msg ε)) :
    proj p c (m :: q) = part p c m ++ proj p c q := by simp [proj_def]

@[simp] theorem proj_append (p : Coord) (c : Endpoint) (a b : List (Msg ε)) :
    proj p c (a ++ b) = proj p c a ++ proj p c b := by simp [proj_def]

theorem proj_eq_nil (p : Coord) (c : Endpoint) (q : List (Msg ε))
    (h : ∀ m ∈ q, ¬ (m.src = p ∧ m.dst = c)) : proj p c q = [] := by
  induction q with
  | nil => rfl
  | cons m q ih =>
    rw [proj_cons, ih (fun m' hm' => h m' (by simp [hm']))]
    have := h m (by simp)
    simp [part, this]

theorem proj_batches_same (p : Coord) (c : Endpoint) (bs : List (List ε)) :
    proj p c (bs.map (fun b => (⟨p, c, b⟩ : Msg ε))) = bs.flatten := by
  induction bs with
  | nil => rfl
  | cons b bs ih => simp [part, ih]

theorem proj_batches_other (p p' : Coord) (c c' : Endpoint) (h : ¬ (p = p' ∧ c = c'))
    (bs : List (List ε)) : proj p' c' (bs.map (fun b => (⟨p, c, b⟩ : Msg ε))) = [] := by
  apply proj_eq_nil
  intro m hm
  simp only [List.mem_map] at hm
  obtain ⟨b, _, rfl⟩ := hm
  exact h

/-! ### the invariant -/

/-- balance of one (producer, endpoint) pair: received, then discarded (receiver gone), then in
    flight, is what was emitted -/
def Bal (s : State ε) (p : Coord) (c : Endpoint) : Prop :=
  deliveredFrom s p c ++ droppedFrom s p c ++ inflight s p c = s.emitted p c

structure Inv (mode : Coord → Batcher.Mode) (s : State ε) : Prop where
  routed : Routed s
  single : ∀ p c, Batcher.SingleOk (mode p) (s.buffer p c)
  /-- nothing is discarded for a consumer that still holds its receiver -/
  alive : ∀ c, s.gone c = false → s.dropped c = []
  /-- the channel of a receiver that is gone holds nothing -/
  goneEmpty : ∀ c, s.gone c = true → s.chan c = []
  bal : ∀ p c, Bal s p c

theorem inv_init (mode : Coord → Batcher.Mode) : Inv mode (State.init : State ε) := by
  refine ⟨⟨?_, ?_, ?_, ?_, ?_⟩, ?_, ?_, ?_, ?_⟩ <;>
    simp [State.init, Batcher.SingleOk, Bal, deliveredFrom, droppedFrom, inflight]

/-- a remote queue holds nothing for a local pair -/
theorem mux_local_nil (s : State ε) (hr : Routed s) (p : Coord) (c : Endpoint)
    (hl : isRemote p c = false) (k : Conn) : proj p c (s.mux k) = [] := by
  apply proj_eq_nil
  intro m hm ⟨h1, h2⟩
  have := (hr.mux k m hm).2
  rw [h1, h2, hl] at this
  exact Bool.false_ne_true this

theorem wire_local_nil (s : State ε) (hr : Routed s) (p : Coord) (c : Endpoint)
    (hl : isRemote p c = false) (k : Conn) : proj p c ((s.wire k).map (·.2)) = [] := by
  apply proj_eq_nil
  intro m hm ⟨h1, h2⟩
  simp only [List.mem_map] at hm
  obtain ⟨x, hx, rfl⟩ := hm
  have := (hr.wire k x hx).2.2
  rw [h1, h2, hl] at this
  exact Bool.false_ne_true this

/-! ### one lemma per move -/

theorem step_recv (mode : Coord → Batcher.Mode) (s : State ε) (h : Inv mode s) (c0 : Endpoint) :
    Inv mode (step mode s (.recv c0)) := by
  simp only [step]
  cases hg : s.gone c0 with
  | true => simpa using h
  | false =>
  simp only [Bool.false_eq_true, if_false]
  cases hq : s.chan c0 with
  | nil => simpa using h
  | cons m rest =>
    have hm : m.dst = c0 := h.routed.chan c0 m (by simp [hq])
    have hd : s.dropped c0 = [] := h.alive c0 hg
    simp only
    refine ⟨⟨?_, ?_, h.routed.dropped, h.routed.mux, h.routed.wire⟩, h.single, h.alive, ?_, ?_⟩
    · intro c m' hm'
      simp only [upd] at hm'
      split at hm'
      · subst_vars; exact h.routed.chan _ m' (by simp [hq, hm'])
      · exact h.routed.chan c m' hm'
    · intro c m' hm'
      simp only [upd] at hm'
      split at hm'
      · rename_i heq
        subst heq
        simp only [List.mem_append, List.mem_singleton] at hm'
        rcases hm' with hm' | rfl
        · exact h.routed.delivered _ m' hm'
        · exact hm
      · exact h.routed.delivered c m' hm'
    · intro c hgc
      simp only [upd]
      split
      · rename_i heq; subst heq; rw [hg] at hgc; exact absurd hgc (by simp)
      · exact h.goneEmpty c hgc
    · intro p c
      have hb := h.bal p c
      simp only [Bal, deliveredFrom, droppedFrom, inflight, upd] at hb ⊢
      by_cases hc : c = c0
      · subst hc
        simp only [if_true, proj_append, proj_cons, proj_nil, List.append_nil]
        rw [hq, hd] at hb
        rw [hd]
        simpa [List.append_assoc] using hb
      · simp only [hc, if_false]
        exact hb

theorem step_muxSend (mode : Coord → Batcher.Mode) (s : State ε) (h : Inv mode s) (k : Conn) :
    Inv mode (step mode s (.muxSend k)) := by
  simp only [step]
  cases hq : s.mux k with
  | nil => simpa using h
  | cons m rest =>
    have hm := h.routed.mux k m (by simp [hq])
    simp only
    refine ⟨⟨h.routed.chan, h.routed.delivered, h.routed.dropped, ?_, ?_⟩, h.single, h.alive,
      h.goneEmpty, ?_⟩
    · intro k' m' hm'
      simp only [upd] at hm'
      split at hm'
      · subst_vars; exact h.routed.mux _ m' (by simp [hq, hm'])
      · exact h.routed.mux k' m' hm'
    · intro k' x hx
      simp only [upd] at hx
      split at hx
      · subst_vars
        simp only [List.mem_append, List.mem_singleton] at hx
        rcases hx with hx | rfl
        · exact h.routed.wire _ x hx
        · exact ⟨hm.1, rfl, hm.2⟩
      · exact h.routed.wire k' x hx
    · intro p c
      have hb := h.bal p c
      simp only [Bal, deliveredFrom, droppedFrom, inflight, upd] at hb ⊢
      by_cases hk : connOf p c = k
      · subst hk
        simp only [if_true, List.map_append, List.map_cons, List.map_nil, proj_append, proj_cons,
          proj_nil, List.append_nil]
        rw [hq] at hb
        simpa [List.append_assoc] using hb
      · simp only [hk, if_false]
        exact hb

theorem step_demux (mode : Coord → Batcher.Mode) (s : State ε) (h : Inv mode s) (k : Conn) :
    Inv mode (step mode s (.demux k)) := by
  simp only [step]
  cases hq : s.wire k with
  | nil => simpa using h
  | cons x rest =>
    obtain ⟨t, m⟩ := x
    obtain ⟨hk, ht, hrem⟩ := h.routed.wire k (t, m) (by simp [hq])
    simp only at hk ht hrem
    have hdest : rebuild k.demux t = m.dst := by
      rw [hk, ht]; exact rebuild_tag m.dst
    have hwire : ∀ k' x, x ∈ upd s.wire k rest k' →
        k' = connOf x.2.src x.2.dst ∧ x.1 = tagOf x.2.dst ∧ isRemote x.2.src x.2.dst = true := by
      intro k' x hx
      simp only [upd] at hx
      split at hx
      · subst_vars; exact h.routed.wire _ x (by rw [hq]; simp [hx])
      · exact h.routed.wire k' x hx
    simp only [hdest]
    cases hg : s.gone m.dst with
    | true =>
      -- the receiver is gone: the message is discarded (demultiplexer.rs:179)
      have hch : s.chan m.dst = [] := h.goneEmpty _ hg
      simp only [if_true]
      refine ⟨⟨h.routed.chan, h.routed.delivered, ?_, h.routed.mux, hwire⟩, h.single, ?_,
        h.goneEmpty, ?_⟩
      · intro c m' hm'
        simp only [upd] at hm'
        split at hm'
        · subst_vars
          simp only [List.mem_append, List.mem_singleton] at hm'
          rcases hm' with hm' | rfl
          · exact h.routed.dropped _ m' hm'
          · rfl
        · exact h.routed.dropped c m' hm'
      · intro c hgc
        simp only [upd]
        split
        · rename_i heq; subst heq; rw [hg] at hgc; exact absurd hgc (by simp)
        · exact h.alive c hgc
      · intro p c
        have hb := h.bal p c
        simp only [Bal, deliveredFrom, droppedFrom, inflight, upd] at hb ⊢
        by_cases hkk : connOf p c = k
        · rw [hkk] at hb ⊢
          rw [hq] at hb
          simp only [List.map_cons, proj_cons] at hb
          simp only [if_true]
          by_cases hc : c = m.dst
          · subst hc
            rw [hch] at hb
            simp only [if_true, proj_append, proj_cons, proj_nil, List.append_nil, hch] at hb ⊢
            simpa [List.append_assoc] using hb
          · have hp : part p c m = [] := by
              have : ¬ (m.src = p ∧ m.dst = c) := fun ⟨_, h2⟩ => hc h2.symm
              simp [part, this]
            simp only [hc, if_false]
            rw [hp] at hb
            simpa using hb
        · simp only [hkk, if_false]
          by_cases hc : c = m.dst
          · have hp : part p c m = [] := by
              have : ¬ (m.src = p ∧ m.dst = c) := by
                intro ⟨h1, h2⟩
                apply hkk; rw [hk, h1, h2]
              simp [part, this]
            simp only [hc, if_true, proj_append, proj_cons, proj_nil, List.append_nil] at hb ⊢
            rw [← hc] at hb ⊢
            rw [hp]
            simpa using hb
          · simp only [hc, if_false]
            exact hb
    | false =>
    simp only [Bool.false_eq_true, if_false]
    split
    · refine ⟨⟨?_, h.routed.delivered, h.routed.dropped, h.routed.mux, hwire⟩, h.single, h.alive,
        ?_, ?_⟩
      · intro c m' hm'
        simp only [upd] at hm'
        split at hm'
        · subst_vars
          simp only [List.mem_append, List.mem_singleton] at hm'
          rcases hm' with hm' | rfl
          · exact h.routed.chan _ m' hm'
          · rfl
        · exact h.routed.chan c m' hm'
      · intro c hgc
        simp only [upd]
        split
        · rename_i heq; subst heq; rw [hg] at hgc; exact absurd hgc (by simp)
        · exact h.goneEmpty c hgc
      · intro p c
        have hb := h.bal p c
        simp only [Bal, deliveredFrom, droppedFrom, inflight, upd] at hb ⊢
        by_cases hkk : connOf p c = k
        · rw [hkk] at hb ⊢
          rw [hq] at hb
          simp only [List.map_cons, proj_cons] at hb
          simp only [if_true]
          by_cases hc : c = m.dst
          · simp only [hc, if_true, proj_append, proj_cons, proj_nil, List.append_nil] at hb ⊢
            simpa [List.append_assoc] using hb
          · have hp : part p c m = [] := by
              have : ¬ (m.src = p ∧ m.dst = c) := fun ⟨_, h2⟩ => hc h2.symm
              simp [part, this]
            simp only [hc, if_false]
            rw [hp] at hb
            simpa using hb
        · simp only [hkk, if_false]
          by_cases hc : c = m.dst
          · have hp : part p c m = [] := by
              have : ¬ (m.src = p ∧ m.dst = c) := by
                intro ⟨h1, h2⟩
                apply hkk; rw [hk, h1, h2]
              simp [part, this]
            simp only [hc, if_true, proj_append, proj_cons, proj_nil, List.append_nil] at hb ⊢
            rw [← hc] at hb ⊢
            rw [hp]
            simpa using hb
          · simp only [hc, if_false]
            exact hb
    · exact h

theorem step_leave (mode : Coord → Batcher.Mode) (s : State ε) (h : Inv mode s) (c0 : Endpoint) :
    Inv mode (step mode s (.leave c0)) := by
  simp only [step]
  cases hg : s.gone c0 with
  | true => simpa using h
  | false =>
  simp only [Bool.false_eq_true, if_false]
  refine ⟨⟨?_, h.routed.delivered, ?_, h.routed.mux, h.routed.wire⟩, h.single, ?_, ?_, ?_⟩
  · intro c m hm
    simp only [upd] at hm
    split at hm
    · simp at hm
    · exact h.routed.chan c m hm
  · intro c m hm
    simp only [upd] at hm
    split at hm
    · rename_i heq
      subst heq
      simp only [List.mem_append] at hm
      rcases hm with hm | hm
      · exact h.routed.dropped _ m hm
      · exact h.routed.chan _ m hm
    · exact h.routed.dropped c m hm
  · intro c hgc
    simp only [upd] at hgc ⊢
    split
    · rename_i heq; simp [heq] at hgc
    · rename_i hne; simp only [hne, if_false] at hgc; exact h.alive c hgc
  · intro c hgc
    simp only [upd] at hgc ⊢
    split
    · rfl
    · rename_i hne; simp only [hne, if_false] at hgc; exact h.goneEmpty c hgc
  · intro p c
    have hb := h.bal p c
    simp only [Bal, deliveredFrom, droppedFrom, inflight, upd] at hb ⊢
    by_cases hc : c = c0
    · subst hc
      simp only [if_true, proj_append, proj_nil, List.nil_append]
      simpa [List.append_assoc] using hb
    · simp only [hc, if_false]
      exact hb

theorem step_batcher (mode : Coord → Batcher.Mode) (s : State ε) (h : Inv mode s)
    (p0 : Coord) (c0 : Endpoint) (op : Batcher.Op ε) :
    Inv mode (step mode s (.batcher p0 c0 op)) := by
  simp only [step]
  split
  · rename_i hen
    have hcons := Batcher.step_conserve (mode p0) (s.buffer p0 c0) (h.single p0 c0) op
    have hsing := Batcher.step_singleOk (mode p0) (s.buffer p0 c0) (h.single p0 c0) op
    generalize Batcher.step (mode p0) (s.buffer p0 c0) op = r at hcons hsing hen
    unfold sendTo
    cases hrem : isRemote p0 c0 with
    | true =>
      simp only [if_true]
      refine ⟨⟨h.routed.chan, h.routed.delivered, h.routed.dropped, ?_, h.routed.wire⟩, ?_,
        h.alive, h.goneEmpty, ?_⟩
      · intro k m hm
        simp only [upd] at hm
        split at hm
        · subst_vars
          simp only [List.mem_append, List.mem_map] at hm
          rcases hm with hm | ⟨b, _, rfl⟩
          · exact h.routed.mux _ m hm
          · exact ⟨rfl, hrem⟩
        · exact h.routed.mux k m hm
      · intro p c
        simp only [upd2]
        split
        · rename_i hpc; rw [hpc.1]; exact hsing
        · exact h.single p c
      · intro p c
        have hb := h.bal p c
        simp only [Bal, deliveredFrom, droppedFrom, inflight, upd, upd2] at hb ⊢
        by_cases hpc : p = p0 ∧ c = c0
        · obtain ⟨rfl, rfl⟩ := hpc
          simp only [and_self, if_true, proj_append, proj_batches_same]
          rw [← hb]
          simp only [List.append_assoc]
          rw [hcons]
        · simp only [hpc, if_false]
          have hother := proj_batches_other p0 p c0 c (fun ⟨a, b⟩ => hpc ⟨a.symm, b.symm⟩) r.2
          split
          · simp only [proj_append, hother, List.append_nil]
            rename_i hk; rw [← hk]; exact hb
          · exact hb
    | false =>
      simp only [Bool.false_eq_true, if_false]
      refine ⟨⟨?_, h.routed.delivered, h.routed.dropped, h.routed.mux, h.routed.wire⟩, ?_,
        h.alive, ?_, ?_⟩
      · intro c m hm
        simp only [upd] at hm
        split at hm
        · subst_vars
          simp only [List.mem_append, List.mem_map] at hm
          rcases hm with hm | ⟨b, _, rfl⟩
          · exact h.routed.chan _ m hm
          · rfl
        · exact h.routed.chan c m hm
      · intro p c
        simp only [upd2]
        split
        · rename_i hpc; rw [hpc.1]; exact hsing
        · exact h.single p c
      · -- a receiver that is gone gets nothing: the send is enabled only with no batch to send
        intro c hgc
        simp only [upd]
        split
        · rename_i heq
          subst heq
          have hgc' : s.gone c = true := hgc
          have hr2 : r.2 = [] := by
            simpa [hasRoom, hrem, hgc'] using hen
          simp [hr2, h.goneEmpty _ hgc]
        · exact h.goneEmpty c hgc
      · intro p c
        have hb := h.bal p c
        simp only [Bal, deliveredFrom, droppedFrom, inflight, upd, upd2] at hb ⊢
        by_cases hpc : p = p0 ∧ c = c0
        · obtain ⟨rfl, rfl⟩ := hpc
          have hm := mux_local_nil s h.routed p c hrem (connOf p c)
          have hw := wire_local_nil s h.routed p c hrem (connOf p c)
          simp only [and_self, if_true, proj_append, proj_batches_same, hm, hw, List.append_nil] at hb ⊢
          rw [← hb]
          simp only [List.append_assoc]
          rw [hcons]
        · simp only [hpc, if_false]
          have hother := proj_batches_other p0 p c0 c (fun ⟨a, b⟩ => hpc ⟨a.symm, b.symm⟩) r.2
          split
          · rename_i hc
            simp only [proj_append, hother, List.append_nil]
            rw [← hc]; exact hb
          · exact hb
  · exact h

theorem step_send (mode : Coord → Batcher.Mode) (s : State ε) (h : Inv mode s)
    (p0 : Coord) (c0 : Endpoint) (body : List ε) :
    Inv mode (step mode s (.send p0 c0 body)) := by
  simp only [step]
  split
  · rename_i hen
    simp only [Bool.and_eq_true, List.isEmpty_iff] at hen
    obtain ⟨hbuf, hroom⟩ := hen
    unfold sendTo
    cases hrem : isRemote p0 c0 with
    | true =>
      simp only [if_true]
      refine ⟨⟨h.routed.chan, h.routed.delivered, h.routed.dropped, ?_, h.routed.wire⟩, h.single,
        h.alive, h.goneEmpty, ?_⟩
      · intro k m hm
        simp only [upd] at hm
        split at hm
        · subst_vars
          simp only [List.mem_append, List.mem_map] at hm
          rcases hm with hm | ⟨b, _, rfl⟩
          · exact h.routed.mux _ m hm
          · exact ⟨rfl, hrem⟩
        · exact h.routed.mux k m hm
      · intro p c
        have hb := h.bal p c
        simp only [Bal, deliveredFrom, droppedFrom, inflight, upd, upd2] at hb ⊢
        by_cases hpc : p = p0 ∧ c = c0
        · obtain ⟨rfl, rfl⟩ := hpc
          rw [hbuf] at hb ⊢
          simp only [and_self, if_true, proj_append, proj_batches_same]
          rw [← hb]
          simp [List.append_assoc]
        · simp only [hpc, if_false]
          have hother := proj_batches_other p0 p c0 c (fun ⟨a, b⟩ => hpc ⟨a.symm, b.symm⟩) [body]
          split
          · simp only [proj_append, hother, List.append_nil]
            rename_i hk; rw [← hk]; exact hb
          · exact hb
    | false =>
      have hgone : s.gone c0 = false := by
        simp only [hasRoom, hrem, Bool.false_eq_true, if_false, Bool.and_eq_true,
          Bool.not_eq_true'] at hroom
        exact hroom.2
      simp only [Bool.false_eq_true, if_false]
      refine ⟨⟨?_, h.routed.delivered, h.routed.dropped, h.routed.mux, h.routed.wire⟩, h.single,
        h.alive, ?_, ?_⟩
      · intro c m hm
        simp only [upd] at hm
        split at hm
        · subst_vars
          simp only [List.mem_append, List.mem_map] at hm
          rcases hm with hm | ⟨b, _, rfl⟩
          · exact h.routed.chan _ m hm
          · rfl
        · exact h.routed.chan c m hm
      · intro c hgc
        have hgc' : s.gone c = true := hgc
        simp only [upd]
        split
        · rename_i heq; subst heq; rw [hgone] at hgc'; exact absurd hgc' (by simp)
        · exact h.goneEmpty c hgc'
      · intro p c
        have hb := h.bal p c
        simp only [Bal, deliveredFrom, droppedFrom, inflight, upd, upd2] at hb ⊢
        by_cases hpc : p = p0 ∧ c = c0
        · obtain ⟨rfl, rfl⟩ := hpc
          have hm := mux_local_nil s h.routed p c hrem (connOf p c)
          have hw := wire_local_nil s h.routed p c hrem (connOf p c)
          rw [hbuf] at hb ⊢
          simp only [and_self, if_true, proj_append, proj_batches_same, hm, hw, List.append_nil] at hb ⊢
          rw [← hb]
          simp [List.append_assoc]
        · simp only [hpc, if_false]
          have hother := proj_batches_other p0 p c0 c (fun ⟨a, b⟩ => hpc ⟨a.symm, b.symm⟩) [body]
          split
          · rename_i hc
            simp only [proj_append, hother, List.append_nil]
            rw [← hc]; exact hb
          · exact hb
  · exact h

theorem step_inv (mode : Coord → Batcher.Mode) (s : State ε) (h : Inv mode s) (mv : Move ε) :
    Inv mode (step mode s mv) := by
  cases mv with
  | batcher p c op => exact step_batcher mode s h p c op
  | send p c body => exact step_send mode s h p c body
  | muxSend k => exact step_muxSend mode s h k
  | demux k => exact step_demux mode s h k
  | recv c => exact step_recv mode s h c
  | leave c => exact step_leave mode s h c

theorem run_inv (mode : Coord → Batcher.Mode) : ∀ (mvs : List (Move ε)) (s : State ε),
    Inv mode s → Inv mode (run mode s mvs) := by
  intro mvs
  induction mvs with
  | nil => intro s h; exact h
  | cons mv mvs ih => intro s h; exact ih _ (step_inv mode s h mv)

end Noir.Link
