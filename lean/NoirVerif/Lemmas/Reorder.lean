/-
  Lemmas/Reorder.lean — helper lemmas for Props/C16Reorder: the stable insertion sort, the split
  of a sorted buffer at a watermark, and the invariants of `Reorder.runFrom`.
-/
import NoirVerif.Model.Reorder
import NoirVerif.Lemmas.Fold
namespace Noir.Reorder

variable {α : Type}

/-! ### the sort -/

/-- sorted by timestamp -/
def Sorted (l : List (TItem α)) : Prop := l.Pairwise (fun a b => a.2 ≤ b.2)

theorem insert_perm (x : TItem α) (l : List (TItem α)) : (insert x l).Perm (x :: l) := by
  induction l with
  | nil => exact List.Perm.refl _
  | cons y ys ih =>
    simp only [insert]
    split
    · exact List.Perm.refl _
    · exact ((List.Perm.cons y ih).trans (List.Perm.swap x y ys))

theorem sort_perm (l : List (TItem α)) : (sort l).Perm l := by
  induction l with
  | nil => exact List.Perm.refl _
  | cons x xs ih => exact (insert_perm x (sort xs)).trans (List.Perm.cons x ih)

theorem mem_sort (l : List (TItem α)) (x : TItem α) : x ∈ sort l ↔ x ∈ l := (sort_perm l).mem_iff

theorem insert_sorted (x : TItem α) (l : List (TItem α)) (h : Sorted l) : Sorted (insert x l) := by
  induction l with
  | nil => simp [insert, Sorted]
  | cons y ys ih =>
    simp only [Sorted, List.pairwise_cons] at h
    simp only [insert]
    split
    · rename_i hle
      simp only [Sorted, List.pairwise_cons]
      refine ⟨?_, h⟩
      intro b hb
      rcases List.mem_cons.mp hb with rfl | hb
      · exact hle
      · exact Int.le_trans hle (h.1 b hb)
    · rename_i hnle
      simp only [Sorted, List.pairwise_cons]
      refine ⟨?_, ih h.2⟩
      intro b hb
      rcases List.mem_cons.mp ((insert_perm x ys).mem_iff.mp hb) with rfl | hb
      · omega
      · exact h.1 b hb

theorem sort_sorted (l : List (TItem α)) : Sorted (sort l) := by
  induction l with
  | nil => simp [sort, Sorted]
  | cons x xs ih => exact insert_sorted x _ ih

/-- in a sorted buffer, everything left after popping the elements `≤ w` is `> w` -/
theorem dropWhile_gt (w : Int) (l : List (TItem α)) (h : Sorted l) :
    ∀ x ∈ l.dropWhile (fun x => decide (x.2 ≤ w)), w < x.2 := by
  induction l with
  | nil => simp
  | cons y ys ih =>
    simp only [Sorted, List.pairwise_cons] at h
    by_cases hy : y.2 ≤ w
    · simp only [List.dropWhile_cons, hy, decide_true, if_true]
      exact ih h.2
    · simp only [List.dropWhile_cons, hy, decide_false]
      intro x hx
      rcases List.mem_cons.mp hx with rfl | hx
      · omega
      · have := h.1 x hx; omega

theorem takeWhile_le (w : Int) (l : List (TItem α)) :
    ∀ x ∈ l.takeWhile (fun x => decide (x.2 ≤ w)), x.2 ≤ w := by
  intro x hx
  have := List.all_takeWhile (p := fun x : TItem α => decide (x.2 ≤ w)) (l := l)
  rw [List.all_eq_true] at this
  simpa using this x hx

theorem takeWhile_sorted (w : Int) (l : List (TItem α)) (h : Sorted l) :
    Sorted (l.takeWhile (fun x => decide (x.2 ≤ w))) :=
  List.Pairwise.sublist (List.takeWhile_sublist _) h

theorem dropWhile_sorted (w : Int) (l : List (TItem α)) (h : Sorted l) :
    Sorted (l.dropWhile (fun x => decide (x.2 ≤ w))) :=
  List.Pairwise.sublist (List.dropWhile_sublist _) h

/-! ### traces -/

theorem runFrom_append (buf : List (TItem α)) (xs ys : List (Elem α)) :
    runFrom buf (xs ++ ys) =
      ((runFrom (runFrom buf xs).1 ys).1, (runFrom buf xs).2 ++ (runFrom (runFrom buf xs).1 ys).2) := by
  induction xs generalizing buf with
  | nil => simp [runFrom]
  | cons e es ih => simp [runFrom, ih, List.append_assoc]

@[simp] theorem stamps_nil : stamps ([] : List (Elem α)) = [] := rfl

@[simp] theorem stamps_item (a : α) (es : List (Elem α)) : stamps (.item a :: es) = stamps es := rfl
@[simp] theorem stamps_ts (a : α) (t : Int) (es : List (Elem α)) : stamps (.ts a t :: es) = t :: stamps es := rfl
@[simp] theorem stamps_wm (t : Int) (es : List (Elem α)) : stamps (.wm t :: es) = t :: stamps es := rfl
@[simp] theorem stamps_fb (es : List (Elem α)) : stamps (.flushBatch :: es) = stamps es := rfl
@[simp] theorem stamps_far (es : List (Elem α)) : stamps (.far :: es) = stamps es := rfl
@[simp] theorem stamps_term (es : List (Elem α)) : stamps (.term :: es) = stamps es := rfl

theorem mem_of_mem_takeWhile {p : TItem α → Bool} {l : List (TItem α)} {x : TItem α}
    (h : x ∈ l.takeWhile p) : x ∈ l := (List.takeWhile_sublist p).subset h

theorem stamps_append (l₁ l₂ : List (Elem α)) : stamps (l₁ ++ l₂) = stamps l₁ ++ stamps l₂ := by
  simp [stamps]

theorem stamps_map_emit (l : List (TItem α)) : stamps (l.map emit) = l.map Prod.snd := by
  induction l with
  | nil => rfl
  | cons x xs ih => simp [stamps, emit, Elem.timestamp] at ih ⊢; exact ih

/-- `t` is later than the last watermark (if any) -/
def Above (lw : Option Int) (t : Int) : Prop := ∀ w, lw = some w → w < t

/-- every buffered element is later than the last watermark of the iteration -/
def BufInv (lw : Option Int) (buf : List (TItem α)) : Prop := ∀ x ∈ buf, Above lw x.2

theorem above_iff (lw : Option Int) (t : Int) :
    (match lw with | some w => decide (w < t) | none => true) = true ↔ Above lw t := by
  cases lw <;> simp [Above]

/-- emitting buffered elements that are above the last watermark is watermark-safe -/
theorem wmSafeGo_emit_append (lw : Option Int) (l : List (TItem α)) (rest : List (Elem α))
    (h : ∀ x ∈ l, Above lw x.2) :
    wmSafeGo lw (l.map emit ++ rest) = wmSafeGo lw rest := by
  induction l with
  | nil => rfl
  | cons x xs ih =>
    have hx := h x (by simp)
    have := ih (fun y hy => h y (by simp [hy]))
    simp only [List.map_cons, List.cons_append, emit, wmSafeGo] at this ⊢
    cases lw with
    | none => simpa using this
    | some w => have hw := hx w rfl; simp [hw, this]

/-- one step, as multisets: what was buffered plus the new element is what is emitted plus what
    stays buffered -/
theorem step_perm (buf : List (TItem α)) (e : Elem α) :
    ((step buf e).2 ++ (step buf e).1.map emit).Perm (buf.map emit ++ [e]) := by
  cases e with
  | item a => simp [step]; exact List.perm_append_comm (l₁ := [Elem.item a])
  | ts a t => simp [step, emit]
  | wm w =>
    simp only [step]
    have h1 : ((sort buf).takeWhile (fun x : TItem α => decide (x.2 ≤ w))).map emit ++ [Elem.wm w] ++
        ((sort buf).dropWhile (fun x : TItem α => decide (x.2 ≤ w))).map emit
        |>.Perm ((sort buf).map emit ++ [Elem.wm w]) := by
      conv => rhs; rw [← List.takeWhile_append_dropWhile (p := fun x : TItem α => decide (x.2 ≤ w)) (l := sort buf)]
      simp only [List.map_append, List.append_assoc]
      exact List.Perm.append_left _ (List.perm_append_comm)
    exact h1.trans (List.Perm.append_right _ ((sort_perm buf).map emit))
  | flushBatch => simp [step]; exact List.perm_append_comm (l₁ := [Elem.flushBatch])
  | far => simp [step]; exact List.Perm.append_right _ ((sort_perm buf).map emit)
  | term => simp [step]; exact List.perm_append_comm (l₁ := [Elem.term])

theorem runFrom_perm (es : List (Elem α)) (buf : List (TItem α)) :
    ((runFrom buf es).2 ++ (runFrom buf es).1.map emit).Perm (buf.map emit ++ es) := by
  induction es generalizing buf with
  | nil => simp [runFrom]
  | cons e es ih =>
    simp only [runFrom, List.append_assoc]
    have h1 := ih (step buf e).1
    have h2 := step_perm buf e
    calc (step buf e).2 ++ ((runFrom (step buf e).1 es).2 ++ (runFrom (step buf e).1 es).1.map emit)
        |>.Perm ((step buf e).2 ++ ((step buf e).1.map emit ++ es)) := List.Perm.append_left _ h1
      _ |>.Perm (((step buf e).2 ++ (step buf e).1.map emit) ++ es) := by rw [List.append_assoc]
      _ |>.Perm ((buf.map emit ++ [e]) ++ es) := List.Perm.append_right _ h2
      _ |>.Perm (buf.map emit ++ e :: es) := by simp

/-- buffer after the end of an iteration -/
theorem runFrom_far_buf (xs : List (Elem α)) (buf : List (TItem α)) :
    (runFrom buf (xs ++ [.far])).1 = [] := by
  rw [runFrom_append]; simp [runFrom, step]

end Noir.Reorder
