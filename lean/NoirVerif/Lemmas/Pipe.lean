/-
  Lemmas/Pipe.lean — helper lemmas for C01 (deployment transparency), model: Model/Pipe.lean.
  Part A: routing / merging primitives conserve elements.  Part B: hash routing co-locates keys.
  Part C: keyed folds of co-located partitions.  Part D: algebra of the aggregation library.
  Part E: the simulation between `parRun` and `seqRun`.
-/
import NoirVerif.Model.Pipe
namespace Noir.Pipe
open List

/-! ### Part A — conservation -/

theorem insertAt_perm (x : V) (n : Nat) (l : List V) : (insertAt x n l).Perm (x :: l) := by
  induction l generalizing n with
  | nil => cases n <;> simp [insertAt]
  | cons y l ih =>
    cases n with
    | zero => simp [insertAt]
    | succ n =>
      simp only [insertAt]
      exact ((ih n).cons y).trans (Perm.swap x y l)

theorem permBy_perm (c : Nat → Nat) (l : List V) : (permBy c l).Perm l := by
  induction l with
  | nil => simp [permBy]
  | cons x xs ih =>
    simp only [permBy]
    exact (insertAt_perm x _ _).trans (ih.cons x)

theorem flatten_map_perm {f : List V → List V} (hf : ∀ l, (f l).Perm l) (d : D) :
    (d.map f).flatten.Perm d.flatten := by
  induction d with
  | nil => simp
  | cons l d ih => simp only [map_cons, flatten_cons]; exact (hf l).append ih

theorem length_push (d : D) (r : Nat) (x : V) : (push d r x).length = d.length := by
  induction d generalizing r with
  | nil => simp [push]
  | cons l d ih => cases r <;> simp [push, ih]

theorem flatten_push (d : D) (r : Nat) (x : V) (hr : r < d.length) :
    (push d r x).flatten.Perm (d.flatten ++ [x]) := by
  induction d generalizing r with
  | nil => simp at hr
  | cons l d ih =>
    cases r with
    | zero =>
      simp only [push, flatten_cons, append_assoc]
      exact (perm_append_comm (l₁ := [x]) (l₂ := d.flatten)).append_left l
    | succ r =>
      simp only [push, flatten_cons, append_assoc]
      exact (ih r (by simpa using hr)).append_left l

theorem length_routeInto (n : Nat) (ch : Nat → V → Nat) (i : Nat) (xs : List V) (d : D) :
    (routeInto n ch i xs d).length = d.length := by
  induction xs generalizing i d with
  | nil => simp [routeInto]
  | cons x xs ih => simp [routeInto, ih, length_push]

theorem flatten_routeInto (n : Nat) (ch : Nat → V → Nat) (i : Nat) (xs : List V) (d : D)
    (hn : 0 < n) (hd : d.length = n) :
    (routeInto n ch i xs d).flatten.Perm (d.flatten ++ xs) := by
  induction xs generalizing i d with
  | nil => simp [routeInto]
  | cons x xs ih =>
    simp only [routeInto]
    have hr : ch i x % n < d.length := by rw [hd]; exact Nat.mod_lt _ hn
    refine (ih (i + 1) _ (by rw [length_push, hd])).trans ?_
    have := (flatten_push d _ x hr).append_right xs
    simpa [append_assoc] using this

/-- **conservation of an all-to-all link**: whatever the routing choices and arrival orders, the
    consumers together receive exactly what was sent -/
theorem exchange_perm (n : Nat) (ch : Nat → V → Nat) (c : Nat → Nat) (d : D) (hn : 0 < n) :
    (exchange n ch c d).flatten.Perm d.flatten := by
  unfold exchange
  refine (flatten_map_perm (permBy_perm c) _).trans ?_
  have := flatten_routeInto n ch 0 d.flatten (replicate n []) hn (by simp)
  simpa using this

theorem length_exchange (n : Nat) (ch : Nat → V → Nat) (c : Nat → Nat) (d : D) :
    (exchange n ch c d).length = n := by
  simp [exchange, length_routeInto]

theorem gather_perm (c : Nat → Nat) (d : D) : (gather c d).flatten.Perm d.flatten := by
  simp [gather]; exact permBy_perm c _

theorem broadcast_perm (n : Nat) (c : Nat → Nat) (d : D) :
    (broadcast n c d).flatten.Perm (replicate n d.flatten).flatten := by
  unfold broadcast
  induction n with
  | zero => simp
  | succ n ih => simp only [replicate_succ, flatten_cons]; exact (permBy_perm c _).append ih

theorem zipAppend_perm (x y : D) : (zipAppend x y).flatten.Perm (x.flatten ++ y.flatten) := by
  induction x generalizing y with
  | nil => simp [zipAppend]
  | cons l d ih =>
    cases y with
    | nil => simp [zipAppend]
    | cons l' d' =>
      simp only [zipAppend, flatten_cons, append_assoc]
      refine Perm.append_left l ?_
      refine ((ih d').append_left l').trans ?_
      simp only [← append_assoc]
      exact (perm_append_comm (l₁ := l') (l₂ := d.flatten)).append_right _

/-! ### Part B — co-location -/

/-- every element of replica `j` has `h key % n = off + j` -/
def InvAt (h : V → Nat) (n off : Nat) (d : D) : Prop :=
  ∀ j l, d[j]? = some l → ∀ p ∈ l, h p.fst % n = off + j

/-- equal keys are on one replica, namely `h key % #replicas` -/
def Coloc (h : V → Nat) (d : D) : Prop := InvAt h d.length 0 d

theorem InvAt.tail {h n off l d} (hi : InvAt h n off (l :: d)) : InvAt h n (off + 1) d := by
  intro j l' hj p hp
  have := hi (j + 1) l' (by simpa using hj) p hp
  omega

theorem InvAt.head {h n off l d} (hi : InvAt h n off (l :: d)) : ∀ p ∈ l, h p.fst % n = off := by
  intro p hp
  simpa using hi 0 l (by simp) p hp

theorem InvAt.cons {h n off l d} (h0 : ∀ p ∈ l, h p.fst % n = off) (ht : InvAt h n (off + 1) d) :
    InvAt h n off (l :: d) := by
  intro j l' hj p hp
  cases j with
  | zero => simp at hj; subst hj; simpa using h0 p hp
  | succ j => have := ht j l' (by simpa using hj) p hp; omega

theorem invAt_replicate (h : V → Nat) (n off k : Nat) : InvAt h n off (replicate k []) := by
  intro j l hj p hp
  rw [getElem?_replicate] at hj
  split at hj
  · cases hj; simp at hp
  · simp at hj

theorem invAt_push {h n off} (d : D) (r : Nat) (x : V) (hi : InvAt h n off d)
    (hx : h x.fst % n = off + r) : InvAt h n off (push d r x) := by
  induction d generalizing r off with
  | nil => simpa [push] using hi
  | cons l d ih =>
    cases r with
    | zero =>
      simp only [push]
      refine InvAt.cons ?_ hi.tail
      intro p hp
      rcases mem_append.mp hp with hp | hp
      · exact hi.head p hp
      · simp at hp; subst hp; simpa using hx
    | succ r =>
      simp only [push]
      exact InvAt.cons hi.head (ih r hi.tail (by omega))

theorem invAt_routeInto {h n} (i : Nat) (xs : List V) (d : D) (hi : InvAt h n 0 d) :
    InvAt h n 0 (routeInto n (fun _ v => h v.fst) i xs d) := by
  induction xs generalizing i d with
  | nil => simpa [routeInto] using hi
  | cons x xs ih =>
    simp only [routeInto]
    exact ih (i + 1) _ (invAt_push d _ x hi (by simp))

theorem invAt_map {h n off} (f : List V → List V) (d : D) (hi : InvAt h n off d)
    (hf : ∀ l p, p ∈ f l → ∃ q ∈ l, q.fst = p.fst) : InvAt h n off (d.map f) := by
  intro j l hj p hp
  rw [getElem?_map] at hj
  cases hd : d[j]? with
  | none => simp [hd] at hj
  | some l0 =>
    simp [hd] at hj; subst hj
    obtain ⟨q, hq, hqp⟩ := hf l0 p hp
    rw [← hqp]; exact hi j l0 hd q hq

/-- **hash routing co-partitions**: after an all-to-all link that routes by any hash of the key,
    all elements with equal keys are on the same replica -/
theorem coloc_exchange (h : V → Nat) (n : Nat) (c : Nat → Nat) (d : D) :
    Coloc h (exchange n (fun _ v => h v.fst) c d) := by
  unfold Coloc
  rw [length_exchange]
  unfold exchange
  apply invAt_map
  · exact invAt_routeInto 0 _ _ (invAt_replicate h n 0 n)
  · intro l p hp
    exact ⟨p, (permBy_perm c l).mem_iff.mp hp, rfl⟩

theorem coloc_map {h} (f : List V → List V) (d : D) (hc : Coloc h d)
    (hf : ∀ l p, p ∈ f l → ∃ q ∈ l, q.fst = p.fst) : Coloc h (d.map f) := by
  unfold Coloc; rw [length_map]; exact invAt_map f d hc hf

theorem coloc_single (h : V → Nat) (l : List V) : Coloc h [l] := by
  intro j l' hj p _
  cases j with
  | zero => simp [Nat.mod_one]
  | succ j => simp at hj

/-! ### Part D — algebra of the aggregation library -/

theorem emod_M (a : Int) : emod a M = a % 10007 := by
  have : max (10007 : Int) 1 = 10007 := by decide
  simp [emod, M, this]

theorem loc_rightComm (g : Agg) (a x y : Int) : g.loc (g.loc a x) y = g.loc (g.loc a y) x := by
  cases g <;> simp only [Agg.loc, emod_M] <;> omega

theorem glob_rightComm (g : Agg) (a x y : Int) : g.glob (g.glob a x) y = g.glob (g.glob a y) x := by
  cases g <;> simp only [Agg.glob, emod_M] <;> omega

theorem glob_comm (g : Agg) (x y : Int) : g.glob x y = g.glob y x := by
  cases g <;> simp only [Agg.glob, emod_M] <;> omega

/-- accumulators reachable from 0 are "normal": combining with the empty partial result is a no-op -/
def Agg.norm (g : Agg) (a : Int) : Prop := g.glob a 0 = a

theorem norm_zero (g : Agg) : g.norm 0 := by
  cases g <;> simp [Agg.norm, Agg.glob, emod_M]

theorem norm_loc (g : Agg) (a y : Int) (h : g.norm a) : g.norm (g.loc a y) := by
  cases g <;> simp only [Agg.norm, Agg.loc, Agg.glob, emod_M] at * <;> omega

theorem glob_loc (g : Agg) (a y z : Int) (h : g.norm a) :
    g.glob (g.loc a y) z = g.glob a (g.glob (g.loc 0 y) z) := by
  cases g <;> simp only [Agg.norm, Agg.loc, Agg.glob, emod_M] at * <;> omega

/-- the local fold from 0 -/
def F (g : Agg) (xs : List Int) : Int := xs.foldl g.loc 0

theorem foldl_loc_eq (g : Agg) (a : Int) (ys : List Int) (h : g.norm a) :
    ys.foldl g.loc a = g.glob a (F g ys) ∧ g.norm (ys.foldl g.loc a) := by
  induction ys generalizing a with
  | nil => exact ⟨by simpa [F] using h.symm, by simpa using h⟩
  | cons y ys ih =>
    have h1 := ih (g.loc a y) (norm_loc g a y h)
    have h2 := ih (g.loc 0 y) (norm_loc g 0 y (norm_zero g))
    refine ⟨?_, by simpa using h1.2⟩
    simp only [foldl_cons, F] at *
    rw [h1.1, h2.1]
    exact glob_loc g a y _ h

theorem F_norm (g : Agg) (xs : List Int) : g.norm (F g xs) :=
  (foldl_loc_eq g 0 xs (norm_zero g)).2

/-- the local fold is a homomorphism from concatenation to `glob` -/
theorem F_append (g : Agg) (xs ys : List Int) : F g (xs ++ ys) = g.glob (F g xs) (F g ys) := by
  unfold F
  rw [foldl_append]
  exact (foldl_loc_eq g _ ys (F_norm g xs)).1

theorem F_perm (g : Agg) {xs ys : List Int} (h : xs.Perm ys) : F g xs = F g ys :=
  h.foldl_eq' (fun x _ y _ z => loc_rightComm g z x y) 0

theorem foldl_glob_perm (g : Agg) {xs ys : List Int} (h : xs.Perm ys) (a : Int) :
    xs.foldl g.glob a = ys.foldl g.glob a :=
  h.foldl_eq' (fun x _ y _ z => glob_rightComm g z x y) a

/-- **two-phase = one-phase** (any partition, empty parts included) -/
theorem foldl_glob_partials (g : Agg) (acc : List Int) (parts : List (List Int)) :
    (parts.map (F g)).foldl g.glob (F g acc) = F g (acc ++ parts.flatten) := by
  induction parts generalizing acc with
  | nil => simp
  | cons p ps ih =>
    simp only [map_cons, foldl_cons, flatten_cons]
    rw [← F_append, ih, append_assoc]

theorem twoPhase_sum (g : Agg) (parts : List (List Int)) :
    (parts.map (F g)).foldl g.glob 0 = F g parts.flatten := by
  simpa [F] using foldl_glob_partials g [] parts

/-! ### Part C — keyed folds -/

theorem mem_dedup (a : V) (l : List V) : a ∈ dedup l ↔ a ∈ l := by
  induction l with
  | nil => simp [dedup]
  | cons x xs ih =>
    simp only [dedup, mem_cons, mem_filter, ih, decide_eq_true_eq]
    by_cases h : a = x <;> simp [h]

theorem nodup_dedup (l : List V) : (dedup l).Nodup := by
  induction l with
  | nil => simp [dedup]
  | cons x xs ih =>
    simp only [dedup, nodup_cons, mem_filter, decide_eq_true_eq]
    exact ⟨fun h => h.2 rfl, ih.filter _⟩

theorem dedup_append (l1 l2 : List V) (hd : ∀ a ∈ l1, a ∉ l2) :
    dedup (l1 ++ l2) = dedup l1 ++ dedup l2 := by
  induction l1 with
  | nil => simp [dedup]
  | cons x xs ih =>
    have hx : x ∉ l2 := hd x (by simp)
    simp only [cons_append, dedup, ih (fun a ha => hd a (by simp [ha])), filter_append, cons.injEq,
      true_and, append_cancel_left_eq]
    rw [filter_eq_self]
    intro a ha
    have : a ∈ l2 := (mem_dedup a l2).mp ha
    simp only [decide_eq_true_eq]
    intro h; subst h; exact hx this

theorem dedup_perm {l l' : List V} (h : l.Perm l') : (dedup l).Perm (dedup l') :=
  (perm_ext_iff_of_nodup (nodup_dedup l) (nodup_dedup l')).mpr fun a => by
    rw [mem_dedup, mem_dedup]; exact h.mem_iff

@[simp] theorem fst_pair (a b : V) : (V.pair a b).fst = a := rfl
@[simp] theorem snd_pair (a b : V) : (V.pair a b).snd = b := rfl

/-- the result of the keyed fold for key `k` -/
def foldFor (g : Agg) (l : List V) (k : V) : V := V.pair k (.int (F g (projs (valsOf k l))))

theorem keyedFoldS_eq (g : Agg) (l : List V) : keyedFoldS g l = (keysOf l).map (foldFor g l) := rfl

theorem valsOf_append (k : V) (l1 l2 : List V) : valsOf k (l1 ++ l2) = valsOf k l1 ++ valsOf k l2 := by
  simp [valsOf]

theorem valsOf_nil_of_not_mem (k : V) (l : List V) (h : ∀ p ∈ l, p.fst ≠ k) : valsOf k l = [] := by
  simp only [valsOf, map_eq_nil_iff, filter_eq_nil_iff, decide_eq_true_eq]
  exact h

theorem valsOf_perm (k : V) {l l' : List V} (h : l.Perm l') : (valsOf k l).Perm (valsOf k l') :=
  (h.filter _).map _

theorem keysOf_perm {l l' : List V} (h : l.Perm l') : (keysOf l).Perm (keysOf l') :=
  dedup_perm (h.map _)

theorem mem_keysOf (k : V) (l : List V) : k ∈ keysOf l ↔ ∃ p ∈ l, p.fst = k := by
  simp [keysOf, mem_dedup]

/-- a keyed fold over two streams with disjoint key sets is the union of the two keyed folds -/
theorem keyedFoldS_append (g : Agg) (l1 l2 : List V) (hd : ∀ p ∈ l1, ∀ q ∈ l2, p.fst ≠ q.fst) :
    keyedFoldS g (l1 ++ l2) = keyedFoldS g l1 ++ keyedFoldS g l2 := by
  simp only [keyedFoldS_eq]
  have hk : keysOf (l1 ++ l2) = keysOf l1 ++ keysOf l2 := by
    simp only [keysOf, map_append]
    apply dedup_append
    intro a ha hb
    obtain ⟨p, hp, rfl⟩ := mem_map.mp ha
    obtain ⟨q, hq, hqp⟩ := mem_map.mp hb
    exact hd p hp q hq hqp.symm
  rw [hk, map_append]
  congr 1
  · apply map_congr_left
    intro k hk1
    obtain ⟨p, hp, rfl⟩ := (mem_keysOf k l1).mp hk1
    simp only [foldFor, valsOf_append]
    rw [valsOf_nil_of_not_mem _ l2 (fun q hq h => hd p hp q hq h.symm), append_nil]
  · apply map_congr_left
    intro k hk2
    obtain ⟨q, hq, rfl⟩ := (mem_keysOf k l2).mp hk2
    simp only [foldFor, valsOf_append]
    rw [valsOf_nil_of_not_mem _ l1 (fun p hp h => hd p hp q hq h), nil_append]

theorem keyedFoldS_perm (g : Agg) {l l' : List V} (h : l.Perm l') :
    (keyedFoldS g l).Perm (keyedFoldS g l') := by
  simp only [keyedFoldS_eq]
  have hf : foldFor g l = foldFor g l' := by
    funext k
    simp only [foldFor, projs]
    rw [F_perm g ((valsOf_perm k h).map _)]
  rw [hf]
  exact (keysOf_perm h).map _

theorem mem_flatten_invAt {h n off} (d : D) (hi : InvAt h n off d) (q : V) (hq : q ∈ d.flatten) :
    ∃ j, h q.fst % n = off + j := by
  obtain ⟨l, hl, hql⟩ := mem_flatten.mp hq
  obtain ⟨j, hj⟩ := getElem?_of_mem hl
  exact ⟨j, hi j l hj q hql⟩

/-- **per-replica keyed fold of a key-co-located partition = keyed fold of the union** -/
theorem flatten_map_keyedFoldS {h n off} (g : Agg) (d : D) (hi : InvAt h n off d) :
    (d.map (keyedFoldS g)).flatten = keyedFoldS g d.flatten := by
  induction d generalizing off with
  | nil => simp [keyedFoldS, keysOf, dedup]
  | cons l d ih =>
    simp only [map_cons, flatten_cons]
    rw [ih hi.tail, keyedFoldS_append]
    intro p hp q hq heq
    have h1 := hi.head p hp
    obtain ⟨j, h2⟩ := mem_flatten_invAt d hi.tail q hq
    rw [heq] at h1; omega

theorem keyedFoldS_keys (g : Agg) (l : List V) (p : V) (hp : p ∈ keyedFoldS g l) :
    ∃ q ∈ l, q.fst = p.fst := by
  simp only [keyedFoldS_eq, mem_map] at hp
  obtain ⟨k, hk, rfl⟩ := hp
  obtain ⟨q, hq, hqk⟩ := (mem_keysOf k l).mp hk
  exact ⟨q, hq, by simp [foldFor, hqk]⟩

/-! ### Part D' — further stage lemmas -/

theorem count_pos (c : Cfg) (r : Rep) : 0 < c.count r := by
  cases r <;> simp only [Cfg.count] <;> omega

theorem flatten_map_hom (f : List V → List V) (h0 : f [] = []) (ha : ∀ a b, f (a ++ b) = f a ++ f b)
    (d : D) : (d.map f).flatten = f d.flatten := by
  induction d with
  | nil => simp [h0]
  | cons l d ih => simp [ha, ih]

theorem foldS_perm (g : Agg) {l l' : List V} (h : l.Perm l') : foldS g l = foldS g l' := by
  unfold foldS
  have hl := h.length_eq
  rw [F_perm g (h.map V.proj) |> fun e => (by simpa [F, projs] using e :
    (projs l).foldl g.loc 0 = (projs l').foldl g.loc 0)]
  cases l <;> cases l' <;> simp at hl ⊢

theorem optStep_rightComm (g : Agg) (acc : Option Int) (x y : Int) :
    optStep g (optStep g acc x) y = optStep g (optStep g acc y) x := by
  cases acc with
  | none => simp [optStep, glob_comm g x y]
  | some a => simp [optStep, glob_rightComm g a x y]

theorem reduceS_perm (g : Agg) {l l' : List V} (h : l.Perm l') : reduceS g l = reduceS g l' := by
  unfold reduceS reduceInts
  rw [(h.map V.proj).foldl_eq' (fun x _ y _ z => optStep_rightComm g z x y) none |>
    fun e => (by simpa [projs] using e :
      (projs l).foldl (optStep g) none = (projs l').foldl (optStep g) none)]

theorem flatten_filter_nonempty (d : D) : (d.filter (fun l => !l.isEmpty)).flatten = d.flatten := by
  induction d with
  | nil => rfl
  | cons l d ih => cases l <;> simp [ih]

theorem partials_spec (g : Agg) (d : D) :
    (d.map (foldS g)).flatten = (d.filter (fun l => !l.isEmpty)).map fun l => V.int (F g (projs l)) := by
  induction d with
  | nil => rfl
  | cons l d ih => cases l <;> simp [foldS, ih, F]

theorem perm_isEmpty {α : Type} {l l' : List α} (h : l.Perm l') : l.isEmpty = l'.isEmpty := by
  have := h.length_eq
  cases l <;> cases l' <;> simp_all

theorem flatten_map_projs (d : D) : (d.map projs).flatten = projs d.flatten := by
  induction d with
  | nil => rfl
  | cons l d ih => simp only [map_cons, flatten_cons, ih]; simp [projs]

theorem combine_aux (g : Agg) (d : D) (hne : ∀ l ∈ d, l ≠ []) :
    combineS g (d.map fun l => V.int (F g (projs l))) = foldS g d.flatten := by
  have hv : projs (d.map fun l => V.int (F g (projs l))) = (d.map projs).map (F g) := by
    simp [projs, V.proj, Function.comp_def]
  have hm := flatten_map_projs d
  unfold combineS foldS
  rw [hv, twoPhase_sum, hm]
  cases d with
  | nil => simp
  | cons l d =>
    have : l ≠ [] := hne l (by simp)
    cases l with
    | nil => exact absurd rfl this
    | cons a l => simp [projs, F]

/-- **two-phase global fold = fold of the union** (any partition, any arrival order of the partials) -/
theorem combine_partials (g : Agg) (c : Nat → Nat) (d : D) :
    combineS g (permBy c (d.map (foldS g)).flatten) = foldS g d.flatten := by
  have hp := permBy_perm c (d.map (foldS g)).flatten
  have h1 : combineS g (permBy c (d.map (foldS g)).flatten) = combineS g (d.map (foldS g)).flatten := by
    unfold combineS
    rw [perm_isEmpty hp, foldl_glob_perm g (hp.map V.proj |> fun e => (by simpa [projs] using e :
      (projs (permBy c (d.map (foldS g)).flatten)).Perm (projs (d.map (foldS g)).flatten))) 0]
  rw [h1, partials_spec, combine_aux, flatten_filter_nonempty]
  intro l hl
  have := (mem_filter.mp hl).2
  intro h; subst h; simp at this

theorem kmapS_keys (f : MapFn) (k : Int) (l : List V) (p : V) (hp : p ∈ kmapS f k l) :
    ∃ q ∈ l, q.fst = p.fst := by
  simp only [kmapS, mem_map] at hp
  obtain ⟨q, hq, rfl⟩ := hp
  exact ⟨q, hq, by simp⟩

theorem kfilterS_keys (f : PredFn) (k : Int) (l : List V) (p : V) (hp : p ∈ kfilterS f k l) :
    ∃ q ∈ l, q.fst = p.fst :=
  ⟨p, (mem_filter.mp hp).1, rfl⟩

theorem projs_valsOf_flatten (k : V) (parts : D) :
    (parts.map fun p => projs (valsOf k p)).flatten = projs (valsOf k parts.flatten) := by
  induction parts with
  | nil => rfl
  | cons p ps ih => simp only [map_cons, flatten_cons, ih, valsOf_append]; simp [projs]

/-! ### joins of co-partitioned inputs -/

/-- what the join emits for one left element (depends on the right side only through its matches) -/
def leftOne (v : JVar) (k1 k2 : V → V) (rs : List V) (l : V) : List V :=
  let ms := rs.filter fun r => k2 r = k1 l
  match v with
  | .inner => ms.map fun r => V.pair (k1 l) (V.pair l r)
  | .left => if ms.isEmpty then [V.pair (k1 l) (V.pair l .none)]
             else ms.map fun r => V.pair (k1 l) (V.pair l (.some r))
  | .outer => if ms.isEmpty then [V.pair (k1 l) (V.pair (.some l) .none)]
              else ms.map fun r => V.pair (k1 l) (V.pair (.some l) (.some r))

/-- the unmatched right elements of an outer join -/
def rightPart (v : JVar) (k1 k2 : V → V) (ls rs : List V) : List V :=
  match v with
  | .outer => (rs.filter fun r => (ls.filter fun l => k1 l = k2 r).isEmpty).map fun r =>
      V.pair (k2 r) (V.pair .none (.some r))
  | _ => []

theorem joinS_eq (v : JVar) (k1 k2 : V → V) (ls rs : List V) :
    joinS v k1 k2 ls rs = ls.flatMap (leftOne v k1 k2 rs) ++ rightPart v k1 k2 ls rs := by
  cases v <;> rfl

theorem leftOne_congr (v : JVar) (k1 k2 : V → V) (rs rs' : List V) (l : V)
    (h : (rs.filter fun r => k2 r = k1 l) = rs'.filter fun r => k2 r = k1 l) :
    leftOne v k1 k2 rs l = leftOne v k1 k2 rs' l := by
  simp only [leftOne, h]

theorem flatMap_congr' {f g : V → List V} {l : List V} (h : ∀ a ∈ l, f a = g a) :
    l.flatMap f = l.flatMap g := by
  induction l with
  | nil => rfl
  | cons a l ih =>
    simp only [flatMap_cons, h a (by simp), ih (fun b hb => h b (by simp [hb]))]

theorem filter_nil_of_forall {p : V → Bool} {l : List V} (h : ∀ a ∈ l, p a = false) : l.filter p = [] := by
  rw [filter_eq_nil_iff]; intro a ha; simp [h a ha]

/-- the join of two unions whose cross pairs never match is the union of the two joins -/
theorem joinS_append (v : JVar) (k1 k2 : V → V) (l X r Y : List V)
    (h1 : ∀ a ∈ l, ∀ b ∈ Y, k1 a ≠ k2 b) (h2 : ∀ a ∈ X, ∀ b ∈ r, k1 a ≠ k2 b) :
    (joinS v k1 k2 (l ++ X) (r ++ Y)).Perm (joinS v k1 k2 l r ++ joinS v k1 k2 X Y) := by
  simp only [joinS_eq, flatMap_append]
  have e1 : l.flatMap (leftOne v k1 k2 (r ++ Y)) = l.flatMap (leftOne v k1 k2 r) := by
    apply flatMap_congr'
    intro a ha
    apply leftOne_congr
    rw [filter_append, filter_nil_of_forall (l := Y), append_nil]
    intro b hb; simpa using fun e => h1 a ha b hb e.symm
  have e2 : X.flatMap (leftOne v k1 k2 (r ++ Y)) = X.flatMap (leftOne v k1 k2 Y) := by
    apply flatMap_congr'
    intro a ha
    apply leftOne_congr
    rw [filter_append, filter_nil_of_forall (l := r), nil_append]
    intro b hb; simpa using fun e => h2 a ha b hb e.symm
  have e3 : rightPart v k1 k2 (l ++ X) (r ++ Y) = rightPart v k1 k2 l r ++ rightPart v k1 k2 X Y := by
    cases v <;> simp only [rightPart, append_nil]
    rw [filter_append, map_append]
    congr 1
    · congr 1
      apply filter_congr
      intro b hb
      rw [filter_append, filter_nil_of_forall (l := X), append_nil]
      intro a ha; simpa using h2 a ha b hb
    · congr 1
      apply filter_congr
      intro b hb
      rw [filter_append, filter_nil_of_forall (l := l), nil_append]
      intro a ha; simpa using h1 a ha b hb
  rw [e1, e2, e3]
  -- (Ll ++ LX) ++ (Rl ++ RX) ~ (Ll ++ Rl) ++ (LX ++ RX)
  simp only [append_assoc]
  refine Perm.append_left _ ?_
  simp only [← append_assoc]
  exact (perm_append_comm (l₁ := X.flatMap _) (l₂ := rightPart v k1 k2 l r)).append_right _

/-- every element of replica `j` has `h (key p) % n = off + j` -/
def CoPart (h : V → Nat) (key : V → V) (n off : Nat) (d : D) : Prop :=
  ∀ j l, d[j]? = some l → ∀ p ∈ l, h (key p) % n = off + j

theorem CoPart.tail {h key n off l d} (hi : CoPart h key n off (l :: d)) : CoPart h key n (off + 1) d := by
  intro j l' hj p hp
  have := hi (j + 1) l' (by simpa using hj) p hp
  omega

theorem CoPart.mem_flatten {h key n off} {d : D} (hi : CoPart h key n off d) (q : V)
    (hq : q ∈ d.flatten) : ∃ j, h (key q) % n = off + j := by
  obtain ⟨l, hl, hql⟩ := List.mem_flatten.mp hq
  obtain ⟨j, hj⟩ := getElem?_of_mem hl
  exact ⟨j, hi j l hj q hql⟩

theorem join_copart (h : V → Nat) (v : JVar) (k1 k2 : V → V) (n off : Nat) (x y : D)
    (hl : x.length = y.length) (hx : CoPart h k1 n off x) (hy : CoPart h k2 n off y) :
    (zipWith (joinS v k1 k2) x y).flatten.Perm (joinS v k1 k2 x.flatten y.flatten) := by
  induction x generalizing y off with
  | nil =>
    cases y with
    | nil => cases v <;> simp [joinS]
    | cons _ _ => simp at hl
  | cons l x ih =>
    cases y with
    | nil => simp at hl
    | cons r y =>
      simp only [zipWith_cons_cons, flatten_cons]
      refine Perm.trans ?_ (joinS_append v k1 k2 l x.flatten r y.flatten ?_ ?_).symm
      · exact Perm.append_left _ (ih _ _ (by simpa using hl) hx.tail hy.tail)
      · intro a ha b hb e
        have h1 : h (k1 a) % n = off := by simpa using hx 0 l (by simp) a ha
        obtain ⟨j, h2⟩ := hy.tail.mem_flatten b hb
        rw [e] at h1; omega
      · intro a ha b hb e
        have h1 : h (k2 b) % n = off := by simpa using hy 0 r (by simp) b hb
        obtain ⟨j, h2⟩ := hx.tail.mem_flatten a ha
        rw [e] at h2; omega


/-! ### Part D'' — generic keyed aggregation (`keyedGen`), reductions, keyed two-phase -/

/-- keyed aggregation with output function `ψ key values` -/
def keyedGen (ψ : V → List V → List V) (l : List V) : List V :=
  (keysOf l).flatMap fun k => ψ k (valsOf k l)

def ψFold (g : Agg) (k : V) (vs : List V) : List V := [V.pair k (.int (F g (projs vs)))]
def ψComb (g : Agg) (k : V) (vs : List V) : List V := [V.pair k (.int ((projs vs).foldl g.glob 0))]
def ψRed (g : Agg) (k : V) (vs : List V) : List V := (reduceInts g (projs vs)).map fun x => V.pair k (.int x)

theorem map_eq_flatMap_single {α : Type} (f : α → V) (l : List α) : l.map f = l.flatMap fun k => [f k] := by
  induction l with
  | nil => rfl
  | cons a l ih => simp [ih]
theorem keyedFoldS_gen (g : Agg) (l : List V) : keyedFoldS g l = keyedGen (ψFold g) l := by
  simp only [keyedFoldS, keyedGen, ψFold, F]; exact map_eq_flatMap_single _ _
theorem keyedCombineS_gen (g : Agg) (l : List V) : keyedCombineS g l = keyedGen (ψComb g) l := by
  simp only [keyedCombineS, keyedGen, ψComb]; exact map_eq_flatMap_single _ _
theorem keyedReduceS_gen (g : Agg) (l : List V) : keyedReduceS g l = keyedGen (ψRed g) l := rfl

/-- `ψ` is a keyed aggregation function: insensitive to the order of the values, outputs carry the key -/
structure KeyedFn (ψ : V → List V → List V) : Prop where
  perm : ∀ k vs vs', vs.Perm vs' → ψ k vs = ψ k vs'
  key : ∀ k vs p, p ∈ ψ k vs → p.fst = k

theorem keyedGen_append {ψ : V → List V → List V} (l1 l2 : List V)
    (hd : ∀ p ∈ l1, ∀ q ∈ l2, p.fst ≠ q.fst) :
    keyedGen ψ (l1 ++ l2) = keyedGen ψ l1 ++ keyedGen ψ l2 := by
  simp only [keyedGen]
  have hk : keysOf (l1 ++ l2) = keysOf l1 ++ keysOf l2 := by
    simp only [keysOf, map_append]
    apply dedup_append
    intro a ha hb
    obtain ⟨p, hp, rfl⟩ := mem_map.mp ha
    obtain ⟨q, hq, hqp⟩ := mem_map.mp hb
    exact hd p hp q hq hqp.symm
  rw [hk, flatMap_append]
  congr 1
  · apply flatMap_congr'
    intro k hk1
    obtain ⟨p, hp, rfl⟩ := (mem_keysOf k l1).mp hk1
    rw [valsOf_append, valsOf_nil_of_not_mem _ l2 (fun q hq h => hd p hp q hq h.symm), append_nil]
  · apply flatMap_congr'
    intro k hk2
    obtain ⟨q, hq, rfl⟩ := (mem_keysOf k l2).mp hk2
    rw [valsOf_append, valsOf_nil_of_not_mem _ l1 (fun p hp h => hd p hp q hq h), nil_append]

theorem keyedGen_perm {ψ : V → List V → List V} (hψ : KeyedFn ψ) {l l' : List V} (h : l.Perm l') :
    (keyedGen ψ l).Perm (keyedGen ψ l') := by
  simp only [keyedGen]
  have hf : (fun k => ψ k (valsOf k l)) = fun k => ψ k (valsOf k l') := by
    funext k; exact hψ.perm k _ _ (valsOf_perm k h)
  rw [hf]
  exact (keysOf_perm h).flatMap_right _

theorem keyedGen_keys {ψ : V → List V → List V} (hψ : KeyedFn ψ) (l : List V) (p : V)
    (hp : p ∈ keyedGen ψ l) : ∃ q ∈ l, q.fst = p.fst := by
  simp only [keyedGen, mem_flatMap] at hp
  obtain ⟨k, hk, hpk⟩ := hp
  obtain ⟨q, hq, hqk⟩ := (mem_keysOf k l).mp hk
  exact ⟨q, hq, by rw [hqk, hψ.key k _ p hpk]⟩

theorem flatten_map_keyedGen {ψ : V → List V → List V} {h n off} (d : D) (hi : InvAt h n off d) :
    (d.map (keyedGen ψ)).flatten = keyedGen ψ d.flatten := by
  induction d generalizing off with
  | nil => simp [keyedGen, keysOf, dedup]
  | cons l d ih =>
    simp only [map_cons, flatten_cons]
    rw [ih hi.tail, keyedGen_append]
    intro p hp q hq heq
    have h1 := hi.head p hp
    obtain ⟨j, h2⟩ := mem_flatten_invAt d hi.tail q hq
    rw [heq] at h1; omega

theorem valsOf_flatten (k : V) (parts : D) : valsOf k parts.flatten = (parts.map (valsOf k)).flatten := by
  induction parts with
  | nil => rfl
  | cons p ps ih => simp [valsOf_append, ih]

theorem nodup_keysOf (l : List V) : (keysOf l).Nodup := nodup_dedup _

theorem valsOf_ne_nil_iff (k : V) (l : List V) : valsOf k l ≠ [] ↔ k ∈ keysOf l := by
  rw [mem_keysOf]
  constructor
  · intro h
    cases hv : l.filter (fun p => decide (p.fst = k)) with
    | nil => simp [valsOf, hv] at h
    | cons p _ =>
      have : p ∈ l.filter (fun p => decide (p.fst = k)) := by rw [hv]; simp
      exact ⟨p, (mem_filter.mp this).1, by simpa using (mem_filter.mp this).2⟩
  · rintro ⟨p, hp, hpk⟩ h
    have : p.snd ∈ valsOf k l := by
      simp only [valsOf, mem_map, mem_filter, decide_eq_true_eq]; exact ⟨p, ⟨hp, hpk⟩, rfl⟩
    rw [h] at this; simp at this

/-- what the outputs of a keyed aggregation contribute to key `k` -/
theorem valsOf_keyedGen {ψ : V → List V → List V} (hψ : KeyedFn ψ) (k : V) (l : List V) :
    valsOf k (keyedGen ψ l) = if valsOf k l = [] then [] else (ψ k (valsOf k l)).map V.snd := by
  have gen : ∀ ks : List V, ks.Nodup →
      valsOf k (ks.flatMap fun k' => ψ k' (valsOf k' l)) =
        if k ∈ ks then (ψ k (valsOf k l)).map V.snd else [] := by
    intro ks
    induction ks with
    | nil => intro _; simp [valsOf]
    | cons a ks ih =>
      intro hnd
      rw [nodup_cons] at hnd
      rw [flatMap_cons, valsOf_append, ih hnd.2]
      by_cases hak : a = k
      · subst hak
        have h1 : valsOf a (ψ a (valsOf a l)) = (ψ a (valsOf a l)).map V.snd := by
          simp only [valsOf]
          rw [filter_eq_self.mpr]
          intro p hp; simpa using hψ.key a _ p hp
        simp [h1, hnd.1]
      · have h1 : valsOf k (ψ a (valsOf a l)) = [] := by
          apply valsOf_nil_of_not_mem
          intro p hp h; exact hak ((hψ.key a _ p hp).symm.trans h)
        have : (k ∈ a :: ks) = (k ∈ ks) := by simp [Ne.symm hak]
        simp [h1, Ne.symm hak]
  rw [keyedGen, gen _ (nodup_keysOf l)]
  by_cases hv : valsOf k l = []
  · have : k ∉ keysOf l := fun hk => (valsOf_ne_nil_iff k l).mpr hk hv
    simp [hv, this]
  · have : k ∈ keysOf l := (valsOf_ne_nil_iff k l).mp hv
    simp [hv, this]

/-- **keyed two-phase aggregation**: phase 1 (`ψ₁`) per part, union, phase 2 (`ψ₂`) = phase 1 on the
    union — provided the per-key law `hlaw` and that phase 1 emits something for every present key -/
theorem keyedGen_twoPhase {ψ₁ ψ₂ : V → List V → List V} (h1 : KeyedFn ψ₁)
    (hne : ∀ k vs, vs ≠ [] → ψ₁ k vs ≠ [])
    (hlaw : ∀ k (parts : D), ψ₂ k (parts.map fun p => valsOf k (keyedGen ψ₁ p)).flatten =
      ψ₁ k (valsOf k parts.flatten))
    (parts : D) :
    (keyedGen ψ₂ (parts.map (keyedGen ψ₁)).flatten).Perm (keyedGen ψ₁ parts.flatten) := by
  simp only [keyedGen]
  have hf : (fun k => ψ₂ k (valsOf k (parts.map (keyedGen ψ₁)).flatten)) =
      fun k => ψ₁ k (valsOf k parts.flatten) := by
    funext k
    have := hlaw k parts
    rw [valsOf_flatten, map_map]
    simpa [keyedGen, Function.comp_def] using this
  rw [hf]
  apply Perm.flatMap_right
  apply (perm_ext_iff_of_nodup (nodup_keysOf _) (nodup_keysOf _)).mpr
  intro k
  rw [← valsOf_ne_nil_iff, ← valsOf_ne_nil_iff]
  have e1 : valsOf k (flatten (map (keyedGen ψ₁) parts)) =
      (parts.map fun p => valsOf k (keyedGen ψ₁ p)).flatten := by
    rw [valsOf_flatten, map_map]; rfl
  rw [e1, valsOf_flatten]
  simp only [ne_eq, flatten_eq_nil_iff, mem_map, forall_exists_index, and_imp,
    forall_apply_eq_imp_iff₂]
  apply not_congr
  constructor
  · intro hall p hp
    apply Classical.byContradiction
    intro hv
    have := hall p hp
    rw [valsOf_keyedGen h1, if_neg hv] at this
    exact hne k _ hv (by simpa using this)
  · intro hall p hp
    rw [valsOf_keyedGen h1, if_pos (hall p hp)]

/-! ### algebra of the global step, reductions -/

theorem glob_assoc (g : Agg) (a b c : Int) : g.glob (g.glob a b) c = g.glob a (g.glob b c) := by
  cases g <;> simp only [Agg.glob, emod_M] <;> omega

theorem foldl_glob_assoc (g : Agg) (a p : Int) (ps : List Int) :
    ps.foldl g.glob (g.glob a p) = g.glob a (ps.foldl g.glob p) := by
  induction ps generalizing p with
  | nil => rfl
  | cons q qs ih => simp only [foldl_cons]; rw [glob_assoc, ih]

theorem glob_zero_left (g : Agg) (y : Int) (h : g.norm y) : g.glob 0 y = y := by
  rw [glob_comm]; exact h

/-- continuing a global fold from a normal accumulator = combining with the fold from 0 -/
theorem foldl_glob_norm (g : Agg) (a : Int) (ys : List Int) (ha : g.norm a)
    (hy : ∀ y ∈ ys, g.norm y) : ys.foldl g.glob a = g.glob a (ys.foldl g.glob 0) := by
  cases ys with
  | nil => exact ha.symm
  | cons y ys =>
    simp only [foldl_cons]
    rw [foldl_glob_assoc, glob_zero_left g y (hy y (by simp))]

/-- the accumulator of a reduction -/
def Ropt (g : Agg) (xs : List Int) : Option Int := xs.foldl (optStep g) none

def optMerge (g : Agg) : Option Int → Option Int → Option Int
  | none, b => b
  | a, none => a
  | some a, some b => some (g.glob a b)

theorem foldl_optStep_some (g : Agg) (a : Int) (xs : List Int) :
    xs.foldl (optStep g) (some a) = some (xs.foldl g.glob a) := by
  induction xs generalizing a with
  | nil => rfl
  | cons x xs ih => simp only [foldl_cons, optStep]; exact ih _

theorem Ropt_cons (g : Agg) (x : Int) (xs : List Int) : Ropt g (x :: xs) = some (xs.foldl g.glob x) := by
  simp only [Ropt, foldl_cons, optStep]; exact foldl_optStep_some g x xs

theorem Ropt_append (g : Agg) (xs ys : List Int) : Ropt g (xs ++ ys) = optMerge g (Ropt g xs) (Ropt g ys) := by
  cases xs with
  | nil => cases h : Ropt g ys <;> simp [Ropt, optMerge] at h ⊢ <;> simp [h, optMerge]
  | cons x xs =>
    cases ys with
    | nil => rw [append_nil, Ropt_cons]; rfl
    | cons y ys =>
      rw [show (x :: xs) ++ y :: ys = x :: (xs ++ y :: ys) from rfl, Ropt_cons, Ropt_cons, Ropt_cons]
      simp only [optMerge, foldl_append, foldl_cons]
      rw [foldl_glob_assoc]

theorem Ropt_toList (g : Agg) (o : Option Int) : Ropt g o.toList = o := by
  cases o <;> simp [Ropt, optStep]

/-- **two-phase reduction**: reduce every part, then reduce the partial results -/
theorem Ropt_twoPhase (g : Agg) (parts : List (List Int)) :
    Ropt g (parts.map fun p => (Ropt g p).toList).flatten = Ropt g parts.flatten := by
  induction parts with
  | nil => rfl
  | cons p ps ih =>
    simp only [map_cons, flatten_cons]
    rw [Ropt_append, Ropt_append, ih, Ropt_toList]

theorem reduceInts_eq (g : Agg) (xs : List Int) : reduceInts g xs = (Ropt g xs).toList := rfl

theorem projs_reduceS (g : Agg) (l : List V) : projs (reduceS g l) = (Ropt g (projs l)).toList := by
  simp [reduceS, reduceInts_eq, projs, V.proj, Function.comp_def]

theorem reduceS_congr (g : Agg) {l l' : List V} (h : Ropt g (projs l) = Ropt g (projs l')) :
    reduceS g l = reduceS g l' := by
  unfold reduceS; rw [reduceInts_eq, reduceInts_eq, h]

/-- two-phase `reduce_assoc`: any partition, any arrival order of the partial results -/
theorem reduce_partials (g : Agg) (c : Nat → Nat) (d : D) :
    reduceS g (permBy c (d.map (reduceS g)).flatten) = reduceS g d.flatten := by
  rw [reduceS_perm g (permBy_perm c _)]
  have h1 : projs (d.map (reduceS g)).flatten = ((d.map projs).map fun p => (Ropt g p).toList).flatten := by
    rw [← flatten_map_projs, map_map, map_map]
    congr 2
    funext l; simp [projs_reduceS]
  apply reduceS_congr
  rw [h1, Ropt_twoPhase, flatten_map_projs]

/-! ### instances of the keyed aggregation -/

theorem keyedFn_fold (g : Agg) : KeyedFn (ψFold g) :=
  ⟨fun k vs vs' h => by simp only [ψFold, projs]; rw [F_perm g (h.map _)],
   fun k vs p hp => by simp only [ψFold, mem_singleton] at hp; subst hp; rfl⟩

theorem keyedFn_comb (g : Agg) : KeyedFn (ψComb g) :=
  ⟨fun k vs vs' h => by simp only [ψComb, projs]; rw [foldl_glob_perm g (h.map _) 0],
   fun k vs p hp => by simp only [ψComb, mem_singleton] at hp; subst hp; rfl⟩

theorem keyedFn_red (g : Agg) : KeyedFn (ψRed g) :=
  ⟨fun k vs vs' h => by
     have := reduceS_perm g h
     simp only [reduceS] at this
     simp only [ψRed]
     have h2 : reduceInts g (projs vs) = reduceInts g (projs vs') := by
       have := congrArg projs this
       simpa [projs, V.proj, Function.comp_def] using this
     rw [h2],
   fun k vs p hp => by
     simp only [ψRed, mem_map] at hp
     obtain ⟨x, _, rfl⟩ := hp; rfl⟩

theorem ψFold_ne (g : Agg) (k : V) (vs : List V) (_ : vs ≠ []) : ψFold g k vs ≠ [] := by simp [ψFold]

theorem ψRed_ne (g : Agg) (k : V) (vs : List V) (h : vs ≠ []) : ψRed g k vs ≠ [] := by
  cases vs with
  | nil => exact absurd rfl h
  | cons v vs => simp [ψRed, reduceInts_eq, projs, Ropt_cons]

/-- per-key law of `group_by_fold`: combining the partial accumulators of the parts that contain the
    key gives the fold of all its values -/
theorem fold_law (g : Agg) (k : V) (parts : D) :
    ψComb g k (parts.map fun p => valsOf k (keyedGen (ψFold g) p)).flatten =
      ψFold g k (valsOf k parts.flatten) := by
  simp only [ψComb, ψFold]
  congr 3
  have key : ∀ p : List V, (projs (valsOf k (keyedGen (ψFold g) p))).foldl g.glob 0 = F g (projs (valsOf k p)) ∧
      ∀ y ∈ projs (valsOf k (keyedGen (ψFold g) p)), g.norm y := by
    intro p
    rw [valsOf_keyedGen (keyedFn_fold g)]
    by_cases hv : valsOf k p = []
    · simp [hv, projs, F]
    · simp only [hv, if_false, ψFold, map_cons, map_nil, snd_pair, projs, V.proj, foldl_cons, foldl_nil,
        mem_singleton, forall_eq]
      exact ⟨glob_zero_left g _ (F_norm g _), F_norm g _⟩
  induction parts with
  | nil => rfl
  | cons p ps ih =>
    simp only [map_cons, flatten_cons, valsOf_append]
    have hp1 : projs (valsOf k (keyedGen (ψFold g) p) ++ (ps.map fun p => valsOf k (keyedGen (ψFold g) p)).flatten)
        = projs (valsOf k (keyedGen (ψFold g) p)) ++ projs (ps.map fun p => valsOf k (keyedGen (ψFold g) p)).flatten := by
      simp [projs]
    have hp2 : projs (valsOf k p ++ valsOf k ps.flatten) = projs (valsOf k p) ++ projs (valsOf k ps.flatten) := by
      simp [projs]
    rw [hp1, hp2, foldl_append, (key p).1, F_append, ← ih]
    apply foldl_glob_norm g _ _ (F_norm g _)
    intro y hy
    rw [← flatten_map_projs] at hy
    obtain ⟨l, hl, hyl⟩ := mem_flatten.mp hy
    obtain ⟨l', hl', rfl⟩ := mem_map.mp hl
    obtain ⟨q, _, rfl⟩ := mem_map.mp hl'
    exact (key q).2 y hyl

theorem red_law (g : Agg) (k : V) (parts : D) :
    ψRed g k (parts.map fun p => valsOf k (keyedGen (ψRed g) p)).flatten =
      ψRed g k (valsOf k parts.flatten) := by
  simp only [ψRed]
  congr 1
  rw [reduceInts_eq, reduceInts_eq]
  congr 1
  have key : ∀ p : List V, projs (valsOf k (keyedGen (ψRed g) p)) = (Ropt g (projs (valsOf k p))).toList := by
    intro p
    rw [valsOf_keyedGen (keyedFn_red g)]
    by_cases hv : valsOf k p = []
    · simp [hv, projs, Ropt]
    · simp [hv, ψRed, reduceInts_eq, projs, V.proj, Function.comp_def]
  have h1 : projs (parts.map fun p => valsOf k (keyedGen (ψRed g) p)).flatten =
      ((parts.map fun p => projs (valsOf k p)).map fun q => (Ropt g q).toList).flatten := by
    rw [← flatten_map_projs, map_map, map_map]
    congr 2
    funext p; exact key p
  rw [h1, Ropt_twoPhase, projs_valsOf_flatten]

/-! ### count windows with the counting aggregate -/

theorem foldl_cnt (w : List Int) (a : Int) : w.foldl Agg.cnt.loc a = a + w.length := by
  induction w generalizing a with
  | nil => simp
  | cons x w ih => simp only [foldl_cons, Agg.loc, ih, length_cons]; omega

/-- the results of counting windows depend only on the NUMBER of elements -/
theorem groups_cnt (n s fuel : Nat) (xs ys : List Int) (h : xs.length = ys.length) :
    (groups n s fuel xs).map (fun w => w.foldl Agg.cnt.loc 0) =
      (groups n s fuel ys).map (fun w => w.foldl Agg.cnt.loc 0) := by
  induction fuel generalizing xs ys with
  | zero => rfl
  | succ fuel ih =>
    simp only [groups, h]
    split
    · rfl
    · simp only [map_cons, foldl_cnt, length_take, h]
      have ih' := ih (xs.drop (max s 1)) (ys.drop (max s 1)) (by simp [h])
      simp only [foldl_cnt] at ih'
      rw [ih']

def ψWin (n s : Nat) (k : V) (vs : List V) : List V :=
  let xs := projs vs
  (groups n s (xs.length + 1) xs).map fun w => V.pair k (.int (w.foldl Agg.cnt.loc 0))

theorem keyedWinS_gen (n s : Nat) (l : List V) : keyedWinS n s .cnt l = keyedGen (ψWin n s) l := rfl

theorem keyedFn_win (n s : Nat) : KeyedFn (ψWin n s) :=
  ⟨fun k vs vs' h => by
     have hl : (projs vs).length = (projs vs').length := by simp [projs, h.length_eq]
     have := groups_cnt n s ((projs vs).length + 1) (projs vs) (projs vs') hl
     simp only [ψWin]
     rw [← hl]
     have e : ∀ zs : List (List Int), zs.map (fun w => V.pair k (.int (w.foldl Agg.cnt.loc 0))) =
         (zs.map fun w => w.foldl Agg.cnt.loc 0).map fun c => V.pair k (.int c) := by
       intro zs; simp
     rw [e, e, this],
   fun k vs p hp => by
     simp only [ψWin, mem_map] at hp
     obtain ⟨w, _, rfl⟩ := hp; rfl⟩

/-! ### broadcast + idempotent reduction -/

theorem optMerge_none_right (g : Agg) (o : Option Int) : optMerge g o none = o := by cases o <;> rfl

theorem optMerge_self (g : Agg) (hg : ∀ a, g.glob a a = a) (o : Option Int) : optMerge g o o = o := by
  cases o <;> simp [optMerge, hg]

theorem Ropt_replicate (g : Agg) (hg : ∀ a, g.glob a a = a) (o : Option Int) (n : Nat) :
    Ropt g (replicate (n + 1) o.toList).flatten = o := by
  induction n with
  | zero => simp [Ropt_toList]
  | succ n ih =>
    rw [replicate_succ, flatten_cons, Ropt_append, ih, Ropt_toList, optMerge_self g hg]

theorem glob_idem (g : Agg) (hg : (g == .min || g == .max) = true) (a : Int) : g.glob a a = a := by
  cases g <;> simp at hg <;> simp [Agg.glob]

/-- every replica reduces its copy of the whole stream, the partial results are reduced again:
    for an idempotent operation this is the reduction of the stream, whatever the replica count -/
theorem reduce_broadcast (g : Agg) (hg : (g == .min || g == .max) = true) (n : Nat) (hn : 0 < n)
    (c c' : Nat → Nat) (d : D) :
    reduceS g (permBy c' ((broadcast n c d).map (reduceS g)).flatten) = reduceS g d.flatten := by
  rw [reduceS_perm g (permBy_perm c' _)]
  apply reduceS_congr
  obtain ⟨m, rfl⟩ : ∃ m, n = m + 1 := ⟨n - 1, by omega⟩
  have h1 : projs ((broadcast (m + 1) c d).map (reduceS g)).flatten =
      (replicate (m + 1) (Ropt g (projs d.flatten)).toList).flatten := by
    rw [← flatten_map_projs, broadcast, map_replicate, map_replicate, projs_reduceS]
    congr 3
    have := reduceS_perm g (permBy_perm c d.flatten)
    have h2 := congrArg projs this
    rw [projs_reduceS, projs_reduceS] at h2
    cases ha : Ropt g (projs (permBy c d.flatten)) <;> cases hb : Ropt g (projs d.flatten) <;>
      simp [ha, hb] at h2 ⊢
    exact h2
  rw [h1, Ropt_replicate g (glob_idem g hg)]

/-! ### keyed two-phase aggregation as a stage -/

theorem flatten_map_map (K f : List V → List V) (d : D) : (d.map fun l => f (K l)) = (d.map K).map f := by
  rw [map_map]; rfl

/-! ### joins as stages -/

theorem flatMap_perm_pointwise {f g : V → List V} {l : List V} (h : ∀ a ∈ l, (f a).Perm (g a)) :
    (l.flatMap f).Perm (l.flatMap g) := by
  induction l with
  | nil => simp
  | cons a l ih =>
    simp only [flatMap_cons]
    exact (h a (by simp)).append (ih fun b hb => h b (by simp [hb]))

theorem leftOne_perm (v : JVar) (k1 k2 : V → V) {rs rs' : List V} (h : rs.Perm rs') (l : V) :
    (leftOne v k1 k2 rs l).Perm (leftOne v k1 k2 rs' l) := by
  have hm := h.filter (fun r => decide (k2 r = k1 l))
  have he := perm_isEmpty hm
  cases v <;> simp only [leftOne]
  · exact hm.map _
  · rw [he]; split
    · exact Perm.refl _
    · exact hm.map _
  · rw [he]; split
    · exact Perm.refl _
    · exact hm.map _

theorem rightPart_perm (v : JVar) (k1 k2 : V → V) {ls ls' rs rs' : List V} (hl : ls.Perm ls')
    (hr : rs.Perm rs') : (rightPart v k1 k2 ls rs).Perm (rightPart v k1 k2 ls' rs') := by
  cases v <;> simp only [rightPart] <;> try exact Perm.refl _
  have hp : (fun r => (ls.filter fun l => decide (k1 l = k2 r)).isEmpty) =
      fun r => (ls'.filter fun l => decide (k1 l = k2 r)).isEmpty := by
    funext r; exact perm_isEmpty (hl.filter _)
  rw [hp]
  exact (hr.filter _).map _

/-- the relational join respects multiset equality of both inputs -/
theorem joinS_perm (v : JVar) (k1 k2 : V → V) {ls ls' rs rs' : List V} (hl : ls.Perm ls')
    (hr : rs.Perm rs') : (joinS v k1 k2 ls rs).Perm (joinS v k1 k2 ls' rs') := by
  rw [joinS_eq, joinS_eq]
  refine Perm.append ?_ (rightPart_perm v k1 k2 hl hr)
  exact (hl.flatMap_right _).trans (flatMap_perm_pointwise fun a _ => leftOne_perm v k1 k2 hr a)

theorem joinS_keys (v : JVar) (k1 k2 : V → V) (ls rs : List V) (p : V) (hp : p ∈ joinS v k1 k2 ls rs) :
    (∃ l ∈ ls, p.fst = k1 l) ∨ (∃ r ∈ rs, p.fst = k2 r) := by
  rw [joinS_eq, mem_append] at hp
  rcases hp with hp | hp
  · left
    obtain ⟨l, hl, hpl⟩ := mem_flatMap.mp hp
    refine ⟨l, hl, ?_⟩
    cases v <;> simp only [leftOne] at hpl
    · obtain ⟨r, _, rfl⟩ := mem_map.mp hpl; rfl
    · split at hpl
      · simp at hpl; subst hpl; rfl
      · obtain ⟨r, _, rfl⟩ := mem_map.mp hpl; rfl
    · split at hpl
      · simp at hpl; subst hpl; rfl
      · obtain ⟨r, _, rfl⟩ := mem_map.mp hpl; rfl
  · right
    cases v <;> simp only [rightPart] at hp
    · simp at hp
    · simp at hp
    · obtain ⟨r, hr, rfl⟩ := mem_map.mp hp
      exact ⟨r, (mem_filter.mp hr).1, rfl⟩

theorem CoPart.head {h key n off l d} (hi : CoPart h key n off (l :: d)) : ∀ p ∈ l, h (key p) % n = off := by
  intro p hp; simpa using hi 0 l (by simp) p hp

theorem CoPart.cons {h key n off l d} (h0 : ∀ p ∈ l, h (key p) % n = off) (ht : CoPart h key n (off + 1) d) :
    CoPart h key n off (l :: d) := by
  intro j l' hj p hp
  cases j with
  | zero => simp at hj; subst hj; simpa using h0 p hp
  | succ j => have := ht j l' (by simpa using hj) p hp; omega

theorem copart_replicate (h : V → Nat) (key : V → V) (n off k : Nat) : CoPart h key n off (replicate k []) := by
  intro j l hj p hp
  rw [getElem?_replicate] at hj
  split at hj
  · cases hj; simp at hp
  · simp at hj

theorem copart_push {h key n off} (d : D) (r : Nat) (x : V) (hi : CoPart h key n off d)
    (hx : h (key x) % n = off + r) : CoPart h key n off (push d r x) := by
  induction d generalizing r off with
  | nil => simpa [push] using hi
  | cons l d ih =>
    cases r with
    | zero =>
      simp only [push]
      refine CoPart.cons ?_ hi.tail
      intro p hp
      rcases mem_append.mp hp with hp | hp
      · exact hi.head p hp
      · simp at hp; subst hp; simpa using hx
    | succ r =>
      simp only [push]
      exact CoPart.cons hi.head (ih r hi.tail (by omega))

theorem copart_routeInto {h key n} (i : Nat) (xs : List V) (d : D) (hi : CoPart h key n 0 d) :
    CoPart h key n 0 (routeInto n (fun _ v => h (key v)) i xs d) := by
  induction xs generalizing i d with
  | nil => simpa [routeInto] using hi
  | cons x xs ih =>
    simp only [routeInto]
    exact ih (i + 1) _ (copart_push d _ x hi (by simp))

/-- hash routing by ANY key function co-partitions by that key -/
theorem copart_exchange (h : V → Nat) (key : V → V) (n : Nat) (c : Nat → Nat) (d : D) :
    CoPart h key n 0 (exchange n (fun _ v => h (key v)) c d) := by
  unfold exchange
  intro j l hj p hp
  rw [getElem?_map] at hj
  cases hd : (routeInto n (fun _ v => h (key v)) 0 d.flatten (replicate n []))[j]? with
  | none => simp [hd] at hj
  | some l0 =>
    simp [hd] at hj; subst hj
    exact copart_routeInto 0 _ _ (copart_replicate h key n 0 n) j l0 hd p ((permBy_perm c l0).mem_iff.mp hp)

theorem invAt_zipWith_join {h : V → Nat} (v : JVar) (k1 k2 : V → V) {n off : Nat} (x y : D)
    (hx : CoPart h k1 n off x) (hy : CoPart h k2 n off y) :
    InvAt h n off (zipWith (joinS v k1 k2) x y) := by
  induction x generalizing y off with
  | nil => intro j l hj; simp at hj
  | cons lx x ih =>
    cases y with
    | nil => intro j l hj; simp at hj
    | cons ly y =>
      simp only [zipWith_cons_cons]
      refine InvAt.cons ?_ (ih y hx.tail hy.tail)
      intro p hp
      rcases joinS_keys v k1 k2 lx ly p hp with ⟨l, hl, e⟩ | ⟨r, hr, e⟩
      · rw [e]; exact hx.head l hl
      · rw [e]; exact hy.head r hr

theorem flatten_map_join_right (v : JVar) (hv : v ≠ .outer) (k1 k2 : V → V) (x : D) (rs : List V) :
    (x.map fun l => joinS v k1 k2 l rs).flatten = joinS v k1 k2 x.flatten rs := by
  apply flatten_map_hom (fun l => joinS v k1 k2 l rs)
  · cases v <;> simp [joinS] at hv ⊢
  · intro a b
    cases v <;> simp [joinS] at hv ⊢

/-! ### Part E — a generic simulation between two evaluators sharing the `Sem` skeleton -/

inductive All2 {α β : Type} (R : α → β → Prop) : List α → List β → Prop
  | nil : All2 R [] []
  | cons {a b as bs} : R a b → All2 R as bs → All2 R (a :: as) (b :: bs)

theorem All2.append {α β : Type} {R : α → β → Prop} {a a' : List α} {b b' : List β}
    (h : All2 R a b) (h' : All2 R a' b') : All2 R (a ++ a') (b ++ b') := by
  induction h with
  | nil => simpa using h'
  | cons hr _ ih => exact All2.cons hr ih

theorem All2.get? {α β : Type} {R : α → β → Prop} {a : List α} {b : List β} (h : All2 R a b) (i : Nat) :
    (a[i]? = none ∧ b[i]? = none) ∨ ∃ x y, a[i]? = some x ∧ b[i]? = some y ∧ R x y := by
  induction h generalizing i with
  | nil => simp
  | cons hr _ ih =>
    cases i with
    | zero => exact Or.inr ⟨_, _, by simp, by simp, hr⟩
    | succ i => simpa using ih i

theorem All2.any_eq {α β : Type} {R : α → β → Prop} {a : List α} {b : List β} (h : All2 R a b)
    (f : α → Bool) (g : β → Bool) (hfg : ∀ x y, R x y → f x = g y) : a.any f = b.any g := by
  induction h with
  | nil => rfl
  | cons hr _ ih => simp [hfg _ _ hr, ih]

theorem All2.all_eq {α β : Type} {R : α → β → Prop} {a : List α} {b : List β} (h : All2 R a b)
    (f : α → Bool) (g : β → Bool) (hfg : ∀ x y, R x y → f x = g y) : a.all f = b.all g := by
  induction h with
  | nil => rfl
  | cons hr _ ih => simp [hfg _ _ hr, ih]

theorem All2.map_fun {α β γ δ : Type} {R : α → β → Prop} {S : γ → δ → Prop} {fs : List (α → γ)}
    {gs : List (β → δ)} {x : α} {y : β}
    (h : All2 (fun f g => ∀ x y, R x y → S (f x) (g y)) fs gs) (hxy : R x y) :
    All2 S (fs.map (· x)) (gs.map (· y)) := by
  induction h with
  | nil => exact All2.nil
  | cons hr _ ih => exact All2.cons (hr _ _ hxy) ih

theorem All2.map_fun2 {α β γ δ : Type} {R : α → β → Prop} {S : γ → δ → Prop} {fs : List (α → α → γ)}
    {gs : List (β → β → δ)} {x x' : α} {y y' : β}
    (h : All2 (fun f g => ∀ x y x' y', R x y → R x' y' → S (f x x') (g y y')) fs gs) (hxy : R x y)
    (hxy' : R x' y') : All2 S (fs.map fun f => f x x') (gs.map fun g => g y y') := by
  induction h with
  | nil => exact All2.nil
  | cons hr _ ih => exact All2.cons (hr _ _ _ _ hxy hxy') ih

theorem All2.imp {α β : Type} {R R' : α → β → Prop} {a : List α} {b : List β} (h : All2 R a b)
    (hi : ∀ x y, R x y → R' x y) : All2 R' a b := by
  induction h with
  | nil => exact All2.nil
  | cons hr _ ih => exact All2.cons (hi _ _ hr) ih

theorem All2.map_left {α β γ : Type} {R : γ → β → Prop} {f : α → γ} {a : List α} {b : List β}
    (h : All2 (fun x y => R (f x) y) a b) : All2 R (a.map f) b := by
  induction h with
  | nil => exact All2.nil
  | cons hr _ ih => exact All2.cons hr ih

theorem All2.map_right {α β γ : Type} {R : α → γ → Prop} {f : β → γ} {a : List α} {b : List β}
    (h : All2 (fun x y => R x (f y)) a b) : All2 R a (b.map f) := by
  induction h with
  | nil => exact All2.nil
  | cons hr _ ih => exact All2.cons hr ih

/-- chaining two pointwise relations over a common middle list -/
theorem All2.comp {α β γ : Type} {R : α → β → Prop} {Q : β → γ → Prop} {T : α → γ → Prop}
    {a : List α} {b : List β} {c : List γ} (h1 : All2 R a b) (h2 : All2 Q b c)
    (ht : ∀ x y z, R x y → Q y z → T x z) : All2 T a c := by
  induction h1 generalizing c with
  | nil => cases h2; exact All2.nil
  | cons hr _ ih =>
    cases h2 with
    | cons hq hqs => exact All2.cons (ht _ _ _ hr hq) (ih hqs)

section Sim
variable {σ₁ σ₂ : Type} (R : Bool → σ₁ → σ₂ → Prop) (S : σ₁ → σ₂ → Prop)

def EntryRel (e1 : Entry σ₁) (e2 : Entry σ₂) : Prop :=
  e1.id = e2.id ∧ e1.keyed = e2.keyed ∧ All2 (R e1.keyed) e1.ports e2.ports

def SinkRel (p1 : Nat × σ₁) (p2 : Nat × σ₂) : Prop := p1.1 = p2.1 ∧ S p1.2 p2.2

def StRel (s1 : St σ₁) (s2 : St σ₂) : Prop :=
  All2 (EntryRel R) s1.env s2.env ∧ All2 (SinkRel S) s1.sinks s2.sinks

variable {R S}

theorem StRel.defined {s1 : St σ₁} {s2 : St σ₂} (hs : StRel R S s1 s2) (id : Nat) :
    s1.defined id = s2.defined id := by
  unfold St.defined
  rw [hs.1.any_eq _ _ (fun x y hr => by rw [hr.1]), hs.2.any_eq _ _ (fun x y hr => by rw [hr.1])]

theorem lookup_rel {e1 : List (Entry σ₁)} {e2 : List (Entry σ₂)} (he : All2 (EntryRel R) e1 e2)
    (id : Nat) : (lookup id e1 = none ∧ lookup id e2 = none) ∨
      ∃ x y, lookup id e1 = some x ∧ lookup id e2 = some y ∧ EntryRel R x y := by
  induction he with
  | nil => simp [lookup]
  | @cons a b as bs hr _ ih =>
    simp only [lookup]
    rw [← hr.1]
    by_cases hid : a.id = id
    · simp only [hid, if_true]; exact Or.inr ⟨a, b, rfl, rfl, hr⟩
    · simpa [hid] using ih

/-- related states answer a reference alike -/
def GetRel (R : Bool → σ₁ → σ₂ → Prop) (kd : Option Bool) : Option σ₁ → Option σ₂ → Prop
  | none, none => True
  | some x, some y => ∃ k, kd.all (· == k) = true ∧ R k x y
  | _, _ => False

theorem StRel.get {s1 : St σ₁} {s2 : St σ₂} (hs : StRel R S s1 s2) (r : Ref) (kd : Option Bool) :
    GetRel R kd (s1.get r kd) (s2.get r kd) := by
  unfold St.get
  rcases lookup_rel hs.1 r.id with ⟨h1, h2⟩ | ⟨x, y, h1, h2, hr⟩
  · simp [h1, h2, GetRel]
  · simp only [h1, h2]
    rw [← hr.2.1]
    by_cases hk : kd.all (· == x.keyed) = true
    · simp only [hk, if_true]
      rcases hr.2.2.get? r.port with ⟨g1, g2⟩ | ⟨a, b, g1, g2, hab⟩
      · simp [g1, g2, GetRel]
      · simp only [g1, g2, GetRel]; exact ⟨x.keyed, hk, hab⟩
    · simp [hk, GetRel]

/-- related node semantics: same shape, same references, functions preserve the relation -/
inductive SemRel (R : Bool → σ₁ → σ₂ → Prop) (S : σ₁ → σ₂ → Prop) : Sem σ₁ → Sem σ₂ → Prop
  | src {v1 v2} : R false v1 v2 → SemRel R S (.src v1) (.src v2)
  | un {a kin kout f1 f2} : (∀ x y, R kin x y → R kout (f1 x) (f2 y)) →
      SemRel R S (.un a kin kout f1) (.un a kin kout f2)
  | bin {a b kin kout f1 f2} :
      (∀ x y x' y', R kin x y → R kin x' y' → R kout (f1 x x') (f2 y y')) →
      SemRel R S (.bin a b kin kout f1) (.bin a b kin kout f2)
  | multi {a fs1 fs2} : All2 (fun f1 f2 => ∀ x y, R false x y → R false (f1 x) (f2 y)) fs1 fs2 →
      SemRel R S (.multi a fs1) (.multi a fs2)
  | bmulti {a b fs1 fs2} :
      All2 (fun f1 f2 => ∀ x y x' y', R false x y → R false x' y' → R false (f1 x x') (f2 y y')) fs1 fs2 →
      SemRel R S (.bmulti a b fs1) (.bmulti a b fs2)
  | sink {a f1 f2} : (∀ k x y, R k x y → S (f1 x) (f2 y)) → SemRel R S (.sink a f1) (.sink a f2)

def OutRel (R : Bool → σ₁ → σ₂ → Prop) (S : σ₁ → σ₂ → Prop) :
    Option (Bool × List σ₁ × Option σ₁) → Option (Bool × List σ₂ × Option σ₂) → Prop
  | none, none => True
  | some (k1, p1, none), some (k2, p2, none) => k1 = k2 ∧ All2 (R k1) p1 p2
  | some (_, _, some v1), some (_, _, some v2) => S v1 v2
  | _, _ => False

theorem getRel_some_kind {b : Bool} {o1 : Option σ₁} {o2 : Option σ₂} (hg : GetRel R (some b) o1 o2) :
    (o1 = none ∧ o2 = none) ∨ ∃ x y, o1 = some x ∧ o2 = some y ∧ R b x y := by
  cases o1 <;> cases o2 <;> simp [GetRel] at hg ⊢
  exact hg

theorem runSem_rel {s1 : St σ₁} {s2 : St σ₂} {m1 m2} (hs : StRel R S s1 s2) (hm : SemRel R S m1 m2) :
    OutRel R S (runSem s1 m1) (runSem s2 m2) := by
  cases hm with
  | src hv => exact ⟨rfl, All2.cons hv All2.nil⟩
  | @un a kin kout f1 f2 hf =>
    simp only [runSem]
    rcases getRel_some_kind (hs.get a (some kin)) with ⟨h1, h2⟩ | ⟨x, y, h1, h2, hr⟩
    · simp [h1, h2, OutRel]
    · simp only [h1, h2, Option.bind_some, OutRel]; exact ⟨trivial, All2.cons (hf x y hr) All2.nil⟩
  | @bin a b kin kout f1 f2 hf =>
    simp only [runSem]
    rcases getRel_some_kind (hs.get a (some kin)) with ⟨h1, h2⟩ | ⟨x, y, h1, h2, hr⟩
    · simp [h1, h2, OutRel]
    · rcases getRel_some_kind (hs.get b (some kin)) with ⟨g1, g2⟩ | ⟨x', y', g1, g2, hr'⟩
      · simp [h1, h2, g1, g2, OutRel]
      · simp only [h1, h2, g1, g2, Option.bind_some, OutRel]
        exact ⟨trivial, All2.cons (hf x y x' y' hr hr') All2.nil⟩
  | @multi a fs1 fs2 hf =>
    simp only [runSem]
    rcases getRel_some_kind (hs.get a (some false)) with ⟨h1, h2⟩ | ⟨x, y, h1, h2, hr⟩
    · simp [h1, h2, OutRel]
    · simp only [h1, h2, Option.bind_some, OutRel]; exact ⟨trivial, hf.map_fun hr⟩
  | @bmulti a b fs1 fs2 hf =>
    simp only [runSem]
    rcases getRel_some_kind (hs.get a (some false)) with ⟨h1, h2⟩ | ⟨x, y, h1, h2, hr⟩
    · simp [h1, h2, OutRel]
    · rcases getRel_some_kind (hs.get b (some false)) with ⟨g1, g2⟩ | ⟨x', y', g1, g2, hr'⟩
      · simp [h1, h2, g1, g2, OutRel]
      · simp only [h1, h2, g1, g2, Option.bind_some, OutRel]
        exact ⟨trivial, hf.map_fun2 hr hr'⟩
  | @sink a f1 f2 hf =>
    simp only [runSem]
    have hg := hs.get a none
    cases h1 : s1.get a none <;> cases h2 : s2.get a none <;> simp [h1, h2, GetRel] at hg
    · simp [OutRel]
    · simp only [Option.bind_some, OutRel]
      rcases hg with hr | hr <;> exact hf _ _ _ hr

theorem stepWith_rel {s1 : St σ₁} {s2 : St σ₂} {sem1 : Node → Sem σ₁} {sem2 : Node → Sem σ₂} (n : Node)
    (hs : StRel R S s1 s2) (hm : SemRel R S (sem1 n) (sem2 n)) :
    StRel R S (stepWith sem1 s1 n) (stepWith sem2 s2 n) := by
  unfold stepWith
  rw [hs.defined n.id]
  split
  · exact hs
  · have ho := runSem_rel hs hm
    generalize runSem s1 (sem1 n) = o1 at ho
    generalize runSem s2 (sem2 n) = o2 at ho
    match o1, o2, ho with
    | none, none, _ => exact hs
    | some (k1, p1, none), some (k2, p2, none), ho =>
      obtain ⟨hk, hp⟩ := ho
      subst hk
      exact ⟨hs.1.append (All2.cons ⟨rfl, rfl, hp⟩ All2.nil), hs.2⟩
    | some (_, _, some v1), some (_, _, some v2), ho =>
      exact ⟨hs.1, hs.2.append (All2.cons ⟨rfl, ho⟩ All2.nil)⟩

theorem foldl_stepWith_rel {sem1 : Node → Sem σ₁} {sem2 : Node → Sem σ₂} (job : Job)
    (hm : ∀ n ∈ job, SemRel R S (sem1 n) (sem2 n)) {s1 : St σ₁} {s2 : St σ₂} (hs : StRel R S s1 s2) :
    StRel R S (job.foldl (stepWith sem1) s1) (job.foldl (stepWith sem2) s2) := by
  induction job generalizing s1 s2 with
  | nil => exact hs
  | cons n job ih =>
    simp only [foldl_cons]
    exact ih (fun m hm' => hm m (by simp [hm'])) (stepWith_rel n hs (hm n (by simp)))

theorem stRel_init : StRel R S ({} : St σ₁) ({} : St σ₂) := ⟨All2.nil, All2.nil⟩

end Sim


/-! ### Part F — the invariant and its preservation by every covered stage -/

/-- **the invariant** for a covered stream: at least one replica; a single one if the tag says so;
    the union of the replicas is the sequential value (as a multiset); a keyed stream tagged
    co-located has equal keys on one replica -/
structure Good (h : V → Nat) (kd : Bool) (t : Tag) (dv : D) (sv : List V) : Prop where
  ne : dv ≠ []
  single : t.single = true → dv.length ≤ 1
  perm : dv.flatten.Perm sv
  coloc : kd = true → t.coloc = true → Coloc h dv

def RelT (h : V → Nat) (kd : Bool) (dv : D) (ts : Tag × List V) : Prop :=
  ts.1.ok = true → Good h kd ts.1 dv ts.2

def SinkT (dv : D) (ts : Tag × List V) : Prop := ts.1.ok = true → dv.flatten.Perm ts.2

theorem coloc_of_single (h : V → Nat) (d : D) (hd : d.length ≤ 1) : Coloc h d := by
  intro j l hj p _
  have hj' : j < d.length := by
    rcases Nat.lt_or_ge j d.length with hlt | hge
    · exact hlt
    · rw [getElem?_eq_none hge] at hj; cases hj
  have : d.length = 1 := by omega
  rw [this]; omega

theorem ne_map {f : List V → List V} {d : D} (h : d ≠ []) : d.map f ≠ [] := by
  cases d <;> simp at h ⊢

theorem good_map_plain {h : V → Nat} {kin : Bool} {t t' : Tag} {x : D} {y : List V}
    (f : List V → List V) (h0 : f [] = []) (ha : ∀ a b, f (a ++ b) = f a ++ f b)
    (hperm : ∀ l l' : List V, l.Perm l' → (f l).Perm (f l')) (hg : Good h kin t x y)
    (hs : t'.single = true → t.single = true) : Good h false t' (x.map f) (f y) :=
  ⟨ne_map hg.ne, fun e => by rw [length_map]; exact hg.single (hs e),
   by rw [flatten_map_hom f h0 ha]; exact hperm _ _ hg.perm, fun e => by cases e⟩

theorem good_map_keyed {h : V → Nat} {t : Tag} {x : D} {y : List V}
    (f : List V → List V) (h0 : f [] = []) (ha : ∀ a b, f (a ++ b) = f a ++ f b)
    (hperm : ∀ l l' : List V, l.Perm l' → (f l).Perm (f l'))
    (hk : ∀ l p, p ∈ f l → ∃ q ∈ l, q.fst = p.fst) (hg : Good h true t x y) :
    Good h true t (x.map f) (f y) :=
  ⟨ne_map hg.ne, fun e => by rw [length_map]; exact hg.single e,
   by rw [flatten_map_hom f h0 ha]; exact hperm _ _ hg.perm,
   fun _ e => coloc_map f x (hg.coloc rfl e) hk⟩

theorem ne_of_length_pos {d : D} (h : 0 < d.length) : d ≠ [] := by
  cases d <;> simp at h ⊢

theorem good_exchange {h : V → Nat} {kin : Bool} {t t' : Tag} {x : D} {y : List V}
    (n : Nat) (ch : Nat → V → Nat) (c : Nat → Nat) (hn : 0 < n) (hg : Good h kin t x y)
    (hs : t'.single = true → n = 1) : Good h false t' (exchange n ch c x) y :=
  ⟨ne_of_length_pos (by rw [length_exchange]; exact hn),
   fun e => by rw [length_exchange, hs e]; exact Nat.le_refl 1,
   (exchange_perm n ch c x hn).trans hg.perm, fun e => by cases e⟩

theorem good_gather {h : V → Nat} {kin : Bool} {t t' : Tag} {x : D} {y : List V} (c : Nat → Nat)
    (f : List V → List V) (hf : ∀ l l' : List V, l.Perm l' → f l = f l') (hg : Good h kin t x y) :
    Good h false t' ((gather c x).map f) (f y) :=
  ⟨by simp [gather], fun _ => by simp [gather],
   by simp only [gather, map_cons, map_nil, flatten_cons, flatten_nil, append_nil]
      rw [hf _ _ ((permBy_perm c _).trans hg.perm)],
   fun e => by cases e⟩

theorem un_of_good {h : V → Nat} {a : Ref} {kin kout : Bool} (k : Kind) {f1 : D → D}
    {f2 : List V → List V}
    (hmono : ∀ t, (k.tagUn t).ok = true → t.ok = true)
    (hg : ∀ t x y, Good h kin t x y → (k.tagUn t).ok = true → Good h kout (k.tagUn t) (f1 x) (f2 y)) :
    SemRel (RelT h) SinkT (.un a kin kout f1) (.un a kin kout fun x => (k.tagUn x.1, f2 x.2)) :=
  .un fun x ts hr hok => hg ts.1 x ts.2 (hr (hmono _ hok)) hok

theorem bin_of_good {h : V → Nat} {a b : Ref} {kin kout : Bool} (k : Kind) {f1 : D → D → D}
    {f2 : List V → List V → List V}
    (hmono : ∀ t t', (k.tagBin t t').ok = true → t.ok = true ∧ t'.ok = true)
    (hg : ∀ t t' x y x' y', Good h kin t x y → Good h kin t' x' y' → (k.tagBin t t').ok = true →
      Good h kout (k.tagBin t t') (f1 x x') (f2 y y')) :
    SemRel (RelT h) SinkT (.bin a b kin kout f1)
      (.bin a b kin kout fun x y => (k.tagBin x.1 y.1, f2 x.2 y.2)) :=
  .bin fun x ts x' ts' hr hr' hok =>
    hg ts.1 ts'.1 x ts.2 x' ts'.2 (hr (hmono _ _ hok).1) (hr' (hmono _ _ hok).2) hok

theorem length_zipAppend_le (x y : D) : (zipAppend x y).length ≤ max x.length y.length := by
  induction x generalizing y with
  | nil => simp [zipAppend]
  | cons l d ih =>
    cases y with
    | nil => simp [zipAppend]
    | cons l' d' => simp only [zipAppend, length_cons]; have := ih d'; omega

theorem zipAppend_ne {x y : D} (hx : x ≠ []) : zipAppend x y ≠ [] := by
  cases x <;> cases y <;> simp [zipAppend] at hx ⊢


/-- **two-phase keyed aggregation as a stage** (`group_by_fold` and friends): phase 1 per replica of
    the producer, partial results hash-routed by key, phase 2 per replica of the consumer -/
theorem good_gb {h : V → Nat} {t t' : Tag} {x : D} {y : List V} {ψ₁ ψ₂ : V → List V → List V}
    (h1 : KeyedFn ψ₁) (h2 : KeyedFn ψ₂) (hne : ∀ k vs, vs ≠ [] → ψ₁ k vs ≠ [])
    (hlaw : ∀ k (parts : D), ψ₂ k (parts.map fun p => valsOf k (keyedGen ψ₁ p)).flatten =
      ψ₁ k (valsOf k parts.flatten))
    (f : KeyFn) (k : Int) (n : Nat) (hn : 0 < n) (c : Nat → Nat) (hg : Good h false t x y)
    (hs : t'.single = false) :
    Good h true t'
      ((exchange n (fun _ v => h v.fst) c (x.map fun l => keyedGen ψ₁ (keyByS f k l))).map (keyedGen ψ₂))
      (keyedGen ψ₁ (keyByS f k y)) := by
  have hcol := coloc_exchange h n c (x.map fun l => keyedGen ψ₁ (keyByS f k l))
  refine Good.mk (ne_map (ne_of_length_pos (by rw [length_exchange]; exact hn)))
    (fun e => by rw [hs] at e; cases e) ?_ (fun _ _ => coloc_map _ _ hcol (keyedGen_keys h2))
  rw [flatten_map_keyedGen _ hcol]
  refine (keyedGen_perm h2 (exchange_perm n _ c _ hn)).trans ?_
  rw [flatten_map_map (keyByS f k) (keyedGen ψ₁)]
  refine (keyedGen_twoPhase h1 hne hlaw _).trans ?_
  apply keyedGen_perm h1
  rw [flatten_map_hom (keyByS f k) rfl (by simp [keyByS])]
  exact hg.perm.map _

/-! ### loops -/

theorem foldl_glob_ne (g : Agg) (a : Int) (ys : List Int) (hne : ys ≠ []) (hy : ∀ y ∈ ys, g.norm y) :
    ys.foldl g.glob a = g.glob a (ys.foldl g.glob 0) := by
  cases ys with
  | nil => exact absurd rfl hne
  | cons y ys =>
    simp only [foldl_cons]
    rw [foldl_glob_assoc, glob_zero_left g y (hy y (by simp))]

/-- the state update of one round: the leader's fold of the per-replica deltas (any arrival order)
    is the global step applied to the local fold of the whole round output -/
theorem state_update (agg : Agg) (c : Nat → Nat) (st : Int) (out : D) (outs : List V) (hne : out ≠ [])
    (hp : out.flatten.Perm outs) :
    (projs (permBy c (out.map fun l => V.int ((projs l).foldl agg.loc 0)))).foldl agg.glob st =
      agg.glob st ((projs outs).foldl agg.loc 0) := by
  have h1 : (projs (permBy c (out.map fun l => V.int ((projs l).foldl agg.loc 0)))).Perm
      ((out.map projs).map (F agg)) := by
    have := (permBy_perm c (out.map fun l => V.int ((projs l).foldl agg.loc 0))).map V.proj
    simpa [projs, V.proj, F, Function.comp_def] using this
  rw [foldl_glob_perm agg h1 st, foldl_glob_ne agg st _ (by cases out <;> simp at hne ⊢)
    (by intro y hy; obtain ⟨p, _, rfl⟩ := mem_map.mp hy; exact F_norm agg p),
    twoPhase_sum, flatten_map_projs]
  congr 1
  exact F_perm agg (hp.map V.proj |> fun e => (by simpa [projs] using e))

/-- a parallel body and a sequential body are related -/
def BodyRel (bp : Int → D → D) (bs : Int → List V → List V) : Prop :=
  ∀ st x y, x ≠ [] → x.flatten.Perm y → bp st x ≠ [] ∧ (bp st x).flatten.Perm (bs st y)

/-- **loop_seq**: with related bodies, the parallel loop protocol computes the same state in every
    round (hence runs the same number of rounds) and related final outputs -/
theorem loop_rel (fb : Bool) {bp : Int → D → D} {bs : Int → List V → List V} (hb : BodyRel bp bs)
    (agg : Agg) (cp : PredFn) (ck : Int) (c : Nat → Nat) (n : Nat) (st : Int) (x : D) (y : List V)
    (hne : x ≠ []) (hp : x.flatten.Perm y) :
    (parLoopRun fb bp agg cp ck c n st x).1 = (loopRun fb bs agg cp ck n st y).1 ∧
    (parLoopRun fb bp agg cp ck c n st x).2 ≠ [] ∧
    (parLoopRun fb bp agg cp ck c n st x).2.flatten.Perm (loopRun fb bs agg cp ck n st y).2 := by
  induction n generalizing st x y with
  | zero => exact ⟨rfl, hne, hp⟩
  | succ n ih =>
    obtain ⟨hone, hop⟩ := hb st x y hne hp
    simp only [parLoopRun, loopRun]
    rw [state_update agg c st (bp st x) (bs st y) hone hop]
    split
    · cases fb
      · exact ih _ x y hne hp
      · exact ih _ _ _ hone hop
    · exact ⟨rfl, hone, hop⟩

theorem bodyRel_foldl {α : Type} (ss : List α) (fp : α → Int → D → D) (fs : α → Int → List V → List V)
    (h : ∀ s ∈ ss, BodyRel (fp s) (fs s)) :
    BodyRel (fun st x => ss.foldl (fun acc s => fp s st acc) x)
      (fun st y => ss.foldl (fun acc s => fs s st acc) y) := by
  induction ss with
  | nil => intro st x y hne hp; exact ⟨hne, hp⟩
  | cons s ss ih =>
    intro st x y hne hp
    simp only [foldl_cons]
    obtain ⟨h1, h2⟩ := h s (by simp) st x y hne hp
    exact ih (fun s' hs' => h s' (by simp [hs'])) st _ _ h1 h2

theorem bodyRel_hom (f : Int → List V → List V) (h0 : ∀ st, f st [] = [])
    (ha : ∀ st a b, f st (a ++ b) = f st a ++ f st b)
    (hperm : ∀ st (l l' : List V), l.Perm l' → (f st l).Perm (f st l')) :
    BodyRel (fun st d => d.map (f st)) f := by
  intro st x y hne hp
  exact ⟨ne_map hne, by rw [flatten_map_hom (f st) (h0 st) (ha st)]; exact hperm st _ _ hp⟩

/-- **every body stage, at every nesting depth**: the parallel stage and the sequential stage are
    related, for every distribution `sp` (at least one replica) of the side input `ss` -/
theorem stage_rel (n : Nat) (hn : 0 < n) (o : Orc) (id : Nat) (sp : D) (ss : List V) (hsne : sp ≠ [])
    (hsp : sp.flatten.Perm ss) (fuel : Nat) (s : BStage) :
    BodyRel (parStage n o id sp fuel s) (evalStage ss fuel s) := by
  induction fuel generalizing s with
  | zero => intro st x y hne hp; simpa [parStage, evalStage] using ⟨hne, hp⟩
  | succ fuel ih =>
    have e1 : ∀ g, keyedFoldS g = keyedGen (ψFold g) := fun g => funext (keyedFoldS_gen g)
    have e2 : ∀ g, keyedCombineS g = keyedGen (ψComb g) := fun g => funext (keyedCombineS_gen g)
    have mkGood : ∀ {x : D} {y : List V}, x ≠ [] → x.flatten.Perm y →
        Good o.hash false ⟨true, false, false⟩ x y := fun hne hp =>
      Good.mk hne (fun e => by simp at e) hp (fun e => by simp at e)
    cases s with
    | map f k =>
      simp only [parStage, evalStage]
      exact bodyRel_hom (fun _ => List.map (f.eval k)) (fun _ => rfl) (by simp) (fun _ _ _ hp => hp.map _)
    | filter f k =>
      simp only [parStage, evalStage]
      exact bodyRel_hom (fun _ => List.filter (f.eval k)) (fun _ => rfl) (by simp)
        (fun _ _ _ hp => hp.filter _)
    | fmap f k =>
      simp only [parStage, evalStage]
      exact bodyRel_hom (fun _ => List.flatMap (f.eval k)) (fun _ => rfl) (by simp)
        (fun _ _ _ hp => hp.flatMap_right _)
    | shuffle =>
      intro st x y hne hp
      simp only [parStage, evalStage]
      exact ⟨ne_of_length_pos (by rw [length_exchange]; exact hn), (exchange_perm _ _ _ _ hn).trans hp⟩
    | addst k =>
      simp only [parStage, evalStage]
      exact bodyRel_hom (fun st => List.map fun v => V.int (v.proj + emod st k)) (fun _ => rfl) (by simp)
        (fun _ _ _ hp => hp.map _)
    | gbsum f k =>
      intro st x y hne hp
      simp only [parStage, evalStage, gbSumS]
      rw [e1, e2]
      have := good_gb (t' := ⟨true, true, false⟩) (keyedFn_fold .sum) (keyedFn_comb .sum) (ψFold_ne .sum)
        (fold_law .sum) f k n hn (o.merge id) (mkGood hne hp) rfl
      refine ⟨ne_map this.ne, ?_⟩
      rw [flatten_map_hom (List.map V.snd) rfl (by simp)]
      exact this.perm.map _
    | gbfold f k g =>
      intro st x y hne hp
      simp only [parStage, evalStage]
      rw [e1, e2]
      have := good_gb (t' := ⟨true, true, false⟩) (keyedFn_fold g) (keyedFn_comb g) (ψFold_ne g)
        (fold_law g) f k n hn (o.merge id) (mkGood hne hp) rfl
      exact ⟨this.ne, this.perm⟩
    | gbwin f k w sl =>
      intro st x y hne hp
      simp only [parStage, evalStage]
      have ew : keyedWinS w sl .cnt = keyedGen (ψWin w sl) := funext (keyedWinS_gen w sl)
      rw [ew]
      have hcol := coloc_exchange o.hash n (o.merge id) (x.map (keyByS f k))
      refine ⟨ne_map (ne_of_length_pos (by rw [length_exchange]; exact hn)), ?_⟩
      show ((exchange n (fun _ v => o.hash v.fst) (o.merge id) (x.map (keyByS f k))).map
        (keyedGen (ψWin w sl))).flatten.Perm _
      rw [flatten_map_keyedGen _ hcol]
      apply keyedGen_perm (keyedFn_win w sl)
      refine (exchange_perm _ _ _ _ hn).trans ?_
      rw [flatten_map_hom (keyByS f k) rfl (by simp [keyByS])]
      exact hp.map _
    | joinside f1 k1 f2 k2 =>
      intro st x y hne hp
      simp only [parStage, evalStage, joinSideS]
      have hx := copart_exchange o.hash (f1.eval k1) n (o.merge id) x
      have hy := copart_exchange o.hash (f2.eval k2) n (o.merge id) sp
      have hlen : (exchange n (fun _ e => o.hash (f1.eval k1 e)) (o.merge id) x).length =
          (exchange n (fun _ e => o.hash (f2.eval k2 e)) (o.merge id) sp).length := by
        rw [length_exchange, length_exchange]
      refine ⟨ne_map (ne_of_length_pos (by
        rw [length_zipWith, length_exchange, length_exchange]; simpa using hn)), ?_⟩
      rw [flatten_map_hom (List.map V.snd) rfl (by simp)]
      apply Perm.map
      refine (join_copart o.hash .inner _ _ _ 0 _ _ hlen hx hy).trans ?_
      exact joinS_perm .inner _ _ ((exchange_perm _ _ _ _ hn).trans hp)
        ((exchange_perm _ _ _ _ hn).trans hsp)
    | mergeside =>
      intro st x y hne hp
      simp only [parStage, evalStage]
      exact ⟨ne_map (zipAppend_ne hne),
        (flatten_map_perm (permBy_perm _) _).trans ((zipAppend_perm x sp).trans (hp.append hsp))⟩
    | reduce g =>
      intro st x y hne hp
      simp only [parStage, evalStage, gather, map_cons, map_nil, flatten_cons, flatten_nil, append_nil]
      refine ⟨by simp, ?_⟩
      rw [reduceS_perm g ((permBy_perm _ _).trans hp)]
    | replay l =>
      cases l with
      | mk iters init agg cp ck body =>
        intro st x y hne hp
        simp only [parStage, evalStage]
        have hb := bodyRel_foldl body (fun s => parStage n o id sp fuel s) (fun s => evalStage ss fuel s)
          (fun s _ => ih s)
        have := loop_rel false hb agg cp ck (o.merge id) (max iters 1) init x y hne hp
        refine ⟨by simp, ?_⟩
        simp only [flatten_cons, flatten_nil, append_nil]
        rw [this.1]
    | iterate l =>
      cases l with
      | mk iters init agg cp ck body =>
        intro st x y hne hp
        simp only [parStage, evalStage]
        have hb := bodyRel_foldl body (fun s => parStage n o id sp fuel s) (fun s => evalStage ss fuel s)
          (fun s _ => ih s)
        have := loop_rel true hb agg cp ck (o.merge id) (max iters 1) init x y hne hp
        refine ⟨by simp, ?_⟩
        simp only [flatten_cons, flatten_nil, append_nil]
        rw [this.1]
    | iteritems l =>
      cases l with
      | mk iters init agg cp ck body =>
        intro st x y hne hp
        simp only [parStage, evalStage]
        have hb := bodyRel_foldl body (fun s => parStage n o id sp fuel s) (fun s => evalStage ss fuel s)
          (fun s _ => ih s)
        have := loop_rel true hb agg cp ck (o.merge id) (max iters 1) init x y hne hp
        exact ⟨this.2.1, this.2.2⟩
    | iterboth l =>
      cases l with
      | mk iters init agg cp ck body =>
        intro st x y hne hp
        simp only [parStage, evalStage]
        have hb := bodyRel_foldl body (fun s => parStage n o id sp fuel s) (fun s => evalStage ss fuel s)
          (fun s _ => ih s)
        have := loop_rel true hb agg cp ck (o.merge id) (max iters 1) init x y hne hp
        refine ⟨by simp, ?_⟩
        rw [flatten_append, this.1]
        exact this.2.2.append (by simp)

/-- **replay_seq / iterate_seq**: a whole loop (any nesting of `replay` / `iterate` in the body, side
    input included) run with the parallel protocol ends in the same state as the sequential loop,
    and (for `iterate`) delivers the same multiset of items -/
theorem loopSpec_rel (fb : Bool) (n : Nat) (hn : 0 < n) (o : Orc) (id : Nat) (fuel : Nat) (sp : D)
    (ss : List V) (hsne : sp ≠ []) (hsp : sp.flatten.Perm ss) (l : LoopSpec)
    (x : D) (y : List V) (hne : x ≠ []) (hp : x.flatten.Perm y) :
    (l.parRun fb n o id fuel sp x).1 = (l.run fb fuel ss y).1 ∧ (l.parRun fb n o id fuel sp x).2 ≠ [] ∧
    (l.parRun fb n o id fuel sp x).2.flatten.Perm (l.run fb fuel ss y).2 := by
  cases l with
  | mk iters init agg cp ck body =>
    simp only [LoopSpec.parRun, LoopSpec.run]
    have hb : BodyRel (parBody n o id sp fuel body) (evalBody ss fuel body) :=
      bodyRel_foldl body (fun s => parStage n o id sp fuel s) (fun s => evalStage ss fuel s)
        (fun s _ => stage_rel n hn o id sp ss hsne hsp fuel s)
    exact loop_rel fb hb agg cp ck (o.merge id) (max iters 1) init x y hne hp

theorem tag_mono_simp {a b : Bool} (h : (a && b) = true) : a = true := by
  cases a <;> simp_all

/-- every node: the parallel semantics and the tagged sequential semantics are related -/
theorem semRel_tag (cfg : Cfg) (o : Orc) (n : Node) :
    SemRel (RelT o.hash) SinkT (parSem cfg o n) (tagSem n) := by
  obtain ⟨id, kind⟩ := n
  cases kind <;> simp only [parSem, tagSem, seqSem]
  case iter l =>
    exact .src fun _ => Good.mk (by simp) (fun _ => by simp) (by simp) (fun e => by simp at e)
  case par lo hi =>
    refine .src fun _ => Good.mk ?_ (fun e => by simp at e) ?_ (fun e => by simp at e)
    · exact ne_of_length_pos (by rw [length_routeInto]; simpa using count_pos cfg .u)
    · have := flatten_routeInto (cfg.count .u) (fun i _ => o.route id i) 0 (rangeV lo hi)
        (replicate (cfg.count .u) []) (count_pos cfg .u) (by simp)
      simpa using this
  case map a f k =>
    exact un_of_good (.map a f k) (fun t ht => ht) fun t x y hg _ =>
      good_map_plain (List.map (f.eval k)) rfl (by simp) (fun _ _ hp => hp.map _) hg (fun e => e)
  case filter a f k =>
    exact un_of_good (.filter a f k) (fun t ht => ht) fun t x y hg _ =>
      good_map_plain (List.filter (f.eval k)) rfl (by simp) (fun _ _ hp => hp.filter _) hg (fun e => e)
  case fmap a f k =>
    exact un_of_good (.fmap a f k) (fun t ht => ht) fun t x y hg _ =>
      good_map_plain (List.flatMap (f.eval k)) rfl (by simp) (fun _ _ hp => hp.flatMap_right _) hg
        (fun e => e)
  case shuffle a =>
    exact un_of_good (.shuffle a) (fun t ht => ht) fun t x y hg _ =>
      good_exchange _ _ _ (count_pos cfg .u) hg (fun e => by simp [Kind.tagUn] at e)
  case repl a r =>
    exact un_of_good (.repl a r) (fun t ht => ht) fun t x y hg _ =>
      good_exchange _ _ _ (count_pos cfg r) hg (fun e => by
        simp only [Kind.tagUn, beq_iff_eq] at e; subst e; rfl)
  case repart a r f k =>
    exact un_of_good (.repart a r f k) (fun t ht => ht) fun t x y hg _ =>
      good_exchange _ _ _ (count_pos cfg r) hg (fun e => by
        simp only [Kind.tagUn, beq_iff_eq] at e; subst e; rfl)
  case groupBy a f k =>
    refine un_of_good (.groupBy a f k) (fun t ht => ht) fun t x y hg _ => Good.mk ?_ ?_ ?_ ?_
    · exact ne_of_length_pos (by rw [length_exchange]; exact count_pos cfg .u)
    · intro e; simp [Kind.tagUn] at e
    · refine (exchange_perm _ _ _ _ (count_pos cfg .u)).trans ?_
      rw [flatten_map_hom (keyByS f k) rfl (by simp [keyByS])]
      exact hg.perm.map _
    · intro _ _; exact coloc_exchange o.hash _ _ _
  case keyBy a f k =>
    refine un_of_good (.keyBy a f k) (fun t ht => ht) fun t x y hg _ => Good.mk (ne_map hg.ne) ?_ ?_ ?_
    · intro e; rw [length_map]; exact hg.single e
    · rw [flatten_map_hom (keyByS f k) rfl (by simp [keyByS])]
      exact hg.perm.map _
    · intro _ e; exact coloc_of_single _ _ (by rw [length_map]; exact hg.single e)
  case kmap a f k =>
    exact un_of_good (.kmap a f k) (fun t ht => ht) fun t x y hg _ =>
      good_map_keyed (kmapS f k) rfl (by simp [kmapS]) (fun _ _ hp => hp.map _) (kmapS_keys f k) hg
  case kfilter a f k =>
    exact un_of_good (.kfilter a f k) (fun t ht => ht) fun t x y hg _ =>
      good_map_keyed (kfilterS f k) rfl (by simp [kfilterS]) (fun _ _ hp => hp.filter _)
        (kfilterS_keys f k) hg
  case kfold a g =>
    refine un_of_good (.kfold a g) (fun t ht => tag_mono_simp ht) fun t x y hg hok => ?_
    have hc : t.coloc = true := by simp [Kind.tagUn] at hok; exact hok.2
    have hcol := hg.coloc rfl hc
    refine Good.mk (ne_map hg.ne) (fun e => by rw [length_map]; exact hg.single e) ?_
      (fun _ _ => coloc_map _ x hcol (keyedFoldS_keys g))
    rw [flatten_map_keyedFoldS g x hcol]
    exact keyedFoldS_perm g hg.perm
  case unkey a =>
    exact un_of_good (.unkey a) (fun t ht => ht) fun t x y hg _ =>
      Good.mk hg.ne hg.single hg.perm (fun e => by cases e)
  case dropKey a =>
    exact un_of_good (.dropKey a) (fun t ht => ht) fun t x y hg _ =>
      good_map_plain (List.map V.snd) rfl (by simp) (fun _ _ hp => hp.map _) hg (fun e => e)
  case fold a g =>
    exact un_of_good (.fold a g) (fun t ht => ht) fun t x y hg _ =>
      good_gather _ (foldS g) (fun _ _ hp => foldS_perm g hp) hg
  case reduce a g =>
    exact un_of_good (.reduce a g) (fun t ht => ht) fun t x y hg _ =>
      good_gather _ (reduceS g) (fun _ _ hp => reduceS_perm g hp) hg
  case foldA a g =>
    refine un_of_good (.foldA a g) (fun t ht => ht) fun t x y hg _ =>
      Good.mk (by simp [gather]) (fun _ => by simp [gather]) ?_ (fun e => by cases e)
    simp only [gather, map_cons, map_nil, flatten_cons, flatten_nil, append_nil]
    rw [combine_partials, foldS_perm g hg.perm]
  case merge a b =>
    refine bin_of_good (.merge a b) (fun t t' ht => by simpa [Kind.tagBin] using ht)
      fun t t' x y x' y' hg hg' _ => Good.mk (ne_map (zipAppend_ne hg.ne)) ?_ ?_ (fun e => by cases e)
    · intro e
      simp only [Kind.tagBin, Bool.and_eq_true] at e
      have h1 := hg.single e.1
      have h2 := hg'.single e.2
      have := length_zipAppend_le x x'
      rw [length_map]; omega
    · exact (flatten_map_perm (permBy_perm _) _).trans ((zipAppend_perm x x').trans (hg.perm.append hg'.perm))
  case route a ps =>
    refine .multi ?_
    rw [map_map]
    apply All2.map_left
    apply All2.map_right
    generalize List.range ps.length = js
    induction js with
    | nil => exact All2.nil
    | cons j js ih =>
      refine All2.cons (fun x ts hr hok => ?_) ih
      exact good_map_plain (routeS ps j) rfl (by simp [routeS]) (fun _ _ hp => hp.filter _) (hr hok)
        (fun e => e)
  case sink a =>
    exact .sink fun k x ts hr hok => (gather_perm _ x).trans (hr hok).perm
  case kwin a w s g =>
    refine un_of_good (.kwin a w s g)
      (fun t ht => by simp only [Kind.tagUn, Bool.and_eq_true] at ht; exact ht.1.1) fun t x y hg hok => ?_
    simp only [Kind.tagUn, Bool.and_eq_true, beq_iff_eq] at hok
    obtain ⟨⟨_, hc⟩, hgc⟩ := hok
    subst hgc
    have hcol := hg.coloc rfl hc
    have ew : keyedWinS w s .cnt = keyedGen (ψWin w s) := funext (keyedWinS_gen w s)
    rw [ew]
    refine Good.mk (ne_map hg.ne) (fun e => by rw [length_map]; exact hg.single e) ?_
      (fun _ _ => coloc_map _ x hcol (keyedGen_keys (keyedFn_win w s)))
    rw [flatten_map_keyedGen x hcol]
    exact keyedGen_perm (keyedFn_win w s) hg.perm
  case zip a b =>
    exact bin_of_good (.zip a b) (fun t t' ht => by simp [Kind.tagBin] at ht)
      (fun t t' x y x' y' _ _ hok => by simp [Kind.tagBin] at hok)
  case kjoin a b v =>
    exact bin_of_good (.kjoin a b v) (fun t t' ht => by simp [Kind.tagBin] at ht)
      (fun t t' x y x' y' _ _ hok => by simp [Kind.tagBin] at hok)
  case kmerge a b =>
    exact bin_of_good (.kmerge a b) (fun t t' ht => by simp [Kind.tagBin] at ht)
      (fun t t' x y x' y' _ _ hok => by simp [Kind.tagBin] at hok)
  case kreduce a g =>
    refine un_of_good (.kreduce a g) (fun t ht => tag_mono_simp ht) fun t x y hg hok => ?_
    have hc : t.coloc = true := by simp [Kind.tagUn] at hok; exact hok.2
    have hcol := hg.coloc rfl hc
    have he : keyedReduceS g = keyedGen (ψRed g) := funext (keyedReduceS_gen g)
    rw [he]
    refine Good.mk (ne_map hg.ne) (fun e => by rw [length_map]; exact hg.single e) ?_
      (fun _ _ => coloc_map _ x hcol (keyedGen_keys (keyedFn_red g)))
    rw [flatten_map_keyedGen x hcol]
    exact keyedGen_perm (keyedFn_red g) hg.perm
  case reduceA a g =>
    refine un_of_good (.reduceA a g) (fun t ht => ht) fun t x y hg _ =>
      Good.mk (by simp [gather]) (fun _ => by simp [gather]) ?_ (fun e => by cases e)
    simp only [gather, map_cons, map_nil, flatten_cons, flatten_nil, append_nil]
    rw [reduce_partials, reduceS_perm g hg.perm]
  case bcast a g =>
    refine un_of_good (.bcast a g) (fun t ht => tag_mono_simp ht) fun t x y hg hok =>
      Good.mk (by simp [gather]) (fun _ => by simp [gather]) ?_ (fun e => by cases e)
    have hgm : (g == .min || g == .max) = true := by
      simp only [Kind.tagUn, Bool.and_eq_true] at hok; exact hok.2
    simp only [gather, map_cons, map_nil, flatten_cons, flatten_nil, append_nil]
    rw [reduce_broadcast g hgm _ (count_pos cfg .u), reduceS_perm g hg.perm]
  case gbFold a f k g =>
    have e1 : keyedFoldS g = keyedGen (ψFold g) := funext (keyedFoldS_gen g)
    have e2 : keyedCombineS g = keyedGen (ψComb g) := funext (keyedCombineS_gen g)
    rw [e1, e2]
    exact un_of_good (.gbFold a f k g) (fun t ht => ht) fun t x y hg _ =>
      good_gb (keyedFn_fold g) (keyedFn_comb g) (ψFold_ne g) (fold_law g) f k _ (count_pos cfg .u) _ hg rfl
  case gbSum a f k =>
    have e1 : keyedFoldS .sum = keyedGen (ψFold .sum) := funext (keyedFoldS_gen .sum)
    have e2 : keyedCombineS .sum = keyedGen (ψComb .sum) := funext (keyedCombineS_gen .sum)
    rw [e1, e2]
    exact un_of_good (.gbSum a f k) (fun t ht => ht) fun t x y hg _ =>
      good_gb (keyedFn_fold .sum) (keyedFn_comb .sum) (ψFold_ne .sum) (fold_law .sum) f k _
        (count_pos cfg .u) _ hg rfl
  case gbCount a f k =>
    have e1 : keyedFoldS .cnt = keyedGen (ψFold .cnt) := funext (keyedFoldS_gen .cnt)
    have e2 : keyedCombineS .cnt = keyedGen (ψComb .cnt) := funext (keyedCombineS_gen .cnt)
    rw [e1, e2]
    exact un_of_good (.gbCount a f k) (fun t ht => ht) fun t x y hg _ =>
      good_gb (keyedFn_fold .cnt) (keyedFn_comb .cnt) (ψFold_ne .cnt) (fold_law .cnt) f k _
        (count_pos cfg .u) _ hg rfl
  case gbReduce a f k g =>
    have e1 : keyedReduceS g = keyedGen (ψRed g) := funext (keyedReduceS_gen g)
    rw [e1]
    exact un_of_good (.gbReduce a f k g) (fun t ht => ht) fun t x y hg _ =>
      good_gb (keyedFn_red g) (keyedFn_red g) (ψRed_ne g) (red_law g) f k _ (count_pos cfg .u) _ hg rfl
  case join a b v ship f1 c1 f2 c2 =>
    cases ship
    · -- ship hash
      refine bin_of_good (.join a b v .hash f1 c1 f2 c2) (fun t t' ht => by simpa [Kind.tagBin] using ht)
        fun t t' x y x' y' hg hg' _ => ?_
      have hn := count_pos cfg .u
      have hx := copart_exchange o.hash (f1.eval c1) (cfg.count .u) (o.merge id) x
      have hy := copart_exchange o.hash (f2.eval c2) (cfg.count .u) (o.merge id) x'
      have hlen : (exchange (cfg.count .u) (fun _ e => o.hash (f1.eval c1 e)) (o.merge id) x).length =
          (exchange (cfg.count .u) (fun _ e => o.hash (f2.eval c2 e)) (o.merge id) x').length := by
        rw [length_exchange, length_exchange]
      refine Good.mk ?_ (fun e => by simp [Kind.tagBin] at e) ?_ ?_
      · apply ne_of_length_pos
        rw [length_zipWith, length_exchange, length_exchange]; simpa using hn
      · refine (join_copart o.hash v _ _ _ 0 _ _ hlen hx hy).trans ?_
        exact joinS_perm v _ _ ((exchange_perm _ _ _ _ hn).trans hg.perm)
          ((exchange_perm _ _ _ _ hn).trans hg'.perm)
      · intro _ _
        have := invAt_zipWith_join (h := o.hash) v (f1.eval c1) (f2.eval c2) _ _ hx hy
        unfold Coloc
        rw [length_zipWith, length_exchange, length_exchange, Nat.min_self]
        exact this
    · -- ship broadcast-right
      refine bin_of_good (.join a b v .bcast f1 c1 f2 c2)
        (fun t t' ht => by
          simp only [Kind.tagBin, Bool.and_eq_true] at ht; exact ⟨ht.1.1, ht.1.2⟩)
        fun t t' x y x' y' hg hg' hok => ?_
      have hv : v ≠ .outer := by
        simp only [Kind.tagBin, Bool.and_eq_true] at hok
        intro e; subst e; simp at hok
      refine Good.mk (ne_map hg.ne) (fun e => by rw [length_map]; exact hg.single e) ?_
        (fun e => by cases e)
      rw [flatten_map_join_right v hv]
      exact joinS_perm v _ _ hg.perm ((permBy_perm _ _).trans hg'.perm)
  case replay a sd l =>
    cases sd with
    | none =>
      simp only [parSem, tagSem, seqSem]
      apply un_of_good (f2 := fun y => [V.int (LoopSpec.run false loopFuel [] l y).1]) (.replay a none l)
        (fun t ht => ht)
      intro t x y hg _
      have := loopSpec_rel false _ (count_pos cfg .u) o id loopFuel [[]] [] (by simp) (by simp) l x y
        hg.ne hg.perm
      refine Good.mk (by simp) (fun _ => by simp) ?_ (fun e => by cases e)
      simp [this.1]
    | some b =>
      simp only [parSem, tagSem, seqSem]
      apply bin_of_good (f2 := fun y sd => [V.int (LoopSpec.run false loopFuel sd l y).1])
        (.replay a (some b) l) (fun t t' ht => by simpa [Kind.tagBin] using ht)
      intro t t' x y x' y' hg hg' _
      have := loopSpec_rel false _ (count_pos cfg .u) o id loopFuel x' y' hg'.ne hg'.perm l x y
        hg.ne hg.perm
      refine Good.mk (by simp) (fun _ => by simp) ?_ (fun e => by cases e)
      simp [this.1]
  case iterate a sd l =>
    cases sd with
    | none =>
      simp only [parSem, tagSem, seqSem]
      refine .multi (All2.cons ?_ (All2.cons ?_ All2.nil))
      · intro x ts hr hok
        have hg := hr hok
        have := loopSpec_rel true _ (count_pos cfg .u) o id loopFuel [[]] [] (by simp) (by simp) l x ts.2
          hg.ne hg.perm
        refine Good.mk (by simp) (fun _ => by simp) ?_ (fun e => by cases e)
        simp [this.1]
      · intro x ts hr hok
        have hg := hr hok
        have := loopSpec_rel true _ (count_pos cfg .u) o id loopFuel [[]] [] (by simp) (by simp) l x ts.2
          hg.ne hg.perm
        exact Good.mk this.2.1 (fun e => by simp at e) this.2.2 (fun e => by cases e)
    | some b =>
      simp only [parSem, tagSem, seqSem]
      refine .bmulti (All2.cons ?_ (All2.cons ?_ All2.nil))
      · intro x ts x' ts' hr hr' hok
        have hok2 : ts.1.ok = true ∧ ts'.1.ok = true := by simpa using hok
        have hg := hr hok2.1
        have hg' := hr' hok2.2
        have := loopSpec_rel true _ (count_pos cfg .u) o id loopFuel x' ts'.2 hg'.ne hg'.perm l x ts.2
          hg.ne hg.perm
        refine Good.mk (by simp) (fun _ => by simp) ?_ (fun e => by cases e)
        simp [this.1]
      · intro x ts x' ts' hr hr' hok
        have hok2 : ts.1.ok = true ∧ ts'.1.ok = true := by simpa using hok
        have hg := hr hok2.1
        have hg' := hr' hok2.2
        have := loopSpec_rel true _ (count_pos cfg .u) o id loopFuel x' ts'.2 hg'.ne hg'.perm l x ts.2
          hg.ne hg.perm
        exact Good.mk this.2.1 (fun e => by simp at e) this.2.2 (fun e => by cases e)

end Noir.Pipe

namespace Noir.Pipe
open List

/-! ### the runs -/

/-- the parallel run and the tagged sequential run are related, for EVERY job -/
theorem par_tag_rel (cfg : Cfg) (o : Orc) (job : Job) :
    StRel (RelT o.hash) SinkT (parRun cfg o job) (tagRun job) := by
  unfold parRun tagRun
  exact foldl_stepWith_rel job (fun n _ => semRel_tag cfg o n) stRel_init

def ProjR : Bool → Tag × List V → List V → Prop := fun _ x y => x.2 = y
def ProjS : Tag × List V → List V → Prop := fun x y => x.2 = y

theorem all2_map_self (fs : List (List V → List V))
    (w : (List V → List V) → (Tag × List V → Tag × List V)) (hw : ∀ f x, (w f x).2 = f x.2) :
    All2 (fun f1 f2 => ∀ x y, ProjR false x y → ProjR false (f1 x) (f2 y)) (fs.map w) fs := by
  induction fs with
  | nil => exact All2.nil
  | cons f fs ih =>
    refine All2.cons (fun x y h => ?_) ih
    simp only [ProjR] at h ⊢; subst h; exact hw f x

/-- the tagged sequential run carries exactly the sequential values -/
theorem semRel_proj (n : Node) : SemRel ProjR ProjS (tagSem n) (seqSem n) := by
  obtain ⟨id, kind⟩ := n
  cases kind <;> simp only [tagSem, seqSem]
  case route a ps => exact .multi (all2_map_self _ _ (fun f x => rfl))
  case iterate a sd l =>
    cases sd with
    | none =>
      simp only [tagSem, seqSem]
      exact .multi (All2.cons (fun x y h => by simp only [ProjR] at h ⊢; subst h; rfl)
        (All2.cons (fun x y h => by simp only [ProjR] at h ⊢; subst h; rfl) All2.nil))
    | some b =>
      simp only [tagSem, seqSem]
      exact .bmulti (All2.cons (fun x y x' y' h h' => by simp only [ProjR] at h h' ⊢; subst h; subst h'; rfl)
        (All2.cons (fun x y x' y' h h' => by simp only [ProjR] at h h' ⊢; subst h; subst h'; rfl) All2.nil))
  case replay a sd l =>
    cases sd with
    | none => simp only [tagSem, seqSem]; exact .un (fun x y h => by simp only [ProjR] at h ⊢; subst h; rfl)
    | some b =>
      simp only [tagSem, seqSem]
      exact .bin (fun x y x' y' h h' => by simp only [ProjR] at h h' ⊢; subst h; subst h'; rfl)
  all_goals first
    | exact .src rfl
    | exact .un (fun x y h => by simp only [ProjR] at h ⊢; subst h; rfl)
    | exact .bin (fun x y x' y' h h' => by simp only [ProjR] at h h' ⊢; subst h; subst h'; rfl)
    | exact .sink (fun k x y h => by simp only [ProjR, ProjS] at h ⊢; subst h; rfl)

theorem tag_seq_rel (job : Job) : StRel ProjR ProjS (tagRun job) (seqRun job) := by
  unfold tagRun seqRun
  exact foldl_stepWith_rel job (fun n _ => semRel_proj n) stRel_init


theorem All2.imp_mem {α β : Type} {R R' : α → β → Prop} {a : List α} {b : List β} (h : All2 R a b)
    (hi : ∀ x y, y ∈ b → R x y → R' x y) : All2 R' a b := by
  induction h with
  | nil => exact All2.nil
  | cons hr _ ih =>
    exact All2.cons (hi _ _ (by simp) hr) (ih fun x y hy => hi x y (by simp [hy]))

theorem all2_eq_map {α β : Type} {f : α → β} {a : List α} {b : List β}
    (h : All2 (fun x y => f x = y) a b) : a.map f = b := by
  induction h with
  | nil => rfl
  | cons hr _ ih => simp [hr, ih]


theorem All2.flip {α β : Type} {R : α → β → Prop} {a : List α} {b : List β} (h : All2 R a b) :
    All2 (fun y x => R x y) b a := by
  induction h with
  | nil => exact All2.nil
  | cons hr _ ih => exact All2.cons hr ih


/-! ### forward keyed binary operators on co-partitioned keyed streams -/

theorem zipWith_map_flatten (j : List V → List V → List V) (g : V → V) (x y : D) :
    (zipWith (fun a b => (j a b).map g) x y).flatten = (zipWith j x y).flatten.map g := by
  induction x generalizing y with
  | nil => simp
  | cons a x ih =>
    cases y with
    | nil => simp
    | cons b y => simp only [zipWith_cons_cons, flatten_cons, map_append]; rw [ih y]

/-- `KeyedStream::join` / `join_outer` (no shuffle): if both inputs are co-located by the SAME hash
    over equally many replicas, the union of the per-replica joins is the join of the whole streams -/
theorem keyedJoin_copart (h : V → Nat) (v : JVar) (x y : D) (hl : x.length = y.length)
    (hx : Coloc h x) (hy : Coloc h y) :
    (zipWith (keyedJoinS v) x y).flatten.Perm (keyedJoinS v x.flatten y.flatten) := by
  unfold keyedJoinS
  rw [zipWith_map_flatten (joinS v V.fst V.fst)]
  apply Perm.map
  have hy' : CoPart h V.fst x.length 0 y := by rw [hl]; exact hy
  exact join_copart h v V.fst V.fst x.length 0 x y hl hx hy'

theorem invAt_zipAppend {h : V → Nat} {n off : Nat} (x y : D) (hx : InvAt h n off x) (hy : InvAt h n off y) :
    InvAt h n off (zipAppend x y) := by
  induction x generalizing y off with
  | nil => simpa [zipAppend] using hy
  | cons a x ih =>
    cases y with
    | nil => simpa [zipAppend] using hx
    | cons b y =>
      simp only [zipAppend]
      refine InvAt.cons ?_ (ih y hx.tail hy.tail)
      intro p hp
      rcases mem_append.mp hp with hp | hp
      · exact hx.head p hp
      · exact hy.head p hp

theorem length_zipAppend_eq (x y : D) (hl : x.length = y.length) : (zipAppend x y).length = x.length := by
  induction x generalizing y with
  | nil => cases y <;> simp_all [zipAppend]
  | cons a x ih =>
    cases y with
    | nil => simp at hl
    | cons b y => simp only [zipAppend, length_cons]; rw [ih y (by simpa using hl)]

/-- `KeyedStream::merge` (no shuffle) of two streams co-located by the SAME hash over equally many
    replicas: the union, still co-located (so a following keyed fold sees every key on one replica) -/
theorem keyedMerge_copart (h : V → Nat) (c : Nat → Nat) (x y : D) (hl : x.length = y.length)
    (hx : Coloc h x) (hy : Coloc h y) :
    Coloc h ((zipAppend x y).map (permBy c)) ∧
    ((zipAppend x y).map (permBy c)).flatten.Perm (x.flatten ++ y.flatten) := by
  constructor
  · apply coloc_map
    · unfold Coloc
      rw [length_zipAppend_eq x y hl]
      apply invAt_zipAppend x y hx
      unfold Coloc at hy; rw [← hl] at hy; exact hy
    · intro l p hp; exact ⟨p, (permBy_perm c l).mem_iff.mp hp, rfl⟩
  · exact (flatten_map_perm (permBy_perm c) _).trans (zipAppend_perm x y)

end Noir.Pipe
