/-
  Lemmas/Pipe.lean — helper lemmas for C01 (deployment transparency), model: Model/Pipe.lean.
  Part A: routing / merging primitives conserve elements.  Part B: hash routing co-locates keys.
  Part C: keyed folds of co-located partitions.  Part D: algebra of the aggregation library.
  Part E: the simulation between `parRun` and `seqRun`.
-/
import NoirVerif.Model.Pipe
namespace Noir.Pipe
open List

/-! ### Part A — conservation -/

theorem insertAt_perm (x : V) (n : Nat) (l : List V) : (insertAt x n l).Perm (x :: l) := by
  induction l generalizing n with
  | nil => cases n <;> simp [insertAt]
  | cons y l ih =>
    cases n with
    | zero => simp [insertAt]
    | succ n =>
      simp only [insertAt]
      exact ((ih n).cons y).trans (Perm.swap x y l)

theorem permBy_perm (c : Nat → Nat) (l : List V) : (permBy c l).Perm l := by
  induction l with
  | nil => simp [permBy]
  | cons x xs ih =>
    simp only [permBy]
    exact (insertAt_perm x _ _).trans (ih.cons x)

theorem flatten_map_perm {f : List V → List V} (hf : ∀ l, (f l).Perm l) (d : D) :
    (d.map f).flatten.Perm d.flatten := by
  induction d with
  | nil => simp
  | cons l d ih => simp only [map_cons, flatten_cons]; exact (hf l).append ih

theorem length_push (d : D) (r : Nat) (x : V) : (push d r x).length = d.length := by
  induction d generalizing r with
  | nil => simp [push]
  | cons l d ih => cases r <;> simp [push, ih]

theorem flatten_push (d : D) (r : Nat) (x : V) (hr : r < d.length) :
    (push d r x).flatten.Perm (d.flatten ++ [x]) := by
  induction d generalizing r with
  | nil => simp at hr
  | cons l d ih =>
    cases r with
    | zero =>
      simp only [push, flatten_cons, append_assoc]
      exact (perm_append_comm (l₁ := [x]) (l₂ := d.flatten)).append_left l
    | succ r =>
      simp only [push, flatten_cons, append_assoc]
      exact (ih r (by simpa using hr)).append_left l

theorem length_routeInto (n : Nat) (ch : Nat → V → Nat) (i : Nat) (xs : List V) (d : D) :
    (routeInto n ch i xs d).length = d.length := by
  induction xs generalizing i d with
  | nil => simp [routeInto]
  | cons x xs ih => simp [routeInto, ih, length_push]

theorem flatten_routeInto (n : Nat) (ch : Nat → V → Nat) (i : Nat) (xs : List V) (d : D)
    (hn : 0 < n) (hd : d.length = n) :
    (routeInto n ch i xs d).flatten.Perm (d.flatten ++ xs) := by
  induction xs generalizing i d with
  | nil => simp [routeInto]
  | cons x xs ih =>
    simp only [routeInto]
    have hr : ch i x % n < d.length := by rw [hd]; exact Nat.mod_lt _ hn
    refine (ih (i + 1) _ (by rw [length_push, hd])).trans ?_
    have := (flatten_push d _ x hr).append_right xs
    simpa [append_assoc] using this

/-- **conservation of an all-to-all link**: whatever the routing choices and arrival orders, the
    consumers together receive exactly what was sent -/
theorem exchange_perm (n : Nat) (ch : Nat → V → Nat) (c : Nat → Nat) (d : D) (hn : 0 < n) :
    (exchange n ch c d).flatten.Perm d.flatten := by
  unfold exchange
  refine (flatten_map_perm (permBy_perm c) _).trans ?_
  have := flatten_routeInto n ch 0 d.flatten (replicate n []) hn (by simp)
  simpa using this

theorem length_exchange (n : Nat) (ch : Nat → V → Nat) (c : Nat → Nat) (d : D) :
    (exchange n ch c d).length = n := by
  simp [exchange, length_routeInto]

theorem gather_perm (c : Nat → Nat) (d : D) : (gather c d).flatten.Perm d.flatten := by
  simp [gather]; exact permBy_perm c _

theorem broadcast_perm (n : Nat) (c : Nat → Nat) (d : D) :
    (broadcast n c d).flatten.Perm (replicate n d.flatten).flatten := by
  unfold broadcast
  induction n with
  | zero => simp
  | succ n ih => simp only [replicate_succ, flatten_cons]; exact (permBy_perm c _).append ih

theorem zipAppend_perm (x y : D) : (zipAppend x y).flatten.Perm (x.flatten ++ y.flatten) := by
  induction x generalizing y with
  | nil => simp [zipAppend]
  | cons l d ih =>
    cases y with
    | nil => simp [zipAppend]
    | cons l' d' =>
      simp only [zipAppend, flatten_cons, append_assoc]
      refine Perm.append_left l ?_
      refine ((ih d').append_left l').trans ?_
      simp only [← append_assoc]
      exact (perm_append_comm (l₁ := l') (l₂ := d.flatten)).append_right _

/-! ### Part B — co-location -/

/-- every element of replica `j` has `h key % n = off + j` -/
def InvAt (h : V → Nat) (n off : Nat) (d : D) : Prop :=
  ∀ j l, d[j]? = some l → ∀ p ∈ l, h p.fst % n = off + j

/-- equal keys are on one replica, namely `h key % #replicas` -/
def Coloc (h : V → Nat) (d : D) : Prop := InvAt h d.length 0 d

theorem InvAt.tail {h n off l d} (hi : InvAt h n off (l :: d)) : InvAt h n (off + 1) d := by
  intro j l' hj p hp
  have := hi (j + 1) l' (by simpa using hj) p hp
  omega

theorem InvAt.head {h n off l d} (hi : InvAt h n off (l :: d)) : ∀ p ∈ l, h p.fst % n = off := by
  intro p hp
  simpa using hi 0 l (by simp) p hp

theorem InvAt.cons {h n off l d} (h0 : ∀ p ∈ l, h p.fst % n = off) (ht : InvAt h n (off + 1) d) :
    InvAt h n off (l :: d) := by
  intro j l' hj p hp
  cases j with
  | zero => simp at hj; subst hj; simpa using h0 p hp
  | succ j => have := ht j l' (by simpa using hj) p hp; omega

theorem invAt_replicate (h : V → Nat) (n off k : Nat) : InvAt h n off (replicate k []) := by
  intro j l hj p hp
  rw [getElem?_replicate] at hj
  split at hj
  · cases hj; simp at hp
  · simp at hj

theorem invAt_push {h n off} (d : D) (r : Nat) (x : V) (hi : InvAt h n off d)
    (hx : h x.fst % n = off + r) : InvAt h n off (push d r x) := by
  induction d generalizing r off with
  | nil => simpa [push] using hi
  | cons l d ih =>
    cases r with
    | zero =>
      simp only [push]
      refine InvAt.cons ?_ hi.tail
      intro p hp
      rcases mem_append.mp hp with hp | hp
      · exact hi.head p hp
      · simp at hp; subst hp; simpa using hx
    | succ r =>
      simp only [push]
      exact InvAt.cons hi.head (ih r hi.tail (by omega))

theorem invAt_routeInto {h n} (i : Nat) (xs : List V) (d : D) (hi : InvAt h n 0 d) :
    InvAt h n 0 (routeInto n (fun _ v => h v.fst) i xs d) := by
  induction xs generalizing i d with
  | nil => simpa [routeInto] using hi
  | cons x xs ih =>
    simp only [routeInto]
    exact ih (i + 1) _ (invAt_push d _ x hi (by simp))

theorem invAt_map {h n off} (f : List V → List V) (d : D) (hi : InvAt h n off d)
    (hf : ∀ l p, p ∈ f l → ∃ q ∈ l, q.fst = p.fst) : InvAt h n off (d.map f) := by
  intro j l hj p hp
  rw [getElem?_map] at hj
  cases hd : d[j]? with
  | none => simp [hd] at hj
  | some l0 =>
    simp [hd] at hj; subst hj
    obtain ⟨q, hq, hqp⟩ := hf l0 p hp
    rw [← hqp]; exact hi j l0 hd q hq

/-- **hash routing co-partitions**: after an all-to-all link that routes by any hash of the key,
    all elements with equal keys are on the same replica -/
theorem coloc_exchange (h : V → Nat) (n : Nat) (c : Nat → Nat) (d : D) :
    Coloc h (exchange n (fun _ v => h v.fst) c d) := by
  unfold Coloc
  rw [length_exchange]
  unfold exchange
  apply invAt_map
  · exact invAt_routeInto 0 _ _ (invAt_replicate h n 0 n)
  · intro l p hp
    exact ⟨p, (permBy_perm c l).mem_iff.mp hp, rfl⟩

theorem coloc_map {h} (f : List V → List V) (d : D) (hc : Coloc h d)
    (hf : ∀ l p, p ∈ f l → ∃ q ∈ l, q.fst = p.fst) : Coloc h (d.map f) := by
  unfold Coloc; rw [length_map]; exact invAt_map f d hc hf

theorem coloc_single (h : V → Nat) (l : List V) : Coloc h [l] := by
  intro j l' hj p _
  cases j with
  | zero => simp [Nat.mod_one]
  | succ j => simp at hj

/-! ### Part D — algebra of the aggregation library -/

theorem emod_M (a : Int) : emod a M = a % 10007 := by
  have : max (10007 : Int) 1 = 10007 := by decide
  simp [emod, M, this]

theorem loc_rightComm (g : Agg) (a x y : Int) : g.loc (g.loc a x) y = g.loc (g.loc a y) x := by
  cases g <;> simp only [Agg.loc, emod_M] <;> omega

theorem glob_rightComm (g : Agg) (a x y : Int) : g.glob (g.glob a x) y = g.glob (g.glob a y) x := by
  cases g <;> simp only [Agg.glob, emod_M] <;> omega

theorem glob_comm (g : Agg) (x y : Int) : g.glob x y = g.glob y x := by
  cases g <;> simp only [Agg.glob, emod_M] <;> omega

/-- accumulators reachable from 0 are "normal": combining with the empty partial result is a no-op -/
def Agg.norm (g : Agg) (a : Int) : Prop := g.glob a 0 = a

theorem norm_zero (g : Agg) : g.norm 0 := by
  cases g <;> simp [Agg.norm, Agg.glob, emod_M]

theorem norm_loc (g : Agg) (a y : Int) (h : g.norm a) : g.norm (g.loc a y) := by
  cases g <;> simp only [Agg.norm, Agg.loc, Agg.glob, emod_M] at * <;> omega

theorem glob_loc (g : Agg) (a y z : Int) (h : g.norm a) :
    g.glob (g.loc a y) z = g.glob a (g.glob (g.loc 0 y) z) := by
  cases g <;> simp only [Agg.norm, Agg.loc, Agg.glob, emod_M] at * <;> omega

/-- the local fold from 0 -/
def F (g : Agg) (xs : List Int) : Int := xs.foldl g.loc 0

theorem foldl_loc_eq (g : Agg) (a : Int) (ys : List Int) (h : g.norm a) :
    ys.foldl g.loc a = g.glob a (F g ys) ∧ g.norm (ys.foldl g.loc a) := by
  induction ys generalizing a with
  | nil => exact ⟨by simpa [F] using h.symm, by simpa using h⟩
  | cons y ys ih =>
    have h1 := ih (g.loc a y) (norm_loc g a y h)
    have h2 := ih (g.loc 0 y) (norm_loc g 0 y (norm_zero g))
    refine ⟨?_, by simpa using h1.2⟩
    simp only [foldl_cons, F] at *
    rw [h1.1, h2.1]
    exact glob_loc g a y _ h

theorem F_norm (g : Agg) (xs : List Int) : g.norm (F g xs) :=
  (foldl_loc_eq g 0 xs (norm_zero g)).2

/-- the local fold is a homomorphism from concatenation to `glob` -/
theorem F_append (g : Agg) (xs ys : List Int) : F g (xs ++ ys) = g.glob (F g xs) (F g ys) := by
  unfold F
  rw [foldl_append]
  exact (foldl_loc_eq g _ ys (F_norm g xs)).1

theorem F_perm (g : Agg) {xs ys : List Int} (h : xs.Perm ys) : F g xs = F g ys :=
  h.foldl_eq' (fun x _ y _ z => loc_rightComm g z x y) 0

theorem foldl_glob_perm (g : Agg) {xs ys : List Int} (h : xs.Perm ys) (a : Int) :
    xs.foldl g.glob a = ys.foldl g.glob a :=
  h.foldl_eq' (fun x _ y _ z => glob_rightComm g z x y) a

/-- **two-phase = one-phase** (any partition, empty parts included) -/
theorem foldl_glob_partials (g : Agg) (acc : List Int) (parts : List (List Int)) :
    (parts.map (F g)).foldl g.glob (F g acc) = F g (acc ++ parts.flatten) := by
  induction parts generalizing acc with
  | nil => simp
  | cons p ps ih =>
    simp only [map_cons, foldl_cons, flatten_cons]
    rw [← F_append, ih, append_assoc]

theorem twoPhase_sum (g : Agg) (parts : List (List Int)) :
    (parts.map (F g)).foldl g.glob 0 = F g parts.flatten := by
  simpa [F] using foldl_glob_partials g [] parts

/-! ### Part C — keyed folds -/

theorem mem_dedup (a : V) (l : List V) : a ∈ dedup l ↔ a ∈ l := by
  induction l with
  | nil => simp [dedup]
  | cons x xs ih =>
    simp only [dedup, mem_cons, mem_filter, ih, decide_eq_true_eq]
    by_cases h : a = x <;> simp [h]

theorem nodup_dedup (l : List V) : (dedup l).Nodup := by
  induction l with
  | nil => simp [dedup]
  | cons x xs ih =>
    simp only [dedup, nodup_cons, mem_filter, decide_eq_true_eq]
    exact ⟨fun h => h.2 rfl, ih.filter _⟩

theorem dedup_append (l1 l2 : List V) (hd : ∀ a ∈ l1, a ∉ l2) :
    dedup (l1 ++ l2) = dedup l1 ++ dedup l2 := by
  induction l1 with
  | nil => simp [dedup]
  | cons x xs ih =>
    have hx : x ∉ l2 := hd x (by simp)
    simp only [cons_append, dedup, ih (fun a ha => hd a (by simp [ha])), filter_append, cons.injEq,
      true_and, append_cancel_left_eq]
    rw [filter_eq_self]
    intro a ha
    have : a ∈ l2 := (mem_dedup a l2).mp ha
    simp only [decide_eq_true_eq]
    intro h; subst h; exact hx this

theorem dedup_perm {l l' : List V} (h : l.Perm l') : (dedup l).Perm (dedup l') :=
  (perm_ext_iff_of_nodup (nodup_dedup l) (nodup_dedup l')).mpr fun a => by
    rw [mem_dedup, mem_dedup]; exact h.mem_iff

@[simp] theorem fst_pair (a b : V) : (V.pair a b).fst = a := rfl
@[simp] theorem snd_pair (a b : V) : (V.pair a b).snd = b := rfl

/-- the result of the keyed fold for key `k` -/
def foldFor (g : Agg) (l : List V) (k : V) : V := V.pair k (.int (F g (projs (valsOf k l))))

theorem keyedFoldS_eq (g : Agg) (l : List V) : keyedFoldS g l = (keysOf l).map (foldFor g l) := rfl

theorem valsOf_append (k : V) (l1 l2 : List V) : valsOf k (l1 ++ l2) = valsOf k l1 ++ valsOf k l2 := by
  simp [valsOf]

theorem valsOf_nil_of_not_mem (k : V) (l : List V) (h : ∀ p ∈ l, p.fst ≠ k) : valsOf k l = [] := by
  simp only [valsOf, map_eq_nil_iff, filter_eq_nil_iff, decide_eq_true_eq]
  exact h

theorem valsOf_perm (k : V) {l l' : List V} (h : l.Perm l') : (valsOf k l).Perm (valsOf k l') :=
  (h.filter _).map _

theorem keysOf_perm {l l' : List V} (h : l.Perm l') : (keysOf l).Perm (keysOf l') :=
  dedup_perm (h.map _)

theorem mem_keysOf (k : V) (l : List V) : k ∈ keysOf l ↔ ∃ p ∈ l, p.fst = k := by
  simp [keysOf, mem_dedup]

/-- a keyed fold over two streams with disjoint key sets is the union of the two keyed folds -/
theorem keyedFoldS_append (g : Agg) (l1 l2 : List V) (hd : ∀ p ∈ l1, ∀ q ∈ l2, p.fst ≠ q.fst) :
    keyedFoldS g (l1 ++ l2) = keyedFoldS g l1 ++ keyedFoldS g l2 := by
  simp only [keyedFoldS_eq]
  have hk : keysOf (l1 ++ l2) = keysOf l1 ++ keysOf l2 := by
    simp only [keysOf, map_append]
    apply dedup_append
    intro a ha hb
    obtain ⟨p, hp, rfl⟩ := mem_map.mp ha
    obtain ⟨q, hq, hqp⟩ := mem_map.mp hb
    exact hd p hp q hq hqp.symm
  rw [hk, map_append]
  congr 1
  · apply map_congr_left
    intro k hk1
    obtain ⟨p, hp, rfl⟩ := (mem_keysOf k l1).mp hk1
    simp only [foldFor, valsOf_append]
    rw [valsOf_nil_of_not_mem _ l2 (fun q hq h => hd p hp q hq h.symm), append_nil]
  · apply map_congr_left
    intro k hk2
    obtain ⟨q, hq, rfl⟩ := (mem_keysOf k l2).mp hk2
    simp only [foldFor, valsOf_append]
    rw [valsOf_nil_of_not_mem _ l1 (fun p hp h => hd p hp q hq h), nil_append]

theorem keyedFoldS_perm (g : Agg) {l l' : List V} (h : l.Perm l') :
    (keyedFoldS g l).Perm (keyedFoldS g l') := by
  simp only [keyedFoldS_eq]
  have hf : foldFor g l = foldFor g l' := by
    funext k
    simp only [foldFor, projs]
    rw [F_perm g ((valsOf_perm k h).map _)]
  rw [hf]
  exact (keysOf_perm h).map _

theorem mem_flatten_invAt {h n off} (d : D) (hi : InvAt h n off d) (q : V) (hq : q ∈ d.flatten) :
    ∃ j, h q.fst % n = off + j := by
  obtain ⟨l, hl, hql⟩ := mem_flatten.mp hq
  obtain ⟨j, hj⟩ := getElem?_of_mem hl
  exact ⟨j, hi j l hj q hql⟩

/-- **per-replica keyed fold of a key-co-located partition = keyed fold of the union** -/
theorem flatten_map_keyedFoldS {h n off} (g : Agg) (d : D) (hi : InvAt h n off d) :
    (d.map (keyedFoldS g)).flatten = keyedFoldS g d.flatten := by
  induction d generalizing off with
  | nil => simp [keyedFoldS, keysOf, dedup]
  | cons l d ih =>
    simp only [map_cons, flatten_cons]
    rw [ih hi.tail, keyedFoldS_append]
    intro p hp q hq heq
    have h1 := hi.head p hp
    obtain ⟨j, h2⟩ := mem_flatten_invAt d hi.tail q hq
    rw [heq] at h1; omega

theorem keyedFoldS_keys (g : Agg) (l : List V) (p : V) (hp : p ∈ keyedFoldS g l) :
    ∃ q ∈ l, q.fst = p.fst := by
  simp only [keyedFoldS_eq, mem_map] at hp
  obtain ⟨k, hk, rfl⟩ := hp
  obtain ⟨q, hq, hqk⟩ := (mem_keysOf k l).mp hk
  exact ⟨q, hq, by simp [foldFor, hqk]⟩

/-! ### Part E — the simulation between `parRun` and `seqRun` -/

/-- **the invariant**: the union of the replicas is the sequential value (as a multiset) and, for
    keyed streams, equal keys are co-located -/
def Rel (h : V → Nat) (kd : Bool) (dv : D) (sv : List V) : Prop :=
  dv.flatten.Perm sv ∧ (kd = true → Coloc h dv)

inductive All2 {α β : Type} (R : α → β → Prop) : List α → List β → Prop
  | nil : All2 R [] []
  | cons {a b as bs} : R a b → All2 R as bs → All2 R (a :: as) (b :: bs)

theorem All2.append {α β : Type} {R : α → β → Prop} {a a' : List α} {b b' : List β}
    (h : All2 R a b) (h' : All2 R a' b') : All2 R (a ++ a') (b ++ b') := by
  induction h with
  | nil => simpa using h'
  | cons hr _ ih => exact All2.cons hr ih

theorem All2.get? {α β : Type} {R : α → β → Prop} {a : List α} {b : List β} (h : All2 R a b) (i : Nat) :
    (a[i]? = none ∧ b[i]? = none) ∨ ∃ x y, a[i]? = some x ∧ b[i]? = some y ∧ R x y := by
  induction h generalizing i with
  | nil => simp
  | cons hr _ ih =>
    cases i with
    | zero => exact Or.inr ⟨_, _, by simp, by simp, hr⟩
    | succ i => simpa using ih i

theorem All2.any_eq {α β : Type} {R : α → β → Prop} {a : List α} {b : List β} (h : All2 R a b)
    (f : α → Bool) (g : β → Bool) (hfg : ∀ x y, R x y → f x = g y) : a.any f = b.any g := by
  induction h with
  | nil => rfl
  | cons hr _ ih => simp [hfg _ _ hr, ih]

theorem All2.map_fun {α β γ δ : Type} {R : α → β → Prop} {S : γ → δ → Prop} {fs : List (α → γ)}
    {gs : List (β → δ)} {x : α} {y : β}
    (h : All2 (fun f g => ∀ x y, R x y → S (f x) (g y)) fs gs) (hxy : R x y) :
    All2 S (fs.map (· x)) (gs.map (· y)) := by
  induction h with
  | nil => exact All2.nil
  | cons hr _ ih => exact All2.cons (hr _ _ hxy) ih

def EntryRel (h : V → Nat) (e1 : Entry D) (e2 : Entry (List V)) : Prop :=
  e1.id = e2.id ∧ e1.keyed = e2.keyed ∧ All2 (Rel h e1.keyed) e1.ports e2.ports

def SinkRel (p1 : Nat × D) (p2 : Nat × List V) : Prop := p1.1 = p2.1 ∧ p1.2.flatten.Perm p2.2

def StRel (h : V → Nat) (s1 : St D) (s2 : St (List V)) : Prop :=
  All2 (EntryRel h) s1.env s2.env ∧ All2 SinkRel s1.sinks s2.sinks

theorem StRel.defined {h s1 s2} (hs : StRel h s1 s2) (id : Nat) : s1.defined id = s2.defined id := by
  unfold St.defined
  rw [hs.1.any_eq _ _ (fun x y hr => by rw [hr.1]), hs.2.any_eq _ _ (fun x y hr => by rw [hr.1])]

theorem lookup_rel {h} {e1 : List (Entry D)} {e2 : List (Entry (List V))} (he : All2 (EntryRel h) e1 e2)
    (id : Nat) : (lookup id e1 = none ∧ lookup id e2 = none) ∨
      ∃ x y, lookup id e1 = some x ∧ lookup id e2 = some y ∧ EntryRel h x y := by
  induction he with
  | nil => simp [lookup]
  | @cons a b as bs hr _ ih =>
    simp only [lookup]
    rw [← hr.1]
    by_cases hid : a.id = id
    · simp only [hid, if_true]; exact Or.inr ⟨a, b, rfl, rfl, hr⟩
    · simpa [hid] using ih

/-- related states answer a reference alike -/
def GetRel (h : V → Nat) (kd : Option Bool) : Option D → Option (List V) → Prop
  | none, none => True
  | some x, some y => ∃ k, kd.all (· == k) = true ∧ Rel h k x y
  | _, _ => False

theorem StRel.get {h s1 s2} (hs : StRel h s1 s2) (r : Ref) (kd : Option Bool) :
    GetRel h kd (s1.get r kd) (s2.get r kd) := by
  unfold St.get
  rcases lookup_rel hs.1 r.id with ⟨h1, h2⟩ | ⟨x, y, h1, h2, hr⟩
  · simp [h1, h2, GetRel]
  · simp only [h1, h2]
    rw [← hr.2.1]
    by_cases hk : kd.all (· == x.keyed) = true
    · simp only [hk, if_true]
      rcases hr.2.2.get? r.port with ⟨g1, g2⟩ | ⟨a, b, g1, g2, hab⟩
      · simp [g1, g2, GetRel]
      · simp only [g1, g2, GetRel]; exact ⟨x.keyed, hk, hab⟩
    · simp [hk, GetRel]

/-- related node semantics: same shape, same references, functions preserve the invariant -/
inductive SemRel (h : V → Nat) : Sem D → Sem (List V) → Prop
  | src {v1 v2} : Rel h false v1 v2 → SemRel h (.src v1) (.src v2)
  | un {a kin kout f1 f2} : (∀ x y, Rel h kin x y → Rel h kout (f1 x) (f2 y)) →
      SemRel h (.un a kin kout f1) (.un a kin kout f2)
  | bin {a b kin kout f1 f2} :
      (∀ x y x' y', Rel h kin x y → Rel h kin x' y' → Rel h kout (f1 x x') (f2 y y')) →
      SemRel h (.bin a b kin kout f1) (.bin a b kin kout f2)
  | multi {a fs1 fs2} : All2 (fun f1 f2 => ∀ x y, Rel h false x y → Rel h false (f1 x) (f2 y)) fs1 fs2 →
      SemRel h (.multi a fs1) (.multi a fs2)
  | sink {a f1 f2} : (∀ k x y, Rel h k x y → (f1 x).flatten.Perm (f2 y)) →
      SemRel h (.sink a f1) (.sink a f2)

def OutRel (h : V → Nat) : Option (Bool × List D × Option D) → Option (Bool × List (List V) × Option (List V)) → Prop
  | none, none => True
  | some (k1, p1, none), some (k2, p2, none) => k1 = k2 ∧ All2 (Rel h k1) p1 p2
  | some (_, _, some v1), some (_, _, some v2) => v1.flatten.Perm v2
  | _, _ => False

theorem getRel_some_kind {h b o1 o2} (hg : GetRel h (some b) o1 o2) :
    (o1 = none ∧ o2 = none) ∨ ∃ x y, o1 = some x ∧ o2 = some y ∧ Rel h b x y := by
  cases o1 <;> cases o2 <;> simp [GetRel] at hg ⊢
  exact hg

theorem runSem_rel {h s1 s2 m1 m2} (hs : StRel h s1 s2) (hm : SemRel h m1 m2) :
    OutRel h (runSem s1 m1) (runSem s2 m2) := by
  cases hm with
  | src hv => exact ⟨rfl, All2.cons hv All2.nil⟩
  | @un a kin kout f1 f2 hf =>
    simp only [runSem]
    rcases getRel_some_kind (hs.get a (some kin)) with ⟨h1, h2⟩ | ⟨x, y, h1, h2, hr⟩
    · simp [h1, h2, OutRel]
    · simp only [h1, h2, Option.bind_some, OutRel]; exact ⟨trivial, All2.cons (hf x y hr) All2.nil⟩
  | @bin a b kin kout f1 f2 hf =>
    simp only [runSem]
    rcases getRel_some_kind (hs.get a (some kin)) with ⟨h1, h2⟩ | ⟨x, y, h1, h2, hr⟩
    · simp [h1, h2, OutRel]
    · rcases getRel_some_kind (hs.get b (some kin)) with ⟨g1, g2⟩ | ⟨x', y', g1, g2, hr'⟩
      · simp [h1, h2, g1, g2, OutRel]
      · simp only [h1, h2, g1, g2, Option.bind_some, OutRel]
        exact ⟨trivial, All2.cons (hf x y x' y' hr hr') All2.nil⟩
  | @multi a fs1 fs2 hf =>
    simp only [runSem]
    rcases getRel_some_kind (hs.get a (some false)) with ⟨h1, h2⟩ | ⟨x, y, h1, h2, hr⟩
    · simp [h1, h2, OutRel]
    · simp only [h1, h2, Option.bind_some, OutRel]; exact ⟨trivial, hf.map_fun hr⟩
  | @sink a f1 f2 hf =>
    simp only [runSem]
    have hg := hs.get a none
    cases h1 : s1.get a none <;> cases h2 : s2.get a none <;> simp [h1, h2, GetRel] at hg
    · simp [OutRel]
    · simp only [Option.bind_some, OutRel]
      rcases hg with hr | hr <;> exact hf _ _ _ hr

theorem stepWith_rel {h s1 s2} {sem1 : Node → Sem D} {sem2 : Node → Sem (List V)} (n : Node)
    (hs : StRel h s1 s2) (hm : SemRel h (sem1 n) (sem2 n)) :
    StRel h (stepWith sem1 s1 n) (stepWith sem2 s2 n) := by
  unfold stepWith
  rw [hs.defined n.id]
  split
  · exact hs
  · have ho := runSem_rel hs hm
    generalize runSem s1 (sem1 n) = o1 at ho
    generalize runSem s2 (sem2 n) = o2 at ho
    match o1, o2, ho with
    | none, none, _ => exact hs
    | some (k1, p1, none), some (k2, p2, none), ho =>
      obtain ⟨hk, hp⟩ := ho
      subst hk
      exact ⟨hs.1.append (All2.cons ⟨rfl, rfl, hp⟩ All2.nil), hs.2⟩
    | some (_, _, some v1), some (_, _, some v2), ho =>
      exact ⟨hs.1, hs.2.append (All2.cons ⟨rfl, ho⟩ All2.nil)⟩

theorem foldl_stepWith_rel {h} {sem1 : Node → Sem D} {sem2 : Node → Sem (List V)} (job : Job)
    (hm : ∀ n ∈ job, SemRel h (sem1 n) (sem2 n)) {s1 s2} (hs : StRel h s1 s2) :
    StRel h (job.foldl (stepWith sem1) s1) (job.foldl (stepWith sem2) s2) := by
  induction job generalizing s1 s2 with
  | nil => exact hs
  | cons n job ih =>
    simp only [foldl_cons]
    exact ih (fun m hm' => hm m (by simp [hm'])) (stepWith_rel n hs (hm n (by simp)))

/-! ### Part F — every stage of the fragment preserves the invariant -/

theorem count_pos (c : Cfg) (r : Rep) : 0 < c.count r := by
  cases r <;> simp only [Cfg.count] <;> omega

theorem flatten_map_hom (f : List V → List V) (h0 : f [] = []) (ha : ∀ a b, f (a ++ b) = f a ++ f b)
    (d : D) : (d.map f).flatten = f d.flatten := by
  induction d with
  | nil => simp [h0]
  | cons l d ih => simp [ha, ih]

theorem rel_plain {h : V → Nat} {dv : D} {sv : List V} (hp : dv.flatten.Perm sv) : Rel h false dv sv :=
  ⟨hp, fun hh => by cases hh⟩

/-- **stateless stages distribute over replicas** -/
theorem rel_hom {h : V → Nat} (f : List V → List V) (h0 : f [] = [])
    (ha : ∀ a b, f (a ++ b) = f a ++ f b) (hperm : ∀ l l' : List V, l.Perm l' → (f l).Perm (f l'))
    {k : Bool} {x : D} {y : List V} (hr : Rel h k x y) : Rel h false (x.map f) (f y) :=
  rel_plain (by rw [flatten_map_hom f h0 ha]; exact hperm _ _ hr.1)

theorem rel_hom_keyed {h : V → Nat} (f : List V → List V) (h0 : f [] = [])
    (ha : ∀ a b, f (a ++ b) = f a ++ f b) (hperm : ∀ l l' : List V, l.Perm l' → (f l).Perm (f l'))
    (hk : ∀ l p, p ∈ f l → ∃ q ∈ l, q.fst = p.fst)
    {x : D} {y : List V} (hr : Rel h true x y) : Rel h true (x.map f) (f y) :=
  ⟨(rel_hom f h0 ha hperm hr).1, fun _ => coloc_map f x (hr.2 rfl) hk⟩

theorem rel_exchange {h : V → Nat} (n : Nat) (ch : Nat → V → Nat) (c : Nat → Nat) (hn : 0 < n)
    {k : Bool} {x : D} {y : List V} (hr : Rel h k x y) : Rel h false (exchange n ch c x) y :=
  rel_plain ((exchange_perm n ch c x hn).trans hr.1)

theorem foldS_perm (g : Agg) {l l' : List V} (h : l.Perm l') : foldS g l = foldS g l' := by
  unfold foldS
  have hl := h.length_eq
  rw [F_perm g (h.map V.proj) |> fun e => (by simpa [F, projs] using e :
    (projs l).foldl g.loc 0 = (projs l').foldl g.loc 0)]
  cases l <;> cases l' <;> simp at hl ⊢

theorem optStep_rightComm (g : Agg) (acc : Option Int) (x y : Int) :
    optStep g (optStep g acc x) y = optStep g (optStep g acc y) x := by
  cases acc with
  | none => simp [optStep, glob_comm g x y]
  | some a => simp [optStep, glob_rightComm g a x y]

theorem reduceS_perm (g : Agg) {l l' : List V} (h : l.Perm l') : reduceS g l = reduceS g l' := by
  unfold reduceS reduceInts
  rw [(h.map V.proj).foldl_eq' (fun x _ y _ z => optStep_rightComm g z x y) none |>
    fun e => (by simpa [projs] using e :
      (projs l).foldl (optStep g) none = (projs l').foldl (optStep g) none)]

theorem flatten_filter_nonempty (d : D) : (d.filter (fun l => !l.isEmpty)).flatten = d.flatten := by
  induction d with
  | nil => rfl
  | cons l d ih => cases l <;> simp [ih]

theorem partials_spec (g : Agg) (d : D) :
    (d.map (foldS g)).flatten = (d.filter (fun l => !l.isEmpty)).map fun l => V.int (F g (projs l)) := by
  induction d with
  | nil => rfl
  | cons l d ih => cases l <;> simp [foldS, ih, F]

theorem perm_isEmpty {α : Type} {l l' : List α} (h : l.Perm l') : l.isEmpty = l'.isEmpty := by
  have := h.length_eq
  cases l <;> cases l' <;> simp_all

theorem flatten_map_projs (d : D) : (d.map projs).flatten = projs d.flatten := by
  induction d with
  | nil => rfl
  | cons l d ih => simp only [map_cons, flatten_cons, ih]; simp [projs]

theorem combine_aux (g : Agg) (d : D) (hne : ∀ l ∈ d, l ≠ []) :
    combineS g (d.map fun l => V.int (F g (projs l))) = foldS g d.flatten := by
  have hv : projs (d.map fun l => V.int (F g (projs l))) = (d.map projs).map (F g) := by
    simp [projs, V.proj, Function.comp_def]
  have hm := flatten_map_projs d
  unfold combineS foldS
  rw [hv, twoPhase_sum, hm]
  cases d with
  | nil => simp
  | cons l d =>
    have : l ≠ [] := hne l (by simp)
    cases l with
    | nil => exact absurd rfl this
    | cons a l => simp [projs, F]

/-- **two-phase global fold = fold of the union** (any partition, any arrival order of the partials) -/
theorem combine_partials (g : Agg) (c : Nat → Nat) (d : D) :
    combineS g (permBy c (d.map (foldS g)).flatten) = foldS g d.flatten := by
  have hp := permBy_perm c (d.map (foldS g)).flatten
  have h1 : combineS g (permBy c (d.map (foldS g)).flatten) = combineS g (d.map (foldS g)).flatten := by
    unfold combineS
    rw [perm_isEmpty hp, foldl_glob_perm g (hp.map V.proj |> fun e => (by simpa [projs] using e :
      (projs (permBy c (d.map (foldS g)).flatten)).Perm (projs (d.map (foldS g)).flatten))) 0]
  rw [h1, partials_spec, combine_aux, flatten_filter_nonempty]
  intro l hl
  have := (mem_filter.mp hl).2
  intro h; subst h; simp at this

theorem kmapS_keys (f : MapFn) (k : Int) (l : List V) (p : V) (hp : p ∈ kmapS f k l) :
    ∃ q ∈ l, q.fst = p.fst := by
  simp only [kmapS, mem_map] at hp
  obtain ⟨q, hq, rfl⟩ := hp
  exact ⟨q, hq, by simp⟩

theorem kfilterS_keys (f : PredFn) (k : Int) (l : List V) (p : V) (hp : p ∈ kfilterS f k l) :
    ∃ q ∈ l, q.fst = p.fst :=
  ⟨p, (mem_filter.mp hp).1, rfl⟩

theorem rel_gather_fun {h : V → Nat} (c : Nat → Nat) (f : List V → List V)
    (hf : ∀ l l' : List V, l.Perm l' → (f l).Perm (f l')) {k : Bool} {x : D} {y : List V}
    (hr : Rel h k x y) : Rel h false ((gather c x).map f) (f y) :=
  rel_plain (by simpa [gather] using hf _ _ ((permBy_perm c _).trans hr.1))

/-- every stage of the fragment maps related inputs to related outputs -/
theorem semRel_frag (cfg : Cfg) (o : Orc) (n : Node) (hf : n.kind.orderInsensitive = true) :
    SemRel o.hash (parSem cfg o n) (seqSem n) := by
  obtain ⟨id, kind⟩ := n
  cases kind <;> simp only [Kind.orderInsensitive, Bool.false_eq_true] at hf <;>
    simp only [parSem, seqSem]
  case iter l => exact .src (rel_plain (by simp))
  case par lo hi =>
    refine .src (rel_plain ?_)
    have := flatten_routeInto (cfg.count .u) (fun i _ => o.route id i) 0 (rangeV lo hi)
      (replicate (cfg.count .u) []) (count_pos cfg .u) (by simp)
    simpa using this
  case map a f k =>
    exact .un fun x y hr => rel_hom (List.map (f.eval k)) rfl (by simp) (fun _ _ hp => hp.map _) hr
  case filter a f k =>
    exact .un fun x y hr => rel_hom (List.filter (f.eval k)) rfl (by simp) (fun _ _ hp => hp.filter _) hr
  case fmap a f k =>
    exact .un fun x y hr => rel_hom (List.flatMap (f.eval k)) rfl (by simp)
      (fun _ _ hp => hp.flatMap_right _) hr
  case shuffle a => exact .un fun x y hr => rel_exchange _ _ _ (count_pos cfg .u) hr
  case repl a r => exact .un fun x y hr => rel_exchange _ _ _ (count_pos cfg r) hr
  case repart a r f k => exact .un fun x y hr => rel_exchange _ _ _ (count_pos cfg r) hr
  case groupBy a f k =>
    refine .un fun x y hr => ⟨?_, fun _ => coloc_exchange o.hash _ _ _⟩
    refine (exchange_perm _ _ _ _ (count_pos cfg .u)).trans ?_
    exact (rel_hom (keyByS f k) rfl (by simp [keyByS]) (fun _ _ hp => hp.map _) hr).1
  case kmap a f k =>
    exact .un fun x y hr => rel_hom_keyed (kmapS f k) rfl (by simp [kmapS])
      (fun _ _ hp => hp.map _) (kmapS_keys f k) hr
  case kfilter a f k =>
    exact .un fun x y hr => rel_hom_keyed (kfilterS f k) rfl (by simp [kfilterS])
      (fun _ _ hp => hp.filter _) (kfilterS_keys f k) hr
  case kfold a g =>
    refine .un fun x y hr => ⟨?_, fun _ => coloc_map _ x (hr.2 rfl) (keyedFoldS_keys g)⟩
    rw [flatten_map_keyedFoldS g x (hr.2 rfl)]
    exact keyedFoldS_perm g hr.1
  case unkey a => exact .un fun x y hr => rel_plain hr.1
  case dropKey a =>
    exact .un fun x y hr => rel_hom (List.map V.snd) rfl (by simp) (fun _ _ hp => hp.map _) hr
  case fold a g =>
    exact .un fun x y hr => rel_gather_fun _ (foldS g) (fun _ _ hp => by rw [foldS_perm g hp]) hr
  case reduce a g =>
    exact .un fun x y hr => rel_gather_fun _ (reduceS g) (fun _ _ hp => by rw [reduceS_perm g hp]) hr
  case foldA a g =>
    refine .un fun x y hr => rel_plain ?_
    simp only [gather, map_cons, map_nil, flatten_cons, flatten_nil, append_nil]
    rw [combine_partials, foldS_perm g hr.1]
  case merge a b =>
    refine .bin fun x y x' y' hr hr' => rel_plain ?_
    exact (flatten_map_perm (permBy_perm _) _).trans ((zipAppend_perm x x').trans (hr.1.append hr'.1))
  case route a ps =>
    refine .multi ?_
    induction (List.range ps.length) with
    | nil => exact All2.nil
    | cons j js ih =>
      refine All2.cons (fun x y hr => ?_) ih
      exact rel_hom (routeS ps j) rfl (by simp [routeS]) (fun _ _ hp => hp.filter _) hr
  case sink a => exact .sink fun k x y hr => (gather_perm _ x).trans hr.1

theorem projs_valsOf_flatten (k : V) (parts : D) :
    (parts.map fun p => projs (valsOf k p)).flatten = projs (valsOf k parts.flatten) := by
  induction parts with
  | nil => rfl
  | cons p ps ih => simp only [map_cons, flatten_cons, ih, valsOf_append]; simp [projs]

/-! ### joins of co-partitioned inputs -/

/-- what the join emits for one left element (depends on the right side only through its matches) -/
def leftOne (v : JVar) (k1 k2 : V → V) (rs : List V) (l : V) : List V :=
  let ms := rs.filter fun r => k2 r = k1 l
  match v with
  | .inner => ms.map fun r => V.pair (k1 l) (V.pair l r)
  | .left => if ms.isEmpty then [V.pair (k1 l) (V.pair l .none)]
             else ms.map fun r => V.pair (k1 l) (V.pair l (.some r))
  | .outer => if ms.isEmpty then [V.pair (k1 l) (V.pair (.some l) .none)]
              else ms.map fun r => V.pair (k1 l) (V.pair (.some l) (.some r))

/-- the unmatched right elements of an outer join -/
def rightPart (v : JVar) (k1 k2 : V → V) (ls rs : List V) : List V :=
  match v with
  | .outer => (rs.filter fun r => (ls.filter fun l => k1 l = k2 r).isEmpty).map fun r =>
      V.pair (k2 r) (V.pair .none (.some r))
  | _ => []

theorem joinS_eq (v : JVar) (k1 k2 : V → V) (ls rs : List V) :
    joinS v k1 k2 ls rs = ls.flatMap (leftOne v k1 k2 rs) ++ rightPart v k1 k2 ls rs := by
  cases v <;> rfl

theorem leftOne_congr (v : JVar) (k1 k2 : V → V) (rs rs' : List V) (l : V)
    (h : (rs.filter fun r => k2 r = k1 l) = rs'.filter fun r => k2 r = k1 l) :
    leftOne v k1 k2 rs l = leftOne v k1 k2 rs' l := by
  simp only [leftOne, h]

theorem flatMap_congr' {f g : V → List V} {l : List V} (h : ∀ a ∈ l, f a = g a) :
    l.flatMap f = l.flatMap g := by
  induction l with
  | nil => rfl
  | cons a l ih =>
    simp only [flatMap_cons, h a (by simp), ih (fun b hb => h b (by simp [hb]))]

theorem filter_nil_of_forall {p : V → Bool} {l : List V} (h : ∀ a ∈ l, p a = false) : l.filter p = [] := by
  rw [filter_eq_nil_iff]; intro a ha; simp [h a ha]

/-- the join of two unions whose cross pairs never match is the union of the two joins -/
theorem joinS_append (v : JVar) (k1 k2 : V → V) (l X r Y : List V)
    (h1 : ∀ a ∈ l, ∀ b ∈ Y, k1 a ≠ k2 b) (h2 : ∀ a ∈ X, ∀ b ∈ r, k1 a ≠ k2 b) :
    (joinS v k1 k2 (l ++ X) (r ++ Y)).Perm (joinS v k1 k2 l r ++ joinS v k1 k2 X Y) := by
  simp only [joinS_eq, flatMap_append]
  have e1 : l.flatMap (leftOne v k1 k2 (r ++ Y)) = l.flatMap (leftOne v k1 k2 r) := by
    apply flatMap_congr'
    intro a ha
    apply leftOne_congr
    rw [filter_append, filter_nil_of_forall (l := Y), append_nil]
    intro b hb; simpa using fun e => h1 a ha b hb e.symm
  have e2 : X.flatMap (leftOne v k1 k2 (r ++ Y)) = X.flatMap (leftOne v k1 k2 Y) := by
    apply flatMap_congr'
    intro a ha
    apply leftOne_congr
    rw [filter_append, filter_nil_of_forall (l := r), nil_append]
    intro b hb; simpa using fun e => h2 a ha b hb e.symm
  have e3 : rightPart v k1 k2 (l ++ X) (r ++ Y) = rightPart v k1 k2 l r ++ rightPart v k1 k2 X Y := by
    cases v <;> simp only [rightPart, append_nil]
    rw [filter_append, map_append]
    congr 1
    · congr 1
      apply filter_congr
      intro b hb
      rw [filter_append, filter_nil_of_forall (l := X), append_nil]
      intro a ha; simpa using h2 a ha b hb
    · congr 1
      apply filter_congr
      intro b hb
      rw [filter_append, filter_nil_of_forall (l := l), nil_append]
      intro a ha; simpa using h1 a ha b hb
  rw [e1, e2, e3]
  -- (Ll ++ LX) ++ (Rl ++ RX) ~ (Ll ++ Rl) ++ (LX ++ RX)
  simp only [append_assoc]
  refine Perm.append_left _ ?_
  simp only [← append_assoc]
  exact (perm_append_comm (l₁ := X.flatMap _) (l₂ := rightPart v k1 k2 l r)).append_right _

/-- every element of replica `j` has `h (key p) % n = off + j` -/
def CoPart (h : V → Nat) (key : V → V) (n off : Nat) (d : D) : Prop :=
  ∀ j l, d[j]? = some l → ∀ p ∈ l, h (key p) % n = off + j

theorem CoPart.tail {h key n off l d} (hi : CoPart h key n off (l :: d)) : CoPart h key n (off + 1) d := by
  intro j l' hj p hp
  have := hi (j + 1) l' (by simpa using hj) p hp
  omega

theorem CoPart.mem_flatten {h key n off} {d : D} (hi : CoPart h key n off d) (q : V)
    (hq : q ∈ d.flatten) : ∃ j, h (key q) % n = off + j := by
  obtain ⟨l, hl, hql⟩ := List.mem_flatten.mp hq
  obtain ⟨j, hj⟩ := getElem?_of_mem hl
  exact ⟨j, hi j l hj q hql⟩

theorem join_copart (h : V → Nat) (v : JVar) (k1 k2 : V → V) (n off : Nat) (x y : D)
    (hl : x.length = y.length) (hx : CoPart h k1 n off x) (hy : CoPart h k2 n off y) :
    (zipWith (joinS v k1 k2) x y).flatten.Perm (joinS v k1 k2 x.flatten y.flatten) := by
  induction x generalizing y off with
  | nil =>
    cases y with
    | nil => cases v <;> simp [joinS]
    | cons _ _ => simp at hl
  | cons l x ih =>
    cases y with
    | nil => simp at hl
    | cons r y =>
      simp only [zipWith_cons_cons, flatten_cons]
      refine Perm.trans ?_ (joinS_append v k1 k2 l x.flatten r y.flatten ?_ ?_).symm
      · exact Perm.append_left _ (ih _ _ (by simpa using hl) hx.tail hy.tail)
      · intro a ha b hb e
        have h1 : h (k1 a) % n = off := by simpa using hx 0 l (by simp) a ha
        obtain ⟨j, h2⟩ := hy.tail.mem_flatten b hb
        rw [e] at h1; omega
      · intro a ha b hb e
        have h1 : h (k2 b) % n = off := by simpa using hy 0 r (by simp) b hb
        obtain ⟨j, h2⟩ := hx.tail.mem_flatten a ha
        rw [e] at h2; omega

theorem stRel_init (h : V → Nat) : StRel h ({} : St D) ({} : St (List V)) := ⟨All2.nil, All2.nil⟩

/-- the simulation: on jobs of the fragment the parallel and the sequential run stay related -/
theorem run_rel (cfg : Cfg) (o : Orc) (job : Job) (hj : orderInsensitive job = true) :
    StRel o.hash (parRun cfg o job) (seqRun job) := by
  unfold parRun seqRun
  apply foldl_stepWith_rel job _ (stRel_init o.hash)
  intro n hn
  exact semRel_frag cfg o n (by simpa [orderInsensitive] using (List.all_eq_true.mp hj) n hn)

theorem all2_sinks {s1 : List (Nat × D)} {s2 : List (Nat × List V)} (h : All2 SinkRel s1 s2) :
    All2 (fun p q => p.1 = q.1 ∧ p.2.Perm q.2) (s1.map fun p => (p.1, p.2.flatten)) s2 := by
  induction h with
  | nil => exact All2.nil
  | cons hr _ ih => exact All2.cons ⟨hr.1, hr.2⟩ ih

theorem all2_perm_trans {s1 s2 s3 : List (Nat × List V)}
    (h12 : All2 (fun p q => p.1 = q.1 ∧ p.2.Perm q.2) s1 s2)
    (h32 : All2 (fun p q => p.1 = q.1 ∧ p.2.Perm q.2) s3 s2) :
    All2 (fun p q => p.1 = q.1 ∧ p.2.Perm q.2) s1 s3 := by
  induction h12 generalizing s3 with
  | nil => cases h32; exact All2.nil
  | cons hr _ ih =>
    cases h32 with
    | cons hr' ht => exact All2.cons ⟨hr.1.trans hr'.1.symm, hr.2.trans hr'.2.symm⟩ (ih ht)

end Noir.Pipe
