/-
  Lemmas/LoopCycle.lean — invariants of the `iterate` channel-cycle model (Model/LoopCycle.lean):
  the flow invariant (everything in flight + `feedback_content` is the image of the round's
  content), the leader accounting, the hole invariant behind progress, and the termination measure.
  The property theorems are in Props/C04Loop.lean.
-/
import NoirVerif.Model.LoopCycle
import NoirVerif.Model.LoopCycleMulti
namespace Noir.LoopCycle

/-! ## lists -/

def countFar : List Msg → Nat
  | [] => 0
  | .far :: l => countFar l + 1
  | .item _ :: l => countFar l

theorem countFar_append (a b : List Msg) : countFar (a ++ b) = countFar a + countFar b := by
  induction a with
  | nil => simp [countFar]
  | cons m a ih => cases m <;> simp [countFar, ih] <;> omega

theorem countFar_lift (l : List Nat) : countFar (lift l) = 0 := by
  induction l with
  | nil => rfl
  | cons a l ih => simpa [lift, countFar] using ih

theorem items_lift_far (l : List Nat) : items (lift l ++ [Msg.far]) = l := by
  induction l with
  | nil => rfl
  | cons a l ih => simp only [lift, List.map_cons, List.cons_append, items] at ih ⊢; rw [ih]

theorem lift_append (a b : List Nat) : lift (a ++ b) = lift a ++ lift b := by simp [lift]

theorem flatMap_proc_lift (g : Nat → List Nat) (l : List Nat) :
    (lift l).flatMap (proc g) = lift (l.flatMap g) := by
  induction l with
  | nil => rfl
  | cons a l ih =>
    simp only [lift, List.map_cons, List.flatMap_cons, List.map_append] at ih ⊢
    rw [ih]; rfl

theorem flatMap_proc_round (g : Nat → List Nat) (l : List Nat) :
    (lift l ++ [Msg.far]).flatMap (proc g) = lift (l.flatMap g) ++ [Msg.far] := by
  rw [List.flatMap_append, flatMap_proc_lift]; rfl

/-- the list is empty or ends with the round marker -/
def EndsFar (l : List Msg) : Prop := l = [] ∨ ∃ p, l = p ++ [Msg.far]

theorem EndsFar.nil : EndsFar [] := .inl rfl

theorem EndsFar.round (l : List Nat) : EndsFar (lift l ++ [Msg.far]) := .inr ⟨_, rfl⟩

theorem EndsFar.of_append {a b : List Msg} (h : EndsFar (a ++ b)) : EndsFar b := by
  rcases h with h | ⟨p, h⟩
  · left; exact (List.append_eq_nil_iff.mp h).2
  · rcases List.eq_nil_or_concat b with hb | ⟨b', x, hb⟩
    · left; exact hb
    · right
      subst hb
      rw [List.concat_eq_append, ← List.append_assoc] at h
      have := List.append_inj' h rfl
      have hx : x = Msg.far := by simpa using this.2
      exact ⟨b', by rw [List.concat_eq_append, hx]⟩

theorem EndsFar.tail {m : Msg} {l : List Msg} (h : EndsFar (m :: l)) : EndsFar l :=
  EndsFar.of_append (a := [m]) h

/-- a non-empty list that ends with the marker contains it -/
theorem EndsFar.count_pos {l : List Msg} (h : EndsFar l) (hne : l ≠ []) : 0 < countFar l := by
  rcases h with h | ⟨p, h⟩
  · exact absurd h hne
  · rw [h, countFar_append]; simp [countFar]

theorem EndsFar.flatMap_ne_nil {l : List Msg} (h : EndsFar l) (hne : l ≠ []) (g : Nat → List Nat) :
    l.flatMap (proc g) ≠ [] := by
  rcases h with h | ⟨p, h⟩
  · exact absurd h hne
  · rw [h, List.flatMap_append]; simp [proc]

theorem fbFinished_iff {l : List Msg} : fbFinished l = true ↔ ∃ p, l = p ++ [Msg.far] := by
  simp only [fbFinished, beq_iff_eq]
  exact List.getLast?_eq_some_iff

theorem fbFinished_round (l : List Nat) : fbFinished (lift l ++ [Msg.far]) = true :=
  fbFinished_iff.mpr ⟨_, rfl⟩

theorem proc_length_le {g : Nat → List Nat} {n : Nat} (hn : 1 ≤ n) (h : ∀ a, (g a).length ≤ n)
    (m : Msg) : (proc g m).length ≤ n := by
  cases m with
  | item a => simpa [proc, lift] using h a
  | far => simpa [proc] using hn

/-! ## sums over the levels -/

def sumTo : Nat → (Nat → Nat) → Nat
  | 0, _ => 0
  | n + 1, g => sumTo n g + g n

theorem sumTo_congr {n : Nat} {g h : Nat → Nat} (e : ∀ i, i < n → g i = h i) :
    sumTo n g = sumTo n h := by
  induction n with
  | zero => rfl
  | succ n ih =>
    simp only [sumTo]
    rw [ih (fun i hi => e i (by omega)), e n (by omega)]

/-- the two functions differ at index `j` only -/
theorem sumTo_update {n j : Nat} {g h : Nat → Nat} (hj : j < n) (e : ∀ i, i ≠ j → h i = g i) :
    sumTo n h + g j = sumTo n g + h j := by
  induction n with
  | zero => omega
  | succ n ih =>
    simp only [sumTo]
    by_cases hjn : j = n
    · subst hjn
      rw [sumTo_congr (g := h) (h := g) (fun i hi => e i (by omega))]
      omega
    · have := ih (by omega)
      rw [e n (fun h => hjn h.symm)]
      omega

theorem sumTo_zero {n : Nat} {g : Nat → Nat} (e : ∀ i, i < n → g i = 0) : sumTo n g = 0 := by
  induction n with
  | zero => rfl
  | succ n ih => simp only [sumTo]; rw [ih (fun i hi => e i (by omega)), e n (by omega)]

theorem sumTo_pos {n : Nat} {g : Nat → Nat} (h : 0 < sumTo n g) : ∃ i, i < n ∧ 0 < g i := by
  induction n with
  | zero => simp [sumTo] at h
  | succ n ih =>
    simp only [sumTo] at h
    by_cases hn : 0 < g n
    · exact ⟨n, by omega, hn⟩
    · obtain ⟨i, hi, hg⟩ := ih (by omega)
      exact ⟨i, by omega, hg⟩

/-! ## what is upstream of (and in) channel `i`, as it will appear in channel `i` -/

def up (c : Cfg) (s : State) : Nat → List Msg
  | 0 => s.chan 0 ++ s.pend 0 ++ s.toEmit.flatMap (proc (c.f 0))
  | i + 1 => s.chan (i + 1) ++ s.pend (i + 1) ++ (up c s i).flatMap (proc (c.f (i + 1)))

/-- `up i` only depends on `toEmit` and on the channels / pending lists of the levels `≤ i` -/
theorem up_congr {c : Cfg} {s t : State} (he : t.toEmit = s.toEmit) {i : Nat}
    (h : ∀ j, j ≤ i → t.chan j = s.chan j ∧ t.pend j = s.pend j) : up c t i = up c s i := by
  induction i with
  | zero => simp only [up]; rw [(h 0 (Nat.le_refl _)).1, (h 0 (Nat.le_refl _)).2, he]
  | succ i ih =>
    simp only [up]
    rw [(h (i + 1) (Nat.le_refl _)).1, (h (i + 1) (Nat.le_refl _)).2,
      ih (fun j hj => h j (by omega))]

/-- if `up j` is the same and the levels above `j` are untouched, `up i` is the same for `i ≥ j` -/
theorem up_above {c : Cfg} {s t : State} {j : Nat} (hj : up c t j = up c s j) {i : Nat} (hji : j ≤ i)
    (h : ∀ l, j < l → l ≤ i → t.chan l = s.chan l ∧ t.pend l = s.pend l) : up c t i = up c s i := by
  induction i with
  | zero =>
    have : j = 0 := by omega
    subst this; exact hj
  | succ i ih =>
    by_cases hji' : j = i + 1
    · subst hji'; exact hj
    · simp only [up]
      rw [(h (i + 1) (by omega) (Nat.le_refl _)).1, (h (i + 1) (by omega) (Nat.le_refl _)).2,
        ih (by omega) (fun l h1 h2 => h l h1 (by omega))]

theorem set_eq (g : Nat → List Msg) (i : Nat) (v : List Msg) : set g i v i = v := by simp [set]

theorem set_ne (g : Nat → List Msg) {i j : Nat} (v : List Msg) (h : j ≠ i) : set g i v j = g j := by
  simp [set, h]

/-- a send does not change any `up` -/
theorem up_sendOp {c : Cfg} {s : State} {i : Nat} {m : Msg} {rest : List Msg}
    (hp : s.pend i = m :: rest) (l : Nat) : up c (sendOp s i m rest) l = up c s l := by
  by_cases hl : l < i
  · apply up_congr (i := l) (by rfl)
    intro j hj
    have hne : j ≠ i := by omega
    simp [sendOp, set, hne]
  · apply up_above (j := i) _ (by omega)
    · intro l' h1 _
      have hne : l' ≠ i := by omega
      simp [sendOp, set, hne]
    · cases i with
      | zero =>
        simp only [up, sendOp, set_eq, hp]
        simp
      | succ i =>
        have hlow : up c (sendOp s (i + 1) m rest) i = up c s i := by
          apply up_congr (i := i) (by rfl)
          intro j hj
          have hne : j ≠ i + 1 := by omega
          simp [sendOp, set, hne]
        simp only [up, hlow]
        simp only [sendOp, set_eq, hp]
        simp

/-- a receive at level `i+1` removes the head of `up i` and changes no `up` above -/
theorem up_recvOp_low {c : Cfg} {s : State} {i : Nat} {m : Msg} {ms : List Msg}
    (hc : s.chan i = m :: ms) : m :: up c (recvOp c s i m ms) i = up c s i := by
  cases i with
  | zero =>
    simp only [up, recvOp, set_eq, hc]
    rw [set_ne _ _ (by omega)]
    simp
  | succ i =>
    have hlow : up c (recvOp c s (i + 1) m ms) i = up c s i := by
      apply up_congr (i := i) (by rfl)
      intro j hj
      have h1 : j ≠ i + 1 := by omega
      have h2 : j ≠ i + 1 + 1 := by omega
      simp [recvOp, set, h1, h2]
    simp only [up, hlow]
    simp only [recvOp, set_eq, hc]
    rw [set_ne _ _ (by omega)]
    simp

theorem up_recvOp_lt {c : Cfg} {s : State} {i : Nat} {m : Msg} {ms : List Msg} {l : Nat}
    (hl : l < i) : up c (recvOp c s i m ms) l = up c s l := by
    apply up_congr (i := l) (by rfl)
    intro j hj
    have h1 : j ≠ i := by omega
    have h2 : j ≠ i + 1 := by omega
    simp [recvOp, set, h1, h2]

theorem up_recvOp_ge {c : Cfg} {s : State} {i : Nat} {m : Msg} {ms : List Msg}
    (hc : s.chan i = m :: ms) (hp : s.pend (i + 1) = []) {l : Nat} (hl : i + 1 ≤ l) :
    up c (recvOp c s i m ms) l = up c s l := by
  apply up_above (j := i + 1) _ hl
  · intro l' h1 _
    have h3 : l' ≠ i := by omega
    have h4 : l' ≠ i + 1 := by omega
    simp [recvOp, set, h3, h4]
  · have h := up_recvOp_low (c := c) hc
    simp only [up]
    rw [← h]
    simp only [recvOp, set_eq, hp]
    rw [set_ne _ _ (by omega)]
    simp

/-- the pick does not change any `up` -/
theorem up_pickOp {c : Cfg} {s : State} {x : Msg} {r : List Msg} (he : s.toEmit = x :: r)
    (hp : s.pend 0 = []) (l : Nat) : up c (pickOp c s x r) l = up c s l := by
  apply up_above (j := 0) _ (Nat.zero_le _)
  · intro l' h1 _
    have h3 : l' ≠ 0 := by omega
    simp [pickOp, set, h3]
  · simp only [up, pickOp, set_eq, he, hp]
    simp

theorem up_drainOp_lt {c : Cfg} {s : State} {l : Nat} (hl : l < c.k) :
    up c (drainOp c s) l = up c s l := by
    apply up_congr (i := l) (by rfl)
    intro j hj
    have h3 : j ≠ c.k := by omega
    simp [drainOp, set, h3]

theorem up_drainOp_k {c : Cfg} {s : State} (hk : 0 < c.k) :
    s.chan c.k ++ up c (drainOp c s) c.k = up c s c.k := by
  obtain ⟨k', hk'⟩ : ∃ k', c.k = k' + 1 := ⟨c.k - 1, by omega⟩
  have hlow : up c (drainOp c s) k' = up c s k' := up_drainOp_lt (by omega)
  rw [hk']
  simp only [up, hlow]
  simp only [drainOp, hk', set_eq]
  simp


/-! ## the invariant -/

/-- `feedback_content` ++ everything in flight in round `r`: the image of the round's content -/
def target (c : Cfg) (r : Nat) : List Msg := lift (content c (r + 1)) ++ [Msg.far]

/-- the state channel holds an answer -/
def dec (s : State) : Nat := if s.decision.isSome then 1 else 0

def doneBit (s : State) : Nat := if s.phase = .done then 1 else 0

structure Inv (c : Cfg) (s : State) : Prop where
  roundLt : s.round < c.rounds
  contents_eq : s.contents = (List.range (s.round + 1)).map (content c)
  fed_eq : s.fed = (List.range (s.round + doneBit s)).map (fun r => content c (r + 1))
  /-- conservation: nothing is lost, duplicated or reordered on the cycle -/
  flow : s.phase = .run → s.fb ++ up c s c.k = target c s.round
  /-- the marker is the last thing of the round at every level -/
  ends : s.phase = .run → ∀ i, i ≤ c.k → EndsFar (up c s i)
  /-- between the rounds the cycle is empty -/
  quiet : s.phase ≠ .run → s.toEmit = [] ∧ ∀ i, i ≤ c.k → s.chan i = [] ∧ s.pend i = []
  waitFb : s.phase = .waitLeader → s.fb = target c s.round
  doneOut : s.phase = .done → s.output = some (content c c.rounds) ∧ s.round + 1 = c.rounds ∧
    s.leaderPending = 0 ∧ s.decision = none ∧ s.fb = []
  /-- the leader gets exactly one marker per round -/
  acc : s.phase ≠ .done → countFar (s.chan c.k) + countFar s.fb = s.leaderPending + dec s
  idxNone : s.decision = none → s.leaderIdx = s.round + doneBit s
  idxSome : ∀ d, s.decision = some d → s.leaderIdx = s.round + 1 ∧ d = decide (s.round + 1 < c.rounds)

theorem countFar_target (c : Cfg) (r : Nat) : countFar (target c r) = 1 := by
  simp [target, countFar_append, countFar_lift, countFar]

/-- at the start of a round every `up i` is the image of the content under the levels `0 … i` -/
theorem up_fresh {c : Cfg} {s : State} {l : List Nat} (he : s.toEmit = lift l ++ [Msg.far]) (i : Nat)
    (h : ∀ j, j ≤ i → s.chan j = [] ∧ s.pend j = []) :
    up c s i = lift (bodyUpTo c i l) ++ [Msg.far] := by
  induction i with
  | zero =>
    simp only [up, (h 0 (Nat.le_refl _)).1, (h 0 (Nat.le_refl _)).2, he, bodyUpTo]
    simpa using flatMap_proc_round (c.f 0) l
  | succ i ih =>
    simp only [up, (h (i + 1) (Nat.le_refl _)).1, (h (i + 1) (Nat.le_refl _)).2, bodyUpTo,
      ih (fun j hj => h j (by omega))]
    simpa using flatMap_proc_round (c.f (i + 1)) (bodyUpTo c i l)

theorem inv_init {c : Cfg} (wf : c.WF) : Inv c (init c) where
  roundLt := wf.rounds_pos
  contents_eq := by simp [init, content]
  fed_eq := by simp [init, doneBit]
  flow := by
    intro _
    have := up_fresh (c := c) (s := init c) (l := c.input) rfl c.k (fun j _ => ⟨rfl, rfl⟩)
    simp only [init, List.nil_append] at this ⊢
    rw [this]; rfl
  ends := by
    intro _ i _
    rw [up_fresh (c := c) (s := init c) (l := c.input) rfl i (fun j _ => ⟨rfl, rfl⟩)]
    exact EndsFar.round _
  quiet := by intro h; exact absurd rfl h
  waitFb := by intro h; cases h
  doneOut := by intro h; cases h
  acc := by intro _; simp [init, countFar, dec]
  idxNone := by intro _; simp [init, doneBit]
  idxSome := by intro d h; cases h

/-- a step inside a round that keeps the flow -/
theorem inv_run_op {c : Cfg} {s t : State} (h : Inv c s) (hrun : s.phase = .run)
    (hphase : t.phase = .run) (hround : t.round = s.round) (hcont : t.contents = s.contents)
    (hfed : t.fed = s.fed) (hdec : t.decision = s.decision) (hidx : t.leaderIdx = s.leaderIdx)
    (hflow : t.fb ++ up c t c.k = s.fb ++ up c s c.k)
    (hends : ∀ i, i ≤ c.k → EndsFar (up c t i))
    (hacc : countFar (t.chan c.k) + countFar t.fb + s.leaderPending
      = countFar (s.chan c.k) + countFar s.fb + t.leaderPending) : Inv c t where
  roundLt := by rw [hround]; exact h.roundLt
  contents_eq := by rw [hcont, hround]; exact h.contents_eq
  fed_eq := by
    have : doneBit t = doneBit s := by simp [doneBit, hphase, hrun]
    rw [hfed, hround, this]; exact h.fed_eq
  flow := by intro _; rw [hflow, hround]; exact h.flow hrun
  ends := fun _ => hends
  quiet := by intro hne; exact absurd hphase hne
  waitFb := by intro hw; rw [hphase] at hw; cases hw
  doneOut := by intro hw; rw [hphase] at hw; cases hw
  acc := by
    intro _
    have := h.acc (by rw [hrun]; intro hh; cases hh)
    have hd : dec t = dec s := by simp [dec, hdec]
    rw [hd]; omega
  idxNone := by
    intro hn
    have : doneBit t = doneBit s := by simp [doneBit, hphase, hrun]
    rw [hidx, hround, this]; exact h.idxNone (by rw [← hdec]; exact hn)
  idxSome := by
    intro d hd
    rw [hidx, hround]; exact h.idxSome d (by rw [← hdec]; exact hd)

theorem inv_sendOp {c : Cfg} {s : State} (h : Inv c s) (hrun : s.phase = .run) {i : Nat} {m : Msg}
    {rest : List Msg} (hp : s.pend i = m :: rest) (hi : i < c.k) : Inv c (sendOp s i m rest) := by
  refine inv_run_op h hrun hrun rfl rfl rfl rfl rfl ?_ ?_ ?_
  · show s.fb ++ up c (sendOp s i m rest) c.k = _
    rw [up_sendOp hp]
  · intro l hl; rw [up_sendOp hp]; exact h.ends hrun l hl
  · have : (sendOp s i m rest).chan c.k = s.chan c.k := by
      have hne : c.k ≠ i := by omega
      simp [sendOp, set, hne]
    rw [this]; rfl

theorem up_leaderPending {c : Cfg} (s : State) (n : Nat) (l : Nat) :
    up c { s with leaderPending := n } l = up c s l :=
  up_congr (by rfl) (fun _ _ => ⟨rfl, rfl⟩)

/-- the feedback block sends `m` into the feedback channel (and the marker to the state block) -/
theorem inv_sendOp_k {c : Cfg} {s : State} (h : Inv c s) (hrun : s.phase = .run) {m : Msg}
    {rest : List Msg} (hp : s.pend c.k = m :: rest) :
    Inv c (if m = Msg.far then { sendOp s c.k m rest with leaderPending := s.leaderPending + 1 }
           else sendOp s c.k m rest) := by
  have hchan : (sendOp s c.k m rest).chan c.k = s.chan c.k ++ [m] := by simp [sendOp, set]
  by_cases hm : m = Msg.far
  · rw [if_pos hm]
    refine inv_run_op h hrun hrun rfl rfl rfl rfl rfl ?_ ?_ ?_
    · show s.fb ++ up c { sendOp s c.k m rest with leaderPending := s.leaderPending + 1 } c.k = _
      rw [up_leaderPending, up_sendOp hp]
    · intro l hl
      show EndsFar (up c { sendOp s c.k m rest with leaderPending := s.leaderPending + 1 } l)
      rw [up_leaderPending, up_sendOp hp]; exact h.ends hrun l hl
    · show countFar ((sendOp s c.k m rest).chan c.k) + countFar s.fb + s.leaderPending
        = countFar (s.chan c.k) + countFar s.fb + (s.leaderPending + 1)
      rw [hchan, countFar_append, hm]; simp [countFar]; omega
  · rw [if_neg hm]
    refine inv_run_op h hrun hrun rfl rfl rfl rfl rfl ?_ ?_ ?_
    · show s.fb ++ up c (sendOp s c.k m rest) c.k = _
      rw [up_sendOp hp]
    · intro l hl; rw [up_sendOp hp]; exact h.ends hrun l hl
    · rw [hchan, countFar_append]
      cases m with
      | far => exact absurd rfl hm
      | item a => simp [countFar]; rfl

theorem inv_recvOp {c : Cfg} {s : State} (h : Inv c s) (hrun : s.phase = .run) {i : Nat} {m : Msg}
    {ms : List Msg} (hc : s.chan i = m :: ms) (hp : s.pend (i + 1) = []) (hi : i + 1 ≤ c.k) :
    Inv c (recvOp c s i m ms) := by
  refine inv_run_op h hrun hrun rfl rfl rfl rfl rfl ?_ ?_ ?_
  · show s.fb ++ up c (recvOp c s i m ms) c.k = _
    rw [up_recvOp_ge hc hp hi]
  · intro l hl
    by_cases h1 : l < i
    · rw [up_recvOp_lt h1]; exact h.ends hrun l hl
    · by_cases h2 : l = i
      · subst h2
        have := h.ends hrun l hl
        rw [← up_recvOp_low (c := c) hc] at this
        exact this.tail
      · rw [up_recvOp_ge hc hp (by omega)]; exact h.ends hrun l hl
  · have : (recvOp c s i m ms).chan c.k = s.chan c.k := by
      have hne : c.k ≠ i := by omega
      simp [recvOp, set, hne]
    rw [this]; rfl

theorem inv_pickOp {c : Cfg} {s : State} (h : Inv c s) (hrun : s.phase = .run) {x : Msg}
    {r : List Msg} (he : s.toEmit = x :: r) (hp : s.pend 0 = []) : Inv c (pickOp c s x r) := by
  refine inv_run_op h hrun hrun rfl rfl rfl rfl rfl ?_ ?_ ?_
  · show s.fb ++ up c (pickOp c s x r) c.k = _
    rw [up_pickOp he hp]
  · intro l hl; rw [up_pickOp he hp]; exact h.ends hrun l hl
  · rfl

theorem inv_drainOp {c : Cfg} (wf : c.WF) {s : State} (h : Inv c s) (hrun : s.phase = .run) :
    Inv c (drainOp c s) := by
  refine inv_run_op h hrun hrun rfl rfl rfl rfl rfl ?_ ?_ ?_
  · show (s.fb ++ s.chan c.k) ++ up c (drainOp c s) c.k = _
    rw [List.append_assoc, up_drainOp_k wf.k_pos]
  · intro l hl
    by_cases h1 : l < c.k
    · rw [up_drainOp_lt h1]; exact h.ends hrun l hl
    · have : l = c.k := by omega
      subst this
      have := h.ends hrun c.k hl
      rw [← up_drainOp_k (c := c) (s := s) wf.k_pos] at this
      exact this.of_append
  · show countFar ((drainOp c s).chan c.k) + countFar (s.fb ++ s.chan c.k) + _ = _
    have : (drainOp c s).chan c.k = [] := by simp [drainOp, set]
    rw [this, countFar_append]
    show countFar [] + _ + s.leaderPending = _ + s.leaderPending
    simp [countFar]; omega


/-! ## the end of a round -/

theorem chan_le_up (c : Cfg) (s : State) (i : Nat) : countFar (s.chan i) ≤ countFar (up c s i) := by
  cases i <;> simp only [up, countFar_append] <;> omega

theorem up_nil_parts {c : Cfg} {s : State} {i : Nat} (h : up c s i = []) :
    s.chan i = [] ∧ s.pend i = [] := by
  cases i <;> simp only [up, List.append_eq_nil_iff] at h <;> exact ⟨h.1.1, h.1.2⟩

theorem up_nil_down {c : Cfg} {s : State} {i : Nat} (he : ∀ j, j ≤ i → EndsFar (up c s j))
    (h : up c s i = []) : ∀ j, j ≤ i → up c s j = [] := by
  induction i with
  | zero => intro j hj; have : j = 0 := by omega
            subst this; exact h
  | succ i ih =>
    intro j hj
    by_cases hji : j = i + 1
    · subst hji; exact h
    · have hi : up c s i = [] := by
        apply Classical.byContradiction
        intro hne
        have := (he i (by omega)).flatMap_ne_nil hne (c.f (i + 1))
        simp only [up, List.append_eq_nil_iff] at h
        exact this h.2
      exact ih (fun j hj => he j (by omega)) hi j (by omega)

/-- when the feedback of the round is complete, nothing is left on the cycle -/
theorem round_complete {c : Cfg} {s : State} (h : Inv c s) (hrun : s.phase = .run)
    (hf : fbFinished s.fb = true) :
    s.fb = target c s.round ∧ ∀ i, i ≤ c.k → s.chan i = [] ∧ s.pend i = [] := by
  have hflow := h.flow hrun
  have hcnt : countFar s.fb + countFar (up c s c.k) = 1 := by
    rw [← countFar_append, hflow, countFar_target]
  obtain ⟨p, hp⟩ := fbFinished_iff.mp hf
  have hfb : 0 < countFar s.fb := by rw [hp, countFar_append]; simp [countFar]
  have hup : up c s c.k = [] := by
    apply Classical.byContradiction
    intro hne
    have := (h.ends hrun c.k (Nat.le_refl _)).count_pos hne
    omega
  refine ⟨by rw [← hflow, hup, List.append_nil], fun i hi => ?_⟩
  exact up_nil_parts (up_nil_down (fun j hj => h.ends hrun j hj) hup i hi)

theorem inv_finish {c : Cfg} {s : State} (h : Inv c s) (hrun : s.phase = .run)
    (he : s.toEmit = []) (hf : fbFinished s.fb = true) : Inv c { s with phase := .waitLeader } := by
  obtain ⟨hfb, hq⟩ := round_complete h hrun hf
  exact {
    roundLt := h.roundLt
    contents_eq := h.contents_eq
    fed_eq := by
      have : doneBit { s with phase := Phase.waitLeader } = doneBit s := by simp [doneBit, hrun]
      rw [this]; exact h.fed_eq
    flow := by intro hh; cases hh
    ends := by intro hh; cases hh
    quiet := fun _ => ⟨he, hq⟩
    waitFb := fun _ => hfb
    doneOut := by intro hh; cases hh
    acc := by
      intro _
      exact h.acc (by rw [hrun]; intro hh; cases hh)
    idxNone := by
      intro hn
      have : doneBit { s with phase := Phase.waitLeader } = doneBit s := by simp [doneBit, hrun]
      rw [this]; exact h.idxNone hn
    idxSome := h.idxSome }

theorem wait_pending {c : Cfg} {s : State} (h : Inv c s) (hw : s.phase = .waitLeader) :
    s.leaderPending + dec s = 1 := by
  have hq := (h.quiet (by rw [hw]; intro hh; cases hh)).2 c.k (Nat.le_refl _)
  have := h.acc (by rw [hw]; intro hh; cases hh)
  rw [hq.1, h.waitFb hw, countFar_target] at this
  simp only [countFar] at this; omega

theorem inv_continue {c : Cfg} {s : State} (h : Inv c s) (hw : s.phase = .waitLeader)
    (hd : s.decision = some true) :
    Inv c { s with phase := .run, round := s.round + 1, toEmit := s.fb, fb := [], decision := none,
                   contents := s.contents ++ [items s.fb], fed := s.fed ++ [items s.fb] } := by
  have hne : s.phase ≠ .run := by rw [hw]; intro hh; cases hh
  obtain ⟨hidx, hlt⟩ := h.idxSome true hd
  have hlt : s.round + 1 < c.rounds := by simpa using hlt.symm
  have hfb := h.waitFb hw
  have hitems : items s.fb = content c (s.round + 1) := by rw [hfb, target, items_lift_far]
  have hq := (h.quiet hne).2
  have hpend : s.leaderPending = 0 := by
    have := wait_pending h hw
    simp only [dec, hd, Option.isSome_some, if_true] at this; omega
  have hup : ∀ i, i ≤ c.k →
      up c { s with phase := Phase.run, round := s.round + 1, toEmit := s.fb, fb := [], decision := none,
                    contents := s.contents ++ [items s.fb], fed := s.fed ++ [items s.fb] } i
        = lift (bodyUpTo c i (content c (s.round + 1))) ++ [Msg.far] := by
    intro i hi
    exact up_fresh (by show s.fb = _; rw [hfb]; rfl) i (fun j hj => hq j (by omega))
  exact {
    roundLt := hlt
    contents_eq := by
      show s.contents ++ [items s.fb] = _
      rw [List.range_succ, List.map_append, ← h.contents_eq, hitems]; rfl
    fed_eq := by
      show s.fed ++ [items s.fb] = (List.range (s.round + 1 + 0)).map _
      have := h.fed_eq
      simp only [doneBit, hw] at this
      rw [Nat.add_zero, List.range_succ, List.map_append, hitems, this]; rfl
    flow := by
      intro _
      show [] ++ _ = target c (s.round + 1)
      rw [hup c.k (Nat.le_refl _)]; rfl
    ends := by
      intro _ i hi
      rw [hup i hi]; exact EndsFar.round _
    quiet := by intro hh; exact absurd rfl hh
    waitFb := by intro hh; cases hh
    doneOut := by intro hh; cases hh
    acc := by
      intro _
      show countFar (s.chan c.k) + countFar [] = s.leaderPending + 0
      rw [(hq c.k (Nat.le_refl _)).1, hpend]; rfl
    idxNone := by
      intro _
      show s.leaderIdx = s.round + 1 + 0
      omega
    idxSome := by intro d hh; cases hh }

theorem inv_stop {c : Cfg} {s : State} (h : Inv c s) (hw : s.phase = .waitLeader)
    (hd : s.decision = some false) :
    Inv c { s with phase := .done, fb := [], decision := none, output := some (items s.fb),
                   fed := s.fed ++ [items s.fb] } := by
  have hne : s.phase ≠ .run := by rw [hw]; intro hh; cases hh
  obtain ⟨hidx, hlt⟩ := h.idxSome false hd
  have hlt : ¬ s.round + 1 < c.rounds := by simpa using hlt.symm
  have hfb := h.waitFb hw
  have hitems : items s.fb = content c (s.round + 1) := by rw [hfb, target, items_lift_far]
  have hpend : s.leaderPending = 0 := by
    have := wait_pending h hw
    simp only [dec, hd, Option.isSome_some, if_true] at this; omega
  have hr := h.roundLt
  exact {
    roundLt := h.roundLt
    contents_eq := h.contents_eq
    fed_eq := by
      show s.fed ++ [items s.fb] = (List.range (s.round + 1)).map _
      have := h.fed_eq
      simp only [doneBit, hw] at this
      rw [List.range_succ, List.map_append, hitems, this]; rfl
    flow := by intro hh; cases hh
    ends := by intro hh; cases hh
    quiet := fun _ => h.quiet hne
    waitFb := by intro hh; cases hh
    doneOut := by
      intro _
      refine ⟨?_, (by show s.round + 1 = c.rounds; omega), hpend, rfl, rfl⟩
      show some (items s.fb) = _
      rw [hitems]
      have : s.round + 1 = c.rounds := by omega
      rw [this]
    acc := by intro hh; exact absurd rfl hh
    idxNone := by
      intro _
      show s.leaderIdx = s.round + 1
      omega
    idxSome := by intro d hh; cases hh }

theorem up_leaderFields {c : Cfg} (s : State) (n i : Nat) (d : Option Bool) (l : Nat) :
    up c { s with leaderPending := n, leaderIdx := i, decision := d } l = up c s l :=
  up_congr (by rfl) (fun _ _ => ⟨rfl, rfl⟩)

theorem inv_leader {c : Cfg} {s : State} (h : Inv c s) (hp : 0 < s.leaderPending) :
    Inv c { s with leaderPending := s.leaderPending - 1, leaderIdx := s.leaderIdx + 1,
                   decision := some (decide (s.leaderIdx + 1 < c.rounds)) } := by
  have hnd : s.phase ≠ .done := by
    intro hd; have := (h.doneOut hd).2.2.1; omega
  have hcnt : countFar (s.chan c.k) + countFar s.fb ≤ 1 := by
    cases hph : s.phase with
    | done => exact absurd hph hnd
    | run =>
      have := h.flow hph
      have h1 : countFar s.fb + countFar (up c s c.k) = 1 := by
        rw [← countFar_append, this, countFar_target]
      have := chan_le_up c s c.k
      omega
    | waitLeader =>
      have := wait_pending h hph
      have := h.acc hnd
      omega
  have hacc := h.acc hnd
  have hdec : s.decision = none := by
    cases hd : s.decision with
    | none => rfl
    | some d => simp only [dec, hd, Option.isSome_some, if_true] at hacc; omega
  have hidx := h.idxNone hdec
  have hdb : doneBit s = 0 := by simp [doneBit, hnd]
  exact {
    roundLt := h.roundLt
    contents_eq := h.contents_eq
    fed_eq := h.fed_eq
    flow := by
      intro hr
      show s.fb ++ up c { s with leaderPending := _, leaderIdx := _, decision := _ } c.k = _
      rw [up_leaderFields]; exact h.flow hr
    ends := by
      intro hr i hi
      show EndsFar (up c { s with leaderPending := _, leaderIdx := _, decision := _ } i)
      rw [up_leaderFields]; exact h.ends hr i hi
    quiet := h.quiet
    waitFb := h.waitFb
    doneOut := by intro hd; exact absurd hd hnd
    acc := by
      intro _
      show countFar (s.chan c.k) + countFar s.fb = s.leaderPending - 1 + 1
      simp only [dec, hdec] at hacc
      simp at hacc
      omega
    idxNone := by intro hh; cases hh
    idxSome := by
      intro d hh
      have : d = decide (s.leaderIdx + 1 < c.rounds) := by
        have : some (decide (s.leaderIdx + 1 < c.rounds)) = some d := hh
        exact (Option.some.inj this).symm
      rw [hdb] at hidx
      refine ⟨by show s.leaderIdx + 1 = s.round + 1; omega, ?_⟩
      rw [this, hidx] }


/-! ## the invariant is preserved -/

theorem inv_iterNext {c : Cfg} {s : State} (h : Inv c s) (hrun : s.phase = .run)
    (hp : s.pend 0 = []) : Inv c (iterNext c s) := by
  unfold iterNext
  split
  · next x r he => exact inv_pickOp h hrun he hp
  · next he =>
    split
    · next hf => exact inv_finish h hrun he hf
    · exact h

theorem inv_stepIter {c : Cfg} (wf : c.WF) {s : State} (h : Inv c s) : Inv c (stepIter c s) := by
  unfold stepIter
  split
  · exact h
  · next hw =>
    split
    · exact h
    · next hd => exact inv_continue h hw hd
    · next hd => exact inv_stop h hw hd
  · next hrun =>
    split
    · next m rest hp =>
      split
      · exact inv_sendOp h hrun hp wf.k_pos
      · exact h
    · next hp =>
      split
      · exact inv_iterNext (inv_drainOp wf h hrun) hrun hp
      · exact inv_iterNext h hrun hp

theorem inv_stepBody {c : Cfg} {s : State} (h : Inv c s) (i : Nat) : Inv c (stepBody c s i) := by
  unfold stepBody
  split
  · exact h
  · next j =>
    split
    · next hj =>
      by_cases hrun : s.phase = .run
      · split
        · next m rest hp =>
          split
          · by_cases hk : j + 1 = c.k
            · have hp' : s.pend c.k = m :: rest := by rw [← hk]; exact hp
              have := inv_sendOp_k h hrun hp'
              by_cases hm : m = Msg.far
              · rw [if_pos hm] at this
                rw [if_pos ⟨hk, hm⟩]
                simpa [hk] using this
              · rw [if_neg hm] at this
                rw [if_neg (fun hh => hm hh.2)]
                simpa [hk] using this
            · rw [if_neg (fun hh => hk hh.1)]
              exact inv_sendOp h hrun hp (by omega)
          · exact h
        · next hp =>
          split
          · exact h
          · next m ms hc => exact inv_recvOp h hrun hc hp hj
      · -- between the rounds the cycle is empty: nothing to do
        have hq := (h.quiet hrun).2
        have h1 := (hq (j + 1) hj).2
        have h2 := (hq j (by omega)).1
        simp only [h1, h2]
        exact h
    · exact h

theorem inv_stepLeader {c : Cfg} {s : State} (h : Inv c s) : Inv c (stepLeader c s) := by
  unfold stepLeader
  split
  · next hp => exact inv_leader h hp
  · exact h

theorem inv_step {c : Cfg} (wf : c.WF) {s : State} (h : Inv c s) (e : Ev) : Inv c (step c s e) := by
  cases e with
  | iter => exact inv_stepIter wf h
  | body i => exact inv_stepBody h i
  | leader => exact inv_stepLeader h

theorem inv_reachable {c : Cfg} (wf : c.WF) {s : State} (h : Reachable c s) : Inv c s := by
  induction h with
  | init => exact inv_init wf
  | step e _ ih => exact inv_step wf ih e

theorem run_cons (c : Cfg) (s : State) (e : Ev) (l : List Ev) :
    run c s (e :: l) = run c (step c s e) l := rfl

theorem run_append (c : Cfg) (s : State) (a b : List Ev) :
    run c s (a ++ b) = run c (run c s a) b := by simp [run, List.foldl_append]

theorem inv_run {c : Cfg} (wf : c.WF) {s : State} (h : Inv c s) (l : List Ev) : Inv c (run c s l) := by
  induction l generalizing s with
  | nil => exact h
  | cons e l ih => rw [run_cons]; exact ih (inv_step wf h e)

theorem reachable_run {c : Cfg} {s : State} (h : Reachable c s) (l : List Ev) :
    Reachable c (run c s l) := by
  induction l generalizing s with
  | nil => exact h
  | cons e l ih => rw [run_cons]; exact ih (.step e h)


/-! ## the hole invariant (progress) -/

theorem sumTo_ge_term {n j : Nat} (g : Nat → Nat) (hj : j < n) : g j ≤ sumTo n g := by
  induction n with
  | zero => omega
  | succ n ih =>
    simp only [sumTo]
    by_cases h : j = n
    · subst h; omega
    · have := ih (by omega); omega

theorem sumTo_set (g : Nat → List Msg) (φ : List Msg → Nat) {n j : Nat} (hj : j < n) (v : List Msg) :
    sumTo n (fun i => φ (set g j v i)) + φ (g j) = sumTo n (fun i => φ (g i)) + φ v := by
  have := sumTo_update (n := n) (j := j) (g := fun i => φ (g i)) (h := fun i => φ (set g j v i)) hj
    (fun i hi => by simp [set, hi])
  simpa [set] using this

theorem sumTo_set_ge (g : Nat → List Msg) (φ : List Msg → Nat) {n j : Nat} (hj : n ≤ j) (v : List Msg) :
    sumTo n (fun i => φ (set g j v i)) = sumTo n (fun i => φ (g i)) :=
  sumTo_congr (fun i hi => by have : i ≠ j := by omega
                              simp [set, this])

theorem sumTo_set_shift (g : Nat → List Msg) (φ : List Msg → Nat) {n j : Nat} (hj : j < n)
    (v : List Msg) :
    sumTo n (fun i => φ (set g (j + 1) v (i + 1))) + φ (g (j + 1))
      = sumTo n (fun i => φ (g (i + 1))) + φ v := by
  have := sumTo_update (n := n) (j := j) (g := fun i => φ (g (i + 1)))
    (h := fun i => φ (set g (j + 1) v (i + 1))) hj (fun i hi => by simp [set, hi])
  simpa [set] using this

theorem sumTo_set_shift_ne (g : Nat → List Msg) (φ : List Msg → Nat) {n j : Nat}
    (hj : j = 0 ∨ n < j) (v : List Msg) :
    sumTo n (fun i => φ (set g j v (i + 1))) = sumTo n (fun i => φ (g (i + 1))) :=
  sumTo_congr (fun i hi => by have : i + 1 ≠ j := by omega
                              simp [set, this])

/-- the envelope inside which the cycle cannot jam: the operators fused behind `Iterate` turn one
    element into at most `cap` elements, the later blocks into at most one -/
def Cfg.Bounded (c : Cfg) : Prop :=
  (∀ a, (c.f 0 a).length ≤ c.cap) ∧ ∀ i a, 1 ≤ i → (c.f i a).length ≤ 1

theorem Cfg.NonExpanding.bounded {c : Cfg} (wf : c.WF) (h : c.NonExpanding) : c.Bounded :=
  ⟨fun a => Nat.le_trans (h 0 a) wf.cap_pos, fun i a _ => h i a⟩

def chanHoles (c : Cfg) (s : State) : Nat := sumTo (c.k + 1) fun i => c.cap - (s.chan i).length

def pendHoles (c : Cfg) (s : State) : Nat := sumTo c.k fun j => 1 - (s.pend (j + 1)).length

/-- free channel slots plus idle body blocks -/
def holes (c : Cfg) (s : State) : Nat := chanHoles c s + pendHoles c s

structure InvH (c : Cfg) (s : State) : Prop where
  pendLe : ∀ i, 1 ≤ i → (s.pend i).length ≤ 1
  chanLe : ∀ i, (s.chan i).length ≤ c.cap
  /-- whatever the `Iterate` block still has to send fits into the holes of the cycle -/
  hole : s.phase = .run → (s.pend 0).length ≤ holes c s

theorem invH_init (c : Cfg) : InvH c (init c) :=
  ⟨fun _ _ => by simp [init], fun _ => by simp [init], fun _ => by simp [init]⟩

theorem invH_sendOp0 {c : Cfg} {s : State} (h : InvH c s) {m : Msg} {rest : List Msg}
    (hp : s.pend 0 = m :: rest) (hc : (s.chan 0).length < c.cap) : InvH c (sendOp s 0 m rest) where
  pendLe := by
    intro i hi
    have hne : i ≠ 0 := by omega
    simpa [sendOp, set, hne] using h.pendLe i hi
  chanLe := by
    intro i
    by_cases hi : i = 0
    · subst hi; simp [sendOp, set]; omega
    · simpa [sendOp, set, hi] using h.chanLe i
  hole := by
    intro hr
    have h0 := h.hole hr
    have h1 : chanHoles c (sendOp s 0 m rest) + (c.cap - (s.chan 0).length)
        = chanHoles c s + (c.cap - (s.chan 0 ++ [m]).length) :=
      sumTo_set s.chan (fun l => c.cap - l.length) (Nat.succ_pos _) _
    have h2 : pendHoles c (sendOp s 0 m rest) = pendHoles c s :=
      sumTo_set_shift_ne s.pend (fun l => 1 - l.length) (.inl rfl) rest
    have h3 : (sendOp s 0 m rest).pend 0 = rest := by simp [sendOp, set]
    rw [h3]
    simp only [holes, h2] at h0 ⊢
    rw [hp] at h0
    simp only [List.length_append, List.length_cons, List.length_nil] at h0 h1
    omega

theorem invH_sendOp {c : Cfg} {s : State} (h : InvH c s) {j : Nat} {m : Msg} {rest : List Msg}
    (hj : j + 1 ≤ c.k) (hp : s.pend (j + 1) = m :: rest) (hc : (s.chan (j + 1)).length < c.cap) :
    InvH c (sendOp s (j + 1) m rest) where
  pendLe := by
    intro i hi
    by_cases hi' : i = j + 1
    · subst hi'
      have := h.pendLe (j + 1) hi
      rw [hp] at this
      simp only [List.length_cons] at this
      simp only [sendOp, set_eq]; omega
    · simpa [sendOp, set, hi'] using h.pendLe i hi
  chanLe := by
    intro i
    by_cases hi : i = j + 1
    · subst hi; simp [sendOp, set]; omega
    · simpa [sendOp, set, hi] using h.chanLe i
  hole := by
    intro hr
    have h0 := h.hole hr
    have hrest : rest = [] := by
      have := h.pendLe (j + 1) (by omega)
      rw [hp] at this
      cases rest with
      | nil => rfl
      | cons a r => simp at this
    subst hrest
    have h1 : chanHoles c (sendOp s (j + 1) m []) + (c.cap - (s.chan (j + 1)).length)
        = chanHoles c s + (c.cap - (s.chan (j + 1) ++ [m]).length) :=
      sumTo_set s.chan (fun l => c.cap - l.length) (by omega) _
    have h2 : pendHoles c (sendOp s (j + 1) m []) + (1 - (s.pend (j + 1)).length)
        = pendHoles c s + (1 - ([] : List Msg).length) :=
      sumTo_set_shift s.pend (fun l => 1 - l.length) (by omega) _
    have h3 : (sendOp s (j + 1) m []).pend 0 = s.pend 0 := by simp [sendOp, set]
    rw [h3]
    rw [hp] at h2
    simp only [holes] at h0 ⊢
    simp only [List.length_append, List.length_cons, List.length_nil] at h1 h2
    omega

theorem invH_recvOp {c : Cfg} (hb : c.Bounded) {s : State} (h : InvH c s) {j : Nat}
    {m : Msg} {ms : List Msg} (hj : j + 1 ≤ c.k) (hc : s.chan j = m :: ms)
    (hp : s.pend (j + 1) = []) : InvH c (recvOp c s j m ms) where
  pendLe := by
    intro i hi
    by_cases hi' : i = j + 1
    · subst hi'
      simp only [recvOp, set_eq]
      exact proc_length_le (Nat.le_refl 1) (fun a => hb.2 (j + 1) a (by omega)) m
    · simpa [recvOp, set, hi'] using h.pendLe i hi
  chanLe := by
    intro i
    by_cases hi : i = j
    · subst hi
      have := h.chanLe i
      rw [hc] at this
      simp [recvOp, set]; simp at this; omega
    · simpa [recvOp, set, hi] using h.chanLe i
  hole := by
    intro hr
    have h0 := h.hole hr
    have hlen := h.chanLe j
    have hpl : (proc (c.f (j + 1)) m).length ≤ 1 :=
      proc_length_le (Nat.le_refl 1) (fun a => hb.2 (j + 1) a (by omega)) m
    have h1 : chanHoles c (recvOp c s j m ms) + (c.cap - (s.chan j).length)
        = chanHoles c s + (c.cap - ms.length) :=
      sumTo_set s.chan (fun l => c.cap - l.length) (by omega) _
    have h2 : pendHoles c (recvOp c s j m ms) + (1 - (s.pend (j + 1)).length)
        = pendHoles c s + (1 - (proc (c.f (j + 1)) m).length) :=
      sumTo_set_shift s.pend (fun l => 1 - l.length) (by omega) _
    have h3 : (recvOp c s j m ms).pend 0 = s.pend 0 := by simp [recvOp, set]
    rw [h3]
    rw [hc] at h1 hlen
    rw [hp] at h2
    simp only [holes] at h0 ⊢
    simp only [List.length_cons, List.length_nil] at h1 h2 hlen
    omega

theorem invH_drainOp {c : Cfg} {s : State} (h : InvH c s) (hr : s.phase = .run) :
    InvH c (drainOp c s) ∧ c.cap ≤ holes c (drainOp c s) := by
  have h1 : chanHoles c (drainOp c s) + (c.cap - (s.chan c.k).length)
      = chanHoles c s + (c.cap - ([] : List Msg).length) :=
    sumTo_set s.chan (fun l => c.cap - l.length) (by omega) _
  have h2 : pendHoles c (drainOp c s) = pendHoles c s := rfl
  have h4 : c.cap - ((drainOp c s).chan c.k).length ≤ chanHoles c (drainOp c s) :=
    sumTo_ge_term (fun i => c.cap - ((drainOp c s).chan i).length) (Nat.lt_succ_self _)
  have h5 : (drainOp c s).chan c.k = [] := by simp [drainOp, set]
  rw [h5] at h4
  simp only [List.length_nil] at h1 h4
  refine ⟨⟨h.pendLe, ?_, ?_⟩, ?_⟩
  · intro i
    by_cases hi : i = c.k
    · subst hi; simp [drainOp, set]
    · simpa [drainOp, set, hi] using h.chanLe i
  · intro _
    have h0 := h.hole hr
    show (s.pend 0).length ≤ _
    simp only [holes, h2] at h0 ⊢
    omega
  · simp only [holes]; omega

theorem invH_iterNext {c : Cfg} (wf : c.WF) (hb : c.Bounded) {s : State} (h : InvH c s)
    (hcap : c.cap ≤ holes c s) : InvH c (iterNext c s) := by
  unfold iterNext
  split
  · next x r he =>
    refine ⟨?_, h.chanLe, ?_⟩
    · intro i hi
      have hne : i ≠ 0 := by omega
      simpa [pickOp, set, hne] using h.pendLe i hi
    · intro _
      have h2 : pendHoles c (pickOp c s x r) = pendHoles c s :=
        sumTo_set_shift_ne s.pend (fun l => 1 - l.length) (.inl rfl) (proc (c.f 0) x)
      have h1 : chanHoles c (pickOp c s x r) = chanHoles c s := rfl
      have h3 : ((pickOp c s x r).pend 0).length ≤ c.cap := by
        simp only [pickOp, set_eq]
        exact proc_length_le wf.cap_pos hb.1 x
      simp only [holes, h1, h2] at hcap ⊢
      omega
  · split
    · exact ⟨h.pendLe, h.chanLe, fun hh => by cases hh⟩
    · exact h

theorem invH_step {c : Cfg} (wf : c.WF) (hb : c.Bounded) (hdf : c.drainFirst = true) {s : State}
    (hi : Inv c s) (h : InvH c s) (e : Ev) : InvH c (step c s e) := by
  cases e with
  | iter =>
    show InvH c (stepIter c s)
    unfold stepIter
    split
    · exact h
    · next hw =>
      have hq := hi.quiet (by rw [hw]; intro hh; cases hh)
      split
      · exact h
      · refine ⟨h.pendLe, h.chanLe, fun _ => ?_⟩
        show (s.pend 0).length ≤ _
        rw [(hq.2 0 (Nat.zero_le _)).2]; exact Nat.zero_le _
      · exact ⟨h.pendLe, h.chanLe, fun hh => by cases hh⟩
    · next hrun =>
      split
      · next m rest hp =>
        split
        · next hc => exact invH_sendOp0 h hp hc
        · exact h
      · next hp =>
        have hd : drains c s = true := by simp [drains, hdf]
        rw [if_pos hd]
        obtain ⟨h1, h2⟩ := invH_drainOp h hrun
        exact invH_iterNext wf hb h1 h2
  | body i =>
    show InvH c (stepBody c s i)
    unfold stepBody
    split
    · exact h
    · next j =>
      split
      · next hj =>
        split
        · next m rest hp =>
          split
          · next hc =>
            have := invH_sendOp h hj hp hc
            split
            · exact ⟨this.pendLe, this.chanLe, this.hole⟩
            · exact this
          · exact h
        · next hp =>
          split
          · exact h
          · next m ms hc => exact invH_recvOp hb h hj hc hp
      · exact h
  | leader =>
    show InvH c (stepLeader c s)
    unfold stepLeader
    split
    · exact ⟨h.pendLe, h.chanLe, h.hole⟩
    · exact h

theorem invH_reachable {c : Cfg} (wf : c.WF) (hb : c.Bounded) (hdf : c.drainFirst = true)
    {s : State} (h : Reachable c s) : InvH c s := by
  induction h with
  | init => exact invH_init c
  | step e hr ih => exact invH_step wf hb hdf (inv_reachable wf hr) ih e


/-! ## progress -/

theorem enabled_body_recv {c : Cfg} {s : State} {j : Nat} (hj : j + 1 ≤ c.k)
    (hp : s.pend (j + 1) = []) (hc : s.chan j ≠ []) : enabled c s (.body (j + 1)) := by
  simp only [enabled, enabledB, hp, hj, decide_true, Bool.true_and]
  cases h : s.chan j with
  | nil => exact absurd h hc
  | cons a l => rfl

theorem enabled_body_send {c : Cfg} {s : State} {j : Nat} (hj : j + 1 ≤ c.k) {m : Msg}
    {rest : List Msg} (hp : s.pend (j + 1) = m :: rest) (hc : (s.chan (j + 1)).length < c.cap) :
    enabled c s (.body (j + 1)) := by
  simp [enabled, enabledB, hp, hj, hc]

theorem enabled_iter_send {c : Cfg} {s : State} (hrun : s.phase = .run) {m : Msg} {rest : List Msg}
    (hp : s.pend 0 = m :: rest) (hc : (s.chan 0).length < c.cap) : enabled c s .iter := by
  simp [enabled, enabledB, hrun, hp, hc]

theorem enabled_iter_next {c : Cfg} {s : State} (hrun : s.phase = .run) (hp : s.pend 0 = [])
    (h : s.toEmit ≠ [] ∨ s.chan c.k ≠ [] ∨ fbFinished s.fb = true) : enabled c s .iter := by
  simp only [enabled, enabledB, hrun, hp, Bool.or_eq_true, Bool.not_eq_true', List.isEmpty_eq_false_iff]
  rcases h with h | h | h
  · exact .inl (.inl h)
  · exact .inl (.inr h)
  · exact .inr h

/-- a hole somewhere on the cycle while channel 0 is full: some body block can move -/
theorem hole_enabled {c : Cfg} (wf : c.WF) {s : State} (h0 : ¬ (s.chan 0).length < c.cap) :
    ∀ j, j ≤ c.k → ((s.chan j).length < c.cap ∨ (1 ≤ j ∧ s.pend j = [])) →
      ∃ i, enabled c s (.body i) := by
  intro j
  induction j with
  | zero =>
    intro _ hP
    rcases hP with hP | ⟨hP, _⟩
    · exact absurd hP h0
    · omega
  | succ j ih =>
    intro hj hP
    by_cases hPj : (s.chan j).length < c.cap ∨ (1 ≤ j ∧ s.pend j = [])
    · exact ih (by omega) hPj
    · have hfull : ¬ (s.chan j).length < c.cap := fun hh => hPj (.inl hh)
      have hne : s.chan j ≠ [] := by
        intro hh; rw [hh] at hfull; exact hfull wf.cap_pos
      cases hp : s.pend (j + 1) with
      | nil => exact ⟨j + 1, enabled_body_recv hj hp hne⟩
      | cons m rest =>
        rcases hP with hP | ⟨_, hP⟩
        · exact ⟨j + 1, enabled_body_send hj hp hP⟩
        · rw [hp] at hP; cases hP

/-- something is still upstream of an empty channel: somebody upstream can move -/
theorem up_ne_enabled {c : Cfg} (wf : c.WF) {s : State} (hrun : s.phase = .run) :
    ∀ i, i ≤ c.k → s.chan i = [] → up c s i ≠ [] → ∃ e, enabled c s e := by
  intro i
  induction i with
  | zero =>
    intro _ hc hne
    cases hp : s.pend 0 with
    | cons m rest =>
      exact ⟨.iter, enabled_iter_send hrun hp (by rw [hc]; exact wf.cap_pos)⟩
    | nil =>
      refine ⟨.iter, enabled_iter_next hrun hp (.inl ?_)⟩
      intro he
      apply hne
      simp [up, hc, hp, he]
  | succ i ih =>
    intro hi hc hne
    cases hp : s.pend (i + 1) with
    | cons m rest =>
      exact ⟨.body (i + 1), enabled_body_send hi hp (by rw [hc]; exact wf.cap_pos)⟩
    | nil =>
      by_cases hci : s.chan i = []
      · apply ih (by omega) hci
        intro hup
        apply hne
        simp [up, hc, hp, hup]
      · exact ⟨.body (i + 1), enabled_body_recv hi hp hci⟩

theorem progress {c : Cfg} (wf : c.WF) {s : State} (hi : Inv c s) (hh : InvH c s)
    (hnf : ¬ final s) : ∃ e, enabled c s e := by
  cases hph : s.phase with
  | done => exact absurd hph hnf
  | waitLeader =>
    have := wait_pending hi hph
    cases hd : s.decision with
    | some d => exact ⟨.iter, by simp [enabled, enabledB, hph, hd]⟩
    | none =>
      simp only [dec, hd] at this
      exact ⟨.leader, by simp [enabled, enabledB]; simp at this; omega⟩
  | run =>
    cases hp : s.pend 0 with
    | cons m rest =>
      by_cases hc : (s.chan 0).length < c.cap
      · exact ⟨.iter, enabled_iter_send hph hp hc⟩
      · -- the `Iterate` block is blocked in its send: the hole invariant gives a free slot
        have hhole := hh.hole hph
        rw [hp] at hhole
        simp only [List.length_cons, holes] at hhole
        have hpos : 0 < chanHoles c s ∨ 0 < pendHoles c s := by omega
        rcases hpos with hpos | hpos
        · obtain ⟨i, hik, hg⟩ := sumTo_pos hpos
          obtain ⟨b, hb⟩ := hole_enabled wf hc i (by omega) (.inl (by omega))
          exact ⟨_, hb⟩
        · obtain ⟨j, hjk, hg⟩ := sumTo_pos hpos
          have : s.pend (j + 1) = [] := by
            cases hpj : s.pend (j + 1) with
            | nil => rfl
            | cons a l => rw [hpj] at hg; simp at hg
          obtain ⟨b, hb⟩ := hole_enabled wf hc (j + 1) (by omega) (.inr ⟨by omega, this⟩)
          exact ⟨_, hb⟩
    | nil =>
      by_cases he : s.toEmit = []
      · by_cases hck : s.chan c.k = []
        · by_cases hf : fbFinished s.fb = true
          · exact ⟨.iter, enabled_iter_next hph hp (.inr (.inr hf))⟩
          · -- blocked in the feedback `recv`: the rest of the round is still upstream
            apply up_ne_enabled wf hph c.k (Nat.le_refl _) hck
            intro hup
            apply hf
            have := hi.flow hph
            rw [hup, List.append_nil] at this
            rw [this]; exact fbFinished_round _
        · exact ⟨.iter, enabled_iter_next hph hp (.inr (.inl hck))⟩
      · exact ⟨.iter, enabled_iter_next hph hp (.inl he)⟩


/-! ## the termination measure -/

def sumMap (g : Msg → Nat) : List Msg → Nat
  | [] => 0
  | m :: l => g m + sumMap g l

theorem sumMap_append (g : Msg → Nat) (a b : List Msg) :
    sumMap g (a ++ b) = sumMap g a + sumMap g b := by
  induction a with
  | nil => simp [sumMap]
  | cons m a ih => simp [sumMap, ih]; omega

theorem sumMap_one (l : List Msg) : sumMap (fun _ => 1) l = l.length := by
  induction l with
  | nil => rfl
  | cons m l ih => simp [sumMap, ih]; omega

/-- the number of events an element waiting in channel `i` still causes (`d` levels below it):
    one receive, and per output one send plus what the output causes in the next channel; an
    element in the feedback channel costs its drain -/
def cost (c : Cfg) : Nat → Nat → Msg → Nat
  | 0, _, _ => 1
  | d + 1, i, m => 1 + sumMap (fun b => 1 + cost c d (i + 1) b) (proc (c.f (i + 1)) m)

def costAt (c : Cfg) (i : Nat) (m : Msg) : Nat := cost c (c.k - i) i m

/-- an element `Iterate` still has to emit: the `next()` call, and per output a send plus … -/
def costE (c : Cfg) (x : Msg) : Nat := 1 + sumMap (fun b => 1 + costAt c 0 b) (proc (c.f 0) x)

theorem costAt_k (c : Cfg) : costAt c c.k = fun _ => 1 := by
  funext m; simp [costAt, cost]

theorem costAt_succ {c : Cfg} {i : Nat} (hi : i < c.k) (m : Msg) :
    costAt c i m = 1 + sumMap (fun b => 1 + costAt c (i + 1) b) (proc (c.f (i + 1)) m) := by
  have : c.k - i = (c.k - (i + 1)) + 1 := by omega
  unfold costAt; rw [this]; rfl

def pendCost (c : Cfg) (s : State) (i : Nat) : Nat := sumMap (fun b => 1 + costAt c i b) (s.pend i)

def chanCost (c : Cfg) (s : State) (i : Nat) : Nat := sumMap (costAt c i) (s.chan i)

def inflight (c : Cfg) (s : State) : Nat :=
  sumMap (costE c) s.toEmit + sumTo (c.k + 1) (pendCost c s) + sumTo (c.k + 1) (chanCost c s)

/-- a whole round: its elements, the end-of-round step, the leader, the decision -/
def roundCost (c : Cfg) (r : Nat) : Nat := 3 + sumMap (costE c) (lift (content c r) ++ [Msg.far])

def futureFrom (c : Cfg) : Nat → Nat → Nat
  | 0, _ => 0
  | n + 1, r => roundCost c r + futureFrom c n (r + 1)

/-- the rounds after round `r` -/
def future (c : Cfg) (r : Nat) : Nat := futureFrom c (c.rounds - (r + 1)) (r + 1)

def phaseCost : Phase → Nat
  | .run => 3
  | .waitLeader => 2
  | .done => 0

def mu (c : Cfg) (s : State) : Nat :=
  inflight c s + phaseCost s.phase + (if s.decision.isSome then 0 else 1) + future c s.round

theorem future_succ {c : Cfg} {r : Nat} (h : r + 1 < c.rounds) :
    future c r = roundCost c (r + 1) + future c (r + 1) := by
  have : c.rounds - (r + 1) = (c.rounds - (r + 1 + 1)) + 1 := by omega
  unfold future; rw [this]; rfl

theorem sumTo_set' (g : Nat → List Msg) (φ : Nat → List Msg → Nat) {n j : Nat} (hj : j < n)
    (v : List Msg) :
    sumTo n (fun i => φ i (set g j v i)) + φ j (g j) = sumTo n (fun i => φ i (g i)) + φ j v := by
  have := sumTo_update (n := n) (j := j) (g := fun i => φ i (g i)) (h := fun i => φ i (set g j v i)) hj
    (fun i hi => by simp [set, hi])
  simpa [set] using this

theorem inflight_sendOp {c : Cfg} {s : State} {i : Nat} {m : Msg} {rest : List Msg} (hi : i ≤ c.k)
    (hp : s.pend i = m :: rest) : inflight c (sendOp s i m rest) + 1 = inflight c s := by
  have h1 : sumTo (c.k + 1) (pendCost c (sendOp s i m rest)) + pendCost c s i
      = sumTo (c.k + 1) (pendCost c s) + sumMap (fun b => 1 + costAt c i b) rest :=
    sumTo_set' s.pend (fun i l => sumMap (fun b => 1 + costAt c i b) l) (by omega) rest
  have h2 : sumTo (c.k + 1) (chanCost c (sendOp s i m rest)) + chanCost c s i
      = sumTo (c.k + 1) (chanCost c s) + sumMap (costAt c i) (s.chan i ++ [m]) :=
    sumTo_set' s.chan (fun i l => sumMap (costAt c i) l) (by omega) _
  have h3 : pendCost c s i = (1 + costAt c i m) + sumMap (fun b => 1 + costAt c i b) rest := by
    simp [pendCost, hp, sumMap]
  have h4 : sumMap (costAt c i) (s.chan i ++ [m]) = chanCost c s i + costAt c i m := by
    simp [chanCost, sumMap_append, sumMap]
  have h5 : sumMap (costE c) (sendOp s i m rest).toEmit = sumMap (costE c) s.toEmit := rfl
  simp only [inflight, h5]
  omega

theorem inflight_recvOp {c : Cfg} {s : State} {j : Nat} {m : Msg} {ms : List Msg} (hj : j + 1 ≤ c.k)
    (hc : s.chan j = m :: ms) (hp : s.pend (j + 1) = []) :
    inflight c (recvOp c s j m ms) + 1 = inflight c s := by
  have h1 : sumTo (c.k + 1) (pendCost c (recvOp c s j m ms)) + pendCost c s (j + 1)
      = sumTo (c.k + 1) (pendCost c s)
        + sumMap (fun b => 1 + costAt c (j + 1) b) (proc (c.f (j + 1)) m) :=
    sumTo_set' s.pend (fun i l => sumMap (fun b => 1 + costAt c i b) l) (by omega) _
  have h2 : sumTo (c.k + 1) (chanCost c (recvOp c s j m ms)) + chanCost c s j
      = sumTo (c.k + 1) (chanCost c s) + sumMap (costAt c j) ms :=
    sumTo_set' s.chan (fun i l => sumMap (costAt c i) l) (by omega) ms
  have h3 : pendCost c s (j + 1) = 0 := by simp [pendCost, hp, sumMap]
  have h4 : chanCost c s j = costAt c j m + sumMap (costAt c j) ms := by
    simp [chanCost, hc, sumMap]
  have h6 := costAt_succ (c := c) (i := j) (by omega) m
  have h5 : sumMap (costE c) (recvOp c s j m ms).toEmit = sumMap (costE c) s.toEmit := rfl
  simp only [inflight, h5]
  omega

theorem inflight_drainOp (c : Cfg) (s : State) :
    inflight c (drainOp c s) + (s.chan c.k).length = inflight c s := by
  have h2 : sumTo (c.k + 1) (chanCost c (drainOp c s)) + chanCost c s c.k
      = sumTo (c.k + 1) (chanCost c s) + sumMap (costAt c c.k) [] :=
    sumTo_set' s.chan (fun i l => sumMap (costAt c i) l) (by omega) []
  have h4 : chanCost c s c.k = (s.chan c.k).length := by
    simp only [chanCost, costAt_k]; exact sumMap_one _
  have h1 : sumTo (c.k + 1) (pendCost c (drainOp c s)) = sumTo (c.k + 1) (pendCost c s) := rfl
  have h5 : sumMap (costE c) (drainOp c s).toEmit = sumMap (costE c) s.toEmit := rfl
  simp only [inflight, h5, h1]
  simp only [sumMap] at h2
  omega

theorem inflight_pickOp {c : Cfg} {s : State} {x : Msg} {r : List Msg} (he : s.toEmit = x :: r)
    (hp : s.pend 0 = []) : inflight c (pickOp c s x r) + 1 = inflight c s := by
  have h1 : sumTo (c.k + 1) (pendCost c (pickOp c s x r)) + pendCost c s 0
      = sumTo (c.k + 1) (pendCost c s) + sumMap (fun b => 1 + costAt c 0 b) (proc (c.f 0) x) :=
    sumTo_set' s.pend (fun i l => sumMap (fun b => 1 + costAt c i b) l) (by omega) _
  have h3 : pendCost c s 0 = 0 := by simp [pendCost, hp, sumMap]
  have h2 : sumTo (c.k + 1) (chanCost c (pickOp c s x r)) = sumTo (c.k + 1) (chanCost c s) := rfl
  have h5 : sumMap (costE c) (pickOp c s x r).toEmit = sumMap (costE c) r := rfl
  have h6 : sumMap (costE c) s.toEmit = costE c x + sumMap (costE c) r := by simp [he, sumMap]
  simp only [inflight, h5, h2, h6]
  simp only [costE]
  omega

theorem leader_decision_none {c : Cfg} {s : State} (h : Inv c s) (hp : 0 < s.leaderPending) :
    s.decision = none ∧ s.phase ≠ .done := by
  have hnd : s.phase ≠ .done := by
    intro hd; have := (h.doneOut hd).2.2.1; omega
  have hcnt : countFar (s.chan c.k) + countFar s.fb ≤ 1 := by
    cases hph : s.phase with
    | done => exact absurd hph hnd
    | run =>
      have := h.flow hph
      have h1 : countFar s.fb + countFar (up c s c.k) = 1 := by
        rw [← countFar_append, this, countFar_target]
      have := chan_le_up c s c.k
      omega
    | waitLeader =>
      have := wait_pending h hph
      have := h.acc hnd
      omega
  have hacc := h.acc hnd
  refine ⟨?_, hnd⟩
  cases hd : s.decision with
  | none => rfl
  | some d => simp only [dec, hd, Option.isSome_some, if_true] at hacc; omega

theorem mu_iterNext {c : Cfg} {s : State} (hrun : s.phase = .run) (hp : s.pend 0 = [])
    (hen : s.toEmit ≠ [] ∨ fbFinished s.fb = true) : mu c (iterNext c s) < mu c s := by
  unfold iterNext
  split
  · next x r he =>
    have := inflight_pickOp (c := c) he hp
    show inflight c (pickOp c s x r) + phaseCost s.phase + (if s.decision.isSome then 0 else 1) + future c s.round < _
    simp only [mu]; omega
  · next he =>
    rcases hen with hen | hen
    · exact absurd he hen
    · rw [if_pos hen]
      show inflight c s + phaseCost Phase.waitLeader + _ + future c s.round < _
      simp only [mu, hrun, phaseCost]
      have : inflight c { s with phase := Phase.waitLeader } = inflight c s := rfl
      omega

theorem mu_step {c : Cfg} {s : State} (h : Inv c s) {e : Ev} (he : enabled c s e) :
    mu c (step c s e) < mu c s := by
  cases e with
  | iter =>
    show mu c (stepIter c s) < _
    unfold stepIter
    simp only [enabled, enabledB] at he
    split
    · next hd => rw [hd] at he; cases he
    · next hw =>
      rw [hw] at he
      have hfb := h.waitFb hw
      split
      · next hd => rw [hd] at he; cases he
      · next hd =>
        obtain ⟨_, hlt⟩ := h.idxSome true hd
        have hlt : s.round + 1 < c.rounds := by simpa using hlt.symm
        have hq := (h.quiet (by rw [hw]; intro hh; cases hh)).1
        have hf := future_succ hlt
        have hr : roundCost c (s.round + 1) = 3 + sumMap (costE c) s.fb := by rw [hfb]; rfl
        show sumMap (costE c) s.fb + sumTo (c.k + 1) (pendCost c s) + sumTo (c.k + 1) (chanCost c s)
          + phaseCost Phase.run + 1 + future c (s.round + 1) < _
        simp only [mu, inflight, hw, hd, hq, phaseCost, sumMap, Option.isSome_some, if_true]
        omega
      · next hd =>
        show inflight c s + phaseCost Phase.done + 1 + future c s.round < _
        simp only [mu, hw, hd, phaseCost, Option.isSome_some, if_true]
        omega
    · next hrun =>
      rw [hrun] at he
      split
      · next m rest hp =>
        rw [hp] at he
        have hc : (s.chan 0).length < c.cap := by simpa using he
        rw [if_pos hc]
        have := inflight_sendOp (c := c) (Nat.zero_le _) hp
        show inflight c (sendOp s 0 m rest) + phaseCost s.phase + (if s.decision.isSome then 0 else 1) + future c s.round < _
        simp only [mu]; omega
      · next hp =>
        rw [hp] at he
        simp only [Bool.or_eq_true, Bool.not_eq_true', List.isEmpty_eq_false_iff] at he
        have hdr := inflight_drainOp c s
        split
        · next hd =>
          by_cases hne : s.toEmit ≠ [] ∨ fbFinished (s.fb ++ s.chan c.k) = true
          · have := mu_iterNext (c := c) (s := drainOp c s) hrun hp hne
            have h2 : mu c (drainOp c s) ≤ mu c s := by
              show inflight c (drainOp c s) + phaseCost s.phase + (if s.decision.isSome then 0 else 1) + future c s.round ≤ _
              simp only [mu]; omega
            omega
          · -- blocked in the feedback `recv`, a message arrives
            have hte : s.toEmit = [] := by
              apply Classical.byContradiction; intro hh; exact hne (.inl hh)
            have hnf : ¬ fbFinished (s.fb ++ s.chan c.k) = true := fun hh => hne (.inr hh)
            have hck : s.chan c.k ≠ [] := by
              intro hh
              rw [hh, List.append_nil] at hnf
              rcases he with (he | he) | he
              · exact he hte
              · exact he hh
              · exact hnf he
            have hlen : 0 < (s.chan c.k).length := List.length_pos_iff.mpr hck
            have hn : iterNext c (drainOp c s) = drainOp c s := by
              unfold iterNext
              have h1 : (drainOp c s).toEmit = [] := hte
              rw [h1]
              show (if fbFinished (s.fb ++ s.chan c.k) = true then _ else _) = _
              rw [if_neg hnf]
            rw [hn]
            show inflight c (drainOp c s) + phaseCost s.phase + (if s.decision.isSome then 0 else 1) + future c s.round < _
            simp only [mu]; omega
        · next hd =>
          have hte : s.toEmit ≠ [] := by
            intro hh
            apply hd
            simp [drains, hh]
          exact mu_iterNext hrun hp (.inl hte)
  | body i =>
    show mu c (stepBody c s i) < _
    unfold stepBody
    simp only [enabled, enabledB] at he
    split
    · cases he
    · next j =>
      simp only [Bool.and_eq_true, decide_eq_true_eq] at he
      obtain ⟨hj, he⟩ := he
      rw [if_pos hj]
      split
      · next m rest hp =>
        rw [hp] at he
        have hc : (s.chan (j + 1)).length < c.cap := by simpa using he
        rw [if_pos hc]
        have := inflight_sendOp (c := c) hj hp
        have hmu : mu c (sendOp s (j + 1) m rest) < mu c s := by
          show inflight c (sendOp s (j + 1) m rest) + phaseCost s.phase + (if s.decision.isSome then 0 else 1) + future c s.round < _
          simp only [mu]; omega
        split
        · exact hmu
        · exact hmu
      · next hp =>
        rw [hp] at he
        split
        · next hc => rw [hc] at he; cases he
        · next m ms hc =>
          have := inflight_recvOp (c := c) hj hc hp
          show inflight c (recvOp c s j m ms) + phaseCost s.phase + (if s.decision.isSome then 0 else 1) + future c s.round < _
          simp only [mu]; omega
  | leader =>
    show mu c (stepLeader c s) < _
    unfold stepLeader
    have hp : 0 < s.leaderPending := by simpa [enabled, enabledB] using he
    rw [if_pos hp]
    obtain ⟨hd, _⟩ := leader_decision_none h hp
    show inflight c s + phaseCost s.phase + 0 + future c s.round < _
    simp only [mu, hd]
    simp

/-- a slot given to a process that is blocked or finished changes nothing -/
theorem step_idle {c : Cfg} {s : State} {e : Ev} (he : ¬ enabled c s e) : step c s e = s := by
  cases e with
  | iter =>
    show stepIter c s = s
    unfold stepIter
    simp only [enabled, enabledB] at he
    split
    · rfl
    · next hw =>
      rw [hw] at he
      split
      · rfl
      · next hd => rw [hd] at he; exact absurd rfl he
      · next hd => rw [hd] at he; exact absurd rfl he
    · next hrun =>
      rw [hrun] at he
      split
      · next m rest hp =>
        rw [hp] at he
        have hc : ¬ (s.chan 0).length < c.cap := by simpa using he
        rw [if_neg hc]
      · next hp =>
        rw [hp] at he
        simp only [Bool.or_eq_true, Bool.not_eq_true', List.isEmpty_eq_false_iff, not_or] at he
        obtain ⟨⟨h1, h2⟩, h3⟩ := he
        have h1 : s.toEmit = [] := by
          apply Classical.byContradiction; intro hh; exact h1 hh
        have h2 : s.chan c.k = [] := by
          apply Classical.byContradiction; intro hh; exact h2 hh
        have hd : drains c s = true := by simp [drains, h1]
        rw [if_pos hd]
        have hdr : drainOp c s = s := by
          cases s with
          | mk phase round toEmit fb pend chan lp li dcs out cts fed =>
            simp only [drainOp] at *
            congr 1
            · rw [h2, List.append_nil]
            · funext j
              by_cases hj : j = c.k
              · subst hj; simp [set, h2]
              · simp [set, hj]
        rw [hdr]
        unfold iterNext
        rw [h1]
        simp only [h3]
        rfl
  | body i =>
    show stepBody c s i = s
    unfold stepBody
    simp only [enabled, enabledB] at he
    split
    · rfl
    · next j =>
      split
      · next hj =>
        simp only [hj, decide_true, Bool.true_and] at he
        split
        · next m rest hp =>
          rw [hp] at he
          have hc : ¬ (s.chan (j + 1)).length < c.cap := by simpa using he
          rw [if_neg hc]
        · next hp =>
          rw [hp] at he
          split
          · rfl
          · next m ms hc => rw [hc] at he; simp at he
      · rfl
  | leader =>
    show stepLeader c s = s
    unfold stepLeader
    have hp : ¬ 0 < s.leaderPending := by simpa [enabled, enabledB] using he
    rw [if_neg hp]


/-! ## every schedule is finite and ends in the final state -/

theorem realSteps_le {c : Cfg} (wf : c.WF) {s : State} (h : Inv c s) (l : List Ev) :
    mu c (run c s l) + realSteps c s l ≤ mu c s := by
  induction l generalizing s with
  | nil => simp [run, realSteps]
  | cons e l ih =>
    rw [run_cons]
    simp only [realSteps]
    have := ih (inv_step wf h e)
    by_cases he : enabled c s e
    · have := mu_step h he
      simp only [he, if_true]; omega
    · simp only [he, if_false]
      rw [step_idle he] at this ⊢
      omega

theorem mu_run_le {c : Cfg} (wf : c.WF) {s : State} (h : Inv c s) (l : List Ev) :
    mu c (run c s l) ≤ mu c s := by
  have := realSteps_le wf h l; omega

theorem mu_run_lt {c : Cfg} (wf : c.WF) {s : State} (h : Inv c s) {e : Ev} (he : enabled c s e)
    (l : List Ev) (hm : e ∈ l) : mu c (run c s l) < mu c s := by
  induction l with
  | nil => cases hm
  | cons p l ih =>
    rw [run_cons]
    by_cases hp : enabled c s p
    · have h1 := mu_step h hp
      have h2 := mu_run_le wf (inv_step wf h p) l
      omega
    · rw [step_idle hp]
      apply ih
      rcases List.mem_cons.mp hm with hm | hm
      · subst hm; exact absurd he hp
      · exact hm

theorem final_not_enabled {c : Cfg} {s : State} (h : Inv c s) (hf : final s) (e : Ev) :
    ¬ enabled c s e := by
  have hd := h.doneOut hf
  have hq := h.quiet (by rw [hf]; intro hh; cases hh)
  cases e with
  | iter => simp [enabled, enabledB, show s.phase = Phase.done from hf]
  | leader => simp [enabled, enabledB, hd.2.2.1]
  | body i =>
    cases i with
    | zero => simp [enabled, enabledB]
    | succ j =>
      simp only [enabled, enabledB, Bool.and_eq_true, decide_eq_true_eq, not_and]
      intro hj
      rw [(hq.2 (j + 1) hj).2, (hq.2 j (by omega)).1]
      simp

theorem final_run {c : Cfg} {s : State} (h : Inv c s) (hf : final s) (l : List Ev) :
    run c s l = s := by
  induction l with
  | nil => rfl
  | cons e l ih => rw [run_cons, step_idle (final_not_enabled h hf e)]; exact ih

/-- a round gives every process at least one slot -/
def Round (c : Cfg) (ρ : List Ev) : Prop := ∀ e, e ∈ events c → e ∈ ρ

theorem enabled_mem_events {c : Cfg} {s : State} {e : Ev} (he : enabled c s e) : e ∈ events c := by
  cases e with
  | iter => simp [events]
  | leader => simp [events]
  | body i =>
    cases i with
    | zero => simp [enabled, enabledB] at he
    | succ j =>
      simp only [enabled, enabledB, Bool.and_eq_true, decide_eq_true_eq] at he
      simp only [events, List.mem_cons, List.mem_map, List.mem_range]
      exact .inr (.inr ⟨j, by omega, rfl⟩)

theorem invH_run {c : Cfg} (wf : c.WF) (hb : c.Bounded) (hdf : c.drainFirst = true) {s : State}
    (hi : Inv c s) (h : InvH c s) (l : List Ev) : InvH c (run c s l) := by
  induction l generalizing s with
  | nil => exact h
  | cons e l ih => rw [run_cons]; exact ih (inv_step wf hi e) (invH_step wf hb hdf hi h e)

theorem fair_rounds {c : Cfg} (wf : c.WF) (hb : c.Bounded) (hdf : c.drainFirst = true)
    (rounds : List (List Ev)) (hr : ∀ ρ ∈ rounds, Round c ρ) {s : State} (h : Inv c s)
    (hh : InvH c s) :
    final (run c s rounds.flatten) ∨ mu c (run c s rounds.flatten) + rounds.length ≤ mu c s := by
  induction rounds generalizing s with
  | nil => right; simp [run]
  | cons ρ rounds ih =>
    rw [List.flatten_cons, run_append]
    by_cases hf : final s
    · left; rw [final_run h hf, final_run h hf]; exact hf
    · obtain ⟨e, he⟩ := progress wf h hh hf
      have hlt := mu_run_lt wf h he ρ (hr ρ (by simp) e (enabled_mem_events he))
      rcases ih (fun ρ' hρ' => hr ρ' (by simp [hρ'])) (inv_run wf h ρ) (invH_run wf hb hdf h hh ρ)
        with h1 | h1
      · exact .inl h1
      · right; simp only [List.length_cons]; omega

theorem stuck_iff {c : Cfg} {s : State} : stuck c s = true ↔ ∀ e, ¬ enabled c s e := by
  simp only [stuck, List.all_eq_true, Bool.not_eq_true']
  constructor
  · intro h e he
    have := h e (enabled_mem_events he)
    simp only [enabled] at he
    rw [he] at this; cases this
  · intro h e _
    have := h e
    simp only [enabled] at this
    cases hb : enabledB c s e with
    | false => rfl
    | true => exact absurd hb this

end Noir.LoopCycle

/-! ## the general envelope: weighted holes -/
namespace Noir.LoopCycle

theorem sumTo_le_sumTo {n : Nat} {g h : Nat → Nat} (e : ∀ i, i < n → g i ≤ h i) :
    sumTo n g ≤ sumTo n h := by
  induction n with
  | zero => exact Nat.le_refl _
  | succ n ih =>
    simp only [sumTo]
    have := ih (fun i hi => e i (by omega))
    have := e n (by omega)
    omega

theorem sumTo_succ_left (n : Nat) (g : Nat → Nat) :
    sumTo (n + 1) g = g 0 + sumTo n (fun j => g (j + 1)) := by
  induction n with
  | zero => simp [sumTo]
  | succ n ih =>
    rw [sumTo, ih]
    simp only [sumTo]
    omega

/-- `E i` bounds the expansion of level `i`; `W i` is the weight of an element in channel `i`
    (at least the number of elements it can become in the feedback channel) -/
structure Envelope (c : Cfg) (E W : Nat → Nat) : Prop where
  exp : ∀ i a, (c.f i a).length ≤ E i
  epos : ∀ i, 1 ≤ E i
  wpos : ∀ i, 1 ≤ W i
  wstep : ∀ i, i < c.k → W (i + 1) * E (i + 1) ≤ W i
  head : W 0 * E 0 ≤ W c.k * c.cap

/-- weighted number of outputs the blocks still have to send -/
def pendLoad (c : Cfg) (W : Nat → Nat) (s : State) : Nat :=
  sumTo (c.k + 1) fun i => W i * (s.pend i).length

/-- weighted number of free channel slots -/
def chanFree (c : Cfg) (W : Nat → Nat) (s : State) : Nat :=
  sumTo (c.k + 1) fun i => W i * (c.cap - (s.chan i).length)

/-- what the body blocks may hold: one input element each -/
def slack (c : Cfg) (W : Nat → Nat) : Nat := sumTo c.k W

structure InvW (c : Cfg) (E W : Nat → Nat) (s : State) : Prop where
  pendLe : ∀ i, (s.pend i).length ≤ E i
  chanLe : ∀ i, (s.chan i).length ≤ c.cap
  /-- the weighted pending sends fit into the weighted free slots plus one element per body block -/
  load : s.phase = .run → pendLoad c W s ≤ chanFree c W s + slack c W

theorem invW_init (c : Cfg) (E W : Nat → Nat) : InvW c E W (init c) := by
  refine ⟨fun _ => by simp [init], fun _ => by simp [init], fun _ => ?_⟩
  have : pendLoad c W (init c) = 0 := sumTo_zero (fun i _ => by simp [init])
  omega

theorem invW_sendOp {c : Cfg} {E W : Nat → Nat} {s : State} (h : InvW c E W s) {i : Nat} {m : Msg}
    {rest : List Msg} (hi : i ≤ c.k) (hp : s.pend i = m :: rest)
    (hc : (s.chan i).length < c.cap) : InvW c E W (sendOp s i m rest) where
  pendLe := by
    intro j
    by_cases hj : j = i
    · subst hj
      have := h.pendLe j
      rw [hp] at this
      simp only [List.length_cons] at this
      simp only [sendOp, set_eq]; omega
    · simpa [sendOp, set, hj] using h.pendLe j
  chanLe := by
    intro j
    by_cases hj : j = i
    · subst hj; simp [sendOp, set]; omega
    · simpa [sendOp, set, hj] using h.chanLe j
  load := by
    intro hr
    have h0 := h.load hr
    have h1 : pendLoad c W (sendOp s i m rest) + W i * (s.pend i).length
        = pendLoad c W s + W i * rest.length :=
      sumTo_set' s.pend (fun i l => W i * l.length) (by omega) rest
    have h2 : chanFree c W (sendOp s i m rest) + W i * (c.cap - (s.chan i).length)
        = chanFree c W s + W i * (c.cap - (s.chan i ++ [m]).length) :=
      sumTo_set' s.chan (fun i l => W i * (c.cap - l.length)) (by omega) _
    rw [hp] at h1
    simp only [List.length_cons, Nat.mul_succ] at h1
    have h3 : c.cap - (s.chan i).length = (c.cap - (s.chan i ++ [m]).length) + 1 := by
      simp only [List.length_append, List.length_cons, List.length_nil]; omega
    rw [h3, Nat.mul_succ] at h2
    omega

theorem invW_recvOp {c : Cfg} {E W : Nat → Nat} (henv : Envelope c E W) {s : State}
    (h : InvW c E W s) {j : Nat} {m : Msg} {ms : List Msg} (hj : j + 1 ≤ c.k)
    (hc : s.chan j = m :: ms) (hp : s.pend (j + 1) = []) : InvW c E W (recvOp c s j m ms) where
  pendLe := by
    intro i
    by_cases hi : i = j + 1
    · subst hi
      simp only [recvOp, set_eq]
      exact proc_length_le (henv.epos _) (henv.exp _) m
    · simpa [recvOp, set, hi] using h.pendLe i
  chanLe := by
    intro i
    by_cases hi : i = j
    · subst hi
      have := h.chanLe i
      rw [hc] at this
      simp only [List.length_cons] at this
      simp only [recvOp, set_eq]; omega
    · simpa [recvOp, set, hi] using h.chanLe i
  load := by
    intro hr
    have h0 := h.load hr
    have hlen := h.chanLe j
    have hpl : (proc (c.f (j + 1)) m).length ≤ E (j + 1) :=
      proc_length_le (henv.epos _) (henv.exp _) m
    have hw : W (j + 1) * (proc (c.f (j + 1)) m).length ≤ W j :=
      Nat.le_trans (Nat.mul_le_mul_left _ hpl) (henv.wstep j (by omega))
    have h1 : pendLoad c W (recvOp c s j m ms) + W (j + 1) * (s.pend (j + 1)).length
        = pendLoad c W s + W (j + 1) * (proc (c.f (j + 1)) m).length :=
      sumTo_set' s.pend (fun i l => W i * l.length) (by omega) _
    have h2 : chanFree c W (recvOp c s j m ms) + W j * (c.cap - (s.chan j).length)
        = chanFree c W s + W j * (c.cap - ms.length) :=
      sumTo_set' s.chan (fun i l => W i * (c.cap - l.length)) (by omega) ms
    rw [hp] at h1
    rw [hc] at h2 hlen
    simp only [List.length_cons, List.length_nil, Nat.mul_zero] at h1 h2 hlen
    have h3 : c.cap - ms.length = (c.cap - (ms.length + 1)) + 1 := by omega
    rw [h3, Nat.mul_succ] at h2
    omega

/-- after the drain, whatever the first block makes of the next element fits -/
theorem invW_pick_after_drain {c : Cfg} {E W : Nat → Nat} (henv : Envelope c E W) {s : State}
    (h : InvW c E W s) (x : Msg) (r : List Msg) :
    InvW c E W (pickOp c (drainOp c s) x r) where
  pendLe := by
    intro i
    by_cases hi : i = 0
    · subst hi
      simp only [pickOp, set_eq]
      exact proc_length_le (henv.epos _) (henv.exp _) x
    · simpa [pickOp, drainOp, set, hi] using h.pendLe i
  chanLe := by
    intro i
    by_cases hi : i = c.k
    · subst hi; simp [pickOp, drainOp, set]
    · simpa [pickOp, drainOp, set, hi] using h.chanLe i
  load := by
    intro _
    -- the load: the new outputs of level 0 plus at most `E i` outputs per body block
    have hL : pendLoad c W (pickOp c (drainOp c s) x r)
        = W 0 * (proc (c.f 0) x).length + sumTo c.k (fun j => W (j + 1) * (s.pend (j + 1)).length) := by
      unfold pendLoad
      rw [sumTo_succ_left]
      congr 1
    have hS : sumTo c.k (fun j => W (j + 1) * (s.pend (j + 1)).length) ≤ slack c W :=
      sumTo_le_sumTo (fun j hj =>
        Nat.le_trans (Nat.mul_le_mul_left _ (h.pendLe (j + 1))) (henv.wstep j hj))
    have hx : W 0 * (proc (c.f 0) x).length ≤ W c.k * c.cap :=
      Nat.le_trans (Nat.mul_le_mul_left _ (proc_length_le (henv.epos _) (henv.exp _) x)) henv.head
    -- the free slots: the whole feedback channel
    have hF : W c.k * (c.cap - ((pickOp c (drainOp c s) x r).chan c.k).length)
        ≤ chanFree c W (pickOp c (drainOp c s) x r) :=
      sumTo_ge_term (fun i => W i * (c.cap - ((pickOp c (drainOp c s) x r).chan i).length))
        (Nat.lt_succ_self _)
    have hk : (pickOp c (drainOp c s) x r).chan c.k = [] := by simp [pickOp, drainOp, set]
    rw [hk] at hF
    simp only [List.length_nil, Nat.sub_zero] at hF
    omega

theorem invW_step {c : Cfg} {E W : Nat → Nat} (henv : Envelope c E W)
    (hdf : c.drainFirst = true) {s : State} (hi : Inv c s) (h : InvW c E W s) (e : Ev) :
    InvW c E W (step c s e) := by
  cases e with
  | iter =>
    show InvW c E W (stepIter c s)
    unfold stepIter
    split
    · exact h
    · next hw =>
      have hq := hi.quiet (by rw [hw]; intro hh; cases hh)
      split
      · exact h
      · refine ⟨h.pendLe, h.chanLe, fun _ => Nat.le_trans (Nat.le_of_eq ?_) (Nat.zero_le _)⟩
        exact sumTo_zero (fun i hi' => by
          show W i * (s.pend i).length = 0
          rw [(hq.2 i (by omega)).2]; rfl)
      · exact ⟨h.pendLe, h.chanLe, fun hh => by cases hh⟩
    · next hrun =>
      split
      · next m rest hp =>
        split
        · next hc => exact invW_sendOp h (Nat.zero_le _) hp hc
        · exact h
      · next hp =>
        have hd : drains c s = true := by simp [drains, hdf]
        rw [if_pos hd]
        unfold iterNext
        split
        · next x r _ => exact invW_pick_after_drain henv h x r
        · -- only the drain (and possibly the end of the round)
          have hdr : InvW c E W (drainOp c s) := by
            refine ⟨h.pendLe, ?_, fun _ => ?_⟩
            · intro i
              by_cases hik : i = c.k
              · subst hik; simp [drainOp, set]
              · simpa [drainOp, set, hik] using h.chanLe i
            · have h0 := h.load hrun
              have h2 : chanFree c W (drainOp c s) + W c.k * (c.cap - (s.chan c.k).length)
                  = chanFree c W s + W c.k * (c.cap - ([] : List Msg).length) :=
                sumTo_set' s.chan (fun i l => W i * (c.cap - l.length)) (by omega) []
              have h3 : W c.k * (c.cap - (s.chan c.k).length) ≤ W c.k * (c.cap - ([] : List Msg).length) :=
                Nat.mul_le_mul_left _ (by simp)
              have h1 : pendLoad c W (drainOp c s) = pendLoad c W s := rfl
              omega
          split
          · exact ⟨hdr.pendLe, hdr.chanLe, fun hh => by cases hh⟩
          · exact hdr
  | body i =>
    show InvW c E W (stepBody c s i)
    unfold stepBody
    split
    · exact h
    · next j =>
      split
      · next hj =>
        split
        · next m rest hp =>
          split
          · next hc =>
            have := invW_sendOp h hj hp hc
            split
            · exact ⟨this.pendLe, this.chanLe, this.load⟩
            · exact this
          · exact h
        · next hp =>
          split
          · exact h
          · next m ms hc => exact invW_recvOp henv h hj hc hp
      · exact h
  | leader =>
    show InvW c E W (stepLeader c s)
    unfold stepLeader
    split
    · exact ⟨h.pendLe, h.chanLe, h.load⟩
    · exact h

theorem invW_reachable {c : Cfg} (wf : c.WF) {E W : Nat → Nat} (henv : Envelope c E W)
    (hdf : c.drainFirst = true) {s : State} (h : Reachable c s) : InvW c E W s := by
  induction h with
  | init => exact invW_init c E W
  | step e hr ih => exact invW_step henv hdf (inv_reachable wf hr) ih e

theorem invW_run {c : Cfg} (wf : c.WF) {E W : Nat → Nat} (henv : Envelope c E W)
    (hdf : c.drainFirst = true) {s : State} (hi : Inv c s) (h : InvW c E W s) (l : List Ev) :
    InvW c E W (run c s l) := by
  induction l generalizing s with
  | nil => exact h
  | cons e l ih => rw [run_cons]; exact ih (inv_step wf hi e) (invW_step henv hdf hi h e)

theorem progressW {c : Cfg} (wf : c.WF) {E W : Nat → Nat} (henv : Envelope c E W) {s : State}
    (hi : Inv c s) (hh : InvW c E W s) (hnf : ¬ final s) : ∃ e, enabled c s e := by
  cases hph : s.phase with
  | done => exact absurd hph hnf
  | waitLeader =>
    have := wait_pending hi hph
    cases hd : s.decision with
    | some d => exact ⟨.iter, by simp [enabled, enabledB, hph, hd]⟩
    | none =>
      simp only [dec, hd] at this
      exact ⟨.leader, by simp [enabled, enabledB]; simp at this; omega⟩
  | run =>
    cases hp : s.pend 0 with
    | cons m rest =>
      by_cases hc : (s.chan 0).length < c.cap
      · exact ⟨.iter, enabled_iter_send hph hp hc⟩
      · by_cases hex : ∃ j, j ≤ c.k ∧ ((s.chan j).length < c.cap ∨ (1 ≤ j ∧ s.pend j = []))
        · obtain ⟨j, hj, hP⟩ := hex
          obtain ⟨b, hb⟩ := hole_enabled wf hc j hj hP
          exact ⟨_, hb⟩
        · -- everything is full and every block is in the middle of its sends: too much weight
          exfalso
          have hfull : ∀ j, j ≤ c.k → c.cap - (s.chan j).length = 0 := by
            intro j hj
            have : ¬ (s.chan j).length < c.cap := fun hh => hex ⟨j, hj, .inl hh⟩
            omega
          have hbusy : ∀ j, j ≤ c.k → 1 ≤ (s.pend j).length := by
            intro j hj
            cases j with
            | zero => rw [hp]; simp
            | succ j =>
              cases hpj : s.pend (j + 1) with
              | nil => exact absurd ⟨j + 1, hj, .inr ⟨by omega, hpj⟩⟩ hex
              | cons a l => simp
          have h1 : chanFree c W s = 0 :=
            sumTo_zero (fun i hi' => by rw [hfull i (by omega)]; rfl)
          have h2 : sumTo (c.k + 1) W ≤ pendLoad c W s :=
            sumTo_le_sumTo (fun i hi' => Nat.le_mul_of_pos_right _ (hbusy i (by omega)))
          have h3 : sumTo (c.k + 1) W = slack c W + W c.k := rfl
          have := hh.load hph
          have := henv.wpos c.k
          omega
    | nil =>
      by_cases he : s.toEmit = []
      · by_cases hck : s.chan c.k = []
        · by_cases hf : fbFinished s.fb = true
          · exact ⟨.iter, enabled_iter_next hph hp (.inr (.inr hf))⟩
          · apply up_ne_enabled wf hph c.k (Nat.le_refl _) hck
            intro hup
            apply hf
            have := hi.flow hph
            rw [hup, List.append_nil] at this
            rw [this]; exact fbFinished_round _
        · exact ⟨.iter, enabled_iter_next hph hp (.inr (.inl hck))⟩
      · exact ⟨.iter, enabled_iter_next hph hp (.inl he)⟩

theorem fair_roundsW {c : Cfg} (wf : c.WF) {E W : Nat → Nat} (henv : Envelope c E W)
    (hdf : c.drainFirst = true) (rounds : List (List Ev)) (hr : ∀ ρ ∈ rounds, Round c ρ) {s : State}
    (h : Inv c s) (hh : InvW c E W s) :
    final (run c s rounds.flatten) ∨ mu c (run c s rounds.flatten) + rounds.length ≤ mu c s := by
  induction rounds generalizing s with
  | nil => right; simp [run]
  | cons ρ rounds ih =>
    rw [List.flatten_cons, run_append]
    by_cases hf : final s
    · left; rw [final_run h hf, final_run h hf]; exact hf
    · obtain ⟨e, he⟩ := progressW wf henv h hh hf
      have hlt := mu_run_lt wf h he ρ (hr ρ (by simp) e (enabled_mem_events he))
      rcases ih (fun ρ' hρ' => hr ρ' (by simp [hρ'])) (inv_run wf h ρ) (invW_run wf henv hdf h hh ρ)
        with h1 | h1
      · exact .inl h1
      · right; simp only [List.length_cons]; omega

/-- `E a · E (a+1) · … · E (a+n-1)` -/
def prodRange (E : Nat → Nat) : Nat → Nat → Nat
  | _, 0 => 1
  | a, n + 1 => E a * prodRange E (a + 1) n

theorem prodRange_pos {E : Nat → Nat} (h : ∀ i, 1 ≤ E i) (a n : Nat) : 1 ≤ prodRange E a n := by
  induction n generalizing a with
  | zero => exact Nat.le_refl _
  | succ n ih => exact Nat.mul_le_mul (h a) (ih (a + 1))

/-- the weights of the product envelope: `W i = E (i+1) · … · E k` -/
theorem envelope_of_product {c : Cfg} {E : Nat → Nat} (hexp : ∀ i a, (c.f i a).length ≤ E i)
    (hpos : ∀ i, 1 ≤ E i) (hprod : prodRange E 0 (c.k + 1) ≤ c.cap) :
    Envelope c E (fun i => prodRange E (i + 1) (c.k - i)) where
  exp := hexp
  epos := hpos
  wpos := fun i => prodRange_pos hpos _ _
  wstep := by
    intro i hi
    have : c.k - i = (c.k - (i + 1)) + 1 := by omega
    show prodRange E (i + 1 + 1) (c.k - (i + 1)) * E (i + 1) ≤ prodRange E (i + 1) (c.k - i)
    rw [this, prodRange, Nat.mul_comm]
    exact Nat.le_refl _
  head := by
    show prodRange E (0 + 1) (c.k - 0) * E 0 ≤ prodRange E (c.k + 1) (c.k - c.k) * c.cap
    rw [Nat.sub_self, Nat.sub_zero, prodRange, Nat.one_mul, Nat.mul_comm]
    exact hprod

end Noir.LoopCycle

/-! ## several replicas coupled by a shuffle (Model/LoopCycleMulti.lean) -/
namespace Noir.LoopCycleMulti

theorem reachable_run {c : Cfg} {s : State} (h : Reachable c s) (l : List Ev) :
    Reachable c (run c s l) := by
  induction l generalizing s with
  | nil => exact h
  | cons e l ih => exact ih (.step e h)

theorem mem_events {c : Cfg} {s : State} {e : Ev} (he : enabled c s e) : e ∈ events c := by
  cases e with
  | iter r =>
    simp only [enabled, enabledB, Bool.and_eq_true, decide_eq_true_eq] at he
    simp only [events, List.mem_append, List.mem_map, List.mem_range]
    exact .inl ⟨r, he.1, rfl⟩
  | body r =>
    simp only [enabled, enabledB, Bool.and_eq_true, decide_eq_true_eq] at he
    simp only [events, List.mem_append, List.mem_map, List.mem_range]
    exact .inr ⟨r, he.1, rfl⟩

theorem stuck_iff {c : Cfg} {s : State} : stuck c s = true ↔ ∀ e, ¬ enabled c s e := by
  simp only [stuck, List.all_eq_true, Bool.not_eq_true']
  constructor
  · intro h e he
    have := h e (mem_events he)
    simp only [enabled] at he
    rw [he] at this; cases this
  · intro h e _
    have := h e
    simp only [enabled] at this
    cases hb : enabledB c s e with
    | false => rfl
    | true => exact absurd hb this

end Noir.LoopCycleMulti
