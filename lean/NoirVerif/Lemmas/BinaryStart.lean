/-
  Lemmas/BinaryStart.lean — specification-side recognisers for C11 / C05 / C09 at the output of the
  binary start, and the invariants of `BinaryStartReceiver::select` used by Props/C11.lean and
  Props/C05BinaryStart.lean.
-/
import NoirVerif.Model.BinaryStart
namespace Noir.BinaryStart

variable {α : Type}

/-! ## Specification side -/

/-- split an output at `FlushAndRestart`: the closed rounds and what follows the last one -/
def splitGo {β : Type} : List (Elem β) → List (Elem β) → List (List (Elem β)) → List (List (Elem β)) × List (Elem β)
  | [], cur, acc => (acc.reverse, cur.reverse)
  | .far :: rest, cur, acc => splitGo rest [] (cur.reverse :: acc)
  | e :: rest, cur, acc => splitGo rest (e :: cur) acc

def splitRounds {β : Type} (es : List (Elem β)) : List (List (Elem β)) × List (Elem β) := splitGo es [] []

/-- the element presents something of that side: a data element or the side's End marker -/
def ofSide (left : Bool) : Elem (Bin α) → Bool
  | .item (.left _) | .ts (.left _) _ | .item .leftEnd => left
  | .item (.right _) | .ts (.right _) _ | .item .rightEnd => !left
  | _ => false

/-- what a round presents of that side, in order -/
def presented (left : Bool) (seg : List (Elem (Bin α))) : List (Elem (Bin α)) := seg.filter (ofSide left)

/-- **C11 recogniser** for a cached side: every closed round presents the cached side exactly as
    round 1 did, and nothing of it follows the last `FlushAndRestart`. -/
def c11Ok [DecidableEq α] (cachedLeft : Bool) (out : List (Elem (Bin α))) : Bool :=
  let (rounds, tail) := splitRounds out
  (match rounds with
   | [] => true
   | r1 :: rest => rest.all (fun r => presented cachedLeft r = presented cachedLeft r1))
  && (presented cachedLeft tail).isEmpty

/-- payloads of one side in an output, in order -/
def payloads (left : Bool) : List (Elem (Bin α)) → List α
  | [] => []
  | .item (.left a) :: es | .ts (.left a) _ :: es => if left then a :: payloads left es else payloads left es
  | .item (.right a) :: es | .ts (.right a) _ :: es => if left then payloads left es else a :: payloads left es
  | _ :: es => payloads left es

/-- data payloads of an input batch list, in order -/
def inPayloads : List (Elem α) → List α
  | [] => []
  | .item a :: es | .ts a _ :: es => a :: inPayloads es
  | _ :: es => inPayloads es

/-! ## `select` never reads `start`/`alreadyTimedOut` and only changes the receiver part -/

@[simp] theorem recvRight_qL (st : State α) : (recvRight st).1.qL = st.qL := by
  unfold recvRight; split <;> (try simp only) <;> (try split) <;> rfl
@[simp] theorem recvRight_left (st : State α) : (recvRight st).1.left = st.left := by
  unfold recvRight; split <;> (try simp only) <;> (try split) <;> rfl
@[simp] theorem recvLeft_qR (st : State α) : (recvLeft st).1.qR = st.qR := by
  unfold recvLeft; split <;> (try simp only) <;> (try split) <;> rfl
@[simp] theorem recvLeft_right (st : State α) : (recvLeft st).1.right = st.right := by
  unfold recvLeft; split <;> (try simp only) <;> (try split) <;> rfl
@[simp] theorem recvRight_start (st : State α) : (recvRight st).1.start = st.start := by
  unfold recvRight; split <;> (try simp only) <;> (try split) <;> rfl
@[simp] theorem recvLeft_start (st : State α) : (recvLeft st).1.start = st.start := by
  unfold recvLeft; split <;> (try simp only) <;> (try split) <;> rfl

@[simp] theorem reset_cached (s : Side α) : s.reset.cached = s.cached := by
  unfold Side.reset; split <;> rfl
@[simp] theorem reset_missingTerm (s : Side α) : s.reset.missingTerm = s.missingTerm := by
  unfold Side.reset; split <;> rfl
@[simp] theorem reset_cache (s : Side α) : s.reset.cache = s.cache := by
  unfold Side.reset; split <;> rfl
@[simp] theorem reset_instances (s : Side α) : s.reset.instances = s.instances := by
  unfold Side.reset; split <;> rfl
@[simp] theorem nextCached_cached (s : Side α) : s.nextCached.1.cached = s.cached := by
  unfold Side.nextCached; simp only; split <;> rfl
@[simp] theorem nextCached_missingTerm (s : Side α) : s.nextCached.1.missingTerm = s.missingTerm := by
  unfold Side.nextCached; simp only; split <;> rfl
@[simp] theorem nextCached_cache (s : Side α) : s.nextCached.1.cache = s.cache := by
  unfold Side.nextCached; simp only; split <;> rfl

/-! ## A cached side that has terminated is never received from again -/

/-- the left side is cached and has received all its `Terminate`s; `q` is its channel -/
structure LeftDone (st : State α) (q : List (Batch α)) : Prop where
  cached : st.left.cached = true
  term : st.left.missingTerm = 0
  queue : st.qL = q

theorem LeftDone.isEnded {st : State α} {q} (h : LeftDone st q) : st.left.isEnded = true := by
  simp [Side.isEnded, Side.isTerminated, h.cached, h.term]

theorem prepare_leftDone {st : State α} {q} (h : LeftDone st q) : LeftDone (prepare st) q := by
  unfold prepare
  split
  · exact ⟨by simp [h.cached], by simp [h.term], h.queue⟩
  · exact h

theorem recvRight_leftDone {st : State α} {q} (h : LeftDone st q) : LeftDone (recvRight st).1 q :=
  ⟨by simp [h.cached], by simp [h.term], by simp [h.queue]⟩

theorem selectRecv_leftDone {st : State α} {q} (h : LeftDone st q) : LeftDone (selectRecv st).1 q := by
  unfold selectRecv
  rw [if_pos h.isEnded]
  exact recvRight_leftDone h

theorem selectBody_leftDone {st : State α} {q} (h : LeftDone st q) : LeftDone (selectBody st).1 q := by
  unfold selectBody
  split
  · simp only [h.cached, if_true]
    have := recvRight_leftDone h
    exact ⟨this.cached, this.term, this.queue⟩
  · split
    · exact ⟨by simp [h.cached], by simp [h.term], h.queue⟩
    · split
      · exact ⟨h.cached, h.term, h.queue⟩
      · exact selectRecv_leftDone h

theorem select_leftDone {st : State α} {q} (h : LeftDone st q) : LeftDone (select st).1 q := by
  unfold select
  split
  · exact h
  · exact selectBody_leftDone (prepare_leftDone h)

@[simp] theorem process_cached (s : Side α) (w : α → Bin α) (e : Bin α) (r : Nat) (es : List (Elem α)) :
    (s.process w e r es).1.cached = s.cached := by
  unfold Side.process; simp only; split <;> rfl

@[simp] theorem process_instances (s : Side α) (w : α → Bin α) (e : Bin α) (r : Nat) (es : List (Elem α)) :
    (s.process w e r es).1.instances = s.instances := by
  unfold Side.process; simp only; split <;> rfl

@[simp] theorem recvLeft_left_cached (st : State α) : (recvLeft st).1.left.cached = st.left.cached := by
  unfold recvLeft; split <;> (try simp only) <;> (try split) <;> simp
@[simp] theorem recvRight_right_cached (st : State α) : (recvRight st).1.right.cached = st.right.cached := by
  unfold recvRight; split <;> (try simp only) <;> (try split) <;> simp

@[simp] theorem reset_missingFar (s : Side α) : s.reset.missingFar = s.instances := by
  unfold Side.reset; split <;> rfl
@[simp] theorem recvLeft_left_instances (st : State α) : (recvLeft st).1.left.instances = st.left.instances := by
  unfold recvLeft; split <;> (try simp only) <;> (try split) <;> simp
@[simp] theorem recvRight_right_instances (st : State α) : (recvRight st).1.right.instances = st.right.instances := by
  unfold recvRight; split <;> (try simp only) <;> (try split) <;> simp

theorem process_cacheFinished_of_not_cached (s : Side α) (w : α → Bin α) (e : Bin α) (r : Nat)
    (es : List (Elem α)) (h : s.cached = false) :
    (s.process w e r es).1.cacheFinished = s.cacheFinished := by
  unfold Side.process; simp [h, Side.cacheFinished]

theorem reset_cacheFinished_of_not_cached (s : Side α) (h : s.cached = false) :
    s.reset.cacheFinished = s.cacheFinished := by
  unfold Side.reset; simp [h, Side.cacheFinished]

theorem recvLeft_left_cacheFinished (st : State α) (h : st.left.cached = false) :
    (recvLeft st).1.left.cacheFinished = st.left.cacheFinished := by
  unfold recvLeft; split
  · rfl
  · simp only; split
    · rfl
    · simp [process_cacheFinished_of_not_cached _ _ _ _ _ h]

theorem recvRight_right_cacheFinished (st : State α) (h : st.right.cached = false) :
    (recvRight st).1.right.cacheFinished = st.right.cacheFinished := by
  unfold recvRight; split
  · rfl
  · simp only; split
    · rfl
    · simp [process_cacheFinished_of_not_cached _ _ _ _ _ h]

/-- a predicate on the receiver part that `select` preserves is preserved by a whole pump -/
theorem pump_preserves (P : State α → Prop) (hsel : ∀ st, P st → P (select st).1)
    (hupd : ∀ st s b, P st → P { st with start := s, alreadyTimedOut := b }) :
    ∀ (fuel : Nat) (st : State α), P st → P (pump fuel st).1 := by
  intro fuel
  induction fuel with
  | zero => intro st h; exact h
  | succ n ih =>
    intro st h
    unfold pump
    split
    · exact h
    · simp only
      split
      · split
        · exact hsel st h
        · split
          · exact hupd _ _ _ (hsel st h)
          · exact hupd _ _ _ (hsel st h)
      · split
        · exact hupd _ _ _ (hsel st h)
        · exact ih _ (hupd _ _ _ (hsel st h))

theorem pump_leftDone {q} (fuel : Nat) (st : State α) (h : LeftDone st q) : LeftDone (pump fuel st).1 q :=
  pump_preserves (fun st => LeftDone st q) (fun _ h => select_leftDone h)
    (fun _ _ _ h => ⟨h.cached, h.term, h.queue⟩) fuel st h

theorem runFrom_leftDone (ops : List (Op α)) : ∀ (st : State α) (i : Nat) (q : List (Batch α)),
    LeftDone st q → ∃ added, LeftDone (runFrom st i ops).1 (q ++ added) := by
  induction ops with
  | nil => intro st i q h; exact ⟨[], by simpa [runFrom] using h⟩
  | cons op ops ih =>
    intro st i q h
    cases op with
    | enq l r es =>
      simp only [runFrom]
      cases l with
      | true =>
        obtain ⟨a, ha⟩ := ih (enqueue st true r es) (i + 1) (q ++ [(r, es)])
          ⟨h.cached, h.term, by simp [enqueue, h.queue]⟩
        exact ⟨(r, es) :: a, by simpa using ha⟩
      | false =>
        exact ih (enqueue st false r es) (i + 1) q ⟨h.cached, h.term, by simp [enqueue, h.queue]⟩
    | pump =>
      simp only [runFrom]
      have hp := pump_leftDone (pumpFuel st) st h
      split
      · obtain ⟨a, ha⟩ := ih (pump (pumpFuel st) st).1 (i + 1) q hp
        exact ⟨a, ha⟩
      · exact ⟨[], by simpa using hp⟩

/-! ## Replay -/

/-- `k` consecutive calls of `select` (the receiver never looks at the `Start` part of the state) -/
def selectIter : Nat → State α → State α × List (Sel α)
  | 0, st => (st, [])
  | k + 1, st => ((selectIter k (select st).1).1, (select st).2 :: (selectIter k (select st).1).2)

/-- the receiver is in the middle of a replay of the left cache -/
structure ReplayingL (st : State α) : Prop where
  cached : st.left.cached = true
  term : st.left.missingTerm = 0
  full : st.left.cacheFull = true
  notFirst : st.firstMessage = false
  more : st.left.cachePointer < st.left.cache.length
  alive : st.right.missingTerm ≠ 0
  /-- the loop side has not started terminating (condition added by 6c83288) -/
  untouched : st.right.missingTerm = st.right.instances

theorem select_replayingL {st : State α} (h : ReplayingL st) :
    select st = ({ st with left := st.left.nextCached.1 },
                 .replay true (st.left.cache.getD st.left.cachePointer (0, []))) := by
  have hcf : st.left.cacheFinished = false := by
    simp [Side.cacheFinished]; exact h.more
  have h1 : (st.left.isTerminated && st.right.isTerminated && decide (numTerminates st > 0)) = false := by
    simp [Side.isTerminated, h.alive]
  have h2 : prepare st = st := by
    unfold prepare; simp [hcf]
  unfold select
  rw [h1, h2]
  unfold selectBody
  simp [h.notFirst, h.cached, h.full, hcf, Side.nextCached, h.untouched]

theorem nextCached_pointer (s : Side α) : s.nextCached.1.cachePointer = s.cachePointer + 1 := by
  unfold Side.nextCached; simp only; split <;> rfl
theorem nextCached_full (s : Side α) : s.nextCached.1.cacheFull = s.cacheFull := by
  unfold Side.nextCached; simp only; split <;> rfl
theorem nextCached_missingFar_last (s : Side α) (h : s.cache.length ≤ s.cachePointer + 1) :
    s.nextCached.1.missingFar = 0 := by
  unfold Side.nextCached; simp [Side.cacheFinished, h]

/-- **A replay hands out the whole rest of the cache, in order, and touches no channel.** -/
theorem replayL_whole_cache : ∀ (k : Nat) (st : State α), ReplayingL st →
    k = st.left.cache.length - st.left.cachePointer →
    (selectIter k st).2 = (st.left.cache.drop st.left.cachePointer).map (Sel.replay true)
    ∧ (selectIter k st).1.qL = st.qL ∧ (selectIter k st).1.qR = st.qR
    ∧ (selectIter k st).1.left.cache = st.left.cache
    ∧ (selectIter k st).1.left.cachePointer = st.left.cache.length
    ∧ (selectIter k st).1.left.missingFar = 0
    ∧ (selectIter k st).1.right = st.right := by
  intro k
  induction k with
  | zero => intro st h hk; have := h.more; omega
  | succ k ih =>
    intro st h hk
    have hsel := select_replayingL h
    have hm := h.more
    have hdrop : st.left.cache.drop st.left.cachePointer
        = st.left.cache.getD st.left.cachePointer (0, []) :: st.left.cache.drop (st.left.cachePointer + 1) := by
      rw [List.drop_eq_getElem_cons hm]
      simp [List.getD_eq_getElem?_getD, List.getElem?_eq_getElem hm]
    simp only [selectIter, hsel]
    by_cases hlast : st.left.cachePointer + 1 < st.left.cache.length
    · have h' : ReplayingL ({ st with left := st.left.nextCached.1 } : State α) :=
        ⟨by simp [h.cached], by simp [h.term], by simp [nextCached_full, h.full], h.notFirst,
         by simp [nextCached_pointer]; exact hlast, h.alive, h.untouched⟩
      obtain ⟨i1, i2, i3, i4, i5, i6, i7⟩ := ih _ h' (by simp [nextCached_pointer]; omega)
      simp only [nextCached_cache, nextCached_pointer] at i1 i4 i5
      refine ⟨?_, i2, i3, ?_, ?_, i6, i7⟩
      · rw [hdrop, List.map_cons, i1]
      · rw [i4]
      · rw [i5]
    · have hk0 : k = 0 := by omega
      subst hk0
      simp only [selectIter]
      refine ⟨?_, trivial, trivial, by simp, ?_, ?_, trivial⟩
      · rw [hdrop]
        have : st.left.cache.drop (st.left.cachePointer + 1) = [] := by
          apply List.drop_eq_nil_of_le; omega
        simp [this]
      · simp [nextCached_pointer]; omega
      · exact nextCached_missingFar_last _ (by omega)

/-! ## Conservation of payloads (no cache) -/

theorem payloads_append (l : Bool) (a b : List (Elem (Bin α))) :
    payloads l (a ++ b) = payloads l a ++ payloads l b := by
  induction a with
  | nil => rfl
  | cons e es ih =>
    cases e with
    | item v => cases v <;> cases l <;> simp [payloads, ih]
    | ts v t => cases v <;> cases l <;> simp [payloads, ih]
    | wm t => simp [payloads, ih]
    | flushBatch => simp [payloads, ih]
    | term => simp [payloads, ih]
    | far => simp [payloads, ih]

theorem inPayloads_append (a b : List (Elem α)) : inPayloads (a ++ b) = inPayloads a ++ inPayloads b := by
  induction a with
  | nil => rfl
  | cons e es ih => cases e <;> simp [inPayloads, ih]

/-- `process_side` of an uncached LEFT side keeps the payloads (and adds none of the other side) -/
theorem processElems_left (mf mt : Nat) (es : List (Elem α)) :
    payloads true (processElems Bin.left Bin.leftEnd false mf mt es).2.2.1 = inPayloads es
    ∧ payloads false (processElems Bin.left Bin.leftEnd false mf mt es).2.2.1 = [] := by
  induction es generalizing mf mt with
  | nil => simp [processElems, payloads, inPayloads]
  | cons e es ih =>
    have := ih (if e.isFar then mf - 1 else mf) (if e.isTerm then mt - 1 else mt)
    cases e <;> simp [processElems, payloads_append, payloads, inPayloads, Elem.isFar, Elem.isTerm, Elem.map] at this ⊢
      <;> (try split) <;> simp [payloads, this]

theorem processElems_right (mf mt : Nat) (es : List (Elem α)) :
    payloads false (processElems Bin.right Bin.rightEnd false mf mt es).2.2.1 = inPayloads es
    ∧ payloads true (processElems Bin.right Bin.rightEnd false mf mt es).2.2.1 = [] := by
  induction es generalizing mf mt with
  | nil => simp [processElems, payloads, inPayloads]
  | cons e es ih =>
    have := ih (if e.isFar then mf - 1 else mf) (if e.isTerm then mt - 1 else mt)
    cases e <;> simp [processElems, payloads_append, payloads, inPayloads, Elem.isFar, Elem.isTerm, Elem.map] at this ⊢
      <;> (try split) <;> simp [payloads, this]

theorem step_dead {β : Type} (s : Noir.Start.State) (h : s.missingTerm = 0) (a : Noir.Start.Arrival β) :
    Noir.Start.step s a = (s, []) := by
  simp [Noir.Start.step, h]

theorem feed_dead {β : Type} (s : Noir.Start.State) (h : s.missingTerm = 0) (r : Nat) (es : List (Elem β)) :
    feed s r es = (s, []) := by
  induction es with
  | nil => rfl
  | cons e es ih => simp [feed, step_dead s h, ih]

/-- a live `Start` passes every data element on and adds none -/
theorem step_payloads (l : Bool) (s : Noir.Start.State) (h : s.missingTerm ≠ 0) (r : Nat) (e : Elem (Bin α)) :
    payloads l (Noir.Start.step s (.elem r e)).2 = payloads l [e] := by
  cases e with
  | item v => simp [Noir.Start.step, h]
  | ts v t => simp [Noir.Start.step, h]
  | flushBatch => simp [Noir.Start.step, h]
  | wm t =>
    simp only [Noir.Start.step, h, if_false]
    cases (s.frontier.update r t).2 <;> simp [payloads]
  | far =>
    simp only [Noir.Start.step, h, if_false, Noir.Start.afterCounters]
    split <;> (try split) <;> simp [payloads]
  | term =>
    simp only [Noir.Start.step, h, if_false, Noir.Start.afterCounters]
    split <;> (try split) <;> simp [payloads]

theorem feed_payloads (l : Bool) (r : Nat) (es : List (Elem (Bin α))) : ∀ (s : Noir.Start.State),
    (feed s r es).1.missingTerm ≠ 0 → payloads l (feed s r es).2 = payloads l es := by
  induction es with
  | nil => intro s _; rfl
  | cons e es ih =>
    intro s h
    by_cases hs : s.missingTerm = 0
    · rw [feed_dead s hs] at h; exact absurd hs h
    · simp only [feed] at h ⊢
      rw [payloads_append, ih _ h, step_payloads l s hs]
      rw [← payloads_append]; rfl

/-- payloads still waiting in the left / right channel -/
def pendL (st : State α) : List α := inPayloads (st.qL.flatMap (·.2))
def pendR (st : State α) : List α := inPayloads (st.qR.flatMap (·.2))

/-- the elements a `select` hands to `Start` -/
def selElems (s : Sel α) : List (Elem (Bin α)) := match s.batch? with | some b => b.2 | none => []

theorem process_out (s : Side α) (w : α → Bin α) (e : Bin α) (r : Nat) (es : List (Elem α)) :
    (s.process w e r es).2.1.2 = (processElems w e s.cached s.missingFar s.missingTerm es).2.2.1 := by
  unfold Side.process; rfl

/-- what the conservation statement needs from one receiver step -/
structure Conserves (st st' : State α) (sel : Sel α) : Prop where
  lc : st'.left.cached = false
  rc : st'.right.cached = false
  left : payloads true (selElems sel) ++ pendL st' = pendL st
  right : payloads false (selElems sel) ++ pendR st' = pendR st

theorem recvLeft_conserves (st : State α) (hl : st.left.cached = false) (hr : st.right.cached = false) :
    Conserves st (recvLeft st).1 (recvLeft st).2 := by
  unfold recvLeft
  split
  · exact ⟨hl, hr, by simp [selElems, Sel.batch?, payloads], by simp [selElems, Sel.batch?, payloads]⟩
  · rename_i r es q hq
    simp only
    split
    · exact ⟨hl, hr, by simp [selElems, Sel.batch?, payloads], by simp [selElems, Sel.batch?, payloads]⟩
    · have hp := processElems_left st.left.missingFar st.left.missingTerm es
      refine ⟨by simp [hl], hr, ?_, ?_⟩
      · simp [selElems, Sel.batch?, process_out, hl, hp.1, pendL, hq, inPayloads_append]
      · simp [selElems, Sel.batch?, process_out, hl, hp.2, pendR]

theorem recvRight_conserves (st : State α) (hl : st.left.cached = false) (hr : st.right.cached = false) :
    Conserves st (recvRight st).1 (recvRight st).2 := by
  unfold recvRight
  split
  · exact ⟨hl, hr, by simp [selElems, Sel.batch?, payloads], by simp [selElems, Sel.batch?, payloads]⟩
  · rename_i r es q hq
    simp only
    split
    · exact ⟨hl, hr, by simp [selElems, Sel.batch?, payloads], by simp [selElems, Sel.batch?, payloads]⟩
    · have hp := processElems_right st.right.missingFar st.right.missingTerm es
      refine ⟨hl, by simp [hr], ?_, ?_⟩
      · simp [selElems, Sel.batch?, process_out, hr, hp.2, pendL]
      · simp [selElems, Sel.batch?, process_out, hr, hp.1, pendR, hq, inPayloads_append]

theorem selectRecv_conserves (st : State α) (hl : st.left.cached = false) (hr : st.right.cached = false) :
    Conserves st (selectRecv st).1 (selectRecv st).2 := by
  unfold selectRecv
  split
  · exact recvRight_conserves st hl hr
  · split
    · exact recvLeft_conserves st hl hr
    · split
      · split
        · exact recvRight_conserves st hl hr
        · exact recvLeft_conserves st hl hr
        · have := recvLeft_conserves { st with ambiguous := true } hl hr
          exact ⟨this.lc, this.rc, this.left, this.right⟩
      · exact recvRight_conserves st hl hr
      · exact recvLeft_conserves st hl hr
      · exact ⟨hl, hr, by simp [selElems, Sel.batch?, payloads], by simp [selElems, Sel.batch?, payloads]⟩

theorem select_conserves (st : State α) (hl : st.left.cached = false) (hr : st.right.cached = false) :
    Conserves st (select st).1 (select st).2 := by
  have hpl : (prepare st).left.cached = false := by unfold prepare; split <;> simp [hl]
  have hpr : (prepare st).right.cached = false := by unfold prepare; split <;> simp [hr]
  have hql : pendL (prepare st) = pendL st := by unfold prepare pendL; split <;> rfl
  have hqr : pendR (prepare st) = pendR st := by unfold prepare pendR; split <;> rfl
  unfold select
  split
  · rename_i h
    simp [numTerminates, hl, hr] at h
  · unfold selectBody
    simp only [hpl, hpr, Bool.or_self, Bool.and_false, Bool.false_and, if_false, Bool.false_eq_true]
    have := selectRecv_conserves (prepare st) hpl hpr
    exact ⟨this.lc, this.rc, by rw [this.left, hql], by rw [this.right, hqr]⟩

theorem pump_conserves : ∀ (fuel : Nat) (st : State α), st.left.cached = false → st.right.cached = false →
    (pump fuel st).2.2.2 ≠ .done →
    payloads true (pump fuel st).2.1 ++ pendL (pump fuel st).1 = pendL st
    ∧ payloads false (pump fuel st).2.1 ++ pendR (pump fuel st).1 = pendR st := by
  intro fuel
  induction fuel with
  | zero => intro st _ _ _; simp [pump, payloads]
  | succ n ih =>
    intro st hl hr hnd
    have hc := select_conserves st hl hr
    unfold pump at hnd ⊢
    split at hnd
    · exact absurd rfl hnd
    · rename_i hlive
      rw [if_neg hlive]
      simp only at hnd ⊢
      split at hnd
      · rename_i hb
        have hse : selElems (select st).2 = [] := by simp [selElems, hb]
        have hL := hc.left; have hR := hc.right
        rw [hse] at hL hR
        split
        · exact ⟨by simpa [payloads] using hL, by simpa [payloads] using hR⟩
        · split
          · exact ⟨by simpa [payloads, pendL] using hL, by simpa [payloads, pendR] using hR⟩
          · exact ⟨by simpa [payloads, pendL] using hL, by simpa [payloads, pendR] using hR⟩
      · rename_i b hb
        have hse : selElems (select st).2 = b.2 := by simp [selElems, hb]
        split at hnd
        · exact absurd rfl hnd
        · rename_i hfed
          rw [if_neg hfed]
          simp only at hnd ⊢
          have hi := ih ({ (select st).1 with
              start := (feed (select st).1.start b.1 b.2).1, alreadyTimedOut := false }) hc.lc hc.rc hnd
          have hL := hc.left; have hR := hc.right
          rw [hse] at hL hR
          rw [payloads_append, payloads_append, feed_payloads true _ _ _ hfed, feed_payloads false _ _ _ hfed]
          refine ⟨?_, ?_⟩
          · rw [List.append_assoc, hi.1]; exact hL
          · rw [List.append_assoc, hi.2]; exact hR

/-- payloads sent on one side by a history -/
def sentPayloads (left : Bool) : List (Op α) → List α
  | [] => []
  | .enq l _ es :: ops => if l = left then inPayloads es ++ sentPayloads left ops else sentPayloads left ops
  | .pump :: ops => sentPayloads left ops

theorem pump_nocache (fuel : Nat) (st : State α) (hl : st.left.cached = false) (hr : st.right.cached = false) :
    (pump fuel st).1.left.cached = false ∧ (pump fuel st).1.right.cached = false :=
  pump_preserves (fun st => st.left.cached = false ∧ st.right.cached = false)
    (fun st h => ⟨(select_conserves st h.1 h.2).lc, (select_conserves st h.1 h.2).rc⟩)
    (fun _ _ _ h => h) fuel st ⟨hl, hr⟩

theorem runFrom_conserves (ops : List (Op α)) : ∀ (st : State α) (i : Nat),
    st.left.cached = false → st.right.cached = false → (runFrom st i ops).2.2.1 = .idle →
    payloads true ((runFrom st i ops).2.1.map (·.2)) ++ pendL (runFrom st i ops).1 = pendL st ++ sentPayloads true ops
    ∧ payloads false ((runFrom st i ops).2.1.map (·.2)) ++ pendR (runFrom st i ops).1 = pendR st ++ sentPayloads false ops := by
  induction ops with
  | nil => intro st i _ _ _; simp [runFrom, payloads, sentPayloads]
  | cons op ops ih =>
    intro st i hl hr hidle
    cases op with
    | enq l r es =>
      simp only [runFrom] at hidle ⊢
      have := ih (enqueue st l r es) (i + 1) (by cases l <;> simp [enqueue, hl]) (by cases l <;> simp [enqueue, hr]) hidle
      cases l
      · simpa [enqueue, pendL, pendR, sentPayloads, inPayloads_append] using this
      · simpa [enqueue, pendL, pendR, sentPayloads, inPayloads_append] using this
    | pump =>
      simp only [runFrom] at hidle ⊢
      have hnc := pump_nocache (pumpFuel st) st hl hr
      split at hidle
      · rename_i hoc
        have hp := pump_conserves (pumpFuel st) st hl hr (by rw [hoc]; simp)
        have hi := ih (pump (pumpFuel st) st).1 (i + 1) hnc.1 hnc.2 hidle
        simp only [sentPayloads]
        simp only [List.map_append, List.map_map, payloads_append]
        have hm : List.map ((fun x => x.2) ∘ fun e => (i, e)) (pump (pumpFuel st) st).2.1 = (pump (pumpFuel st) st).2.1 := by
          simp [Function.comp_def]
        rw [hm]
        refine ⟨?_, ?_⟩
        · rw [List.append_assoc, hi.1, ← List.append_assoc, hp.1]
        · rw [List.append_assoc, hi.2, ← List.append_assoc, hp.2]
      · rename_i hne
        exact absurd hidle (by simpa using hne)

theorem select_leftDone_cache {st : State α} {q} (h : LeftDone st q) :
    (select st).1.left.cache = st.left.cache := by
  have hp := prepare_leftDone h
  have hpc : (prepare st).left.cache = st.left.cache := by unfold prepare; split <;> simp
  unfold select
  split
  · rfl
  · rw [← hpc]
    unfold selectBody
    split
    · rw [if_pos hp.cached]; simp
    · split
      · simp
      · split
        · rfl
        · unfold selectRecv; rw [if_pos hp.isEnded]; simp

theorem pump_leftDone_cache {q} (fuel : Nat) (st : State α) (h : LeftDone st q) :
    (pump fuel st).1.left.cache = st.left.cache :=
  (pump_preserves (fun s => LeftDone s q ∧ s.left.cache = st.left.cache)
    (fun s hs => ⟨select_leftDone hs.1, by rw [select_leftDone_cache hs.1]; exact hs.2⟩)
    (fun _ _ _ hs => ⟨⟨hs.1.cached, hs.1.term, hs.1.queue⟩, hs.2⟩) fuel st ⟨h, rfl⟩).2

/-! ## `Terminate` once and last -/

/-- a live `Start` either stays alive and emits no `Terminate`, or dies emitting exactly `[Terminate]` -/
theorem step_term {β : Type} (s : Noir.Start.State) (h : s.missingTerm ≠ 0) (a : Noir.Start.Arrival β) :
    ((Noir.Start.step s a).1.missingTerm ≠ 0 ∧ Elem.term ∉ (Noir.Start.step s a).2)
    ∨ ((Noir.Start.step s a).1.missingTerm = 0 ∧ (Noir.Start.step s a).2 = [Elem.term]) := by
  cases a with
  | timeout => left; simp [Noir.Start.step, h]
  | elem r e =>
    cases e with
    | item v => left; simp [Noir.Start.step, h]
    | ts v t => left; simp [Noir.Start.step, h]
    | flushBatch => left; simp [Noir.Start.step, h]
    | wm t =>
      left
      simp only [Noir.Start.step, h, if_false]
      cases (s.frontier.update r t).2 <;> simp [h]
    | far =>
      simp only [Noir.Start.step, h, if_false, Noir.Start.afterCounters]
      split <;> (left; simp_all)
    | term =>
      simp only [Noir.Start.step, h, if_false, Noir.Start.afterCounters]
      split
      · right; simp_all
      · split <;> (left; simp_all)

theorem feed_term {β : Type} (r : Nat) (es : List (Elem β)) : ∀ (s : Noir.Start.State), s.missingTerm ≠ 0 →
    ((feed s r es).1.missingTerm ≠ 0 ∧ Elem.term ∉ (feed s r es).2)
    ∨ ((feed s r es).1.missingTerm = 0 ∧ ∃ pre, (feed s r es).2 = pre ++ [Elem.term] ∧ Elem.term ∉ pre) := by
  induction es with
  | nil => intro s h; left; simp [feed, h]
  | cons e es ih =>
    intro s h
    simp only [feed]
    rcases step_term s h (.elem r e) with ⟨h1, h2⟩ | ⟨h1, h2⟩
    · rcases ih _ h1 with ⟨i1, i2⟩ | ⟨i1, pre, i2, i3⟩
      · left; exact ⟨i1, by simp [h2, i2]⟩
      · right; exact ⟨i1, (Noir.Start.step s (.elem r e)).2 ++ pre, by rw [i2, List.append_assoc], by simp [h2, i3]⟩
    · right
      rw [feed_dead _ h1, h2]
      exact ⟨h1, [], by simp, by simp⟩

theorem selectRecv_start (st : State α) : (selectRecv st).1.start = st.start := by
  unfold selectRecv
  split
  · simp
  · split
    · simp
    · split
      · split <;> simp
      · simp
      · simp
      · rfl

theorem select_start (st : State α) : (select st).1.start = st.start := by
  have hp : (prepare st).start = st.start := by unfold prepare; split <;> rfl
  unfold select
  split
  · rfl
  · rw [← hp]
    unfold selectBody
    split
    · split <;> simp
    · split
      · rfl
      · split
        · rfl
        · exact selectRecv_start _

/-- `Terminate` is the last thing a pump returns, at most once, and exactly when it ends `done` -/
theorem pump_term : ∀ (fuel : Nat) (st : State α), st.start.missingTerm ≠ 0 →
    ((pump fuel st).2.2.2 ≠ .done ∧ (pump fuel st).1.start.missingTerm ≠ 0 ∧ Elem.term ∉ (pump fuel st).2.1)
    ∨ ((pump fuel st).2.2.2 = .done ∧ ∃ pre, (pump fuel st).2.1 = pre ++ [Elem.term] ∧ Elem.term ∉ pre) := by
  intro fuel
  induction fuel with
  | zero => intro st h; left; simp [pump, h]
  | succ n ih =>
    intro st h
    unfold pump
    rw [if_neg h]
    simp only
    split
    · left
      split
      · simp [select_start, h]
      · split <;> simp [select_start, h]
    · rename_i b hb
      have hs : (select st).1.start.missingTerm ≠ 0 := by rw [select_start]; exact h
      rcases feed_term b.1 b.2 _ hs with ⟨f1, f2⟩ | ⟨f1, pre, f2, f3⟩
      · rw [if_neg f1]
        simp only
        rcases ih ({ (select st).1 with start := (feed (select st).1.start b.1 b.2).1, alreadyTimedOut := false }) f1
          with ⟨i1, i2, i3⟩ | ⟨i1, pre, i2, i3⟩
        · left; exact ⟨i1, i2, by simp [f2, i3]⟩
        · right; exact ⟨i1, (feed (select st).1.start b.1 b.2).2 ++ pre, by rw [i2, List.append_assoc], by simp [f2, i3]⟩
      · rw [if_pos f1]
        right; exact ⟨rfl, pre, f2, f3⟩

theorem map_tag {β : Type} (i : Nat) (l : List β) : (l.map (fun e => (i, e))).map (·.2) = l := by
  simp [Function.comp_def]

theorem runFrom_term (ops : List (Op α)) : ∀ (st : State α) (i : Nat), st.start.missingTerm ≠ 0 →
    ((runFrom st i ops).2.2.1 ≠ .done ∧ Elem.term ∉ (runFrom st i ops).2.1.map (·.2))
    ∨ ((runFrom st i ops).2.2.1 = .done
        ∧ ∃ pre, (runFrom st i ops).2.1.map (·.2) = pre ++ [Elem.term] ∧ Elem.term ∉ pre) := by
  induction ops with
  | nil => intro st i _; left; simp [runFrom]
  | cons op ops ih =>
    intro st i h
    cases op with
    | enq l r es =>
      simp only [runFrom]
      exact ih (enqueue st l r es) (i + 1) (by cases l <;> simpa [enqueue] using h)
    | pump =>
      simp only [runFrom]
      have hp := pump_term (pumpFuel st) st h
      split
      · rename_i hoc
        rcases hp with ⟨_, p2, p3⟩ | ⟨p1, _⟩
        · rcases ih (pump (pumpFuel st) st).1 (i + 1) p2 with ⟨i1, i2⟩ | ⟨i1, pre, i2, i3⟩
          · left
            refine ⟨i1, ?_⟩
            simp only [List.map_append, map_tag]
            simp only [List.mem_append, not_or]
            exact ⟨p3, i2⟩
          · right
            refine ⟨i1, (pump (pumpFuel st) st).2.1 ++ pre, ?_, ?_⟩
            · simp only [List.map_append, map_tag, i2, List.append_assoc]
            · simp only [List.mem_append, not_or]; exact ⟨p3, i3⟩
        · rw [hoc] at p1; cases p1
      · rcases hp with ⟨p1, _, p3⟩ | ⟨p1, pre, p2, p3⟩
        · left; exact ⟨p1, by simpa only [map_tag] using p3⟩
        · right; exact ⟨p1, pre, by simpa only [map_tag] using p2, p3⟩

/-! ## Input contract (batch level) -/

/-- neither `FlushAndRestart` nor `Terminate` -/
def plainE {β : Type} (e : Elem β) : Bool := !e.isFar && !e.isTerm

/-- the control tail of a batch: `(has FlushAndRestart, has Terminate)` -/
def tailKind {β : Type} : List (Elem β) → Option (Bool × Bool)
  | [] => some (false, false)
  | [.far] => some (true, false)
  | [.far, .term] => some (true, true)
  | [.term] => some (false, true)
  | _ => none

/-- a batch is `plain elements ++ control tail` -/
def batchKind {β : Type} (es : List (Elem β)) : Option (Bool × Bool) := tailKind (es.dropWhile plainE)

def plainPart {β : Type} (es : List (Elem β)) : List (Elem β) := es.takeWhile plainE

theorem plainPart_plain {β : Type} (es : List (Elem β)) : ∀ e ∈ plainPart es, plainE e = true := by
  intro e he
  unfold plainPart at he
  induction es with
  | nil => simp at he
  | cons x xs ih =>
    simp only [List.takeWhile_cons] at he
    split at he
    · rename_i hx
      rcases List.mem_cons.mp he with h | h
      · rw [h]; exact hx
      · exact ih h
    · simp at he

theorem batch_split {β : Type} (es : List (Elem β)) : es = plainPart es ++ es.dropWhile plainE :=
  (List.takeWhile_append_dropWhile).symm

/-- `process_side` on plain elements: wrapped one by one, counters untouched -/
theorem processElems_plain (wrap : α → Bin α) (end_ : Bin α) (cached : Bool) (d rest : List (Elem α))
    (hd : ∀ e ∈ d, plainE e = true) (mf mt : Nat) :
    processElems wrap end_ cached mf mt (d ++ rest) =
      ((processElems wrap end_ cached mf mt rest).1, (processElems wrap end_ cached mf mt rest).2.1,
       d.map (Elem.map wrap) ++ (processElems wrap end_ cached mf mt rest).2.2.1,
       (processElems wrap end_ cached mf mt rest).2.2.2) := by
  induction d with
  | nil => simp
  | cons e d ih =>
    have he : plainE e = true := hd e (by simp)
    have ih' := ih (fun x hx => hd x (by simp [hx]))
    have hf : e.isFar = false := by simp [plainE] at he; exact he.1
    have ht : e.isTerm = false := by simp [plainE] at he; exact he.2
    simp only [List.cons_append, processElems, hf, ht, Bool.false_eq_true, if_false, Bool.false_and, Bool.false_or]
    rw [ih']
    simp

theorem tailKind_cases {β : Type} {tl : List (Elem β)} {hf ht : Bool} (h : tailKind tl = some (hf, ht)) :
    (tl = [] ∧ hf = false ∧ ht = false) ∨ (tl = [.far] ∧ hf = true ∧ ht = false)
    ∨ (tl = [.far, .term] ∧ hf = true ∧ ht = true) ∨ (tl = [.term] ∧ hf = false ∧ ht = true) := by
  unfold tailKind at h
  split at h <;> simp_all


/-! ## `Start` on the three kinds of batches -/

theorem feed_append {β : Type} (s : Noir.Start.State) (r : Nat) (a b : List (Elem β)) :
    feed s r (a ++ b) = ((feed (feed s r a).1 r b).1, (feed s r a).2 ++ (feed (feed s r a).1 r b).2) := by
  induction a generalizing s with
  | nil => simp [feed]
  | cons e a ih => simp [feed, ih, List.append_assoc]

/-- a live `Start` on plain elements: counters untouched, every data element (and End marker)
    passed on in order, nothing but plain elements returned -/
theorem feed_plain (r : Nat) (d : List (Elem (Bin α))) (hd : ∀ e ∈ d, plainE e = true) :
    ∀ (s : Noir.Start.State), s.missingTerm ≠ 0 →
    (feed s r d).1.n = s.n ∧ (feed s r d).1.missingFar = s.missingFar
    ∧ (feed s r d).1.missingTerm = s.missingTerm
    ∧ (∀ l, presented l (feed s r d).2 = presented l d)
    ∧ (∀ e ∈ (feed s r d).2, plainE e = true) := by
  induction d with
  | nil => intro s _; simp [feed, presented]
  | cons e d ih =>
    intro s hs
    have he : plainE e = true := hd e (by simp)
    have ih' := ih (fun x hx => hd x (by simp [hx]))
    have key : (Noir.Start.step s (.elem r e)).1.n = s.n
        ∧ (Noir.Start.step s (.elem r e)).1.missingFar = s.missingFar
        ∧ (Noir.Start.step s (.elem r e)).1.missingTerm = s.missingTerm
        ∧ (∀ l, presented l (Noir.Start.step s (.elem r e)).2 = presented l [e])
        ∧ (∀ x ∈ (Noir.Start.step s (.elem r e)).2, plainE x = true) := by
      cases e with
      | item v => simp [Noir.Start.step, hs, plainE, Elem.isFar, Elem.isTerm]
      | ts v t => simp [Noir.Start.step, hs, plainE, Elem.isFar, Elem.isTerm]
      | flushBatch => simp [Noir.Start.step, hs, plainE, Elem.isFar, Elem.isTerm]
      | wm t =>
        simp only [Noir.Start.step, hs, if_false]
        cases (s.frontier.update r t).2 <;> simp [presented, ofSide, plainE, Elem.isFar, Elem.isTerm]
      | far => simp [plainE, Elem.isFar] at he
      | term => simp [plainE, Elem.isTerm, Elem.isFar] at he
    obtain ⟨k1, k2, k3, k4, k5⟩ := key
    have hs' : (Noir.Start.step s (.elem r e)).1.missingTerm ≠ 0 := by rw [k3]; exact hs
    obtain ⟨i1, i2, i3, i4, i5⟩ := ih' _ hs'
    simp only [feed]
    refine ⟨by rw [i1, k1], by rw [i2, k2], by rw [i3, k3], ?_, ?_⟩
    · intro l
      have : presented l (e :: d) = presented l [e] ++ presented l d := by
        show List.filter _ ([e] ++ d) = _
        rw [List.filter_append]; rfl
      rw [this, ← k4 l, ← i4 l]; simp [presented]
    · intro x hx
      rcases List.mem_append.mp hx with h | h
      · exact k5 x h
      · exact i5 x h

/-- a live `Start` consuming one `FlushAndRestart` -/
theorem step_far {β : Type} (s : Noir.Start.State) (r : Nat) (hs : s.missingTerm ≠ 0) :
    (Noir.Start.step s (.elem r (Elem.far : Elem β))).1.n = s.n
    ∧ (Noir.Start.step s (.elem r (Elem.far : Elem β))).1.missingTerm = s.missingTerm
    ∧ (if s.missingFar - 1 = 0
       then (Noir.Start.step s (.elem r (Elem.far : Elem β))).1.missingFar = s.n
            ∧ (Noir.Start.step s (.elem r (Elem.far : Elem β))).2 = [Elem.far]
       else (Noir.Start.step s (.elem r (Elem.far : Elem β))).1.missingFar = s.missingFar - 1
            ∧ (Noir.Start.step s (.elem r (Elem.far : Elem β))).2 = []) := by
  simp only [Noir.Start.step, hs, if_false, Noir.Start.afterCounters]
  split <;> simp_all

/-- a live `Start` (not at a round end) consuming one `Terminate` -/
theorem step_termE {β : Type} (s : Noir.Start.State) (r : Nat) (hs : s.missingTerm ≠ 0) (hf : s.missingFar ≠ 0) :
    (Noir.Start.step s (.elem r (Elem.term : Elem β))).1.n = s.n
    ∧ (Noir.Start.step s (.elem r (Elem.term : Elem β))).1.missingFar = s.missingFar
    ∧ (Noir.Start.step s (.elem r (Elem.term : Elem β))).1.missingTerm = s.missingTerm - 1
    ∧ (Noir.Start.step s (.elem r (Elem.term : Elem β))).2 = (if s.missingTerm - 1 = 0 then [Elem.term] else []) := by
  simp only [Noir.Start.step, hs, if_false, Noir.Start.afterCounters]
  split <;> simp_all

/-- `k ≤ missing_terminate` `Terminate`s in one batch -/
theorem feed_terms {β : Type} (r : Nat) : ∀ (k : Nat) (s : Noir.Start.State), s.missingFar ≠ 0 → k ≤ s.missingTerm →
    s.missingTerm ≠ 0 →
    (feed s r (List.replicate k (Elem.term : Elem β))).1.n = s.n
    ∧ (feed s r (List.replicate k (Elem.term : Elem β))).1.missingFar = s.missingFar
    ∧ (feed s r (List.replicate k (Elem.term : Elem β))).1.missingTerm = s.missingTerm - k
    ∧ (feed s r (List.replicate k (Elem.term : Elem β))).2 = (if k = s.missingTerm then [Elem.term] else []) := by
  intro k
  induction k with
  | zero =>
    intro s _ _ hs
    have : ¬ (0 = s.missingTerm) := fun h => hs h.symm
    simp [feed, this]
  | succ k ih =>
    intro s hf hk hs
    obtain ⟨t1, t2, t3, t4⟩ := step_termE (β := β) s r hs hf
    simp only [List.replicate_succ, feed]
    by_cases hlast : s.missingTerm - 1 = 0
    · have hk0 : k = 0 := by omega
      subst hk0
      simp only [List.replicate_zero, feed, List.append_nil]
      refine ⟨t1, t2, by rw [t3], ?_⟩
      rw [t4, if_pos hlast, if_pos (by omega)]
    · obtain ⟨i1, i2, i3, i4⟩ := ih _ (by rw [t2]; exact hf) (by rw [t3]; omega) (by rw [t3]; exact hlast)
      refine ⟨by rw [i1, t1], by rw [i2, t2], by rw [i3, t3]; omega, ?_⟩
      rw [t4, if_neg hlast, i4, t3]
      by_cases h : k = s.missingTerm - 1
      · rw [if_pos h, if_pos (by omega)]; rfl
      · rw [if_neg h, if_neg (by omega)]; rfl

/-! ## Output shape: closed rounds and the open one -/

def joinRounds {β : Type} (rs : List (List (Elem β))) : List (Elem β) := rs.flatMap (· ++ [Elem.far])

def Clean {β : Type} (l : List (Elem β)) : Prop := ∀ e ∈ l, plainE e = true

theorem joinRounds_append {β : Type} (a b : List (List (Elem β))) :
    joinRounds (a ++ b) = joinRounds a ++ joinRounds b := by simp [joinRounds]

theorem splitGo_clean {β : Type} (d : List (Elem β)) (hd : Clean d) (rest cur : List (Elem β))
    (acc : List (List (Elem β))) : splitGo (d ++ rest) cur acc = splitGo rest (d.reverse ++ cur) acc := by
  induction d generalizing cur with
  | nil => rfl
  | cons e d ih =>
    have he : plainE e = true := hd e (by simp)
    have ih' := ih (fun x hx => hd x (by simp [hx]))
    cases e with
    | far => simp [plainE, Elem.isFar] at he
    | item v => simp [splitGo, ih']
    | ts v t => simp [splitGo, ih']
    | wm t => simp [splitGo, ih']
    | flushBatch => simp [splitGo, ih']
    | term => simp [plainE, Elem.isTerm, Elem.isFar] at he

theorem splitGo_join {β : Type} (rs : List (List (Elem β))) (hrs : ∀ r ∈ rs, Clean r) (rest : List (Elem β))
    (acc : List (List (Elem β))) : splitGo (joinRounds rs ++ rest) [] acc = splitGo rest [] (rs.reverse ++ acc) := by
  induction rs generalizing acc with
  | nil => rfl
  | cons r rs ih =>
    have ih' := ih (fun x hx => hrs x (by simp [hx]))
    simp only [joinRounds, List.flatMap_cons, List.append_assoc] at ih' ⊢
    rw [splitGo_clean r (hrs r (by simp))]
    simp only [List.singleton_append, splitGo, List.append_nil, List.reverse_reverse]
    rw [ih']
    simp

/-- the rounds of a shaped output are its rounds -/
theorem splitRounds_shape {β : Type} (rs : List (List (Elem β))) (hrs : ∀ r ∈ rs, Clean r)
    (cur : List (Elem β)) (hc : ∀ e ∈ cur, e.isFar = false) :
    splitRounds (joinRounds rs ++ cur) = (rs, cur) := by
  unfold splitRounds
  rw [splitGo_join rs hrs]
  have : ∀ (cur acc' : List (Elem β)) (acc : List (List (Elem β))), (∀ e ∈ cur, e.isFar = false) →
      splitGo cur acc' acc = (acc.reverse, acc'.reverse ++ cur) := by
    intro cur
    induction cur with
    | nil => intro acc' acc _; simp [splitGo]
    | cons e cur ih =>
      intro acc' acc h
      have he := h e (by simp)
      have ih' := ih (e :: acc') acc (fun x hx => h x (by simp [hx]))
      cases e with
      | far => simp [Elem.isFar] at he
      | item v => simp [splitGo, ih']
      | ts v t => simp [splitGo, ih']
      | wm t => simp [splitGo, ih']
      | flushBatch => simp [splitGo, ih']
      | term => simp [splitGo, ih']
  rw [this cur [] _ hc]
  simp

theorem grammarGo_clean {β : Type} (d : List (Elem β)) (hd : Clean d) (rest : List (Elem β)) (b : Bool) :
    grammarGo b (d ++ Elem.far :: rest) = grammarGo true rest := by
  induction d generalizing b with
  | nil => simp [grammarGo]
  | cons e d ih =>
    have he : plainE e = true := hd e (by simp)
    have ih' := ih (fun x hx => hd x (by simp [hx]))
    cases e with
    | far => simp [plainE, Elem.isFar] at he
    | term => simp [plainE, Elem.isTerm, Elem.isFar] at he
    | item v => simp [grammarGo, ih']
    | ts v t => simp [grammarGo, ih']
    | wm t => simp [grammarGo, ih']
    | flushBatch => simp [grammarGo, ih']

/-- closed rounds followed by `Terminate` form a complete, well-formed stream -/
theorem grammarOk_rounds {β : Type} (rs : List (List (Elem β))) (hrs : ∀ r ∈ rs, Clean r) (hne : rs ≠ []) :
    grammarOk (joinRounds rs ++ [Elem.term]) = true := by
  have : ∀ (rs : List (List (Elem β))), (∀ r ∈ rs, Clean r) → ∀ b, (b = true ∨ rs ≠ []) →
      grammarGo b (joinRounds rs ++ [Elem.term]) = true := by
    intro rs
    induction rs with
    | nil => intro _ b hb; rcases hb with hb | hb; · simp [joinRounds, grammarGo, hb]
             · exact absurd rfl hb
    | cons r rs ih =>
      intro h b _
      have e1 : joinRounds (r :: rs) ++ [Elem.term] = r ++ Elem.far :: (joinRounds rs ++ [Elem.term]) := by
        simp [joinRounds]
      rw [e1, grammarGo_clean r (h r (by simp))]
      exact ih (fun x hx => h x (by simp [hx])) true (Or.inl rfl)
  exact this rs hrs false (Or.inr hne)


end Noir.BinaryStart
