/-
  Lemmas/BinaryStart.lean — specification-side recognisers for C11 / C05 / C09 at the output of the
  binary start, and the invariants of `BinaryStartReceiver::select` used by Props/C11.lean and
  Props/C05BinaryStart.lean.
-/
import NoirVerif.Model.BinaryStart
namespace Noir.BinaryStart

variable {α : Type} {ch : Nat → Bool}

/-! ## Specification side -/

/-- split an output at `FlushAndRestart`: the closed rounds and what follows the last one -/
def splitGo {β : Type} : List (Elem β) → List (Elem β) → List (List (Elem β)) → List (List (Elem β)) × List (Elem β)
  | [], cur, acc => (acc.reverse, cur.reverse)
  | .far :: rest, cur, acc => splitGo rest [] (cur.reverse :: acc)
  | e :: rest, cur, acc => splitGo rest (e :: cur) acc

def splitRounds {β : Type} (es : List (Elem β)) : List (List (Elem β)) × List (Elem β) := splitGo es [] []

/-- the element presents something of that side: a data element or the side's End marker -/
def ofSide (left : Bool) : Elem (Bin α) → Bool
  | .item (.left _) | .ts (.left _) _ | .item .leftEnd => left
  | .item (.right _) | .ts (.right _) _ | .item .rightEnd => !left
  | _ => false

/-- what a round presents of that side, in order -/
def presented (left : Bool) (seg : List (Elem (Bin α))) : List (Elem (Bin α)) := seg.filter (ofSide left)

/-- **C11 recogniser** for a cached side: every closed round presents the cached side exactly as
    round 1 did, and nothing of it follows the last `FlushAndRestart`. -/
def c11Ok [DecidableEq α] (cachedLeft : Bool) (out : List (Elem (Bin α))) : Bool :=
  let (rounds, tail) := splitRounds out
  (match rounds with
   | [] => true
   | r1 :: rest => rest.all (fun r => presented cachedLeft r = presented cachedLeft r1))
  && (presented cachedLeft tail).isEmpty

/-- payloads of one side in an output, in order -/
def payloads (left : Bool) : List (Elem (Bin α)) → List α
  | [] => []
  | .item (.left a) :: es | .ts (.left a) _ :: es => if left then a :: payloads left es else payloads left es
  | .item (.right a) :: es | .ts (.right a) _ :: es => if left then payloads left es else a :: payloads left es
  | _ :: es => payloads left es

/-- data payloads of an input batch list, in order -/
def inPayloads : List (Elem α) → List α
  | [] => []
  | .item a :: es | .ts a _ :: es => a :: inPayloads es
  | _ :: es => inPayloads es

/-! ## `select` never reads `start`/`alreadyTimedOut` and only changes the receiver part -/

@[simp] theorem recvRight_qL (st : State α) : (recvRight st).1.qL = st.qL := by
  unfold recvRight; split <;> (try simp only) <;> (try split) <;> rfl
@[simp] theorem recvRight_left (st : State α) : (recvRight st).1.left = st.left := by
  unfold recvRight; split <;> (try simp only) <;> (try split) <;> rfl
@[simp] theorem recvLeft_qR (st : State α) : (recvLeft st).1.qR = st.qR := by
  unfold recvLeft; split <;> (try simp only) <;> (try split) <;> rfl
@[simp] theorem recvLeft_right (st : State α) : (recvLeft st).1.right = st.right := by
  unfold recvLeft; split <;> (try simp only) <;> (try split) <;> rfl
@[simp] theorem recvRight_start (st : State α) : (recvRight st).1.start = st.start := by
  unfold recvRight; split <;> (try simp only) <;> (try split) <;> rfl
@[simp] theorem recvLeft_start (st : State α) : (recvLeft st).1.start = st.start := by
  unfold recvLeft; split <;> (try simp only) <;> (try split) <;> rfl

@[simp] theorem reset_cached (s : Side α) : s.reset.cached = s.cached := by
  unfold Side.reset; split <;> rfl
@[simp] theorem reset_missingTerm (s : Side α) : s.reset.missingTerm = s.missingTerm := by
  unfold Side.reset; split <;> rfl
@[simp] theorem reset_cache (s : Side α) : s.reset.cache = s.cache := by
  unfold Side.reset; split <;> rfl
@[simp] theorem reset_instances (s : Side α) : s.reset.instances = s.instances := by
  unfold Side.reset; split <;> rfl
@[simp] theorem nextCached_cached (s : Side α) : s.nextCached.1.cached = s.cached := by
  unfold Side.nextCached; simp only; split <;> rfl
@[simp] theorem nextCached_missingTerm (s : Side α) : s.nextCached.1.missingTerm = s.missingTerm := by
  unfold Side.nextCached; simp only; split <;> rfl
@[simp] theorem nextCached_cache (s : Side α) : s.nextCached.1.cache = s.cache := by
  unfold Side.nextCached; simp only; split <;> rfl

/-! ## A cached side that has terminated is never received from again -/

/-- the left side is cached and has received all its `Terminate`s; `q` is its channel -/
structure LeftDone (st : State α) (q : List (Batch α)) : Prop where
  cached : st.left.cached = true
  term : st.left.missingTerm = 0
  queue : st.qL = q

theorem LeftDone.isEnded {st : State α} {q} (h : LeftDone st q) : st.left.isEnded = true := by
  simp [Side.isEnded, Side.isTerminated, h.cached, h.term]

theorem prepare_leftDone {st : State α} {q} (h : LeftDone st q) : LeftDone (prepare st) q := by
  unfold prepare
  split
  · exact ⟨by simp [h.cached], by simp [h.term], h.queue⟩
  · exact h

theorem recvRight_leftDone {st : State α} {q} (h : LeftDone st q) : LeftDone (recvRight st).1 q :=
  ⟨by simp [h.cached], by simp [h.term], by simp [h.queue]⟩

theorem selectRecv_leftDone {st : State α} {q} (h : LeftDone st q) : LeftDone (selectRecv ch st).1 q := by
  unfold selectRecv
  rw [if_pos h.isEnded]
  exact recvRight_leftDone h

theorem selectBody_leftDone {st : State α} {q} (h : LeftDone st q) : LeftDone (selectBody ch st).1 q := by
  unfold selectBody
  split
  · simp only [h.cached, if_true]
    have := recvRight_leftDone h
    exact ⟨this.cached, this.term, this.queue⟩
  · split
    · exact ⟨by simp [h.cached], by simp [h.term], h.queue⟩
    · split
      · exact ⟨h.cached, h.term, h.queue⟩
      · exact selectRecv_leftDone h

theorem select_leftDone {st : State α} {q} (h : LeftDone st q) : LeftDone (select ch st).1 q := by
  unfold select
  split
  · exact h
  · exact selectBody_leftDone (prepare_leftDone h)

@[simp] theorem process_cached (s : Side α) (w : α → Bin α) (e : Bin α) (r : Nat) (es : List (Elem α)) :
    (s.process w e r es).1.cached = s.cached := by
  unfold Side.process; simp only; split <;> rfl

@[simp] theorem process_instances (s : Side α) (w : α → Bin α) (e : Bin α) (r : Nat) (es : List (Elem α)) :
    (s.process w e r es).1.instances = s.instances := by
  unfold Side.process; simp only; split <;> rfl

@[simp] theorem recvLeft_left_cached (st : State α) : (recvLeft st).1.left.cached = st.left.cached := by
  unfold recvLeft; split <;> (try simp only) <;> (try split) <;> simp
@[simp] theorem recvRight_right_cached (st : State α) : (recvRight st).1.right.cached = st.right.cached := by
  unfold recvRight; split <;> (try simp only) <;> (try split) <;> simp

@[simp] theorem reset_missingFar (s : Side α) : s.reset.missingFar = s.instances := by
  unfold Side.reset; split <;> rfl
@[simp] theorem recvLeft_left_instances (st : State α) : (recvLeft st).1.left.instances = st.left.instances := by
  unfold recvLeft; split <;> (try simp only) <;> (try split) <;> simp
@[simp] theorem recvRight_right_instances (st : State α) : (recvRight st).1.right.instances = st.right.instances := by
  unfold recvRight; split <;> (try simp only) <;> (try split) <;> simp

theorem process_cacheFinished_of_not_cached (s : Side α) (w : α → Bin α) (e : Bin α) (r : Nat)
    (es : List (Elem α)) (h : s.cached = false) :
    (s.process w e r es).1.cacheFinished = s.cacheFinished := by
  unfold Side.process; simp [h, Side.cacheFinished]

theorem reset_cacheFinished_of_not_cached (s : Side α) (h : s.cached = false) :
    s.reset.cacheFinished = s.cacheFinished := by
  unfold Side.reset; simp [h, Side.cacheFinished]

theorem recvLeft_left_cacheFinished (st : State α) (h : st.left.cached = false) :
    (recvLeft st).1.left.cacheFinished = st.left.cacheFinished := by
  unfold recvLeft; split
  · rfl
  · simp only; split
    · rfl
    · simp [process_cacheFinished_of_not_cached _ _ _ _ _ h]

theorem recvRight_right_cacheFinished (st : State α) (h : st.right.cached = false) :
    (recvRight st).1.right.cacheFinished = st.right.cacheFinished := by
  unfold recvRight; split
  · rfl
  · simp only; split
    · rfl
    · simp [process_cacheFinished_of_not_cached _ _ _ _ _ h]

/-- a predicate on the receiver part that `select` preserves is preserved by a whole pump -/
theorem pump_preserves (P : State α → Prop) (hsel : ∀ st, P st → P (select ch st).1)
    (hupd : ∀ st s b, P st → P { st with start := s, alreadyTimedOut := b }) :
    ∀ (fuel : Nat) (st : State α), P st → P (pump ch fuel st).1 := by
  intro fuel
  induction fuel with
  | zero => intro st h; exact h
  | succ n ih =>
    intro st h
    unfold pump
    split
    · exact h
    · simp only
      split
      · split
        · exact hsel st h
        · split
          · exact hupd _ _ _ (hsel st h)
          · exact hupd _ _ _ (hsel st h)
      · split
        · exact hupd _ _ _ (hsel st h)
        · exact ih _ (hupd _ _ _ (hsel st h))

theorem pump_leftDone {q} (fuel : Nat) (st : State α) (h : LeftDone st q) : LeftDone (pump ch fuel st).1 q :=
  pump_preserves (fun st => LeftDone st q) (fun _ h => select_leftDone h)
    (fun _ _ _ h => ⟨h.cached, h.term, h.queue⟩) fuel st h

theorem runFrom_leftDone (ops : List (Op α)) : ∀ (st : State α) (i : Nat) (q : List (Batch α)),
    LeftDone st q → ∃ added, LeftDone (runFrom ch st i ops).1 (q ++ added) := by
  induction ops with
  | nil => intro st i q h; exact ⟨[], by simpa [runFrom] using h⟩
  | cons op ops ih =>
    intro st i q h
    cases op with
    | enq l r es =>
      simp only [runFrom]
      cases l with
      | true =>
        obtain ⟨a, ha⟩ := ih (enqueue st true r es) (i + 1) (q ++ [(r, es)])
          ⟨h.cached, h.term, by simp [enqueue, h.queue]⟩
        exact ⟨(r, es) :: a, by simpa using ha⟩
      | false =>
        exact ih (enqueue st false r es) (i + 1) q ⟨h.cached, h.term, by simp [enqueue, h.queue]⟩
    | pump =>
      simp only [runFrom]
      have hp := pump_leftDone (ch := ch) (pumpFuel st) st h
      split
      · obtain ⟨a, ha⟩ := ih (pump ch (pumpFuel st) st).1 (i + 1) q hp
        exact ⟨a, ha⟩
      · exact ⟨[], by simpa using hp⟩

/-! ## Replay -/

/-- `k` consecutive calls of `select` (the receiver never looks at the `Start` part of the state) -/
def selectIter (ch : Nat → Bool) : Nat → State α → State α × List (Sel α)
  | 0, st => (st, [])
  | k + 1, st => ((selectIter ch k (select ch st).1).1, (select ch st).2 :: (selectIter ch k (select ch st).1).2)

/-- the receiver is in the middle of a replay of the left cache -/
structure ReplayingL (st : State α) : Prop where
  cached : st.left.cached = true
  term : st.left.missingTerm = 0
  full : st.left.cacheFull = true
  notFirst : st.firstMessage = false
  more : st.left.cachePointer < st.left.cache.length
  alive : st.right.missingTerm ≠ 0
  /-- the loop side has not started terminating (condition added by 6c83288) -/
  untouched : st.right.missingTerm = st.right.instances

theorem select_replayingL {st : State α} (h : ReplayingL st) :
    select ch st = ({ st with left := st.left.nextCached.1 },
                 .replay true (st.left.cache.getD st.left.cachePointer (0, []))) := by
  have hcf : st.left.cacheFinished = false := by
    simp [Side.cacheFinished]; exact h.more
  have h1 : (st.left.isTerminated && st.right.isTerminated && decide (numTerminates st > 0)) = false := by
    simp [Side.isTerminated, h.alive]
  have h2 : prepare st = st := by
    unfold prepare; simp [hcf]
  unfold select
  rw [h1, h2]
  unfold selectBody
  simp [h.notFirst, h.cached, h.full, hcf, Side.nextCached, h.untouched]

theorem nextCached_pointer (s : Side α) : s.nextCached.1.cachePointer = s.cachePointer + 1 := by
  unfold Side.nextCached; simp only; split <;> rfl
theorem nextCached_full (s : Side α) : s.nextCached.1.cacheFull = s.cacheFull := by
  unfold Side.nextCached; simp only; split <;> rfl
theorem nextCached_missingFar_last (s : Side α) (h : s.cache.length ≤ s.cachePointer + 1) :
    s.nextCached.1.missingFar = 0 := by
  unfold Side.nextCached; simp [Side.cacheFinished, h]

/-- **A replay hands out the whole rest of the cache, in order, and touches no channel.** -/
theorem replayL_whole_cache : ∀ (k : Nat) (st : State α), ReplayingL st →
    k = st.left.cache.length - st.left.cachePointer →
    (selectIter ch k st).2 = (st.left.cache.drop st.left.cachePointer).map (Sel.replay true)
    ∧ (selectIter ch k st).1.qL = st.qL ∧ (selectIter ch k st).1.qR = st.qR
    ∧ (selectIter ch k st).1.left.cache = st.left.cache
    ∧ (selectIter ch k st).1.left.cachePointer = st.left.cache.length
    ∧ (selectIter ch k st).1.left.missingFar = 0
    ∧ (selectIter ch k st).1.right = st.right := by
  intro k
  induction k with
  | zero => intro st h hk; have := h.more; omega
  | succ k ih =>
    intro st h hk
    have hsel := select_replayingL (ch := ch) h
    have hm := h.more
    have hdrop : st.left.cache.drop st.left.cachePointer
        = st.left.cache.getD st.left.cachePointer (0, []) :: st.left.cache.drop (st.left.cachePointer + 1) := by
      rw [List.drop_eq_getElem_cons hm]
      simp [List.getD_eq_getElem?_getD, List.getElem?_eq_getElem hm]
    simp only [selectIter, hsel]
    by_cases hlast : st.left.cachePointer + 1 < st.left.cache.length
    · have h' : ReplayingL ({ st with left := st.left.nextCached.1 } : State α) :=
        ⟨by simp [h.cached], by simp [h.term], by simp [nextCached_full, h.full], h.notFirst,
         by simp [nextCached_pointer]; exact hlast, h.alive, h.untouched⟩
      obtain ⟨i1, i2, i3, i4, i5, i6, i7⟩ := ih _ h' (by simp [nextCached_pointer]; omega)
      simp only [nextCached_cache, nextCached_pointer] at i1 i4 i5
      refine ⟨?_, i2, i3, ?_, ?_, i6, i7⟩
      · rw [hdrop, List.map_cons, i1]
      · rw [i4]
      · rw [i5]
    · have hk0 : k = 0 := by omega
      subst hk0
      simp only [selectIter]
      refine ⟨?_, trivial, trivial, by simp, ?_, ?_, trivial⟩
      · rw [hdrop]
        have : st.left.cache.drop (st.left.cachePointer + 1) = [] := by
          apply List.drop_eq_nil_of_le; omega
        simp [this]
      · simp [nextCached_pointer]; omega
      · exact nextCached_missingFar_last _ (by omega)

/-! ## Conservation of payloads (no cache) -/

theorem payloads_append (l : Bool) (a b : List (Elem (Bin α))) :
    payloads l (a ++ b) = payloads l a ++ payloads l b := by
  induction a with
  | nil => rfl
  | cons e es ih =>
    cases e with
    | item v => cases v <;> cases l <;> simp [payloads, ih]
    | ts v t => cases v <;> cases l <;> simp [payloads, ih]
    | wm t => simp [payloads, ih]
    | flushBatch => simp [payloads, ih]
    | term => simp [payloads, ih]
    | far => simp [payloads, ih]

theorem inPayloads_append (a b : List (Elem α)) : inPayloads (a ++ b) = inPayloads a ++ inPayloads b := by
  induction a with
  | nil => rfl
  | cons e es ih => cases e <;> simp [inPayloads, ih]

/-- `process_side` of an uncached LEFT side keeps the payloads (and adds none of the other side) -/
theorem processElems_left (mf mt : Nat) (es : List (Elem α)) :
    payloads true (processElems Bin.left Bin.leftEnd false mf mt es).2.2.1 = inPayloads es
    ∧ payloads false (processElems Bin.left Bin.leftEnd false mf mt es).2.2.1 = [] := by
  induction es generalizing mf mt with
  | nil => simp [processElems, payloads, inPayloads]
  | cons e es ih =>
    have := ih (if e.isFar then mf - 1 else mf) (if e.isTerm then mt - 1 else mt)
    cases e <;> simp [processElems, payloads_append, payloads, inPayloads, Elem.isFar, Elem.isTerm, Elem.map] at this ⊢
      <;> (try split) <;> simp [payloads, this]

theorem processElems_right (mf mt : Nat) (es : List (Elem α)) :
    payloads false (processElems Bin.right Bin.rightEnd false mf mt es).2.2.1 = inPayloads es
    ∧ payloads true (processElems Bin.right Bin.rightEnd false mf mt es).2.2.1 = [] := by
  induction es generalizing mf mt with
  | nil => simp [processElems, payloads, inPayloads]
  | cons e es ih =>
    have := ih (if e.isFar then mf - 1 else mf) (if e.isTerm then mt - 1 else mt)
    cases e <;> simp [processElems, payloads_append, payloads, inPayloads, Elem.isFar, Elem.isTerm, Elem.map] at this ⊢
      <;> (try split) <;> simp [payloads, this]

theorem step_dead {β : Type} (s : Noir.Start.State) (h : s.missingTerm = 0) (a : Noir.Start.Arrival β) :
    Noir.Start.step s a = (s, []) := by
  simp [Noir.Start.step, h]

theorem feed_dead {β : Type} (s : Noir.Start.State) (h : s.missingTerm = 0) (r : Nat) (es : List (Elem β)) :
    feed s r es = (s, []) := by
  induction es with
  | nil => rfl
  | cons e es ih => simp [feed, step_dead s h, ih]

/-- a live `Start` passes every data element on and adds none -/
theorem step_payloads (l : Bool) (s : Noir.Start.State) (h : s.missingTerm ≠ 0) (r : Nat) (e : Elem (Bin α)) :
    payloads l (Noir.Start.step s (.elem r e)).2 = payloads l [e] := by
  cases e with
  | item v => simp only [Noir.Start.step, h, if_false]; cases s.pending <;> simp [payloads]
  | ts v t => simp only [Noir.Start.step, h, if_false]; cases s.pending <;> simp [payloads]
  | flushBatch => simp only [Noir.Start.step, h, if_false]; cases s.pending <;> simp [payloads]
  | wm t =>
    simp only [Noir.Start.step, h, if_false]
    cases (s.frontier.update r t).2 <;> simp [payloads]
  | far =>
    simp only [Noir.Start.step, h, if_false, Noir.Start.afterCounters]
    split <;> (try split) <;> simp [payloads]
  | term =>
    simp only [Noir.Start.step, h, if_false, Noir.Start.afterCounters]
    split <;> (try split) <;> simp [payloads]

theorem feed_payloads (l : Bool) (r : Nat) (es : List (Elem (Bin α))) : ∀ (s : Noir.Start.State),
    (feed s r es).1.missingTerm ≠ 0 → payloads l (feed s r es).2 = payloads l es := by
  induction es with
  | nil => intro s _; rfl
  | cons e es ih =>
    intro s h
    by_cases hs : s.missingTerm = 0
    · rw [feed_dead s hs] at h; exact absurd hs h
    · simp only [feed] at h ⊢
      rw [payloads_append, ih _ h, step_payloads l s hs]
      rw [← payloads_append]; rfl

/-- payloads still waiting in the left / right channel -/
def pendL (st : State α) : List α := inPayloads (st.qL.flatMap (·.2))
def pendR (st : State α) : List α := inPayloads (st.qR.flatMap (·.2))

/-- the elements a `select` hands to `Start` -/
def selElems (s : Sel α) : List (Elem (Bin α)) := match s.batch? with | some b => b.2 | none => []

theorem process_out (s : Side α) (w : α → Bin α) (e : Bin α) (r : Nat) (es : List (Elem α)) :
    (s.process w e r es).2.1.2 = (processElems w e s.cached s.missingFar s.missingTerm es).2.2.1 := by
  unfold Side.process; rfl

/-- what the conservation statement needs from one receiver step -/
structure Conserves (st st' : State α) (sel : Sel α) : Prop where
  lc : st'.left.cached = false
  rc : st'.right.cached = false
  left : payloads true (selElems sel) ++ pendL st' = pendL st
  right : payloads false (selElems sel) ++ pendR st' = pendR st

theorem recvLeft_conserves (st : State α) (hl : st.left.cached = false) (hr : st.right.cached = false) :
    Conserves st (recvLeft st).1 (recvLeft st).2 := by
  unfold recvLeft
  split
  · exact ⟨hl, hr, by simp [selElems, Sel.batch?, payloads], by simp [selElems, Sel.batch?, payloads]⟩
  · rename_i r es q hq
    simp only
    split
    · exact ⟨hl, hr, by simp [selElems, Sel.batch?, payloads], by simp [selElems, Sel.batch?, payloads]⟩
    · have hp := processElems_left st.left.missingFar st.left.missingTerm es
      refine ⟨by simp [hl], hr, ?_, ?_⟩
      · simp [selElems, Sel.batch?, process_out, hl, hp.1, pendL, hq, inPayloads_append]
      · simp [selElems, Sel.batch?, process_out, hl, hp.2, pendR]

theorem recvRight_conserves (st : State α) (hl : st.left.cached = false) (hr : st.right.cached = false) :
    Conserves st (recvRight st).1 (recvRight st).2 := by
  unfold recvRight
  split
  · exact ⟨hl, hr, by simp [selElems, Sel.batch?, payloads], by simp [selElems, Sel.batch?, payloads]⟩
  · rename_i r es q hq
    simp only
    split
    · exact ⟨hl, hr, by simp [selElems, Sel.batch?, payloads], by simp [selElems, Sel.batch?, payloads]⟩
    · have hp := processElems_right st.right.missingFar st.right.missingTerm es
      refine ⟨hl, by simp [hr], ?_, ?_⟩
      · simp [selElems, Sel.batch?, process_out, hr, hp.2, pendL]
      · simp [selElems, Sel.batch?, process_out, hr, hp.1, pendR, hq, inPayloads_append]

theorem selectRecv_conserves (st : State α) (hl : st.left.cached = false) (hr : st.right.cached = false) :
    Conserves st (selectRecv ch st).1 (selectRecv ch st).2 := by
  unfold selectRecv
  split
  · exact recvRight_conserves st hl hr
  · split
    · exact recvLeft_conserves st hl hr
    · split
      · split
        · exact recvRight_conserves st hl hr
        · exact recvLeft_conserves st hl hr
        · split
          · have := recvLeft_conserves { st with ambig := st.ambig + 1 } hl hr
            exact ⟨this.lc, this.rc, this.left, this.right⟩
          · have := recvRight_conserves { st with ambig := st.ambig + 1 } hl hr
            exact ⟨this.lc, this.rc, this.left, this.right⟩
      · exact recvRight_conserves st hl hr
      · exact recvLeft_conserves st hl hr
      · exact ⟨hl, hr, by simp [selElems, Sel.batch?, payloads], by simp [selElems, Sel.batch?, payloads]⟩

theorem select_conserves (st : State α) (hl : st.left.cached = false) (hr : st.right.cached = false) :
    Conserves st (select ch st).1 (select ch st).2 := by
  have hpl : (prepare st).left.cached = false := by unfold prepare; split <;> simp [hl]
  have hpr : (prepare st).right.cached = false := by unfold prepare; split <;> simp [hr]
  have hql : pendL (prepare st) = pendL st := by unfold prepare pendL; split <;> rfl
  have hqr : pendR (prepare st) = pendR st := by unfold prepare pendR; split <;> rfl
  unfold select
  split
  · rename_i h
    simp [numTerminates, hl, hr] at h
  · unfold selectBody
    simp only [hpl, hpr, Bool.or_self, Bool.and_false, Bool.false_and, if_false, Bool.false_eq_true]
    have := selectRecv_conserves (ch := ch) (prepare st) hpl hpr
    exact ⟨this.lc, this.rc, by rw [this.left, hql], by rw [this.right, hqr]⟩

theorem selectRecv_start (st : State α) : (selectRecv ch st).1.start = st.start := by
  unfold selectRecv
  split
  · simp
  · split
    · simp
    · split
      · split
        · simp
        · simp
        · split <;> simp
      · simp
      · simp
      · rfl

theorem select_start (st : State α) : (select ch st).1.start = st.start := by
  have hp : (prepare st).start = st.start := by unfold prepare; split <;> rfl
  unfold select
  split
  · rfl
  · rw [← hp]
    unfold selectBody
    split
    · split <;> simp
    · split
      · rfl
      · split
        · rfl
        · exact selectRecv_start _

/-- the protocol's receive timeout: `Start` lets a pending watermark announcement out before the fake
    `FlushBatch` (which is not part of the model's output) and changes nothing else -/
theorem step_timeout {β : Type} (s : Noir.Start.State) (h : s.missingTerm ≠ 0) :
    (Noir.Start.step s (Noir.Start.Arrival.timeout : Noir.Start.Arrival β)).1.n = s.n
    ∧ (Noir.Start.step s (Noir.Start.Arrival.timeout : Noir.Start.Arrival β)).1.missingFar = s.missingFar
    ∧ (Noir.Start.step s (Noir.Start.Arrival.timeout : Noir.Start.Arrival β)).1.missingTerm = s.missingTerm
    ∧ ((s.pending = none
          ∧ (Noir.Start.step s (Noir.Start.Arrival.timeout : Noir.Start.Arrival β)).1 = s
          ∧ (Noir.Start.step s (Noir.Start.Arrival.timeout : Noir.Start.Arrival β)).2.dropLast = [])
        ∨ (∃ p, s.pending = some p
          ∧ (Noir.Start.step s (Noir.Start.Arrival.timeout : Noir.Start.Arrival β)).1.pending = none
          ∧ (Noir.Start.step s (Noir.Start.Arrival.timeout : Noir.Start.Arrival β)).2.dropLast = [Elem.wm p])) := by
  simp only [Noir.Start.step, h, if_false]
  cases hp : s.pending with
  | none => simp
  | some p => simp

theorem pump_conserves : ∀ (fuel : Nat) (st : State α), st.left.cached = false → st.right.cached = false →
    (pump ch fuel st).2.2.2 ≠ .done →
    payloads true (pump ch fuel st).2.1 ++ pendL (pump ch fuel st).1 = pendL st
    ∧ payloads false (pump ch fuel st).2.1 ++ pendR (pump ch fuel st).1 = pendR st := by
  intro fuel
  induction fuel with
  | zero => intro st _ _ _; simp [pump, payloads]
  | succ n ih =>
    intro st hl hr hnd
    have hc := select_conserves (ch := ch) st hl hr
    unfold pump at hnd ⊢
    split at hnd
    · exact absurd rfl hnd
    · rename_i hlive
      rw [if_neg hlive]
      simp only at hnd ⊢
      split at hnd
      · rename_i hb
        have hse : selElems (select ch st).2 = [] := by simp [selElems, hb]
        have hL := hc.left; have hR := hc.right
        rw [hse] at hL hR
        split
        · exact ⟨by simpa [payloads] using hL, by simpa [payloads] using hR⟩
        · split
          · exact ⟨by simpa [payloads, pendL] using hL, by simpa [payloads, pendR] using hR⟩
          · have hlive' : (select ch st).1.start.missingTerm ≠ 0 := by rw [select_start]; exact hlive
            obtain ⟨_, _, _, ht⟩ := step_timeout (β := Bin α) (select ch st).1.start hlive'
            have hpay : ∀ l, payloads l (Noir.Start.step (select ch st).1.start
                (Noir.Start.Arrival.timeout : Noir.Start.Arrival (Bin α))).2.dropLast = [] := by
              intro l
              rcases ht with ⟨_, _, e⟩ | ⟨p, _, _, e⟩ <;> rw [e] <;> simp [payloads]
            simp only [hpay, pendL, pendR, List.nil_append]
            exact ⟨by simpa [payloads, pendL] using hL, by simpa [payloads, pendR] using hR⟩
      · rename_i b hb
        have hse : selElems (select ch st).2 = b.2 := by simp [selElems, hb]
        split at hnd
        · exact absurd rfl hnd
        · rename_i hfed
          rw [if_neg hfed]
          simp only at hnd ⊢
          have hi := ih ({ (select ch st).1 with
              start := (feed (select ch st).1.start b.1 b.2).1, alreadyTimedOut := false }) hc.lc hc.rc hnd
          have hL := hc.left; have hR := hc.right
          rw [hse] at hL hR
          rw [payloads_append, payloads_append, feed_payloads true _ _ _ hfed, feed_payloads false _ _ _ hfed]
          refine ⟨?_, ?_⟩
          · rw [List.append_assoc, hi.1]; exact hL
          · rw [List.append_assoc, hi.2]; exact hR

/-- payloads sent on one side by a history -/
def sentPayloads (left : Bool) : List (Op α) → List α
  | [] => []
  | .enq l _ es :: ops => if l = left then inPayloads es ++ sentPayloads left ops else sentPayloads left ops
  | .pump :: ops => sentPayloads left ops

theorem pump_nocache (fuel : Nat) (st : State α) (hl : st.left.cached = false) (hr : st.right.cached = false) :
    (pump ch fuel st).1.left.cached = false ∧ (pump ch fuel st).1.right.cached = false :=
  pump_preserves (fun st => st.left.cached = false ∧ st.right.cached = false)
    (fun st h => ⟨(select_conserves st h.1 h.2).lc, (select_conserves st h.1 h.2).rc⟩)
    (fun _ _ _ h => h) fuel st ⟨hl, hr⟩

theorem runFrom_conserves (ops : List (Op α)) : ∀ (st : State α) (i : Nat),
    st.left.cached = false → st.right.cached = false → (runFrom ch st i ops).2.2.1 = .idle →
    payloads true ((runFrom ch st i ops).2.1.map (·.2)) ++ pendL (runFrom ch st i ops).1 = pendL st ++ sentPayloads true ops
    ∧ payloads false ((runFrom ch st i ops).2.1.map (·.2)) ++ pendR (runFrom ch st i ops).1 = pendR st ++ sentPayloads false ops := by
  induction ops with
  | nil => intro st i _ _ _; simp [runFrom, payloads, sentPayloads]
  | cons op ops ih =>
    intro st i hl hr hidle
    cases op with
    | enq l r es =>
      simp only [runFrom] at hidle ⊢
      have := ih (enqueue st l r es) (i + 1) (by cases l <;> simp [enqueue, hl]) (by cases l <;> simp [enqueue, hr]) hidle
      cases l
      · simpa [enqueue, pendL, pendR, sentPayloads, inPayloads_append] using this
      · simpa [enqueue, pendL, pendR, sentPayloads, inPayloads_append] using this
    | pump =>
      simp only [runFrom] at hidle ⊢
      have hnc := pump_nocache (ch := ch) (pumpFuel st) st hl hr
      split at hidle
      · rename_i hoc
        have hp := pump_conserves (pumpFuel st) st hl hr (by rw [hoc]; simp)
        have hi := ih (pump ch (pumpFuel st) st).1 (i + 1) hnc.1 hnc.2 hidle
        simp only [sentPayloads]
        simp only [List.map_append, List.map_map, payloads_append]
        have hm : List.map ((fun x => x.2) ∘ fun e => (i, e)) (pump ch (pumpFuel st) st).2.1 = (pump ch (pumpFuel st) st).2.1 := by
          simp [Function.comp_def]
        rw [hm]
        refine ⟨?_, ?_⟩
        · rw [List.append_assoc, hi.1, ← List.append_assoc, hp.1]
        · rw [List.append_assoc, hi.2, ← List.append_assoc, hp.2]
      · rename_i hne
        exact absurd hidle (by simpa using hne)

theorem select_leftDone_cache {st : State α} {q} (h : LeftDone st q) :
    (select ch st).1.left.cache = st.left.cache := by
  have hp := prepare_leftDone h
  have hpc : (prepare st).left.cache = st.left.cache := by unfold prepare; split <;> simp
  unfold select
  split
  · rfl
  · rw [← hpc]
    unfold selectBody
    split
    · rw [if_pos hp.cached]; simp
    · split
      · simp
      · split
        · rfl
        · unfold selectRecv; rw [if_pos hp.isEnded]; simp

theorem pump_leftDone_cache {q} (fuel : Nat) (st : State α) (h : LeftDone st q) :
    (pump ch fuel st).1.left.cache = st.left.cache :=
  (pump_preserves (fun s => LeftDone s q ∧ s.left.cache = st.left.cache)
    (fun s hs => ⟨select_leftDone hs.1, by rw [select_leftDone_cache hs.1]; exact hs.2⟩)
    (fun _ _ _ hs => ⟨⟨hs.1.cached, hs.1.term, hs.1.queue⟩, hs.2⟩) fuel st ⟨h, rfl⟩).2

/-! ## `Terminate` once and last -/

/-- a live `Start` either stays alive and emits no `Terminate`, or dies emitting exactly `[Terminate]` -/
theorem step_term {β : Type} (s : Noir.Start.State) (h : s.missingTerm ≠ 0) (a : Noir.Start.Arrival β) :
    ((Noir.Start.step s a).1.missingTerm ≠ 0 ∧ Elem.term ∉ (Noir.Start.step s a).2)
    ∨ ((Noir.Start.step s a).1.missingTerm = 0 ∧ (Noir.Start.step s a).2 = [Elem.term]) := by
  cases a with
  | timeout => left; simp only [Noir.Start.step, h, if_false]; cases s.pending <;> simp [h]
  | elem r e =>
    cases e with
    | item v => left; simp only [Noir.Start.step, h, if_false]; cases s.pending <;> simp [h]
    | ts v t => left; simp only [Noir.Start.step, h, if_false]; cases s.pending <;> simp [h]
    | flushBatch => left; simp only [Noir.Start.step, h, if_false]; cases s.pending <;> simp [h]
    | wm t =>
      left
      simp only [Noir.Start.step, h, if_false]
      cases (s.frontier.update r t).2 <;> simp [h]
    | far =>
      simp only [Noir.Start.step, h, if_false, Noir.Start.afterCounters]
      split <;> (left; simp_all)
    | term =>
      simp only [Noir.Start.step, h, if_false, Noir.Start.afterCounters]
      split
      · right; simp_all
      · split <;> (left; simp_all)

theorem feed_term {β : Type} (r : Nat) (es : List (Elem β)) : ∀ (s : Noir.Start.State), s.missingTerm ≠ 0 →
    ((feed s r es).1.missingTerm ≠ 0 ∧ Elem.term ∉ (feed s r es).2)
    ∨ ((feed s r es).1.missingTerm = 0 ∧ ∃ pre, (feed s r es).2 = pre ++ [Elem.term] ∧ Elem.term ∉ pre) := by
  induction es with
  | nil => intro s h; left; simp [feed, h]
  | cons e es ih =>
    intro s h
    simp only [feed]
    rcases step_term s h (.elem r e) with ⟨h1, h2⟩ | ⟨h1, h2⟩
    · rcases ih _ h1 with ⟨i1, i2⟩ | ⟨i1, pre, i2, i3⟩
      · left; exact ⟨i1, by simp [h2, i2]⟩
      · right; exact ⟨i1, (Noir.Start.step s (.elem r e)).2 ++ pre, by rw [i2, List.append_assoc], by simp [h2, i3]⟩
    · right
      rw [feed_dead _ h1, h2]
      exact ⟨h1, [], by simp, by simp⟩

/-- `Terminate` is the last thing a pump returns, at most once, and exactly when it ends `done` -/
theorem pump_term : ∀ (fuel : Nat) (st : State α), st.start.missingTerm ≠ 0 →
    ((pump ch fuel st).2.2.2 ≠ .done ∧ (pump ch fuel st).1.start.missingTerm ≠ 0 ∧ Elem.term ∉ (pump ch fuel st).2.1)
    ∨ ((pump ch fuel st).2.2.2 = .done ∧ ∃ pre, (pump ch fuel st).2.1 = pre ++ [Elem.term] ∧ Elem.term ∉ pre) := by
  intro fuel
  induction fuel with
  | zero => intro st h; left; simp [pump, h]
  | succ n ih =>
    intro st h
    unfold pump
    rw [if_neg h]
    simp only
    split
    · left
      split
      · simp [select_start, h]
      · split
        · simp [select_start, h]
        · have hlive' : (select ch st).1.start.missingTerm ≠ 0 := by rw [select_start]; exact h
          obtain ⟨_, _, t3, ht⟩ := step_timeout (β := Bin α) (select ch st).1.start hlive'
          refine ⟨by simp, by simp only; rw [t3]; exact hlive', ?_⟩
          rcases ht with ⟨_, _, e⟩ | ⟨p, _, _, e⟩ <;> simp only [e] <;> simp
    · rename_i b hb
      have hs : (select ch st).1.start.missingTerm ≠ 0 := by rw [select_start]; exact h
      rcases feed_term b.1 b.2 _ hs with ⟨f1, f2⟩ | ⟨f1, pre, f2, f3⟩
      · rw [if_neg f1]
        simp only
        rcases ih ({ (select ch st).1 with start := (feed (select ch st).1.start b.1 b.2).1, alreadyTimedOut := false }) f1
          with ⟨i1, i2, i3⟩ | ⟨i1, pre, i2, i3⟩
        · left; exact ⟨i1, i2, by simp [f2, i3]⟩
        · right; exact ⟨i1, (feed (select ch st).1.start b.1 b.2).2 ++ pre, by rw [i2, List.append_assoc], by simp [f2, i3]⟩
      · rw [if_pos f1]
        right; exact ⟨rfl, pre, f2, f3⟩

theorem map_tag {β : Type} (i : Nat) (l : List β) : (l.map (fun e => (i, e))).map (·.2) = l := by
  simp [Function.comp_def]

theorem runFrom_term (ops : List (Op α)) : ∀ (st : State α) (i : Nat), st.start.missingTerm ≠ 0 →
    ((runFrom ch st i ops).2.2.1 ≠ .done ∧ Elem.term ∉ (runFrom ch st i ops).2.1.map (·.2))
    ∨ ((runFrom ch st i ops).2.2.1 = .done
        ∧ ∃ pre, (runFrom ch st i ops).2.1.map (·.2) = pre ++ [Elem.term] ∧ Elem.term ∉ pre) := by
  induction ops with
  | nil => intro st i _; left; simp [runFrom]
  | cons op ops ih =>
    intro st i h
    cases op with
    | enq l r es =>
      simp only [runFrom]
      exact ih (enqueue st l r es) (i + 1) (by cases l <;> simpa [enqueue] using h)
    | pump =>
      simp only [runFrom]
      have hp := pump_term (ch := ch) (pumpFuel st) st h
      split
      · rename_i hoc
        rcases hp with ⟨_, p2, p3⟩ | ⟨p1, _⟩
        · rcases ih (pump ch (pumpFuel st) st).1 (i + 1) p2 with ⟨i1, i2⟩ | ⟨i1, pre, i2, i3⟩
          · left
            refine ⟨i1, ?_⟩
            simp only [List.map_append, map_tag]
            simp only [List.mem_append, not_or]
            exact ⟨p3, i2⟩
          · right
            refine ⟨i1, (pump ch (pumpFuel st) st).2.1 ++ pre, ?_, ?_⟩
            · simp only [List.map_append, map_tag, i2, List.append_assoc]
            · simp only [List.mem_append, not_or]; exact ⟨p3, i3⟩
        · rw [hoc] at p1; cases p1
      · rcases hp with ⟨p1, _, p3⟩ | ⟨p1, pre, p2, p3⟩
        · left; exact ⟨p1, by simpa only [map_tag] using p3⟩
        · right; exact ⟨p1, pre, by simpa only [map_tag] using p2, p3⟩

/-! ## Input contract (batch level) -/

theorem plainPart_plain {β : Type} (es : List (Elem β)) : ∀ e ∈ plainPart es, plainE e = true := by
  intro e he
  unfold plainPart at he
  induction es with
  | nil => simp at he
  | cons x xs ih =>
    simp only [List.takeWhile_cons] at he
    split at he
    · rename_i hx
      rcases List.mem_cons.mp he with h | h
      · rw [h]; exact hx
      · exact ih h
    · simp at he

theorem batch_split {β : Type} (es : List (Elem β)) : es = plainPart es ++ es.dropWhile plainE :=
  (List.takeWhile_append_dropWhile).symm

/-- `process_side` on plain elements: wrapped one by one, counters untouched -/
theorem processElems_plain (wrap : α → Bin α) (end_ : Bin α) (cached : Bool) (d rest : List (Elem α))
    (hd : ∀ e ∈ d, plainE e = true) (mf mt : Nat) :
    processElems wrap end_ cached mf mt (d ++ rest) =
      ((processElems wrap end_ cached mf mt rest).1, (processElems wrap end_ cached mf mt rest).2.1,
       d.map (Elem.map wrap) ++ (processElems wrap end_ cached mf mt rest).2.2.1,
       (processElems wrap end_ cached mf mt rest).2.2.2) := by
  induction d with
  | nil => simp
  | cons e d ih =>
    have he : plainE e = true := hd e (by simp)
    have ih' := ih (fun x hx => hd x (by simp [hx]))
    have hf : e.isFar = false := by simp [plainE] at he; exact he.1
    have ht : e.isTerm = false := by simp [plainE] at he; exact he.2
    simp only [List.cons_append, processElems, hf, ht, Bool.false_eq_true, if_false, Bool.false_and, Bool.false_or]
    rw [ih']
    simp

theorem tailKind_cases {β : Type} {tl : List (Elem β)} {hf ht : Bool} (h : tailKind tl = some (hf, ht)) :
    (tl = [] ∧ hf = false ∧ ht = false) ∨ (tl = [.far] ∧ hf = true ∧ ht = false)
    ∨ (tl = [.far, .term] ∧ hf = true ∧ ht = true) ∨ (tl = [.term] ∧ hf = false ∧ ht = true) := by
  unfold tailKind at h
  split at h <;> simp_all


/-! ## `Start` on the three kinds of batches -/

theorem feed_append {β : Type} (s : Noir.Start.State) (r : Nat) (a b : List (Elem β)) :
    feed s r (a ++ b) = ((feed (feed s r a).1 r b).1, (feed s r a).2 ++ (feed (feed s r a).1 r b).2) := by
  induction a generalizing s with
  | nil => simp [feed]
  | cons e a ih => simp [feed, ih, List.append_assoc]

/-- a live `Start` on plain elements: counters untouched, every data element (and End marker)
    passed on in order, nothing but plain elements returned -/
theorem feed_plain (r : Nat) (d : List (Elem (Bin α))) (hd : ∀ e ∈ d, plainE e = true) :
    ∀ (s : Noir.Start.State), s.missingTerm ≠ 0 →
    (feed s r d).1.n = s.n ∧ (feed s r d).1.missingFar = s.missingFar
    ∧ (feed s r d).1.missingTerm = s.missingTerm
    ∧ (∀ l, presented l (feed s r d).2 = presented l d)
    ∧ (∀ e ∈ (feed s r d).2, plainE e = true) := by
  induction d with
  | nil => intro s _; simp [feed, presented]
  | cons e d ih =>
    intro s hs
    have he : plainE e = true := hd e (by simp)
    have ih' := ih (fun x hx => hd x (by simp [hx]))
    have key : (Noir.Start.step s (.elem r e)).1.n = s.n
        ∧ (Noir.Start.step s (.elem r e)).1.missingFar = s.missingFar
        ∧ (Noir.Start.step s (.elem r e)).1.missingTerm = s.missingTerm
        ∧ (∀ l, presented l (Noir.Start.step s (.elem r e)).2 = presented l [e])
        ∧ (∀ x ∈ (Noir.Start.step s (.elem r e)).2, plainE x = true) := by
      cases e with
      | item v =>
        simp only [Noir.Start.step, hs, if_false]
        cases s.pending <;> simp [presented, ofSide, plainE, Elem.isFar, Elem.isTerm]
      | ts v t =>
        simp only [Noir.Start.step, hs, if_false]
        cases s.pending <;> simp [presented, ofSide, plainE, Elem.isFar, Elem.isTerm]
      | flushBatch =>
        simp only [Noir.Start.step, hs, if_false]
        cases s.pending <;> simp [presented, ofSide, plainE, Elem.isFar, Elem.isTerm]
      | wm t =>
        simp only [Noir.Start.step, hs, if_false]
        cases (s.frontier.update r t).2 <;> simp [presented, ofSide, plainE, Elem.isFar, Elem.isTerm]
      | far => simp [plainE, Elem.isFar] at he
      | term => simp [plainE, Elem.isTerm, Elem.isFar] at he
    obtain ⟨k1, k2, k3, k4, k5⟩ := key
    have hs' : (Noir.Start.step s (.elem r e)).1.missingTerm ≠ 0 := by rw [k3]; exact hs
    obtain ⟨i1, i2, i3, i4, i5⟩ := ih' _ hs'
    simp only [feed]
    refine ⟨by rw [i1, k1], by rw [i2, k2], by rw [i3, k3], ?_, ?_⟩
    · intro l
      have : presented l (e :: d) = presented l [e] ++ presented l d := by
        show List.filter _ ([e] ++ d) = _
        rw [List.filter_append]; rfl
      rw [this, ← k4 l, ← i4 l]; simp [presented]
    · intro x hx
      rcases List.mem_append.mp hx with h | h
      · exact k5 x h
      · exact i5 x h

/-- a live `Start` consuming one `FlushAndRestart` -/
theorem step_far {β : Type} (s : Noir.Start.State) (r : Nat) (hs : s.missingTerm ≠ 0) :
    (Noir.Start.step s (.elem r (Elem.far : Elem β))).1.n = s.n
    ∧ (Noir.Start.step s (.elem r (Elem.far : Elem β))).1.missingTerm = s.missingTerm
    ∧ (if s.missingFar - 1 = 0
       then (Noir.Start.step s (.elem r (Elem.far : Elem β))).1.missingFar = s.n
            ∧ (Noir.Start.step s (.elem r (Elem.far : Elem β))).2 = [Elem.far]
       else (Noir.Start.step s (.elem r (Elem.far : Elem β))).1.missingFar = s.missingFar - 1
            ∧ (Noir.Start.step s (.elem r (Elem.far : Elem β))).2 = []) := by
  simp only [Noir.Start.step, hs, if_false, Noir.Start.afterCounters]
  split <;> simp_all

/-- a live `Start` (not at a round end) consuming one `Terminate` -/
theorem step_termE {β : Type} (s : Noir.Start.State) (r : Nat) (hs : s.missingTerm ≠ 0) (hf : s.missingFar ≠ 0) :
    (Noir.Start.step s (.elem r (Elem.term : Elem β))).1.n = s.n
    ∧ (Noir.Start.step s (.elem r (Elem.term : Elem β))).1.missingFar = s.missingFar
    ∧ (Noir.Start.step s (.elem r (Elem.term : Elem β))).1.missingTerm = s.missingTerm - 1
    ∧ (Noir.Start.step s (.elem r (Elem.term : Elem β))).2 = (if s.missingTerm - 1 = 0 then [Elem.term] else []) := by
  simp only [Noir.Start.step, hs, if_false, Noir.Start.afterCounters]
  split <;> simp_all

/-- `k ≤ missing_terminate` `Terminate`s in one batch -/
theorem feed_terms {β : Type} (r : Nat) : ∀ (k : Nat) (s : Noir.Start.State), s.missingFar ≠ 0 → k ≤ s.missingTerm →
    s.missingTerm ≠ 0 →
    (feed s r (List.replicate k (Elem.term : Elem β))).1.n = s.n
    ∧ (feed s r (List.replicate k (Elem.term : Elem β))).1.missingFar = s.missingFar
    ∧ (feed s r (List.replicate k (Elem.term : Elem β))).1.missingTerm = s.missingTerm - k
    ∧ (feed s r (List.replicate k (Elem.term : Elem β))).2 = (if k = s.missingTerm then [Elem.term] else []) := by
  intro k
  induction k with
  | zero =>
    intro s _ _ hs
    have : ¬ (0 = s.missingTerm) := fun h => hs h.symm
    simp [feed, this]
  | succ k ih =>
    intro s hf hk hs
    obtain ⟨t1, t2, t3, t4⟩ := step_termE (β := β) s r hs hf
    simp only [List.replicate_succ, feed]
    by_cases hlast : s.missingTerm - 1 = 0
    · have hk0 : k = 0 := by omega
      subst hk0
      simp only [List.replicate_zero, feed, List.append_nil]
      refine ⟨t1, t2, by rw [t3], ?_⟩
      rw [t4, if_pos hlast, if_pos (by omega)]
    · obtain ⟨i1, i2, i3, i4⟩ := ih _ (by rw [t2]; exact hf) (by rw [t3]; omega) (by rw [t3]; exact hlast)
      refine ⟨by rw [i1, t1], by rw [i2, t2], by rw [i3, t3]; omega, ?_⟩
      rw [t4, if_neg hlast, i4, t3]
      by_cases h : k = s.missingTerm - 1
      · rw [if_pos h, if_pos (by omega)]; rfl
      · rw [if_neg h, if_neg (by omega)]; rfl

/-! ## Output shape: closed rounds and the open one -/

def joinRounds {β : Type} (rs : List (List (Elem β))) : List (Elem β) := rs.flatMap (· ++ [Elem.far])

def Clean {β : Type} (l : List (Elem β)) : Prop := ∀ e ∈ l, plainE e = true

theorem joinRounds_append {β : Type} (a b : List (List (Elem β))) :
    joinRounds (a ++ b) = joinRounds a ++ joinRounds b := by simp [joinRounds]

theorem splitGo_clean {β : Type} (d : List (Elem β)) (hd : Clean d) (rest cur : List (Elem β))
    (acc : List (List (Elem β))) : splitGo (d ++ rest) cur acc = splitGo rest (d.reverse ++ cur) acc := by
  induction d generalizing cur with
  | nil => rfl
  | cons e d ih =>
    have he : plainE e = true := hd e (by simp)
    have ih' := ih (fun x hx => hd x (by simp [hx]))
    cases e with
    | far => simp [plainE, Elem.isFar] at he
    | item v => simp [splitGo, ih']
    | ts v t => simp [splitGo, ih']
    | wm t => simp [splitGo, ih']
    | flushBatch => simp [splitGo, ih']
    | term => simp [plainE, Elem.isTerm, Elem.isFar] at he

theorem splitGo_join {β : Type} (rs : List (List (Elem β))) (hrs : ∀ r ∈ rs, Clean r) (rest : List (Elem β))
    (acc : List (List (Elem β))) : splitGo (joinRounds rs ++ rest) [] acc = splitGo rest [] (rs.reverse ++ acc) := by
  induction rs generalizing acc with
  | nil => rfl
  | cons r rs ih =>
    have ih' := ih (fun x hx => hrs x (by simp [hx]))
    simp only [joinRounds, List.flatMap_cons, List.append_assoc] at ih' ⊢
    rw [splitGo_clean r (hrs r (by simp))]
    simp only [List.singleton_append, splitGo, List.append_nil, List.reverse_reverse]
    rw [ih']
    simp

/-- the rounds of a shaped output are its rounds -/
theorem splitRounds_shape {β : Type} (rs : List (List (Elem β))) (hrs : ∀ r ∈ rs, Clean r)
    (cur : List (Elem β)) (hc : ∀ e ∈ cur, e.isFar = false) :
    splitRounds (joinRounds rs ++ cur) = (rs, cur) := by
  unfold splitRounds
  rw [splitGo_join rs hrs]
  have : ∀ (cur acc' : List (Elem β)) (acc : List (List (Elem β))), (∀ e ∈ cur, e.isFar = false) →
      splitGo cur acc' acc = (acc.reverse, acc'.reverse ++ cur) := by
    intro cur
    induction cur with
    | nil => intro acc' acc _; simp [splitGo]
    | cons e cur ih =>
      intro acc' acc h
      have he := h e (by simp)
      have ih' := ih (e :: acc') acc (fun x hx => h x (by simp [hx]))
      cases e with
      | far => simp [Elem.isFar] at he
      | item v => simp [splitGo, ih']
      | ts v t => simp [splitGo, ih']
      | wm t => simp [splitGo, ih']
      | flushBatch => simp [splitGo, ih']
      | term => simp [splitGo, ih']
  rw [this cur [] _ hc]
  simp

theorem grammarGo_clean {β : Type} (d : List (Elem β)) (hd : Clean d) (rest : List (Elem β)) (b : Bool) :
    grammarGo b (d ++ Elem.far :: rest) = grammarGo true rest := by
  induction d generalizing b with
  | nil => simp [grammarGo]
  | cons e d ih =>
    have he : plainE e = true := hd e (by simp)
    have ih' := ih (fun x hx => hd x (by simp [hx]))
    cases e with
    | far => simp [plainE, Elem.isFar] at he
    | term => simp [plainE, Elem.isTerm, Elem.isFar] at he
    | item v => simp [grammarGo, ih']
    | ts v t => simp [grammarGo, ih']
    | wm t => simp [grammarGo, ih']
    | flushBatch => simp [grammarGo, ih']

/-- closed rounds followed by `Terminate` form a complete, well-formed stream -/
theorem grammarOk_rounds {β : Type} (rs : List (List (Elem β))) (hrs : ∀ r ∈ rs, Clean r) (hne : rs ≠ []) :
    grammarOk (joinRounds rs ++ [Elem.term]) = true := by
  have : ∀ (rs : List (List (Elem β))), (∀ r ∈ rs, Clean r) → ∀ b, (b = true ∨ rs ≠ []) →
      grammarGo b (joinRounds rs ++ [Elem.term]) = true := by
    intro rs
    induction rs with
    | nil => intro _ b hb; rcases hb with hb | hb; · simp [joinRounds, grammarGo, hb]
             · exact absurd rfl hb
    | cons r rs ih =>
      intro h b _
      have e1 : joinRounds (r :: rs) ++ [Elem.term] = r ++ Elem.far :: (joinRounds rs ++ [Elem.term]) := by
        simp [joinRounds]
      rw [e1, grammarGo_clean r (h r (by simp))]
      exact ih (fun x hx => h x (by simp [hx])) true (Or.inl rfl)
  exact this rs hrs false (Or.inr hne)


/-! ## `process_side` on contract-respecting batches -/

theorem plain_map (w : α → Bin α) (d : List (Elem α)) (hd : ∀ e ∈ d, plainE e = true) :
    Clean (d.map (Elem.map w)) := by
  intro e he
  obtain ⟨x, hx, rfl⟩ := List.mem_map.mp he
  have := hd x hx
  cases x <;> simp_all [plainE, Elem.map, Elem.isFar, Elem.isTerm]

/-- the elements `process_side` makes of a batch `d ++ tail` of the (cached) left side -/
def outL (L : Side α) (d : List (Elem α)) (hf : Bool) : List (Elem (Bin α)) :=
  d.map (Elem.map Bin.left) ++
    (if hf then (if L.missingFar - 1 = 0 then [Elem.item Bin.leftEnd] else []) ++ [Elem.far] else [])

theorem procL (L : Side α) (r : Nat) (d tl : List (Elem α)) (hf ht : Bool) (hc : L.cached = true)
    (hd : ∀ e ∈ d, plainE e = true)
    (hk : tailKind tl = some (hf, ht)) (h1 : hf = true → L.missingFar ≠ 0) (h2 : ht = true → L.missingTerm ≠ 0) :
    (L.process Bin.left Bin.leftEnd r (d ++ tl)).2.2 = false
    ∧ (L.process Bin.left Bin.leftEnd r (d ++ tl)).2.1 = (r, outL L d hf)
    ∧ (L.process Bin.left Bin.leftEnd r (d ++ tl)).1 =
        { L with missingFar := L.missingFar - b2n hf, missingTerm := L.missingTerm - b2n ht,
                 cache := L.cache ++ [(r, outL L d hf)], cachePointer := L.cache.length + 1 } := by
  unfold Side.process
  rw [processElems_plain _ _ _ _ _ hd]
  rcases tailKind_cases hk with ⟨e1, e2, e3⟩ | ⟨e1, e2, e3⟩ | ⟨e1, e2, e3⟩ | ⟨e1, e2, e3⟩
  · subst e1; subst e2; subst e3
    simp [processElems, hc, outL, b2n]
  · subst e1; subst e2; subst e3
    have := h1 rfl
    simp [processElems, hc, outL, b2n, Elem.isFar, Elem.isTerm, Elem.map, this]
  · subst e1; subst e2; subst e3
    have := h1 rfl; have := h2 rfl
    simp [processElems, hc, outL, b2n, Elem.isFar, Elem.isTerm, Elem.map, *]
  · subst e1; subst e2; subst e3
    have := h2 rfl
    simp [processElems, hc, outL, b2n, Elem.isFar, Elem.isTerm, Elem.map, this]

/-- the elements `process_side` makes of a round batch `d ++ tail` of the (uncached) right side -/
def outR (R : Side α) (d : List (Elem α)) (hf : Bool) : List (Elem (Bin α)) :=
  d.map (Elem.map Bin.right) ++
    (if hf then (if R.missingFar - 1 = 0 then [Elem.item Bin.rightEnd] else []) ++ [Elem.far] else [])

theorem procR (R : Side α) (r : Nat) (d tl : List (Elem α)) (hf : Bool) (hc : R.cached = false)
    (hd : ∀ e ∈ d, plainE e = true)
    (hk : tailKind tl = some (hf, false)) (h1 : hf = true → R.missingFar ≠ 0) :
    (R.process Bin.right Bin.rightEnd r (d ++ tl)).2.2 = false
    ∧ (R.process Bin.right Bin.rightEnd r (d ++ tl)).2.1 = (r, outR R d hf)
    ∧ (R.process Bin.right Bin.rightEnd r (d ++ tl)).1 = { R with missingFar := R.missingFar - b2n hf } := by
  unfold Side.process
  rw [processElems_plain _ _ _ _ _ hd]
  rcases tailKind_cases hk with ⟨e1, e2, e3⟩ | ⟨e1, e2, e3⟩ | ⟨e1, e2, e3⟩ | ⟨e1, e2, e3⟩
  · subst e1; subst e2
    simp [processElems, hc, outR, b2n]
  · subst e1; subst e2
    have := h1 rfl
    simp [processElems, hc, outR, b2n, Elem.isFar, Elem.isTerm, Elem.map, this]
  · cases e3
  · cases e3

theorem procRterm (R : Side α) (r : Nat) (hc : R.cached = false) (h2 : R.missingTerm ≠ 0) :
    (R.process Bin.right Bin.rightEnd r [Elem.term]).2.2 = false
    ∧ (R.process Bin.right Bin.rightEnd r [Elem.term]).2.1 = (r, [Elem.term])
    ∧ (R.process Bin.right Bin.rightEnd r [Elem.term]).1 = { R with missingTerm := R.missingTerm - 1 } := by
  unfold Side.process
  simp [processElems, hc, Elem.isFar, Elem.isTerm, Elem.map, h2]

/-- `FlushAndRestart`s `Start` still waits for, as a function of the number `s` still to come in the round -/
def startFar (nL nR s : Nat) : Nat := if s = 0 then nL + nR else s

/-- `Start` on a plain batch, possibly ending with `FlushAndRestart`, `s` = `FlushAndRestart`s still to
    come in this round -/
theorem feed_batch (S : Noir.Start.State) (r : Nat) (dd : List (Elem (Bin α))) (hf : Bool) (nL nR s : Nat)
    (hdd : Clean dd) (hlive : S.missingTerm ≠ 0) (hn : S.n = nL + nR)
    (hS : S.missingFar = startFar nL nR s) (hs : hf = true → 1 ≤ s) :
    (feed S r (dd ++ if hf then [Elem.far] else [])).1.n = nL + nR
    ∧ (feed S r (dd ++ if hf then [Elem.far] else [])).1.missingTerm = S.missingTerm
    ∧ (feed S r (dd ++ if hf then [Elem.far] else [])).1.missingFar = startFar nL nR (s - b2n hf)
    ∧ ∃ op, Clean op ∧ (∀ l, presented l op = presented l dd)
        ∧ (feed S r (dd ++ if hf then [Elem.far] else [])).2
            = op ++ (if hf && decide (s = 1) then [Elem.far] else []) := by
  obtain ⟨p1, p2, p3, p4, p5⟩ := feed_plain r dd hdd S hlive
  rw [feed_append]
  cases hf with
  | false =>
    simp only [Bool.false_eq_true, if_false, feed, b2n, Nat.sub_zero, Bool.false_and, List.append_nil]
    exact ⟨by rw [p1, hn], p3, by rw [p2, hS], (feed S r dd).2, p5, p4, rfl⟩
  | true =>
    have hs1 := hs rfl
    have hlive' : (feed S r dd).1.missingTerm ≠ 0 := by rw [p3]; exact hlive
    obtain ⟨f1, f2, f3⟩ := step_far (β := Bin α) (feed S r dd).1 r hlive'
    have hmf : (feed S r dd).1.missingFar = s := by
      rw [p2, hS]; unfold startFar; rw [if_neg (by omega)]
    simp only [if_true, feed, List.append_nil, b2n, Bool.true_and]
    by_cases h1 : s = 1
    · rw [if_pos (by rw [hmf, h1])] at f3
      refine ⟨by rw [f1, p1, hn], by rw [f2, p3], ?_, (feed S r dd).2, p5, p4, ?_⟩
      · rw [f3.1, p1, hn, h1]; simp [startFar]
      · rw [f3.2]; simp [h1]
    · rw [if_neg (by rw [hmf]; omega)] at f3
      refine ⟨by rw [f1, p1, hn], by rw [f2, p3], ?_, (feed S r dd).2, p5, p4, ?_⟩
      · rw [f3.1, hmf]; unfold startFar; rw [if_neg (by omega)]
      · rw [f3.2]; simp [h1]

/-! ## Pending watermark announcements -/

theorem step_far_pending {β : Type} (s : Noir.Start.State) (r : Nat) (hs : s.missingTerm ≠ 0)
    (h1 : s.missingFar - 1 = 0) : (Noir.Start.step s (.elem r (Elem.far : Elem β))).1.pending = none := by
  simp only [Noir.Start.step, hs, if_false, Noir.Start.afterCounters]
  simp [h1, hs]

/-- the batch that closes a round leaves no watermark announcement pending -/
theorem feed_batch_pending (S : Noir.Start.State) (r : Nat) (dd : List (Elem (Bin α))) (nL nR : Nat)
    (hdd : Clean dd) (hlive : S.missingTerm ≠ 0) (hS : S.missingFar = startFar nL nR 1) :
    (feed S r (dd ++ [Elem.far])).1.pending = none := by
  obtain ⟨_, p2, p3, _, _⟩ := feed_plain r dd hdd S hlive
  rw [feed_append]
  simp only [feed]
  apply step_far_pending
  · rw [p3]; exact hlive
  · rw [p2, hS]; simp [startFar]

theorem step_term_pending {β : Type} (s : Noir.Start.State) (r : Nat) (hs : s.missingTerm ≠ 0) (hf : s.missingFar ≠ 0) :
    (Noir.Start.step s (.elem r (Elem.term : Elem β))).1.pending = s.pending := by
  simp only [Noir.Start.step, hs, if_false, Noir.Start.afterCounters]
  split <;> simp_all

theorem feed_terms_pending {β : Type} (r : Nat) : ∀ (k : Nat) (s : Noir.Start.State), s.missingFar ≠ 0 →
    k ≤ s.missingTerm → s.missingTerm ≠ 0 →
    (feed s r (List.replicate k (Elem.term : Elem β))).1.pending = s.pending := by
  intro k
  induction k with
  | zero => intro s _ _ _; rfl
  | succ k ih =>
    intro s hf hk hs
    obtain ⟨_, t2, t3, _⟩ := step_termE (β := β) s r hs hf
    have tp := step_term_pending (β := β) s r hs hf
    simp only [List.replicate_succ, feed]
    by_cases hlast : s.missingTerm - 1 = 0
    · have hk0 : k = 0 := by omega
      subst hk0
      simpa [feed] using tp
    · rw [ih _ (by rw [t2]; exact hf) (by rw [t3]; omega) (by rw [t3]; exact hlast), tp]

/-! ## The invariant (left side cached) -/

def farsIn {β : Type} (es : List (Elem β)) : Nat := (es.filter Elem.isFar).length

def cacheEls (c : List (Batch (Bin α))) : List (Elem (Bin α)) := c.flatMap (·.2)

/-- what the cache presents of the cached side -/
def cacheP (L : Side α) : List (Elem (Bin α)) := presented true (cacheEls L.cache)

/-- the End marker of the left side -/
def isLE : Elem (Bin α) → Bool
  | .item .leftEnd => true
  | _ => false

/-- number of End markers of the left side -/
def markers (es : List (Elem (Bin α))) : Nat := (es.filter isLE).length

theorem markers_append (a b : List (Elem (Bin α))) : markers (a ++ b) = markers a + markers b := by
  simp [markers]

theorem markers_presented (es : List (Elem (Bin α))) : markers (presented true es) = markers es := by
  unfold markers presented
  rw [List.filter_filter]
  congr 1
  apply List.filter_congr
  intro e _
  cases e with
  | item v => cases v <;> simp [isLE, ofSide]
  | _ => simp [isLE]

/-- what holds in every phase -/
structure Common (nL nR : Nat) (L R : Side α) (S : Noir.Start.State) : Prop where
  nLpos : 0 < nL
  nRpos : 0 < nR
  lc : L.cached = true
  rc : R.cached = false
  li : L.instances = nL
  ri : R.instances = nR
  rcache : R.cache = []
  rptr : R.cachePointer = 0
  sn : S.n = nL + nR
  sT : S.missingTerm = nL + R.missingTerm
  /-- every cached batch is plain or ends with its single `FlushAndRestart` -/
  shapes : ∀ b ∈ L.cache, ∃ (dd : List (Elem (Bin α))) (hf : Bool), b.2 = dd ++ (if hf then [Elem.far] else []) ∧ Clean dd
  /-- what was cached after the last `FlushAndRestart` of the cached side is empty -/
  post : ∀ p, farsIn (cacheEls (L.cache.take p)) = nL → ∀ b ∈ L.cache.drop p, b.2 = []
  /-- the End marker of the cached side is in the cache exactly once, from its last `FlushAndRestart` on -/
  mark : markers (cacheEls L.cache) = if farsIn (cacheEls L.cache) = nL then 1 else 0

/-- the output so far: closed rounds `rs` (each presenting the cached side as `P`) and the open round -/
structure Shaped (P : List (Elem (Bin α))) (acc : List (Elem (Bin α))) (rs : List (List (Elem (Bin α))))
    (cur : List (Elem (Bin α))) : Prop where
  eq : acc = joinRounds rs ++ cur
  clean : ∀ r ∈ rs, Clean r
  cleanCur : Clean cur
  same : ∀ r ∈ rs, presented true r = P

theorem Shaped.open_ {P acc rs cur} (h : Shaped (α := α) P acc rs cur) (op : List (Elem (Bin α))) (hop : Clean op) :
    Shaped P (acc ++ op) rs (cur ++ op) :=
  ⟨by rw [h.eq, List.append_assoc], h.clean,
   fun e he => (List.mem_append.mp he).elim (h.cleanCur e) (hop e), h.same⟩

theorem Shaped.close {P acc rs cur} (h : Shaped (α := α) P acc rs cur) (op : List (Elem (Bin α))) (hop : Clean op)
    (hP : presented true (cur ++ op) = P) :
    Shaped P (acc ++ (op ++ [Elem.far])) (rs ++ [cur ++ op]) [] := by
  refine ⟨?_, ?_, fun e he => by simp at he, ?_⟩
  · rw [h.eq, joinRounds_append]; simp [joinRounds]
  · intro r hr
    rcases List.mem_append.mp hr with h1 | h1
    · exact h.clean r h1
    · simp at h1; subst h1
      exact fun e he => (List.mem_append.mp he).elim (h.cleanCur e) (hop e)
  · intro r hr
    rcases List.mem_append.mp hr with h1 | h1
    · exact h.same r h1
    · simp at h1; subst h1; exact hP

/-- round 1: `fL`/`tL` `FlushAndRestart`s/`Terminate`s of the cached side and `fR` of the loop side consumed -/
structure R1Rel (nL nR : Nat) (futL futR : List (Batch α)) (L R : Side α) (fm : Bool) (qL qR : List (Batch α))
    (S : Noir.Start.State) (acc : List (Elem (Bin α))) (fL tL fR : Nat) : Prop where
  full : L.cacheFull = false
  ptr : L.cachePointer = L.cache.length
  lf : L.missingFar = nL - fL
  lt : L.missingTerm = nL - tL
  tf : tL ≤ fL
  fn : fL ≤ nL
  cf : farsIn (cacheEls L.cache) = fL
  rf : R.missingFar = nR - fR
  rn : fR ≤ nR
  rt : R.missingTerm = nR
  fm : fm = false
  sf : S.missingFar = startFar nL nR ((nL - fL) + (nR - fR))
  cl : cachedOk nL fL tL (qL ++ futL) = true
  cr : ∃ o, loopOk nR (if fR = nR then 0 else fR) 0 (decide (fR = nR)) (o && decide (fR ≠ nR)) (qR ++ futR) = true
  /-- once `Start` has closed the round no watermark announcement is pending -/
  pn : (nL - fL) + (nR - fR) = 0 → S.pending = none
  sh : ∃ rs cur, Shaped (cacheP L) acc rs cur
        ∧ ((nL - fL) + (nR - fR) ≠ 0 → rs = [] ∧ presented true cur = cacheP L)
        ∧ ((nL - fL) + (nR - fR) = 0 → cur = [] ∧ rs ≠ [])

/-- between two rounds: reset done, waiting for the first loop-side batch -/
structure WaitRel (nL nR : Nat) (futR : List (Batch α)) (L R : Side α) (fm : Bool) (qR : List (Batch α))
    (S : Noir.Start.State) (acc : List (Elem (Bin α))) : Prop where
  full : L.cacheFull = true
  ptr : L.cachePointer = 0
  lf : L.missingFar = nL
  lt : L.missingTerm = 0
  cf : farsIn (cacheEls L.cache) = nL
  rf : R.missingFar = nR
  rt : R.missingTerm = nR
  fm : fm = true
  sf : S.missingFar = nL + nR
  cr : loopOk nR 0 0 true false (qR ++ futR) = true
  pn : S.pending = none
  sh : ∃ rs, Shaped (cacheP L) acc rs [] ∧ rs ≠ []

/-- round ≥ 2: `p` cached batches replayed, `fR` loop-side `FlushAndRestart`s consumed -/
structure PlayRel (nL nR : Nat) (futR : List (Batch α)) (L R : Side α) (fm : Bool) (qR : List (Batch α))
    (S : Noir.Start.State) (acc : List (Elem (Bin α))) (p fR : Nat) : Prop where
  full : L.cacheFull = true
  ptr : L.cachePointer = p
  pl : p ≤ L.cache.length
  lf : L.missingFar = (if p = L.cache.length then 0 else nL)
  lt : L.missingTerm = 0
  cf : farsIn (cacheEls L.cache) = nL
  rf : R.missingFar = nR - fR
  rn : fR ≤ nR
  rt : R.missingTerm = nR
  fm : fm = false
  sf : S.missingFar = startFar nL nR ((nL - farsIn (cacheEls (L.cache.take p))) + (nR - fR))
  cr : loopOk nR (if fR = nR then 0 else fR) 0 true (decide (fR ≠ nR)) (qR ++ futR) = true
  pn : (nL - farsIn (cacheEls (L.cache.take p))) + (nR - fR) = 0 → S.pending = none
  sh : ∃ rs cur, Shaped (cacheP L) acc rs cur ∧ rs ≠ []
        ∧ ((nL - farsIn (cacheEls (L.cache.take p))) + (nR - fR) ≠ 0 →
              presented true cur = presented true (cacheEls (L.cache.take p)))
        ∧ ((nL - farsIn (cacheEls (L.cache.take p))) + (nR - fR) = 0 → cur = [])

/-- the loop has ended: `t ≥ 1` loop-side `Terminate`s consumed -/
structure TermRel (nL nR : Nat) (futR : List (Batch α)) (L R : Side α) (fm : Bool) (qR : List (Batch α))
    (S : Noir.Start.State) (acc : List (Elem (Bin α))) (t : Nat) : Prop where
  t1 : 1 ≤ t
  tn : t ≤ nR
  full : L.cacheFull = true
  ptr : L.cachePointer = 0
  lf : L.missingFar = nL
  lt : L.missingTerm = 0
  clen : 0 < L.cache.length
  cf : farsIn (cacheEls L.cache) = nL
  rf : R.missingFar = nR
  rt : R.missingTerm = nR - t
  fm : fm = false
  sf : S.missingFar = nL + nR
  cr : loopOk nR 0 t true false (qR ++ futR) = true
  pn : S.pending = none
  sh : ∃ rs, Shaped (cacheP L) acc rs [] ∧ rs ≠ []

/-- `Terminate` has been returned -/
structure FinRel (L : Side α) (S : Noir.Start.State) (acc : List (Elem (Bin α))) : Prop where
  dead : S.missingTerm = 0
  mk1 : markers (cacheP L) = 1
  sh : ∃ rs, Shaped (cacheP L) (joinRounds rs) rs [] ∧ rs ≠ [] ∧ acc = joinRounds rs ++ [Elem.term]

/-- **the invariant** of a run with the left side cached, as a predicate on the components of the state,
    the output so far and the batches still to be sent -/
inductive InvC (nL nR : Nat) (futL futR : List (Batch α)) (L R : Side α) (fm : Bool) (qL qR : List (Batch α))
    (S : Noir.Start.State) (acc : List (Elem (Bin α))) : Prop where
  | r1 (fL tL fR : Nat) (c : Common nL nR L R S) (h : R1Rel nL nR futL futR L R fm qL qR S acc fL tL fR)
  | wait (c : Common nL nR L R S) (h : WaitRel nL nR futR L R fm qR S acc)
  | play (p fR : Nat) (c : Common nL nR L R S) (h : PlayRel nL nR futR L R fm qR S acc p fR)
  | term (t : Nat) (c : Common nL nR L R S) (h : TermRel nL nR futR L R fm qR S acc t)
  | fin (h : FinRel L S acc)

abbrev Inv (nL nR : Nat) (futL futR : List (Batch α)) (st : State α) (acc : List (Elem (Bin α))) : Prop :=
  InvC nL nR futL futR st.left st.right st.firstMessage st.qL st.qR st.start acc


theorem farsIn_append {β : Type} (a b : List (Elem β)) : farsIn (a ++ b) = farsIn a + farsIn b := by
  simp [farsIn]

theorem farsIn_clean {β : Type} (a : List (Elem β)) (h : Clean a) : farsIn a = 0 := by
  unfold farsIn
  rw [List.length_eq_zero_iff, List.filter_eq_nil_iff]
  intro e he
  have := h e he
  simp [plainE] at this
  simp [this.1]

theorem farsIn_tail (hf : Bool) : farsIn (if hf then [(Elem.far : Elem (Bin α))] else []) = b2n hf := by
  cases hf
  · simp [farsIn, b2n]
  · simp [farsIn, b2n, List.filter, Elem.isFar]

theorem cacheEls_append (c : List (Batch (Bin α))) (b : Batch (Bin α)) : cacheEls (c ++ [b]) = cacheEls c ++ b.2 := by
  simp [cacheEls]

theorem presented_append (l : Bool) (a b : List (Elem (Bin α))) :
    presented l (a ++ b) = presented l a ++ presented l b := by simp [presented]

theorem presented_tail (l : Bool) (hf : Bool) : presented l (if hf then [(Elem.far : Elem (Bin α))] else []) = [] := by
  cases hf <;> simp [presented, ofSide]

theorem farsIn_take_le (c : List (Batch (Bin α))) (p : Nat) : farsIn (cacheEls (c.take p)) ≤ farsIn (cacheEls c) := by
  have : cacheEls c = cacheEls (c.take p) ++ cacheEls (c.drop p) := by
    unfold cacheEls; rw [← List.flatMap_append, List.take_append_drop]
  rw [this, farsIn_append]; omega

/-- `outL` as a plain part and the optional `FlushAndRestart` -/
def plainL (L : Side α) (d : List (Elem α)) (hf : Bool) : List (Elem (Bin α)) :=
  d.map (Elem.map Bin.left) ++ (if hf && decide (L.missingFar - 1 = 0) then [Elem.item Bin.leftEnd] else [])

theorem outL_eq (L : Side α) (d : List (Elem α)) (hf : Bool) :
    outL L d hf = plainL L d hf ++ (if hf then [Elem.far] else []) := by
  cases hf <;> simp [outL, plainL]

theorem plainL_clean (L : Side α) (d : List (Elem α)) (hf : Bool) (hd : ∀ e ∈ d, plainE e = true) :
    Clean (plainL L d hf) := by
  intro e he
  rcases List.mem_append.mp he with h | h
  · exact plain_map _ d hd e h
  · split at h
    · simp at h; subst h; simp [plainE, Elem.isFar, Elem.isTerm]
    · simp at h

def plainR (R : Side α) (d : List (Elem α)) (hf : Bool) : List (Elem (Bin α)) :=
  d.map (Elem.map Bin.right) ++ (if hf && decide (R.missingFar - 1 = 0) then [Elem.item Bin.rightEnd] else [])

theorem outR_eq (R : Side α) (d : List (Elem α)) (hf : Bool) :
    outR R d hf = plainR R d hf ++ (if hf then [Elem.far] else []) := by
  cases hf <;> simp [outR, plainR]

theorem plainR_clean (R : Side α) (d : List (Elem α)) (hf : Bool) (hd : ∀ e ∈ d, plainE e = true) :
    Clean (plainR R d hf) := by
  intro e he
  rcases List.mem_append.mp he with h | h
  · exact plain_map _ d hd e h
  · split at h
    · simp at h; subst h; simp [plainE, Elem.isFar, Elem.isTerm]
    · simp at h

/-- the right side's elements present nothing of the left side -/
theorem plainR_presented (R : Side α) (d : List (Elem α)) (hf : Bool) : presented true (plainR R d hf) = [] := by
  unfold plainR
  rw [presented_append]
  have h1 : presented true (d.map (Elem.map Bin.right)) = [] := by
    unfold presented
    rw [List.filter_eq_nil_iff]
    intro e he
    obtain ⟨x, _, rfl⟩ := List.mem_map.mp he
    cases x <;> simp [Elem.map, ofSide]
  rw [h1]
  split <;> simp [presented, ofSide]


/-! ## The invariant is preserved: one lemma per phase and kind of batch -/

theorem markers_map_left (d : List (Elem α)) : markers (d.map (Elem.map Bin.left)) = 0 := by
  unfold markers
  rw [List.length_eq_zero_iff, List.filter_eq_nil_iff]
  intro e he
  obtain ⟨x, _, rfl⟩ := List.mem_map.mp he
  cases x <;> simp [Elem.map, isLE]

theorem markers_plainL (L : Side α) (d : List (Elem α)) (hf : Bool) :
    markers (plainL L d hf) = if hf && decide (L.missingFar - 1 = 0) then 1 else 0 := by
  unfold plainL
  rw [markers_append, markers_map_left]
  split
  · simp [markers, List.filter, isLE]
  · simp [markers]

theorem markers_tail (hf : Bool) : markers (if hf then [(Elem.far : Elem (Bin α))] else []) = 0 := by
  cases hf <;> simp [markers, isLE]

theorem cachedOk_cons {n f t : Nat} {r : Nat} {es : List (Elem α)} {bs : List (Batch α)}
    (h : cachedOk n f t ((r, es) :: bs) = true) :
    ∃ hf ht, batchKind es = some (hf, ht) ∧ f + b2n hf ≤ n ∧ t + b2n ht ≤ f + b2n hf
      ∧ (f < n ∨ plainPart es = []) ∧ cachedOk n (f + b2n hf) (t + b2n ht) bs = true := by
  unfold cachedOk at h
  split at h
  · cases h
  · rename_i hf ht hk
    simp only [Bool.and_eq_true, decide_eq_true_eq, Bool.or_eq_true, List.isEmpty_iff] at h
    exact ⟨hf, ht, hk, h.1.1.1, h.1.1.2, h.1.2, h.2⟩

/-- round 1, a batch of the cached side is received, processed and consumed by `Start` -/
theorem r1_left {nL nR : Nat} {futL futR : List (Batch α)} {L R : Side α} {fm : Bool}
    {q qR : List (Batch α)} {S : Noir.Start.State} {acc : List (Elem (Bin α))} {fL tL fR r : Nat}
    {es : List (Elem α)}
    {r0 : Nat} (c : Common nL nR L R S) (h : R1Rel nL nR futL futR L R fm ((r0, es) :: q) qR S acc fL tL fR) :
    (L.process Bin.left Bin.leftEnd r es).2.2 = false
    ∧ InvC nL nR futL futR (L.process Bin.left Bin.leftEnd r es).1 R fm q qR
        (feed S (L.process Bin.left Bin.leftEnd r es).2.1.1 (L.process Bin.left Bin.leftEnd r es).2.1.2).1
        (acc ++ (feed S (L.process Bin.left Bin.leftEnd r es).2.1.1 (L.process Bin.left Bin.leftEnd r es).2.1.2).2) := by
  obtain ⟨hf, ht, hk, k1, k2, k3, k4⟩ := cachedOk_cons (by simpa using h.cl)
  have hd := plainPart_plain es
  have hes := batch_split es
  unfold batchKind at hk
  have hlf : hf = true → L.missingFar ≠ 0 := by
    intro e; rw [h.lf]; subst e; simp [b2n] at k1; omega
  have hlt : ht = true → L.missingTerm ≠ 0 := by
    intro e; subst e; rw [h.lt]; have : b2n true = 1 := rfl
    omega
  obtain ⟨p1, p2, p3⟩ := procL L r (plainPart es) (es.dropWhile plainE) hf ht c.lc hd hk hlf hlt
  rw [← hes] at p1 p2 p3
  rw [p2, p3]
  refine ⟨p1, ?_⟩
  -- `Start` consumes the processed batch
  have hlive : S.missingTerm ≠ 0 := by rw [c.sT]; have := c.nLpos; omega
  have hclean := plainL_clean L (plainPart es) hf hd
  have hs1 : hf = true → 1 ≤ (nL - fL) + (nR - fR) := by
    intro e; subst e; simp [b2n] at k1; omega
  obtain ⟨g1, g2, g3, op, g4, g5, g6⟩ :=
    feed_batch S r (plainL L (plainPart es) hf) hf nL nR ((nL - fL) + (nR - fR)) hclean hlive c.sn h.sf hs1
  simp only [outL_eq]
  rw [g6]
  -- the new cache
  have hcacheEls : cacheEls (L.cache ++ [(r, plainL L (plainPart es) hf ++ if hf then [Elem.far] else [])])
      = cacheEls L.cache ++ (plainL L (plainPart es) hf ++ if hf then [Elem.far] else []) := cacheEls_append _ _
  have hb2 : b2n hf ≤ 1 := by cases hf <;> simp [b2n]
  have hb2t : b2n ht ≤ 1 := by cases ht <;> simp [b2n]
  -- when all the cached side's FlushAndRestarts had been seen, the batch is empty
  have hempty : fL = nL → plainL L (plainPart es) hf ++ (if hf then [Elem.far] else []) = [] := by
    intro e
    have hf0 : hf = false := by cases hf <;> simp [b2n] at k1 ⊢; omega
    have hp0 : plainPart es = [] := by rcases k3 with k | k; · omega
                                       · exact k
    simp [hf0, hp0, plainL]
  have hP' : presented true (cacheEls (L.cache ++ [(r, plainL L (plainPart es) hf ++ if hf then [Elem.far] else [])]))
      = cacheP L ++ presented true (plainL L (plainPart es) hf) := by
    rw [hcacheEls, presented_append, presented_append, presented_tail]; simp [cacheP]
  apply InvC.r1 (fL + b2n hf) (tL + b2n ht) fR
  · -- Common
    refine ⟨c.nLpos, c.nRpos, c.lc, c.rc, c.li, c.ri, c.rcache, c.rptr, by rw [g1], by rw [g2]; exact c.sT, ?_, ?_, ?_⟩
    rotate_left 2
    · show markers (cacheEls (L.cache ++ [_])) = if farsIn (cacheEls (L.cache ++ [_])) = nL then 1 else 0
      have hcf' : farsIn (cacheEls (L.cache ++ [(r, plainL L (plainPart es) hf ++ if hf then [Elem.far] else [])]))
          = fL + b2n hf := by
        rw [hcacheEls, farsIn_append, farsIn_append, farsIn_clean _ hclean, farsIn_tail, h.cf]; omega
      rw [hcf', hcacheEls, markers_append, markers_append, c.mark, h.cf, markers_plainL, markers_tail, h.lf]
      have hb1 : b2n true = 1 := rfl
      have hb0 : b2n false = 0 := rfl
      cases hf with
      | false =>
        simp only [Bool.false_and, Bool.false_eq_true, if_false, hb0, Nat.add_zero]
      | true =>
        simp only [Bool.true_and, decide_eq_true_eq, hb1]
        rw [hb1] at k1
        by_cases e : nL - fL - 1 = 0
        · rw [if_pos e, if_neg (by omega), if_pos (by omega)]
        · rw [if_neg e, if_neg (by omega), if_neg (by omega)]
    · intro b hb
      rcases List.mem_append.mp hb with hb | hb
      · exact c.shapes b hb
      · simp at hb; subst hb; exact ⟨_, hf, rfl, hclean⟩
    · intro p hp b hb
      show b.2 = []
      by_cases hpl : p ≤ L.cache.length
      · rw [List.take_append_of_le_length hpl] at hp
        have hfl : fL = nL := by
          have := farsIn_take_le L.cache p; rw [h.cf] at this; have := h.fn; omega
        rw [List.drop_append_of_le_length hpl] at hb
        rcases List.mem_append.mp hb with hb | hb
        · exact c.post p hp b hb
        · simp at hb; subst hb; exact hempty hfl
      · rw [List.drop_eq_nil_of_le (by simp; omega)] at hb; simp at hb
  · -- R1Rel
    refine ⟨h.full, by simp, by simp [h.lf]; omega, by simp [h.lt]; omega, by omega, k1, ?_, h.rf, h.rn, h.rt, h.fm,
            ?_, ?_, h.cr, ?_, ?_⟩
    · show farsIn (cacheEls (L.cache ++ [_])) = _
      rw [hcacheEls, farsIn_append, farsIn_append, farsIn_clean _ hclean, farsIn_tail, h.cf]; omega
    · rw [g3]; congr 1; omega
    · simpa using k4
    · -- nothing pending once the round is closed
      intro h0
      have hb1 : b2n true = 1 := rfl
      have hb0 : b2n false = 0 := rfl
      by_cases hs0 : (nL - fL) + (nR - fR) = 0
      · have hfl : fL = nL := by have := h.fn; omega
        rw [hempty hfl]; exact h.pn hs0
      · have hft : hf = true := by
          cases hf with
          | true => rfl
          | false => exfalso; omega
        subst hft
        have hs1' : (nL - fL) + (nR - fR) = 1 := by omega
        exact feed_batch_pending S r _ nL nR hclean hlive (by rw [h.sf, hs1'])
    · obtain ⟨rs, cur, sh, s1, s2⟩ := h.sh
      have hb1 : b2n true = 1 := rfl
      have hb0 : b2n false = 0 := rfl
      simp only [cacheP] at sh s1 s2 hP' ⊢
      rw [hP']
      by_cases hs0 : (nL - fL) + (nR - fR) = 0
      · -- the round had been closed already: the batch is empty
        have hfl : fL = nL := by have := h.fn; omega
        have he := hempty hfl
        have hf0 : hf = false := by cases hf <;> simp [b2n] at k1 ⊢; omega
        subst hf0
        have hpl : plainL L (plainPart es) false = [] := by simpa using he
        have hop : op = [] := by
          have h6 := g6; rw [hpl] at h6; simpa [feed] using h6.symm
        obtain ⟨c1, c2⟩ := s2 hs0
        subst hop; subst c1
        refine ⟨rs, [], ?_, ?_, ?_⟩
        · simpa [hpl, presented] using sh
        · intro hne; omega
        · intro _; exact ⟨rfl, c2⟩
      · obtain ⟨c1, c2⟩ := s1 hs0
        subst c1
        have hpo : presented true (cur ++ op)
            = presented true (cacheEls L.cache) ++ presented true (plainL L (plainPart es) hf) := by
          rw [presented_append, c2, g5 true]
        have hsh : Shaped (presented true (cacheEls L.cache) ++ presented true (plainL L (plainPart es) hf)) acc [] cur :=
          ⟨sh.eq, by simp, sh.cleanCur, by simp⟩
        by_cases hclose : hf = true ∧ (nL - fL) + (nR - fR) = 1
        · obtain ⟨e1, e2⟩ := hclose
          subst e1
          have hif : (true && decide ((nL - fL) + (nR - fR) = 1)) = true := by simp [e2]
          refine ⟨[] ++ [cur ++ op], [], ?_, ?_, ?_⟩
          · simp only [hif, if_true]
            exact hsh.close op g4 hpo
          · intro hne; omega
          · intro _; exact ⟨rfl, by simp⟩
        · have hno : (hf && decide ((nL - fL) + (nR - fR) = 1)) = false := by
            cases hf with
            | false => rfl
            | true =>
              simp only [Bool.true_and, decide_eq_false_iff_not]
              intro h1; exact hclose ⟨rfl, h1⟩
          refine ⟨[], cur ++ op, ?_, ?_, ?_⟩
          · simp only [hno, Bool.false_eq_true, if_false, List.append_nil]
            exact hsh.open_ op g4
          · intro _; exact ⟨rfl, hpo⟩
          · intro h0
            exfalso
            cases hf
            · omega
            · simp at hclose; omega

theorem loopOk_cons {n f t : Nat} {k o : Bool} {r : Nat} {es : List (Elem α)} {bs : List (Batch α)}
    (h : loopOk n f t k o ((r, es) :: bs) = true) :
    (∃ hf, batchKind es = some (hf, false) ∧ t = 0 ∧ f < n
        ∧ (if hf && f + 1 == n then loopOk n 0 0 true false bs else loopOk n (f + b2n hf) 0 k true bs) = true)
    ∨ (batchKind es = some (false, true) ∧ plainPart es = [] ∧ o = false ∧ k = true ∧ t < n
        ∧ loopOk n 0 (t + 1) k false bs = true) := by
  unfold loopOk at h
  split at h
  · rename_i hf hk
    left
    simp only [Bool.and_eq_true, decide_eq_true_eq] at h
    exact ⟨hf, hk, h.1.1, h.1.2, by simpa using h.2⟩
  · rename_i hk
    right
    simp only [Bool.and_eq_true, decide_eq_true_eq, List.isEmpty_iff, Bool.not_eq_true'] at h
    exact ⟨hk, h.1.1.1.1, h.1.1.1.2, h.1.1.2, h.1.2, h.2⟩
  · cases h

/-- a batch of a round of the (uncached) right side is received, processed and consumed by `Start`:
    the effect on the right side, on `Start` and on the output -/
theorem right_round {nL nR : Nat} {L R : Side α} {S : Noir.Start.State} {r : Nat} {es : List (Elem α)} {hf : Bool}
    {fR s : Nat}
    (c : Common nL nR L R S) (hk : batchKind es = some (hf, false)) (hrf : R.missingFar = nR - fR) (hfr : fR < nR)
    (hS : S.missingFar = startFar nL nR s) (hs : 1 ≤ s) :
    (R.process Bin.right Bin.rightEnd r es).2.2 = false
    ∧ (R.process Bin.right Bin.rightEnd r es).1 = { R with missingFar := nR - (fR + b2n hf) }
    ∧ (feed S (R.process Bin.right Bin.rightEnd r es).2.1.1 (R.process Bin.right Bin.rightEnd r es).2.1.2).1.n = nL + nR
    ∧ (feed S (R.process Bin.right Bin.rightEnd r es).2.1.1 (R.process Bin.right Bin.rightEnd r es).2.1.2).1.missingTerm
        = S.missingTerm
    ∧ (feed S (R.process Bin.right Bin.rightEnd r es).2.1.1 (R.process Bin.right Bin.rightEnd r es).2.1.2).1.missingFar
        = startFar nL nR (s - b2n hf)
    ∧ ∃ op, Clean op ∧ presented true op = []
        ∧ (feed S (R.process Bin.right Bin.rightEnd r es).2.1.1 (R.process Bin.right Bin.rightEnd r es).2.1.2).2
            = op ++ (if hf && decide (s = 1) then [Elem.far] else []) := by
  have hd := plainPart_plain es
  have hes := batch_split es
  unfold batchKind at hk
  obtain ⟨p1, p2, p3⟩ := procR R r (plainPart es) (es.dropWhile plainE) hf c.rc hd hk
    (by intro _; rw [hrf]; omega)
  rw [← hes] at p1 p2 p3
  rw [p2, p3]
  have hlive : S.missingTerm ≠ 0 := by rw [c.sT]; have := c.nLpos; omega
  have hclean := plainR_clean R (plainPart es) hf hd
  obtain ⟨g1, g2, g3, op, g4, g5, g6⟩ :=
    feed_batch S r (plainR R (plainPart es) hf) hf nL nR s hclean hlive c.sn hS (fun _ => hs)
  simp only [outR_eq]
  refine ⟨p1, ?_, g1, g2, g3, op, g4, ?_, g6⟩
  · rw [hrf]; congr 1; omega
  · rw [g5 true, plainR_presented]

theorem right_round_pending {nL nR : Nat} {L R : Side α} {S : Noir.Start.State} {r : Nat} {es : List (Elem α)}
    {fR : Nat}
    (c : Common nL nR L R S) (hk : batchKind es = some (true, false)) (hrf : R.missingFar = nR - fR) (hfr : fR < nR)
    (hS : S.missingFar = startFar nL nR 1) :
    (feed S (R.process Bin.right Bin.rightEnd r es).2.1.1 (R.process Bin.right Bin.rightEnd r es).2.1.2).1.pending
      = none := by
  have hd := plainPart_plain es
  have hes := batch_split es
  unfold batchKind at hk
  obtain ⟨_, p2, _⟩ := procR R r (plainPart es) (es.dropWhile plainE) true c.rc hd hk
    (by intro _; rw [hrf]; omega)
  rw [← hes] at p2
  rw [p2]
  have hlive : S.missingTerm ≠ 0 := by rw [c.sT]; have := c.nLpos; omega
  simp only [outR_eq, if_true]
  exact feed_batch_pending S r _ nL nR (plainR_clean R (plainPart es) true hd) hlive hS

/-- what a closing / non-closing plain batch does to a shaped output whose open round is `cur` -/
theorem shaped_feed {P acc rs cur} (sh : Shaped (α := α) P acc rs cur) (op : List (Elem (Bin α))) (hop : Clean op)
    (closing : Bool) (hP : closing = true → presented true (cur ++ op) = P) :
    ∃ rs' cur', Shaped P (acc ++ (op ++ if closing then [Elem.far] else [])) rs' cur'
      ∧ (closing = true → cur' = [] ∧ rs' ≠ [])
      ∧ (closing = false → rs' = rs ∧ cur' = cur ++ op) := by
  cases closing with
  | true =>
    refine ⟨rs ++ [cur ++ op], [], sh.close op hop (hP rfl), fun _ => ⟨rfl, by simp⟩, fun h => Bool.noConfusion h⟩
  | false =>
    refine ⟨rs, cur ++ op, ?_, fun h => Bool.noConfusion h, fun _ => ⟨rfl, rfl⟩⟩
    simpa using sh.open_ op hop

/-- round 1, a batch of the loop side is received, processed and consumed by `Start` -/
theorem r1_right {nL nR : Nat} {futL futR : List (Batch α)} {L R : Side α} {fm : Bool}
    {qL q : List (Batch α)} {S : Noir.Start.State} {acc : List (Elem (Bin α))} {fL tL fR r : Nat}
    {es : List (Elem α)}
    {r0 : Nat} (c : Common nL nR L R S) (h : R1Rel nL nR futL futR L R fm qL ((r0, es) :: q) S acc fL tL fR) (hfr : fR < nR) :
    (R.process Bin.right Bin.rightEnd r es).2.2 = false
    ∧ InvC nL nR futL futR L (R.process Bin.right Bin.rightEnd r es).1 fm qL q
        (feed S (R.process Bin.right Bin.rightEnd r es).2.1.1 (R.process Bin.right Bin.rightEnd r es).2.1.2).1
        (acc ++ (feed S (R.process Bin.right Bin.rightEnd r es).2.1.1 (R.process Bin.right Bin.rightEnd r es).2.1.2).2) := by
  obtain ⟨o, hcr⟩ := h.cr
  have hne : fR ≠ nR := by omega
  simp only [hne, if_false, decide_false, List.cons_append] at hcr
  obtain ⟨hf, hk, hnext⟩ : ∃ hf, batchKind es = some (hf, false)
      ∧ (if (hf && fR + 1 == nR) = true then loopOk nR 0 0 true false (q ++ futR)
         else loopOk nR (fR + b2n hf) 0 false true (q ++ futR)) = true := by
    rcases loopOk_cons hcr with ⟨hf, hk, _, _, hnext⟩ | ⟨_, _, _, hk, _⟩
    · exact ⟨hf, hk, hnext⟩
    · cases hk
  have hs1 : 1 ≤ (nL - fL) + (nR - fR) := by omega
  obtain ⟨p1, p2, g1, g2, g3, op, g4, g5, g6⟩ := right_round (r := r) c hk h.rf hfr h.sf hs1
  refine ⟨p1, ?_⟩
  rw [p2, g6]
  have hb : b2n hf ≤ 1 := by cases hf <;> simp [b2n]
  apply InvC.r1 fL tL (fR + b2n hf)
  · exact ⟨c.nLpos, c.nRpos, c.lc, c.rc, c.li, c.ri, c.rcache, c.rptr, g1, by rw [g2]; exact c.sT, c.shapes, c.post, c.mark⟩
  · obtain ⟨rs, cur, sh, s1, _⟩ := h.sh
    obtain ⟨c1, c2⟩ := s1 (by omega)
    subst c1
    have hbn : b2n hf = 1 → hf = true := by cases hf <;> simp [b2n]
    refine ⟨h.full, h.ptr, h.lf, h.lt, h.tf, h.fn, h.cf, rfl, by
      cases hf
      · simp [b2n]; omega
      · simp [b2n]; omega, h.rt, h.fm, ?_, h.cl, ?_, ?_, ?_⟩
    · rw [g3]; congr 1; omega
    rotate_left 1
    · intro h0
      have hb1 : b2n true = 1 := rfl
      have hb0 : b2n false = 0 := rfl
      have hft : hf = true := by
        cases hf with
        | true => rfl
        | false => exfalso; omega
      subst hft
      exact right_round_pending c hk h.rf hfr (by rw [h.sf]; congr 1; omega)
    rotate_left 1
    · -- the loop side's contract after this batch
      by_cases hw : hf = true ∧ fR + 1 = nR
      · obtain ⟨e1, e2⟩ := hw
        subst e1
        have : (true && fR + 1 == nR) = true := by simp [e2]
        rw [this] at hnext
        refine ⟨false, ?_⟩
        have e3 : fR + b2n true = nR := by simp [b2n]; exact e2
        simpa [e3] using hnext
      · have : (hf && fR + 1 == nR) = false := by
          cases hf with
          | false => rfl
          | true => simp at hw ⊢; exact hw
        rw [this] at hnext
        have e3 : fR + b2n hf ≠ nR := by
          cases hf with
          | false => simp [b2n]; omega
          | true => simp [b2n] at hw ⊢; exact hw
        refine ⟨true, ?_⟩
        simpa [e3] using hnext
    · obtain ⟨rs', cur', sh', t1, t2⟩ := shaped_feed sh op g4 (hf && decide ((nL - fL) + (nR - fR) = 1))
        (by intro _; rw [presented_append, c2, g5]; simp)
      refine ⟨rs', cur', sh', ?_, ?_⟩
      · intro hne0
        have hcl : (hf && decide ((nL - fL) + (nR - fR) = 1)) = false := by
          cases hf with
          | false => rfl
          | true => simp [b2n] at hne0 ⊢; omega
        obtain ⟨e1, e2⟩ := t2 hcl
        exact ⟨e1, by rw [e2, presented_append, c2, g5]; simp⟩
      · intro h0
        have hcl : (hf && decide ((nL - fL) + (nR - fR) = 1)) = true := by
          cases hf with
          | false => simp [b2n] at h0; omega
          | true => simp [b2n] at h0 ⊢; omega
        exact t1 hcl

theorem cache_nonempty {nL : Nat} {L : Side α} (h : farsIn (cacheEls L.cache) = nL) (hpos : 0 < nL) :
    0 < L.cache.length := by
  cases hc : L.cache with
  | nil => rw [hc] at h; simp [cacheEls, farsIn] at h; omega
  | cons _ _ => simp

/-- a lone `Terminate` batch -/
theorem term_batch {es : List (Elem α)} (hk : batchKind es = some (false, true)) (hp : plainPart es = []) :
    es = [Elem.term] := by
  have hes := batch_split es
  unfold batchKind at hk
  rcases tailKind_cases hk with ⟨_, _, e3⟩ | ⟨_, e2, _⟩ | ⟨_, e2, _⟩ | ⟨e1, _, _⟩
  · cases e3
  · cases e2
  · cases e2
  · rw [hp, e1] at hes; simpa using hes

/-- a round of the loop side in a later round, after the replay: a batch is received -/
theorem play_right {nL nR : Nat} {futL futR : List (Batch α)} {L R : Side α} {fm : Bool}
    {qL q : List (Batch α)} {S : Noir.Start.State} {acc : List (Elem (Bin α))} {fR r : Nat}
    {es : List (Elem α)}
    {r0 : Nat} (c : Common nL nR L R S) (h : PlayRel nL nR futR L R fm ((r0, es) :: q) S acc L.cache.length fR) (hfr : fR < nR) :
    (R.process Bin.right Bin.rightEnd r es).2.2 = false
    ∧ InvC nL nR futL futR L (R.process Bin.right Bin.rightEnd r es).1 fm qL q
        (feed S (R.process Bin.right Bin.rightEnd r es).2.1.1 (R.process Bin.right Bin.rightEnd r es).2.1.2).1
        (acc ++ (feed S (R.process Bin.right Bin.rightEnd r es).2.1.1 (R.process Bin.right Bin.rightEnd r es).2.1.2).2) := by
  have hcr := h.cr
  have hne : fR ≠ nR := by omega
  simp only [hne, if_false, ne_eq, not_false_eq_true, decide_true, List.cons_append] at hcr
  obtain ⟨hf, hk, hnext⟩ : ∃ hf, batchKind es = some (hf, false)
      ∧ (if (hf && fR + 1 == nR) = true then loopOk nR 0 0 true false (q ++ futR)
         else loopOk nR (fR + b2n hf) 0 true true (q ++ futR)) = true := by
    rcases loopOk_cons hcr with ⟨hf, hk, _, _, hnext⟩ | ⟨_, _, ho, _, _⟩
    · exact ⟨hf, hk, hnext⟩
    · cases ho
  have htake : L.cache.take L.cache.length = L.cache := List.take_length
  have hfull : farsIn (cacheEls (L.cache.take L.cache.length)) = nL := by rw [htake]; exact h.cf
  have hsf := h.sf
  rw [hfull] at hsf
  have hs1 : 1 ≤ (nL - nL) + (nR - fR) := by omega
  obtain ⟨p1, p2, g1, g2, g3, op, g4, g5, g6⟩ := right_round (r := r) c hk h.rf hfr hsf hs1
  refine ⟨p1, ?_⟩
  rw [p2, g6]
  apply InvC.play L.cache.length (fR + b2n hf)
  · exact ⟨c.nLpos, c.nRpos, c.lc, c.rc, c.li, c.ri, c.rcache, c.rptr, g1, by rw [g2]; exact c.sT, c.shapes, c.post, c.mark⟩
  · obtain ⟨rs, cur, sh, hne0, s1, _⟩ := h.sh
    rw [hfull] at s1
    have c2 := s1 (by omega)
    rw [htake] at c2
    refine ⟨h.full, h.ptr, h.pl, h.lf, h.lt, h.cf, rfl, by
      cases hf
      · simp [b2n]; omega
      · simp [b2n]; omega, h.rt, h.fm, ?_, ?_, ?_, ?_⟩
    · rw [g3, hfull]; congr 1; omega
    rotate_left 1
    · rw [hfull]
      intro h0
      have hb1 : b2n true = 1 := rfl
      have hb0 : b2n false = 0 := rfl
      have hft : hf = true := by
        cases hf with
        | true => rfl
        | false => exfalso; omega
      subst hft
      exact right_round_pending c hk h.rf hfr (by rw [hsf]; congr 1; omega)
    rotate_left 1
    · by_cases hw : hf = true ∧ fR + 1 = nR
      · obtain ⟨e1, e2⟩ := hw
        subst e1
        have : (true && fR + 1 == nR) = true := by simp [e2]
        rw [this] at hnext
        have e3 : fR + b2n true = nR := by simp [b2n]; exact e2
        simpa [e3] using hnext
      · have : (hf && fR + 1 == nR) = false := by
          cases hf with
          | false => rfl
          | true => simp at hw ⊢; exact hw
        rw [this] at hnext
        have e3 : fR + b2n hf ≠ nR := by
          cases hf with
          | false => simp [b2n]; omega
          | true => simp [b2n] at hw ⊢; exact hw
        simpa [e3] using hnext
    · obtain ⟨rs', cur', sh', t1, t2⟩ := shaped_feed sh op g4 (hf && decide ((nL - nL) + (nR - fR) = 1))
        (by intro _; rw [presented_append, c2, g5]; simp [cacheP])
      rw [hfull]
      refine ⟨rs', cur', sh', ?_, ?_, ?_⟩
      · by_cases hcl : (hf && decide ((nL - nL) + (nR - fR) = 1)) = true
        · exact (t1 hcl).2
        · have := (t2 (by simpa using hcl)).1; rw [this]; exact hne0
      · intro hne1
        have hcl : (hf && decide ((nL - nL) + (nR - fR) = 1)) = false := by
          cases hf with
          | false => rfl
          | true => simp [b2n] at hne1 ⊢; omega
        rw [(t2 hcl).2, presented_append, c2, g5, htake]; simp
      · intro h0
        have hcl : (hf && decide ((nL - nL) + (nR - fR) = 1)) = true := by
          cases hf with
          | false => simp [b2n] at h0; omega
          | true => simp [b2n] at h0 ⊢; omega
        exact (t1 hcl).1

/-- a lone `Terminate` of the loop side is received while `t < nR` have been seen: effect on the right
    side, on `Start` (which is still waiting for more) and on the output (nothing) -/
theorem right_term {nL nR : Nat} {L R : Side α} {S : Noir.Start.State} {r t : Nat}
    (c : Common nL nR L R S) (hrt : R.missingTerm = nR - t) (ht : t < nR) (hsf : S.missingFar = nL + nR) :
    (R.process Bin.right Bin.rightEnd r [Elem.term]).2.2 = false
    ∧ (R.process Bin.right Bin.rightEnd r [Elem.term]).1 = { R with missingTerm := nR - (t + 1) }
    ∧ (feed S (R.process Bin.right Bin.rightEnd r [Elem.term]).2.1.1
          (R.process Bin.right Bin.rightEnd r [Elem.term]).2.1.2).1.n = nL + nR
    ∧ (feed S (R.process Bin.right Bin.rightEnd r [Elem.term]).2.1.1
          (R.process Bin.right Bin.rightEnd r [Elem.term]).2.1.2).1.missingFar = nL + nR
    ∧ (feed S (R.process Bin.right Bin.rightEnd r [Elem.term]).2.1.1
          (R.process Bin.right Bin.rightEnd r [Elem.term]).2.1.2).1.missingTerm = nL + (nR - (t + 1))
    ∧ (feed S (R.process Bin.right Bin.rightEnd r [Elem.term]).2.1.1
          (R.process Bin.right Bin.rightEnd r [Elem.term]).2.1.2).2 = [] := by
  obtain ⟨p1, p2, p3⟩ := procRterm R r c.rc (by rw [hrt]; omega)
  rw [p2, p3]
  have hlive : S.missingTerm ≠ 0 := by rw [c.sT]; have := c.nLpos; omega
  have hf0 : S.missingFar ≠ 0 := by rw [hsf]; have := c.nLpos; omega
  obtain ⟨g1, g2, g3, g4⟩ := feed_terms (β := Bin α) r 1 S hf0 (by omega) hlive
  simp only [List.replicate_one] at g1 g2 g3 g4
  refine ⟨p1, by rw [hrt]; congr 1, by rw [g1, c.sn], by rw [g2, hsf], ?_, ?_⟩
  · rw [g3, c.sT, hrt]; have := c.nLpos; omega
  · rw [g4, if_neg]; rw [c.sT, hrt]; have := c.nLpos; omega

theorem right_term_pending {nL nR : Nat} {L R : Side α} {S : Noir.Start.State} {r t : Nat}
    (c : Common nL nR L R S) (hrt : R.missingTerm = nR - t) (ht : t < nR) (hsf : S.missingFar = nL + nR) :
    (feed S (R.process Bin.right Bin.rightEnd r [Elem.term]).2.1.1
          (R.process Bin.right Bin.rightEnd r [Elem.term]).2.1.2).1.pending = S.pending := by
  obtain ⟨_, p2, _⟩ := procRterm R r c.rc (by rw [hrt]; omega)
  rw [p2]
  have hlive : S.missingTerm ≠ 0 := by rw [c.sT]; have := c.nLpos; omega
  have hf0 : S.missingFar ≠ 0 := by rw [hsf]; have := c.nLpos; omega
  have := feed_terms_pending (β := Bin α) r 1 S hf0 (by omega) hlive
  simpa using this

/-- between two rounds, the first loop-side batch arrives: a new round is opened, or the loop has ended -/
theorem wait_first {nL nR : Nat} {futL futR : List (Batch α)} {L R : Side α} {fm : Bool}
    {qL q : List (Batch α)} {S : Noir.Start.State} {acc : List (Elem (Bin α))} {r : Nat} {es : List (Elem α)}
    {r0 : Nat} (c : Common nL nR L R S) (h : WaitRel nL nR futR L R fm ((r0, es) :: q) S acc) :
    (R.process Bin.right Bin.rightEnd r es).2.2 = false
    ∧ InvC nL nR futL futR L (R.process Bin.right Bin.rightEnd r es).1 false qL q
        (feed S (R.process Bin.right Bin.rightEnd r es).2.1.1 (R.process Bin.right Bin.rightEnd r es).2.1.2).1
        (acc ++ (feed S (R.process Bin.right Bin.rightEnd r es).2.1.1 (R.process Bin.right Bin.rightEnd r es).2.1.2).2) := by
  have hcr := h.cr
  simp only [List.cons_append] at hcr
  have hlen := cache_nonempty h.cf c.nLpos
  have hnL := c.nLpos
  have hnR := c.nRpos
  obtain ⟨rs, sh, hne0⟩ := h.sh
  rcases loopOk_cons hcr with ⟨hf, hk, _, _, hnext⟩ | ⟨hk, hp, _, _, _, hnext⟩
  · -- a batch of the next round
    have hrf : R.missingFar = nR - 0 := by rw [h.rf]; rfl
    have hsf : S.missingFar = startFar nL nR (nL + nR) := by
      rw [h.sf]; unfold startFar; rw [if_neg (by omega)]
    obtain ⟨p1, p2, g1, g2, g3, op, g4, g5, g6⟩ := right_round (r := r) (fR := 0) c hk hrf hnR hsf (by omega)
    refine ⟨p1, ?_⟩
    rw [p2, g6]
    have hcl : (hf && decide (nL + nR = 1)) = false := by
      cases hf with
      | false => rfl
      | true => simp; omega
    rw [hcl]
    simp only [Bool.false_eq_true, if_false, List.append_nil, Nat.zero_add]
    apply InvC.play 0 (b2n hf)
    · exact ⟨c.nLpos, c.nRpos, c.lc, c.rc, c.li, c.ri, c.rcache, c.rptr, g1, by rw [g2]; exact c.sT, c.shapes, c.post, c.mark⟩
    · have hb : b2n hf ≤ 1 := by cases hf <;> simp [b2n]
      have htake0 : farsIn (cacheEls (L.cache.take 0)) = 0 := by simp [cacheEls, farsIn]
      refine ⟨h.full, h.ptr, by omega, by rw [h.lf, if_neg (by omega)], h.lt, h.cf, rfl, by omega, h.rt, rfl, ?_, ?_,
        (by intro h0; rw [htake0] at h0; omega), ?_⟩
      · rw [g3, htake0]; congr 1; omega
      · by_cases hw : hf = true ∧ 0 + 1 = nR
        · obtain ⟨e1, e2⟩ := hw
          subst e1
          have : (true && 0 + 1 == nR) = true := by simp [e2]
          rw [this] at hnext
          have e3 : b2n true = nR := by simp [b2n]; omega
          simpa [e3] using hnext
        · have : (hf && 0 + 1 == nR) = false := by
            cases hf with
            | false => rfl
            | true => simp at hw ⊢; exact hw
          rw [this] at hnext
          have e3 : b2n hf ≠ nR := by
            cases hf with
            | false => simp [b2n]; omega
            | true => simp [b2n] at hw ⊢; omega
          simpa [e3] using hnext
      · refine ⟨rs, [] ++ op, by simpa using sh.open_ op g4, hne0, ?_, ?_⟩
        · intro _
          have : presented true ([] ++ op) = [] := by simpa using g5
          rw [this]; simp [cacheEls, presented]
        · intro h0; rw [htake0] at h0; omega
  · -- the loop has ended
    have hes := term_batch hk hp
    subst hes
    obtain ⟨p1, p2, g1, g2, g3, g4⟩ := right_term (r := r) (t := 0) c (by rw [h.rt]; rfl) hnR h.sf
    refine ⟨p1, ?_⟩
    rw [p2, g4]
    apply InvC.term 1
    · exact ⟨c.nLpos, c.nRpos, c.lc, c.rc, c.li, c.ri, c.rcache, c.rptr, g1, g3, c.shapes, c.post, c.mark⟩
    · exact ⟨by omega, by omega, h.full, h.ptr, h.lf, h.lt, hlen, h.cf, h.rf, rfl, rfl, g2, hnext,
             by rw [right_term_pending (r := r) (t := 0) c (by rw [h.rt]; rfl) hnR h.sf]; exact h.pn,
             rs, by simpa using sh, hne0⟩

/-- the loop has ended, one more loop-side `Terminate` arrives -/
theorem term_right {nL nR : Nat} {futL futR : List (Batch α)} {L R : Side α} {fm : Bool}
    {qL q : List (Batch α)} {S : Noir.Start.State} {acc : List (Elem (Bin α))} {r t : Nat} {es : List (Elem α)}
    {r0 : Nat} (c : Common nL nR L R S) (h : TermRel nL nR futR L R fm ((r0, es) :: q) S acc t) :
    (R.process Bin.right Bin.rightEnd r es).2.2 = false
    ∧ InvC nL nR futL futR L (R.process Bin.right Bin.rightEnd r es).1 fm qL q
        (feed S (R.process Bin.right Bin.rightEnd r es).2.1.1 (R.process Bin.right Bin.rightEnd r es).2.1.2).1
        (acc ++ (feed S (R.process Bin.right Bin.rightEnd r es).2.1.1 (R.process Bin.right Bin.rightEnd r es).2.1.2).2) := by
  have hcr := h.cr
  simp only [List.cons_append] at hcr
  obtain ⟨rs, sh, hne0⟩ := h.sh
  rcases loopOk_cons hcr with ⟨_, _, h0, _, _⟩ | ⟨hk, hp, _, _, htn, hnext⟩
  · have := h.t1; omega
  · have hes := term_batch hk hp
    subst hes
    obtain ⟨p1, p2, g1, g2, g3, g4⟩ := right_term (r := r) (t := t) c h.rt htn h.sf
    refine ⟨p1, ?_⟩
    rw [p2, g4]
    apply InvC.term (t + 1)
    · exact ⟨c.nLpos, c.nRpos, c.lc, c.rc, c.li, c.ri, c.rcache, c.rptr, g1, g3, c.shapes, c.post, c.mark⟩
    · exact ⟨by omega, by omega, h.full, h.ptr, h.lf, h.lt, h.clen, h.cf, h.rf, rfl, h.fm, g2, hnext,
             by rw [right_term_pending (r := r) (t := t) c h.rt htn h.sf]; exact h.pn,
             rs, by simpa using sh, hne0⟩

/-- all loop-side `Terminate`s have been seen: the synthetic batch ends the stream -/
theorem term_synth {nL nR : Nat} {futR : List (Batch α)} {L R : Side α} {fm : Bool}
    {qR : List (Batch α)} {S : Noir.Start.State} {acc : List (Elem (Bin α))}
    (c : Common nL nR L R S) (h : TermRel nL nR futR L R fm qR S acc nR) :
    FinRel L (feed S 0 (List.replicate nL (Elem.term : Elem (Bin α)))).1
      (acc ++ (feed S 0 (List.replicate nL (Elem.term : Elem (Bin α)))).2) := by
  have hST : S.missingTerm = nL := by rw [c.sT, h.rt]; omega
  have hlive : S.missingTerm ≠ 0 := by rw [hST]; have := c.nLpos; omega
  have hf0 : S.missingFar ≠ 0 := by rw [h.sf]; have := c.nLpos; omega
  obtain ⟨_, _, g3, g4⟩ := feed_terms (β := Bin α) 0 nL S hf0 (by omega) hlive
  obtain ⟨rs, sh, hne0⟩ := h.sh
  refine ⟨by rw [g3, hST]; omega, by rw [cacheP, markers_presented, c.mark, if_pos h.cf], rs,
    ⟨by simp, sh.clean, by intro e he; simp at he, sh.same⟩, hne0, ?_⟩
  rw [g4, if_pos hST.symm, sh.eq]; simp

theorem cacheEls_take_succ (c : List (Batch (Bin α))) (p : Nat) (hp : p < c.length) :
    cacheEls (c.take (p + 1)) = cacheEls (c.take p) ++ (c.getD p (0, [])).2 := by
  have : c[p]? = some c[p] := List.getElem?_eq_getElem hp
  unfold cacheEls
  rw [List.take_add_one, List.flatMap_append, this]
  simp [List.getD_eq_getElem?_getD, this]

theorem cacheEls_take_drop (c : List (Batch (Bin α))) (p : Nat) :
    cacheEls c = cacheEls (c.take p) ++ cacheEls (c.drop p) := by
  unfold cacheEls; rw [← List.flatMap_append, List.take_append_drop]

theorem cacheEls_all_empty (c : List (Batch (Bin α))) (h : ∀ b ∈ c, b.2 = []) : cacheEls c = [] := by
  unfold cacheEls
  induction c with
  | nil => rfl
  | cons b c ih =>
    simp only [List.flatMap_cons, h b (by simp), List.nil_append]
    exact ih (fun x hx => h x (by simp [hx]))

/-- a later round, the next cached batch is replayed and consumed by `Start` -/
theorem play_replay {nL nR : Nat} {futL futR : List (Batch α)} {L R : Side α} {fm : Bool}
    {qL qR : List (Batch α)} {S : Noir.Start.State} {acc : List (Elem (Bin α))} {p fR : Nat}
    (c : Common nL nR L R S) (h : PlayRel nL nR futR L R fm qR S acc p fR) (hp : p < L.cache.length) :
    InvC nL nR futL futR L.nextCached.1 R fm qL qR
      (feed S L.nextCached.2.1 L.nextCached.2.2).1 (acc ++ (feed S L.nextCached.2.1 L.nextCached.2.2).2) := by
  have hb : L.nextCached.2 = L.cache.getD p (0, []) := by simp [Side.nextCached, h.ptr]
  have hmem : L.cache.getD p (0, []) ∈ L.cache := by
    rw [List.getD_eq_getElem?_getD, List.getElem?_eq_getElem hp]; simp
  obtain ⟨dd, hf, hb2, hdd⟩ := c.shapes _ hmem
  have htk := cacheEls_take_succ L.cache p hp
  rw [hb2] at htk
  have hfars : farsIn (cacheEls (L.cache.take (p + 1))) = farsIn (cacheEls (L.cache.take p)) + b2n hf := by
    rw [htk, farsIn_append, farsIn_append, farsIn_clean _ hdd, farsIn_tail]; omega
  have hle := farsIn_take_le L.cache (p + 1)
  rw [h.cf, hfars] at hle
  have hlive : S.missingTerm ≠ 0 := by rw [c.sT]; have := c.nLpos; omega
  have hbn : hf = true → b2n hf = 1 := by intro e; subst e; rfl
  obtain ⟨g1, g2, g3, op, g4, g5, g6⟩ :=
    feed_batch S (L.cache.getD p (0, [])).1 dd hf nL nR ((nL - farsIn (cacheEls (L.cache.take p))) + (nR - fR))
      hdd hlive c.sn h.sf (by intro e; have := hbn e; omega)
  rw [hb, hb2, g6]
  -- the side after `next_cached_item`
  have hL1 : L.nextCached.1.cache = L.cache := by simp
  have hptr : L.nextCached.1.cachePointer = p + 1 := by rw [nextCached_pointer, h.ptr]
  have hmf : L.nextCached.1.missingFar = (if p + 1 = L.cache.length then 0 else nL) := by
    unfold Side.nextCached
    simp only [Side.cacheFinished, h.ptr]
    by_cases hl : p + 1 = L.cache.length
    · simp [hl]
    · have : ¬ (L.cache.length ≤ p + 1) := by omega
      simp [this, hl, h.lf]; omega
  have hemptyb : (nL - farsIn (cacheEls (L.cache.take p))) + (nR - fR) = 0 → hf = false ∧ dd = [] := by
    intro hs0
    have hfull : farsIn (cacheEls (L.cache.take p)) = nL := by
      have := farsIn_take_le L.cache p; rw [h.cf] at this; omega
    have hmd : L.cache.getD p (0, []) ∈ L.cache.drop p := by
      have hd : L.cache.drop p = L.cache[p] :: L.cache.drop (p + 1) := List.drop_eq_getElem_cons hp
      rw [List.getD_eq_getElem?_getD, List.getElem?_eq_getElem hp]
      show L.cache[p] ∈ L.cache.drop p
      rw [hd]; exact List.mem_cons_self
    have hemp := c.post p hfull _ hmd
    have hf0 : hf = false := by cases hf <;> simp [b2n] at hle ⊢; omega
    subst hf0
    exact ⟨rfl, by rw [hb2] at hemp; simpa using hemp⟩
  apply InvC.play (p + 1) fR
  · exact ⟨c.nLpos, c.nRpos, by simp [c.lc], c.rc, by simp [Side.nextCached]; split <;> exact c.li, c.ri, c.rcache, c.rptr,
      g1, by rw [g2]; exact c.sT, by rw [hL1]; exact c.shapes, by rw [hL1]; exact c.post, by rw [hL1]; exact c.mark⟩
  · obtain ⟨rs, cur, sh, hne0, s1, s2⟩ := h.sh
    have hPeq : cacheP L.nextCached.1 = cacheP L := by simp [cacheP]
    refine ⟨by rw [nextCached_full]; exact h.full, hptr, by rw [hL1]; omega, by rw [hL1]; exact hmf,
      by simp [h.lt], by rw [hL1]; exact h.cf, h.rf, h.rn, h.rt, h.fm, ?_, h.cr, ?_, ?_⟩
    · rw [g3, hL1, hfars]; congr 1; omega
    · rw [hL1, hfars]
      intro h0
      have hb1 : b2n true = 1 := rfl
      have hb0 : b2n false = 0 := rfl
      by_cases hs0 : (nL - farsIn (cacheEls (L.cache.take p))) + (nR - fR) = 0
      · obtain ⟨e1, e2⟩ := hemptyb hs0
        subst e1; subst e2
        simpa [feed] using h.pn hs0
      · have hft : hf = true := by
          cases hf with
          | true => rfl
          | false => exfalso; omega
        subst hft
        exact feed_batch_pending S _ dd nL nR hdd hlive (by rw [h.sf]; congr 1; omega)
    · rw [hL1, hPeq, hfars]
      by_cases hs0 : (nL - farsIn (cacheEls (L.cache.take p))) + (nR - fR) = 0
      · -- the round is closed already: the rest of the cache is empty
        have hfull : farsIn (cacheEls (L.cache.take p)) = nL := by
          have := farsIn_take_le L.cache p; rw [h.cf] at this; omega
        have hmd : L.cache.getD p (0, []) ∈ L.cache.drop p := by
          have hd : L.cache.drop p = L.cache[p] :: L.cache.drop (p + 1) := List.drop_eq_getElem_cons hp
          rw [List.getD_eq_getElem?_getD, List.getElem?_eq_getElem hp]
          show L.cache[p] ∈ L.cache.drop p
          rw [hd]; exact List.mem_cons_self
        have hemp := c.post p hfull _ hmd
        have hf0 : hf = false := by cases hf <;> simp [b2n] at hle ⊢; omega
        subst hf0
        have hdd0 : dd = [] := by rw [hb2] at hemp; simpa using hemp
        subst hdd0
        have hop : op = [] := by have h6 := g6; simpa [feed] using h6.symm
        subst hop
        have hcur := s2 hs0
        subst hcur
        refine ⟨rs, [], by simpa using sh, hne0, ?_, ?_⟩
        · intro hne; simp [b2n] at hne; omega
        · intro _; rfl
      · have c2 := s1 hs0
        have hpo : presented true (cur ++ op) = presented true (cacheEls (L.cache.take (p + 1))) := by
          rw [presented_append, c2, g5 true, htk, presented_append, presented_append, presented_tail]; simp
        obtain ⟨rs', cur', sh', t1, t2⟩ := shaped_feed sh op g4
          (hf && decide ((nL - farsIn (cacheEls (L.cache.take p))) + (nR - fR) = 1))
          (by
            intro hcl
            simp only [Bool.and_eq_true, decide_eq_true_eq] at hcl
            -- the round closes: the whole cache has been replayed (what is left of it is empty)
            have hfull : farsIn (cacheEls (L.cache.take (p + 1))) = nL := by
              have hb1 := hbn hcl.1
              have hc2 := hcl.2
              rw [hfars]; omega
            have hrest := cacheEls_all_empty _ (c.post (p + 1) hfull)
            rw [hpo, cacheP, cacheEls_take_drop L.cache (p + 1), hrest]; simp)
        refine ⟨rs', cur', sh', ?_, ?_, ?_⟩
        · by_cases hcl : (hf && decide ((nL - farsIn (cacheEls (L.cache.take p))) + (nR - fR) = 1)) = true
          · exact (t1 hcl).2
          · have := (t2 (by simpa using hcl)).1; rw [this]; exact hne0
        · intro hne1
          have hcl : (hf && decide ((nL - farsIn (cacheEls (L.cache.take p))) + (nR - fR) = 1)) = false := by
            cases hf with
            | false => rfl
            | true =>
              have hb1 : b2n true = 1 := rfl
              simp only [Bool.true_and, decide_eq_false_iff_not]
              omega
          rw [(t2 hcl).2]; exact hpo
        · intro h0
          have hcl : (hf && decide ((nL - farsIn (cacheEls (L.cache.take p))) + (nR - fR) = 1)) = true := by
            have hb0 : b2n false = 0 := rfl
            have hb1 : b2n true = 1 := rfl
            cases hf with
            | false => exfalso; omega
            | true =>
              simp only [Bool.true_and, decide_eq_true_eq]
              omega
          exact (t1 hcl).1

theorem common_reset {nL nR : Nat} {L R : Side α} {S : Noir.Start.State} (c : Common nL nR L R S) :
    Common nL nR L.reset R.reset S := by
  have hL : L.reset = { L with missingFar := L.instances, cacheFull := true, cachePointer := 0 } := by
    simp [Side.reset, c.lc]
  have hR : R.reset = { R with missingFar := R.instances } := by simp [Side.reset, c.rc]
  rw [hL, hR]
  exact ⟨c.nLpos, c.nRpos, c.lc, c.rc, c.li, c.ri, c.rcache, c.rptr, c.sn, c.sT, c.shapes, c.post, c.mark⟩

/-- round 1 is over on both sides: `select` prepares the next round -/
theorem r1_to_wait {nL nR : Nat} {futL futR : List (Batch α)} {L R : Side α} {fm : Bool}
    {qL qR : List (Batch α)} {S : Noir.Start.State} {acc : List (Elem (Bin α))} {fL fR tL : Nat}
    (c : Common nL nR L R S) (h : R1Rel nL nR futL futR L R fm qL qR S acc fL tL fR) (h1 : tL = nL) (h2 : fR = nR) :
    WaitRel nL nR futR L.reset R.reset true qR S acc := by
  have hL : L.reset = { L with missingFar := L.instances, cacheFull := true, cachePointer := 0 } := by
    simp [Side.reset, c.lc]
  have hR : R.reset = { R with missingFar := R.instances } := by simp [Side.reset, c.rc]
  have hfl : fL = nL := by have := h.tf; have := h.fn; omega
  rw [hL, hR]
  obtain ⟨o, hcr⟩ := h.cr
  obtain ⟨rs, cur, sh, _, s2⟩ := h.sh
  obtain ⟨e1, e2⟩ := s2 (by omega)
  subst e1
  refine ⟨rfl, rfl, c.li, by rw [h.lt]; omega, by rw [h.cf, hfl], c.ri, h.rt, rfl, ?_, ?_, h.pn (by omega), rs, sh, e2⟩
  · rw [h.sf]; unfold startFar; rw [if_pos (by omega)]
  · simpa [h2] using hcr

/-- a later round is over on both sides: `select` prepares the next round -/
theorem play_to_wait {nL nR : Nat} {futR : List (Batch α)} {L R : Side α} {fm : Bool}
    {qR : List (Batch α)} {S : Noir.Start.State} {acc : List (Elem (Bin α))} {fR : Nat}
    (c : Common nL nR L R S) (h : PlayRel nL nR futR L R fm qR S acc L.cache.length fR) (h2 : fR = nR) :
    WaitRel nL nR futR L.reset R.reset true qR S acc := by
  have hL : L.reset = { L with missingFar := L.instances, cacheFull := true, cachePointer := 0 } := by
    simp [Side.reset, c.lc]
  have hR : R.reset = { R with missingFar := R.instances } := by simp [Side.reset, c.rc]
  have hfull : farsIn (cacheEls (L.cache.take L.cache.length)) = nL := by rw [List.take_length]; exact h.cf
  rw [hL, hR]
  obtain ⟨rs, cur, sh, hne0, _, s2⟩ := h.sh
  have e1 := s2 (by rw [hfull]; omega)
  subst e1
  refine ⟨rfl, rfl, c.li, h.lt, h.cf, c.ri, h.rt, rfl, ?_, ?_, h.pn (by rw [hfull]; omega), rs, sh, hne0⟩
  · rw [h.sf, hfull]; unfold startFar; rw [if_pos (by omega)]
  · simpa [h2] using h.cr

/-- what one `select` (followed by `Start` consuming the batch, if any) must achieve -/
def StepOk (nL nR : Nat) (futL futR : List (Batch α)) (S : Noir.Start.State) (acc : List (Elem (Bin α)))
    (res : State α × Sel α) : Prop :=
  res.2.isPanic = false
  ∧ (res.2.batch? = none →
      InvC nL nR futL futR res.1.left res.1.right res.1.firstMessage res.1.qL res.1.qR S acc)
  ∧ (∀ b, res.2.batch? = some b →
      InvC nL nR futL futR res.1.left res.1.right res.1.firstMessage res.1.qL res.1.qR
        (feed S b.1 b.2).1 (acc ++ (feed S b.1 b.2).2))

theorem recvRight_ok {nL nR : Nat} {futL futR : List (Batch α)} {S : Noir.Start.State}
    {acc : List (Elem (Bin α))} (st : State α) (fm' : Bool)
    (hblock : InvC nL nR futL futR st.left st.right st.firstMessage st.qL st.qR S acc)
    (hrecv : ∀ r es q, st.qR = (r, es) :: q →
      (st.right.process Bin.right Bin.rightEnd (st.offR + r) es).2.2 = false
      ∧ InvC nL nR futL futR st.left (st.right.process Bin.right Bin.rightEnd (st.offR + r) es).1 fm'
          st.qL q
          (feed S (st.right.process Bin.right Bin.rightEnd (st.offR + r) es).2.1.1
                  (st.right.process Bin.right Bin.rightEnd (st.offR + r) es).2.1.2).1
          (acc ++ (feed S (st.right.process Bin.right Bin.rightEnd (st.offR + r) es).2.1.1
                  (st.right.process Bin.right Bin.rightEnd (st.offR + r) es).2.1.2).2)) :
    StepOk nL nR futL futR S acc
      ({ (recvRight st).1 with firstMessage := if (recvRight st).2.isBlock then st.firstMessage else fm' },
       (recvRight st).2) := by
  unfold recvRight
  split
  · exact ⟨rfl, fun _ => hblock, fun b hb => by simp [Sel.batch?] at hb⟩
  · rename_i r es q hq
    obtain ⟨h1, h2⟩ := hrecv r es q hq
    simp only [h1, Bool.false_eq_true, if_false]
    refine ⟨rfl, fun hb => by simp [Sel.batch?] at hb, fun b hb => ?_⟩
    simp only [Sel.batch?, Option.some.injEq] at hb
    subst hb
    exact h2

theorem recvLeft_ok {nL nR : Nat} {futL futR : List (Batch α)} {S : Noir.Start.State}
    {acc : List (Elem (Bin α))} (st : State α)
    (hblock : InvC nL nR futL futR st.left st.right st.firstMessage st.qL st.qR S acc)
    (hrecv : ∀ r es q, st.qL = (r, es) :: q →
      (st.left.process Bin.left Bin.leftEnd (st.offL + r) es).2.2 = false
      ∧ InvC nL nR futL futR (st.left.process Bin.left Bin.leftEnd (st.offL + r) es).1 st.right st.firstMessage q st.qR
          (feed S (st.left.process Bin.left Bin.leftEnd (st.offL + r) es).2.1.1
                  (st.left.process Bin.left Bin.leftEnd (st.offL + r) es).2.1.2).1
          (acc ++ (feed S (st.left.process Bin.left Bin.leftEnd (st.offL + r) es).2.1.1
                  (st.left.process Bin.left Bin.leftEnd (st.offL + r) es).2.1.2).2)) :
    StepOk nL nR futL futR S acc (recvLeft st) := by
  unfold recvLeft
  split
  · exact ⟨rfl, fun _ => hblock, fun b hb => by simp [Sel.batch?] at hb⟩
  · rename_i r es q hq
    obtain ⟨h1, h2⟩ := hrecv r es q hq
    simp only [h1, Bool.false_eq_true, if_false]
    refine ⟨rfl, fun hb => by simp [Sel.batch?] at hb, fun b hb => ?_⟩
    simp only [Sel.batch?, Option.some.injEq] at hb
    subst hb
    exact h2

theorem recvRight_ok' {nL nR : Nat} {futL futR : List (Batch α)} {S : Noir.Start.State}
    {acc : List (Elem (Bin α))} (st : State α)
    (hblock : InvC nL nR futL futR st.left st.right st.firstMessage st.qL st.qR S acc)
    (hrecv : ∀ r es q, st.qR = (r, es) :: q →
      (st.right.process Bin.right Bin.rightEnd (st.offR + r) es).2.2 = false
      ∧ InvC nL nR futL futR st.left (st.right.process Bin.right Bin.rightEnd (st.offR + r) es).1
          st.firstMessage st.qL q
          (feed S (st.right.process Bin.right Bin.rightEnd (st.offR + r) es).2.1.1
                  (st.right.process Bin.right Bin.rightEnd (st.offR + r) es).2.1.2).1
          (acc ++ (feed S (st.right.process Bin.right Bin.rightEnd (st.offR + r) es).2.1.1
                  (st.right.process Bin.right Bin.rightEnd (st.offR + r) es).2.1.2).2)) :
    StepOk nL nR futL futR S acc (recvRight st) := by
  unfold recvRight
  split
  · exact ⟨rfl, fun _ => hblock, fun b hb => by simp [Sel.batch?] at hb⟩
  · rename_i r es q hq
    obtain ⟨h1, h2⟩ := hrecv r es q hq
    simp only [h1, Bool.false_eq_true, if_false]
    refine ⟨rfl, fun hb => by simp [Sel.batch?] at hb, fun b hb => ?_⟩
    simp only [Sel.batch?, Option.some.injEq] at hb
    subst hb
    exact h2

/-- `selectBody` in a state that waits for the first loop-side batch of a round -/
theorem body_wait {nL nR : Nat} {futL futR : List (Batch α)} {acc : List (Elem (Bin α))} (st : State α)
    (c : Common nL nR st.left st.right st.start)
    (h : WaitRel nL nR futR st.left st.right st.firstMessage st.qR st.start acc) :
    StepOk nL nR futL futR st.start acc (selectBody ch st) := by
  unfold selectBody
  have hfm : st.firstMessage = true := h.fm
  simp only [hfm, c.lc, Bool.true_or, Bool.and_self, if_true]
  have := recvRight_ok (nL := nL) (nR := nR) (futL := futL) (futR := futR) (S := st.start) (acc := acc) st false
    (InvC.wait c h)
    (fun r es q hq => by
      have h' : WaitRel nL nR futR st.left st.right st.firstMessage ((r, es) :: q) st.start acc := by
        rw [← hq]; exact h
      exact wait_first c h')
  have e : (if (recvRight st).2.isBlock then st.firstMessage else false) = (recvRight st).2.isBlock := by
    rw [hfm]; cases (recvRight st).2.isBlock <;> rfl
  rw [e] at this
  exact this

theorem iter_wait {nL nR : Nat} {futL futR : List (Batch α)} {acc : List (Elem (Bin α))} (st : State α)
    (c : Common nL nR st.left st.right st.start)
    (h : WaitRel nL nR futR st.left st.right st.firstMessage st.qR st.start acc) :
    StepOk nL nR futL futR st.start acc (select ch st) := by
  have hnR := c.nRpos
  have h1 : (st.left.isTerminated && st.right.isTerminated && decide (numTerminates st > 0)) = false := by
    simp [Side.isTerminated, h.rt]; omega
  have h2 : prepare st = st := by
    unfold prepare
    have : st.right.isEnded = false := by simp [Side.isEnded, c.rc, h.rf]; omega
    simp [this]
  unfold select
  rw [h1, h2]
  exact body_wait st c h

theorem iter_term {nL nR : Nat} {futL futR : List (Batch α)} {acc : List (Elem (Bin α))} {t : Nat} (st : State α)
    (c : Common nL nR st.left st.right st.start)
    (h : TermRel nL nR futR st.left st.right st.firstMessage st.qR st.start acc t) :
    StepOk nL nR futL futR st.start acc (select ch st) := by
  have hnR := c.nRpos
  have hnL := c.nLpos
  by_cases ht : t = nR
  · -- (1) the synthetic Terminates
    subst ht
    have h1 : (st.left.isTerminated && st.right.isTerminated && decide (numTerminates st > 0)) = true := by
      simp [Side.isTerminated, h.rt, h.lt, numTerminates, c.lc, c.li]; omega
    unfold select
    rw [h1]
    simp only [if_true]
    have hnt : numTerminates st = nL := by simp [numTerminates, c.lc, c.li]
    refine ⟨rfl, fun hb => by simp [Sel.batch?] at hb, fun b hb => ?_⟩
    simp only [Sel.batch?, Option.some.injEq] at hb
    subst hb
    rw [hnt]
    exact InvC.fin (term_synth c h)
  · have htn := h.tn
    have h1 : (st.left.isTerminated && st.right.isTerminated && decide (numTerminates st > 0)) = false := by
      simp [Side.isTerminated, h.rt]; intro _ _; omega
    have hre : st.right.isEnded = false := by simp [Side.isEnded, c.rc, h.rf]; omega
    have h2 : prepare st = st := by unfold prepare; simp [hre]
    have hle : st.left.isEnded = true := by simp [Side.isEnded, c.lc, Side.isTerminated, h.lt]
    unfold select
    rw [h1, h2]
    unfold selectBody
    have hfm : st.firstMessage = false := h.fm
    have hmt : (st.right.missingTerm == st.right.instances) = false := by
      simp [h.rt, c.ri]; have := h.t1; omega
    simp only [hfm, Bool.false_and, Bool.false_eq_true, if_false, hmt, Bool.and_false, c.rc]
    unfold selectRecv
    rw [if_pos hle]
    exact recvRight_ok' st (InvC.term t c h) (fun r es q hq => by
      have h' : TermRel nL nR futR st.left st.right st.firstMessage ((r, es) :: q) st.start acc t := by
        rw [← hq]; exact h
      exact term_right c h')

theorem iter_play {nL nR : Nat} {futL futR : List (Batch α)} {acc : List (Elem (Bin α))} {p fR : Nat} (st : State α)
    (c : Common nL nR st.left st.right st.start)
    (h : PlayRel nL nR futR st.left st.right st.firstMessage st.qR st.start acc p fR) :
    StepOk nL nR futL futR st.start acc (select ch st) := by
  have hnR := c.nRpos
  have hnL := c.nLpos
  have h1 : (st.left.isTerminated && st.right.isTerminated && decide (numTerminates st > 0)) = false := by
    simp [Side.isTerminated, h.rt]; omega
  have hle : st.left.isEnded = true := by simp [Side.isEnded, c.lc, Side.isTerminated, h.lt]
  have hrcf : st.right.cacheFinished = true := by simp [Side.cacheFinished, c.rcache, c.rptr]
  have hfm : st.firstMessage = false := h.fm
  have hmt : (st.right.missingTerm == st.right.instances) = true := by simp [h.rt, c.ri]
  unfold select
  rw [h1]
  simp only [Bool.false_eq_true, if_false]
  by_cases hend : fR = nR ∧ p = st.left.cache.length
  · -- the round is over: reset, then wait for the first batch of the next one
    obtain ⟨e1, e2⟩ := hend
    subst e2
    have hre : st.right.isEnded = true := by simp [Side.isEnded, c.rc, h.rf, e1]
    have hlcf : st.left.cacheFinished = true := by simp [Side.cacheFinished, h.ptr]
    have hprep : prepare st = { st with left := st.left.reset, right := st.right.reset, firstMessage := true } := by
      unfold prepare; simp [hle, hre, hlcf, hrcf]
    rw [hprep]
    exact body_wait (futL := futL) ({ st with left := st.left.reset, right := st.right.reset, firstMessage := true })
      (common_reset c) (play_to_wait c h e1)
  · have hprep : prepare st = st := by
      unfold prepare
      by_cases e1 : fR = nR
      · have : p ≠ st.left.cache.length := fun e2 => hend ⟨e1, e2⟩
        have hlcf : st.left.cacheFinished = false := by
          simp [Side.cacheFinished, h.ptr]; have := h.pl; omega
        simp [hlcf]
      · have hre : st.right.isEnded = false := by simp [Side.isEnded, c.rc, h.rf]; have := h.rn; omega
        simp [hre]
    rw [hprep]
    unfold selectBody
    simp only [hfm, Bool.false_and, Bool.false_eq_true, if_false]
    by_cases hp : p < st.left.cache.length
    · have hlcf : st.left.cacheFinished = false := by simp [Side.cacheFinished, h.ptr]; exact hp
      simp only [c.lc, h.full, hlcf, hmt, Bool.not_false, Bool.and_self, if_true]
      refine ⟨rfl, fun hb => by simp [Sel.batch?] at hb, fun b hb => ?_⟩
      simp only [Sel.batch?, Option.some.injEq] at hb
      subst hb
      have h' : PlayRel nL nR futR st.left st.right false st.qR st.start acc p fR := hfm ▸ h
      exact play_replay c h' hp
    · have hpe : p = st.left.cache.length := by have := h.pl; omega
      subst hpe
      have hlcf : st.left.cacheFinished = true := by simp [Side.cacheFinished, h.ptr]
      simp only [hlcf, Bool.not_true, Bool.and_false, Bool.false_and, Bool.false_eq_true, if_false, c.rc]
      unfold selectRecv
      rw [if_pos hle]
      have hfr : fR < nR := by
        have := h.rn
        rcases Nat.lt_or_ge fR nR with h' | h'
        · exact h'
        · exact absurd ⟨by omega, rfl⟩ hend
      exact recvRight_ok' st (InvC.play _ fR c h) (fun r es q hq => by
        have h' : PlayRel nL nR futR st.left st.right st.firstMessage ((r, es) :: q) st.start acc
            st.left.cache.length fR := by rw [← hq]; exact h
        exact play_right c h' hfr)

theorem iter_r1 {nL nR : Nat} {futL futR : List (Batch α)} {acc : List (Elem (Bin α))} {fL tL fR : Nat} (st : State α)
    (c : Common nL nR st.left st.right st.start)
    (h : R1Rel nL nR futL futR st.left st.right st.firstMessage st.qL st.qR st.start acc fL tL fR) :
    StepOk nL nR futL futR st.start acc (select ch st) := by
  have hnR := c.nRpos
  have hnL := c.nLpos
  have htl : tL ≤ nL := by have := h.tf; have := h.fn; omega
  have h1 : (st.left.isTerminated && st.right.isTerminated && decide (numTerminates st > 0)) = false := by
    simp [Side.isTerminated, h.rt]; omega
  have hle : st.left.isEnded = decide (tL = nL) := by
    simp only [Side.isEnded, c.lc, Side.isTerminated, h.lt, if_true]
    by_cases e : tL = nL
    · simp [e]
    · have : nL - tL ≠ 0 := by omega
      simp [e, this]
  have hre : st.right.isEnded = decide (fR = nR) := by
    simp only [Side.isEnded, c.rc, h.rf]
    by_cases e : fR = nR
    · simp [e]
    · have : nR - fR ≠ 0 := by have := h.rn; omega
      simp [e, this]
  have hlcf : st.left.cacheFinished = true := by simp [Side.cacheFinished, h.ptr]
  have hrcf : st.right.cacheFinished = true := by simp [Side.cacheFinished, c.rcache, c.rptr]
  have hfm : st.firstMessage = false := h.fm
  have hleft : ∀ r es q, st.qL = (r, es) :: q →
      (st.left.process Bin.left Bin.leftEnd (st.offL + r) es).2.2 = false
      ∧ InvC nL nR futL futR (st.left.process Bin.left Bin.leftEnd (st.offL + r) es).1 st.right st.firstMessage q st.qR
          (feed st.start (st.left.process Bin.left Bin.leftEnd (st.offL + r) es).2.1.1
                  (st.left.process Bin.left Bin.leftEnd (st.offL + r) es).2.1.2).1
          (acc ++ (feed st.start (st.left.process Bin.left Bin.leftEnd (st.offL + r) es).2.1.1
                  (st.left.process Bin.left Bin.leftEnd (st.offL + r) es).2.1.2).2) := by
    intro r es q hq
    have h' : R1Rel nL nR futL futR st.left st.right st.firstMessage ((r, es) :: q) st.qR st.start acc fL tL fR := by
      rw [← hq]; exact h
    exact r1_left c h'
  have hright : fR < nR → ∀ r es q, st.qR = (r, es) :: q →
      (st.right.process Bin.right Bin.rightEnd (st.offR + r) es).2.2 = false
      ∧ InvC nL nR futL futR st.left (st.right.process Bin.right Bin.rightEnd (st.offR + r) es).1
          st.firstMessage st.qL q
          (feed st.start (st.right.process Bin.right Bin.rightEnd (st.offR + r) es).2.1.1
                  (st.right.process Bin.right Bin.rightEnd (st.offR + r) es).2.1.2).1
          (acc ++ (feed st.start (st.right.process Bin.right Bin.rightEnd (st.offR + r) es).2.1.1
                  (st.right.process Bin.right Bin.rightEnd (st.offR + r) es).2.1.2).2) := by
    intro hfr r es q hq
    have h' : R1Rel nL nR futL futR st.left st.right st.firstMessage st.qL ((r, es) :: q) st.start acc fL tL fR := by
      rw [← hq]; exact h
    exact r1_right c h' hfr
  unfold select
  rw [h1]
  simp only [Bool.false_eq_true, if_false]
  by_cases hend : tL = nL ∧ fR = nR
  · obtain ⟨e1, e2⟩ := hend
    have hprep : prepare st = { st with left := st.left.reset, right := st.right.reset, firstMessage := true } := by
      unfold prepare; simp [hle, hre, hlcf, hrcf, e1, e2]
    rw [hprep]
    exact body_wait (futL := futL) ({ st with left := st.left.reset, right := st.right.reset, firstMessage := true })
      (common_reset c) (r1_to_wait c h e1 e2)
  · have hprep : prepare st = st := by
      unfold prepare
      have : (st.left.isEnded && st.right.isEnded) = false := by
        rw [hle, hre]
        by_cases e1 : tL = nL
        · have : fR ≠ nR := fun e2 => hend ⟨e1, e2⟩
          simp [this]
        · simp [e1]
      simp [this]
    rw [hprep]
    unfold selectBody
    simp only [hfm, Bool.false_and, Bool.false_eq_true, if_false, h.full, Bool.and_false, c.rc]
    unfold selectRecv
    have hfr : fR ≤ nR := h.rn
    by_cases e1 : tL = nL
    · have e2 : fR < nR := by
        rcases Nat.lt_or_ge fR nR with h' | h'
        · exact h'
        · exact absurd ⟨e1, by omega⟩ hend
      rw [if_pos (by rw [hle]; simp [e1])]
      exact recvRight_ok' st (InvC.r1 fL tL fR c h) (hright e2)
    · rw [if_neg (by rw [hle]; simp [e1])]
      by_cases e2 : fR = nR
      · rw [if_pos (by rw [hre]; simp [e2])]
        exact recvLeft_ok st (InvC.r1 fL tL fR c h) hleft
      · rw [if_neg (by rw [hre]; simp [e2])]
        have hlt : st.left.isTerminated = false := by simp [Side.isTerminated, h.lt]; omega
        have hrt : st.right.isTerminated = false := by simp [Side.isTerminated, h.rt]; omega
        rw [hlt, hrt]
        simp only
        split
        · exact recvRight_ok' st (InvC.r1 fL tL fR c h) (hright (by omega))
        · exact recvLeft_ok st (InvC.r1 fL tL fR c h) hleft
        · split
          · exact recvLeft_ok ({ st with ambig := st.ambig + 1 }) (InvC.r1 fL tL fR c h) hleft
          · exact recvRight_ok' ({ st with ambig := st.ambig + 1 }) (InvC.r1 fL tL fR c h) (hright (by omega))

/-- **one iteration of the pull loop preserves the invariant** -/
theorem inv_select {nL nR : Nat} {futL futR : List (Batch α)} {acc : List (Elem (Bin α))} (st : State α)
    (h : Inv nL nR futL futR st acc) (hlive : st.start.missingTerm ≠ 0) :
    StepOk nL nR futL futR st.start acc (select ch st) := by
  cases h with
  | r1 fL tL fR c h => exact iter_r1 st c h
  | wait c h => exact iter_wait st c h
  | play p fR c h => exact iter_play st c h
  | term t c h => exact iter_term st c h
  | fin h => exact absurd h.dead hlive

/-- the protocol's receive timeout preserves the invariant: at most a pending watermark announcement
    joins the open round -/
theorem inv_timeout {nL nR : Nat} {futL futR : List (Batch α)} {L R : Side α} {fm : Bool}
    {qL qR : List (Batch α)} {S : Noir.Start.State} {acc : List (Elem (Bin α))}
    (h : InvC nL nR futL futR L R fm qL qR S acc) (hlive : S.missingTerm ≠ 0) :
    InvC nL nR futL futR L R fm qL qR
      (Noir.Start.step S (Noir.Start.Arrival.timeout : Noir.Start.Arrival (Bin α))).1
      (acc ++ (Noir.Start.step S (Noir.Start.Arrival.timeout : Noir.Start.Arrival (Bin α))).2.dropLast) := by
  obtain ⟨t1, t2, t3, ht⟩ := step_timeout (β := Bin α) S hlive
  rcases ht with ⟨_, e1, e2⟩ | ⟨p, hp, e1, e2⟩
  · rw [e1, e2, List.append_nil]; exact h
  · rw [e2]
    have hwm : Clean [(Elem.wm p : Elem (Bin α))] := by
      intro e he; simp at he; subst he; simp [plainE, Elem.isFar, Elem.isTerm]
    have hpw : ∀ cur : List (Elem (Bin α)), presented true (cur ++ [Elem.wm p]) = presented true cur := by
      intro cur; simp [presented, ofSide]
    cases h with
    | r1 fL tL fR c h =>
      have hs : (nL - fL) + (nR - fR) ≠ 0 := fun h0 => by rw [h.pn h0] at hp; cases hp
      obtain ⟨rs, cur, sh, s1, s2⟩ := h.sh
      refine InvC.r1 fL tL fR
        ⟨c.nLpos, c.nRpos, c.lc, c.rc, c.li, c.ri, c.rcache, c.rptr, by rw [t1]; exact c.sn, by rw [t3]; exact c.sT,
         c.shapes, c.post, c.mark⟩
        ⟨h.full, h.ptr, h.lf, h.lt, h.tf, h.fn, h.cf, h.rf, h.rn, h.rt, h.fm, by rw [t2]; exact h.sf, h.cl, h.cr,
         fun _ => e1, rs, cur ++ [Elem.wm p], sh.open_ _ hwm,
         fun hne => ⟨(s1 hne).1, by rw [hpw]; exact (s1 hne).2⟩, fun h0 => absurd h0 hs⟩
    | wait c h => rw [h.pn] at hp; cases hp
    | play q fR c h =>
      have hs : (nL - farsIn (cacheEls (L.cache.take q))) + (nR - fR) ≠ 0 := fun h0 => by
        rw [h.pn h0] at hp; cases hp
      obtain ⟨rs, cur, sh, hne0, s1, s2⟩ := h.sh
      refine InvC.play q fR
        ⟨c.nLpos, c.nRpos, c.lc, c.rc, c.li, c.ri, c.rcache, c.rptr, by rw [t1]; exact c.sn, by rw [t3]; exact c.sT,
         c.shapes, c.post, c.mark⟩
        ⟨h.full, h.ptr, h.pl, h.lf, h.lt, h.cf, h.rf, h.rn, h.rt, h.fm, by rw [t2]; exact h.sf, h.cr,
         fun _ => e1, rs, cur ++ [Elem.wm p], sh.open_ _ hwm, hne0,
         fun hne => by rw [hpw]; exact s1 hne, fun h0 => absurd h0 hs⟩
    | term t c h => rw [h.pn] at hp; cases hp
    | fin h => exact absurd h.dead hlive

theorem pump_inv {nL nR : Nat} {futL futR : List (Batch α)} : ∀ (fuel : Nat) (st : State α)
    (acc : List (Elem (Bin α))), Inv nL nR futL futR st acc →
    Inv nL nR futL futR (pump ch fuel st).1 (acc ++ (pump ch fuel st).2.1) ∧ (pump ch fuel st).2.2.2 ≠ .panic := by
  intro fuel
  induction fuel with
  | zero => intro st acc h; simp [pump]; exact h
  | succ n ih =>
    intro st acc h
    unfold pump
    split
    · simp; exact h
    · rename_i hlive
      obtain ⟨s1, s2, s3⟩ := inv_select st h hlive
      have hst := select_start (ch := ch) st
      simp only
      split
      · rename_i hb
        rw [s1]
        simp only [Bool.false_eq_true, if_false]
        have := s2 hb
        rw [← hst] at this
        split
        · simp; exact this
        · refine ⟨?_, by simp⟩
          exact inv_timeout this (by rw [hst]; exact hlive)
      · rename_i b hb
        have := s3 b hb
        rw [← hst] at this
        split
        · simp; exact this
        · obtain ⟨i1, i2⟩ := ih ({ (select ch st).1 with start := (feed (select ch st).1.start b.1 b.2).1, alreadyTimedOut := false }) (acc ++ (feed (select ch st).1.start b.1 b.2).2) this
          simp only
          rw [← List.append_assoc]
          exact ⟨i1, i2⟩

theorem inv_enq_left {nL nR : Nat} {futL futR : List (Batch α)} {acc : List (Elem (Bin α))} (st : State α)
    (r : Nat) (es : List (Elem α)) (h : Inv nL nR ((r, es) :: futL) futR st acc) :
    Inv nL nR futL futR (enqueue st true r es) acc := by
  simp only [enqueue, if_true]
  cases h with
  | r1 fL tL fR c h =>
    exact InvC.r1 fL tL fR c ⟨h.full, h.ptr, h.lf, h.lt, h.tf, h.fn, h.cf, h.rf, h.rn, h.rt, h.fm, h.sf,
      by rw [List.append_assoc]; exact h.cl, h.cr, h.pn, h.sh⟩
  | wait c h => exact InvC.wait c h
  | play p fR c h => exact InvC.play p fR c h
  | term t c h => exact InvC.term t c h
  | fin h => exact InvC.fin h

theorem inv_enq_right {nL nR : Nat} {futL futR : List (Batch α)} {acc : List (Elem (Bin α))} (st : State α)
    (r : Nat) (es : List (Elem α)) (h : Inv nL nR futL ((r, es) :: futR) st acc) :
    Inv nL nR futL futR (enqueue st false r es) acc := by
  simp only [enqueue, Bool.false_eq_true, if_false]
  cases h with
  | r1 fL tL fR c h =>
    obtain ⟨o, ho⟩ := h.cr
    exact InvC.r1 fL tL fR c ⟨h.full, h.ptr, h.lf, h.lt, h.tf, h.fn, h.cf, h.rf, h.rn, h.rt, h.fm, h.sf,
      h.cl, ⟨o, by rw [List.append_assoc]; exact ho⟩, h.pn, h.sh⟩
  | wait c h =>
    exact InvC.wait c ⟨h.full, h.ptr, h.lf, h.lt, h.cf, h.rf, h.rt, h.fm, h.sf,
      by rw [List.append_assoc]; exact h.cr, h.pn, h.sh⟩
  | play p fR c h =>
    exact InvC.play p fR c ⟨h.full, h.ptr, h.pl, h.lf, h.lt, h.cf, h.rf, h.rn, h.rt, h.fm, h.sf,
      by rw [List.append_assoc]; exact h.cr, h.pn, h.sh⟩
  | term t c h =>
    exact InvC.term t c ⟨h.t1, h.tn, h.full, h.ptr, h.lf, h.lt, h.clen, h.cf, h.rf, h.rt, h.fm, h.sf,
      by rw [List.append_assoc]; exact h.cr, h.pn, h.sh⟩
  | fin h => exact InvC.fin h

/-- **the invariant holds along every contract-respecting history** -/
theorem runFrom_inv {nL nR : Nat} (ops : List (Op α)) : ∀ (st : State α) (i : Nat) (acc : List (Elem (Bin α))),
    Inv nL nR (sentBatches true ops) (sentBatches false ops) st acc →
    (∃ fl fr, Inv nL nR fl fr (runFrom ch st i ops).1 (acc ++ (runFrom ch st i ops).2.1.map (·.2)))
    ∧ (runFrom ch st i ops).2.2.1 ≠ .panic := by
  induction ops with
  | nil => intro st i acc h; simp [runFrom, sentBatches] at h ⊢; exact ⟨[], [], h⟩
  | cons op ops ih =>
    intro st i acc h
    cases op with
    | enq l r es =>
      simp only [runFrom]
      cases l with
      | true => exact ih _ _ _ (inv_enq_left st r es (by simpa [sentBatches] using h))
      | false => exact ih _ _ _ (inv_enq_right st r es (by simpa [sentBatches] using h))
    | pump =>
      simp only [runFrom]
      simp only [sentBatches] at h
      obtain ⟨p1, p2⟩ := pump_inv (pumpFuel st) st acc h
      split
      · rename_i hoc
        obtain ⟨i1, i2⟩ := ih (pump ch (pumpFuel st) st).1 (i + 1) (acc ++ (pump ch (pumpFuel st) st).2.1) p1
        simp only [List.map_append, map_tag]
        rw [← List.append_assoc]
        exact ⟨i1, i2⟩
      · simp only [map_tag]
        exact ⟨⟨_, _, p1⟩, p2⟩

/-- a fresh state (nothing received yet) with the left side cached; the sender offsets and the
    watermark frontier are arbitrary -/
structure Fresh (nL nR : Nat) (st : State α) : Prop where
  l : st.left = Side.init nL true
  r : st.right = Side.init nR false
  fm : st.firstMessage = false
  ql : st.qL = []
  qr : st.qR = []
  sn : st.start.n = nL + nR
  sT : st.start.missingTerm = nL + nR
  sf : st.start.missingFar = nL + nR
  sp : st.start.pending = none

theorem fresh_init (nL nR : Nat) : Fresh nL nR (init nL nR true false : State α) :=
  ⟨rfl, rfl, rfl, rfl, rfl, rfl, rfl, rfl, rfl⟩

theorem inv_init {nL nR : Nat} (ops : List (Op α)) (st : State α) (hf : Fresh nL nR st)
    (h : contractL nL nR ops = true) :
    Inv nL nR (sentBatches true ops) (sentBatches false ops) st [] := by
  simp only [contractL, Bool.and_eq_true, decide_eq_true_eq] at h
  obtain ⟨⟨⟨hL, hR⟩, hcl⟩, hcr⟩ := h
  unfold Inv
  rw [hf.l, hf.r, hf.fm, hf.ql, hf.qr]
  apply InvC.r1 0 0 0
  · refine ⟨hL, hR, rfl, rfl, rfl, rfl, rfl, rfl, hf.sn, by rw [hf.sT]; rfl, ?_, ?_, ?_⟩
    · intro b hb; simp [Side.init] at hb
    · intro p _ b hb; simp [Side.init] at hb
    · have : ¬ (0 = nL) := by omega
      simp [Side.init, cacheEls, markers, farsIn, this]
  · have hs : (nL - 0) + (nR - 0) ≠ 0 := by omega
    refine ⟨rfl, rfl, rfl, rfl, Nat.le_refl _, Nat.zero_le _, by simp [Side.init, cacheEls, farsIn],
      rfl, Nat.zero_le _, rfl, rfl, ?_, by simpa using hcl, ⟨false, ?_⟩, fun _ => hf.sp, [], [], ?_, ?_, ?_⟩
    · rw [hf.sf]; simp only [startFar]; rw [if_neg hs]; omega
    · have : (0 : Nat) ≠ nR := by omega
      simpa [this] using hcr
    · exact ⟨by simp [joinRounds], by simp, fun e he => by simp at he, by simp⟩
    · intro _; exact ⟨rfl, by simp [cacheP, Side.init, cacheEls, presented]⟩
    · intro h0; exact absurd h0 hs

/-- what the invariant says about the output: closed rounds all presenting the cached side alike (with
    exactly one End marker), an open round without `FlushAndRestart`/`Terminate` — or, after `Terminate`,
    closed rounds and `Terminate` -/
theorem inv_output {nL nR : Nat} {fl fr : List (Batch α)} {st : State α} {acc : List (Elem (Bin α))}
    (h : Inv nL nR fl fr st acc) :
    ∃ P rs cur, (∀ r ∈ rs, Clean r) ∧ (∀ r ∈ rs, presented true r = P) ∧ (rs ≠ [] → markers P = 1)
      ∧ ((acc = joinRounds rs ++ cur ∧ Clean cur ∧ st.start.missingTerm ≠ 0)
         ∨ (acc = joinRounds rs ++ [Elem.term] ∧ rs ≠ [] ∧ cur = [Elem.term] ∧ st.start.missingTerm = 0)) := by
  have hmark : ∀ {L R : Side α} {S : Noir.Start.State}, Common nL nR L R S → farsIn (cacheEls L.cache) = nL →
      markers (cacheP L) = 1 := by
    intro L R S c hcf
    rw [cacheP, markers_presented, c.mark, if_pos hcf]
  cases h with
  | r1 fL tL fR c h =>
    obtain ⟨rs, cur, sh, s1, _⟩ := h.sh
    refine ⟨_, rs, cur, sh.clean, sh.same, ?_, Or.inl ⟨sh.eq, sh.cleanCur, by rw [c.sT]; have := c.nLpos; omega⟩⟩
    intro hne
    apply hmark c
    rw [h.cf]
    by_cases hs : (nL - fL) + (nR - fR) = 0
    · have := h.fn; omega
    · exact absurd (s1 hs).1 hne
  | wait c h =>
    obtain ⟨rs, sh, _⟩ := h.sh
    exact ⟨_, rs, [], sh.clean, sh.same, fun _ => hmark c h.cf,
      Or.inl ⟨sh.eq, sh.cleanCur, by rw [c.sT]; have := c.nLpos; omega⟩⟩
  | play p fR c h =>
    obtain ⟨rs, cur, sh, _, _, _⟩ := h.sh
    exact ⟨_, rs, cur, sh.clean, sh.same, fun _ => hmark c h.cf,
      Or.inl ⟨sh.eq, sh.cleanCur, by rw [c.sT]; have := c.nLpos; omega⟩⟩
  | term t c h =>
    obtain ⟨rs, sh, _⟩ := h.sh
    exact ⟨_, rs, [], sh.clean, sh.same, fun _ => hmark c h.cf,
      Or.inl ⟨sh.eq, sh.cleanCur, by rw [c.sT]; have := c.nLpos; omega⟩⟩
  | fin h =>
    obtain ⟨rs, sh, hne, he⟩ := h.sh
    exact ⟨_, rs, [Elem.term], sh.clean, sh.same, fun _ => h.mk1, Or.inr ⟨he, hne, rfl, h.dead⟩⟩

/-- the shape of the output of a run: closed rounds `rs`, all presenting side `l` alike (as `P`, with exactly
    one End marker as counted by `mk`), and an open round — or closed rounds and `Terminate` -/
def RunShaped (l : Bool) (mk : List (Elem (Bin α)) → Nat) (out : List (Elem (Bin α))) (oc : Outcome) : Prop :=
  ∃ P rs cur, (∀ r ∈ rs, Clean r) ∧ (∀ r ∈ rs, presented l r = P) ∧ (rs ≠ [] → mk P = 1)
    ∧ oc ≠ .panic
    ∧ ((out = joinRounds rs ++ cur ∧ Clean cur ∧ oc ≠ .done)
       ∨ (out = joinRounds rs ++ [Elem.term] ∧ rs ≠ [] ∧ cur = [Elem.term]))

/-- the output of a contract-respecting history with the left side cached, from any fresh state -/
theorem runFrom_shaped (nL nR : Nat) (ops : List (Op α)) (st : State α) (hf : Fresh nL nR st)
    (hc : contractL nL nR ops = true) :
    RunShaped true markers ((runFrom ch st 0 ops).2.1.map (·.2)) (runFrom ch st 0 ops).2.2.1 := by
  obtain ⟨⟨fl, fr, hinv⟩, hnp⟩ := runFrom_inv (ch := ch) (nL := nL) (nR := nR) ops st 0 [] (inv_init ops st hf hc)
  simp only [List.nil_append] at hinv
  obtain ⟨P, rs, cur, h1, h2, hm, h3⟩ := inv_output hinv
  refine ⟨P, rs, cur, h1, h2, hm, hnp, ?_⟩
  have hn : st.start.missingTerm ≠ 0 := by
    simp only [contractL, Bool.and_eq_true, decide_eq_true_eq] at hc
    rw [hf.sT]; omega
  have hterm := runFrom_term (ch := ch) ops st 0 hn
  rcases h3 with ⟨e1, e2, _⟩ | ⟨e1, e2, e3, _⟩
  · left
    refine ⟨e1, e2, ?_⟩
    -- no `Terminate` in a shaped output, so the run has not ended
    rcases hterm with ⟨t1, _⟩ | ⟨_, pre, t2, _⟩
    · exact t1
    · exfalso
      have hmem : Elem.term ∈ (runFrom ch st 0 ops).2.1.map (·.2) := by rw [t2]; simp
      rw [e1] at hmem
      rcases List.mem_append.mp hmem with hm | hm
      · simp only [joinRounds, List.mem_flatMap] at hm
        obtain ⟨r, hr, hm⟩ := hm
        rcases List.mem_append.mp hm with hm | hm
        · have := h1 r hr _ hm; simp [plainE, Elem.isTerm] at this
        · simp at hm
      · have := e2 _ hm; simp [plainE, Elem.isTerm] at this
  · right; exact ⟨e1, e2, e3⟩

theorem run_shaped (nL nR : Nat) (ops : List (Op α)) (hc : contractL nL nR ops = true) :
    RunShaped true markers (run ch nL nR true false ops).1 (run ch nL nR true false ops).2 :=
  runFrom_shaped nL nR ops _ (fresh_init nL nR) hc

/-! ### What a shaped run satisfies -/

theorem shaped_split {l : Bool} {mk} {out : List (Elem (Bin α))} {oc : Outcome}
    (h : RunShaped l mk out oc) :
    ∃ P rs, (splitRounds out).1 = rs ∧ (∀ r ∈ rs, presented l r = P) ∧ (rs ≠ [] → mk P = 1) := by
  obtain ⟨P, rs, cur, h1, h2, hm, _, h3⟩ := h
  refine ⟨P, rs, ?_, h2, hm⟩
  rcases h3 with ⟨e1, e2, _⟩ | ⟨e1, _, _⟩
  · rw [e1, splitRounds_shape rs h1 cur (fun e he => by have := e2 e he; simp [plainE] at this; exact this.1)]
  · rw [e1, splitRounds_shape rs h1 [Elem.term] (fun e he => by simp at he; subst he; rfl)]

theorem shaped_rounds_equal {l : Bool} {mk} {out : List (Elem (Bin α))} {oc : Outcome}
    (h : RunShaped l mk out oc) :
    ∀ r ∈ (splitRounds out).1, presented l r = presented l ((splitRounds out).1.headD []) := by
  obtain ⟨P, rs, hs, h2, _⟩ := shaped_split h
  rw [hs]
  intro r hr
  rw [h2 r hr]
  cases rs with
  | nil => simp at hr
  | cons r1 _ => exact (h2 r1 (by simp)).symm

theorem shaped_marker_once {l : Bool} {mk} {out : List (Elem (Bin α))} {oc : Outcome}
    (h : RunShaped l mk out oc) (hmk : ∀ es, mk (presented l es) = mk es) :
    ∀ r ∈ (splitRounds out).1, mk r = 1 := by
  obtain ⟨P, rs, hs, h2, hm⟩ := shaped_split h
  rw [hs]
  intro r hr
  rw [← hmk, h2 r hr]
  exact hm (List.ne_nil_of_mem hr)

theorem shaped_after_end [DecidableEq α] {l : Bool} {mk} {out : List (Elem (Bin α))} {oc : Outcome}
    (h : RunShaped l mk out oc) (hd : oc = .done) :
    (splitRounds out).2 = [Elem.term] ∧ c11Ok l out = true := by
  obtain ⟨P, rs, cur, h1, h2, _, _, h3⟩ := h
  rcases h3 with ⟨_, _, e3⟩ | ⟨e1, _, _⟩
  · exact absurd hd e3
  · have hs := splitRounds_shape rs h1 [Elem.term] (fun e he => by simp at he; subst he; rfl)
    rw [e1]
    refine ⟨by rw [hs], ?_⟩
    unfold c11Ok
    rw [hs]
    cases rs with
    | nil => cases l <;> simp [presented, ofSide]
    | cons r1 rest =>
      simp only [Bool.and_eq_true, List.all_eq_true, decide_eq_true_eq]
      refine ⟨fun r hr => ?_, by cases l <;> simp [presented, ofSide]⟩
      rw [h2 r (by simp [hr]), h2 r1 (by simp)]

theorem shaped_grammar {l : Bool} {mk} {out : List (Elem (Bin α))} {oc : Outcome}
    (h : RunShaped l mk out oc) (hd : oc = .done) : grammarOk out = true := by
  obtain ⟨P, rs, cur, h1, _, _, _, h3⟩ := h
  rcases h3 with ⟨_, _, e3⟩ | ⟨e1, e2, _⟩
  · exact absurd hd e3
  · rw [e1]; exact grammarOk_rounds rs h1 e2

theorem shaped_no_panic {l : Bool} {mk} {out : List (Elem (Bin α))} {oc : Outcome}
    (h : RunShaped l mk out oc) : oc ≠ .panic := by
  obtain ⟨_, _, _, _, _, _, h, _⟩ := h
  exact h

/-! ## Exchanging the two sides -/

def Bin.swap : Bin α → Bin α
  | .left a => .right a
  | .right a => .left a
  | .leftEnd => .rightEnd
  | .rightEnd => .leftEnd

def swapEl (e : Elem (Bin α)) : Elem (Bin α) := e.map Bin.swap

def swapBatch (b : Batch (Bin α)) : Batch (Bin α) := (b.1, b.2.map swapEl)

def Side.swap (s : Side α) : Side α := { s with cache := s.cache.map swapBatch }

def State.swap (st : State α) : State α :=
  { left := st.right.swap, right := st.left.swap, firstMessage := st.firstMessage, qL := st.qR, qR := st.qL,
    start := st.start, alreadyTimedOut := st.alreadyTimedOut, ambig := st.ambig, offL := st.offR, offR := st.offL }

def Sel.swap : Sel α → Sel α
  | .recv l b => .recv (!l) (swapBatch b)
  | .replay l b => .replay (!l) (swapBatch b)
  | .synth b => .synth (swapBatch b)
  | .block => .block
  | .panic => .panic

def swapOp : Op α → Op α
  | .enq l r es => .enq (!l) r es
  | .pump => .pump

/-- the result of a `select`, with the sides exchanged -/
def swapRes (r : State α × Sel α) : State α × Sel α := (r.1.swap, r.2.swap)

@[simp] theorem swap_isTerminated (s : Side α) : s.swap.isTerminated = s.isTerminated := rfl
@[simp] theorem swap_isEnded (s : Side α) : s.swap.isEnded = s.isEnded := rfl
@[simp] theorem swap_cacheFinished (s : Side α) : s.swap.cacheFinished = s.cacheFinished := by
  simp [Side.swap, Side.cacheFinished]
@[simp] theorem swap_cached (s : Side α) : s.swap.cached = s.cached := rfl
@[simp] theorem swap_instances (s : Side α) : s.swap.instances = s.instances := rfl
@[simp] theorem swap_missingTerm (s : Side α) : s.swap.missingTerm = s.missingTerm := rfl
@[simp] theorem swap_cacheFull (s : Side α) : s.swap.cacheFull = s.cacheFull := rfl
theorem swap_reset (s : Side α) : s.swap.reset = s.reset.swap := by
  unfold Side.reset Side.swap; simp only; split <;> rfl

theorem swap_nextCached (s : Side α) :
    s.swap.nextCached = (s.nextCached.1.swap, swapBatch s.nextCached.2) := by
  unfold Side.nextCached
  simp only [Side.swap, Side.cacheFinished, List.length_map]
  have : (s.cache.map swapBatch).getD s.cachePointer (0, []) = swapBatch (s.cache.getD s.cachePointer (0, [])) := by
    simp only [List.getD_eq_getElem?_getD, List.getElem?_map]
    cases s.cache[s.cachePointer]? <;> simp [swapBatch]
  rw [this]
  by_cases h : s.cache.length ≤ s.cachePointer + 1 <;> simp [h]

/-- `process_side` of one side is, up to the exchange of the wrappers, that of the other -/
theorem processElems_swap (w : α → Bin α) (e : Bin α) (c : Bool) (mf mt : Nat) (es : List (Elem α)) :
    processElems (fun a => (w a).swap) e.swap c mf mt es =
      ((processElems w e c mf mt es).1, (processElems w e c mf mt es).2.1,
       (processElems w e c mf mt es).2.2.1.map swapEl, (processElems w e c mf mt es).2.2.2) := by
  induction es generalizing mf mt with
  | nil => simp [processElems]
  | cons x xs ih =>
    simp only [processElems, ih]
    cases x <;> simp [swapEl, Elem.map, Elem.isFar, Elem.isTerm] <;> split <;> simp [swapEl, Elem.map]


theorem process_swap_lr (s : Side α) (r : Nat) (es : List (Elem α)) :
    s.swap.process Bin.left Bin.leftEnd r es =
      ((s.process Bin.right Bin.rightEnd r es).1.swap, swapBatch (s.process Bin.right Bin.rightEnd r es).2.1,
       (s.process Bin.right Bin.rightEnd r es).2.2) := by
  have h := processElems_swap Bin.right Bin.rightEnd s.cached s.missingFar s.missingTerm es
  have h' : processElems Bin.left Bin.leftEnd s.cached s.missingFar s.missingTerm es = _ := h
  unfold Side.process
  simp only [Side.swap, h']
  cases s.cached <;> simp [swapBatch]

theorem process_swap_rl (s : Side α) (r : Nat) (es : List (Elem α)) :
    s.swap.process Bin.right Bin.rightEnd r es =
      ((s.process Bin.left Bin.leftEnd r es).1.swap, swapBatch (s.process Bin.left Bin.leftEnd r es).2.1,
       (s.process Bin.left Bin.leftEnd r es).2.2) := by
  have h := processElems_swap Bin.left Bin.leftEnd s.cached s.missingFar s.missingTerm es
  have h' : processElems Bin.right Bin.rightEnd s.cached s.missingFar s.missingTerm es = _ := h
  unfold Side.process
  simp only [Side.swap, h']
  cases s.cached <;> simp [swapBatch]

theorem recvLeft_swap (st : State α) : recvLeft st.swap = swapRes (recvRight st) := by
  unfold recvLeft recvRight swapRes
  cases hq : st.qR with
  | nil => simp [State.swap, hq, Sel.swap]
  | cons b q =>
    obtain ⟨r, es⟩ := b
    simp only [State.swap, hq, process_swap_lr]
    split <;> simp [State.swap, Sel.swap, hq]

theorem recvRight_swap (st : State α) : recvRight st.swap = swapRes (recvLeft st) := by
  unfold recvLeft recvRight swapRes
  cases hq : st.qL with
  | nil => simp [State.swap, hq, Sel.swap]
  | cons b q =>
    obtain ⟨r, es⟩ := b
    simp only [State.swap, hq, process_swap_rl]
    split <;> simp [State.swap, Sel.swap, hq]

theorem prepare_swap (st : State α) : prepare st.swap = (prepare st).swap := by
  unfold prepare
  simp only [State.swap, swap_isEnded, swap_cacheFinished]
  have : (st.right.isEnded && st.left.isEnded && st.right.cacheFinished && st.left.cacheFinished)
      = (st.left.isEnded && st.right.isEnded && st.left.cacheFinished && st.right.cacheFinished) := by
    cases st.right.isEnded <;> cases st.left.isEnded <;> cases st.right.cacheFinished <;>
      cases st.left.cacheFinished <;> rfl
  rw [this]
  split <;> simp [swap_reset]

section
variable {ch' : Nat → Bool}
theorem selectRecv_swap (st : State α) (hch : ∀ i, ch' i = !ch i)
    (hne : ¬ (st.left.isEnded = true ∧ st.right.isEnded = true)) :
    selectRecv ch' st.swap = swapRes (selectRecv ch st) := by
  unfold selectRecv
  have e1 : st.swap.left.isEnded = st.right.isEnded := rfl
  have e2 : st.swap.right.isEnded = st.left.isEnded := rfl
  have e3 : st.swap.left.isTerminated = st.right.isTerminated := rfl
  have e4 : st.swap.right.isTerminated = st.left.isTerminated := rfl
  have e5 : st.swap.qL = st.qR := rfl
  have e6 : st.swap.qR = st.qL := rfl
  have e7 : st.swap.ambig = st.ambig := rfl
  rw [e1, e2, e3, e4, e5, e6, e7]
  cases hl : st.left.isEnded <;> cases hr : st.right.isEnded
  · -- neither side ended
    simp only [Bool.false_eq_true, if_false]
    cases hlt : st.left.isTerminated <;> cases hrt : st.right.isTerminated
    · simp only
      cases hql : st.qL <;> cases hqr : st.qR
      · simp only; rw [recvRight_swap]
        unfold recvRight recvLeft; simp [hql, hqr]
      · simp only; rw [recvLeft_swap]
      · simp only; rw [recvRight_swap]
      · simp only
        rw [hch st.ambig]
        cases ch st.ambig
        · simp only [Bool.not_false, if_true, Bool.false_eq_true, if_false]
          have := recvLeft_swap { st with ambig := st.ambig + 1 }
          rw [hql, hqr] at this; exact this
        · simp only [Bool.not_true, Bool.false_eq_true, if_false, if_true]
          have := recvRight_swap { st with ambig := st.ambig + 1 }
          rw [hql, hqr] at this; exact this
    · simp only; exact recvRight_swap st
    · simp only; exact recvLeft_swap st
    · rfl
  · simp only [Bool.false_eq_true, if_false, if_true]; exact recvRight_swap st
  · simp only [Bool.false_eq_true, if_false, if_true]; exact recvLeft_swap st
  · exact absurd ⟨hl, hr⟩ hne
theorem isBlock_swap (s : Sel α) : s.swap.isBlock = s.isBlock := by cases s <;> rfl

/-- the replay branch of the left / right cache is taken -/
def replaysL (st : State α) : Bool :=
  st.left.cached && st.left.cacheFull && !st.left.cacheFinished && st.right.missingTerm == st.right.instances
def replaysR (st : State α) : Bool :=
  st.right.cached && st.right.cacheFull && !st.right.cacheFinished && st.left.missingTerm == st.left.instances

theorem selectBody_swap (st : State α) (hch : ∀ i, ch' i = !ch i)
    (hwf : ¬ (st.left.cached = true ∧ st.right.cached = true))
    (hsym : (st.firstMessage && (st.left.cached || st.right.cached)) = false → replaysL st = false →
      replaysR st = false → ¬ (st.left.isEnded = true ∧ st.right.isEnded = true)) :
    selectBody ch' st.swap = swapRes (selectBody ch st) := by
  unfold selectBody
  have e1 : st.swap.firstMessage = st.firstMessage := rfl
  have e2 : st.swap.left.cached = st.right.cached := rfl
  have e3 : st.swap.right.cached = st.left.cached := rfl
  have e4 : (st.swap.left.cached && st.swap.left.cacheFull && !st.swap.left.cacheFinished
      && st.swap.right.missingTerm == st.swap.right.instances) = replaysR st := by
    simp [State.swap, replaysR]
  have e5 : (st.swap.right.cached && st.swap.right.cacheFull && !st.swap.right.cacheFinished
      && st.swap.left.missingTerm == st.swap.left.instances) = replaysL st := by
    simp [State.swap, replaysL]
  have e6 : (st.left.cached && st.left.cacheFull && !st.left.cacheFinished
      && st.right.missingTerm == st.right.instances) = replaysL st := rfl
  have e7 : (st.right.cached && st.right.cacheFull && !st.right.cacheFinished
      && st.left.missingTerm == st.left.instances) = replaysR st := rfl
  rw [e4, e5, e6, e7, e1, e2, e3]
  have hc3 : (st.firstMessage && (st.right.cached || st.left.cached))
      = (st.firstMessage && (st.left.cached || st.right.cached)) := by
    cases st.right.cached <;> cases st.left.cached <;> rfl
  rw [hc3]
  cases h3 : (st.firstMessage && (st.left.cached || st.right.cached))
  · simp only [Bool.false_eq_true, if_false]
    cases hL : replaysL st <;> cases hR : replaysR st
    · simp only [Bool.false_eq_true, if_false]
      exact selectRecv_swap st hch (hsym h3 hL hR)
    · simp only [Bool.false_eq_true, if_false, if_true]
      simp only [swapRes, State.swap, Sel.swap, swap_nextCached]; rfl
    · simp only [Bool.false_eq_true, if_false, if_true]
      simp only [swapRes, State.swap, Sel.swap, swap_nextCached]; rfl
    · exfalso; apply hwf
      simp [replaysL, replaysR] at hL hR
      exact ⟨hL.1.1.1, hR.1.1.1⟩
  · simp only [if_true]
    simp only [Bool.and_eq_true, Bool.or_eq_true] at h3
    cases hl : st.left.cached <;> cases hr : st.right.cached
    · rw [hl, hr] at h3; simp at h3
    · simp only [Bool.false_eq_true, if_false, if_true]
      rw [recvRight_swap]
      simp only [swapRes, isBlock_swap]; rfl
    · simp only [Bool.false_eq_true, if_false, if_true]
      rw [recvLeft_swap]
      simp only [swapRes, isBlock_swap]; rfl
    · exact absurd ⟨hl, hr⟩ hwf
theorem numTerminates_swap (st : State α) (hwf : ¬ (st.left.cached = true ∧ st.right.cached = true)) :
    numTerminates st.swap = numTerminates st := by
  unfold numTerminates
  simp only [State.swap, swap_cached, swap_instances]
  by_cases hl : st.left.cached = true <;> by_cases hr : st.right.cached = true <;> simp [hl, hr]
  exact absurd ⟨hl, hr⟩ hwf

theorem prepare_cached (st : State α) :
    (prepare st).left.cached = st.left.cached ∧ (prepare st).right.cached = st.right.cached := by
  unfold prepare; split <;> simp

theorem select_swap (st : State α) (hch : ∀ i, ch' i = !ch i)
    (hwf : ¬ (st.left.cached = true ∧ st.right.cached = true))
    (hsym : ((prepare st).firstMessage && ((prepare st).left.cached || (prepare st).right.cached)) = false →
      replaysL (prepare st) = false → replaysR (prepare st) = false →
      ¬ ((prepare st).left.isEnded = true ∧ (prepare st).right.isEnded = true)) :
    select ch' st.swap = swapRes (select ch st) := by
  unfold select
  rw [numTerminates_swap st hwf]
  have e : (st.swap.left.isTerminated && st.swap.right.isTerminated && decide (numTerminates st > 0))
      = (st.left.isTerminated && st.right.isTerminated && decide (numTerminates st > 0)) := by
    simp only [State.swap, swap_isTerminated]
    cases st.right.isTerminated <;> cases st.left.isTerminated <;> rfl
  rw [e]
  split
  · simp [swapRes, Sel.swap, swapBatch, swapEl, Elem.map]
  · rw [prepare_swap]
    have hc := prepare_cached st
    exact selectBody_swap (prepare st) hch (by rw [hc.1, hc.2]; exact hwf) hsym
/-- in every live state of a contract-respecting run with the left side cached, `select` never reaches
    its plain-receive branch with both sides ended — the only point where it is not symmetric -/
theorem inv_sym {nL nR : Nat} {fl fr : List (Batch α)} {st : State α} {acc : List (Elem (Bin α))}
    (h : Inv nL nR fl fr st acc) (hlive : st.start.missingTerm ≠ 0) :
    ¬ (st.left.cached = true ∧ st.right.cached = true)
    ∧ (((prepare st).firstMessage && ((prepare st).left.cached || (prepare st).right.cached)) = false →
        replaysL (prepare st) = false → replaysR (prepare st) = false →
        ¬ ((prepare st).left.isEnded = true ∧ (prepare st).right.isEnded = true)) := by
  -- the facts needed, phase by phase
  have facts : st.left.cached = true ∧ st.right.cached = false ∧ 0 < st.right.instances
      ∧ st.right.cacheFinished = true
      ∧ (st.left.cacheFull = false → st.left.cachePointer = st.left.cache.length)
      ∧ (st.right.missingTerm ≠ st.right.instances → st.right.missingFar ≠ 0) := by
    cases h with
    | r1 fL tL fR c h =>
      exact ⟨c.lc, c.rc, by rw [c.ri]; exact c.nRpos, by simp [Side.cacheFinished, c.rcache, c.rptr],
        fun _ => h.ptr, fun hne => absurd (by rw [h.rt, c.ri]) hne⟩
    | wait c h =>
      exact ⟨c.lc, c.rc, by rw [c.ri]; exact c.nRpos, by simp [Side.cacheFinished, c.rcache, c.rptr],
        fun hf => (by rw [h.full] at hf; cases hf), fun hne => absurd (by rw [h.rt, c.ri]) hne⟩
    | play p fR c h =>
      exact ⟨c.lc, c.rc, by rw [c.ri]; exact c.nRpos, by simp [Side.cacheFinished, c.rcache, c.rptr],
        fun hf => (by rw [h.full] at hf; cases hf), fun hne => absurd (by rw [h.rt, c.ri]) hne⟩
    | term t c h =>
      exact ⟨c.lc, c.rc, by rw [c.ri]; exact c.nRpos, by simp [Side.cacheFinished, c.rcache, c.rptr],
        fun hf => (by rw [h.full] at hf; cases hf), fun _ => by rw [h.rf]; have := c.nRpos; omega⟩
    | fin h => exact absurd h.dead hlive
  obtain ⟨f1, f2, f3, f4, f5, f6⟩ := facts
  refine ⟨fun hb => (by rw [f2] at hb; cases hb.2), ?_⟩
  intro h3 hL _ hboth
  unfold prepare at h3 hL hboth
  split at h3
  · simp [f1] at h3
  · rename_i hnr
    rw [if_neg hnr] at hL hboth
    obtain ⟨b1, b2⟩ := hboth
    have hlcf : st.left.cacheFinished = false := by
      cases hc : st.left.cacheFinished with
      | false => rfl
      | true => exact absurd (by simp [b1, b2, hc, f4]) hnr
    have hlt : st.left.cachePointer < st.left.cache.length := by
      simp [Side.cacheFinished] at hlcf; exact hlcf
    simp only [replaysL, f1, hlcf, Bool.not_false, Bool.and_true, Bool.true_and, Bool.and_eq_false_iff] at hL
    rcases hL with hL | hL
    · have := f5 hL; omega
    · have hmf := f6 (by simpa using hL)
      simp [Side.isEnded, f2] at b2
      exact hmf b2
/-- `Start` is parametric in the payload -/
theorem step_map {β γ : Type} (f : β → γ) (s : Noir.Start.State) (r : Nat) (e : Elem β) :
    Noir.Start.step s (.elem r (e.map f)) =
      ((Noir.Start.step s (.elem r e)).1, (Noir.Start.step s (.elem r e)).2.map (Elem.map f)) := by
  by_cases h : s.missingTerm = 0
  · simp [Noir.Start.step, h]
  · cases e with
    | item v => simp only [Noir.Start.step, h, if_false, Elem.map]; cases s.pending <;> simp [Elem.map]
    | ts v t => simp only [Noir.Start.step, h, if_false, Elem.map]; cases s.pending <;> simp [Elem.map]
    | flushBatch => simp only [Noir.Start.step, h, if_false, Elem.map]; cases s.pending <;> simp [Elem.map]
    | wm t =>
      simp only [Noir.Start.step, h, if_false, Elem.map]
      cases (s.frontier.update r t).2 <;> simp [Elem.map]
    | far =>
      simp only [Noir.Start.step, h, if_false, Elem.map, Noir.Start.afterCounters]
      split <;> (try split) <;> simp [Elem.map]
    | term =>
      simp only [Noir.Start.step, h, if_false, Elem.map, Noir.Start.afterCounters]
      split <;> (try split) <;> simp [Elem.map]

theorem feed_map {β γ : Type} (f : β → γ) (r : Nat) (es : List (Elem β)) : ∀ (s : Noir.Start.State),
    feed s r (es.map (Elem.map f)) = ((feed s r es).1, (feed s r es).2.map (Elem.map f)) := by
  induction es with
  | nil => intro s; rfl
  | cons e es ih =>
    intro s
    simp only [List.map_cons, feed, step_map, ih, List.map_append]

theorem timeout_map (s : Noir.Start.State) :
    ((Noir.Start.step s (Noir.Start.Arrival.timeout : Noir.Start.Arrival (Bin α))).2.dropLast).map swapEl
      = (Noir.Start.step s (Noir.Start.Arrival.timeout : Noir.Start.Arrival (Bin α))).2.dropLast := by
  by_cases h : s.missingTerm = 0
  · simp [Noir.Start.step, h]
  · simp only [Noir.Start.step, h, if_false]
    cases s.pending <;> simp [swapEl, Elem.map]
theorem batch_swap (s : Sel α) : s.swap.batch? = s.batch?.map swapBatch := by cases s <;> rfl
theorem isPanic_swap (s : Sel α) : s.swap.isPanic = s.isPanic := by cases s <;> rfl

/-- **a pull with the sides exchanged is the exchanged pull** (along a contract-respecting run with the
    left side cached; the oracle for the unspecified choice is flipped) -/
theorem pump_swap {nL nR : Nat} {fl fr : List (Batch α)} (hch : ∀ i, ch' i = !ch i) :
    ∀ (fuel : Nat) (st : State α) (acc : List (Elem (Bin α))), Inv nL nR fl fr st acc →
    pump ch' fuel st.swap =
      ((pump ch fuel st).1.swap, (pump ch fuel st).2.1.map swapEl, (pump ch fuel st).2.2.1.map Sel.swap,
       (pump ch fuel st).2.2.2) := by
  intro fuel
  induction fuel with
  | zero => intro st acc _; simp [pump]
  | succ n ih =>
    intro st acc h
    have hs : st.swap.start = st.start := rfl
    by_cases hlive : st.start.missingTerm = 0
    · unfold pump; simp [hs, hlive]
    · obtain ⟨hwf, hsym⟩ := inv_sym h hlive
      have hsel := select_swap (ch := ch) (ch' := ch') st hch hwf hsym
      obtain ⟨s1, s2, s3⟩ := inv_select (ch := ch) st h hlive
      have hst := select_start (ch := ch) st
      unfold pump
      rw [hs, if_neg hlive, if_neg hlive, hsel]
      simp only [swapRes, batch_swap, isPanic_swap]
      cases hb : (select ch st).2.batch? with
      | none =>
        simp only [Option.map_none]
        rw [s1]
        simp only [Bool.false_eq_true, if_false]
        have ha : st.swap.alreadyTimedOut = st.alreadyTimedOut := rfl
        rw [ha]
        cases st.alreadyTimedOut
        · simp only [Bool.false_eq_true, if_false]
          have hss : (select ch st).1.swap.start = (select ch st).1.start := rfl
          rw [hss, timeout_map]
          simp [State.swap]
        · simp [State.swap]
      | some b =>
        simp only [Option.map_some]
        have hss : (select ch st).1.swap.start = (select ch st).1.start := rfl
        have hfm : feed (select ch st).1.swap.start (swapBatch b).1 (swapBatch b).2
            = ((feed (select ch st).1.start b.1 b.2).1, (feed (select ch st).1.start b.1 b.2).2.map swapEl) :=
          feed_map Bin.swap b.1 b.2 _
        simp only [hfm]
        by_cases hd : (feed (select ch st).1.start b.1 b.2).1.missingTerm = 0
        · rw [if_pos hd, if_pos hd]; simp [State.swap]
        · rw [if_neg hd, if_neg hd]
          have hinv := s3 b hb
          rw [← hst] at hinv
          have := ih ({ (select ch st).1 with start := (feed (select ch st).1.start b.1 b.2).1, alreadyTimedOut := false }) (acc ++ (feed (select ch st).1.start b.1 b.2).2) hinv
          have e : ({ (select ch st).1.swap with start := (feed (select ch st).1.start b.1 b.2).1, alreadyTimedOut := false } : State α) = ({ (select ch st).1 with start := (feed (select ch st).1.start b.1 b.2).1, alreadyTimedOut := false } : State α).swap := rfl
          rw [e, this]
          simp
theorem pumpFuel_swap (st : State α) : pumpFuel st.swap = pumpFuel st := by
  unfold pumpFuel
  simp only [State.swap, Side.swap, List.length_map]
  have h1 : st.qR.length + st.qL.length + 2 = st.qL.length + st.qR.length + 2 := by omega
  have h2 : st.right.cache.length + st.left.cache.length + st.qR.length + st.qL.length + 2
      = st.left.cache.length + st.right.cache.length + st.qL.length + st.qR.length + 2 := by omega
  rw [h1, h2]

theorem enqueue_swap (st : State α) (l : Bool) (r : Nat) (es : List (Elem α)) :
    enqueue st.swap (!l) r es = (enqueue st l r es).swap := by
  cases l <;> simp [enqueue, State.swap]

/-- **a history with the sides exchanged is the exchanged history** -/
theorem runFrom_swap {nL nR : Nat} (hch : ∀ i, ch' i = !ch i) (ops : List (Op α)) :
    ∀ (st : State α) (i : Nat) (acc : List (Elem (Bin α))),
    Inv nL nR (sentBatches true ops) (sentBatches false ops) st acc →
    runFrom ch' st.swap i (ops.map swapOp) =
      ((runFrom ch st i ops).1.swap, (runFrom ch st i ops).2.1.map (fun p => (p.1, swapEl p.2)),
       (runFrom ch st i ops).2.2.1, (runFrom ch st i ops).2.2.2) := by
  induction ops with
  | nil => intro st i acc _; simp [runFrom]
  | cons op ops ih =>
    intro st i acc h
    cases op with
    | enq l r es =>
      simp only [List.map_cons, swapOp, runFrom, enqueue_swap]
      cases l with
      | true => exact ih _ _ acc (inv_enq_left st r es (by simpa [sentBatches] using h))
      | false => exact ih _ _ acc (inv_enq_right st r es (by simpa [sentBatches] using h))
    | pump =>
      simp only [sentBatches] at h
      simp only [List.map_cons, swapOp, runFrom, pumpFuel_swap]
      rw [pump_swap (ch := ch) (ch' := ch') hch (pumpFuel st) st acc h]
      obtain ⟨p1, _⟩ := pump_inv (ch := ch) (pumpFuel st) st acc h
      simp only
      cases hoc : (pump ch (pumpFuel st) st).2.2.2 with
      | idle =>
        simp only
        rw [ih _ _ _ p1]
        simp [List.map_append, List.map_map, Function.comp_def]
      | done => simp [List.map_map, Function.comp_def]
      | blocked => simp [List.map_map, Function.comp_def]
      | panic => simp [List.map_map, Function.comp_def]
      | fuel => simp [List.map_map, Function.comp_def]
theorem sentBatches_swap (l : Bool) (ops : List (Op α)) :
    sentBatches l (ops.map swapOp) = sentBatches (!l) ops := by
  induction ops with
  | nil => rfl
  | cons op ops ih =>
    cases op with
    | enq l' r es => cases l <;> cases l' <;> simp [swapOp, sentBatches, ih]
    | pump => simpa [swapOp, sentBatches] using ih

theorem contractR_swap (nL nR : Nat) (ops : List (Op α)) :
    contractR nL nR ops = contractL nR nL (ops.map swapOp) := by
  simp only [contractR, contractL, sentBatches_swap, Bool.not_true, Bool.not_false]
  cases decide (0 < nL) <;> cases decide (0 < nR) <;> rfl

theorem swapOp_invol (ops : List (Op α)) : (ops.map swapOp).map swapOp = ops := by
  induction ops with
  | nil => rfl
  | cons op ops ih => cases op <;> simp [swapOp, ih]

/-- the End marker of the right side -/
def isRE : Elem (Bin α) → Bool
  | .item .rightEnd => true
  | _ => false

def markersR (es : List (Elem (Bin α))) : Nat := (es.filter isRE).length

theorem markersR_presented (es : List (Elem (Bin α))) : markersR (presented false es) = markersR es := by
  unfold markersR presented
  rw [List.filter_filter]
  congr 1
  apply List.filter_congr
  intro e _
  cases e with
  | item v => cases v <;> simp [isRE, ofSide]
  | _ => simp [isRE]

theorem markersR_swap (es : List (Elem (Bin α))) : markersR (es.map swapEl) = markers es := by
  unfold markersR markers
  rw [List.filter_map, List.length_map]
  congr 1
  apply List.filter_congr
  intro e _
  cases e with
  | item v => cases v <;> simp [isRE, isLE, swapEl, Elem.map, Bin.swap]
  | _ => simp [isRE, isLE, swapEl, Elem.map]

theorem presented_swap (es : List (Elem (Bin α))) :
    presented false (es.map swapEl) = (presented true es).map swapEl := by
  unfold presented
  rw [List.filter_map]
  congr 1
  apply List.filter_congr
  intro e _
  cases e with
  | item v => cases v <;> simp [ofSide, swapEl, Elem.map, Bin.swap]
  | ts v t => cases v <;> simp [ofSide, swapEl, Elem.map, Bin.swap]
  | _ => simp [ofSide, swapEl, Elem.map]

theorem clean_swap (es : List (Elem (Bin α))) (h : Clean es) : Clean (es.map swapEl) := by
  intro e he
  obtain ⟨x, hx, rfl⟩ := List.mem_map.mp he
  have := h x hx
  cases x <;> simp_all [plainE, swapEl, Elem.map, Elem.isFar, Elem.isTerm]

theorem joinRounds_swap (rs : List (List (Elem (Bin α)))) :
    (joinRounds rs).map swapEl = joinRounds (rs.map (List.map swapEl)) := by
  induction rs with
  | nil => rfl
  | cons r rs ih =>
    simp only [joinRounds, List.flatMap_cons, List.map_append, List.map_cons] at ih ⊢
    rw [ih]; simp [swapEl, Elem.map]

/-- exchanging the sides of a shaped output -/
theorem runShaped_swap {out : List (Elem (Bin α))} {oc : Outcome} (h : RunShaped true markers out oc) :
    RunShaped false markersR (out.map swapEl) oc := by
  obtain ⟨P, rs, cur, h1, h2, hm, hnp, h3⟩ := h
  refine ⟨P.map swapEl, rs.map (List.map swapEl), cur.map swapEl, ?_, ?_, ?_, hnp, ?_⟩
  · intro r hr
    obtain ⟨x, hx, rfl⟩ := List.mem_map.mp hr
    exact clean_swap x (h1 x hx)
  · intro r hr
    obtain ⟨x, hx, rfl⟩ := List.mem_map.mp hr
    rw [presented_swap, h2 x hx]
  · intro hne
    rw [markersR_swap]
    exact hm (by intro e; apply hne; simp [e])
  · rcases h3 with ⟨e1, e2, e3⟩ | ⟨e1, e2, e3⟩
    · left
      exact ⟨by rw [e1, List.map_append, joinRounds_swap], clean_swap cur e2, e3⟩
    · right
      refine ⟨by rw [e1, List.map_append, joinRounds_swap]; simp [swapEl, Elem.map], ?_, by rw [e3]; simp [swapEl, Elem.map]⟩
      intro e; apply e2; simpa using e
/-- **the output of a contract-respecting history with the RIGHT side cached**: it is the exchanged output
    of the exchanged history run with the left side cached (and the flipped oracle) -/
theorem run_shaped_right (nL nR : Nat) (ops : List (Op α)) (hc : contractR nL nR ops = true) :
    RunShaped false markersR (run ch nL nR false true ops).1 (run ch nL nR false true ops).2 := by
  have hcL : contractL nR nL (ops.map swapOp) = true := by rw [← contractR_swap]; exact hc
  have hch : ∀ i, ch i = !(fun j => !ch j) i := by intro i; simp
  have hfresh : Fresh nR nL ((init nL nR false true : State α).swap) :=
    ⟨rfl, rfl, rfl, rfl, rfl, by show nL + nR = nR + nL; omega, by show nL + nR = nR + nL; omega,
     by show nL + nR = nR + nL; omega, rfl⟩
  have hsh := runFrom_shaped (ch := fun j => !ch j) nR nL (ops.map swapOp) _ hfresh hcL
  have hsw := runFrom_swap (ch := fun j => !ch j) (ch' := ch) (nL := nR) (nR := nL) hch (ops.map swapOp)
    ((init nL nR false true : State α).swap) 0 [] (inv_init _ _ hfresh hcL)
  rw [swapOp_invol] at hsw
  have hinit : ((init nL nR false true : State α).swap).swap = init nL nR false true := rfl
  rw [hinit] at hsw
  have h := runShaped_swap hsh
  unfold run
  simp only
  rw [hsw]
  simp only [List.map_map]
  have e : ((fun x : Nat × Elem (Bin α) => x.2) ∘ fun p : Nat × Elem (Bin α) => (p.1, swapEl p.2))
      = (swapEl ∘ fun x : Nat × Elem (Bin α) => x.2) := by funext p; rfl
  rw [e, ← List.map_map]
  exact h
end

end Noir.BinaryStart
