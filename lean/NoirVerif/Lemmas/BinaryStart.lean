/-
  Lemmas/BinaryStart.lean — specification-side recognisers for C11 / C05 / C09 at the output of the
  binary start, and the invariants of `BinaryStartReceiver::select` used by Props/C11.lean and
  Props/C05BinaryStart.lean.
-/
import NoirVerif.Model.BinaryStart
namespace Noir.BinaryStart

variable {α : Type}

/-! ## Specification side -/

/-- split an output at `FlushAndRestart`: the closed rounds and what follows the last one -/
def splitGo {β : Type} : List (Elem β) → List (Elem β) → List (List (Elem β)) → List (List (Elem β)) × List (Elem β)
  | [], cur, acc => (acc.reverse, cur.reverse)
  | .far :: rest, cur, acc => splitGo rest [] (cur.reverse :: acc)
  | e :: rest, cur, acc => splitGo rest (e :: cur) acc

def splitRounds {β : Type} (es : List (Elem β)) : List (List (Elem β)) × List (Elem β) := splitGo es [] []

/-- the element presents something of that side: a data element or the side's End marker -/
def ofSide (left : Bool) : Elem (Bin α) → Bool
  | .item (.left _) | .ts (.left _) _ | .item .leftEnd => left
  | .item (.right _) | .ts (.right _) _ | .item .rightEnd => !left
  | _ => false

/-- what a round presents of that side, in order -/
def presented (left : Bool) (seg : List (Elem (Bin α))) : List (Elem (Bin α)) := seg.filter (ofSide left)

/-- **C11 recogniser** for a cached side: every closed round presents the cached side exactly as
    round 1 did, and nothing of it follows the last `FlushAndRestart`. -/
def c11Ok [DecidableEq α] (cachedLeft : Bool) (out : List (Elem (Bin α))) : Bool :=
  let (rounds, tail) := splitRounds out
  (match rounds with
   | [] => true
   | r1 :: rest => rest.all (fun r => presented cachedLeft r = presented cachedLeft r1))
  && (presented cachedLeft tail).isEmpty

/-- payloads of one side in an output, in order -/
def payloads (left : Bool) : List (Elem (Bin α)) → List α
  | [] => []
  | .item (.left a) :: es | .ts (.left a) _ :: es => if left then a :: payloads left es else payloads left es
  | .item (.right a) :: es | .ts (.right a) _ :: es => if left then payloads left es else a :: payloads left es
  | _ :: es => payloads left es

/-- data payloads of an input batch list, in order -/
def inPayloads : List (Elem α) → List α
  | [] => []
  | .item a :: es | .ts a _ :: es => a :: inPayloads es
  | _ :: es => inPayloads es

/-! ## `select` never reads `start`/`alreadyTimedOut` and only changes the receiver part -/

@[simp] theorem recvRight_qL (st : State α) : (recvRight st).1.qL = st.qL := by
  unfold recvRight; split <;> (try simp only) <;> (try split) <;> rfl
@[simp] theorem recvRight_left (st : State α) : (recvRight st).1.left = st.left := by
  unfold recvRight; split <;> (try simp only) <;> (try split) <;> rfl
@[simp] theorem recvLeft_qR (st : State α) : (recvLeft st).1.qR = st.qR := by
  unfold recvLeft; split <;> (try simp only) <;> (try split) <;> rfl
@[simp] theorem recvLeft_right (st : State α) : (recvLeft st).1.right = st.right := by
  unfold recvLeft; split <;> (try simp only) <;> (try split) <;> rfl
@[simp] theorem recvRight_start (st : State α) : (recvRight st).1.start = st.start := by
  unfold recvRight; split <;> (try simp only) <;> (try split) <;> rfl
@[simp] theorem recvLeft_start (st : State α) : (recvLeft st).1.start = st.start := by
  unfold recvLeft; split <;> (try simp only) <;> (try split) <;> rfl

@[simp] theorem reset_cached (s : Side α) : s.reset.cached = s.cached := by
  unfold Side.reset; split <;> rfl
@[simp] theorem reset_missingTerm (s : Side α) : s.reset.missingTerm = s.missingTerm := by
  unfold Side.reset; split <;> rfl
@[simp] theorem reset_cache (s : Side α) : s.reset.cache = s.cache := by
  unfold Side.reset; split <;> rfl
@[simp] theorem reset_instances (s : Side α) : s.reset.instances = s.instances := by
  unfold Side.reset; split <;> rfl
@[simp] theorem nextCached_cached (s : Side α) : s.nextCached.1.cached = s.cached := by
  unfold Side.nextCached; simp only; split <;> rfl
@[simp] theorem nextCached_missingTerm (s : Side α) : s.nextCached.1.missingTerm = s.missingTerm := by
  unfold Side.nextCached; simp only; split <;> rfl
@[simp] theorem nextCached_cache (s : Side α) : s.nextCached.1.cache = s.cache := by
  unfold Side.nextCached; simp only; split <;> rfl

/-! ## A cached side that has terminated is never received from again -/

/-- the left side is cached and has received all its `Terminate`s; `q` is its channel -/
structure LeftDone (st : State α) (q : List (Batch α)) : Prop where
  cached : st.left.cached = true
  term : st.left.missingTerm = 0
  queue : st.qL = q

theorem LeftDone.isEnded {st : State α} {q} (h : LeftDone st q) : st.left.isEnded = true := by
  simp [Side.isEnded, Side.isTerminated, h.cached, h.term]

theorem prepare_leftDone {st : State α} {q} (h : LeftDone st q) : LeftDone (prepare st) q := by
  unfold prepare
  split
  · exact ⟨by simp [h.cached], by simp [h.term], h.queue⟩
  · exact h

theorem recvRight_leftDone {st : State α} {q} (h : LeftDone st q) : LeftDone (recvRight st).1 q :=
  ⟨by simp [h.cached], by simp [h.term], by simp [h.queue]⟩

theorem selectRecv_leftDone {st : State α} {q} (h : LeftDone st q) : LeftDone (selectRecv st).1 q := by
  unfold selectRecv
  rw [if_pos h.isEnded]
  exact recvRight_leftDone h

theorem selectBody_leftDone {st : State α} {q} (h : LeftDone st q) : LeftDone (selectBody st).1 q := by
  unfold selectBody
  split
  · rw [if_pos h.cached]
    exact recvRight_leftDone (st := { st with firstMessage := false }) ⟨h.cached, h.term, h.queue⟩
  · split
    · exact ⟨by simp [h.cached], by simp [h.term], h.queue⟩
    · split
      · exact ⟨h.cached, h.term, h.queue⟩
      · exact selectRecv_leftDone h

theorem select_leftDone {st : State α} {q} (h : LeftDone st q) : LeftDone (select st).1 q := by
  unfold select
  split
  · exact h
  · exact selectBody_leftDone (prepare_leftDone h)

@[simp] theorem process_cached (s : Side α) (w : α → Bin α) (e : Bin α) (r : Nat) (es : List (Elem α)) :
    (s.process w e r es).1.cached = s.cached := by
  unfold Side.process; simp only; split <;> rfl

@[simp] theorem process_instances (s : Side α) (w : α → Bin α) (e : Bin α) (r : Nat) (es : List (Elem α)) :
    (s.process w e r es).1.instances = s.instances := by
  unfold Side.process; simp only; split <;> rfl

@[simp] theorem recvLeft_left_cached (st : State α) : (recvLeft st).1.left.cached = st.left.cached := by
  unfold recvLeft; split <;> (try simp only) <;> (try split) <;> simp
@[simp] theorem recvRight_right_cached (st : State α) : (recvRight st).1.right.cached = st.right.cached := by
  unfold recvRight; split <;> (try simp only) <;> (try split) <;> simp

@[simp] theorem reset_missingFar (s : Side α) : s.reset.missingFar = s.instances := by
  unfold Side.reset; split <;> rfl
@[simp] theorem recvLeft_left_instances (st : State α) : (recvLeft st).1.left.instances = st.left.instances := by
  unfold recvLeft; split <;> (try simp only) <;> (try split) <;> simp
@[simp] theorem recvRight_right_instances (st : State α) : (recvRight st).1.right.instances = st.right.instances := by
  unfold recvRight; split <;> (try simp only) <;> (try split) <;> simp

theorem process_cacheFinished_of_not_cached (s : Side α) (w : α → Bin α) (e : Bin α) (r : Nat)
    (es : List (Elem α)) (h : s.cached = false) :
    (s.process w e r es).1.cacheFinished = s.cacheFinished := by
  unfold Side.process; simp [h, Side.cacheFinished]

theorem reset_cacheFinished_of_not_cached (s : Side α) (h : s.cached = false) :
    s.reset.cacheFinished = s.cacheFinished := by
  unfold Side.reset; simp [h, Side.cacheFinished]

theorem recvLeft_left_cacheFinished (st : State α) (h : st.left.cached = false) :
    (recvLeft st).1.left.cacheFinished = st.left.cacheFinished := by
  unfold recvLeft; split
  · rfl
  · simp only; split
    · rfl
    · simp [process_cacheFinished_of_not_cached _ _ _ _ _ h]

theorem recvRight_right_cacheFinished (st : State α) (h : st.right.cached = false) :
    (recvRight st).1.right.cacheFinished = st.right.cacheFinished := by
  unfold recvRight; split
  · rfl
  · simp only; split
    · rfl
    · simp [process_cacheFinished_of_not_cached _ _ _ _ _ h]

/-- the right side is cached (so the left one is not) and has received all its `Terminate`s;
    `fresh`: until the cache is full (round 1) everything cached has already been handed out -/
structure RightDone (st : State α) (q : List (Batch α)) : Prop where
  cached : st.right.cached = true
  other : st.left.cached = false
  term : st.right.missingTerm = 0
  queue : st.qR = q
  inst : 0 < st.left.instances
  fresh : st.right.cacheFull = false → st.right.cache.length ≤ st.right.cachePointer
  otherFin : st.left.cacheFinished = true

theorem RightDone.isEnded {st : State α} {q} (h : RightDone st q) : st.right.isEnded = true := by
  simp [Side.isEnded, Side.isTerminated, h.cached, h.term]

theorem prepare_rightDone {st : State α} {q} (h : RightDone st q) : RightDone (prepare st) q := by
  unfold prepare
  split
  · refine ⟨by simp [h.cached], by simp [h.other], by simp [h.term], h.queue, by simp [h.inst], ?_, ?_⟩
    · simp [Side.reset, h.cached]
    · simp [reset_cacheFinished_of_not_cached _ h.other, h.otherFin]
  · exact h

theorem recvLeft_rightDone {st : State α} {q} (h : RightDone st q) : RightDone (recvLeft st).1 q :=
  ⟨by simp [h.cached], by simp [h.other], by simp [h.term], by simp [h.queue], by simp [h.inst],
   by simpa using h.fresh, by rw [recvLeft_left_cacheFinished _ h.other]; exact h.otherFin⟩

/-- after `prepare`: if the loop side has ended, the cache is being replayed -/
theorem prepare_rightDone_replaying {st : State α} {q} (h : RightDone st q)
    (he : (prepare st).left.isEnded = true) :
    (prepare st).right.cacheFull = true ∧ (prepare st).right.cacheFinished = false := by
  unfold prepare at he ⊢
  split at he
  · -- reset: the loop side is not ended any more
    simp [Side.isEnded, h.other, Side.reset] at he
    have := h.inst; omega
  · rename_i hn
    rw [if_neg hn]
    cases hcf : st.right.cacheFinished with
    | false =>
      refine ⟨?_, rfl⟩
      cases hfull : st.right.cacheFull with
      | true => rfl
      | false => have := h.fresh hfull; simp [Side.cacheFinished] at hcf; omega
    | true =>
      exfalso; apply hn
      simp [he, h.isEnded, hcf, h.otherFin]

theorem selectBody_prepare_rightDone {st : State α} {q} (h : RightDone st q) :
    RightDone (selectBody (prepare st)).1 q := by
  have hp := prepare_rightDone h
  unfold selectBody
  split
  · rw [if_neg (by simp [hp.other])]
    exact recvLeft_rightDone (st := { prepare st with firstMessage := false })
      ⟨hp.cached, hp.other, hp.term, hp.queue, hp.inst, hp.fresh, hp.otherFin⟩
  · rw [if_neg (by simp [hp.other])]
    split
    · refine ⟨by simp [hp.cached], hp.other, by simp [hp.term], hp.queue, hp.inst, ?_, hp.otherFin⟩
      rename_i hc
      simp at hc
      simp [Side.nextCached]
      split <;> simp [hc.1.2]
    · rename_i hnr
      unfold selectRecv
      split
      · rename_i he
        have := prepare_rightDone_replaying h he
        exfalso; apply hnr; simp [hp.cached, this.1, this.2]
      · rw [if_pos hp.isEnded]; exact recvLeft_rightDone hp

theorem select_rightDone {st : State α} {q} (h : RightDone st q) : RightDone (select st).1 q := by
  unfold select
  split
  · exact h
  · exact selectBody_prepare_rightDone h

/-- a predicate on the receiver part that `select` preserves is preserved by a whole pump -/
theorem pump_preserves (P : State α → Prop) (hsel : ∀ st, P st → P (select st).1)
    (hupd : ∀ st s b, P st → P { st with start := s, alreadyTimedOut := b }) :
    ∀ (fuel : Nat) (st : State α), P st → P (pump fuel st).1 := by
  intro fuel
  induction fuel with
  | zero => intro st h; exact h
  | succ n ih =>
    intro st h
    unfold pump
    split
    · exact h
    · simp only
      split
      · split
        · exact hsel st h
        · split
          · exact hupd _ _ _ (hsel st h)
          · exact hupd _ _ _ (hsel st h)
      · split
        · exact hupd _ _ _ (hsel st h)
        · exact ih _ (hupd _ _ _ (hsel st h))

theorem pump_leftDone {q} (fuel : Nat) (st : State α) (h : LeftDone st q) : LeftDone (pump fuel st).1 q :=
  pump_preserves (fun st => LeftDone st q) (fun _ h => select_leftDone h)
    (fun _ _ _ h => ⟨h.cached, h.term, h.queue⟩) fuel st h

theorem pump_rightDone {q} (fuel : Nat) (st : State α) (h : RightDone st q) : RightDone (pump fuel st).1 q :=
  pump_preserves (fun st => RightDone st q) (fun _ h => select_rightDone h)
    (fun _ _ _ h => ⟨h.cached, h.other, h.term, h.queue, h.inst, h.fresh, h.otherFin⟩) fuel st h

theorem runFrom_leftDone (ops : List (Op α)) : ∀ (st : State α) (i : Nat) (q : List (Batch α)),
    LeftDone st q → ∃ added, LeftDone (runFrom st i ops).1 (q ++ added) := by
  induction ops with
  | nil => intro st i q h; exact ⟨[], by simpa [runFrom] using h⟩
  | cons op ops ih =>
    intro st i q h
    cases op with
    | enq l r es =>
      simp only [runFrom]
      cases l with
      | true =>
        obtain ⟨a, ha⟩ := ih (enqueue st true r es) (i + 1) (q ++ [(r, es)])
          ⟨h.cached, h.term, by simp [enqueue, h.queue]⟩
        exact ⟨(r, es) :: a, by simpa using ha⟩
      | false =>
        exact ih (enqueue st false r es) (i + 1) q ⟨h.cached, h.term, by simp [enqueue, h.queue]⟩
    | pump =>
      simp only [runFrom]
      have hp := pump_leftDone (pumpFuel st) st h
      split
      · obtain ⟨a, ha⟩ := ih (pump (pumpFuel st) st).1 (i + 1) q hp
        exact ⟨a, ha⟩
      · exact ⟨[], by simpa using hp⟩

theorem runFrom_rightDone (ops : List (Op α)) : ∀ (st : State α) (i : Nat) (q : List (Batch α)),
    RightDone st q → ∃ added, RightDone (runFrom st i ops).1 (q ++ added) := by
  induction ops with
  | nil => intro st i q h; exact ⟨[], by simpa [runFrom] using h⟩
  | cons op ops ih =>
    intro st i q h
    cases op with
    | enq l r es =>
      simp only [runFrom]
      cases l with
      | false =>
        obtain ⟨a, ha⟩ := ih (enqueue st false r es) (i + 1) (q ++ [(r, es)])
          ⟨h.cached, h.other, h.term, by simp [enqueue, h.queue], h.inst, h.fresh, h.otherFin⟩
        exact ⟨(r, es) :: a, by simpa using ha⟩
      | true =>
        exact ih (enqueue st true r es) (i + 1) q
          ⟨h.cached, h.other, h.term, by simp [enqueue, h.queue], h.inst, h.fresh, h.otherFin⟩
    | pump =>
      simp only [runFrom]
      have hp := pump_rightDone (pumpFuel st) st h
      split
      · obtain ⟨a, ha⟩ := ih (pump (pumpFuel st) st).1 (i + 1) q hp
        exact ⟨a, ha⟩
      · exact ⟨[], by simpa using hp⟩

end Noir.BinaryStart
