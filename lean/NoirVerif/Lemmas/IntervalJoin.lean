/-
  Lemmas/IntervalJoin.lean — invariants of the `IntervalJoin` model (Model/IntervalJoin.lean,
  src/operator/interval_join.rs) used by Props/C08Interval.lean.

  Idea of the proof. Every pair `(l, r)` is emitted when its LEFT element `l` is taken off the `left` queue
  by `advance` (interval_join.rs:85-128), which happens as soon as `l.ts + upper < last_seen` (strictly:
  an element with timestamp `last_seen` may still arrive) or at `FlushAndRestart`. At that moment
  * every right element with `r.ts ≤ l.ts + upper` has arrived (the input is sorted, all later arrivals have
    `ts ≥ last_seen > l.ts + upper`);
  * no right element with `l.ts - lower ≤ r.ts` has been evicted: evictions (`pop_front` while
    `right_ts < lower`, interval_join.rs:104-110) were done for earlier left elements, whose `lower` is not
    larger (`lowerOf · lb = saturating_sub` is monotone in the timestamp, `lowerMono_all`; with the old
    `checked_sub(..).unwrap_or(MIN)` it was not, which is why the lemmas are stated for a `LowerMono` hypothesis);
  * the per-key deque is sorted by timestamp, so `pop_front while <` / `take_while ≤` are filters.
  So the tuples generated for `l` are exactly `R.filter (P l)` over ALL right elements `R` of the iteration,
  in arrival order — the output is even *equal* (not only `Perm`) to `spec lb ub L R`.
-/
import NoirVerif.Model.IntervalJoin
namespace Noir.IntervalJoin

variable {κ α β : Type} [DecidableEq κ]

/-! ### Vocabulary -/

/-- the fold of `step` (state after, everything emitted) -/
def run (lb ub : Int) : State κ α β → List (Elem (κ × (α ⊕ β))) → State κ α β × List (Elem (κ × α × β))
  | s, [] => (s, [])
  | s, e :: es =>
    let r := step lb ub s e
    let r' := run lb ub r.1 es
    (r'.1, r.2 ++ r'.2)

/-- would any element of `es` hit a panic branch (`assert!(ts >= last_seen)`, `Item`)? -/
def anyPanic (lb ub : Int) : State κ α β → List (Elem (κ × (α ⊕ β))) → Bool
  | _, [] => false
  | s, e :: es => panics s e || anyPanic lb ub (step lb ub s e).1 es

/-- the left elements of a trace, as the operator stores them: `(ts, key, value)`, arrival order -/
def lefts : List (Elem (κ × (α ⊕ β))) → List (Int × κ × α)
  | [] => []
  | .ts (k, .inl v) t :: es => (t, k, v) :: lefts es
  | _ :: es => lefts es

/-- the right elements of a trace: `(key, ts, value)`, arrival order -/
def rights : List (Elem (κ × (α ⊕ β))) → List (κ × Int × β)
  | [] => []
  | .ts (k, .inr v) t :: es => (k, t, v) :: rights es
  | _ :: es => rights es

/-- the join tuples carried by an output trace, `(ts, key, l, r)` -/
def pairs : List (Elem (κ × α × β)) → List (Int × κ × α × β)
  | [] => []
  | .ts v t :: es => (t, v) :: pairs es
  | _ :: es => pairs es

/-- body of one iteration as `IntervalJoin` accepts it: `Timestamped`, `Watermark`, `FlushBatch` only
    (`Item` panics, interval_join.rs:181) -/
def isBody : Elem (κ × (α ⊕ β)) → Bool
  | .ts _ _ => true
  | .wm _ => true
  | .flushBatch => true
  | _ => false

/-- timestamps carried by a trace (data and watermarks), in order — same as `Reorder.stamps` -/
def stamps (es : List (Elem (κ × (α ⊕ β)))) : List Int := es.filterMap Elem.timestamp

omit [DecidableEq κ] in
@[simp] theorem stamps_nil : stamps ([] : List (Elem (κ × (α ⊕ β)))) = [] := rfl
omit [DecidableEq κ] in
@[simp] theorem stamps_ts (a : κ × (α ⊕ β)) (t : Int) (es : List (Elem (κ × (α ⊕ β)))) :
    stamps (.ts a t :: es) = t :: stamps es := rfl
omit [DecidableEq κ] in
@[simp] theorem stamps_wm (t : Int) (es : List (Elem (κ × (α ⊕ β)))) :
    stamps (.wm t :: es) = t :: stamps es := rfl
omit [DecidableEq κ] in
@[simp] theorem stamps_fb (es : List (Elem (κ × (α ⊕ β)))) : stamps (.flushBatch :: es) = stamps es := rfl

/-- "is a match": same key and `lowerOf l.ts lb ≤ r.ts ≤ upperOf l.ts ub` (the filter inside `spec`) -/
def P (lb ub : Int) (l : Int × κ × α) (r : κ × Int × β) : Bool :=
  decide (r.1 = l.2.1) && decide (lowerOf l.1 lb ≤ r.2.1) && decide (r.2.1 ≤ upperOf l.1 ub)

/-- the tuples of one left element against the right elements `R` -/
def matchesOf (lb ub : Int) (R : List (κ × Int × β)) (l : Int × κ × α) : List (Int × κ × α × β) :=
  (R.filter (P lb ub l)).map fun r => (max r.2.1 l.1, l.2.1, l.2.2, r.2.2)

theorem spec_eq (lb ub : Int) (L : List (Int × κ × α)) (R : List (κ × Int × β)) :
    spec lb ub L R = L.flatMap (matchesOf lb ub R) := rfl

/-- right elements of key `k` that a left element with timestamp `t` does not consider too old -/
def Q (lb : Int) (t : Int) (k : κ) (r : κ × Int × β) : Bool :=
  decide (r.1 = k) && decide (lowerOf t lb ≤ r.2.1)

/-- sorted by timestamp -/
def SortedL (l : List (Int × κ × α)) : Prop := l.Pairwise fun a b => a.1 ≤ b.1
def SortedR (l : List (κ × Int × β)) : Prop := l.Pairwise fun a b => a.2.1 ≤ b.2.1

/-- `lowerOf · lb` is monotone on the timestamps satisfying `V` (no non-monotone saturation) -/
def LowerMono (V : Int → Prop) (lb : Int) : Prop :=
  ∀ t t', V t → V t' → t ≤ t' → lowerOf t lb ≤ lowerOf t' lb

/-- The right buffer `rs` still holds every right element of `R` that a remaining (`∈ left`) or future
    (`ts ≥ M = last_seen`) left element may match. -/
def Rel (V : Int → Prop) (lb : Int) (left : List (Int × κ × α)) (M : Int)
    (rs R : List (κ × Int × β)) : Prop :=
  ∀ t k, V t → ((∃ l ∈ left, l.1 = t) ∨ M ≤ t) → rs.filter (Q lb t k) = R.filter (Q lb t k)

/-! ### Lists sorted by timestamp: `pop_front while <` and `take_while ≤` are filters -/

theorem popOld_eq_filter (key : κ) (lower : Int) (rs : List (κ × Int × β)) (h : SortedR rs) :
    popOld key lower rs = rs.filter fun r => !(decide (r.1 = key) && decide (r.2.1 < lower)) := by
  induction rs with
  | nil => rfl
  | cons r rs ih =>
    have h' := List.pairwise_cons.mp h
    by_cases hk : r.1 = key
    · by_cases hl : r.2.1 < lower
      · simp [popOld, hk, hl, ih h'.2]
      · have : (r :: rs).filter (fun r => !(decide (r.1 = key) && decide (r.2.1 < lower))) = r :: rs := by
          rw [List.filter_eq_self]
          intro a ha
          rcases List.mem_cons.mp ha with rfl | ha
          · simp [hl]
          · have := h'.1 a ha
            have : ¬ a.2.1 < lower := by omega
            simp [this]
        rw [this]
        simp [popOld, hk, hl]
    · simp [popOld, hk, ih h'.2]

omit [DecidableEq κ] in
theorem takeWhile_eq_filter (up : Int) (rs : List (κ × Int × β)) (h : SortedR rs) :
    (rs.takeWhile fun r => decide (r.2.1 ≤ up)) = rs.filter fun r => decide (r.2.1 ≤ up) := by
  induction rs with
  | nil => rfl
  | cons r rs ih =>
    have h' := List.pairwise_cons.mp h
    by_cases hl : r.2.1 ≤ up
    · simp [hl, ih h'.2]
    · have : rs.filter (fun r => decide (r.2.1 ≤ up)) = [] := by
        rw [List.filter_eq_nil_iff]
        intro a ha
        have := h'.1 a ha
        have : ¬ a.2.1 ≤ up := by omega
        simp [this]
      simp [hl, this]

theorem popOld_sorted (key : κ) (lower : Int) (rs : List (κ × Int × β)) (h : SortedR rs) :
    SortedR (popOld key lower rs) := by
  rw [popOld_eq_filter key lower rs h]
  exact List.Pairwise.filter _ h

theorem mem_popOld (key : κ) (lower : Int) (rs : List (κ × Int × β)) (h : SortedR rs)
    (r : κ × Int × β) (hr : r ∈ popOld key lower rs) : r ∈ rs := by
  rw [popOld_eq_filter key lower rs h] at hr
  exact (List.mem_filter.mp hr).1

/-- What `advance` generates for the front left element `l` (interval_join.rs:99-123) is
    `matchesOf R l` for the whole right side `R`, provided the buffer is sorted and still holds what `l`
    may match. -/
theorem matches_eq (lb ub : Int) (l : Int × κ × α) (rs R : List (κ × Int × β)) (hs : SortedR rs)
    (hrel : rs.filter (Q lb l.1 l.2.1) = R.filter (Q lb l.1 l.2.1)) :
    ((((popOld l.2.1 (lowerOf l.1 lb) rs).filter fun r => decide (r.1 = l.2.1)).takeWhile
        fun r => decide (r.2.1 ≤ upperOf l.1 ub)).map fun r => (max r.2.1 l.1, l.2.1, l.2.2, r.2.2))
      = matchesOf lb ub R l := by
  unfold matchesOf
  congr 1
  have hs1 : SortedR ((popOld l.2.1 (lowerOf l.1 lb) rs).filter fun r => decide (r.1 = l.2.1)) :=
    List.Pairwise.filter _ (popOld_sorted _ _ rs hs)
  rw [takeWhile_eq_filter _ _ hs1, popOld_eq_filter _ _ rs hs, List.filter_filter, List.filter_filter]
  refine Eq.trans (?_ : _ = (rs.filter (Q lb l.1 l.2.1)).filter fun a => decide (a.2.1 ≤ upperOf l.1 ub)) ?_
  · rw [List.filter_filter]
    apply List.filter_congr
    intro a _
    by_cases h1 : a.1 = l.2.1 <;> by_cases h2 : a.2.1 < lowerOf l.1 lb <;>
      by_cases h3 : a.2.1 ≤ upperOf l.1 ub <;> simp [Q, h1, h2, h3] <;> omega
  rw [hrel, List.filter_filter]
  apply List.filter_congr
  intro a _
  simp only [P, Q]
  by_cases h1 : a.1 = l.2.1 <;> by_cases h2 : lowerOf l.1 lb ≤ a.2.1 <;>
    by_cases h3 : a.2.1 ≤ upperOf l.1 ub <;> simp [h1, h2, h3]

/-! ### `advance` -/

theorem advance_nil (lb ub M : Int) (rst : Bool) (rs : List (κ × Int × β)) :
    advance lb ub M rst ([] : List (Int × κ × α)) rs = ([], rs, []) := by
  simp [advance]

theorem advance_cons_stop (lb ub M : Int) (rst : Bool) (l : Int × κ × α) (ls : List (Int × κ × α))
    (rs : List (κ × Int × β)) (h : M ≤ upperOf l.1 ub ∧ rst = false) :
    advance lb ub M rst (l :: ls) rs = (l :: ls, rs, []) := by
  obtain ⟨lts, lk, lv⟩ := l
  simp only at h
  simp [advance, h.1, h.2]

theorem advance_cons_go (lb ub M : Int) (rst : Bool) (l : Int × κ × α) (ls : List (Int × κ × α))
    (rs : List (κ × Int × β)) (h : ¬ (M ≤ upperOf l.1 ub ∧ rst = false)) :
    advance lb ub M rst (l :: ls) rs =
      ((advance lb ub M rst ls (popOld l.2.1 (lowerOf l.1 lb) rs)).1,
       (advance lb ub M rst ls (popOld l.2.1 (lowerOf l.1 lb) rs)).2.1,
       ((((popOld l.2.1 (lowerOf l.1 lb) rs).filter fun r => decide (r.1 = l.2.1)).takeWhile
          fun r => decide (r.2.1 ≤ upperOf l.1 ub)).map fun r => (max r.2.1 l.1, l.2.1, l.2.2, r.2.2))
        ++ (advance lb ub M rst ls (popOld l.2.1 (lowerOf l.1 lb) rs)).2.2) := by
  obtain ⟨lts, lk, lv⟩ := l
  simp only at h
  have h' : ¬ (upperOf lts ub ≥ M ∧ (!rst) = true) := by
    intro hc; apply h; refine ⟨hc.1, ?_⟩; cases rst <;> simp_all
  rw [advance]
  simp only [h', if_false]

/-- removing what is too old for `l` does not remove anything a later left element may match -/
theorem popOld_filter_Q (V : Int → Prop) (lb : Int) (hmono : LowerMono V lb) (key : κ) (lts t : Int) (k : κ)
    (hV : V lts) (hVt : V t) (hle : lts ≤ t) (rs : List (κ × Int × β)) (hs : SortedR rs) :
    (popOld key (lowerOf lts lb) rs).filter (Q lb t k) = rs.filter (Q lb t k) := by
  rw [popOld_eq_filter _ _ rs hs, List.filter_filter]
  apply List.filter_congr
  intro a _
  have := hmono lts t hV hVt hle
  by_cases h1 : a.1 = k <;> by_cases h2 : lowerOf t lb ≤ a.2.1 <;> simp [Q, h1, h2]
  right; omega

/-- **`advance` (interval_join.rs:84-128).** It takes a prefix `done` off the `left` queue — exactly the
    elements whose interval is closed (`upper < last_seen`), everything at a restart — and generates for
    each of them its matches against the WHOLE right side `R`; the buffers keep their invariants. -/
theorem advance_spec (V : Int → Prop) (lb ub M : Int) (rst : Bool) (R : List (κ × Int × β))
    (hmono : LowerMono V lb) :
    ∀ (ls : List (Int × κ × α)) (rs : List (κ × Int × β)),
      SortedL ls → (∀ l ∈ ls, V l.1 ∧ l.1 ≤ M) → SortedR rs → Rel V lb ls M rs R →
      ∃ done, ls = done ++ (advance lb ub M rst ls rs).1
        ∧ (advance lb ub M rst ls rs).2.2 = done.flatMap (matchesOf lb ub R)
        ∧ (∀ l ∈ done, upperOf l.1 ub < M ∨ rst = true)
        ∧ (rst = true → (advance lb ub M rst ls rs).1 = [])
        ∧ (rst = false → ∀ l ∈ ((advance lb ub M rst ls rs).1).head?, M ≤ upperOf l.1 ub)
        ∧ SortedR (advance lb ub M rst ls rs).2.1
        ∧ (∀ r ∈ (advance lb ub M rst ls rs).2.1, r ∈ rs)
        ∧ Rel V lb (advance lb ub M rst ls rs).1 M (advance lb ub M rst ls rs).2.1 R := by
  intro ls
  induction ls with
  | nil =>
    intro rs _ _ hs hrel
    refine ⟨[], ?_⟩
    simp only [advance_nil]
    exact ⟨rfl, rfl, by simp, by simp, by simp, hs, fun _ h => h, hrel⟩
  | cons l ls ih =>
    intro rs hsl hV hs hrel
    by_cases hc : M ≤ upperOf l.1 ub ∧ rst = false
    · refine ⟨[], ?_⟩
      rw [advance_cons_stop lb ub M rst l ls rs hc]
      refine ⟨rfl, rfl, by simp, ?_, ?_, hs, fun _ h => h, hrel⟩
      · intro h; rw [hc.2] at h; cases h
      · intro _ l' hl'; simp at hl'; subst hl'; exact hc.1
    · have hsl' := List.pairwise_cons.mp hsl
      have hVl := hV l (by simp)
      have hs' : SortedR (popOld l.2.1 (lowerOf l.1 lb) rs) := popOld_sorted _ _ rs hs
      have hrel' : Rel V lb ls M (popOld l.2.1 (lowerOf l.1 lb) rs) R := by
        intro t k hVt ht
        have hle : l.1 ≤ t := by
          rcases ht with ⟨l', hl', rfl⟩ | ht
          · exact hsl'.1 l' hl'
          · have := hVl.2; omega
        rw [popOld_filter_Q V lb hmono l.2.1 l.1 t k hVl.1 hVt hle rs hs]
        apply hrel t k hVt
        rcases ht with ⟨l', hl', rfl⟩ | ht
        · exact Or.inl ⟨l', by simp [hl'], rfl⟩
        · exact Or.inr ht
      obtain ⟨done, h1, h2, h3, h4, h5, h6, h7, h8⟩ :=
        ih (popOld l.2.1 (lowerOf l.1 lb) rs) hsl'.2 (fun l' hl' => hV l' (by simp [hl'])) hs' hrel'
      refine ⟨l :: done, ?_⟩
      rw [advance_cons_go lb ub M rst l ls rs hc]
      simp only
      refine ⟨?_, ?_, ?_, h4, h5, h6, ?_, h8⟩
      · rw [List.cons_append, ← h1]
      · rw [List.flatMap_cons, ← h2,
          matches_eq lb ub l rs R hs (hrel l.1 l.2.1 hVl.1 (Or.inl ⟨l, by simp, rfl⟩))]
      · intro l' hl'
        rcases List.mem_cons.mp hl' with rfl | hl'
        · cases rst
          · left; have : ¬ M ≤ upperOf l'.1 ub := fun h => hc ⟨h, rfl⟩; omega
          · right; rfl
        · exact h3 l' hl'
      · intro r hr
        exact mem_popOld _ _ rs hs r (h7 r hr)

/-! ### `step` in terms of `fin` -/

/-- the tail of `next()` after an element was consumed: `advance`, then drain the buffer, then (at a
    restart) reset and `FlushAndRestart` — the local `fin` of `step`, with projections -/
def fin (lb ub : Int) (s : State κ α β) : State κ α β × List (Elem (κ × α × β)) :=
  let a := advance lb ub s.lastSeen s.receivedRestart s.left s.right
  let r := if a.1.isEmpty && s.receivedRestart then [] else a.2.1
  let outs := a.2.2.map fun o => Elem.ts o.2 o.1
  if s.receivedRestart then (⟨a.1, r, TS_MIN, false⟩, outs ++ [.far]) else (⟨a.1, r, s.lastSeen, false⟩, outs)

theorem step_left (lb ub : Int) (s : State κ α β) (k : κ) (v : α) (t : Int) :
    step lb ub s (.ts (k, .inl v) t) = fin lb ub { s with lastSeen := t, left := s.left ++ [(t, k, v)] } := rfl

theorem step_right (lb ub : Int) (s : State κ α β) (k : κ) (v : β) (t : Int) :
    step lb ub s (.ts (k, .inr v) t) = fin lb ub { s with lastSeen := t, right := s.right ++ [(k, t, v)] } := rfl

theorem step_wm (lb ub : Int) (s : State κ α β) (t : Int) :
    step lb ub s (.wm t) = fin lb ub { s with lastSeen := t } := rfl

theorem step_far (lb ub : Int) (s : State κ α β) :
    step lb ub s .far = fin lb ub { s with receivedRestart := true } := rfl

omit [DecidableEq κ] in
theorem pairs_map_ts (l : List (Int × κ × α × β)) : pairs (l.map fun o => Elem.ts o.2 o.1) = l := by
  induction l with
  | nil => rfl
  | cons x xs ih => simp [pairs, ih]

omit [DecidableEq κ] in
theorem pairs_append (xs ys : List (Elem (κ × α × β))) : pairs (xs ++ ys) = pairs xs ++ pairs ys := by
  induction xs with
  | nil => rfl
  | cons x xs ih => cases x <;> simp [pairs, ih]

/-! ### The invariant between two pulls -/

/-- `Lc`, `Rc`: left / right elements consumed so far in this iteration; `out`: tuples emitted so far. -/
structure Inv (V : Int → Prop) (lb ub : Int) (s : State κ α β) (Lc : List (Int × κ × α))
    (Rc : List (κ × Int × β)) (out : List (Int × κ × α × β)) : Prop where
  /-- the consumed left elements are the finished ones followed by the queue; exactly the finished ones
      have been joined, against everything, and their intervals are closed -/
  split : ∃ done, Lc = done ++ s.left ∧ out = spec lb ub done Rc ∧ ∀ l ∈ done, upperOf l.1 ub < s.lastSeen
  leftSorted : SortedL s.left
  leftV : ∀ l ∈ s.left, V l.1 ∧ l.1 ≤ s.lastSeen
  rightSorted : SortedR s.right
  rightLe : ∀ r ∈ s.right, r.2.1 ≤ s.lastSeen
  rel : Rel V lb s.left s.lastSeen s.right Rc

theorem inv_init (V : Int → Prop) (lb ub : Int) :
    Inv V lb ub (State.init : State κ α β) [] [] [] where
  split := ⟨[], rfl, rfl, by simp⟩
  leftSorted := List.Pairwise.nil
  leftV := by simp [State.init]
  rightSorted := List.Pairwise.nil
  rightLe := by simp [State.init]
  rel := fun _ _ _ _ => rfl

theorem inv_bump {V : Int → Prop} {lb ub : Int} {s : State κ α β} {Lc Rc out} (h : Inv V lb ub s Lc Rc out)
    (t : Int) (ht : s.lastSeen ≤ t) : Inv V lb ub { s with lastSeen := t } Lc Rc out where
  split := by
    obtain ⟨done, h1, h2, h3⟩ := h.split
    exact ⟨done, h1, h2, fun l hl => by have := h3 l hl; simp only; omega⟩
  leftSorted := h.leftSorted
  leftV := fun l hl => ⟨(h.leftV l hl).1, by have := (h.leftV l hl).2; simp only; omega⟩
  rightSorted := h.rightSorted
  rightLe := fun r hr => by have := h.rightLe r hr; simp only; omega
  rel := fun t' k hV ht' => h.rel t' k hV (by
    rcases ht' with h' | h'
    · exact Or.inl h'
    · right; simp only at h'; omega)

theorem inv_pushL {V : Int → Prop} {lb ub : Int} {s : State κ α β} {Lc Rc out} (h : Inv V lb ub s Lc Rc out)
    (k : κ) (v : α) (hV : V s.lastSeen) :
    Inv V lb ub { s with left := s.left ++ [(s.lastSeen, k, v)] } (Lc ++ [(s.lastSeen, k, v)]) Rc out where
  split := by
    obtain ⟨done, h1, h2, h3⟩ := h.split
    exact ⟨done, by simp [h1], h2, h3⟩
  leftSorted := by
    refine List.pairwise_append.mpr ⟨h.leftSorted, List.pairwise_singleton _ _, ?_⟩
    intro a ha b hb
    simp only [List.mem_singleton] at hb; subst hb
    exact (h.leftV a ha).2
  leftV := by
    intro l hl
    rcases List.mem_append.mp hl with hl | hl
    · exact h.leftV l hl
    · simp only [List.mem_singleton] at hl; subst hl; exact ⟨hV, Int.le_refl _⟩
  rightSorted := h.rightSorted
  rightLe := h.rightLe
  rel := fun t' k' hV' ht' => h.rel t' k' hV' (by
    rcases ht' with ⟨l, hl, rfl⟩ | h'
    · rcases List.mem_append.mp hl with hl | hl
      · exact Or.inl ⟨l, hl, rfl⟩
      · simp only [List.mem_singleton] at hl; subst hl; exact Or.inr (Int.le_refl _)
    · exact Or.inr h')

/-- a right element that arrives after the interval of `l` was closed does not match `l` -/
theorem spec_append_right (lb ub : Int) (done : List (Int × κ × α)) (Rc : List (κ × Int × β))
    (r : κ × Int × β) (h : ∀ l ∈ done, upperOf l.1 ub < r.2.1) :
    spec lb ub done (Rc ++ [r]) = spec lb ub done Rc := by
  simp only [spec_eq]
  induction done with
  | nil => rfl
  | cons l ls ih =>
    have hl := h l (by simp)
    have : P lb ub l r = false := by
      have : ¬ r.2.1 ≤ upperOf l.1 ub := by omega
      simp [P, this]
    simp only [List.flatMap_cons, ih (fun l' hl' => h l' (by simp [hl']))]
    simp [matchesOf, List.filter_append, this]

theorem inv_pushR {V : Int → Prop} {lb ub : Int} {s : State κ α β} {Lc Rc out} (h : Inv V lb ub s Lc Rc out)
    (k : κ) (v : β) :
    Inv V lb ub { s with right := s.right ++ [(k, s.lastSeen, v)] } Lc (Rc ++ [(k, s.lastSeen, v)]) out where
  split := by
    obtain ⟨done, h1, h2, h3⟩ := h.split
    exact ⟨done, h1, by rw [spec_append_right lb ub done Rc _ (fun l hl => h3 l hl)]; exact h2, h3⟩
  leftSorted := h.leftSorted
  leftV := h.leftV
  rightSorted := by
    refine List.pairwise_append.mpr ⟨h.rightSorted, List.pairwise_singleton _ _, ?_⟩
    intro a ha b hb
    simp only [List.mem_singleton] at hb; subst hb
    exact h.rightLe a ha
  rightLe := by
    intro r hr
    rcases List.mem_append.mp hr with hr | hr
    · exact h.rightLe r hr
    · simp only [List.mem_singleton] at hr; subst hr; exact Int.le_refl _
  rel := fun t' k' hV' ht' => by
    simp only [List.filter_append]
    rw [h.rel t' k' hV' ht']

/-- `fin` when no restart is pending: the invariant is kept, only tuples are emitted -/
theorem fin_run {V : Int → Prop} {lb ub : Int} (hmono : LowerMono V lb) {s : State κ α β} {Lc Rc out}
    (h : Inv V lb ub s Lc Rc out) (hr : s.receivedRestart = false) :
    Inv V lb ub (fin lb ub s).1 Lc Rc (out ++ pairs (fin lb ub s).2)
      ∧ (fin lb ub s).1.receivedRestart = false ∧ (fin lb ub s).1.lastSeen = s.lastSeen
      ∧ (fin lb ub s).2 = (pairs (fin lb ub s).2).map (fun o => Elem.ts o.2 o.1) := by
  obtain ⟨d2, a1, a2, a3, _, _, a6, a7, a8⟩ :=
    advance_spec V lb ub s.lastSeen s.receivedRestart Rc hmono s.left s.right h.leftSorted h.leftV
      h.rightSorted h.rel
  obtain ⟨done, h1, h2, h3⟩ := h.split
  have hfin : fin lb ub s = (⟨(advance lb ub s.lastSeen false s.left s.right).1,
      (advance lb ub s.lastSeen false s.left s.right).2.1, s.lastSeen, false⟩,
      (advance lb ub s.lastSeen false s.left s.right).2.2.map fun o => Elem.ts o.2 o.1) := by
    simp [fin, hr]
  rw [hr] at a1 a2 a3 a6 a7 a8
  rw [hfin]
  simp only [pairs_map_ts]
  refine ⟨?_, by simp, by simp, by simp⟩
  have hsl : SortedL (d2 ++ (advance lb ub s.lastSeen false s.left s.right).1) := a1 ▸ h.leftSorted
  exact {
    split := ⟨done ++ d2, by rw [h1, List.append_assoc, ← a1], by
      rw [a2, h2, spec_eq, spec_eq, List.flatMap_append], by
      intro l hl
      rcases List.mem_append.mp hl with hl | hl
      · exact h3 l hl
      · rcases a3 l hl with h' | h'
        · exact h'
        · cases h'⟩
    leftSorted := (List.pairwise_append.mp hsl).2.1
    leftV := fun l hl => h.leftV l (by rw [a1]; exact List.mem_append_right _ hl)
    rightSorted := a6
    rightLe := fun r hr' => h.rightLe r (a7 r hr')
    rel := a8 }

/-- `fin` at a restart: everything left is joined, `FlushAndRestart` is emitted, the state is initial -/
theorem fin_far {V : Int → Prop} {lb ub : Int} (hmono : LowerMono V lb) {s : State κ α β} {Lc Rc out}
    (h : Inv V lb ub s Lc Rc out) (hr : s.receivedRestart = true) :
    (fin lb ub s).1 = State.init
      ∧ (fin lb ub s).2 = (pairs (fin lb ub s).2).map (fun o => Elem.ts o.2 o.1) ++ [.far]
      ∧ out ++ pairs (fin lb ub s).2 = spec lb ub Lc Rc := by
  obtain ⟨d2, a1, a2, _, a4, _, _, _, _⟩ :=
    advance_spec V lb ub s.lastSeen s.receivedRestart Rc hmono s.left s.right h.leftSorted h.leftV
      h.rightSorted h.rel
  obtain ⟨done, h1, h2, _⟩ := h.split
  have a4 := a4 hr
  rw [hr] at a1 a2 a4
  have hfin : fin lb ub s = (State.init,
      (advance lb ub s.lastSeen true s.left s.right).2.2.map (fun o => Elem.ts o.2 o.1) ++ [.far]) := by
    simp [fin, hr, a4, State.init]
  rw [hfin]
  simp only [pairs_append, pairs_map_ts, pairs, List.append_nil]
  refine ⟨by simp, by simp, ?_⟩
  rw [a4, List.append_nil] at a1
  rw [a2, h2, h1, a1, spec_eq, spec_eq, List.flatMap_append]

/-! ### Whole iterations -/

/-- what the operator emits inside an iteration: join tuples and forwarded `FlushBatch`es (never a
    `Watermark`: interval_join.rs:174-177 consumes them) -/
def isOutBody : Elem (κ × α × β) → Bool
  | .ts _ _ => true
  | .flushBatch => true
  | _ => false

theorem run_append (lb ub : Int) (s : State κ α β) (xs ys : List (Elem (κ × (α ⊕ β)))) :
    run lb ub s (xs ++ ys) =
      ((run lb ub (run lb ub s xs).1 ys).1, (run lb ub s xs).2 ++ (run lb ub (run lb ub s xs).1 ys).2) := by
  induction xs generalizing s with
  | nil => simp [run]
  | cons x xs ih => simp [run, ih, List.append_assoc]

theorem anyPanic_append (lb ub : Int) (s : State κ α β) (xs ys : List (Elem (κ × (α ⊕ β)))) :
    anyPanic lb ub s (xs ++ ys) = (anyPanic lb ub s xs || anyPanic lb ub (run lb ub s xs).1 ys) := by
  induction xs generalizing s with
  | nil => simp [run, anyPanic]
  | cons x xs ih => simp [run, anyPanic, ih, Bool.or_assoc]

omit [DecidableEq κ] in
theorem all_outBody_map_ts (l : List (Int × κ × α × β)) :
    ∀ o ∈ l.map (fun o => (Elem.ts o.2 o.1 : Elem (κ × α × β))), isOutBody o = true := by
  intro o ho
  obtain ⟨x, _, rfl⟩ := List.mem_map.mp ho
  rfl

/-- **The body of an iteration.** On a body (`Timestamped`/`Watermark`/`FlushBatch`) whose carried
    timestamps are non-decreasing and not below `last_seen`, no `assert!` fires, the invariant is kept, and
    only tuples / `FlushBatch` are emitted. -/
theorem run_body {V : Int → Prop} {lb ub : Int} (hmono : LowerMono V lb) :
    ∀ (es : List (Elem (κ × (α ⊕ β)))) (s : State κ α β) (Lc : List (Int × κ × α)) (Rc : List (κ × Int × β))
      (out : List (Int × κ × α × β)),
      Inv V lb ub s Lc Rc out → s.receivedRestart = false → (∀ e ∈ es, isBody e = true) →
      (s.lastSeen :: stamps es).Pairwise (· ≤ ·) → (∀ l ∈ lefts es, V l.1) →
      Inv V lb ub (run lb ub s es).1 (Lc ++ lefts es) (Rc ++ rights es) (out ++ pairs (run lb ub s es).2)
        ∧ (run lb ub s es).1.receivedRestart = false
        ∧ anyPanic lb ub s es = false
        ∧ (∀ o ∈ (run lb ub s es).2, isOutBody o = true) := by
  intro es
  induction es with
  | nil =>
    intro s Lc Rc out h hr _ _ _
    simpa [run, lefts, rights, pairs, anyPanic] using ⟨h, hr⟩
  | cons e es ih =>
    intro s Lc Rc out h hr hb hs hV
    have hbe := hb e (by simp)
    have hbes : ∀ e' ∈ es, isBody e' = true := fun e' h' => hb e' (by simp [h'])
    -- common continuation once the first step is understood
    have cont : ∀ (s' : State κ α β) (Lc' : List (Int × κ × α)) (Rc' : List (κ × Int × β)) (t : Int),
        Inv V lb ub s' Lc' Rc' out → s'.receivedRestart = false → s'.lastSeen = t →
        (t :: stamps es).Pairwise (· ≤ ·) → (∀ l ∈ lefts es, V l.1) →
        Inv V lb ub (run lb ub (fin lb ub s').1 es).1 (Lc' ++ lefts es) (Rc' ++ rights es)
            (out ++ pairs ((fin lb ub s').2 ++ (run lb ub (fin lb ub s').1 es).2))
          ∧ (run lb ub (fin lb ub s').1 es).1.receivedRestart = false
          ∧ anyPanic lb ub (fin lb ub s').1 es = false
          ∧ (∀ o ∈ (fin lb ub s').2 ++ (run lb ub (fin lb ub s').1 es).2, isOutBody o = true) := by
      intro s' Lc' Rc' t h' hr' ht hs' hV'
      obtain ⟨f1, f2, f3, f4⟩ := fin_run hmono h' hr'
      obtain ⟨i1, i2, i3, i4⟩ := ih (fin lb ub s').1 Lc' Rc' _ f1 f2 hbes (by rw [f3, ht]; exact hs') hV'
      refine ⟨by rw [pairs_append, ← List.append_assoc]; exact i1, i2, i3, ?_⟩
      intro o ho
      rcases List.mem_append.mp ho with ho | ho
      · rw [f4] at ho; exact all_outBody_map_ts _ o ho
      · exact i4 o ho
    cases e with
    | item a => simp [isBody] at hbe
    | term => simp [isBody] at hbe
    | far => simp [isBody] at hbe
    | flushBatch =>
      have hs' : (s.lastSeen :: stamps es).Pairwise (· ≤ ·) := by simpa using hs
      obtain ⟨i1, i2, i3, i4⟩ := ih s Lc Rc out h hr hbes hs' (by simpa [lefts] using hV)
      refine ⟨by simpa [run, step, lefts, rights, pairs] using i1, by simpa [run, step] using i2,
        by simpa [anyPanic, panics, step] using i3, ?_⟩
      intro o ho
      simp only [run, step, List.mem_append, List.mem_singleton] at ho
      rcases ho with rfl | ho
      · rfl
      · exact i4 o ho
    | wm t =>
      have hs' : s.lastSeen ≤ t ∧ (t :: stamps es).Pairwise (· ≤ ·) := by
        have := List.pairwise_cons.mp hs
        exact ⟨this.1 t (by simp), by simpa using this.2⟩
      obtain ⟨c1, c2, c3, c4⟩ := cont { s with lastSeen := t } Lc Rc t (inv_bump h t hs'.1) hr rfl hs'.2
        (by simpa [lefts] using hV)
      refine ⟨by simpa [run, step_wm, lefts, rights] using c1, by simpa [run, step_wm] using c2, ?_, ?_⟩
      · have : ¬ t < s.lastSeen := by omega
        simpa [anyPanic, panics, step_wm, this] using c3
      · simpa [run, step_wm] using c4
    | ts a t =>
      have hs' : s.lastSeen ≤ t ∧ (t :: stamps es).Pairwise (· ≤ ·) := by
        have := List.pairwise_cons.mp hs
        exact ⟨this.1 t (by simp), by simpa using this.2⟩
      have hnp : ¬ t < s.lastSeen := by omega
      obtain ⟨k, lr⟩ := a
      cases lr with
      | inl v =>
        have hVt : V t := hV (t, k, v) (by simp [lefts])
        have hinv : Inv V lb ub { s with lastSeen := t, left := s.left ++ [(t, k, v)] }
            (Lc ++ [(t, k, v)]) Rc out := inv_pushL (inv_bump h t hs'.1) k v hVt
        obtain ⟨c1, c2, c3, c4⟩ := cont _ _ Rc t hinv hr rfl hs'.2
          (fun l hl => hV l (by simp [lefts, hl]))
        refine ⟨by simpa [run, step_left, lefts, rights] using c1, by simpa [run, step_left] using c2, ?_, ?_⟩
        · simpa [anyPanic, panics, step_left, hnp] using c3
        · simpa [run, step_left] using c4
      | inr v =>
        have hinv : Inv V lb ub { s with lastSeen := t, right := s.right ++ [(k, t, v)] }
            Lc (Rc ++ [(k, t, v)]) out := inv_pushR (inv_bump h t hs'.1) k v
        obtain ⟨c1, c2, c3, c4⟩ := cont _ Lc _ t hinv hr rfl hs'.2 (by simpa [lefts] using hV)
        refine ⟨by simpa [run, step_right, lefts, rights] using c1, by simpa [run, step_right] using c2, ?_, ?_⟩
        · simpa [anyPanic, panics, step_right, hnp] using c3
        · simpa [run, step_right] using c4

/-- **One whole iteration.** From the initial state, on a sorted body followed by `FlushAndRestart`:
    the output is tuples / `FlushBatch`es followed by `FlushAndRestart`, the tuples are — in this order —
    `spec lb ub L R` for the left / right elements `L`, `R` of the iteration, no `assert!` fires and the
    operator is in its initial state again. -/
theorem run_iteration {V : Int → Prop} {lb ub : Int} (hmono : LowerMono V lb)
    (es : List (Elem (κ × (α ⊕ β)))) (hb : ∀ e ∈ es, isBody e = true)
    (hs : (TS_MIN :: stamps es).Pairwise (· ≤ ·)) (hV : ∀ l ∈ lefts es, V l.1) :
    ∃ outs : List (Elem (κ × α × β)),
      run lb ub State.init (es ++ [.far]) = (State.init, outs ++ [.far])
        ∧ pairs outs = spec lb ub (lefts es) (rights es)
        ∧ (∀ o ∈ outs, isOutBody o = true)
        ∧ anyPanic lb ub (State.init : State κ α β) (es ++ [.far]) = false := by
  obtain ⟨i1, i2, i3, i4⟩ := run_body hmono es State.init [] [] [] (inv_init V lb ub) rfl hb hs hV
  have hinv : Inv V lb ub { (run lb ub State.init es).1 with receivedRestart := true }
      (lefts es) (rights es) (pairs (run lb ub State.init es).2) :=
    { split := by simpa using i1.split, leftSorted := i1.leftSorted, leftV := i1.leftV,
      rightSorted := i1.rightSorted, rightLe := i1.rightLe, rel := i1.rel }
  obtain ⟨f1, f2, f3⟩ := fin_far hmono hinv rfl
  refine ⟨(run lb ub State.init es).2 ++
    (pairs (fin lb ub { (run lb ub State.init es).1 with receivedRestart := true }).2).map
      (fun o => Elem.ts o.2 o.1), ?_, ?_, ?_, ?_⟩
  · rw [run_append]
    simp only [run, step_far, f1, List.append_nil, List.append_assoc]
    rw [← f2]
  · rw [pairs_append, pairs_map_ts, f3]
  · intro o ho
    rcases List.mem_append.mp ho with ho | ho
    · exact i4 o ho
    · exact all_outBody_map_ts _ o ho
  · rw [anyPanic_append, i3]
    simp [anyPanic, panics]

/-! ### The specification in plain integer arithmetic (no saturation) -/

/-- same-key pairs with `l.ts - lb ≤ r.ts ≤ l.ts + ub` over ℤ, stamped `max l.ts r.ts` -/
def specZ (lb ub : Int) (L : List (Int × κ × α)) (R : List (κ × Int × β)) : List (Int × κ × α × β) :=
  L.flatMap fun l =>
    (R.filter fun r => decide (r.1 = l.2.1) && decide (l.1 - lb ≤ r.2.1) && decide (r.2.1 ≤ l.1 + ub)).map
      fun r => (max r.2.1 l.1, l.2.1, l.2.2, r.2.2)

theorem clamp_cases (x : Int) :
    (x < -9223372036854775808 ∧ clamp x = -9223372036854775808)
      ∨ (9223372036854775807 < x ∧ clamp x = 9223372036854775807)
      ∨ (-9223372036854775808 ≤ x ∧ x ≤ 9223372036854775807 ∧ clamp x = x) := by
  unfold clamp
  simp only [TS_MIN, TS_MAX]
  by_cases h1 : x < -9223372036854775808
  · left; simp [h1]
  · by_cases h2 : 9223372036854775807 < x
    · right; left; simp [h1, h2]
    · right; right; simp [h1, h2]; omega

theorem clamp_mono {a b : Int} (h : a ≤ b) : clamp a ≤ clamp b := by
  have ha := clamp_cases a
  have hb := clamp_cases b
  omega

theorem clamp_range (x : Int) : TS_MIN ≤ clamp x ∧ clamp x ≤ TS_MAX := by
  have hx := clamp_cases x
  simp only [TS_MIN, TS_MAX]
  omega

/-- `saturating_sub` is monotone in the timestamp for EVERY bound: the eviction of interval_join.rs:104-110
    is justified without any side condition -/
theorem lowerMono_all (lb : Int) : LowerMono (fun _ => True) lb := by
  intro t t' _ _ hle
  exact clamp_mono (by omega)

/-- a lower bound saturated DOWNWARDS (or not at all) means the same as the unsaturated one for i64
    timestamps; only an upward saturation (`x > i64::MAX`) differs, and only for `r = i64::MAX` -/
theorem clamp_le_iff (x r : Int) (hx : x ≤ TS_MAX) (hr : TS_MIN ≤ r) : clamp x ≤ r ↔ x ≤ r := by
  have h := clamp_cases x
  simp only [TS_MIN, TS_MAX] at *
  omega

/-- dually for the upper bound: only a downward saturation (`x < i64::MIN`) differs, for `r = i64::MIN` -/
theorem le_clamp_iff (x r : Int) (hx : TS_MIN ≤ x) (hr : r ≤ TS_MAX) : r ≤ clamp x ↔ r ≤ x := by
  have h := clamp_cases x
  simp only [TS_MIN, TS_MAX] at *
  omega

/-- The saturated specification is the one over ℤ whenever `l.ts - lb` does not exceed `i64::MAX` and
    `l.ts + ub` does not fall below `i64::MIN` (overflows in the other two directions are harmless). -/
theorem spec_eq_specZ (lb ub : Int) (L : List (Int × κ × α))
    (R : List (κ × Int × β)) (hL : ∀ l ∈ L, l.1 - lb ≤ TS_MAX ∧ TS_MIN ≤ l.1 + ub)
    (hR : ∀ r ∈ R, TS_MIN ≤ r.2.1 ∧ r.2.1 ≤ TS_MAX) :
    spec lb ub L R = specZ lb ub L R := by
  induction L with
  | nil => rfl
  | cons l L ih =>
    have hl := hL l (by simp)
    simp only [spec, specZ, List.flatMap_cons] at ih ⊢
    rw [ih (fun l' hl' => hL l' (by simp [hl']))]
    congr 2
    apply List.filter_congr
    intro r hr
    have h1 := clamp_le_iff (l.1 - lb) r.2.1 hl.1 (hR r hr).1
    have h2 := le_clamp_iff (l.1 + ub) r.2.1 hl.2 (hR r hr).2
    simp only [lowerOf, upperOf]
    by_cases ha : l.1 - lb ≤ r.2.1 <;> by_cases hb : r.2.1 ≤ l.1 + ub <;>
      simp [ha, hb, h1, h2]

omit [DecidableEq κ] in
theorem mem_lefts_stamps (es : List (Elem (κ × (α ⊕ β)))) (l : Int × κ × α) (h : l ∈ lefts es) :
    l.1 ∈ stamps es := by
  induction es with
  | nil => simp [lefts] at h
  | cons e es ih =>
    cases e with
    | ts a t =>
      obtain ⟨k, lr⟩ := a
      cases lr with
      | inl v =>
        simp only [lefts, List.mem_cons] at h
        rcases h with rfl | h
        · simp
        · simp [ih h]
      | inr v => simp only [lefts] at h; simp [ih h]
    | wm t => simp only [lefts] at h; simp [ih h]
    | flushBatch => simp only [lefts] at h; simp [ih h]
    | item a => simp only [lefts] at h; simpa [stamps, Elem.timestamp] using ih h
    | far => simp only [lefts] at h; simpa [stamps, Elem.timestamp] using ih h
    | term => simp only [lefts] at h; simpa [stamps, Elem.timestamp] using ih h

omit [DecidableEq κ] in
theorem mem_rights_stamps (es : List (Elem (κ × (α ⊕ β)))) (r : κ × Int × β) (h : r ∈ rights es) :
    r.2.1 ∈ stamps es := by
  induction es with
  | nil => simp [rights] at h
  | cons e es ih =>
    cases e with
    | ts a t =>
      obtain ⟨k, lr⟩ := a
      cases lr with
      | inr v =>
        simp only [rights, List.mem_cons] at h
        rcases h with rfl | h
        · simp
        · simp [ih h]
      | inl v => simp only [rights] at h; simp [ih h]
    | wm t => simp only [rights] at h; simp [ih h]
    | flushBatch => simp only [rights] at h; simp [ih h]
    | item a => simp only [rights] at h; simpa [stamps, Elem.timestamp] using ih h
    | far => simp only [rights] at h; simpa [stamps, Elem.timestamp] using ih h
    | term => simp only [rights] at h; simpa [stamps, Elem.timestamp] using ih h

/-! ### The specification does not depend on the arrival order -/

theorem flatMap_perm_congr {γ δ : Type} (l : List γ) (f g : γ → List δ) (h : ∀ a ∈ l, (f a).Perm (g a)) :
    (l.flatMap f).Perm (l.flatMap g) := by
  induction l with
  | nil => exact List.Perm.refl _
  | cons a l ih =>
    simp only [List.flatMap_cons]
    exact (h a (by simp)).append (ih fun a' ha' => h a' (by simp [ha']))

theorem spec_perm (lb ub : Int) {L L' : List (Int × κ × α)} {R R' : List (κ × Int × β)}
    (hL : L.Perm L') (hR : R.Perm R') : (spec lb ub L R).Perm (spec lb ub L' R') := by
  simp only [spec_eq]
  refine (List.Perm.flatMap_right _ hL).trans (flatMap_perm_congr _ _ _ ?_)
  intro l _
  exact (hR.filter _).map _

/-- `lefts` / `rights` as `filterMap`s -/
def leftOf : Elem (κ × (α ⊕ β)) → Option (Int × κ × α)
  | .ts (k, .inl v) t => some (t, k, v)
  | _ => none
def rightOf : Elem (κ × (α ⊕ β)) → Option (κ × Int × β)
  | .ts (k, .inr v) t => some (k, t, v)
  | _ => none

omit [DecidableEq κ] in
theorem lefts_eq_filterMap (es : List (Elem (κ × (α ⊕ β)))) : lefts es = es.filterMap leftOf := by
  induction es with
  | nil => rfl
  | cons e es ih =>
    cases e with
    | ts a t =>
      obtain ⟨k, lr⟩ := a
      cases lr with
      | inl v => exact congrArg ((t, k, v) :: ·) ih
      | inr v => exact ih
    | _ => exact ih

omit [DecidableEq κ] in
theorem rights_eq_filterMap (es : List (Elem (κ × (α ⊕ β)))) : rights es = es.filterMap rightOf := by
  induction es with
  | nil => rfl
  | cons e es ih =>
    cases e with
    | ts a t =>
      obtain ⟨k, lr⟩ := a
      cases lr with
      | inr v => exact congrArg ((k, t, v) :: ·) ih
      | inl v => exact ih
    | _ => exact ih

omit [DecidableEq κ] in
theorem lefts_perm {es es' : List (Elem (κ × (α ⊕ β)))} (h : es.Perm es') : (lefts es).Perm (lefts es') := by
  rw [lefts_eq_filterMap, lefts_eq_filterMap]; exact h.filterMap _

omit [DecidableEq κ] in
theorem rights_perm {es es' : List (Elem (κ × (α ⊕ β)))} (h : es.Perm es') : (rights es).Perm (rights es') := by
  rw [rights_eq_filterMap, rights_eq_filterMap]; exact h.filterMap _

/-! ### Stream shape: grammar, watermarks (no sortedness needed) -/

theorem fin_out (lb ub : Int) (s : State κ α β) :
    (fin lb ub s).1.receivedRestart = false ∧
    ∃ ps : List (Int × κ × α × β), (fin lb ub s).2 =
      ps.map (fun o => Elem.ts o.2 o.1) ++ (if s.receivedRestart then [Elem.far] else []) := by
  refine ⟨?_, (advance lb ub s.lastSeen s.receivedRestart s.left s.right).2.2, ?_⟩ <;>
    cases h : s.receivedRestart <;> simp [fin, h]

/-- what one pull produces, by kind of the consumed element -/
theorem step_shape (lb ub : Int) (s : State κ α β) (hr : s.receivedRestart = false) (e : Elem (κ × (α ⊕ β))) :
    (step lb ub s e).1.receivedRestart = false ∧
    ∃ ps : List (Int × κ × α × β), (step lb ub s e).2 = ps.map (fun o => Elem.ts o.2 o.1) ++
      (match e with | .far => [Elem.far] | .term => [Elem.term] | .flushBatch => [Elem.flushBatch] | _ => []) := by
  cases e with
  | item a => exact ⟨hr, [], rfl⟩
  | flushBatch => exact ⟨hr, [], rfl⟩
  | term => exact ⟨hr, [], rfl⟩
  | far =>
    rw [step_far]
    obtain ⟨h1, ps, h2⟩ := fin_out lb ub { s with receivedRestart := true }
    exact ⟨h1, ps, by simpa using h2⟩
  | wm t =>
    rw [step_wm]
    obtain ⟨h1, ps, h2⟩ := fin_out lb ub { s with lastSeen := t }
    exact ⟨h1, ps, by simpa [hr] using h2⟩
  | ts a t =>
    obtain ⟨k, lr⟩ := a
    cases lr with
    | inl v =>
      rw [step_left]
      obtain ⟨h1, ps, h2⟩ := fin_out lb ub { s with lastSeen := t, left := s.left ++ [(t, k, v)] }
      exact ⟨h1, ps, by simpa [hr] using h2⟩
    | inr v =>
      rw [step_right]
      obtain ⟨h1, ps, h2⟩ := fin_out lb ub { s with lastSeen := t, right := s.right ++ [(k, t, v)] }
      exact ⟨h1, ps, by simpa [hr] using h2⟩

omit [DecidableEq κ] in
theorem grammarGo_ts_append (b : Bool) (ps : List (Int × κ × α × β)) (rest : List (Elem (κ × α × β))) :
    grammarGo b (ps.map (fun o => Elem.ts o.2 o.1) ++ rest)
      = if ps = [] then grammarGo b rest else grammarGo false rest := by
  induction ps generalizing b with
  | nil => simp
  | cons p ps ih =>
    simp only [List.map_cons, List.cons_append, grammarGo, ih false]
    simp

theorem grammarGo_weaken {γ : Type} (b : Bool) (es : List (Elem γ)) (h : grammarGo false es = true) :
    grammarGo b es = true := by
  cases b with
  | false => exact h
  | true =>
    cases es with
    | nil => simp [grammarGo] at h
    | cons e es => cases e <;> cases es <;> simp_all [grammarGo]

theorem run_grammar (lb ub : Int) (es : List (Elem (κ × (α ⊕ β)))) :
    ∀ (s : State κ α β) (b : Bool), s.receivedRestart = false → grammarGo b es = true →
      grammarGo b (run lb ub s es).2 = true := by
  induction es with
  | nil => intro s b _ h; simp [grammarGo] at h
  | cons e es ih =>
    intro s b hr h
    obtain ⟨h1, ps, h2⟩ := step_shape lb ub s hr e
    simp only [run, h2, List.append_assoc]
    rw [grammarGo_ts_append]
    cases e with
    | far =>
      have := ih (step lb ub s .far).1 true h1 (by simpa [grammarGo] using h)
      simp only [List.cons_append, List.nil_append, grammarGo]
      split <;> exact this
    | term =>
      cases es with
      | nil =>
        have hb : b = true := by simpa [grammarGo] using h
        subst hb
        simp only [List.cons_append, List.nil_append, run, grammarGo]
        split
        · rfl
        · rename_i hne
          exfalso
          -- `term` never emits tuples: `ps.map … ++ [term] = [term]`
          have : (step lb ub s (.term : Elem (κ × (α ⊕ β)))).2 = [Elem.term] := rfl
          rw [this] at h2
          cases ps with
          | nil => exact hne rfl
          | cons p ps => simp at h2
      | cons e' es' => simp [grammarGo] at h
    | flushBatch =>
      have := ih (step lb ub s .flushBatch).1 false h1 (by simpa [grammarGo] using h)
      simp only [List.cons_append, List.nil_append, grammarGo]
      split <;> exact this
    | item a =>
      have := ih (step lb ub s (.item a)).1 false h1 (by simpa [grammarGo] using h)
      simp only [List.nil_append]
      split
      · exact grammarGo_weaken b _ this
      · exact this
    | ts a t =>
      have := ih (step lb ub s (.ts a t)).1 false h1 (by simpa [grammarGo] using h)
      simp only [List.nil_append]
      split
      · exact grammarGo_weaken b _ this
      · exact this
    | wm t =>
      have := ih (step lb ub s (.wm t)).1 false h1 (by simpa [grammarGo] using h)
      simp only [List.nil_append]
      split
      · exact grammarGo_weaken b _ this
      · exact this

def isWm {γ : Type} : Elem γ → Bool
  | .wm _ => true
  | _ => false

/-- the operator never emits a `Watermark` (it consumes them, interval_join.rs:174-177) -/
theorem run_no_wm (lb ub : Int) (es : List (Elem (κ × (α ⊕ β)))) :
    ∀ (s : State κ α β), s.receivedRestart = false → ∀ o ∈ (run lb ub s es).2, isWm o = false := by
  induction es with
  | nil => intro s _ o ho; simp [run] at ho
  | cons e es ih =>
    intro s hr o ho
    obtain ⟨h1, ps, h2⟩ := step_shape lb ub s hr e
    simp only [run, List.mem_append] at ho
    rcases ho with ho | ho
    · rw [h2] at ho
      rcases List.mem_append.mp ho with ho | ho
      · obtain ⟨x, _, rfl⟩ := List.mem_map.mp ho; rfl
      · cases e <;> simp at ho <;> subst ho <;> rfl
    · exact ih _ h1 o ho

theorem wmSafeGo_no_wm {γ : Type} (l : List (Elem γ)) (h : ∀ o ∈ l, isWm o = false) :
    wmSafeGo none l = true := by
  induction l with
  | nil => rfl
  | cons o l ih =>
    have := ih (fun o' ho' => h o' (by simp [ho']))
    cases o with
    | wm t => have := h (.wm t) (by simp); simp [isWm] at this
    | _ => simp [wmSafeGo, this]

/-! ### `FlushAndRestart` resets the operator, whatever happened before -/

theorem advance_restart_left (lb ub M : Int) (ls : List (Int × κ × α)) :
    ∀ rs : List (κ × Int × β), (advance lb ub M true ls rs).1 = [] := by
  induction ls with
  | nil => intro rs; simp [advance_nil]
  | cons l ls ih =>
    intro rs
    rw [advance_cons_go lb ub M true l ls rs (by simp)]
    exact ih _

theorem step_far_resets (lb ub : Int) (s : State κ α β) : (step lb ub s .far).1 = State.init := by
  rw [step_far]
  simp [fin, advance_restart_left, State.init]

theorem run_far_resets (lb ub : Int) (s : State κ α β) (es : List (Elem (κ × (α ⊕ β)))) :
    (run lb ub s (es ++ [.far])).1 = State.init := by
  rw [run_append]
  simp [run, step_far_resets]

end Noir.IntervalJoin
