/-
  Lemmas/StartGrammar.lean — stream grammar and marker accounting of the simple `Start`
  (src/operator/start/mod.rs:213-300): helper definitions, invariants and the master induction
  behind Props/C05Start.lean (properties C05 and C04 at the block input).

  Three ingredients, all proved *next to* the simulation relation `Rel` of Lemmas/Start.lean:
  * `RelT`    : `missing_terminate` + number of replicas that sent `Terminate` = #replicas;
  * `SpecInv` : an invariant of the input contract alone (`Model/StartSpec.lean`): not every replica
                has ended the current iteration; once a replica terminated without having ended the
                iteration, the input is between two iterations; a terminated replica has ended or at
                least one iteration is complete;
  * `Ginv`    : the link between the contract state and the state of the grammar recogniser
                `grammarGo` on the output produced so far (`afterFar` flag).
-/
import NoirVerif.Lemmas.Start
import NoirVerif.Props.C06
namespace Noir.Start
open Noir.StartSpec

variable {α : Type}

/-! ### generic list helpers -/

theorem all_set_congr {β : Type} {f : β → Bool} {l : List β} {r : Nat} {p p' : β}
    (h : l[r]? = some p) (hf : f p' = f p) : (l.set r p').all f = l.all f := by
  induction l generalizing r with
  | nil => rfl
  | cons q qs ih =>
    cases r with
    | zero => simp at h; subst h; simp [hf]
    | succ r => simp at h; simp [ih h]

theorem mem_set_new {β : Type} {l : List β} {r : Nat} {p p' : β}
    (h : l[r]? = some p) : p' ∈ l.set r p' := by
  induction l generalizing r with
  | nil => simp at h
  | cons q qs ih =>
    cases r with
    | zero => simp
    | succ r => simp at h; simp [ih h]

/-! ### counting terminated replicas -/

/-- number of replicas that sent `Terminate` -/
def termdCount : List Rep → Nat
  | [] => 0
  | p :: ps => (if p.termd then 1 else 0) + termdCount ps

theorem termdCount_le (l : List Rep) : termdCount l ≤ l.length := by
  induction l with
  | nil => simp [termdCount]
  | cons p ps ih => simp only [termdCount, List.length_cons]; split <;> omega

theorem termdCount_eq_length {l : List Rep} : termdCount l = l.length ↔ l.all (·.termd) = true := by
  induction l with
  | nil => simp [termdCount]
  | cons p ps ih =>
    have := termdCount_le ps
    simp only [termdCount, List.length_cons, List.all_cons, Bool.and_eq_true]
    cases hp : p.termd
    · simp; omega
    · simp only [if_true, true_and]; rw [← ih]; omega

theorem termdCount_set {l : List Rep} {r : Nat} {p p' : Rep} (h : l[r]? = some p) :
    termdCount (l.set r p') + (if p.termd then 1 else 0) = termdCount l + (if p'.termd then 1 else 0) := by
  induction l generalizing r with
  | nil => simp at h
  | cons q qs ih =>
    cases r with
    | zero => simp at h; subst h; simp [termdCount]; omega
    | succ r =>
      simp at h
      have := ih h
      simp only [List.set_cons_succ, termdCount]
      omega

theorem termdCount_set_same {l : List Rep} {r : Nat} {p p' : Rep} (h : l[r]? = some p)
    (he : p'.termd = p.termd) : termdCount (l.set r p') = termdCount l := by
  have := termdCount_set (p' := p') h
  rw [he] at this; omega

theorem termdCount_reset (l : List Rep) :
    termdCount (l.map (fun p => ({ p with lw := none, ended := false, dirty := false } : Rep)))
      = termdCount l := by
  induction l with
  | nil => rfl
  | cons q qs ih => simp only [List.map_cons, termdCount, ih]

theorem termdCount_replicate (n : Nat) : termdCount (List.replicate n ({} : Rep)) = 0 := by
  induction n with
  | zero => rfl
  | succ n ih => simp [List.replicate_succ, termdCount, ih]

/-- `missing_terminate` counts exactly the replicas that have not sent `Terminate` -/
def RelT (s : State) (sp : InSt) : Prop := s.missingTerm + termdCount sp.reps = s.n

/-! ### an invariant of the input contract -/

structure SpecInv (sp : InSt) : Prop where
  /-- (d) not every replica has ended the current iteration (the reset is immediate) -/
  notAllEnded : endedCount sp.reps < sp.reps.length
  /-- (e) a replica terminated without having ended the iteration ⇒ we are between two iterations -/
  termdIdle : ∀ p ∈ sp.reps, p.termd = true → p.ended = false → idle sp = true
  /-- (b') a terminated replica has ended the iteration or an iteration is complete -/
  termdDone : ∀ p ∈ sp.reps, p.termd = true → p.ended = true ∨ 1 ≤ sp.completed

theorem specInv_init (n : Nat) (h : 0 < n) : SpecInv (InSt.init n) := by
  refine ⟨?_, ?_, ?_⟩
  · simp [InSt.init, endedCount_replicate]; exact h
  · intro p hp ht
    simp [InSt.init] at hp
    rw [hp.2] at ht; cases ht
  · intro p hp ht
    simp [InSt.init] at hp
    rw [hp.2] at ht; cases ht

theorem idle_resetIter (sp : InSt) : idle (resetIter sp) = true := by
  simp [idle, resetIter]

theorem exists_not_ended {l : List Rep} (h : endedCount l < l.length) : ∃ p ∈ l, p.ended = false := by
  induction l with
  | nil => simp at h
  | cons q qs ih =>
    cases hq : q.ended with
    | false => exact ⟨q, List.mem_cons_self, hq⟩
    | true =>
      simp only [endedCount, hq, if_true, List.length_cons] at h
      obtain ⟨p, hp, hpe⟩ := ih (by omega)
      exact ⟨p, List.mem_cons_of_mem _ hp, hpe⟩

/-! ### inversion of `inStep` -/

theorem inStep_term_inv {sp sp' : InSt} {r : Nat}
    (hin : inStep sp r (Elem.term : Elem α) = some sp') :
    ∃ p, sp.reps[r]? = some p ∧ p.termd = false ∧
      (p.ended = true ∨ (idle sp = true ∧ 1 ≤ sp.completed)) ∧
      sp' = { sp with reps := sp.reps.set r { p with termd := true } } := by
  unfold inStep at hin
  cases hp : sp.reps[r]? with
  | none => simp [hp] at hin
  | some p =>
    simp only [hp] at hin
    by_cases htd : p.termd = true
    · rw [if_pos htd] at hin; cases hin
    · rw [if_neg htd] at hin
      split at hin
      · rename_i hg
        cases hin
        refine ⟨p, rfl, by simpa using htd, ?_, rfl⟩
        simpa using hg
      · cases hin

theorem inStep_far_inv {sp sp' : InSt} {r : Nat}
    (hin : inStep sp r (Elem.far : Elem α) = some sp') :
    ∃ p, sp.reps[r]? = some p ∧ p.termd = false ∧ p.ended = false ∧
      (anyTermd sp && idle sp) = false ∧
      sp' = (if (sp.reps.set r { p with dirty := true, ended := true }).all (·.ended)
              then resetIter { sp with reps := sp.reps.set r { p with dirty := true, ended := true } }
              else { sp with reps := sp.reps.set r { p with dirty := true, ended := true } }) := by
  unfold inStep at hin
  cases hp : sp.reps[r]? with
  | none => simp [hp] at hin
  | some p =>
    simp only [hp] at hin
    by_cases htd : p.termd = true
    · rw [if_pos htd] at hin; cases hin
    · rw [if_neg htd] at hin
      split at hin
      · cases hin
      · rename_i hne
        have hg : p.ended = false ∧ (anyTermd sp && idle sp) = false := by
          cases h1 : p.ended <;> cases h2 : (anyTermd sp && idle sp) <;> simp [h1, h2] at hne ⊢
        refine ⟨p, rfl, by simpa using htd, hg.1, hg.2, ?_⟩
        split at hin
        · rename_i hall; cases hin; simp [hall]
        · rename_i hall; cases hin; simp [hall]

/-- a contract-respecting data element or watermark only marks its replica `dirty` -/
theorem inStep_data_inv {sp sp' : InSt} {r : Nat} {e : Elem α}
    (ht : e ≠ .term) (hf : e ≠ .far) (hin : inStep sp r e = some sp') :
    ∃ p p', sp.reps[r]? = some p ∧ p.termd = false ∧ p.ended = false ∧
      (anyTermd sp && idle sp) = false ∧
      p'.termd = false ∧ p'.ended = false ∧ p'.dirty = true ∧
      sp' = { sp with reps := sp.reps.set r p' } := by
  unfold inStep at hin
  cases hp : sp.reps[r]? with
  | none => simp [hp] at hin
  | some p =>
    simp only [hp] at hin
    by_cases htd : p.termd = true
    · rw [if_pos htd] at hin; cases hin
    · rw [if_neg htd] at hin
      have htd' : p.termd = false := by simpa using htd
      have guard : ∀ {b : Bool}, ¬ ((p.ended || b) = true) → p.ended = false ∧ b = false := by
        intro b hne
        cases h1 : p.ended <;> cases h2 : b <;> simp [h1, h2] at hne ⊢
      cases e with
      | flushBatch => simp at hin
      | term => exact absurd rfl ht
      | far => exact absurd rfl hf
      | item a =>
        simp only at hin
        split at hin
        · cases hin
        · rename_i hne
          cases hin
          exact ⟨p, { p with dirty := true }, rfl, htd', (guard hne).1, (guard hne).2, htd', (guard hne).1, rfl, rfl⟩
      | ts a t =>
        simp only at hin
        split at hin
        · cases hin
        · rename_i hne
          split at hin
          · cases hin
            exact ⟨p, { p with dirty := true }, rfl, htd', (guard hne).1, (guard hne).2, htd', (guard hne).1, rfl, rfl⟩
          · cases hin
      | wm t =>
        simp only at hin
        split at hin
        · cases hin
        · rename_i hne
          split at hin
          · cases hin
            exact ⟨p, { p with dirty := true, lw := some t }, rfl, htd', (guard hne).1, (guard hne).2, htd', (guard hne).1, rfl, rfl⟩
          · cases hin

/-- nothing is accepted from anybody once every replica terminated -/
theorem complete_inStep_none {sp : InSt} (hc : complete sp = true) (r : Nat) (e : Elem α) :
    inStep sp r e = none := by
  unfold inStep
  cases hp : sp.reps[r]? with
  | none => rfl
  | some p =>
    have : p.termd = true := by
      unfold complete at hc
      rw [List.all_eq_true] at hc
      exact hc p (List.mem_of_getElem? hp)
    simp [this]

theorem complete_inStateAfter {sp : InSt} (hc : complete sp = true) (l : List (Nat × Elem α)) :
    inStateAfter sp l = sp := by
  cases l with
  | nil => rfl
  | cons a l =>
    obtain ⟨r, e⟩ := a
    simp only [inStateAfter, complete_inStep_none hc]

/-! ### the contract invariant is preserved -/

theorem specInv_step {sp sp' : InSt} {r : Nat} {e : Elem α}
    (inv : SpecInv sp) (hin : inStep sp r e = some sp') : SpecInv sp' := by
  by_cases ht : e = .term
  · subst ht
    obtain ⟨p, hp, htd, hg, rfl⟩ := inStep_term_inv hin
    have hidle : idle ({ sp with reps := sp.reps.set r { p with termd := true } } : InSt) = idle sp := by
      unfold idle; exact all_set_congr hp rfl
    refine ⟨?_, ?_, ?_⟩
    · simp only [List.length_set]
      rw [endedCount_set_same (p' := { p with termd := true }) hp rfl]; exact inv.notAllEnded
    · intro q hq htq heq
      rw [hidle]
      rcases List.mem_or_eq_of_mem_set hq with h | h
      · exact inv.termdIdle q h htq heq
      · subst h
        rcases hg with hg | hg
        · simp only at heq; rw [hg] at heq; cases heq
        · exact hg.1
    · intro q hq htq
      rcases List.mem_or_eq_of_mem_set hq with h | h
      · exact inv.termdDone q h htq
      · subst h
        rcases hg with hg | hg
        · exact Or.inl hg
        · exact Or.inr hg.2
  · -- in the remaining cases nobody becomes `termd`, and a `termd`, not-ended replica of the old
    -- state contradicts the guard `anyTermd ∧ idle`
    have old_termd : ∀ {p' : Rep} {reps : List Rep}, p'.termd = false →
        (anyTermd sp && idle sp) = false →
        ∀ q, q ∈ sp.reps.set r p' → q.termd = true → q ∈ sp.reps ∧ (q.ended = false → False) := by
      intro p' reps hp't hguard q hq htq
      rcases List.mem_or_eq_of_mem_set hq with h | h
      · refine ⟨h, fun heq => ?_⟩
        have h1 := inv.termdIdle q h htq heq
        have h2 : anyTermd sp = true := List.any_eq_true.mpr ⟨q, h, htq⟩
        rw [h1, h2] at hguard; cases hguard
      · subst h; rw [hp't] at htq; cases htq
    by_cases hf : e = .far
    · subst hf
      obtain ⟨p, hp, htd, hpe, hguard, rfl⟩ := inStep_far_inv hin
      by_cases hall : (sp.reps.set r { p with dirty := true, ended := true }).all (·.ended) = true
      · rw [if_pos hall]
        refine ⟨?_, ?_, ?_⟩
        · simp only [resetIter, List.length_map, List.length_set]
          rw [endedCount_reset]
          have := inv.notAllEnded; omega
        · intro q _ _ _; exact idle_resetIter _
        · intro q _ _; right; simp [resetIter]
      · rw [if_neg hall]
        refine ⟨?_, ?_, ?_⟩
        · simp only
          have hle := endedCount_le (sp.reps.set r { p with dirty := true, ended := true })
          have hne : endedCount (sp.reps.set r { p with dirty := true, ended := true }) ≠
              (sp.reps.set r { p with dirty := true, ended := true }).length :=
            fun h => hall (endedCount_eq_length.mp h)
          omega
        · intro q hq htq heq
          exact ((old_termd (reps := sp.reps) (by simpa using htd) hguard q hq htq).2 heq).elim
        · intro q hq htq
          have hq' := (old_termd (reps := sp.reps) (by simpa using htd) hguard q hq htq)
          cases hqe : q.ended with
          | true => exact Or.inl rfl
          | false => exact (hq'.2 hqe).elim
    · obtain ⟨p, p', hp, htd, hpe, hguard, hp't, hp'e, hp'd, rfl⟩ := inStep_data_inv ht hf hin
      refine ⟨?_, ?_, ?_⟩
      · simp only [List.length_set]
        rw [endedCount_set_same hp (by rw [hp'e, hpe])]; exact inv.notAllEnded
      · intro q hq htq heq
        exact ((old_termd (reps := sp.reps) hp't hguard q hq htq).2 heq).elim
      · intro q hq htq
        have hq' := (old_termd (reps := sp.reps) hp't hguard q hq htq)
        cases hqe : q.ended with
        | true => exact Or.inl rfl
        | false => exact (hq'.2 hqe).elim

/-- once every replica terminated, the input is between two iterations and at least one iteration
    has been completed -/
theorem all_termd_idle {sp : InSt} (inv : SpecInv sp) (hc : complete sp = true) :
    idle sp = true ∧ 1 ≤ sp.completed := by
  obtain ⟨q, hq, hqe⟩ := exists_not_ended inv.notAllEnded
  have hqt : q.termd = true := by
    unfold complete at hc
    rw [List.all_eq_true] at hc
    exact hc q hq
  refine ⟨inv.termdIdle q hq hqt hqe, ?_⟩
  rcases inv.termdDone q hq hqt with h | h
  · rw [hqe] at h; cases h
  · exact h

theorem inStep_length {sp sp' : InSt} {r : Nat} {e : Elem α} (hin : inStep sp r e = some sp') :
    sp'.reps.length = sp.reps.length := by
  by_cases ht : e = .term
  · subst ht
    obtain ⟨p, _, _, _, rfl⟩ := inStep_term_inv hin
    simp
  · by_cases hf : e = .far
    · subst hf
      obtain ⟨p, _, _, _, _, rfl⟩ := inStep_far_inv hin
      split <;> simp [resetIter]
    · obtain ⟨p, p', _, _, _, _, _, _, _, rfl⟩ := inStep_data_inv ht hf hin
      simp

/-! ### grammar state -/

/-- the `afterFar` flag of `grammarGo` after a list (`term` leaves it unchanged) -/
def gAfter : Bool → List (Elem α) → Bool
  | g, [] => g
  | _, Elem.far :: rest => gAfter true rest
  | g, Elem.term :: rest => gAfter g rest
  | _, _ :: rest => gAfter false rest

theorem grammarGo_append_termfree (g : Bool) (l1 l2 : List (Elem α))
    (h : ∀ e ∈ l1, e ≠ Elem.term) : grammarGo g (l1 ++ l2) = grammarGo (gAfter g l1) l2 := by
  induction l1 generalizing g with
  | nil => rfl
  | cons e es ih =>
    have hes : ∀ x ∈ es, x ≠ Elem.term := fun x hx => h x (List.mem_cons_of_mem _ hx)
    cases e with
    | term => exact absurd rfl (h _ List.mem_cons_self)
    | item a => simp only [List.cons_append, grammarGo, gAfter]; exact ih false hes
    | ts a t => simp only [List.cons_append, grammarGo, gAfter]; exact ih false hes
    | wm t => simp only [List.cons_append, grammarGo, gAfter]; exact ih false hes
    | flushBatch => simp only [List.cons_append, grammarGo, gAfter]; exact ih false hes
    | far => simp only [List.cons_append, grammarGo, gAfter]; exact ih true hes

/-- number of `FlushAndRestart` in a list -/
def farCount (l : List (Elem α)) : Nat := l.countP Elem.isFar

theorem farCount_append (l1 l2 : List (Elem α)) : farCount (l1 ++ l2) = farCount l1 + farCount l2 := by
  simp [farCount, List.countP_append]

/-- link between the contract state and the grammar state of the output so far: between two
    iterations (after the first) the last thing emitted is a `FlushAndRestart` -/
def Ginv (sp : InSt) (g : Bool) : Prop := idle sp = true → 1 ≤ sp.completed → g = true

/-! ### output of one step of the model -/

/-- data, watermark, (upstream) `FlushBatch`: the counters are untouched, no marker is emitted -/
theorem step_nonmarker {s : State} (hT : s.missingTerm ≠ 0) (r : Nat) {e : Elem α}
    (ht : e ≠ .term) (hf : e ≠ .far) :
    (step s (.elem r e)).1.missingTerm = s.missingTerm ∧ (step s (.elem r e)).1.n = s.n ∧
    ∀ x ∈ (step s (.elem r e)).2, x ≠ .term ∧ x ≠ .far := by
  cases e with
  | term => exact absurd rfl ht
  | far => exact absurd rfl hf
  | item a => simp only [step, hT, if_false]; cases s.pending <;> simp
  | ts a t => simp only [step, hT, if_false]; cases s.pending <;> simp
  | flushBatch => simp only [step, hT, if_false]; cases s.pending <;> simp
  | wm t =>
    simp only [step, hT, if_false]
    rcases hu : s.frontier.update r t with ⟨f, o⟩
    cases o <;> simp

/-- `Terminate` of one replica -/
theorem step_term {s : State} {sp : InSt} {outW : Option Int} (rel : Rel s sp outW)
    (hT : s.missingTerm ≠ 0) (r : Nat) :
    (step s (.elem r (Elem.term : Elem α))).1.missingTerm = s.missingTerm - 1 ∧
    (step s (.elem r (Elem.term : Elem α))).1.n = s.n ∧
    (step s (.elem r (Elem.term : Elem α))).2 = if s.missingTerm - 1 = 0 then [.term] else [] := by
  have hfp := rel.farPos
  have hfp' : s.missingFar ≠ 0 := by omega
  simp only [step, hT, if_false, afterCounters]
  by_cases h0 : s.missingTerm - 1 = 0
  · simp [h0]
  · simp [h0, hfp']

/-- `FlushAndRestart` of one replica: `FlushAndRestart` is emitted iff it is the last one of the
    iteration -/
theorem step_far {s : State} {sp : InSt} {outW : Option Int} {r : Nat} {p : Rep}
    (rel : Rel s sp outW) (hT : s.missingTerm ≠ 0) (hp : sp.reps[r]? = some p)
    (hpe : p.ended = false) :
    (step s (.elem r (Elem.far : Elem α))).1.missingTerm = s.missingTerm ∧
    (step s (.elem r (Elem.far : Elem α))).1.n = s.n ∧
    (step s (.elem r (Elem.far : Elem α))).2 =
      if (sp.reps.set r { p with dirty := true, ended := true }).all (·.ended) then [.far] else [] := by
  have hcnt := endedCount_set (p' := { p with dirty := true, ended := true }) hp
  rw [hpe] at hcnt
  simp only [Bool.false_eq_true, if_false, Nat.add_zero, if_true] at hcnt
  have hfar := rel.far
  have hfp := rel.farPos
  have hlen : (sp.reps.set r { p with dirty := true, ended := true }).length = s.n := by
    simp [rel.len]
  have hle := endedCount_le (sp.reps.set r { p with dirty := true, ended := true })
  simp only [step, hT, if_false]
  rcases hu : s.frontier.update r TS_MAX with ⟨f, o⟩
  simp only [afterCounters, hT, if_false]
  by_cases hall : (sp.reps.set r { p with dirty := true, ended := true }).all (·.ended) = true
  · have hc := endedCount_eq_length.mpr hall
    have h0 : s.missingFar - 1 = 0 := by omega
    simp [h0, hall]
  · have hc : endedCount (sp.reps.set r { p with dirty := true, ended := true }) ≠ s.n := by
      rw [← hlen]; intro h; exact hall (endedCount_eq_length.mp h)
    have h0 : s.missingFar - 1 ≠ 0 := by omega
    simp [h0, hall]

/-! ### the combined invariant and its step -/

structure Inv (s : State) (sp : InSt) : Prop where
  rel : ∃ outW, Rel s sp outW
  relT : RelT s sp
  spec : SpecInv sp

theorem inv_init (n : Nat) (h : 0 < n) : Inv (init n) (InSt.init n) :=
  ⟨⟨none, rel_init n h⟩, by simp [RelT, init, InSt.init, termdCount_replicate], specInv_init n h⟩

/-- a live `Start` (not yet terminated) has not received every `Terminate` -/
theorem not_complete_of_live {s : State} {sp : InSt} (inv : Inv s sp) (hT : s.missingTerm ≠ 0) :
    complete sp = false := by
  obtain ⟨outW, rel⟩ := inv.rel
  cases hc : complete sp with
  | false => rfl
  | true =>
    have := termdCount_eq_length.mpr hc
    have := inv.relT; have := rel.len
    unfold RelT at *; omega

/-- Everything the trace theorems need to know about one contract-respecting arrival. -/
theorem step_facts {s : State} {sp sp' : InSt} {r : Nat} {e : Elem α}
    (inv : Inv s sp) (hT : s.missingTerm ≠ 0) (hin : inStep sp r e = some sp') :
    sp.completed + farCount (step s (.elem r e)).2 = sp'.completed ∧
    (∀ g, Ginv sp g → Ginv sp' (gAfter g (step s (.elem r e)).2)) ∧
    (((step s (.elem r e)).1.missingTerm ≠ 0 ∧ Inv (step s (.elem r e)).1 sp' ∧
        ∀ x ∈ (step s (.elem r e)).2, x ≠ .term) ∨
     ((step s (.elem r e)).1.missingTerm = 0 ∧ (step s (.elem r e)).2 = [.term] ∧
        complete sp' = true ∧ SpecInv sp')) := by
  obtain ⟨outW, rel⟩ := inv.rel
  have hspec' := specInv_step inv.spec hin
  have hlen' := inStep_length hin
  have hrelT := inv.relT
  unfold RelT at hrelT
  -- the last component, from `RelT` for the new states and the shape of the output
  have fin : ∀ (hn : (step s (.elem r e)).1.n = s.n)
      (hT' : RelT (step s (.elem r e)).1 sp')
      (hout : ((step s (.elem r e)).1.missingTerm ≠ 0 ∧ ∀ x ∈ (step s (.elem r e)).2, x ≠ .term) ∨
              ((step s (.elem r e)).1.missingTerm = 0 ∧ (step s (.elem r e)).2 = [.term])),
      (((step s (.elem r e)).1.missingTerm ≠ 0 ∧ Inv (step s (.elem r e)).1 sp' ∧
          ∀ x ∈ (step s (.elem r e)).2, x ≠ .term) ∨
       ((step s (.elem r e)).1.missingTerm = 0 ∧ (step s (.elem r e)).2 = [.term] ∧
          complete sp' = true ∧ SpecInv sp')) := by
    intro hn hT' hout
    rcases hout with ⟨h1, h2⟩ | ⟨h1, h2⟩
    · left
      refine ⟨h1, ⟨?_, hT', hspec'⟩, h2⟩
      exact ⟨_, (step_ok rel hT hin).2.resolve_left h1⟩
    · right
      refine ⟨h1, h2, ?_, hspec'⟩
      unfold complete
      apply termdCount_eq_length.mp
      unfold RelT at hT'
      have := rel.len
      omega
  by_cases ht : e = .term
  · subst ht
    obtain ⟨p, hp, htd, hg, hsp'⟩ := inStep_term_inv hin
    obtain ⟨h1, h2, h3⟩ := step_term (α := α) rel hT r
    have hcnt := termdCount_set (p' := { p with termd := true }) hp
    rw [htd] at hcnt
    simp only [Bool.false_eq_true, if_false, Nat.add_zero, if_true] at hcnt
    have hcomp : sp'.completed = sp.completed := by rw [hsp']
    have hidle : idle sp' = idle sp := by
      rw [hsp']; unfold idle; exact all_set_congr hp rfl
    have hT' : RelT (step s (.elem r (Elem.term : Elem α))).1 sp' := by
      unfold RelT; rw [h1, h2, hsp']; simp only; omega
    refine ⟨?_, ?_, fin h2 hT' ?_⟩
    · rw [h3, hcomp]; split <;> simp [farCount, Elem.isFar]
    · intro g hg0
      have : gAfter g (step s (.elem r (Elem.term : Elem α))).2 = g := by
        rw [h3]; split <;> simp [gAfter]
      rw [this]
      intro hi hc; rw [hidle] at hi; rw [hcomp] at hc; exact hg0 hi hc
    · rw [h1, h3]
      by_cases h0 : s.missingTerm - 1 = 0
      · right; simp [h0]
      · left; simp [h0]
  · by_cases hf : e = .far
    · subst hf
      obtain ⟨p, hp, htd, hpe, hguard, hsp'⟩ := inStep_far_inv hin
      obtain ⟨h1, h2, h3⟩ := step_far (α := α) rel hT hp hpe
      have hcnt := termdCount_set_same (p' := { p with dirty := true, ended := true }) hp rfl
      have hT'' : (step s (.elem r (Elem.far : Elem α))).1.missingTerm ≠ 0 := by rw [h1]; exact hT
      by_cases hall : (sp.reps.set r { p with dirty := true, ended := true }).all (·.ended) = true
      · rw [if_pos hall] at hsp' h3
        have hT' : RelT (step s (.elem r (Elem.far : Elem α))).1 sp' := by
          unfold RelT; rw [h1, h2, hsp']; simp only [resetIter]; rw [termdCount_reset]; omega
        refine ⟨?_, ?_, fin h2 hT' (Or.inl ⟨hT'', ?_⟩)⟩
        · rw [h3, hsp']; simp [farCount, Elem.isFar, resetIter]
        · intro g _ _ _; rw [h3]; simp [gAfter]
        · rw [h3]; simp
      · rw [if_neg hall] at hsp' h3
        have hT' : RelT (step s (.elem r (Elem.far : Elem α))).1 sp' := by
          unfold RelT; rw [h1, h2, hsp']; simp only; omega
        refine ⟨?_, ?_, fin h2 hT' (Or.inl ⟨hT'', ?_⟩)⟩
        · rw [h3, hsp']; simp [farCount]
        · intro g _ hi _
          -- the replica that just ended is not idle
          exfalso
          rw [hsp'] at hi
          unfold idle at hi
          rw [List.all_eq_true] at hi
          have := hi _ (mem_set_new (p' := ({ p with dirty := true, ended := true } : Rep)) hp)
          simp at this
        · rw [h3]; simp
    · obtain ⟨p, p', hp, htd, hpe, hguard, hp't, hp'e, hp'd, hsp'⟩ := inStep_data_inv ht hf hin
      obtain ⟨h1, h2, h3⟩ := step_nonmarker (α := α) hT r ht hf
      have hcnt := termdCount_set_same (p' := p') hp (by rw [hp't, htd])
      have hT'' : (step s (.elem r e)).1.missingTerm ≠ 0 := by rw [h1]; exact hT
      have hT' : RelT (step s (.elem r e)).1 sp' := by
        unfold RelT; rw [h1, h2, hsp']; simp only; omega
      refine ⟨?_, ?_, fin h2 hT' (Or.inl ⟨hT'', fun x hx => (h3 x hx).1⟩)⟩
      · have : farCount (step s (.elem r e)).2 = 0 := by
          unfold farCount
          rw [List.countP_eq_zero]
          intro x hx
          have := (h3 x hx).2
          cases x <;> simp [Elem.isFar] at this ⊢
        rw [this, hsp']; rfl
      · intro g _ hi _
        exfalso
        rw [hsp'] at hi
        unfold idle at hi
        rw [List.all_eq_true] at hi
        have := hi _ (mem_set_new (p' := p') hp)
        simp [hp'd] at this

/-! ### arrival sequences with receive timeouts -/

/-- No receive timeout fires while the input is between two iterations after the first one
    (i.e. possibly between the last `FlushAndRestart` and the `Terminate`s). Sufficient — not
    necessary — for the output to match the grammar; see `start_timeout_before_term_counterexample`
    in Props/C05Start.lean for what happens otherwise. -/
def noIdleTimeout (sp : InSt) : List (Arrival α) → Bool
  | [] => true
  | .timeout :: as => !(idle sp && decide (1 ≤ sp.completed)) && noIdleTimeout sp as
  | .elem r e :: as =>
    match inStep sp r e with
    | some sp' => noIdleTimeout sp' as
    | none => true

/-- an arrival sequence without timeouts -/
def ofElems (arr : List (Nat × Elem α)) : List (Arrival α) := arr.map (fun p => Arrival.elem p.1 p.2)

theorem elemsOf_ofElems (arr : List (Nat × Elem α)) : elemsOf (ofElems arr) = arr := by
  induction arr with
  | nil => rfl
  | cons a arr ih => obtain ⟨r, e⟩ := a; simp only [ofElems, List.map_cons, elemsOf] at ih ⊢; rw [ih]

theorem noIdleTimeout_ofElems (arr : List (Nat × Elem α)) (sp : InSt) :
    noIdleTimeout sp (ofElems arr) = true := by
  induction arr generalizing sp with
  | nil => rfl
  | cons a arr ih =>
    obtain ⟨r, e⟩ := a
    simp only [ofElems, List.map_cons, noIdleTimeout]
    cases inStep sp r e with
    | none => rfl
    | some sp' => exact ih sp'

/-! ### the master induction -/

/-- a receive timeout keeps the combined invariant; its output is the fake `FlushBatch`, preceded by
    the pending announcement if there is one -/
theorem inv_timeout {s : State} {sp : InSt} (inv : Inv s sp) (hT : s.missingTerm ≠ 0) :
    Inv (step s (Arrival.timeout : Arrival α)).1 sp ∧
    (step s (Arrival.timeout : Arrival α)).1.missingTerm ≠ 0 ∧
    ∃ pre, (step s (Arrival.timeout : Arrival α)).2 = pre ++ [.flushBatch] ∧
      (pre = [] ∨ ∃ p, pre = [.wm p]) := by
  obtain ⟨outW, rel⟩ := inv.rel
  obtain ⟨_, hmt, rel'⟩ := timeout_ok (α := α) rel hT
  have hn : (step s (Arrival.timeout : Arrival α)).1.n = s.n := by
    simp only [step, hT, if_false]; cases s.pending <;> rfl
  refine ⟨⟨⟨_, rel'⟩, ?_, inv.spec⟩, by rw [hmt]; exact hT, ?_⟩
  · have := inv.relT; unfold RelT at *; rw [hmt, hn]; exact this
  · simp only [step, hT, if_false]
    cases s.pending with
    | none => exact ⟨[], rfl, Or.inl rfl⟩
    | some p => exact ⟨[.wm p], rfl, Or.inr ⟨p, rfl⟩⟩

theorem master (as : List (Arrival α)) : ∀ (s : State) (sp : InSt),
    Inv s sp → s.missingTerm ≠ 0 → inputOkFrom sp (elemsOf as) = true →
    sp.completed + farCount (outs s as) = (inStateAfter sp (elemsOf as)).completed ∧
    (complete (inStateAfter sp (elemsOf as)) = true →
      (∃ pre, outs s as = pre ++ [.term] ∧ ∀ x ∈ pre, x ≠ .term) ∧
      (∀ g, Ginv sp g → noIdleTimeout sp as = true → grammarGo g (outs s as) = true)) ∧
    (complete (inStateAfter sp (elemsOf as)) = false → ∀ x ∈ outs s as, x ≠ .term) := by
  induction as with
  | nil =>
    intro s sp inv hT _
    have hnc := not_complete_of_live inv hT
    simp only [elemsOf, inStateAfter]
    refine ⟨by simp [outs, runFrom, farCount], fun h => ?_, fun _ x hx => ?_⟩
    · rw [hnc] at h; cases h
    · simp [outs, runFrom] at hx
  | cons a as ih =>
    intro s sp inv hT hok
    rw [outs_cons]
    cases a with
    | timeout =>
      obtain ⟨inv', hT', pre0, hout, hpre0⟩ := inv_timeout (α := α) inv hT
      have hfree0 : ∀ x ∈ (step s (Arrival.timeout : Arrival α)).2, x ≠ Elem.term ∧ x ≠ Elem.far := by
        intro x hx
        rw [hout] at hx
        rcases hpre0 with h | ⟨p, h⟩ <;> subst h <;> simp at hx
        · rw [hx]; exact ⟨(by intro h'; cases h'), (by intro h'; cases h')⟩
        · rcases hx with hx | hx <;> rw [hx] <;> exact ⟨(by intro h'; cases h'), (by intro h'; cases h')⟩
      have hfc : farCount (step s (Arrival.timeout : Arrival α)).2 = 0 := by
        rw [hout]; rcases hpre0 with h | ⟨p, h⟩ <;> subst h <;> simp [farCount, Elem.isFar]
      have hga : ∀ g, gAfter g (step s (Arrival.timeout : Arrival α)).2 = false := by
        intro g; rw [hout]; rcases hpre0 with h | ⟨p, h⟩ <;> subst h <;> simp [gAfter]
      simp only [elemsOf] at hok ⊢
      obtain ⟨h1, h2, h3⟩ := ih _ sp inv' hT' hok
      refine ⟨?_, ?_, ?_⟩
      · rw [farCount_append, hfc]; simpa using h1
      · intro hc
        obtain ⟨⟨pre, hpre, hfree⟩, hg⟩ := h2 hc
        refine ⟨⟨(step s (Arrival.timeout : Arrival α)).2 ++ pre, by simp [hpre], ?_⟩, ?_⟩
        · intro x hx
          rcases List.mem_append.mp hx with h | h
          · exact (hfree0 x h).1
          · exact hfree x h
        · intro g _ hno
          simp only [noIdleTimeout, Bool.and_eq_true, Bool.not_eq_true'] at hno
          rw [grammarGo_append_termfree g _ _ (fun x hx => (hfree0 x hx).1), hga]
          apply hg false ?_ hno.2
          intro hi hc'
          have := hno.1
          simp [hi, hc'] at this
      · intro hc x hx
        rcases List.mem_append.mp hx with h | h
        · exact (hfree0 x h).1
        · exact h3 hc x h
    | elem r e =>
      simp only [elemsOf, inputOkFrom] at hok
      cases hs : inStep sp r e with
      | none => rw [hs] at hok; cases hok
      | some sp' =>
        rw [hs] at hok
        simp only [elemsOf, inStateAfter, hs, noIdleTimeout]
        obtain ⟨hcnt, hgstep, hcase⟩ := step_facts inv hT hs
        rcases hcase with ⟨hT', inv', hfree⟩ | ⟨hT', hout, hcomp, hspec'⟩
        · obtain ⟨h1, h2, h3⟩ := ih _ sp' inv' hT' hok
          refine ⟨?_, ?_, ?_⟩
          · rw [farCount_append]; omega
          · intro hc
            obtain ⟨⟨pre, hpre, hprefree⟩, hg⟩ := h2 hc
            refine ⟨⟨(step s (.elem r e)).2 ++ pre, by rw [hpre, List.append_assoc], ?_⟩, ?_⟩
            · intro x hx
              rcases List.mem_append.mp hx with h | h
              · exact hfree x h
              · exact hprefree x h
            · intro g hg0 hno
              rw [grammarGo_append_termfree g _ _ hfree]
              exact hg _ (hgstep g hg0) hno
          · intro hc x hx
            rcases List.mem_append.mp hx with h | h
            · exact hfree x h
            · exact h3 hc x h
        · -- this arrival is the last `Terminate`: the Start terminates
          rw [outs_terminated _ hT', hout, complete_inStateAfter hcomp]
          rw [hout] at hcnt hgstep
          refine ⟨?_, ?_, ?_⟩
          · simpa [farCount_append] using hcnt
          · intro _
            refine ⟨⟨[], rfl, fun x hx => nomatch hx⟩, ?_⟩
            intro g hg0 _
            have hg' := hgstep g hg0
            simp only [gAfter] at hg'
            obtain ⟨hi, hc⟩ := all_termd_idle hspec' hcomp
            simp only [List.append_nil, grammarGo]
            exact hg' hi hc
          · intro hc; rw [hcomp] at hc; cases hc

/-! ### which arrival emits a `FlushAndRestart` -/

theorem all_set_iff {β : Type} {f : β → Bool} {l : List β} {r : Nat} {p p' : β}
    (h : l[r]? = some p) (hf : f p' = true) :
    (l.set r p').all f = true ↔ ∀ i q, i ≠ r → l[i]? = some q → f q = true := by
  induction l generalizing r with
  | nil => simp at h
  | cons x xs ih =>
    cases r with
    | zero =>
      simp only [List.set_cons_zero, List.all_cons, hf, Bool.true_and, List.all_eq_true]
      constructor
      · intro hall i q hi hq
        cases i with
        | zero => exact absurd rfl hi
        | succ i => simp at hq; exact hall q (List.mem_of_getElem? hq)
      · intro hall q hq
        obtain ⟨i, hi⟩ := List.getElem?_of_mem hq
        exact hall (i + 1) q (by omega) (by simpa using hi)
    | succ r =>
      simp at h
      simp only [List.set_cons_succ, List.all_cons, Bool.and_eq_true, ih h]
      constructor
      · rintro ⟨hx, hall⟩ i q hi hq
        cases i with
        | zero => simp at hq; subst hq; exact hx
        | succ i => simp at hq; exact hall i q (by omega) hq
      · intro hall
        exact ⟨hall 0 x (by omega) (by simp),
          fun i q hi hq => hall (i + 1) q (by omega) (by simpa using hq)⟩

/-- an arrival completes at most one iteration -/
theorem inStep_completed {sp sp' : InSt} {r : Nat} {e : Elem α} (hin : inStep sp r e = some sp') :
    sp'.completed = sp.completed ∨ sp'.completed = sp.completed + 1 := by
  by_cases ht : e = .term
  · subst ht
    obtain ⟨p, _, _, _, rfl⟩ := inStep_term_inv hin
    exact Or.inl rfl
  · by_cases hf : e = .far
    · subst hf
      obtain ⟨p, _, _, _, _, rfl⟩ := inStep_far_inv hin
      split
      · exact Or.inr rfl
      · exact Or.inl rfl
    · obtain ⟨p, p', _, _, _, _, _, _, _, rfl⟩ := inStep_data_inv ht hf hin
      exact Or.inl rfl

/-- the arrival indices at which the *contract* completes an iteration, i.e. at which the
    `FlushAndRestart` of the last replica still missing for the iteration arrives -/
def completionIdx (sp : InSt) (i : Nat) : List (Arrival α) → List Nat
  | [] => []
  | .timeout :: as => completionIdx sp (i + 1) as
  | .elem r e :: as =>
    match inStep sp r e with
    | some sp' => (if sp.completed < sp'.completed then [i] else []) ++ completionIdx sp' (i + 1) as
    | none => []

/-- the arrival indices to which the model attributes its `FlushAndRestart` outputs -/
def farIdx (l : List (Nat × Elem α)) : List Nat := (l.filter (fun p => p.2.isFar)).map (·.1)

theorem farIdx_append (l1 l2 : List (Nat × Elem α)) : farIdx (l1 ++ l2) = farIdx l1 ++ farIdx l2 := by
  simp [farIdx]

theorem farIdx_tag (i : Nat) (out : List (Elem α)) :
    farIdx (out.map (fun e => (i, e))) = List.replicate (farCount out) i := by
  induction out with
  | nil => rfl
  | cons e es ih =>
    have hc : farCount (e :: es) = farCount es + (if e.isFar then 1 else 0) := by
      unfold farCount; rw [List.countP_cons]
    have hf : farIdx ((e :: es).map (fun e => (i, e))) =
        (if e.isFar then [i] else []) ++ farIdx (es.map (fun e => (i, e))) := by
      cases e <;> rfl
    rw [hc, hf, ih]
    cases e <;> simp [Elem.isFar, List.replicate_succ]

theorem runFrom_cons (s : State) (i : Nat) (a : Arrival α) (as : List (Arrival α)) :
    runFrom s i (a :: as) = (step s a).2.map (fun e => (i, e)) ++ runFrom (step s a).1 (i + 1) as := rfl

theorem runFrom_terminated (s : State) (h : s.missingTerm = 0) (i : Nat) (as : List (Arrival α)) :
    runFrom s i as = [] := by
  have := outs_terminated s h as
  rw [← runFrom_map_snd s i] at this
  exact List.map_eq_nil_iff.mp this

theorem completionIdx_complete {sp : InSt} (hc : complete sp = true) (i : Nat) (as : List (Arrival α)) :
    completionIdx sp i as = [] := by
  induction as generalizing i with
  | nil => rfl
  | cons a as ih =>
    cases a with
    | timeout => simp only [completionIdx]; exact ih (i + 1)
    | elem r e => simp only [completionIdx, complete_inStep_none hc]

theorem far_positions (as : List (Arrival α)) : ∀ (s : State) (sp : InSt) (i : Nat),
    Inv s sp → s.missingTerm ≠ 0 → inputOkFrom sp (elemsOf as) = true →
    farIdx (runFrom s i as) = completionIdx sp i as := by
  induction as with
  | nil => intro s sp i _ _ _; rfl
  | cons a as ih =>
    intro s sp i inv hT hok
    rw [runFrom_cons, farIdx_append, farIdx_tag]
    cases a with
    | timeout =>
      obtain ⟨inv', hT', pre0, hout, hpre0⟩ := inv_timeout (α := α) inv hT
      have hfc : farCount (step s (Arrival.timeout : Arrival α)).2 = 0 := by
        rw [hout]; rcases hpre0 with h | ⟨p, h⟩ <;> subst h <;> simp [farCount, Elem.isFar]
      simp only [elemsOf] at hok
      simp only [completionIdx]
      rw [ih _ sp (i + 1) inv' hT' hok, hfc]
      simp
    | elem r e =>
      simp only [elemsOf, inputOkFrom] at hok
      cases hs : inStep sp r e with
      | none => rw [hs] at hok; cases hok
      | some sp' =>
        rw [hs] at hok
        simp only [completionIdx, hs]
        obtain ⟨hcnt, _, hcase⟩ := step_facts inv hT hs
        have hhead : List.replicate (farCount (step s (.elem r e)).2) i =
            (if sp.completed < sp'.completed then [i] else []) := by
          rcases inStep_completed hs with h | h
          · have h0 : farCount (step s (.elem r e)).2 = 0 := by omega
            have hlt : ¬ sp.completed < sp'.completed := by omega
            rw [h0, if_neg hlt]; rfl
          · have h1 : farCount (step s (.elem r e)).2 = 1 := by omega
            have hlt : sp.completed < sp'.completed := by omega
            rw [h1, if_pos hlt]; rfl
        rw [hhead]
        congr 1
        rcases hcase with ⟨hT', inv', _⟩ | ⟨hT', _, hcomp, _⟩
        · exact ih _ sp' (i + 1) inv' hT' hok
        · rw [runFrom_terminated _ hT', completionIdx_complete hcomp]; rfl

end Noir.Start
