/-
  Lemmas/JoinShip.lean — specification-level facts behind the two ship strategies of `join_with`
  (src/operator/join/ship.rs): hash both sides (`NextStrategy::group_by(keyer)` on both inputs, ship.rs:76-77)
  and forward-left / broadcast-right (`NextStrategy::only_one()`, `NextStrategy::all()`, ship.rs:127-132).
-/
import NoirVerif.Lemmas.HashJoin
namespace Noir.Join

section Generic
variable {γ δ : Type}

theorem perm_flatMap_pointwise (l : List γ) (f g : γ → List δ) (h : ∀ a ∈ l, (f a).Perm (g a)) :
    (l.flatMap f).Perm (l.flatMap g) := by
  induction l with
  | nil => simp
  | cons a l ih =>
    simp only [List.flatMap_cons]
    exact (h a (by simp)).append (ih fun b hb => h b (by simp [hb]))

theorem flatMap_congr_mem (l : List γ) (f g : γ → List δ) (h : ∀ a ∈ l, f a = g a) :
    l.flatMap f = l.flatMap g := by
  induction l with
  | nil => simp
  | cons a l ih =>
    simp only [List.flatMap_cons]
    rw [h a (by simp), ih fun b hb => h b (by simp [hb])]

theorem flatten_flatMap' (parts : List (List γ)) (f : γ → List δ) :
    parts.flatten.flatMap f = parts.flatMap fun P => P.flatMap f := by
  induction parts with
  | nil => simp
  | cons P parts ih => simp [List.flatMap_append, ih]

end Generic

variable {κ α β : Type} [DecidableEq κ] (kl : α → κ) (kr : β → κ)

/-! ### congruence of the spec in the "other" argument -/

theorem pairs_congr_right (L : List α) (R1 R2 : List β)
    (h : ∀ l ∈ L, (R1.filter fun r => decide (kr r = kl l)) = R2.filter fun r => decide (kr r = kl l)) :
    pairs kl kr L R1 = pairs kl kr L R2 := by
  unfold pairs
  exact flatMap_congr_mem L _ _ fun l hl => by rw [h l hl]

theorem unmatchedL_congr_right (L : List α) (R1 R2 : List β)
    (h : ∀ l ∈ L, (R1.filter fun r => decide (kr r = kl l)) = R2.filter fun r => decide (kr r = kl l)) :
    unmatchedL kl kr L R1 = unmatchedL kl kr L R2 := by
  unfold unmatchedL
  congr 1
  exact List.filter_congr fun l hl => by rw [h l hl]

theorem unmatchedR_congr_left (L1 L2 : List α) (R : List β)
    (h : ∀ r ∈ R, (L1.filter fun l => decide (kl l = kr r)) = L2.filter fun l => decide (kl l = kr r)) :
    unmatchedR kl kr L1 R = unmatchedR kl kr L2 R := by
  unfold unmatchedR
  congr 1
  exact List.filter_congr fun r hr => by rw [h r hr]

/-! ### the spec respects permutations / splits of the left input -/

theorem pairs_perm_left {L L' : List α} (h : L.Perm L') (R : List β) :
    (pairs kl kr L R).Perm (pairs kl kr L' R) := by
  unfold pairs; exact h.flatMap_right _

theorem unmatchedL_perm_left {L L' : List α} (h : L.Perm L') (R : List β) :
    (unmatchedL kl kr L R).Perm (unmatchedL kl kr L' R) := by
  unfold unmatchedL; exact (h.filter _).map _

theorem unmatchedL_append (L1 L2 : List α) (R : List β) :
    unmatchedL kl kr (L1 ++ L2) R = unmatchedL kl kr L1 R ++ unmatchedL kl kr L2 R := by
  simp [unmatchedL]

theorem unmatchedR_append (L : List α) (R1 R2 : List β) :
    unmatchedR kl kr L (R1 ++ R2) = unmatchedR kl kr L R1 ++ unmatchedR kl kr L R2 := by
  simp [unmatchedR]

theorem unmatchedR_perm_right (L : List α) {R R' : List β} (h : R.Perm R') :
    (unmatchedR kl kr L R).Perm (unmatchedR kl kr L R') := by
  unfold unmatchedR; exact (h.filter _).map _

/-- the part of a join without right-outer tuples (inner, left) is a `flatMap` over the left input -/
def perLeft (v : Variant) (R : List β) (l : α) : List (Out κ α β) :=
  pairs kl kr [l] R ++ (if v.leftOuter then unmatchedL kl kr [l] R else [])

theorem relJoin_eq_flatMap (v : Variant) (hv : v.rightOuter = false) (L : List α) (R : List β) :
    (relJoin v kl kr L R).Perm (L.flatMap (perLeft kl kr v R)) := by
  classical
  induction L with
  | nil => simp [relJoin, pairs, unmatchedL, hv]
  | cons l L ih =>
    have h1 : pairs kl kr (l :: L) R = pairs kl kr [l] R ++ pairs kl kr L R := by simp [pairs]
    have h2 : unmatchedL kl kr (l :: L) R = unmatchedL kl kr [l] R ++ unmatchedL kl kr L R := by
      rw [← unmatchedL_append]; rfl
    simp only [List.flatMap_cons]
    rw [List.perm_iff_count] at ih ⊢
    intro x
    have := ih x
    cases hlo : v.leftOuter <;>
      simp [relJoin, perLeft, h1, h2, hlo, hv, List.count_append] at this ⊢ <;> omega

/-- **Broadcast-right shipping.** If the left input is split *arbitrarily* among the replicas
    (`parts`, any partition of `L` up to order) and every replica receives the *whole* right input,
    the union of the per-replica inner (resp. left) joins is the inner (resp. left) join of the whole
    inputs. (Not true for the outer join: every replica would report the right elements unmatched
    by *its* part — which is why `ship_broadcast_right` offers no `outer()`.) -/
theorem broadcastRight_union_aux (v : Variant) (hv : v.rightOuter = false)
    (L : List α) (R : List β) (parts : List (List α)) (hp : L.Perm parts.flatten) :
    (relJoin v kl kr L R).Perm (parts.flatMap fun P => relJoin v kl kr P R) := by
  refine (relJoin_eq_flatMap kl kr v hv L R).trans ?_
  refine (hp.flatMap_right _).trans ?_
  rw [flatten_flatMap']
  exact perm_flatMap_pointwise _ _ _ fun P _ => (relJoin_eq_flatMap kl kr v hv P R).symm

/-! ### splitting both inputs by a predicate on the key -/

theorem filter_match_of_key (q : κ → Bool) (R : List β) (k : κ) (hk : q k = true) :
    ((R.filter fun r => q (kr r)).filter fun r => decide (kr r = k)) = R.filter fun r => decide (kr r = k) := by
  rw [List.filter_filter]
  apply List.filter_congr
  intro r _
  by_cases h : kr r = k
  · simp [h, hk]
  · simp [h]

theorem relJoin_split (v : Variant) (q : κ → Bool) (L : List α) (R : List β) :
    (relJoin v kl kr L R).Perm
      (relJoin v kl kr (L.filter fun l => q (kl l)) (R.filter fun r => q (kr r))
        ++ relJoin v kl kr (L.filter fun l => !q (kl l)) (R.filter fun r => !q (kr r))) := by
  classical
  -- abbreviations
  let Lq := L.filter fun l => q (kl l)
  let Ln := L.filter fun l => !q (kl l)
  let Rq := R.filter fun r => q (kr r)
  let Rn := R.filter fun r => !q (kr r)
  have hL : L.Perm (Lq ++ Ln) := (List.filter_append_perm (fun l => q (kl l)) L).symm
  have hR : R.Perm (Rq ++ Rn) := (List.filter_append_perm (fun r => q (kr r)) R).symm
  -- matches of a `q`-left element live in `Rq`, of a non-`q` one in `Rn`
  have mq : ∀ l ∈ Lq, (R.filter fun r => decide (kr r = kl l)) = Rq.filter fun r => decide (kr r = kl l) := by
    intro l hl
    have : q (kl l) = true := by simpa [Lq] using (List.mem_filter.mp hl).2
    exact (filter_match_of_key kr q R (kl l) this).symm
  have mn : ∀ l ∈ Ln, (R.filter fun r => decide (kr r = kl l)) = Rn.filter fun r => decide (kr r = kl l) := by
    intro l hl
    have : (!q (kl l)) = true := by simpa [Ln] using (List.mem_filter.mp hl).2
    exact (filter_match_of_key kr (fun k => !q k) R (kl l) this).symm
  have mq' : ∀ r ∈ Rq, (L.filter fun l => decide (kl l = kr r)) = Lq.filter fun l => decide (kl l = kr r) := by
    intro r hr
    have : q (kr r) = true := by simpa [Rq] using (List.mem_filter.mp hr).2
    exact (filter_match_of_key kl q L (kr r) this).symm
  have mn' : ∀ r ∈ Rn, (L.filter fun l => decide (kl l = kr r)) = Ln.filter fun l => decide (kl l = kr r) := by
    intro r hr
    have : (!q (kr r)) = true := by simpa [Rn] using (List.mem_filter.mp hr).2
    exact (filter_match_of_key kl (fun k => !q k) L (kr r) this).symm
  have hpairs : (pairs kl kr L R).Perm (pairs kl kr Lq Rq ++ pairs kl kr Ln Rn) := by
    refine (pairs_perm_left kl kr hL R).trans ?_
    rw [pairs_append_left, pairs_congr_right kl kr Lq R Rq mq, pairs_congr_right kl kr Ln R Rn mn]
  have hunL : (unmatchedL kl kr L R).Perm (unmatchedL kl kr Lq Rq ++ unmatchedL kl kr Ln Rn) := by
    refine (unmatchedL_perm_left kl kr hL R).trans ?_
    rw [unmatchedL_append, unmatchedL_congr_right kl kr Lq R Rq mq, unmatchedL_congr_right kl kr Ln R Rn mn]
  have hunR : (unmatchedR kl kr L R).Perm (unmatchedR kl kr Lq Rq ++ unmatchedR kl kr Ln Rn) := by
    refine (unmatchedR_perm_right kl kr L hR).trans ?_
    rw [unmatchedR_append, unmatchedR_congr_left kl kr L Lq Rq mq', unmatchedR_congr_left kl kr L Ln Rn mn']
  show (relJoin v kl kr L R).Perm (relJoin v kl kr Lq Rq ++ relJoin v kl kr Ln Rn)
  unfold relJoin
  rw [List.perm_iff_count] at hpairs hunL hunR ⊢
  intro x
  have h1 := hpairs x; have h2 := hunL x; have h3 := hunR x
  cases v.leftOuter <;> cases v.rightOuter <;> simp [List.count_append] at h1 h2 h3 ⊢ <;> omega

theorem relJoin_nil (v : Variant) : relJoin v kl kr ([] : List α) ([] : List β) = [] := by
  simp [relJoin, pairs, unmatchedL, unmatchedR]

/-- `n`-way version of `relJoin_split`: both inputs partitioned by `h : key → replica` -/
theorem relJoin_copartition (v : Variant) (h : κ → Nat) :
    ∀ (n : Nat) (L : List α) (R : List β), (∀ l ∈ L, h (kl l) < n) → (∀ r ∈ R, h (kr r) < n) →
      (relJoin v kl kr L R).Perm
        ((List.range n).flatMap fun i =>
          relJoin v kl kr (L.filter fun l => decide (h (kl l) = i)) (R.filter fun r => decide (h (kr r) = i))) := by
  intro n
  induction n with
  | zero =>
    intro L R hL hR
    have : L = [] := List.eq_nil_iff_forall_not_mem.mpr fun l hl => Nat.not_lt_zero _ (hL l hl)
    have : R = [] := List.eq_nil_iff_forall_not_mem.mpr fun r hr => Nat.not_lt_zero _ (hR r hr)
    subst_vars
    simp [relJoin_nil]
  | succ n ih =>
    intro L R hL hR
    let q : κ → Bool := fun k => decide (h k = n)
    refine (relJoin_split kl kr v q L R).trans ?_
    rw [List.range_succ, List.flatMap_append]
    simp only [List.flatMap_cons, List.flatMap_nil, List.append_nil]
    refine List.perm_append_comm.trans ?_
    refine List.Perm.append ?_ (List.Perm.refl _)
    let Ln := L.filter fun l => !q (kl l)
    let Rn := R.filter fun r => !q (kr r)
    have hLn : ∀ l ∈ Ln, h (kl l) < n := by
      intro l hl
      have h1 := (List.mem_filter.mp hl).1
      have h2 : h (kl l) ≠ n := by simpa [q] using (List.mem_filter.mp hl).2
      have := hL l h1; omega
    have hRn : ∀ r ∈ Rn, h (kr r) < n := by
      intro r hr
      have h1 := (List.mem_filter.mp hr).1
      have h2 : h (kr r) ≠ n := by simpa [q] using (List.mem_filter.mp hr).2
      have := hR r h1; omega
    refine (ih Ln Rn hLn hRn).trans ?_
    rw [flatMap_congr_mem]
    intro i hi
    have hi' : i < n := List.mem_range.mp hi
    have e1 : (Ln.filter fun l => decide (h (kl l) = i)) = L.filter fun l => decide (h (kl l) = i) := by
      simp only [Ln, List.filter_filter]
      apply List.filter_congr
      intro l _
      by_cases hh : h (kl l) = i
      · have : h (kl l) ≠ n := by omega
        simp [hh, q]; omega
      · simp [hh]
    have e2 : (Rn.filter fun r => decide (h (kr r) = i)) = R.filter fun r => decide (h (kr r) = i) := by
      simp only [Rn, List.filter_filter]
      apply List.filter_congr
      intro r _
      by_cases hh : h (kr r) = i
      · have : h (kr r) ≠ n := by omega
        simp [hh, q]; omega
      · simp [hh]
    rw [e1, e2]

end Noir.Join
