/-
  Lemmas/TimeWindowOp.lean — per-key projection of the clock-threaded keyed dispatch
  (Model/TimeWindowOp.lean), following `winop_keys_independent` of Lemmas/WindowOp.lean:
  for any clock-reading manager whose fresh instance ignores control elements (`Idle`), the results
  carrying key `k` are — in order — the results of ONE manager instance started in `init` and fed
  `k`'s data elements and every Watermark / FlushAndRestart / Terminate, each with the clock reading
  the manager of `k` took (`proj k`). FlushBatch and other keys' data never reach it.
-/
import NoirVerif.Model.TimeWindowOp
import NoirVerif.Lemmas.TimeWindows
namespace Noir.TimeWindowOp

variable {κ σ α β : Type}

/-- `windows.get(k)` -/
def find [DecidableEq κ] (k : κ) : List (κ × σ) → Option σ
  | [] => none
  | (k', s) :: rest => if k' = k then some s else find k rest

def keys (ws : List (κ × σ)) : List κ := ws.map (·.1)

/-- a `HashMap` holds at most one entry per key -/
def NoDupKeys (ws : List (κ × σ)) : Prop := (keys ws).Nodup

/-- what the manager of key `k` sees of one input element of the operator -/
def projElem [DecidableEq κ] (k : κ) : Elem (κ × α) → Option (Elem α)
  | .item (k', x) => if k' = k then some (.item x) else none
  | .ts (k', x) t => if k' = k then some (.ts x t) else none
  | .flushBatch => none
  | .wm w => some (.wm w)
  | .term => some .term
  | .far => some .far

/-- `k`'s sub-sequence of the input with the clock readings of `k`'s manager -/
def proj [DecidableEq κ] (k : κ) (es : List ((κ → Nat) × Elem (κ × α))) : List (Nat × Elem α) :=
  es.filterMap (fun p => (projElem k p.2).map (fun e => (p.1 k, e)))

/-- a result carrying key `k` in the operator's output, key stripped -/
def keyOut [DecidableEq κ] (k : κ) : Elem (κ × β) → Option β
  | .item (k', v) => if k' = k then some v else none
  | _ => none

/-- a fresh manager ignores control elements: being absent from the map (`WindowOperator` only creates
    a manager at the key's first data element) is the same as being present in the initial state -/
def Idle (m : TMgr σ α β) : Prop := ∀ now e, e.isData = false → m.step m.init now e = (m.init, [])

/-- the manager of `k` (the initial one if the key has no entry yet) -/
def mgrOf [DecidableEq κ] (m : TMgr σ α β) (k : κ) (ws : List (κ × σ)) : σ := (find k ws).getD m.init

/-- one manager instance driven by the operator's (unprojected) input -/
def keyStep [DecidableEq κ] (m : TMgr σ α β) (k : κ) (s : σ) (now : κ → Nat) (e : Elem (κ × α)) : σ × List β :=
  match projElem k e with
  | none => (s, [])
  | some e' => m.step s (now k) e'

/-- one manager instance over timed elements -/
def soloRun (m : TMgr σ α β) : σ → List (Nat × Elem α) → List β
  | _, [] => []
  | s, (now, e) :: es => (m.step s now e).2 ++ soloRun m (m.step s now e).1 es

def soloState (m : TMgr σ α β) : σ → List (Nat × Elem α) → σ
  | s, [] => s
  | s, (now, e) :: es => soloState m (m.step s now e).1 es

/-! ### elementary facts -/

theorem filterMap_keyOut_same [DecidableEq κ] (k : κ) (rs : List β) :
    (rs.map (fun v => Elem.item (k, v))).filterMap (keyOut k) = rs := by
  induction rs with
  | nil => rfl
  | cons r rs ih => simp [keyOut, ih]

theorem filterMap_keyOut_other [DecidableEq κ] (k k' : κ) (h : k' ≠ k) (rs : List β) :
    (rs.map (fun v => Elem.item (k', v))).filterMap (keyOut k) = [] := by
  induction rs with
  | nil => rfl
  | cons r rs ih => simp [keyOut, ih, h]

theorem find_none_of_not_mem [DecidableEq κ] (k : κ) : ∀ (ws : List (κ × σ)), k ∉ keys ws → find k ws = none := by
  intro ws
  induction ws with
  | nil => intro _; rfl
  | cons p rest ih =>
    obtain ⟨k', s⟩ := p
    intro h
    simp only [keys, List.map_cons, List.mem_cons, not_or] at h
    have hne : ¬ k' = k := fun e => h.1 e.symm
    simp only [find, hne, if_false]
    exact ih h.2

theorem upsert_same [DecidableEq κ] (m : TMgr σ α β) (k : κ) (now : Nat) (e : Elem α) : ∀ (ws : List (κ × σ)),
    find k (upsert m k now e ws).1 = some (m.step (mgrOf m k ws) now e).1 ∧
    (upsert m k now e ws).2 = (m.step (mgrOf m k ws) now e).2 := by
  intro ws
  induction ws with
  | nil => simp [upsert, find, mgrOf]
  | cons p rest ih =>
    obtain ⟨k', s⟩ := p
    by_cases hk : k' = k
    · subst hk; simp [upsert, find, mgrOf]
    · simp only [upsert, hk, if_false, find, mgrOf] at ih ⊢; exact ih

theorem upsert_other [DecidableEq κ] (m : TMgr σ α β) (k k2 : κ) (hne : k ≠ k2) (now : Nat) (e : Elem α) :
    ∀ (ws : List (κ × σ)), find k2 (upsert m k now e ws).1 = find k2 ws := by
  intro ws
  induction ws with
  | nil => simp [upsert, find, hne]
  | cons p rest ih =>
    obtain ⟨k', s⟩ := p
    by_cases hk : k' = k
    · subst hk; simp [upsert, find, hne]
    · simp only [upsert, hk, if_false, find, ih]

theorem upsert_keys [DecidableEq κ] (m : TMgr σ α β) (k : κ) (now : Nat) (e : Elem α) : ∀ (ws : List (κ × σ)),
    keys (upsert m k now e ws).1 = if k ∈ keys ws then keys ws else keys ws ++ [k] := by
  intro ws
  induction ws with
  | nil => simp [upsert, keys]
  | cons p rest ih =>
    obtain ⟨k', s⟩ := p
    by_cases hk : k' = k
    · subst hk; simp [upsert, keys]
    · have hk' : ¬ k = k' := fun e => hk e.symm
      simp only [upsert, hk, if_false, keys, List.map_cons, List.mem_cons, hk', false_or] at *
      rw [ih]; split <;> simp [*]

theorem upsert_nodup [DecidableEq κ] (m : TMgr σ α β) (k : κ) (now : Nat) (e : Elem α) (ws : List (κ × σ))
    (h : NoDupKeys ws) : NoDupKeys (upsert m k now e ws).1 := by
  unfold NoDupKeys at *
  rw [upsert_keys]
  split
  · exact h
  · rename_i hk
    rw [List.nodup_append]
    refine ⟨h, by simp, ?_⟩
    intro a ha b hb
    simp only [List.mem_singleton] at hb; subst hb
    intro e; subst e; exact hk ha

theorem broadcast_keys (m : TMgr σ α β) (now : κ → Nat) (e : Elem α) : ∀ (ws : List (κ × σ)),
    keys (broadcast m now e ws).1 = keys ws := by
  intro ws
  induction ws with
  | nil => rfl
  | cons p rest ih => obtain ⟨k, s⟩ := p; simp only [broadcast, keys, List.map_cons] at *; rw [ih]

/-- what a control element does to the manager of key `k`, if there is one -/
theorem broadcast_key [DecidableEq κ] (m : TMgr σ α β) (k : κ) (now : κ → Nat) (e : Elem α) :
    ∀ (ws : List (κ × σ)), NoDupKeys ws →
    find k (broadcast m now e ws).1 = (find k ws).map (fun s => (m.step s (now k) e).1) ∧
    (broadcast m now e ws).2.filterMap (keyOut k) = ((find k ws).map (fun s => (m.step s (now k) e).2)).getD [] := by
  intro ws
  induction ws with
  | nil => intro _; simp [broadcast, find]
  | cons p rest ih =>
    obtain ⟨k', s⟩ := p
    intro hnd
    simp only [NoDupKeys, keys, List.map_cons, List.nodup_cons] at hnd
    obtain ⟨ih1, ih2⟩ := ih hnd.2
    by_cases hk : k' = k
    · subst hk
      have hnone : find k' rest = none := find_none_of_not_mem k' rest hnd.1
      rw [hnone] at ih2
      simp only [broadcast, find, if_true, List.filterMap_append, filterMap_keyOut_same, ih2, Option.map_some,
        Option.map_none, Option.getD_some, Option.getD_none, List.append_nil, and_self]
    · simp only [broadcast, find, hk, if_false, List.filterMap_append, filterMap_keyOut_other k k' hk,
        List.nil_append]
      exact ⟨ih1, ih2⟩

/-! ### one step of the operator, seen from key `k` -/

theorem step_key [DecidableEq κ] (m : TMgr σ α β) (hidle : Idle m) (k : κ) (ws : List (κ × σ))
    (now : κ → Nat) (e : Elem (κ × α)) (hnd : NoDupKeys ws) :
    mgrOf m k (step m ws now e).1 = (keyStep m k (mgrOf m k ws) now e).1 ∧
    (step m ws now e).2.filterMap (keyOut k) = (keyStep m k (mgrOf m k ws) now e).2 ∧
    NoDupKeys (step m ws now e).1 := by
  have hdata : ∀ (k' : κ) (e' : Elem α),
      mgrOf m k (upsert m k' (now k') e' ws).1 =
        (if k' = k then (m.step (mgrOf m k ws) (now k) e').1 else mgrOf m k ws) ∧
      ((upsert m k' (now k') e' ws).2.map (fun v => Elem.item (k', v))).filterMap (keyOut k) =
        (if k' = k then (m.step (mgrOf m k ws) (now k) e').2 else []) := by
    intro k' e'
    by_cases hk : k' = k
    · subst hk
      obtain ⟨h1, h2⟩ := upsert_same m k' (now k') e' ws
      simp only [if_true, mgrOf, h1, Option.getD_some, filterMap_keyOut_same, h2, and_self]
    · simp only [hk, if_false, mgrOf, upsert_other m k' k hk _ _ ws, filterMap_keyOut_other k k' hk, and_self]
  have hctrl : ∀ e' : Elem α, e'.isData = false →
      mgrOf m k (broadcast m now e' ws).1 = (m.step (mgrOf m k ws) (now k) e').1 ∧
      (broadcast m now e' ws).2.filterMap (keyOut k) = (m.step (mgrOf m k ws) (now k) e').2 ∧
      NoDupKeys (broadcast m now e' ws).1 := by
    intro e' he'
    obtain ⟨h1, h2⟩ := broadcast_key m k now e' ws hnd
    refine ⟨?_, ?_, by unfold NoDupKeys; rw [broadcast_keys]; exact hnd⟩
    · simp only [mgrOf, h1]
      cases find k ws with
      | none => simp [hidle (now k) e' he']
      | some s => simp
    · rw [h2]; simp only [mgrOf]
      cases find k ws with
      | none => simp [hidle (now k) e' he']
      | some s => simp
  cases e with
  | item p =>
    obtain ⟨k', x⟩ := p
    obtain ⟨h1, h2⟩ := hdata k' (.item x)
    refine ⟨?_, ?_, upsert_nodup m k' _ _ _ hnd⟩
    · simp only [step, keyStep, projElem, h1]; split <;> rfl
    · simp only [step, keyStep, projElem, h2]; split <;> rfl
  | ts p t =>
    obtain ⟨k', x⟩ := p
    obtain ⟨h1, h2⟩ := hdata k' (.ts x t)
    refine ⟨?_, ?_, upsert_nodup m k' _ _ _ hnd⟩
    · simp only [step, keyStep, projElem, h1]; split <;> rfl
    · simp only [step, keyStep, projElem, h2]; split <;> rfl
  | flushBatch => exact ⟨rfl, by simp [step, keyStep, projElem, keyOut], hnd⟩
  | wm w =>
    obtain ⟨h1, h2, h3⟩ := hctrl (.wm w) rfl
    exact ⟨by simpa [step, keyStep, projElem] using h1,
      by simp only [step, keyStep, projElem, List.filterMap_append, List.filterMap_cons, keyOut,
        List.filterMap_nil, List.append_nil]; exact h2, h3⟩
  | term =>
    obtain ⟨h1, h2, h3⟩ := hctrl .term rfl
    exact ⟨by simpa [step, keyStep, projElem] using h1,
      by simp only [step, keyStep, projElem, List.filterMap_append, List.filterMap_cons, keyOut,
        List.filterMap_nil, List.append_nil]; exact h2, h3⟩
  | far =>
    obtain ⟨h1, h2, h3⟩ := hctrl .far rfl
    exact ⟨by simpa [step, keyStep, projElem] using h1,
      by simp only [step, keyStep, projElem, List.filterMap_append, List.filterMap_cons, keyOut,
        List.filterMap_nil, List.append_nil]; exact h2, h3⟩

/-! ### whole runs -/

theorem filterMap_flatten {γ δ : Type} (f : γ → Option δ) (l : List (List γ)) :
    l.flatten.filterMap f = (l.map (List.filterMap f)).flatten := by
  induction l with
  | nil => rfl
  | cons a l ih => simp [List.filterMap_append, ih]

theorem runUnits_key [DecidableEq κ] (m : TMgr σ α β) (hidle : Idle m) (k : κ) :
    ∀ (es : List ((κ → Nat) × Elem (κ × α))) (ws : List (κ × σ)), NoDupKeys ws →
    ((runUnits m ws es).map (List.filterMap (keyOut k))).flatten = soloRun m (mgrOf m k ws) (proj k es) ∧
    mgrOf m k (stateAfter m ws es) = soloState m (mgrOf m k ws) (proj k es) := by
  intro es
  induction es with
  | nil => intro ws _; exact ⟨rfl, rfl⟩
  | cons p es ih =>
    intro ws hnd
    obtain ⟨now, e⟩ := p
    obtain ⟨h1, h2, h3⟩ := step_key m hidle k ws now e hnd
    obtain ⟨i1, i2⟩ := ih (step m ws now e).1 h3
    simp only [runUnits, stateAfter, List.map_cons, List.flatten_cons, proj, List.filterMap_cons]
    rw [h2, i1, i2, h1]
    simp only [keyStep]
    cases hp : projElem k e with
    | none => simp [proj]
    | some e' => simp [proj, soloRun, soloState]

end Noir.TimeWindowOp
