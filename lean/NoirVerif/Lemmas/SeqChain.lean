/-
  Lemmas/SeqChain.lean — helper definitions and lemmas for Props/C16Chain.lean (C16, first half,
  pipelines of any length).

  * `st1` / `linkOk`  : the input contract `inputOk` (Model/StartSpec.lean) specialised to ONE
                        upstream replica, as a plain recogniser over the stream of the link;
  * `good`            : the only reachable live states of `Start` (Model/Start.lean) with one
                        upstream replica; `pending_watermark` is always `None` in them;
  * `outs_good`       : with one upstream replica `Start` is the identity on contract-respecting
                        streams (receive timeouts become `FlushBatch`, nothing after `Terminate`);
  * `liftStage`       : (Model/Stateless.lean) an operator chain as a per-element transducer lifted to
                        streams — lemmas here;
  * `arrivalsOf`      : batches with receive timeouts in between.
-/
import NoirVerif.Props.C16SeqPath
import NoirVerif.Model.Stateless
namespace Noir.SeqChain
open Noir Noir.Start Noir.StartSpec Noir.SeqPath Noir.Stateless

variable {α β γ : Type}

/-! ### the contract of one link -/

/-- the contract states reachable with ONE upstream replica: the replica never stays `ended`
    (its `FlushAndRestart` completes the iteration at once) -/
def st1 (lw : Option Int) (d td : Bool) (c : Nat) : InSt := ⟨[⟨lw, false, d, td⟩], c⟩

theorem init_st1 : InSt.init 1 = st1 none false false 0 := rfl

theorem inStep_succ (lw : Option Int) (d td : Bool) (c r : Nat) (e : Elem α) :
    inStep (st1 lw d td c) (r + 1) e = none := by
  simp [inStep, st1]

theorem inStep_termd (lw : Option Int) (d : Bool) (c r : Nat) (e : Elem α) :
    inStep (st1 lw d true c) r e = none := by
  cases r <;> simp [inStep, st1]

theorem inStep_item (lw : Option Int) (d : Bool) (c : Nat) (a : α) :
    inStep (st1 lw d false c) 0 (.item a) = some (st1 lw true false c) := by
  simp [inStep, st1, anyTermd]

theorem inStep_ts (lw : Option Int) (d : Bool) (c : Nat) (a : α) (t : Int) :
    inStep (st1 lw d false c) 0 (.ts a t) =
      if (decide (t ≤ TS_MAX) && above lw t) = true then some (st1 lw true false c) else none := by
  simp [inStep, st1, anyTermd]

theorem inStep_wm (lw : Option Int) (d : Bool) (c : Nat) (t : Int) :
    inStep (st1 lw d false c) 0 (.wm t : Elem α) =
      if (decide (t ≤ TS_MAX) && above lw t) = true then some (st1 (some t) true false c) else none := by
  simp [inStep, st1, anyTermd]

theorem inStep_fb (lw : Option Int) (d : Bool) (c : Nat) :
    inStep (st1 lw d false c) 0 (.flushBatch : Elem α) = none := by
  simp [inStep, st1]

theorem inStep_far (lw : Option Int) (d : Bool) (c : Nat) :
    inStep (st1 lw d false c) 0 (.far : Elem α) = some (st1 none false false (c + 1)) := by
  simp [inStep, st1, anyTermd, resetIter]

theorem inStep_term (lw : Option Int) (d : Bool) (c : Nat) :
    inStep (st1 lw d false c) 0 (.term : Elem α) =
      if (!d && decide (1 ≤ c)) = true then some (st1 lw d true c) else none := by
  cases d <;> simp [inStep, st1, idle]

/-- The contract of one link as a recogniser over its stream: `lw` = last watermark of the
    iteration, `d` = something was sent in the iteration, `c` = completed iterations. -/
def linkOk : Option Int → Bool → Nat → List (Elem α) → Bool
  | _, _, _, [] => true
  | lw, _, c, .item _ :: l => linkOk lw true c l
  | lw, _, c, .ts _ t :: l => (decide (t ≤ TS_MAX) && above lw t) && linkOk lw true c l
  | lw, _, c, .wm t :: l => (decide (t ≤ TS_MAX) && above lw t) && linkOk (some t) true c l
  | _, _, _, .flushBatch :: _ => false
  | _, _, c, .far :: l => linkOk none false (c + 1) l
  | _, d, c, .term :: l => (!d && decide (1 ≤ c)) && l.isEmpty

theorem inputOkFrom_termd (lw : Option Int) (d : Bool) (c : Nat) (arr : List (Nat × Elem α)) :
    inputOkFrom (st1 lw d true c) arr = arr.isEmpty := by
  cases arr with
  | nil => rfl
  | cons x xs => obtain ⟨r, e⟩ := x; simp [inputOkFrom, inStep_termd]

theorem inputOkFrom_st1 (l : List (Elem α)) : ∀ (lw : Option Int) (d : Bool) (c : Nat),
    inputOkFrom (st1 lw d false c) (l.map (fun e => (0, e))) = linkOk lw d c l := by
  induction l with
  | nil => intros; rfl
  | cons e l ih =>
    intro lw d c
    cases e with
    | item a => simp only [List.map_cons, inputOkFrom, inStep_item, linkOk, ih]
    | ts a t =>
      simp only [List.map_cons, inputOkFrom, inStep_ts, linkOk]
      cases h : (decide (t ≤ TS_MAX) && above lw t) <;> simp [ih]
    | wm t =>
      simp only [List.map_cons, inputOkFrom, inStep_wm, linkOk]
      cases h : (decide (t ≤ TS_MAX) && above lw t) <;> simp [ih]
    | flushBatch => simp only [List.map_cons, inputOkFrom, inStep_fb, linkOk]
    | far => simp only [List.map_cons, inputOkFrom, inStep_far, linkOk, ih]
    | term =>
      simp only [List.map_cons, inputOkFrom, inStep_term, linkOk]
      cases h : (!d && decide (1 ≤ c)) <;> simp [inputOkFrom_termd]

/-- the contract with one upstream replica is `linkOk` from the initial state -/
theorem inputOk_one (l : List (Elem α)) :
    inputOk 1 (l.map (fun e => (0, e))) = linkOk none false 0 l := by
  unfold inputOk; rw [init_st1]; exact inputOkFrom_st1 l none false 0

/-! ### `Start` with one upstream replica -/

/-- the live states of `Start` reachable with one upstream replica -/
def good (lw : Option Int) : State := ⟨1, 1, 1, ⟨[lw], lw⟩, none⟩

theorem init_good : init 1 = good none := rfl

/-- the shape of every reachable state with one upstream replica, contract or not: both counters
    are at most 1 and nothing is pending -/
structure Shape (s : State) : Prop where
  n : s.n = 1
  far : s.missingFar = 1
  pend : s.pending = none

theorem shape_init : Shape (init 1) := ⟨rfl, rfl, rfl⟩

theorem shape_step {s : State} (h : Shape s) (a : Arrival α) : Shape (step s a).1 := by
  obtain ⟨h1, h2, h3⟩ := h
  by_cases hT : s.missingTerm = 0
  · simp only [step, hT, if_true]; exact ⟨h1, h2, h3⟩
  · cases a with
    | timeout => simp only [step, hT, if_false, h3]; exact ⟨h1, h2, h3⟩
    | elem r e =>
      cases e with
      | item a => simp only [step, hT, if_false, h3]; exact ⟨h1, h2, h3⟩
      | ts a t => simp only [step, hT, if_false, h3]; exact ⟨h1, h2, h3⟩
      | flushBatch => simp only [step, hT, if_false, h3]; exact ⟨h1, h2, h3⟩
      | wm t =>
        simp only [step, hT, if_false]
        rcases hu : s.frontier.update r t with ⟨f, o⟩
        cases o <;> exact ⟨h1, h2, by simp [h3]⟩
      | far =>
        simp only [step, hT, if_false]
        rcases hu : s.frontier.update r TS_MAX with ⟨f, o⟩
        simp only [afterCounters, hT, if_false, h2, Nat.sub_self, if_true]
        exact ⟨h1, h1, rfl⟩
      | term =>
        simp only [step, hT, if_false, afterCounters]
        by_cases h0 : s.missingTerm - 1 = 0
        · simp only [h0, if_true]; exact ⟨h1, h2, h3⟩
        · have h2' : s.missingFar ≠ 0 := by omega
          simp only [h0, if_false, h2']; exact ⟨h1, h2, h3⟩

theorem shape_stateAfter (as : List (Arrival α)) : ∀ s, Shape s → Shape (stateAfter s as) := by
  induction as with
  | nil => intro s h; exact h
  | cons a as ih => intro s h; exact ih _ (shape_step h a)

theorem step_good_timeout (lw : Option Int) :
    step (good lw) (Arrival.timeout : Arrival α) = (good lw, [.flushBatch]) := rfl

theorem step_good_item (lw : Option Int) (r : Nat) (a : α) :
    step (good lw) (.elem r (.item a)) = (good lw, [.item a]) := rfl

theorem step_good_ts (lw : Option Int) (r : Nat) (a : α) (t : Int) :
    step (good lw) (.elem r (.ts a t)) = (good lw, [.ts a t]) := rfl

theorem step_good_wm (lw : Option Int) (t : Int) (h : above lw t = true) :
    step (good lw) (.elem 0 (.wm t : Elem α)) = (good (some t), [.wm t]) := by
  cases lw with
  | none => simp [step, good, Frontier.update, compute, computeFold, optJoinMin, announce]
  | some w =>
    simp only [above, decide_eq_true_eq] at h
    have h1 : ¬ (t ≤ w) := by omega
    have h2 : ¬ (w = t) := by omega
    simp [step, good, Frontier.update, compute, computeFold, optJoinMin, announce, h1, h2]

theorem step_good_far (lw : Option Int) :
    step (good lw) (.elem 0 (.far : Elem α)) = (good none, [.far]) := by
  cases lw with
  | none =>
    simp [step, good, Frontier.update, compute, computeFold, optJoinMin, announce, afterCounters,
      Frontier.reset]
  | some w =>
    by_cases h : TS_MAX ≤ w
    · simp [step, good, Frontier.update, afterCounters, Frontier.reset, h]
    · simp [step, good, Frontier.update, compute, computeFold, optJoinMin, announce, afterCounters,
        Frontier.reset, h]

theorem step_good_term (lw : Option Int) :
    (step (good lw) (.elem 0 (.term : Elem α))).2 = [.term] ∧
    (step (good lw) (.elem 0 (.term : Elem α))).1.missingTerm = 0 := by
  simp [step, good, afterCounters]

/-- what an arrival looks like downstream of a single-upstream `Start` -/
def toElem : Arrival α → Elem α
  | .timeout => .flushBatch
  | .elem _ e => e

/-- a stream up to and including its first `Terminate` -/
def untilTerm : List (Elem α) → List (Elem α)
  | [] => []
  | .term :: _ => [.term]
  | e :: es => e :: untilTerm es

/-- With one upstream replica and a contract-respecting link, `Start` is the identity: every
    arrival is handed on unchanged and at once, a receive timeout becomes one `FlushBatch`,
    nothing follows the `Terminate`. -/
theorem outs_good (as : List (Arrival α)) : ∀ (lw : Option Int) (d : Bool) (c : Nat),
    inputOkFrom (st1 lw d false c) (elemsOf as) = true →
    outs (good lw) as = untilTerm (as.map toElem) := by
  induction as with
  | nil => intros; rfl
  | cons a as ih =>
    intro lw d c h
    rw [outs_cons]
    cases a with
    | timeout =>
      rw [step_good_timeout]
      simp only [List.map_cons, toElem, untilTerm, List.singleton_append]
      rw [ih lw d c (by simpa [elemsOf] using h)]
    | elem r e =>
      simp only [elemsOf, inputOkFrom] at h
      cases r with
      | succ r => rw [inStep_succ] at h; cases h
      | zero =>
        cases e with
        | item a =>
          rw [inStep_item] at h
          rw [step_good_item]
          simp only [List.map_cons, toElem, untilTerm, List.singleton_append]
          rw [ih lw true c h]
        | ts a t =>
          rw [inStep_ts] at h
          by_cases hc : (decide (t ≤ TS_MAX) && above lw t) = true
          · simp only [hc, if_true] at h
            rw [step_good_ts]
            simp only [List.map_cons, toElem, untilTerm, List.singleton_append]
            rw [ih lw true c h]
          · simp only [hc] at h; cases h
        | wm t =>
          rw [inStep_wm] at h
          by_cases hc : (decide (t ≤ TS_MAX) && above lw t) = true
          · simp only [hc, if_true] at h
            rw [step_good_wm lw t (by simp at hc; exact hc.2)]
            simp only [List.map_cons, toElem, untilTerm, List.singleton_append]
            rw [ih (some t) true c h]
          · simp only [hc] at h; cases h
        | flushBatch => rw [inStep_fb] at h; cases h
        | far =>
          rw [inStep_far] at h
          rw [step_good_far]
          simp only [List.map_cons, toElem, untilTerm, List.singleton_append]
          rw [ih none false (c + 1) h]
        | term =>
          obtain ⟨h1, h2⟩ := step_good_term (α := α) lw
          rw [h1, outs_terminated _ h2]
          simp [toElem, untilTerm]

theorem run_one_exact (as : List (Arrival α)) (h : inputOk 1 (elemsOf as) = true) :
    Start.run 1 as = untilTerm (as.map toElem) := by
  unfold Start.run
  rw [runFrom_map_snd, init_good]
  unfold inputOk at h
  rw [init_st1] at h
  exact outs_good as none false 0 h

/-! ### list lemmas: `untilTerm`, `notFlushBatch`, `elemsOf` -/

theorem untilTerm_filter (l : List (Elem α)) :
    (untilTerm l).filter notFlushBatch = untilTerm (l.filter notFlushBatch) := by
  induction l with
  | nil => rfl
  | cons e l ih => cases e <;> simp [untilTerm, notFlushBatch, List.filter_cons, ih]

/-- a stream accepted by the link contract has nothing after its `Terminate` -/
theorem untilTerm_of_linkOk (l : List (Elem α)) : ∀ (lw : Option Int) (d : Bool) (c : Nat),
    linkOk lw d c l = true → untilTerm l = l := by
  induction l with
  | nil => intros; rfl
  | cons e l ih =>
    intro lw d c h
    cases e with
    | item a => simp only [linkOk] at h; simp only [untilTerm]; rw [ih _ _ _ h]
    | ts a t =>
      simp only [linkOk, Bool.and_eq_true] at h; simp only [untilTerm]; rw [ih _ _ _ h.2]
    | wm t =>
      simp only [linkOk, Bool.and_eq_true] at h; simp only [untilTerm]; rw [ih _ _ _ h.2]
    | flushBatch => simp [linkOk] at h
    | far => simp only [linkOk] at h; simp only [untilTerm]; rw [ih _ _ _ h]
    | term =>
      simp only [linkOk, Bool.and_eq_true, List.isEmpty_iff] at h
      rw [h.2]; rfl

theorem untilTerm_ends (l : List (Elem α)) :
    (∃ pre, untilTerm l = pre ++ [Elem.term]) ∨ Elem.term ∉ untilTerm l := by
  induction l with
  | nil => right; simp [untilTerm]
  | cons e l ih =>
    cases e with
    | term => left; exact ⟨[], rfl⟩
    | item a =>
      rcases ih with ⟨pre, h⟩ | h
      · left; exact ⟨.item a :: pre, by simp [untilTerm, h]⟩
      · right; simp [untilTerm, h]
    | ts a t =>
      rcases ih with ⟨pre, h⟩ | h
      · left; exact ⟨.ts a t :: pre, by simp [untilTerm, h]⟩
      · right; simp [untilTerm, h]
    | wm t =>
      rcases ih with ⟨pre, h⟩ | h
      · left; exact ⟨.wm t :: pre, by simp [untilTerm, h]⟩
      · right; simp [untilTerm, h]
    | flushBatch =>
      rcases ih with ⟨pre, h⟩ | h
      · left; exact ⟨.flushBatch :: pre, by simp [untilTerm, h]⟩
      · right; simp [untilTerm, h]
    | far =>
      rcases ih with ⟨pre, h⟩ | h
      · left; exact ⟨.far :: pre, by simp [untilTerm, h]⟩
      · right; simp [untilTerm, h]

theorem toElem_filter (as : List (Arrival α)) :
    (as.map toElem).filter notFlushBatch = ((elemsOf as).map (·.2)).filter notFlushBatch := by
  induction as with
  | nil => rfl
  | cons a as ih =>
    cases a with
    | timeout => simp only [List.map_cons, toElem, elemsOf, List.filter_cons, notFlushBatch]; exact ih
    | elem r e => simp only [List.map_cons, toElem, elemsOf, List.filter_cons, ih]

theorem elemsOf_append (a b : List (Arrival α)) : elemsOf (a ++ b) = elemsOf a ++ elemsOf b := by
  induction a with
  | nil => rfl
  | cons x xs ih => cases x <;> simp [elemsOf, ih]

theorem elemsOf_timeouts (k : Nat) : elemsOf (List.replicate k (Arrival.timeout : Arrival α)) = [] := by
  induction k with
  | zero => rfl
  | succ k ih => simp [List.replicate_succ, elemsOf, ih]

theorem elemsOf_batch (b : List (Elem α)) :
    elemsOf (b.map (Arrival.elem 0)) = b.map (fun e => (0, e)) := by
  induction b with
  | nil => rfl
  | cons x xs ih => simp [elemsOf, ih]

/-! ### batches with receive timeouts in between -/

/-- The arrival sequence of a `Start` with one upstream replica: the batches in sending order,
    each consumed whole, with `tos[i]` receive timeouts before batch `i` (and `tos[#batches]` after
    the last one); a missing entry means no timeout. -/
def arrivalsOf : List Nat → List (List (Elem α)) → List (Arrival α)
  | tos, [] => List.replicate (tos.headD 0) .timeout
  | [], b :: bs => b.map (Arrival.elem 0) ++ arrivalsOf [] bs
  | k :: ks, b :: bs => List.replicate k .timeout ++ (b.map (Arrival.elem 0) ++ arrivalsOf ks bs)

theorem elemsOf_arrivalsOf (batches : List (List (Elem α))) : ∀ tos : List Nat,
    elemsOf (arrivalsOf tos batches) = batches.flatten.map (fun e => (0, e)) := by
  induction batches with
  | nil => intro tos; simp [arrivalsOf, elemsOf_timeouts]
  | cons b bs ih =>
    intro tos
    cases tos with
    | nil => simp [arrivalsOf, elemsOf_append, elemsOf_batch, ih]
    | cons k ks => simp [arrivalsOf, elemsOf_append, elemsOf_batch, elemsOf_timeouts, ih]

/-! ### operator chains as per-element transducers -/

/- `liftElem`, `liftStage`, `kleisli` live in Model/Stateless.lean (import-free: the correspondence
   component `stateless` runs the REAL map / filter / flat_map / … operators against them). -/

theorem liftStage_nil (f : α → List β) : liftStage f [] = [] := rfl

theorem liftStage_cons (f : α → List β) (e : Elem α) (l : List (Elem α)) :
    liftStage f (e :: l) = liftElem f e ++ liftStage f l := by
  simp [liftStage]

theorem liftStage_append (f : α → List β) (l1 l2 : List (Elem α)) :
    liftStage f (l1 ++ l2) = liftStage f l1 ++ liftStage f l2 := by
  simp [liftStage]

theorem liftStage_items (g : β → List γ) (xs : List β) :
    liftStage g (xs.map .item) = (xs.flatMap g).map .item := by
  induction xs with
  | nil => rfl
  | cons x xs ih => simp [liftStage_cons, liftElem, ih]

theorem liftStage_tss (g : β → List γ) (t : Int) (xs : List β) :
    liftStage g (xs.map (fun b => .ts b t)) = (xs.flatMap g).map (fun b => .ts b t) := by
  induction xs with
  | nil => rfl
  | cons x xs ih => simp [liftStage_cons, liftElem, ih]

theorem liftStage_comp (f : α → List β) (g : β → List γ) (l : List (Elem α)) :
    liftStage g (liftStage f l) = liftStage (kleisli f g) l := by
  induction l with
  | nil => rfl
  | cons e l ih =>
    rw [liftStage_cons, liftStage_cons, liftStage_append, ih]
    congr 1
    cases e with
    | item a => simp only [liftElem, kleisli]; exact liftStage_items g (f a)
    | ts a t => simp only [liftElem, kleisli]; exact liftStage_tss g t (f a)
    | wm t => rfl
    | flushBatch => rfl
    | far => rfl
    | term => rfl

theorem liftElem_filter (f : α → List β) (e : Elem α) :
    (liftElem f e).filter notFlushBatch = if notFlushBatch e then liftElem f e else [] := by
  cases e with
  | item a =>
    simp only [liftElem, notFlushBatch, if_true]
    induction f a with
    | nil => rfl
    | cons x xs ih => simp [notFlushBatch]
  | ts a t =>
    simp only [liftElem, notFlushBatch, if_true]
    induction f a with
    | nil => rfl
    | cons x xs ih => simp [notFlushBatch]
  | wm t => rfl
  | flushBatch => rfl
  | far => rfl
  | term => rfl

/-- dropping the `FlushBatch` hints commutes with a stage -/
theorem liftStage_filter (f : α → List β) (l : List (Elem α)) :
    (liftStage f l).filter notFlushBatch = liftStage f (l.filter notFlushBatch) := by
  induction l with
  | nil => rfl
  | cons e l ih =>
    rw [liftStage_cons, List.filter_append, ih, liftElem_filter, List.filter_cons]
    cases h : notFlushBatch e <;> simp [liftStage_cons]

/-- a stage whose user state is never consulted is a stateless stage -/
theorem liftStageAcc_const {σ : Type} (f : α → List β) (l : List (Elem α)) : ∀ s : σ,
    liftStageAcc (fun s a => (s, f a)) s l = liftStage f l := by
  induction l with
  | nil => intro s; rfl
  | cons e l ih => intro s; cases e <;> simp [liftStageAcc, liftStage_cons, liftElem, ih]

/-- the payloads of the data elements of a stream, in order -/
def dataOf (l : List (Elem α)) : List α := l.filterMap Elem.value

theorem dataOf_filter (l : List (Elem α)) : dataOf (l.filter notFlushBatch) = dataOf l := by
  induction l with
  | nil => rfl
  | cons e l ih => cases e <;> simp [dataOf, notFlushBatch, Elem.value, List.filter_cons] at ih ⊢ <;> exact ih

theorem dataOf_append (l1 l2 : List (Elem α)) : dataOf (l1 ++ l2) = dataOf l1 ++ dataOf l2 := by
  simp [dataOf]

theorem dataOf_items (xs : List β) : dataOf (xs.map Elem.item) = xs := by
  induction xs with
  | nil => rfl
  | cons x xs ih => simp only [List.map_cons, dataOf, List.filterMap_cons, Elem.value] at ih ⊢; rw [ih]

theorem dataOf_tss (t : Int) (xs : List β) : dataOf (xs.map (fun b => Elem.ts b t)) = xs := by
  induction xs with
  | nil => rfl
  | cons x xs ih => simp only [List.map_cons, dataOf, List.filterMap_cons, Elem.value] at ih ⊢; rw [ih]

theorem dataOf_liftStage (f : α → List β) (l : List (Elem α)) :
    dataOf (liftStage f l) = (dataOf l).flatMap f := by
  induction l with
  | nil => rfl
  | cons e l ih =>
    rw [liftStage_cons, dataOf_append, ih]
    cases e with
    | item a =>
      show dataOf ((f a).map Elem.item) ++ _ = (a :: dataOf l).flatMap f
      rw [dataOf_items, List.flatMap_cons]
    | ts a t =>
      show dataOf ((f a).map (fun b => Elem.ts b t)) ++ _ = (a :: dataOf l).flatMap f
      rw [dataOf_tss, List.flatMap_cons]
    | wm t => rfl
    | flushBatch => rfl
    | far => rfl
    | term => rfl

/-! ### a stage preserves the link contract -/

theorem linkOk_items (xs : List β) (L : List (Elem β)) : ∀ (lw : Option Int) (d : Bool) (c : Nat),
    ∃ d', linkOk lw d c (xs.map Elem.item ++ L) = linkOk lw d' c L := by
  induction xs with
  | nil => intro lw d c; exact ⟨d, rfl⟩
  | cons x xs ih => intro lw d c; simp only [List.map_cons, List.cons_append, linkOk]; exact ih lw true c

theorem linkOk_tss (xs : List β) (L : List (Elem β)) (t : Int) (lw : Option Int) (c : Nat)
    (h : (decide (t ≤ TS_MAX) && above lw t) = true) : ∀ (d : Bool),
    ∃ d', linkOk lw d c (xs.map (fun b => Elem.ts b t) ++ L) = linkOk lw d' c L := by
  induction xs with
  | nil => intro d; exact ⟨d, rfl⟩
  | cons x xs ih =>
    intro d
    simp only [List.map_cons, List.cons_append, linkOk, h, Bool.true_and]; exact ih true

/-- fewer elements in an iteration never hurt: `d` only guards the `Terminate` -/
theorem linkOk_dirty_mono (l : List (Elem α)) (lw : Option Int) (c : Nat) :
    linkOk lw true c l = true → ∀ d, linkOk lw d c l = true := by
  intro h d
  cases l with
  | nil => rfl
  | cons e l => cases e <;> simp_all [linkOk]

theorem linkOk_liftStage (f : α → List β) (l : List (Elem α)) : ∀ (lw : Option Int) (d : Bool) (c : Nat),
    linkOk lw d c l = true → linkOk lw d c (liftStage f l) = true := by
  induction l with
  | nil => intros; rfl
  | cons e l ih =>
    intro lw d c h
    rw [liftStage_cons]
    cases e with
    | item a =>
      simp only [linkOk] at h
      obtain ⟨d', hd'⟩ := linkOk_items (f a) (liftStage f l) lw d c
      simp only [liftElem]
      rw [hd']
      exact linkOk_dirty_mono _ lw c (ih lw true c h) d'
    | ts a t =>
      simp only [linkOk, Bool.and_eq_true] at h
      obtain ⟨d', hd'⟩ := linkOk_tss (f a) (liftStage f l) t lw c (by simpa using h.1) d
      simp only [liftElem]
      rw [hd']
      exact linkOk_dirty_mono _ lw c (ih lw true c h.2) d'
    | wm t =>
      simp only [linkOk, Bool.and_eq_true] at h
      simp only [liftElem, List.singleton_append, linkOk, Bool.and_eq_true]
      exact ⟨h.1, ih _ _ _ h.2⟩
    | flushBatch => simp [linkOk] at h
    | far =>
      simp only [linkOk] at h
      simp only [liftElem, List.singleton_append, linkOk]
      exact ih _ _ _ h
    | term =>
      simp only [linkOk, Bool.and_eq_true, List.isEmpty_iff] at h
      simp only [liftElem, List.singleton_append, linkOk, Bool.and_eq_true, List.isEmpty_iff]
      refine ⟨h.1, ?_⟩
      rw [h.2]; rfl

/-! ### pipelines of single-replica blocks -/

/-- one hop between two single-replica blocks: the batch mode of the producer's `End`, the
    behaviour of its batcher clock (one `elapsed` flag per element, `false` when the list runs out)
    and the number of receive timeouts of the consumer's `Start` before every batch -/
structure Hop where
  mode : Batcher.Mode
  clock : List Bool
  timeouts : List Nat

/-- what the consumer's `Start` hands to its operator chain when the producer's chain yields `l`:
    `End` + `Batcher` (Model/Batcher.lean) cut `l` into batches, the link delivers them in sending
    order (`Noir.Link.link_exact_at_quiescence`), `Start` (Model/Start.lean) consumes them with
    receive timeouts in between -/
def hop (h : Hop) (l : List (Elem α)) : List (Elem α) :=
  Start.run 1 (arrivalsOf h.timeouts (Batcher.run h.mode [] (opsOfScript h.clock l)).2)

/-- a sequential pipeline: `k + 1` blocks (each with its operator chain as a stage, the element
    type may change from block to block) joined by `k` hops -/
inductive Chain : Type → Type → Type 1 where
  | last {α β : Type} (f : α → List β) : Chain α β
  | cons {α β γ : Type} (f : α → List β) (h : Hop) (rest : Chain β γ) : Chain α γ

/-- the stream observed at the end of the last block's chain when the first block reads `l` -/
def Chain.run : {α γ : Type} → Chain α γ → List (Elem α) → List (Elem γ)
  | _, _, .last f, l => liftStage f l
  | _, _, .cons f h rest, l => rest.run (hop h (liftStage f l))

/-- `stage_0 >=> … >=> stage_k` -/
def Chain.kleisli : {α γ : Type} → Chain α γ → α → List γ
  | _, _, .last f => f
  | _, _, .cons f _ rest => Stateless.kleisli f rest.kleisli

/-- the corresponding iterator chain `xs.flatMap stage_0 |>.flatMap stage_1 …` -/
def Chain.iter : {α γ : Type} → Chain α γ → List α → List γ
  | _, _, .last f, xs => xs.flatMap f
  | _, _, .cons f _ rest, xs => rest.iter (xs.flatMap f)

/-- number of hops (= number of blocks - 1) -/
def Chain.hops : {α γ : Type} → Chain α γ → Nat
  | _, _, .last _ => 0
  | _, _, .cons _ _ rest => rest.hops + 1

theorem Chain.iter_eq (c : Chain α γ) : ∀ xs : List α, c.iter xs = xs.flatMap c.kleisli := by
  induction c with
  | last f => intro xs; rfl
  | cons f h rest ih =>
    intro xs
    simp only [Chain.iter, Chain.kleisli, ih]
    exact List.flatMap_assoc

/-- the pipeline given by a first stage, a list of further stages and a list of hops (the
    shorter list decides) -/
def Chain.ofLists (f0 : α → List α) : List (α → List α) → List Hop → Chain α α
  | f :: fs, h :: hs => .cons f0 h (Chain.ofLists f fs hs)
  | _, _ => .last f0

/-- `f0 >=> f1 >=> … ` -/
def kleisliL (f0 : α → List α) : List (α → List α) → α → List α
  | [] => f0
  | f :: fs => kleisli f0 (kleisliL f fs)

theorem ofLists_kleisli (fs : List (α → List α)) : ∀ (hs : List Hop) (f0 : α → List α),
    fs.length = hs.length → (Chain.ofLists f0 fs hs).kleisli = kleisliL f0 fs := by
  induction fs with
  | nil => intro hs f0 _; cases hs <;> rfl
  | cons f fs ih =>
    intro hs f0 hl
    cases hs with
    | nil => simp at hl
    | cons h hs =>
      simp only [Chain.ofLists, Chain.kleisli, kleisliL]
      rw [ih hs f (by simpa using hl)]

theorem ofLists_hops (fs : List (α → List α)) : ∀ (hs : List Hop) (f0 : α → List α),
    fs.length = hs.length → (Chain.ofLists f0 fs hs).hops = hs.length := by
  induction fs with
  | nil => intro hs f0 hl; cases hs with
    | nil => rfl
    | cons h hs => simp at hl
  | cons f fs ih =>
    intro hs f0 hl
    cases hs with
    | nil => simp at hl
    | cons h hs =>
      simp only [Chain.ofLists, Chain.hops, List.length_cons]
      rw [ih hs f (by simpa using hl)]

theorem ofLists_iter (fs : List (α → List α)) : ∀ (hs : List Hop) (f0 : α → List α) (xs : List α),
    fs.length = hs.length →
    (Chain.ofLists f0 fs hs).iter xs = fs.foldl (fun acc f => acc.flatMap f) (xs.flatMap f0) := by
  induction fs with
  | nil => intro hs f0 xs _; cases hs <;> rfl
  | cons f fs ih =>
    intro hs f0 xs hl
    cases hs with
    | nil => simp at hl
    | cons h hs =>
      simp only [Chain.ofLists, Chain.iter, List.foldl_cons]
      rw [ih hs f _ (by simpa using hl)]

end Noir.SeqChain
