/-
  Lemmas/Batcher.lean — one-step facts about the `Batcher` model and their lift to `run`.
-/
import NoirVerif.Model.Batcher
namespace Noir.Batcher

variable {α : Type}

theorem flush_conserve (buf : List α) : (flush buf).2.flatten ++ (flush buf).1 = buf := by
  unfold flush; cases buf <;> simp

theorem end_conserve (buf : List α) : (end_ buf).2.flatten ++ (end_ buf).1 = buf := by
  unfold end_; cases buf <;> simp

/-- `Single` never buffers: the invariant under which `enqueue`'s direct send keeps the order -/
def SingleOk (m : Mode) (buf : List α) : Prop := m = .single → buf = []

theorem enqueue_conserve (m : Mode) (buf : List α) (hs : SingleOk m buf) (e : α) (el : Bool) :
    (enqueue m buf e el).2.flatten ++ (enqueue m buf e el).1 = buf ++ [e] := by
  unfold enqueue
  cases m with
  | single => simp [hs rfl]
  | fixed n =>
    simp only
    split
    · exact flush_conserve _
    · simp
  | adaptive n =>
    simp only
    split
    · exact flush_conserve _
    · simp

theorem flush_fst (buf : List α) : (flush buf).1 = [] := by
  unfold flush; cases buf <;> simp

theorem end_fst (buf : List α) : (end_ buf).1 = [] := by
  unfold end_; cases buf <;> simp

theorem step_singleOk (m : Mode) (buf : List α) (hs : SingleOk m buf) (op : Op α) :
    SingleOk m (step m buf op).1 := by
  intro hm
  subst hm
  have := hs rfl
  subst this
  cases op <;> simp [step, enqueue, flush, end_]

/-- one call: what was sent plus what is buffered is what was buffered plus what was enqueued -/
theorem step_conserve (m : Mode) (buf : List α) (hs : SingleOk m buf) (op : Op α) :
    (step m buf op).2.flatten ++ (step m buf op).1 = buf ++ enqueued [op] := by
  cases op with
  | enqueue e el => simpa [step, enqueued] using enqueue_conserve m buf hs e el
  | flush => simpa [step, enqueued] using flush_conserve buf
  | end_ => simpa [step, enqueued] using end_conserve buf

theorem enqueued_cons (op : Op α) (ops : List (Op α)) :
    enqueued (op :: ops) = enqueued [op] ++ enqueued ops := by
  cases op <;> simp [enqueued]

theorem run_conserve (m : Mode) : ∀ (ops : List (Op α)) (buf : List α), SingleOk m buf →
    (run m buf ops).2.flatten ++ (run m buf ops).1 = buf ++ enqueued ops := by
  intro ops
  induction ops with
  | nil => intro buf _; simp [run, enqueued]
  | cons op ops ih =>
    intro buf hs
    simp only [run, List.flatten_append, List.append_assoc]
    rw [ih _ (step_singleOk m buf hs op), ← List.append_assoc, step_conserve m buf hs,
      enqueued_cons op ops, List.append_assoc]

theorem flush_nonempty (buf : List α) : ∀ b ∈ (flush buf).2, b ≠ [] := by
  unfold flush; cases buf <;> simp

theorem end_nonempty (buf : List α) : ∀ b ∈ (end_ buf).2, b ≠ [] := by
  unfold end_; cases buf <;> simp

theorem step_nonempty (m : Mode) (buf : List α) (op : Op α) : ∀ b ∈ (step m buf op).2, b ≠ [] := by
  cases op with
  | flush => exact flush_nonempty buf
  | end_ => exact end_nonempty buf
  | enqueue e el =>
    simp only [step, enqueue]
    cases m with
    | single => simp
    | fixed n =>
      simp only
      split
      · exact flush_nonempty _
      · simp
    | adaptive n =>
      simp only
      split
      · exact flush_nonempty _
      · simp

theorem run_nonempty (m : Mode) : ∀ (ops : List (Op α)) (buf : List α),
    ∀ b ∈ (run m buf ops).2, b ≠ [] := by
  intro ops
  induction ops with
  | nil => intro buf; simp [run]
  | cons op ops ih =>
    intro buf b hb
    simp only [run, List.mem_append] at hb
    rcases hb with hb | hb
    · exact step_nonempty m buf op b hb
    · exact ih _ b hb

/-- size invariant of the buffer: below the batch size (`Single` never buffers) -/
def BufOk (m : Mode) (buf : List α) : Prop :=
  match m with
  | .single => buf = []
  | .fixed n => buf.length < n
  | .adaptive n => buf.length < n

theorem flush_bound (buf : List α) (k : Nat) (h : buf.length ≤ k) :
    ∀ b ∈ (flush buf).2, b.length ≤ k := by
  unfold flush; cases buf <;> simp_all

theorem end_bound (buf : List α) (k : Nat) (h : buf.length ≤ k) :
    ∀ b ∈ (end_ buf).2, b.length ≤ k := by
  unfold end_; cases buf <;> simp_all

theorem bufOk_nil (m : Mode) (hn : 1 ≤ m.maxSize) : BufOk m ([] : List α) := by
  cases m <;> simp_all [BufOk, Mode.maxSize] <;> omega

theorem bufOk_le (m : Mode) (buf : List α) (h : BufOk m buf) : buf.length ≤ m.maxSize := by
  cases m <;> simp_all [BufOk, Mode.maxSize] <;> omega

/-- one call keeps the buffer below the batch size and sends batches of at most `maxSize` -/
theorem step_bound (m : Mode) (hn : 1 ≤ m.maxSize) (buf : List α) (h : BufOk m buf) (op : Op α) :
    BufOk m (step m buf op).1 ∧ ∀ b ∈ (step m buf op).2, b.length ≤ m.maxSize := by
  cases op with
  | flush =>
    exact ⟨by simp only [step]; rw [flush_fst]; exact bufOk_nil m hn,
      flush_bound buf _ (bufOk_le m buf h)⟩
  | end_ =>
    exact ⟨by simp only [step]; rw [end_fst]; exact bufOk_nil m hn,
      end_bound buf _ (bufOk_le m buf h)⟩
  | enqueue e el =>
    simp only [step, enqueue]
    cases m with
    | single => simp_all [BufOk, Mode.maxSize]
    | fixed n =>
      simp only [BufOk, Mode.maxSize] at h hn ⊢
      split
      · refine ⟨by rw [flush_fst]; simp; omega, flush_bound _ _ (by simp; omega)⟩
      · rename_i hlt
        simp at hlt
        refine ⟨by simp; omega, by simp⟩
    | adaptive n =>
      simp only [BufOk, Mode.maxSize] at h hn ⊢
      split
      · refine ⟨by rw [flush_fst]; simp; omega, flush_bound _ _ (by simp; omega)⟩
      · rename_i hlt
        simp at hlt
        refine ⟨by simp; omega, by simp⟩

theorem run_bound (m : Mode) (hn : 1 ≤ m.maxSize) : ∀ (ops : List (Op α)) (buf : List α),
    BufOk m buf → BufOk m (run m buf ops).1 ∧ ∀ b ∈ (run m buf ops).2, b.length ≤ m.maxSize := by
  intro ops
  induction ops with
  | nil => intro buf h; simp [run, h]
  | cons op ops ih =>
    intro buf h
    obtain ⟨h1, h2⟩ := step_bound m hn buf h op
    obtain ⟨h3, h4⟩ := ih _ h1
    refine ⟨h3, ?_⟩
    intro b hb
    simp only [run, List.mem_append] at hb
    rcases hb with hb | hb
    · exact h2 b hb
    · exact h4 b hb

/-- under `Fixed n` an `enqueue` sends nothing or exactly one full batch of `n` elements -/
theorem fixed_enqueue_full (n : Nat) (buf : List α) (h : buf.length < n) (e : α) (el : Bool) :
    (enqueue (.fixed n) buf e el).2 = [] ∨
    (buf.length + 1 = n ∧ (enqueue (.fixed n) buf e el) = ([], [buf ++ [e]])) := by
  simp only [enqueue]
  split
  · rename_i hge
    simp at hge
    right
    refine ⟨by omega, ?_⟩
    simp [flush]
  · left; rfl

end Noir.Batcher
