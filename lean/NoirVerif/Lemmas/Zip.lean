/-
  Lemmas/Zip.lean — invariants and step lemmas of the `Zip` model (C09, C05/C06 for Zip).
-/
import NoirVerif.Model.Zip
namespace Noir.Zip
open Noir.Join (Bin Interleave)

variable {α β : Type}

set_option linter.unusedSimpArgs false

/-! ### `drain` -/

theorem drain_nil_left (ys : List (Elem β)) : drain ([] : List (Elem α)) ys = (⟨[], ys, false⟩, []) := by
  cases ys <;> simp [drain]

theorem drain_nil_right (xs : List (Elem α)) : drain xs ([] : List (Elem β)) = (⟨xs, [], false⟩, []) := by
  cases xs <;> simp [drain]

theorem drain_cons (x : Elem α) (xs : List (Elem α)) (y : Elem β) (ys : List (Elem β)) :
    drain (x :: xs) (y :: ys) =
      match pair x y with
      | some p => ((drain xs ys).1, p :: (drain xs ys).2)
      | none => (⟨xs, ys, true⟩, []) := by
  rw [drain]; cases pair x y <;> rfl

/-- in every state produced by `drain` one of the stashes is empty (unless it panicked) -/
theorem drain_inv : ∀ (xs : List (Elem α)) (ys : List (Elem β)),
    (drain xs ys).1.panicked = false → (drain xs ys).1.stash1 = [] ∨ (drain xs ys).1.stash2 = [] := by
  intro xs
  induction xs with
  | nil => intro ys _; left; simp [drain_nil_left]
  | cons x xs ih =>
    intro ys h
    cases ys with
    | nil => right; simp [drain_nil_right]
    | cons y ys =>
      rw [drain_cons] at h ⊢
      cases hp : pair x y with
      | none => simp [hp] at h
      | some p => simp only [hp] at h ⊢; exact ih ys h

/-- `drain` emits exactly the pairs of the zipped positions of the two stashes, in order; what is
    left in the stashes continues the zip -/
theorem drain_spec : ∀ (xs : List (Elem α)) (ys : List (Elem β)),
    (drain xs ys).1.panicked = false → ∀ (L : List (Elem α)) (R : List (Elem β)),
    (List.zip (xs ++ L) (ys ++ R)).map pairU =
      (drain xs ys).2.map some
        ++ (List.zip ((drain xs ys).1.stash1 ++ L) ((drain xs ys).1.stash2 ++ R)).map pairU := by
  intro xs
  induction xs with
  | nil => intro ys _ L R; simp [drain_nil_left]
  | cons x xs ih =>
    intro ys h L R
    cases ys with
    | nil => simp [drain_nil_right]
    | cons y ys =>
      rw [drain_cons] at h ⊢
      cases hp : pair x y with
      | none => simp [hp] at h
      | some p =>
        simp only [hp] at h ⊢
        simp only [List.cons_append, List.zip_cons_cons, List.map_cons]
        rw [ih ys h L R]
        simp [pairU, hp]

/-- every element `drain` emits is a data element -/
theorem pair_isData {x : Elem α} {y : Elem β} {p : Elem (α × β)} (h : pair x y = some p) : p.isData = true := by
  cases x <;> cases y <;> simp [pair] at h <;> subst h <;> rfl

theorem drain_out_data : ∀ (xs : List (Elem α)) (ys : List (Elem β)), ∀ p ∈ (drain xs ys).2, p.isData = true := by
  intro xs
  induction xs with
  | nil => intro ys p hp; simp [drain_nil_left] at hp
  | cons x xs ih =>
    intro ys p hp
    cases ys with
    | nil => simp [drain_nil_right] at hp
    | cons y ys =>
      rw [drain_cons] at hp
      cases hq : pair x y with
      | none => simp [hq] at hp
      | some q =>
        simp only [hq, List.mem_cons] at hp
        rcases hp with rfl | hp
        · exact pair_isData hq
        · exact ih ys p hp

/-! ### `step` -/

/-- the invariant of `Zip`: one of the stashes is empty -/
def Inv (s : State α β) : Prop := s.stash1 = [] ∨ s.stash2 = []

theorem inv_init : Inv (State.init : State α β) := Or.inl rfl

theorem step_panicked (s : State α β) (e : Elem (Bin α β)) (h : s.panicked = true) : step s e = (s, []) := by
  simp [step, h]

theorem stateAfter_panicked : ∀ (es : List (Elem (Bin α β))) (s : State α β), s.panicked = true →
    (stateAfter s es).panicked = true := by
  intro es
  induction es with
  | nil => intro s h; exact h
  | cons e es ih => intro s h; simp only [stateAfter, step_panicked s e h]; exact ih s h

theorem run_panicked : ∀ (es : List (Elem (Bin α β))) (s : State α β), s.panicked = true → run s es = [] := by
  intro es
  induction es with
  | nil => intro s _; rfl
  | cons e es ih => intro s h; simp only [run, step_panicked s e h]; simpa using ih s h

/-- if the run does not panic, no prefix does -/
theorem not_panicked_of_after {es : List (Elem (Bin α β))} {s : State α β}
    (h : (stateAfter s es).panicked = false) : s.panicked = false := by
  cases hs : s.panicked with
  | false => rfl
  | true => rw [stateAfter_panicked es s hs] at h; cases h

theorem step_inv (s : State α β) (e : Elem (Bin α β)) (hi : Inv s)
    (h : (step s e).1.panicked = false) : Inv (step s e).1 := by
  have hs : s.panicked = false := by
    cases hs : s.panicked with
    | false => rfl
    | true => rw [step_panicked s e hs] at h; rw [hs] at h; cases h
  unfold step at h ⊢
  simp only [hs, Bool.false_eq_true, ↓reduceIte] at h ⊢
  cases e with
  | item b => cases b <;> first | exact drain_inv _ _ h | exact hi
  | ts b t => cases b <;> first | exact drain_inv _ _ h | exact hi
  | wm t => exact hi
  | flushBatch => exact hi
  | term => exact hi
  | far => exact Or.inl rfl

theorem stateAfter_inv : ∀ (es : List (Elem (Bin α β))) (s : State α β), Inv s →
    (stateAfter s es).panicked = false → Inv (stateAfter s es) := by
  intro es
  induction es with
  | nil => intro s hi _; exact hi
  | cons e es ih =>
    intro s hi h
    simp only [stateAfter] at h ⊢
    exact ih _ (step_inv s e hi (not_panicked_of_after h)) h

/-- One step, as seen by the specification: the pairs it emits are the next zipped positions.
    (`e` is not `FlushAndRestart`.) -/
theorem step_spec (s : State α β) (e : Elem (Bin α β)) (es : List (Elem (Bin α β)))
    (hf : e.isFar = false) (h : (step s e).1.panicked = false) :
    (List.zip (s.stash1 ++ lefts (e :: es)) (s.stash2 ++ rights (e :: es))).map pairU =
      (dataOf (step s e).2).map some
        ++ (List.zip ((step s e).1.stash1 ++ lefts es) ((step s e).1.stash2 ++ rights es)).map pairU := by
  have hs : s.panicked = false := by
    cases hs : s.panicked with
    | false => rfl
    | true => rw [step_panicked s e hs] at h; rw [hs] at h; cases h
  have hd : ∀ (xs : List (Elem α)) (ys : List (Elem β)), dataOf (drain xs ys).2 = (drain xs ys).2 := by
    intro xs ys
    exact List.filter_eq_self.mpr (drain_out_data xs ys)
  unfold step at h ⊢
  simp only [hs, Bool.false_eq_true, ↓reduceIte] at h ⊢
  cases e with
  | item b =>
    cases b with
    | left a =>
      simp only [lefts, rights] at h ⊢
      rw [hd, ← drain_spec _ _ h]; simp
    | right b =>
      simp only [lefts, rights] at h ⊢
      rw [hd, ← drain_spec _ _ h]; simp
    | leftEnd => simp [lefts, rights, dataOf]
    | rightEnd => simp [lefts, rights, dataOf]
  | ts b t =>
    cases b with
    | left a =>
      simp only [lefts, rights] at h ⊢
      rw [hd, ← drain_spec _ _ h]; simp
    | right b =>
      simp only [lefts, rights] at h ⊢
      rw [hd, ← drain_spec _ _ h]; simp
    | leftEnd => simp [lefts, rights, dataOf]
    | rightEnd => simp [lefts, rights, dataOf]
  | wm t => simp [lefts, rights, dataOf, Elem.isData]
  | flushBatch => simp [lefts, rights, dataOf, Elem.isData]
  | term => simp [lefts, rights, dataOf, Elem.isData]
  | far => simp [Elem.isFar] at hf

theorem dataOf_append {γ : Type} (a b : List (Elem γ)) : dataOf (a ++ b) = dataOf a ++ dataOf b := by
  simp [dataOf]

/-- the whole (far-free) run: emitted pairs ++ what the final stashes still promise = the zip of
    everything the two sides delivered -/
theorem run_spec : ∀ (es : List (Elem (Bin α β))) (s : State α β), farFree es = true →
    (stateAfter s es).panicked = false →
    (List.zip (s.stash1 ++ lefts es) (s.stash2 ++ rights es)).map pairU =
      (dataOf (run s es)).map some
        ++ (List.zip (stateAfter s es).stash1 (stateAfter s es).stash2).map pairU := by
  intro es
  induction es with
  | nil => intro s _ _; simp [lefts, rights, run, stateAfter, dataOf]
  | cons e es ih =>
    intro s hf h
    simp only [farFree, List.all_cons, Bool.and_eq_true, Bool.not_eq_true'] at hf
    simp only [stateAfter] at h
    have h1 := not_panicked_of_after h
    rw [step_spec s e es hf.1 h1]
    simp only [run, stateAfter, dataOf_append, List.map_append, List.append_assoc]
    rw [ih (step s e).1 (by simpa [farFree] using hf.2) h]

theorem zip_nil_of_inv {s : State α β} (hi : Inv s) : List.zip s.stash1 s.stash2 = [] := by
  rcases hi with h | h <;> simp [h]

/-! ### `lefts` / `rights` of an interleaving -/

theorem lefts_append (a b : List (Elem (Bin α β))) : lefts (a ++ b) = lefts a ++ lefts b := by
  induction a with
  | nil => rfl
  | cons e a ih =>
    cases e with
    | item x => cases x <;> simp [lefts, ih]
    | ts x t => cases x <;> simp [lefts, ih]
    | _ => simp [lefts, ih]

theorem rights_append (a b : List (Elem (Bin α β))) : rights (a ++ b) = rights a ++ rights b := by
  induction a with
  | nil => rfl
  | cons e a ih =>
    cases e with
    | item x => cases x <;> simp [rights, ih]
    | ts x t => cases x <;> simp [rights, ih]
    | _ => simp [rights, ih]

/-- how the binary start presents a left / right data element -/
def wrapL (e : Elem α) : Elem (Bin α β) := e.map Bin.left
def wrapR (e : Elem β) : Elem (Bin α β) := e.map Bin.right

theorem lefts_wrapL : ∀ (a : List (Elem α)), (∀ x ∈ a, x.isData = true) →
    lefts (a.map (wrapL (β := β))) = a ∧ rights (a.map (wrapL (β := β))) = [] := by
  intro a
  induction a with
  | nil => intro _; exact ⟨rfl, rfl⟩
  | cons x a ih =>
    intro h
    have ih := ih (fun y hy => h y (List.mem_cons_of_mem _ hy))
    have hx := h x List.mem_cons_self
    cases x <;> simp [Elem.isData] at hx <;> simp [wrapL, Elem.map, lefts, rights, ih] <;> exact ih

theorem rights_wrapR : ∀ (b : List (Elem β)), (∀ x ∈ b, x.isData = true) →
    rights (b.map (wrapR (α := α))) = b ∧ lefts (b.map (wrapR (α := α))) = [] := by
  intro b
  induction b with
  | nil => intro _; exact ⟨rfl, rfl⟩
  | cons x b ih =>
    intro h
    have ih := ih (fun y hy => h y (List.mem_cons_of_mem _ hy))
    have hx := h x List.mem_cons_self
    cases x <;> simp [Elem.isData] at hx <;> simp [wrapR, Elem.map, lefts, rights, ih] <;> exact ih

/-- `lefts`/`rights` are determined by the two sides of an interleaving -/
theorem lefts_interleave {xs ys zs : List (Elem (Bin α β))} (h : Interleave xs ys zs) :
    (rights xs = [] → lefts ys = [] → lefts zs = lefts xs) ∧
    (rights xs = [] → lefts ys = [] → rights zs = rights ys) := by
  induction h with
  | nil => exact ⟨fun _ _ => rfl, fun _ _ => rfl⟩
  | @left x xs ys zs _ ih =>
    constructor
    · intro hx hy
      cases x with
      | item b => cases b <;> simp [lefts, rights] at hx ⊢ <;> exact ih.1 hx hy
      | ts b t => cases b <;> simp [lefts, rights] at hx ⊢ <;> exact ih.1 hx hy
      | _ => simp [lefts, rights] at hx ⊢ <;> exact ih.1 hx hy
    · intro hx hy
      cases x with
      | item b => cases b <;> simp [lefts, rights] at hx ⊢ <;> exact ih.2 hx hy
      | ts b t => cases b <;> simp [lefts, rights] at hx ⊢ <;> exact ih.2 hx hy
      | _ => simp [lefts, rights] at hx ⊢ <;> exact ih.2 hx hy
  | @right y xs ys zs _ ih =>
    constructor
    · intro hx hy
      cases y with
      | item b => cases b <;> simp [lefts, rights] at hy ⊢ <;> exact ih.1 hx hy
      | ts b t => cases b <;> simp [lefts, rights] at hy ⊢ <;> exact ih.1 hx hy
      | _ => simp [lefts, rights] at hy ⊢ <;> exact ih.1 hx hy
    · intro hx hy
      cases y with
      | item b => cases b <;> simp [lefts, rights] at hy ⊢ <;> exact ih.2 hx hy
      | ts b t => cases b <;> simp [lefts, rights] at hy ⊢ <;> exact ih.2 hx hy
      | _ => simp [lefts, rights] at hy ⊢ <;> exact ih.2 hx hy

theorem farFree_interleave {γ : Type} {xs ys zs : List (Elem γ)} (h : Interleave xs ys zs) :
    farFree xs = true → farFree ys = true → farFree zs = true := by
  induction h with
  | nil => intro _ _; rfl
  | left _ ih =>
    intro hx hy
    simp only [farFree, List.all_cons, Bool.and_eq_true] at hx ⊢
    exact ⟨hx.1, ih hx.2 hy⟩
  | right _ ih =>
    intro hx hy
    simp only [farFree, List.all_cons, Bool.and_eq_true] at hy ⊢
    exact ⟨hy.1, ih hx hy.2⟩

/-! ### runs -/

theorem run_append : ∀ (es es' : List (Elem (Bin α β))) (s : State α β),
    run s (es ++ es') = run s es ++ run (stateAfter s es) es' := by
  intro es
  induction es with
  | nil => intro es' s; rfl
  | cons e es ih => intro es' s; simp [run, stateAfter, ih]

theorem stateAfter_append : ∀ (es es' : List (Elem (Bin α β))) (s : State α β),
    stateAfter s (es ++ es') = stateAfter (stateAfter s es) es' := by
  intro es
  induction es with
  | nil => intro es' s; rfl
  | cons e es ih => intro es' s; simp [stateAfter, ih]

theorem step_far (s : State α β) (hs : s.panicked = false) : step s .far = (State.init, [.far]) := by
  simp [step, hs, State.init]

theorem run_far (s : State α β) (hs : s.panicked = false) : run s [.far] = [.far] := by
  simp [run, step_far s hs]

/-! ### payloads -/

theorem filterMap_value_dataOf {γ : Type} (l : List (Elem γ)) :
    (dataOf l).filterMap Elem.value = l.filterMap Elem.value := by
  induction l with
  | nil => rfl
  | cons e l ih =>
    cases e <;> simp [dataOf, List.filter_cons, Elem.isData, Elem.value] at ih ⊢ <;> exact ih

theorem lefts_data : ∀ (es : List (Elem (Bin α β))), ∀ x ∈ lefts es, x.isData = true := by
  intro es
  induction es with
  | nil => intro x hx; simp [lefts] at hx
  | cons e es ih =>
    intro x hx
    cases e with
    | item b => cases b <;> simp [lefts] at hx <;> first | exact ih x hx | (rcases hx with rfl | hx; rfl; exact ih x hx)
    | ts b t => cases b <;> simp [lefts] at hx <;> first | exact ih x hx | (rcases hx with rfl | hx; rfl; exact ih x hx)
    | _ => simp [lefts] at hx <;> exact ih x hx

theorem rights_data : ∀ (es : List (Elem (Bin α β))), ∀ x ∈ rights es, x.isData = true := by
  intro es
  induction es with
  | nil => intro x hx; simp [rights] at hx
  | cons e es ih =>
    intro x hx
    cases e with
    | item b => cases b <;> simp [rights] at hx <;> first | exact ih x hx | (rcases hx with rfl | hx; rfl; exact ih x hx)
    | ts b t => cases b <;> simp [rights] at hx <;> first | exact ih x hx | (rcases hx with rfl | hx; rfl; exact ih x hx)
    | _ => simp [rights] at hx <;> exact ih x hx

/-- if `ps` are the pairs of the zipped positions of `L` and `R`, their payloads are the zip of the payloads -/
theorem values_of_pairs : ∀ (L : List (Elem α)) (R : List (Elem β)) (ps : List (Elem (α × β))),
    (∀ x ∈ L, x.isData = true) → (∀ y ∈ R, y.isData = true) →
    ps.map some = (List.zip L R).map pairU →
    ps.filterMap Elem.value = List.zip (L.filterMap Elem.value) (R.filterMap Elem.value) := by
  intro L
  induction L with
  | nil => intro R ps _ _ h; simp at h; simp [h]
  | cons x L ih =>
    intro R ps hL hR h
    cases R with
    | nil => simp at h; simp [h]
    | cons y R =>
      cases ps with
      | nil => simp at h
      | cons p ps =>
        simp only [List.zip_cons_cons, List.map_cons, List.cons.injEq] at h
        have hx := hL x List.mem_cons_self
        have hy := hR y List.mem_cons_self
        have ih' := ih R ps (fun z hz => hL z (List.mem_cons_of_mem _ hz))
          (fun z hz => hR z (List.mem_cons_of_mem _ hz)) h.2
        have hp := h.1
        cases x <;> simp [Elem.isData] at hx <;> cases y <;> simp [Elem.isData] at hy <;>
          simp [pairU, pair] at hp <;> subst hp <;> simp [Elem.value, ih']

theorem map_fst_zip_take {γ δ : Type} : ∀ (l : List γ) (r : List δ),
    (List.zip l r).map Prod.fst = l.take (List.zip l r).length := by
  intro l
  induction l with
  | nil => intro r; simp
  | cons x l ih => intro r; cases r with
    | nil => simp
    | cons y r => simp [ih r]

theorem map_snd_zip_take {γ δ : Type} : ∀ (l : List γ) (r : List δ),
    (List.zip l r).map Prod.snd = r.take (List.zip l r).length := by
  intro l
  induction l with
  | nil => intro r; simp
  | cons x l ih => intro r; cases r with
    | nil => simp
    | cons y r => simp [ih r]

/-! ### plain inputs never panic -/

def isPlain {γ : Type} : Elem γ → Bool
  | .item _ => true
  | _ => false

theorem drain_plain : ∀ (xs : List (Elem α)) (ys : List (Elem β)),
    (∀ x ∈ xs, isPlain x = true) → (∀ y ∈ ys, isPlain y = true) →
    (drain xs ys).1.panicked = false ∧ (∀ x ∈ (drain xs ys).1.stash1, isPlain x = true) ∧
      (∀ y ∈ (drain xs ys).1.stash2, isPlain y = true) := by
  intro xs
  induction xs with
  | nil => intro ys _ hy; rw [drain_nil_left]; exact ⟨rfl, by simp, hy⟩
  | cons x xs ih =>
    intro ys hx hy
    cases ys with
    | nil => rw [drain_nil_right]; exact ⟨rfl, hx, by simp⟩
    | cons y ys =>
      have h1 := hx x List.mem_cons_self
      have h2 := hy y List.mem_cons_self
      rw [drain_cons]
      cases x <;> simp [isPlain] at h1
      cases y <;> simp [isPlain] at h2
      simp only [pair]
      exact ih ys (fun z hz => hx z (List.mem_cons_of_mem _ hz)) (fun z hz => hy z (List.mem_cons_of_mem _ hz))

theorem stateAfter_plain : ∀ (es : List (Elem (Bin α β))) (s : State α β),
    (∀ e ∈ es, ∀ b t, e ≠ .ts b t) →
    (s.panicked = false ∧ (∀ x ∈ s.stash1, isPlain x = true) ∧ (∀ y ∈ s.stash2, isPlain y = true)) →
    (stateAfter s es).panicked = false ∧ (∀ x ∈ (stateAfter s es).stash1, isPlain x = true) ∧
      (∀ y ∈ (stateAfter s es).stash2, isPlain y = true) := by
  intro es
  induction es with
  | nil => intro s _ h; exact h
  | cons e es ih =>
    intro s he h
    simp only [stateAfter]
    apply ih _ (fun e' he' => he e' (List.mem_cons_of_mem _ he'))
    have hne := he e List.mem_cons_self
    obtain ⟨hs, h1, h2⟩ := h
    unfold step
    simp only [hs, Bool.false_eq_true, ↓reduceIte]
    cases e with
    | item b =>
      cases b with
      | left a =>
        exact drain_plain _ _ (by
          intro x hx; rcases List.mem_append.mp hx with hx | hx
          · exact h1 x hx
          · simp at hx; subst hx; rfl) h2
      | right a =>
        exact drain_plain _ _ h1 (by
          intro x hx; rcases List.mem_append.mp hx with hx | hx
          · exact h2 x hx
          · simp at hx; subst hx; rfl)
      | leftEnd => exact ⟨hs, h1, h2⟩
      | rightEnd => exact ⟨hs, h1, h2⟩
    | ts b t => exact absurd rfl (hne b t)
    | wm t => exact ⟨hs, h1, h2⟩
    | flushBatch => exact ⟨hs, h1, h2⟩
    | term => exact ⟨hs, h1, h2⟩
    | far => exact ⟨rfl, by simp, by simp⟩

end Noir.Zip
