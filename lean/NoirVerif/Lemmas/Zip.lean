/-
  Lemmas/Zip.lean — invariants and step lemmas of the `Zip` model (C09, C05/C06 for Zip).
-/
import NoirVerif.Model.Zip
namespace Noir.Zip
open Noir.Join (Bin Interleave)

variable {α β : Type}

set_option linter.unusedSimpArgs false

/-! ### `drain` -/

theorem drain_nil_left (ys : List (Elem β)) : drain ([] : List (Elem α)) ys = (⟨[], ys, false⟩, []) := by
  cases ys <;> simp [drain]

theorem drain_nil_right (xs : List (Elem α)) : drain xs ([] : List (Elem β)) = (⟨xs, [], false⟩, []) := by
  cases xs <;> simp [drain]

theorem drain_cons (x : Elem α) (xs : List (Elem α)) (y : Elem β) (ys : List (Elem β)) :
    drain (x :: xs) (y :: ys) =
      match pair x y with
      | some p => ((drain xs ys).1, p :: (drain xs ys).2)
      | none => (⟨xs, ys, true⟩, []) := by
  rw [drain]; cases pair x y <;> rfl

/-- in every state produced by `drain` one of the stashes is empty (unless it panicked) -/
theorem drain_inv : ∀ (xs : List (Elem α)) (ys : List (Elem β)),
    (drain xs ys).1.panicked = false → (drain xs ys).1.stash1 = [] ∨ (drain xs ys).1.stash2 = [] := by
  intro xs
  induction xs with
  | nil => intro ys _; left; simp [drain_nil_left]
  | cons x xs ih =>
    intro ys h
    cases ys with
    | nil => right; simp [drain_nil_right]
    | cons y ys =>
      rw [drain_cons] at h ⊢
      cases hp : pair x y with
      | none => simp [hp] at h
      | some p => simp only [hp] at h ⊢; exact ih ys h

/-- `drain` emits exactly the pairs of the zipped positions of the two stashes, in order; what is
    left in the stashes continues the zip -/
theorem drain_spec : ∀ (xs : List (Elem α)) (ys : List (Elem β)),
    (drain xs ys).1.panicked = false → ∀ (L : List (Elem α)) (R : List (Elem β)),
    (List.zip (xs ++ L) (ys ++ R)).map pairU =
      (drain xs ys).2.map some
        ++ (List.zip ((drain xs ys).1.stash1 ++ L) ((drain xs ys).1.stash2 ++ R)).map pairU := by
  intro xs
  induction xs with
  | nil => intro ys _ L R; simp [drain_nil_left]
  | cons x xs ih =>
    intro ys h L R
    cases ys with
    | nil => simp [drain_nil_right]
    | cons y ys =>
      rw [drain_cons] at h ⊢
      cases hp : pair x y with
      | none => simp [hp] at h
      | some p =>
        simp only [hp] at h ⊢
        simp only [List.cons_append, List.zip_cons_cons, List.map_cons]
        rw [ih ys h L R]
        simp [pairU, hp]

/-- every element `drain` emits is a data element -/
theorem pair_isData {x : Elem α} {y : Elem β} {p : Elem (α × β)} (h : pair x y = some p) : p.isData = true := by
  cases x <;> cases y <;> simp [pair] at h <;> subst h <;> rfl

theorem drain_out_data : ∀ (xs : List (Elem α)) (ys : List (Elem β)), ∀ p ∈ (drain xs ys).2, p.isData = true := by
  intro xs
  induction xs with
  | nil => intro ys p hp; simp [drain_nil_left] at hp
  | cons x xs ih =>
    intro ys p hp
    cases ys with
    | nil => simp [drain_nil_right] at hp
    | cons y ys =>
      rw [drain_cons] at hp
      cases hq : pair x y with
      | none => simp [hq] at hp
      | some q =>
        simp only [hq, List.mem_cons] at hp
        rcases hp with rfl | hp
        · exact pair_isData hq
        · exact ih ys p hp

/-! ### `step` -/

/-- the invariant of `Zip`: one of the stashes is empty -/
def Inv (s : State α β) : Prop := s.stash1 = [] ∨ s.stash2 = []

theorem inv_init : Inv (State.init : State α β) := Or.inl rfl

theorem step_panicked (s : State α β) (e : Elem (Bin α β)) (h : s.panicked = true) : step s e = (s, []) := by
  simp [step, h]

theorem stateAfter_panicked : ∀ (es : List (Elem (Bin α β))) (s : State α β), s.panicked = true →
    (stateAfter s es).panicked = true := by
  intro es
  induction es with
  | nil => intro s h; exact h
  | cons e es ih => intro s h; simp only [stateAfter, step_panicked s e h]; exact ih s h

theorem run_panicked : ∀ (es : List (Elem (Bin α β))) (s : State α β), s.panicked = true → run s es = [] := by
  intro es
  induction es with
  | nil => intro s _; rfl
  | cons e es ih => intro s h; simp only [run, step_panicked s e h]; simpa using ih s h

/-- if the run does not panic, no prefix does -/
theorem not_panicked_of_after {es : List (Elem (Bin α β))} {s : State α β}
    (h : (stateAfter s es).panicked = false) : s.panicked = false := by
  cases hs : s.panicked with
  | false => rfl
  | true => rw [stateAfter_panicked es s hs] at h; cases h

theorem step_inv (s : State α β) (e : Elem (Bin α β)) (hi : Inv s)
    (h : (step s e).1.panicked = false) : Inv (step s e).1 := by
  have hs : s.panicked = false := by
    cases hs : s.panicked with
    | false => rfl
    | true => rw [step_panicked s e hs] at h; rw [hs] at h; cases h
  unfold step at h ⊢
  simp only [hs, Bool.false_eq_true, ↓reduceIte] at h ⊢
  cases e with
  | item b => cases b <;> first | exact drain_inv _ _ h | exact hi
  | ts b t => cases b <;> first | exact drain_inv _ _ h | exact hi
  | wm t => exact hi
  | flushBatch => exact hi
  | term => exact hi
  | far => exact Or.inl rfl

theorem stateAfter_inv : ∀ (es : List (Elem (Bin α β))) (s : State α β), Inv s →
    (stateAfter s es).panicked = false → Inv (stateAfter s es) := by
  intro es
  induction es with
  | nil => intro s hi _; exact hi
  | cons e es ih =>
    intro s hi h
    simp only [stateAfter] at h ⊢
    exact ih _ (step_inv s e hi (not_panicked_of_after h)) h

/-- One step, as seen by the specification: the pairs it emits are the next zipped positions.
    (`e` is not `FlushAndRestart`.) -/
theorem step_spec (s : State α β) (e : Elem (Bin α β)) (es : List (Elem (Bin α β)))
    (hf : e.isFar = false) (h : (step s e).1.panicked = false) :
    (List.zip (s.stash1 ++ lefts (e :: es)) (s.stash2 ++ rights (e :: es))).map pairU =
      (dataOf (step s e).2).map some
        ++ (List.zip ((step s e).1.stash1 ++ lefts es) ((step s e).1.stash2 ++ rights es)).map pairU := by
  have hs : s.panicked = false := by
    cases hs : s.panicked with
    | false => rfl
    | true => rw [step_panicked s e hs] at h; rw [hs] at h; cases h
  have hd : ∀ (xs : List (Elem α)) (ys : List (Elem β)), dataOf (drain xs ys).2 = (drain xs ys).2 := by
    intro xs ys
    exact List.filter_eq_self.mpr (drain_out_data xs ys)
  unfold step at h ⊢
  simp only [hs, Bool.false_eq_true, ↓reduceIte] at h ⊢
  cases e with
  | item b =>
    cases b with
    | left a =>
      simp only [lefts, rights] at h ⊢
      rw [hd, ← drain_spec _ _ h]; simp
    | right b =>
      simp only [lefts, rights] at h ⊢
      rw [hd, ← drain_spec _ _ h]; simp
    | leftEnd => simp [lefts, rights, dataOf]
    | rightEnd => simp [lefts, rights, dataOf]
  | ts b t =>
    cases b with
    | left a =>
      simp only [lefts, rights] at h ⊢
      rw [hd, ← drain_spec _ _ h]; simp
    | right b =>
      simp only [lefts, rights] at h ⊢
      rw [hd, ← drain_spec _ _ h]; simp
    | leftEnd => simp [lefts, rights, dataOf]
    | rightEnd => simp [lefts, rights, dataOf]
  | wm t => simp [lefts, rights, dataOf, Elem.isData]
  | flushBatch => simp [lefts, rights, dataOf, Elem.isData]
  | term => simp [lefts, rights, dataOf, Elem.isData]
  | far => simp [Elem.isFar] at hf

theorem dataOf_append {γ : Type} (a b : List (Elem γ)) : dataOf (a ++ b) = dataOf a ++ dataOf b := by
  simp [dataOf]

/-- the whole (far-free) run: emitted pairs ++ what the final stashes still promise = the zip of
    everything the two sides delivered -/
theorem run_spec : ∀ (es : List (Elem (Bin α β))) (s : State α β), farFree es = true →
    (stateAfter s es).panicked = false →
    (List.zip (s.stash1 ++ lefts es) (s.stash2 ++ rights es)).map pairU =
      (dataOf (run s es)).map some
        ++ (List.zip (stateAfter s es).stash1 (stateAfter s es).stash2).map pairU := by
  intro es
  induction es with
  | nil => intro s _ _; simp [lefts, rights, run, stateAfter, dataOf]
  | cons e es ih =>
    intro s hf h
    simp only [farFree, List.all_cons, Bool.and_eq_true, Bool.not_eq_true'] at hf
    simp only [stateAfter] at h
    have h1 := not_panicked_of_after h
    rw [step_spec s e es hf.1 h1]
    simp only [run, stateAfter, dataOf_append, List.map_append, List.append_assoc]
    rw [ih (step s e).1 (by simpa [farFree] using hf.2) h]

theorem zip_nil_of_inv {s : State α β} (hi : Inv s) : List.zip s.stash1 s.stash2 = [] := by
  rcases hi with h | h <;> simp [h]

/-! ### `lefts` / `rights` of an interleaving -/

theorem lefts_append (a b : List (Elem (Bin α β))) : lefts (a ++ b) = lefts a ++ lefts b := by
  induction a with
  | nil => rfl
  | cons e a ih =>
    cases e with
    | item x => cases x <;> simp [lefts, ih]
    | ts x t => cases x <;> simp [lefts, ih]
    | _ => simp [lefts, ih]

theorem rights_append (a b : List (Elem (Bin α β))) : rights (a ++ b) = rights a ++ rights b := by
  induction a with
  | nil => rfl
  | cons e a ih =>
    cases e with
    | item x => cases x <;> simp [rights, ih]
    | ts x t => cases x <;> simp [rights, ih]
    | _ => simp [rights, ih]

/-- how the binary start presents a left / right data element -/
def wrapL (e : Elem α) : Elem (Bin α β) := e.map Bin.left
def wrapR (e : Elem β) : Elem (Bin α β) := e.map Bin.right

theorem lefts_wrapL : ∀ (a : List (Elem α)), (∀ x ∈ a, x.isData = true) →
    lefts (a.map (wrapL (β := β))) = a ∧ rights (a.map (wrapL (β := β))) = [] := by
  intro a
  induction a with
  | nil => intro _; exact ⟨rfl, rfl⟩
  | cons x a ih =>
    intro h
    have ih := ih (fun y hy => h y (List.mem_cons_of_mem _ hy))
    have hx := h x List.mem_cons_self
    cases x <;> simp [Elem.isData] at hx <;> simp [wrapL, Elem.map, lefts, rights, ih] <;> exact ih

theorem rights_wrapR : ∀ (b : List (Elem β)), (∀ x ∈ b, x.isData = true) →
    rights (b.map (wrapR (α := α))) = b ∧ lefts (b.map (wrapR (α := α))) = [] := by
  intro b
  induction b with
  | nil => intro _; exact ⟨rfl, rfl⟩
  | cons x b ih =>
    intro h
    have ih := ih (fun y hy => h y (List.mem_cons_of_mem _ hy))
    have hx := h x List.mem_cons_self
    cases x <;> simp [Elem.isData] at hx <;> simp [wrapR, Elem.map, lefts, rights, ih] <;> exact ih

/-- `lefts`/`rights` are determined by the two sides of an interleaving -/
theorem lefts_interleave {xs ys zs : List (Elem (Bin α β))} (h : Interleave xs ys zs) :
    (rights xs = [] → lefts ys = [] → lefts zs = lefts xs) ∧
    (rights xs = [] → lefts ys = [] → rights zs = rights ys) := by
  induction h with
  | nil => exact ⟨fun _ _ => rfl, fun _ _ => rfl⟩
  | @left x xs ys zs _ ih =>
    constructor
    · intro hx hy
      cases x with
      | item b => cases b <;> simp [lefts, rights] at hx ⊢ <;> exact ih.1 hx hy
      | ts b t => cases b <;> simp [lefts, rights] at hx ⊢ <;> exact ih.1 hx hy
      | _ => simp [lefts, rights] at hx ⊢ <;> exact ih.1 hx hy
    · intro hx hy
      cases x with
      | item b => cases b <;> simp [lefts, rights] at hx ⊢ <;> exact ih.2 hx hy
      | ts b t => cases b <;> simp [lefts, rights] at hx ⊢ <;> exact ih.2 hx hy
      | _ => simp [lefts, rights] at hx ⊢ <;> exact ih.2 hx hy
  | @right y xs ys zs _ ih =>
    constructor
    · intro hx hy
      cases y with
      | item b => cases b <;> simp [lefts, rights] at hy ⊢ <;> exact ih.1 hx hy
      | ts b t => cases b <;> simp [lefts, rights] at hy ⊢ <;> exact ih.1 hx hy
      | _ => simp [lefts, rights] at hy ⊢ <;> exact ih.1 hx hy
    · intro hx hy
      cases y with
      | item b => cases b <;> simp [lefts, rights] at hy ⊢ <;> exact ih.2 hx hy
      | ts b t => cases b <;> simp [lefts, rights] at hy ⊢ <;> exact ih.2 hx hy
      | _ => simp [lefts, rights] at hy ⊢ <;> exact ih.2 hx hy

theorem farFree_interleave {γ : Type} {xs ys zs : List (Elem γ)} (h : Interleave xs ys zs) :
    farFree xs = true → farFree ys = true → farFree zs = true := by
  induction h with
  | nil => intro _ _; rfl
  | left _ ih =>
    intro hx hy
    simp only [farFree, List.all_cons, Bool.and_eq_true] at hx ⊢
    exact ⟨hx.1, ih hx.2 hy⟩
  | right _ ih =>
    intro hx hy
    simp only [farFree, List.all_cons, Bool.and_eq_true] at hy ⊢
    exact ⟨hy.1, ih hx hy.2⟩

/-! ### runs -/

theorem run_append : ∀ (es es' : List (Elem (Bin α β))) (s : State α β),
    run s (es ++ es') = run s es ++ run (stateAfter s es) es' := by
  intro es
  induction es with
  | nil => intro es' s; rfl
  | cons e es ih => intro es' s; simp [run, stateAfter, ih]

theorem stateAfter_append : ∀ (es es' : List (Elem (Bin α β))) (s : State α β),
    stateAfter s (es ++ es') = stateAfter (stateAfter s es) es' := by
  intro es
  induction es with
  | nil => intro es' s; rfl
  | cons e es ih => intro es' s; simp [stateAfter, ih]

theorem step_far (s : State α β) (hs : s.panicked = false) : step s .far = (State.init, [.far]) := by
  simp [step, hs, State.init]

theorem run_far (s : State α β) (hs : s.panicked = false) : run s [.far] = [.far] := by
  simp [run, step_far s hs]

/-! ### payloads -/

theorem filterMap_value_dataOf {γ : Type} (l : List (Elem γ)) :
    (dataOf l).filterMap Elem.value = l.filterMap Elem.value := by
  induction l with
  | nil => rfl
  | cons e l ih =>
    cases e <;> simp [dataOf, List.filter_cons, Elem.isData, Elem.value] at ih ⊢ <;> exact ih

theorem lefts_data : ∀ (es : List (Elem (Bin α β))), ∀ x ∈ lefts es, x.isData = true := by
  intro es
  induction es with
  | nil => intro x hx; simp [lefts] at hx
  | cons e es ih =>
    intro x hx
    cases e with
    | item b => cases b <;> simp [lefts] at hx <;> first | exact ih x hx | (rcases hx with rfl | hx; rfl; exact ih x hx)
    | ts b t => cases b <;> simp [lefts] at hx <;> first | exact ih x hx | (rcases hx with rfl | hx; rfl; exact ih x hx)
    | _ => simp [lefts] at hx <;> exact ih x hx

theorem rights_data : ∀ (es : List (Elem (Bin α β))), ∀ x ∈ rights es, x.isData = true := by
  intro es
  induction es with
  | nil => intro x hx; simp [rights] at hx
  | cons e es ih =>
    intro x hx
    cases e with
    | item b => cases b <;> simp [rights] at hx <;> first | exact ih x hx | (rcases hx with rfl | hx; rfl; exact ih x hx)
    | ts b t => cases b <;> simp [rights] at hx <;> first | exact ih x hx | (rcases hx with rfl | hx; rfl; exact ih x hx)
    | _ => simp [rights] at hx <;> exact ih x hx

/-- if `ps` are the pairs of the zipped positions of `L` and `R`, their payloads are the zip of the payloads -/
theorem values_of_pairs : ∀ (L : List (Elem α)) (R : List (Elem β)) (ps : List (Elem (α × β))),
    (∀ x ∈ L, x.isData = true) → (∀ y ∈ R, y.isData = true) →
    ps.map some = (List.zip L R).map pairU →
    ps.filterMap Elem.value = List.zip (L.filterMap Elem.value) (R.filterMap Elem.value) := by
  intro L
  induction L with
  | nil => intro R ps _ _ h; simp at h; simp [h]
  | cons x L ih =>
    intro R ps hL hR h
    cases R with
    | nil => simp at h; simp [h]
    | cons y R =>
      cases ps with
      | nil => simp at h
      | cons p ps =>
        simp only [List.zip_cons_cons, List.map_cons, List.cons.injEq] at h
        have hx := hL x List.mem_cons_self
        have hy := hR y List.mem_cons_self
        have ih' := ih R ps (fun z hz => hL z (List.mem_cons_of_mem _ hz))
          (fun z hz => hR z (List.mem_cons_of_mem _ hz)) h.2
        have hp := h.1
        cases x <;> simp [Elem.isData] at hx <;> cases y <;> simp [Elem.isData] at hy <;>
          simp [pairU, pair] at hp <;> subst hp <;> simp [Elem.value, ih']

theorem map_fst_zip_take {γ δ : Type} : ∀ (l : List γ) (r : List δ),
    (List.zip l r).map Prod.fst = l.take (List.zip l r).length := by
  intro l
  induction l with
  | nil => intro r; simp
  | cons x l ih => intro r; cases r with
    | nil => simp
    | cons y r => simp [ih r]

theorem map_snd_zip_take {γ δ : Type} : ∀ (l : List γ) (r : List δ),
    (List.zip l r).map Prod.snd = r.take (List.zip l r).length := by
  intro l
  induction l with
  | nil => intro r; simp
  | cons x l ih => intro r; cases r with
    | nil => simp
    | cons y r => simp [ih r]

/-! ### plain inputs never panic -/

def isPlain {γ : Type} : Elem γ → Bool
  | .item _ => true
  | _ => false

theorem drain_plain : ∀ (xs : List (Elem α)) (ys : List (Elem β)),
    (∀ x ∈ xs, isPlain x = true) → (∀ y ∈ ys, isPlain y = true) →
    (drain xs ys).1.panicked = false ∧ (∀ x ∈ (drain xs ys).1.stash1, isPlain x = true) ∧
      (∀ y ∈ (drain xs ys).1.stash2, isPlain y = true) := by
  intro xs
  induction xs with
  | nil => intro ys _ hy; rw [drain_nil_left]; exact ⟨rfl, by simp, hy⟩
  | cons x xs ih =>
    intro ys hx hy
    cases ys with
    | nil => rw [drain_nil_right]; exact ⟨rfl, hx, by simp⟩
    | cons y ys =>
      have h1 := hx x List.mem_cons_self
      have h2 := hy y List.mem_cons_self
      rw [drain_cons]
      cases x <;> simp [isPlain] at h1
      cases y <;> simp [isPlain] at h2
      simp only [pair]
      exact ih ys (fun z hz => hx z (List.mem_cons_of_mem _ hz)) (fun z hz => hy z (List.mem_cons_of_mem _ hz))

theorem stateAfter_plain : ∀ (es : List (Elem (Bin α β))) (s : State α β),
    (∀ e ∈ es, ∀ b t, e ≠ .ts b t) →
    (s.panicked = false ∧ (∀ x ∈ s.stash1, isPlain x = true) ∧ (∀ y ∈ s.stash2, isPlain y = true)) →
    (stateAfter s es).panicked = false ∧ (∀ x ∈ (stateAfter s es).stash1, isPlain x = true) ∧
      (∀ y ∈ (stateAfter s es).stash2, isPlain y = true) := by
  intro es
  induction es with
  | nil => intro s _ h; exact h
  | cons e es ih =>
    intro s he h
    simp only [stateAfter]
    apply ih _ (fun e' he' => he e' (List.mem_cons_of_mem _ he'))
    have hne := he e List.mem_cons_self
    obtain ⟨hs, h1, h2⟩ := h
    unfold step
    simp only [hs, Bool.false_eq_true, ↓reduceIte]
    cases e with
    | item b =>
      cases b with
      | left a =>
        exact drain_plain _ _ (by
          intro x hx; rcases List.mem_append.mp hx with hx | hx
          · exact h1 x hx
          · simp at hx; subst hx; rfl) h2
      | right a =>
        exact drain_plain _ _ h1 (by
          intro x hx; rcases List.mem_append.mp hx with hx | hx
          · exact h2 x hx
          · simp at hx; subst hx; rfl)
      | leftEnd => exact ⟨hs, h1, h2⟩
      | rightEnd => exact ⟨hs, h1, h2⟩
    | ts b t => exact absurd rfl (hne b t)
    | wm t => exact ⟨hs, h1, h2⟩
    | flushBatch => exact ⟨hs, h1, h2⟩
    | term => exact ⟨hs, h1, h2⟩
    | far => exact ⟨rfl, by simp, by simp⟩

/-! ### stream grammar / watermark safety through `Zip` (C05 / C06) -/

/-- neither `FlushAndRestart` nor `Terminate` -/
def isOther {γ : Type} (e : Elem γ) : Bool := !e.isFar && !e.isTerm

theorem grammarGo_other {γ : Type} (b : Bool) (e : Elem γ) (r : List (Elem γ)) (h : isOther e = true) :
    grammarGo b (e :: r) = grammarGo false r := by
  cases e <;> simp [isOther, Elem.isFar, Elem.isTerm] at h <;> simp [grammarGo]

theorem grammarGo_mono {γ : Type} (b : Bool) : ∀ (r : List (Elem γ)), grammarGo false r = true → grammarGo b r = true := by
  intro r h
  cases r with
  | nil => simp [grammarGo] at h
  | cons e r =>
    cases e with
    | term =>
      cases r with
      | nil => simp [grammarGo] at h
      | cons _ _ => simp [grammarGo] at h
    | far => simpa [grammarGo] using h
    | item a => rw [grammarGo_other b _ r rfl]; rwa [grammarGo_other false _ r rfl] at h
    | ts a t => rw [grammarGo_other b _ r rfl]; rwa [grammarGo_other false _ r rfl] at h
    | wm t => rw [grammarGo_other b _ r rfl]; rwa [grammarGo_other false _ r rfl] at h
    | flushBatch => rw [grammarGo_other b _ r rfl]; rwa [grammarGo_other false _ r rfl] at h

theorem grammarGo_others {γ : Type} (b : Bool) : ∀ (o r : List (Elem γ)), (∀ e ∈ o, isOther e = true) →
    grammarGo false r = true → grammarGo b (o ++ r) = true := by
  intro o
  induction o generalizing b with
  | nil => intro r _ h; exact grammarGo_mono b r h
  | cons e o ih =>
    intro r ho h
    rw [List.cons_append, grammarGo_other b e _ (ho e List.mem_cons_self)]
    exact ih false r (fun e' he' => ho e' (List.mem_cons_of_mem _ he')) h

theorem isOther_of_isData {γ : Type} {e : Elem γ} (h : e.isData = true) : isOther e = true := by
  cases e <;> simp [Elem.isData] at h <;> rfl

/-- what a step on a non-end element emits contains no end marker -/
theorem step_out_other (s : State α β) (e : Elem (Bin α β)) (h : isOther e = true) :
    ∀ x ∈ (step s e).2, isOther x = true := by
  unfold step
  by_cases hs : s.panicked = true
  · simp [hs]
  · simp only [hs, Bool.false_eq_true, ↓reduceIte]
    cases e with
    | item b => cases b <;> first
      | exact fun x hx => isOther_of_isData (drain_out_data _ _ x hx)
      | simp
    | ts b t => cases b <;> first
      | exact fun x hx => isOther_of_isData (drain_out_data _ _ x hx)
      | simp
    | wm t => simp [isOther, Elem.isFar, Elem.isTerm]
    | flushBatch => simp [isOther, Elem.isFar, Elem.isTerm]
    | term => simp [isOther, Elem.isFar, Elem.isTerm] at h
    | far => simp [isOther, Elem.isFar, Elem.isTerm] at h

theorem run_grammar : ∀ (es : List (Elem (Bin α β))) (s : State α β) (b : Bool),
    (stateAfter s es).panicked = false → grammarGo b es = true → grammarGo b (run s es) = true := by
  intro es
  induction es with
  | nil => intro s b _ h; simp [grammarGo] at h
  | cons e es ih =>
    intro s b hp h
    simp only [stateAfter] at hp
    have hs : s.panicked = false := by
      cases hs : s.panicked with
      | false => rfl
      | true =>
        have := not_panicked_of_after hp
        rw [step_panicked s e hs] at this; rw [hs] at this; cases this
    cases e with
    | term =>
      cases es with
      | nil => simpa [run, step, hs, grammarGo] using h
      | cons _ _ => simp [grammarGo] at h
    | far =>
      simp only [run, step_far s hs, List.singleton_append]
      simp only [grammarGo] at h ⊢
      rw [step_far s hs] at hp
      exact ih _ true hp h
    | item x =>
      rw [grammarGo_other b _ es rfl] at h
      exact grammarGo_others b _ _ (step_out_other s _ rfl) (ih _ false hp h)
    | ts x t =>
      rw [grammarGo_other b _ es rfl] at h
      exact grammarGo_others b _ _ (step_out_other s _ rfl) (ih _ false hp h)
    | wm t =>
      rw [grammarGo_other b _ es rfl] at h
      exact grammarGo_others b _ _ (step_out_other s _ rfl) (ih _ false hp h)
    | flushBatch =>
      rw [grammarGo_other b _ es rfl] at h
      exact grammarGo_others b _ _ (step_out_other s _ rfl) (ih _ false hp h)

/-- the check `wmSafeGo` performs on a timestamp -/
def above (w : Option Int) (t : Int) : Bool := match w with | some w => decide (w < t) | none => true

theorem above_max (w : Option Int) (t u : Int) (h : above w t = true ∨ above w u = true) : above w (max t u) = true := by
  cases w with
  | none => rfl
  | some w => simp only [above, decide_eq_true_eq] at h ⊢; omega

/-- with one stash empty, a data element produces at most one pair, and the pair contains it -/
theorem drain_left_arrival (x : Elem α) (ys : List (Elem β)) :
    (drain [x] ys).2 = [] ∨ ∃ y ys' p, ys = y :: ys' ∧ pair x y = some p ∧ (drain [x] ys).2 = [p] := by
  cases ys with
  | nil => left; simp [drain_nil_right]
  | cons y ys =>
    rw [drain_cons]
    cases hp : pair x y with
    | none => left; rfl
    | some p => right; exact ⟨y, ys, p, rfl, hp, by simp [drain_nil_left]⟩

theorem drain_right_arrival (xs : List (Elem α)) (y : Elem β) :
    (drain xs [y]).2 = [] ∨ ∃ x xs' p, xs = x :: xs' ∧ pair x y = some p ∧ (drain xs [y]).2 = [p] := by
  cases xs with
  | nil => left; simp [drain_nil_left]
  | cons x xs =>
    rw [drain_cons]
    cases hp : pair x y with
    | none => left; rfl
    | some p => right; exact ⟨x, xs, p, rfl, hp, by simp [drain_nil_right]⟩

theorem wmSafeGo_ts {γ : Type} (w : Option Int) (a : γ) (t : Int) (r : List (Elem γ)) :
    wmSafeGo w (.ts a t :: r) = (above w t && wmSafeGo w r) := by
  cases w <;> simp [wmSafeGo, above]

theorem wmSafeGo_wm {γ : Type} (w : Option Int) (t : Int) (r : List (Elem γ)) :
    wmSafeGo w (.wm t :: r) = (above w t && wmSafeGo (some t) r) := by
  cases w <;> simp [wmSafeGo, above]

/-- a pair made with an arriving plain item is plain; made with an arriving timestamped element
    it carries a timestamp ≥ the arriving one -/
theorem pair_safe_left {x : Elem α} {y : Elem β} {p : Elem (α × β)} (h : pair x y = some p)
    (w : Option Int) (hx : ∀ a t, x = .ts a t → above w t = true) (r : List (Elem (α × β))) :
    wmSafeGo w (p :: r) = wmSafeGo w r := by
  cases x <;> cases y <;> simp [pair] at h <;> subst h
  · simp [wmSafeGo]
  · rename_i a t b u
    rw [wmSafeGo_ts, above_max w t u (Or.inl (hx a t rfl))]; simp

theorem pair_safe_right {x : Elem α} {y : Elem β} {p : Elem (α × β)} (h : pair x y = some p)
    (w : Option Int) (hy : ∀ b u, y = .ts b u → above w u = true) (r : List (Elem (α × β))) :
    wmSafeGo w (p :: r) = wmSafeGo w r := by
  cases x <;> cases y <;> simp [pair] at h <;> subst h
  · simp [wmSafeGo]
  · rename_i a t b u
    rw [wmSafeGo_ts, above_max w t u (Or.inr (hy b u rfl))]; simp

theorem run_wmsafe : ∀ (es : List (Elem (Bin α β))) (s : State α β) (w : Option Int), Inv s →
    (stateAfter s es).panicked = false → wmSafeGo w es = true → wmSafeGo w (run s es) = true := by
  intro es
  induction es with
  | nil => intro s w _ _ _; rfl
  | cons e es ih =>
    intro s w hi hp h
    simp only [stateAfter] at hp
    have h1 := not_panicked_of_after hp
    have hi' := step_inv s e hi h1
    have hs : s.panicked = false := by
      cases hs : s.panicked with
      | false => rfl
      | true => rw [step_panicked s e hs] at h1; rw [hs] at h1; cases h1
    have ih' := ih (step s e).1
    simp only [run]
    -- the arriving element and what it makes the step emit
    cases e with
    | item b =>
      have hrest : wmSafeGo w es = true := by simpa [wmSafeGo] using h
      have key : ∀ o, (step s (.item b)).2 = o → (o = [] ∨ ∃ p, o = [p] ∧ ∀ r, wmSafeGo w (p :: r) = wmSafeGo w r) →
          wmSafeGo w ((step s (.item b)).2 ++ run (step s (.item b)).1 es) = true := by
        intro o ho hcase
        rw [ho]
        rcases hcase with rfl | ⟨p, rfl, hpr⟩
        · simpa using ih' w hi' hp hrest
        · simp only [List.singleton_append, hpr]; exact ih' w hi' hp hrest
      cases b with
      | left a =>
        apply key _ rfl
        simp only [step, hs, Bool.false_eq_true, ↓reduceIte]
        rcases hi with h1' | h2'
        · rw [h1', List.nil_append]
          rcases drain_left_arrival (.item a) s.stash2 with h0 | ⟨y, ys', p, _, hpair, hout⟩
          · left; exact h0
          · right; exact ⟨p, hout, pair_safe_left hpair w (by intro _ _ hh; cases hh)⟩
        · left; rw [h2', drain_nil_right]
      | right a =>
        apply key _ rfl
        simp only [step, hs, Bool.false_eq_true, ↓reduceIte]
        rcases hi with h1' | h2'
        · left; rw [h1', drain_nil_left]
        · rw [h2', List.nil_append]
          rcases drain_right_arrival s.stash1 (.item a) with h0 | ⟨x, xs', p, _, hpair, hout⟩
          · left; exact h0
          · right; exact ⟨p, hout, pair_safe_right hpair w (by intro _ _ hh; cases hh)⟩
      | leftEnd => apply key _ rfl; left; simp [step, hs]
      | rightEnd => apply key _ rfl; left; simp [step, hs]
    | ts b t =>
      rw [wmSafeGo_ts] at h
      simp only [Bool.and_eq_true] at h
      have hrest := h.2
      have key : ∀ o, (step s (.ts b t)).2 = o → (o = [] ∨ ∃ p, o = [p] ∧ ∀ r, wmSafeGo w (p :: r) = wmSafeGo w r) →
          wmSafeGo w ((step s (.ts b t)).2 ++ run (step s (.ts b t)).1 es) = true := by
        intro o ho hcase
        rw [ho]
        rcases hcase with rfl | ⟨p, rfl, hpr⟩
        · simpa using ih' w hi' hp hrest
        · simp only [List.singleton_append, hpr]; exact ih' w hi' hp hrest
      cases b with
      | left a =>
        apply key _ rfl
        simp only [step, hs, Bool.false_eq_true, ↓reduceIte]
        rcases hi with h1' | h2'
        · rw [h1', List.nil_append]
          rcases drain_left_arrival (.ts a t) s.stash2 with h0 | ⟨y, ys', p, _, hpair, hout⟩
          · left; exact h0
          · right; exact ⟨p, hout, pair_safe_left hpair w (by intro _ _ hh; cases hh; exact h.1)⟩
        · left; rw [h2', drain_nil_right]
      | right a =>
        apply key _ rfl
        simp only [step, hs, Bool.false_eq_true, ↓reduceIte]
        rcases hi with h1' | h2'
        · left; rw [h1', drain_nil_left]
        · rw [h2', List.nil_append]
          rcases drain_right_arrival s.stash1 (.ts a t) with h0 | ⟨x, xs', p, _, hpair, hout⟩
          · left; exact h0
          · right; exact ⟨p, hout, pair_safe_right hpair w (by intro _ _ hh; cases hh; exact h.1)⟩
      | leftEnd => apply key _ rfl; left; simp [step, hs]
      | rightEnd => apply key _ rfl; left; simp [step, hs]
    | wm t =>
      rw [wmSafeGo_wm] at h
      simp only [Bool.and_eq_true] at h
      have hst : step s (.wm t : Elem (Bin α β)) = (s, [.wm t]) := by simp [step, hs]
      rw [hst] at hp hi' ⊢
      simp only [List.singleton_append]
      rw [wmSafeGo_wm, h.1, Bool.true_and]
      exact ih s (some t) hi hp h.2
    | flushBatch =>
      have hst : step s (.flushBatch : Elem (Bin α β)) = (s, [.flushBatch]) := by simp [step, hs]
      rw [hst] at hp ⊢
      have hrest : wmSafeGo w es = true := by simpa [wmSafeGo] using h
      simpa [wmSafeGo] using ih s w hi hp hrest
    | term =>
      have hst : step s (.term : Elem (Bin α β)) = (s, [.term]) := by simp [step, hs]
      rw [hst] at hp ⊢
      have hrest : wmSafeGo w es = true := by simpa [wmSafeGo] using h
      simpa [wmSafeGo] using ih s w hi hp hrest
    | far =>
      rw [step_far s hs] at hp ⊢
      have hrest : wmSafeGo none es = true := by simpa [wmSafeGo] using h
      simpa [wmSafeGo] using ih State.init none inv_init hp hrest

/-! ### the binary start in front of `Zip`: data elements come out in arrival order -/

/-- one arrival that is neither `FlushAndRestart` nor `Terminate`, at a binary start that has not
    terminated: a data element comes out wrapped, anything else contributes no data and no
    `FlushAndRestart` -/
theorem front_step_other {γ : Type} (f : Front) (l : Bool) (r : Nat) (e : Elem γ) (hm : f.start.missingTerm ≠ 0)
    (hf : e.isFar = false) (ht : e.isTerm = false) :
    (if l then f.stepElem (β := γ) true r Bin.left e else f.stepElem (α := γ) false r Bin.right e).1.start.missingTerm ≠ 0 ∧
    farFree (if l then f.stepElem (β := γ) true r Bin.left e else f.stepElem (α := γ) false r Bin.right e).2 = true ∧
    lefts (if l then f.stepElem (β := γ) true r Bin.left e else f.stepElem (α := γ) false r Bin.right e).2
      = (if l && e.isData then [e] else []) ∧
    rights (if l then f.stepElem (β := γ) true r Bin.left e else f.stepElem (α := γ) false r Bin.right e).2
      = (if !l && e.isData then [e] else []) := by
  cases l <;> cases e <;>
    simp [Front.stepElem, feed, Noir.Start.step, hm, Elem.isFar, Elem.isTerm, Elem.map, lefts, rights, farFree, Elem.isData] at hf ht ⊢
  -- data: a pending watermark (announced frontier increase) may precede the element; watermarks: the update
  all_goals first
    | (cases hpnd : f.start.pending <;> simp [lefts, rights, hm]; done)
    | (generalize (Noir.Start.Frontier.update _ _ _).snd = o; cases o <;> simp [lefts, rights, hm])

theorem sideData_cons {γ : Type} (left l : Bool) (r : Nat) (e : Elem γ) (arr : List (Arrival γ)) :
    sideData left ((l, r, e) :: arr) = (if (l == left) && e.isData then [e] else []) ++ sideData left arr := by
  cases hl : (l == left) <;> cases hd : e.isData <;> simp [sideData, List.filter_cons, hl, hd]

theorem farFree_append {γ : Type} (a b : List (Elem γ)) : farFree (a ++ b) = (farFree a && farFree b) := by
  simp [farFree]

/-- the stream the binary start hands to `Zip` for an arrival sequence without `FlushAndRestart` /
    `Terminate` (one iteration in progress): each side's data elements in arrival order -/
theorem front_run_sides {γ : Type} : ∀ (arr : List (Arrival γ)) (f : Front), f.start.missingTerm ≠ 0 →
    (∀ p ∈ arr, p.2.2.isFar = false ∧ p.2.2.isTerm = false) →
    farFree (Front.run f arr) = true ∧ lefts (Front.run f arr) = sideData true arr ∧
      rights (Front.run f arr) = sideData false arr := by
  intro arr
  induction arr with
  | nil => intro f _ _; exact ⟨rfl, rfl, rfl⟩
  | cons p arr ih =>
    intro f hm h
    obtain ⟨l, r, e⟩ := p
    have hp := h (l, r, e) List.mem_cons_self
    have hs := front_step_other f l r e hm hp.1 hp.2
    have ih' := ih _ hs.1 (fun q hq => h q (List.mem_cons_of_mem _ hq))
    simp only [Front.run, farFree_append, lefts_append, rights_append, sideData_cons, hs.2.1, hs.2.2.1, hs.2.2.2,
      ih'.1, ih'.2.1, ih'.2.2, Bool.and_self, true_and]
    cases l <;> simp

end Noir.Zip
