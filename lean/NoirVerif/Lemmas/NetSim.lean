/-
  Lemmas/NetSim.lean — invariants of the network simulator `Noir.NetSim` (C04 layer 2):
  channel bounds, valid send targets, `Terminate` accounting per channel (`termAcc`), FIFO order of
  `Terminate` behind everything else of the same producer (`chanOrd`), the layer-1 mapping
  (`Net.WellFormed (toConfig j s)`), the termination measure `mu`, fairness.
-/
import NoirVerif.Model.NetSim
import NoirVerif.Lemmas.Net
namespace Noir.NetSim
open Noir

/-! ## pointwise update, sums -/

theorem set2_same {β : Type} (f : Nat → Nat → β) (b r : Nat) (v : β) : set2 f b r v b r = v := by
  simp [set2]

theorem set2_other {β : Type} (f : Nat → Nat → β) (b r b' r' : Nat) (v : β)
    (h : ¬ (b' = b ∧ r' = r)) : set2 f b r v b' r' = f b' r' := by
  simp [set2, h]

def sumTo : Nat → (Nat → Nat) → Nat
  | 0, _ => 0
  | n + 1, f => sumTo n f + f n

theorem sumTo_congr {n : Nat} {f g : Nat → Nat} (h : ∀ i, i < n → f i = g i) : sumTo n f = sumTo n g := by
  induction n with
  | zero => rfl
  | succ n ih =>
    simp only [sumTo]
    rw [ih (fun i hi => h i (by omega)), h n (by omega)]

theorem sumTo_const_one (n : Nat) : sumTo n (fun _ => 1) = n := by
  induction n with
  | zero => rfl
  | succ n ih => simp only [sumTo, ih]

theorem sumTo_change {n : Nat} {f g : Nat → Nat} {i : Nat} (hi : i < n)
    (h : ∀ k, k < n → k ≠ i → g k = f k) : sumTo n g + f i = sumTo n f + g i := by
  induction n with
  | zero => omega
  | succ n ih =>
    simp only [sumTo]
    by_cases hin : i = n
    · subst hin
      rw [sumTo_congr (f := g) (g := f) (fun k hk => h k (by omega) (by omega))]
      omega
    · have := ih (by omega) (fun k hk hne => h k (by omega) hne)
      rw [h n (by omega) (fun e => hin e.symm)]
      omega

theorem sumTo_zero {n : Nat} {f : Nat → Nat} (h : sumTo n f = 0) : ∀ i, i < n → f i = 0 := by
  induction n with
  | zero => intro i hi; omega
  | succ n ih =>
    simp only [sumTo] at h
    intro i hi
    by_cases hin : i = n
    · subst hin; omega
    · exact ih (by omega) i (by omega)

theorem sumTo_eq_zero {n : Nat} {f : Nat → Nat} (h : ∀ i, i < n → f i = 0) : sumTo n f = 0 := by
  induction n with
  | zero => rfl
  | succ n ih => simp only [sumTo]; rw [ih (fun i hi => h i (by omega)), h n (by omega)]

/-- double sum over all replicas -/
def sum2 (j : Job) (f : Nat → Nat → Nat) : Nat := sumTo j.nblocks fun b => sumTo (j.replicas b) (f b)

theorem sum2_change {j : Job} {f g : Nat → Nat → Nat} {b r : Nat} (hv : j.valid b r)
    (h : ∀ b' r', j.valid b' r' → ¬ (b' = b ∧ r' = r) → g b' r' = f b' r') :
    sum2 j g + f b r = sum2 j f + g b r := by
  unfold sum2
  have h1 : sumTo (j.replicas b) (g b) + f b r = sumTo (j.replicas b) (f b) + g b r :=
    sumTo_change hv.2 (fun k hk hne => h b k ⟨hv.1, hk⟩ (fun e => hne e.2))
  have h2 := sumTo_change (n := j.nblocks) (i := b)
    (f := fun b => sumTo (j.replicas b) (f b)) (g := fun b => sumTo (j.replicas b) (g b)) hv.1
    (fun k hk hne => sumTo_congr (fun i hi => h k i ⟨hk, hi⟩ (fun e => hne e.1)))
  omega

theorem sum2_congr {j : Job} {f g : Nat → Nat → Nat}
    (h : ∀ b r, j.valid b r → g b r = f b r) : sum2 j g = sum2 j f := by
  unfold sum2
  exact sumTo_congr (fun b hb => sumTo_congr (fun r hr => h b r ⟨hb, hr⟩))

/-! ## `Start.step` facts -/

theorem start_step_cases (s : Start.State) (q : Nat) (e : Elem Nat) (h : s.missingTerm ≠ 0) :
    let res := Start.step s (.elem q e)
    res.2.length ≤ 1 ∧
    res.1.missingTerm = s.missingTerm - (if e = .term then 1 else 0) ∧
    (res.1.missingTerm = 0 → res.2 = [.term]) ∧
    (res.1.missingTerm ≠ 0 → Elem.term ∉ res.2) ∧
    (e.isData = true → res.2 = [e]) ∧
    (e.isData = false → ∀ x ∈ res.2, x.isData = false) := by
  cases e with
  | item a => simp [Start.step, h, Elem.isData]
  | ts a t => simp [Start.step, h, Elem.isData]
  | flushBatch => simp [Start.step, h, Elem.isData]
  | wm t =>
    simp only [Start.step, h, if_false]
    cases (s.frontier.update q t).2 <;> simp [h, Elem.isData]
  | far =>
    simp only [Start.step, h, if_false, Start.afterCounters]
    by_cases h2 : s.missingFar - 1 = 0 <;> simp [h, h2, Elem.isData]
  | term =>
    simp only [Start.step, h, if_false, Start.afterCounters]
    by_cases h1 : s.missingTerm - 1 = 0
    · simp [h1, Elem.isData]
    · by_cases h2 : s.missingFar = 0 <;> simp [h1, h2, Elem.isData]

/-! ## `sendsOf` -/

theorem mem_next {j : Job} {b c : Nat} : c ∈ j.next b ↔ c < j.nblocks ∧ j.prev c = some b := by
  simp [Job.next]

theorem mem_sendsOf {j : Job} (wf : j.WF) {b r k : Nat} {e : Elem Nat} {sd : Send}
    (h : sd ∈ sendsOf j b r k e) :
    sd.elem = e ∧ sd.blk < j.nblocks ∧ sd.rep < j.replicas sd.blk ∧ j.prev sd.blk = some b := by
  have data : ∀ sd ∈ (j.next b).map (fun c => (⟨c, j.route b r c e k % j.replicas c, e⟩ : Send)),
      sd.elem = e ∧ sd.blk < j.nblocks ∧ sd.rep < j.replicas sd.blk ∧ j.prev sd.blk = some b := by
    intro sd h
    obtain ⟨c, hc, rfl⟩ := List.mem_map.mp h
    obtain ⟨h1, h2⟩ := mem_next.mp hc
    exact ⟨rfl, h1, Nat.mod_lt _ (wf.rep_pos c h1), h2⟩
  have ctl : ∀ sd ∈ (j.next b).flatMap (fun c => (List.range (j.replicas c)).map fun i => (⟨c, i, e⟩ : Send)),
      sd.elem = e ∧ sd.blk < j.nblocks ∧ sd.rep < j.replicas sd.blk ∧ j.prev sd.blk = some b := by
    intro sd h
    obtain ⟨c, hc, h⟩ := List.mem_flatMap.mp h
    obtain ⟨i, hi, rfl⟩ := List.mem_map.mp h
    obtain ⟨h1, h2⟩ := mem_next.mp hc
    exact ⟨rfl, h1, List.mem_range.mp hi, h2⟩
  cases e with
  | item a => exact data sd h
  | ts a t => exact data sd h
  | wm t => exact ctl sd h
  | far => exact ctl sd h
  | term => exact ctl sd h
  | flushBatch => simp [sendsOf] at h

/-- number of pending `Terminate` sends towards replica `(c, i)` -/
def tcount (c i : Nat) (l : List Send) : Nat :=
  l.countP fun sd => decide (sd.blk = c ∧ sd.rep = i ∧ sd.elem = .term)

theorem tcount_cons (c i : Nat) (sd : Send) (l : List Send) :
    tcount c i (sd :: l) = tcount c i l + (if sd.blk = c ∧ sd.rep = i ∧ sd.elem = .term then 1 else 0) := by
  simp [tcount, List.countP_cons]

theorem tcount_row (c i c' n : Nat) :
    tcount c i ((List.range n).map fun k => (⟨c', k, .term⟩ : Send)) = if c' = c ∧ i < n then 1 else 0 := by
  induction n with
  | zero => simp [tcount]
  | succ n ih =>
    unfold tcount at ih ⊢
    rw [List.range_succ, List.map_append, List.countP_append, ih]
    by_cases hc : c' = c
    · by_cases hi : n = i
      · subst hi; simp [hc]
      · have h1 : (i < n + 1) = (i < n) := by apply propext; omega
        simp [hc, hi, h1]
    · simp [hc]

theorem tcount_rows (j : Job) (c i : Nat) (L : List Nat) (hnd : L.Nodup) :
    tcount c i (L.flatMap fun c' => (List.range (j.replicas c')).map fun k => (⟨c', k, .term⟩ : Send))
      = if c ∈ L ∧ i < j.replicas c then 1 else 0 := by
  induction L with
  | nil => simp [tcount]
  | cons x L ih =>
    have hx := (List.nodup_cons.mp hnd)
    have ih := ih hx.2
    unfold tcount at ih ⊢
    rw [List.flatMap_cons, List.countP_append, ih]
    have := tcount_row c i x (j.replicas x)
    unfold tcount at this
    rw [this]
    by_cases hxc : x = c
    · subst hxc
      simp [hx.1]
    · have : ¬ c = x := fun e => hxc e.symm
      simp [hxc, this]

theorem tcount_sendsOf_term {j : Job} {b r k c i : Nat} (hv : j.valid c i) (hp : j.prev c = some b) :
    tcount c i (sendsOf j b r k .term) = 1 := by
  simp only [sendsOf]
  rw [tcount_rows j c i (j.next b) (List.nodup_range.filter _)]
  simp [mem_next, hv.1, hv.2, hp]

theorem tcount_of_no_term (c i : Nat) (l : List Send) (h : ∀ sd ∈ l, sd.elem ≠ .term) : tcount c i l = 0 := by
  unfold tcount
  rw [List.countP_eq_zero]
  intro sd hsd
  simp [h sd hsd]

/-! ## the weight of an element: how many steps it can still cause downstream -/

def W (j : Job) (b : Nat) : Nat :=
  1 + ((List.range j.nblocks).map fun c =>
        if b < c ∧ c < j.nblocks ∧ j.prev c = some b then j.replicas c * (1 + W j c) else 0).sum
termination_by j.nblocks - b
decreasing_by omega

theorem W_pos (j : Job) (b : Nat) : 1 ≤ W j b := by rw [W]; omega

def sendW (j : Job) (l : List Send) : Nat := (l.map fun sd => 1 + W j sd.blk).sum

theorem sum_filter_map (l : List Nat) (p : Nat → Bool) (f : Nat → Nat) :
    ((l.filter p).map f).sum = (l.map fun x => if p x then f x else 0).sum := by
  induction l with
  | nil => rfl
  | cons x l ih =>
    by_cases hp : p x <;> simp [hp, ih]

theorem sum_map_congr (l : List Nat) (f g : Nat → Nat) (h : ∀ x ∈ l, f x = g x) :
    (l.map f).sum = (l.map g).sum := by
  induction l with
  | nil => rfl
  | cons x l ih =>
    simp only [List.map_cons, List.sum_cons]
    rw [h x (by simp), ih (fun y hy => h y (by simp [hy]))]

theorem sum_map_le (l : List Nat) (f g : Nat → Nat) (h : ∀ x ∈ l, f x ≤ g x) :
    (l.map f).sum ≤ (l.map g).sum := by
  induction l with
  | nil => simp
  | cons x l ih =>
    simp only [List.map_cons, List.sum_cons]
    have := h x (by simp)
    have := ih (fun y hy => h y (by simp [hy]))
    omega

/-- `W b = 1 + Σ_{c downstream of b} replicas c * (1 + W c)` -/
theorem W_eq {j : Job} (wf : j.WF) (b : Nat) :
    W j b = 1 + ((j.next b).map fun c => j.replicas c * (1 + W j c)).sum := by
  rw [W, Job.next, sum_filter_map]
  congr 1
  apply sum_map_congr
  intro c hc
  have hc := List.mem_range.mp hc
  by_cases hp : j.prev c = some b
  · have := wf.topo c b hc hp
    simp [hp, hc, this]
  · simp [hp]

theorem sendW_row (j : Job) (c n : Nat) (e : Elem Nat) :
    sendW j ((List.range n).map fun k => (⟨c, k, e⟩ : Send)) = n * (1 + W j c) := by
  induction n with
  | zero => simp [sendW]
  | succ n ih =>
    unfold sendW at ih ⊢
    rw [List.range_succ, List.map_append, List.map_append, List.sum_append, ih, Nat.succ_mul]
    simp

theorem sendW_sendsOf {j : Job} (wf : j.WF) (b r k : Nat) (e : Elem Nat) :
    sendW j (sendsOf j b r k e) + 1 ≤ W j b := by
  rw [W_eq wf b]
  have data : sendW j ((j.next b).map fun c => (⟨c, j.route b r c e k % j.replicas c, e⟩ : Send)) + 1
      ≤ 1 + ((j.next b).map fun c => j.replicas c * (1 + W j c)).sum := by
    unfold sendW
    rw [List.map_map]
    have := sum_map_le (j.next b) ((fun sd : Send => 1 + W j sd.blk) ∘ fun c => (⟨c, j.route b r c e k % j.replicas c, e⟩ : Send))
      (fun c => j.replicas c * (1 + W j c)) (by
        intro c hc
        have := wf.rep_pos c (mem_next.mp hc).1
        simp only [Function.comp]
        exact Nat.le_mul_of_pos_left _ this)
    omega
  have ctl : sendW j ((j.next b).flatMap fun c => (List.range (j.replicas c)).map fun i => (⟨c, i, e⟩ : Send)) + 1
      ≤ 1 + ((j.next b).map fun c => j.replicas c * (1 + W j c)).sum := by
    suffices h : ∀ L : List Nat, sendW j (L.flatMap fun c => (List.range (j.replicas c)).map fun i => (⟨c, i, e⟩ : Send))
        = (L.map fun c => j.replicas c * (1 + W j c)).sum by
      rw [h]; omega
    intro L
    induction L with
    | nil => simp [sendW]
    | cons x L ih =>
      have hr := sendW_row j x (j.replicas x) e
      unfold sendW at ih hr ⊢
      rw [List.flatMap_cons, List.map_append, List.sum_append, ih, hr]
      simp
  cases e with
  | item a => exact data
  | ts a t => exact data
  | wm t => exact ctl
  | far => exact ctl
  | term => exact ctl
  | flushBatch => simp [sendsOf, sendW]


end Noir.NetSim
