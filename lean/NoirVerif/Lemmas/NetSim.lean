/-
  Lemmas/NetSim.lean — invariants of the network simulator `Noir.NetSim` (C04 layer 2):
  channel bounds, valid send targets, `Terminate` accounting per channel (`termAcc`), FIFO order of
  `Terminate` behind everything else of the same producer (`chanOrd`), the layer-1 mapping
  (`Net.WellFormed (toConfig j s)`), the termination measure `mu`, fairness.
-/
import NoirVerif.Model.NetSim
import NoirVerif.Lemmas.Net
namespace Noir.NetSim
open Noir

/-! ## pointwise update, sums -/

theorem set2_same {β : Type} (f : Nat → Nat → β) (b r : Nat) (v : β) : set2 f b r v b r = v := by
  simp [set2]

theorem set2_other {β : Type} (f : Nat → Nat → β) (b r b' r' : Nat) (v : β)
    (h : ¬ (b' = b ∧ r' = r)) : set2 f b r v b' r' = f b' r' := by
  simp [set2, h]

def sumTo : Nat → (Nat → Nat) → Nat
  | 0, _ => 0
  | n + 1, f => sumTo n f + f n

theorem sumTo_congr {n : Nat} {f g : Nat → Nat} (h : ∀ i, i < n → f i = g i) : sumTo n f = sumTo n g := by
  induction n with
  | zero => rfl
  | succ n ih =>
    simp only [sumTo]
    rw [ih (fun i hi => h i (by omega)), h n (by omega)]

theorem sumTo_const_one (n : Nat) : sumTo n (fun _ => 1) = n := by
  induction n with
  | zero => rfl
  | succ n ih => simp only [sumTo, ih]

theorem sumTo_change {n : Nat} {f g : Nat → Nat} {i : Nat} (hi : i < n)
    (h : ∀ k, k < n → k ≠ i → g k = f k) : sumTo n g + f i = sumTo n f + g i := by
  induction n with
  | zero => omega
  | succ n ih =>
    simp only [sumTo]
    by_cases hin : i = n
    · subst hin
      rw [sumTo_congr (f := g) (g := f) (fun k hk => h k (by omega) (by omega))]
      omega
    · have := ih (by omega) (fun k hk hne => h k (by omega) hne)
      rw [h n (by omega) (fun e => hin e.symm)]
      omega

theorem sumTo_zero {n : Nat} {f : Nat → Nat} (h : sumTo n f = 0) : ∀ i, i < n → f i = 0 := by
  induction n with
  | zero => intro i hi; omega
  | succ n ih =>
    simp only [sumTo] at h
    intro i hi
    by_cases hin : i = n
    · subst hin; omega
    · exact ih (by omega) i (by omega)

theorem sumTo_eq_zero {n : Nat} {f : Nat → Nat} (h : ∀ i, i < n → f i = 0) : sumTo n f = 0 := by
  induction n with
  | zero => rfl
  | succ n ih => simp only [sumTo]; rw [ih (fun i hi => h i (by omega)), h n (by omega)]

/-- double sum over all replicas -/
def sum2 (j : Job) (f : Nat → Nat → Nat) : Nat := sumTo j.nblocks fun b => sumTo (j.replicas b) (f b)

theorem sum2_change {j : Job} {f g : Nat → Nat → Nat} {b r : Nat} (hv : j.valid b r)
    (h : ∀ b' r', j.valid b' r' → ¬ (b' = b ∧ r' = r) → g b' r' = f b' r') :
    sum2 j g + f b r = sum2 j f + g b r := by
  unfold sum2
  have h1 : sumTo (j.replicas b) (g b) + f b r = sumTo (j.replicas b) (f b) + g b r :=
    sumTo_change hv.2 (fun k hk hne => h b k ⟨hv.1, hk⟩ (fun e => hne e.2))
  have h2 := sumTo_change (n := j.nblocks) (i := b)
    (f := fun b => sumTo (j.replicas b) (f b)) (g := fun b => sumTo (j.replicas b) (g b)) hv.1
    (fun k hk hne => sumTo_congr (fun i hi => h k i ⟨hk, hi⟩ (fun e => hne e.1)))
  omega

theorem sum2_congr {j : Job} {f g : Nat → Nat → Nat}
    (h : ∀ b r, j.valid b r → g b r = f b r) : sum2 j g = sum2 j f := by
  unfold sum2
  exact sumTo_congr (fun b hb => sumTo_congr (fun r hr => h b r ⟨hb, hr⟩))

/-! ## `Start.step` facts -/

theorem start_step_cases (s : Start.State) (q : Nat) (e : Elem Nat) (h : s.missingTerm ≠ 0) :
    let res := Start.step s (.elem q e)
    res.2.length ≤ 2 ∧
    res.1.missingTerm = s.missingTerm - (if e = .term then 1 else 0) ∧
    (res.1.missingTerm = 0 → res.2 = [.term]) ∧
    (res.1.missingTerm ≠ 0 → Elem.term ∉ res.2) ∧
    (e.isData = true → ∃ pre, res.2 = pre ++ [e] ∧ ∀ y ∈ pre, y.isData = false) ∧
    (e.isData = false → ∀ x ∈ res.2, x.isData = false) := by
  cases e with
  | item a =>
    simp only [Start.step, h, if_false]
    cases hp : s.pending with
    | none => simp [h, Elem.isData]
    | some p => simp only [h]; exact ⟨by simp, by simp, by simp, by simp, fun _ => ⟨[.wm p], rfl, by simp [Elem.isData]⟩, by simp [Elem.isData]⟩
  | ts a t =>
    simp only [Start.step, h, if_false]
    cases hp : s.pending with
    | none => simp [h, Elem.isData]
    | some p => simp only [h]; exact ⟨by simp, by simp, by simp, by simp, fun _ => ⟨[.wm p], rfl, by simp [Elem.isData]⟩, by simp [Elem.isData]⟩
  | flushBatch => simp only [Start.step, h, if_false]; cases s.pending <;> simp [h, Elem.isData]
  | wm t =>
    simp only [Start.step, h, if_false]
    cases (s.frontier.update q t).2 <;> simp [h, Elem.isData]
  | far =>
    simp only [Start.step, h, if_false, Start.afterCounters]
    by_cases h2 : s.missingFar - 1 = 0 <;> simp [h, h2, Elem.isData]
  | term =>
    simp only [Start.step, h, if_false, Start.afterCounters]
    by_cases h1 : s.missingTerm - 1 = 0
    · simp [h1, Elem.isData]
    · by_cases h2 : s.missingFar = 0 <;> simp [h1, h2, Elem.isData]

/-! ## `sendsOf` -/

theorem mem_next {j : Job} {b c : Nat} : c ∈ j.next b ↔ c < j.nblocks ∧ j.prev c = some b := by
  simp [Job.next]

theorem mem_sendsOf {j : Job} (wf : j.WF) {b r k : Nat} {e : Elem Nat} {sd : Send}
    (h : sd ∈ sendsOf j b r k e) :
    sd.elem = e ∧ sd.blk < j.nblocks ∧ sd.rep < j.replicas sd.blk ∧ j.prev sd.blk = some b := by
  have data : ∀ sd ∈ (j.next b).map (fun c => (⟨c, j.route b r c e k % j.replicas c, e⟩ : Send)),
      sd.elem = e ∧ sd.blk < j.nblocks ∧ sd.rep < j.replicas sd.blk ∧ j.prev sd.blk = some b := by
    intro sd h
    obtain ⟨c, hc, rfl⟩ := List.mem_map.mp h
    obtain ⟨h1, h2⟩ := mem_next.mp hc
    exact ⟨rfl, h1, Nat.mod_lt _ (wf.rep_pos c h1), h2⟩
  have ctl : ∀ sd ∈ (j.next b).flatMap (fun c => (List.range (j.replicas c)).map fun i => (⟨c, i, e⟩ : Send)),
      sd.elem = e ∧ sd.blk < j.nblocks ∧ sd.rep < j.replicas sd.blk ∧ j.prev sd.blk = some b := by
    intro sd h
    obtain ⟨c, hc, h⟩ := List.mem_flatMap.mp h
    obtain ⟨i, hi, rfl⟩ := List.mem_map.mp h
    obtain ⟨h1, h2⟩ := mem_next.mp hc
    exact ⟨rfl, h1, List.mem_range.mp hi, h2⟩
  cases e with
  | item a => exact data sd h
  | ts a t => exact data sd h
  | wm t => exact ctl sd h
  | far => exact ctl sd h
  | term => exact ctl sd h
  | flushBatch => simp [sendsOf] at h

/-- number of pending `Terminate` sends towards replica `(c, i)` -/
def tcount (c i : Nat) (l : List Send) : Nat :=
  l.countP fun sd => decide (sd.blk = c ∧ sd.rep = i ∧ sd.elem = .term)

theorem tcount_cons (c i : Nat) (sd : Send) (l : List Send) :
    tcount c i (sd :: l) = tcount c i l + (if sd.blk = c ∧ sd.rep = i ∧ sd.elem = .term then 1 else 0) := by
  simp [tcount, List.countP_cons]

theorem tcount_row (c i c' n : Nat) :
    tcount c i ((List.range n).map fun k => (⟨c', k, .term⟩ : Send)) = if c' = c ∧ i < n then 1 else 0 := by
  induction n with
  | zero => simp [tcount]
  | succ n ih =>
    unfold tcount at ih ⊢
    rw [List.range_succ, List.map_append, List.countP_append, ih]
    by_cases hc : c' = c
    · by_cases hi : n = i
      · subst hi; simp [hc]
      · have h1 : (i < n + 1) = (i < n) := by apply propext; omega
        simp [hc, hi, h1]
    · simp [hc]

theorem tcount_rows (j : Job) (c i : Nat) (L : List Nat) (hnd : L.Nodup) :
    tcount c i (L.flatMap fun c' => (List.range (j.replicas c')).map fun k => (⟨c', k, .term⟩ : Send))
      = if c ∈ L ∧ i < j.replicas c then 1 else 0 := by
  induction L with
  | nil => simp [tcount]
  | cons x L ih =>
    have hx := (List.nodup_cons.mp hnd)
    have ih := ih hx.2
    unfold tcount at ih ⊢
    rw [List.flatMap_cons, List.countP_append, ih]
    have := tcount_row c i x (j.replicas x)
    unfold tcount at this
    rw [this]
    by_cases hxc : x = c
    · subst hxc
      simp [hx.1]
    · have : ¬ c = x := fun e => hxc e.symm
      simp [hxc, this]

theorem tcount_sendsOf_term {j : Job} {b r k c i : Nat} (hv : j.valid c i) (hp : j.prev c = some b) :
    tcount c i (sendsOf j b r k .term) = 1 := by
  simp only [sendsOf]
  rw [tcount_rows j c i (j.next b) (List.nodup_range.filter _)]
  simp [mem_next, hv.1, hv.2, hp]

theorem tcount_of_no_term (c i : Nat) (l : List Send) (h : ∀ sd ∈ l, sd.elem ≠ .term) : tcount c i l = 0 := by
  unfold tcount
  rw [List.countP_eq_zero]
  intro sd hsd
  simp [h sd hsd]

/-! ## the weight of an element: how many steps it can still cause downstream -/

def W (j : Job) (b : Nat) : Nat :=
  -- factor 2: one received element can make `Start` yield two (a stashed watermark + the element)
  1 + 2 * ((List.range j.nblocks).map fun c =>
        if b < c ∧ c < j.nblocks ∧ j.prev c = some b then j.replicas c * (1 + W j c) else 0).sum
termination_by j.nblocks - b
decreasing_by omega

theorem W_pos (j : Job) (b : Nat) : 1 ≤ W j b := by rw [W]; omega

def sendW (j : Job) (l : List Send) : Nat := (l.map fun sd => 1 + W j sd.blk).sum

theorem sum_filter_map (l : List Nat) (p : Nat → Bool) (f : Nat → Nat) :
    ((l.filter p).map f).sum = (l.map fun x => if p x then f x else 0).sum := by
  induction l with
  | nil => rfl
  | cons x l ih =>
    by_cases hp : p x <;> simp [hp, ih]

theorem sum_map_congr (l : List Nat) (f g : Nat → Nat) (h : ∀ x ∈ l, f x = g x) :
    (l.map f).sum = (l.map g).sum := by
  induction l with
  | nil => rfl
  | cons x l ih =>
    simp only [List.map_cons, List.sum_cons]
    rw [h x (by simp), ih (fun y hy => h y (by simp [hy]))]

theorem sum_map_le (l : List Nat) (f g : Nat → Nat) (h : ∀ x ∈ l, f x ≤ g x) :
    (l.map f).sum ≤ (l.map g).sum := by
  induction l with
  | nil => simp
  | cons x l ih =>
    simp only [List.map_cons, List.sum_cons]
    have := h x (by simp)
    have := ih (fun y hy => h y (by simp [hy]))
    omega

/-- `W b = 1 + 2 * Σ_{c downstream of b} replicas c * (1 + W c)` -/
theorem W_eq {j : Job} (wf : j.WF) (b : Nat) :
    W j b = 1 + 2 * ((j.next b).map fun c => j.replicas c * (1 + W j c)).sum := by
  rw [W, Job.next, sum_filter_map]
  congr 2
  apply sum_map_congr
  intro c hc
  have hc := List.mem_range.mp hc
  by_cases hp : j.prev c = some b
  · have := wf.topo c b hc hp
    simp [hp, hc, this]
  · simp [hp]

theorem sendW_row (j : Job) (c n : Nat) (e : Elem Nat) :
    sendW j ((List.range n).map fun k => (⟨c, k, e⟩ : Send)) = n * (1 + W j c) := by
  induction n with
  | zero => simp [sendW]
  | succ n ih =>
    unfold sendW at ih ⊢
    rw [List.range_succ, List.map_append, List.map_append, List.sum_append, ih, Nat.succ_mul]
    simp

theorem sendW_sendsOf_le {j : Job} (wf : j.WF) (b r k : Nat) (e : Elem Nat) :
    sendW j (sendsOf j b r k e) + 1
      ≤ 1 + ((j.next b).map fun c => j.replicas c * (1 + W j c)).sum := by
  have data : sendW j ((j.next b).map fun c => (⟨c, j.route b r c e k % j.replicas c, e⟩ : Send)) + 1
      ≤ 1 + ((j.next b).map fun c => j.replicas c * (1 + W j c)).sum := by
    unfold sendW
    rw [List.map_map]
    have := sum_map_le (j.next b) ((fun sd : Send => 1 + W j sd.blk) ∘ fun c => (⟨c, j.route b r c e k % j.replicas c, e⟩ : Send))
      (fun c => j.replicas c * (1 + W j c)) (by
        intro c hc
        have := wf.rep_pos c (mem_next.mp hc).1
        simp only [Function.comp]
        exact Nat.le_mul_of_pos_left _ this)
    omega
  have ctl : sendW j ((j.next b).flatMap fun c => (List.range (j.replicas c)).map fun i => (⟨c, i, e⟩ : Send)) + 1
      ≤ 1 + ((j.next b).map fun c => j.replicas c * (1 + W j c)).sum := by
    suffices h : ∀ L : List Nat, sendW j (L.flatMap fun c => (List.range (j.replicas c)).map fun i => (⟨c, i, e⟩ : Send))
        = (L.map fun c => j.replicas c * (1 + W j c)).sum by
      rw [h]; omega
    intro L
    induction L with
    | nil => simp [sendW]
    | cons x L ih =>
      have hr := sendW_row j x (j.replicas x) e
      unfold sendW at ih hr ⊢
      rw [List.flatMap_cons, List.map_append, List.sum_append, ih, hr]
      simp
  cases e with
  | item a => exact data
  | ts a t => exact data
  | wm t => exact ctl
  | far => exact ctl
  | term => exact ctl
  | flushBatch => simp [sendsOf, sendW]

theorem sendW_sendsOf {j : Job} (wf : j.WF) (b r k : Nat) (e : Elem Nat) :
    sendW j (sendsOf j b r k e) + 1 ≤ W j b := by
  have := sendW_sendsOf_le wf b r k e
  rw [W_eq wf b]; omega

theorem sendW_append (j : Job) (l1 l2 : List Send) : sendW j (l1 ++ l2) = sendW j l1 + sendW j l2 := by
  simp [sendW]


/-! ## the three kinds of real steps -/

def sendState (s : State) (b r : Nat) (sd : Send) (rest : List Send) : State :=
  { proc := set2 s.proc b r { s.proc b r with pending := rest }
    chan := set2 s.chan sd.blk sd.rep (s.chan sd.blk sd.rep ++ [⟨r, sd.elem⟩]) }

def srcState (j : Job) (s : State) (b r : Nat) (e : Elem Nat) (es : List (Elem Nat)) : State :=
  { s with proc := set2 s.proc b r (emit j b r { s.proc b r with script := es } [e]) }

def recvState (j : Job) (s : State) (b r : Nat) (m : Msg) (ms : List Msg) : State :=
  { proc := set2 s.proc b r (emit j b r
      { s.proc b r with start := (Start.step (s.proc b r).start (.elem m.sender m.elem)).1 }
      (Start.step (s.proc b r).start (.elem m.sender m.elem)).2)
    chan := set2 s.chan b r ms }

inductive StepCase (j : Job) (s : State) (b r : Nat) : State → Prop where
  | idle : ¬ enabled j s b r → StepCase j s b r s
  | send (sd : Send) (rest : List Send) : enabled j s b r → j.valid b r →
      (s.proc b r).pending = sd :: rest → (s.chan sd.blk sd.rep).length < j.cap →
      StepCase j s b r (sendState s b r sd rest)
  | src (e : Elem Nat) (es : List (Elem Nat)) : enabled j s b r → j.valid b r →
      (s.proc b r).pending = [] → j.prev b = none → (s.proc b r).script = e :: es →
      StepCase j s b r (srcState j s b r e es)
  | recv (m : Msg) (ms : List Msg) (pb : Nat) : enabled j s b r → j.valid b r →
      (s.proc b r).pending = [] → j.prev b = some pb → (s.proc b r).start.missingTerm ≠ 0 →
      s.chan b r = m :: ms → StepCase j s b r (recvState j s b r m ms)

theorem step_case (j : Job) (s : State) (b r : Nat) : StepCase j s b r (step j s b r) := by
  unfold step
  by_cases hv : j.valid b r
  · simp only [hv, if_true]
    cases hp : (s.proc b r).pending with
    | cons sd rest =>
      simp only
      by_cases hl : (s.chan sd.blk sd.rep).length < j.cap
      · simp only [hl, if_true]
        exact .send sd rest ⟨hv, by simp [status, hp, hl]⟩ hv hp hl
      · simp only [hl, if_false]
        exact .idle (by simp [enabled, status, hp, hl])
    | nil =>
      simp only
      by_cases hd : done j b (s.proc b r) = true
      · simp only [hd, if_true]
        exact .idle (by simp [enabled, status, hp, hd])
      · simp only [hd]
        cases hpr : j.prev b with
        | none =>
          simp only
          cases hs : (s.proc b r).script with
          | nil => simp [done, hpr, hs] at hd
          | cons e es =>
            exact .src e es ⟨hv, by simp [status, hp, hd, hpr]⟩ hv hp hpr hs
        | some pb =>
          simp only
          cases hc : s.chan b r with
          | nil => exact .idle (by simp [enabled, status, hp, hd, hpr, hc])
          | cons m ms =>
            have hmt : (s.proc b r).start.missingTerm ≠ 0 := by
              intro h; simp [done, hpr, h] at hd
            exact .recv m ms pb ⟨hv, by simp [status, hp, hd, hpr, hc]⟩ hv hp hpr hmt hc
  · simp only [hv, if_false]
    exact .idle (fun h => hv h.1)

theorem step_idle {j : Job} {s : State} {b r : Nat} (h : ¬ enabled j s b r) : step j s b r = s := by
  have hc := step_case j s b r
  generalize step j s b r = s' at hc
  cases hc with
  | idle _ => rfl
  | send _ _ he => exact absurd he h
  | src _ _ he => exact absurd he h
  | recv _ _ _ he => exact absurd he h

/-! ## the invariant -/

def ScriptOk : List (Elem Nat) → Prop
  | [] => True
  | [e] => e = .term
  | e :: e' :: rest => e ≠ .term ∧ ScriptOk (e' :: rest)

theorem scriptOk_init (l : List (Elem Nat)) (h : ∀ e ∈ l, e ≠ Elem.term) : ScriptOk (l ++ [.far, .term]) := by
  induction l with
  | nil => simp [ScriptOk]
  | cons x l ih =>
    have ih := ih (fun e he => h e (by simp [he]))
    cases l with
    | nil => exact ⟨h x (by simp), ih⟩
    | cons y l => exact ⟨h x (by simp), ih⟩

def countTerm (l : List Msg) : Nat := l.countP fun m => decide (m.elem = .term)

/-- how many `Terminate`s producer `(pb, q)` still has to send to consumer `(c, i)` -/
def owes (j : Job) (s : State) (pb q c i : Nat) : Nat :=
  if done j pb (s.proc pb q) then tcount c i (s.proc pb q).pending else 1

/-- every message in the channel comes from a real producer and, unless it is a `Terminate`, is
    followed by the `Terminate` of its producer (in the channel or still to be sent) -/
def ChanOk (n : Nat) (ow : Nat → Nat) : List Msg → Prop
  | [] => True
  | m :: rest => m.sender < n ∧
      (m.elem = .term ∨ 1 ≤ ow m.sender ∨ ∃ m' ∈ rest, m'.sender = m.sender ∧ m'.elem = .term) ∧
      ChanOk n ow rest

theorem chanOk_append {n : Nat} {ow ow' : Nat → Nat} {q0 : Nat} {e : Elem Nat} (l : List Msg)
    (h : ChanOk n ow l) (hq : q0 < n)
    (hmono : ∀ q, 1 ≤ ow q → 1 ≤ ow' q ∨ (q = q0 ∧ e = .term))
    (hnew : e = .term ∨ 1 ≤ ow' q0) : ChanOk n ow' (l ++ [⟨q0, e⟩]) := by
  induction l with
  | nil => exact ⟨hq, by rcases hnew with h | h <;> simp [h], trivial⟩
  | cons m l ih =>
    obtain ⟨h1, h2, h3⟩ := h
    refine ⟨h1, ?_, ih h3⟩
    rcases h2 with h2 | h2 | ⟨m', hm', h2⟩
    · exact .inl h2
    · rcases hmono _ h2 with h | ⟨h, he⟩
      · exact .inr (.inl h)
      · exact .inr (.inr ⟨⟨q0, e⟩, by simp, h.symm, he⟩)
    · exact .inr (.inr ⟨m', by simp [hm'], h2⟩)

theorem chanOk_mono {n : Nat} {ow ow' : Nat → Nat} (l : List Msg)
    (h : ChanOk n ow l) (hmono : ∀ q, q < n → 1 ≤ ow q → 1 ≤ ow' q) : ChanOk n ow' l := by
  induction l with
  | nil => trivial
  | cons m l ih =>
    obtain ⟨h1, h2, h3⟩ := h
    refine ⟨h1, ?_, ih h3⟩
    rcases h2 with h2 | h2 | h2
    · exact .inl h2
    · exact .inr (.inl (hmono _ h1 h2))
    · exact .inr (.inr h2)

theorem chanOk_empty {n : Nat} {ow : Nat → Nat} (l : List Msg) (h : ChanOk n ow l)
    (h0 : ∀ q, q < n → ow q = 0) (hc : countTerm l = 0) : l = [] := by
  cases l with
  | nil => rfl
  | cons m l =>
    exfalso
    obtain ⟨h1, h2, _⟩ := h
    unfold countTerm at hc
    rw [List.countP_eq_zero] at hc
    rcases h2 with h2 | h2 | ⟨m', hm', _, h2⟩
    · have := hc m (by simp); simp [h2] at this
    · have := h0 _ h1; omega
    · have := hc m' (by simp [hm']); simp [h2] at this

structure Inv (j : Job) (s : State) : Prop where
  capOk : ∀ b r, (s.chan b r).length ≤ j.cap
  tgtOk : ∀ b r sd, sd ∈ (s.proc b r).pending →
    sd.blk < j.nblocks ∧ sd.rep < j.replicas sd.blk ∧ j.prev sd.blk = some b
  pendDone : ∀ b r, done j b (s.proc b r) = true → ∀ sd ∈ (s.proc b r).pending, sd.elem = .term
  pendNot : ∀ b r, done j b (s.proc b r) = false → ∀ sd ∈ (s.proc b r).pending, sd.elem ≠ .term
  scriptOk : ∀ b r, j.prev b = none → ScriptOk (s.proc b r).script
  noChan : ∀ b r, (¬ j.valid b r ∨ j.prev b = none) → s.chan b r = []
  /-- `missing_terminate` = `Terminate`s in the channel + `Terminate`s the producers still owe -/
  termAcc : ∀ b r pb, j.valid b r → j.prev b = some pb →
    (s.proc b r).start.missingTerm
      = countTerm (s.chan b r) + sumTo (j.replicas pb) (fun q => owes j s pb q b r)
  chanOrd : ∀ b r pb, j.valid b r → j.prev b = some pb →
    ChanOk (j.replicas pb) (fun q => owes j s pb q b r) (s.chan b r)
  pub : ∀ b r, j.valid b r → (s.proc b r).published = if done j b (s.proc b r) then 1 else 0

theorem inv_init {j : Job} (wf : j.WF) : Inv j (init j) := by
  refine ⟨?_, ?_, ?_, ?_, ?_, ?_, ?_, ?_, ?_⟩
  · intro b r; simp [init]
  · intro b r sd h; simp [init, initProc] at h
  · intro b r _ sd h; simp [init, initProc] at h
  · intro b r _ sd h; simp [init, initProc] at h
  · intro b r hp
    simp only [init, initProc, hp]
    exact scriptOk_init _ (wf.input_ok b r)
  · intro b r _; rfl
  · intro b r pb hv hp
    have hpb := wf.topo b pb hv.1 hp
    have hb := hv.1
    have hn := wf.rep_pos pb (by omega)
    have : ∀ q, owes j (init j) pb q b r = 1 := by
      intro q
      unfold owes
      cases hpp : j.prev pb with
      | none => simp [done, init, initProc, hpp]
      | some x =>
        have hx := wf.topo pb x (by omega) hpp
        have := wf.rep_pos x (by omega)
        simp [done, init, initProc, hpp, Start.init]; intro h; omega
    simp only [this, sumTo_const_one]
    simp [init, initProc, hp, Start.init, countTerm]
  · intro b r pb _ _; simp [init, ChanOk]
  · intro b r hv
    cases hp : j.prev b with
    | none => simp [done, init, initProc, hp]
    | some pb =>
      have hpb := wf.topo b pb hv.1 hp
      have hb := hv.1
      have hn := wf.rep_pos pb (by omega)
      simp [done, init, initProc, hp, Start.init]; omega


/-! ## preservation: send -/

section send
variable {j : Job} {s : State} {b r : Nat} {sd : Send} {rest : List Send}

theorem send_proc_self : (sendState s b r sd rest).proc b r = { s.proc b r with pending := rest } := by
  simp [sendState, set2]

theorem send_proc_other {b' r' : Nat} (h : ¬ (b' = b ∧ r' = r)) :
    (sendState s b r sd rest).proc b' r' = s.proc b' r' := by
  simp [sendState, set2, h]

theorem send_done (b' r' : Nat) :
    done j b' ((sendState s b r sd rest).proc b' r') = done j b' (s.proc b' r') := by
  by_cases h : b' = b ∧ r' = r
  · obtain ⟨rfl, rfl⟩ := h; rw [send_proc_self]; rfl
  · rw [send_proc_other h]

theorem send_pending (hp : (s.proc b r).pending = sd :: rest) (b' r' : Nat) (x : Send)
    (hx : x ∈ ((sendState s b r sd rest).proc b' r').pending) : x ∈ (s.proc b' r').pending := by
  by_cases h : b' = b ∧ r' = r
  · obtain ⟨rfl, rfl⟩ := h; rw [send_proc_self] at hx; rw [hp]; simp at hx ⊢; exact .inr hx
  · rwa [send_proc_other h] at hx

theorem send_chan_self :
    (sendState s b r sd rest).chan sd.blk sd.rep = s.chan sd.blk sd.rep ++ [⟨r, sd.elem⟩] := by
  simp [sendState, set2]

theorem send_chan_other {c i : Nat} (h : ¬ (c = sd.blk ∧ i = sd.rep)) :
    (sendState s b r sd rest).chan c i = s.chan c i := by
  simp [sendState, set2, h]

theorem send_owes (h : Inv j s) (hp : (s.proc b r).pending = sd :: rest) (pb q c i : Nat) :
    owes j s pb q c i = owes j (sendState s b r sd rest) pb q c i +
      (if pb = b ∧ q = r ∧ c = sd.blk ∧ i = sd.rep ∧ done j b (s.proc b r) = true then 1 else 0) := by
  unfold owes
  rw [send_done]
  by_cases heq : pb = b ∧ q = r
  · obtain ⟨rfl, rfl⟩ := heq
    rw [send_proc_self]
    cases hd : done j pb (s.proc pb q) with
    | false => simp
    | true =>
      have ht := h.pendDone pb q hd sd (by simp [hp])
      simp only [hp, tcount_cons, ht, if_true]
      by_cases hm : c = sd.blk ∧ i = sd.rep
      · obtain ⟨rfl, rfl⟩ := hm; simp
      · have h1 : ¬ (sd.blk = c ∧ sd.rep = i) := by
          intro ⟨h1, h2⟩; exact hm ⟨h1.symm, h2.symm⟩
        simp only [and_true, true_and]
        rw [if_neg h1, if_neg hm]
  · rw [send_proc_other heq]
    have : ¬ (pb = b ∧ q = r ∧ c = sd.blk ∧ i = sd.rep ∧ done j b (s.proc b r) = true) := by
      intro ⟨h1, h2, _⟩; exact heq ⟨h1, h2⟩
    simp [this]

theorem send_owes_other (h : Inv j s) (hp : (s.proc b r).pending = sd :: rest) (pb q c i : Nat)
    (hne : ¬ (pb = b ∧ q = r ∧ c = sd.blk ∧ i = sd.rep)) :
    owes j (sendState s b r sd rest) pb q c i = owes j s pb q c i := by
  have := send_owes (c := c) (i := i) h hp pb q
  rw [if_neg (by intro ⟨h1, h2, h3, h4, _⟩; exact hne ⟨h1, h2, h3, h4⟩)] at this
  omega

theorem send_owes_hit (h : Inv j s) (hp : (s.proc b r).pending = sd :: rest) :
    owes j s b r sd.blk sd.rep = owes j (sendState s b r sd rest) b r sd.blk sd.rep +
      (if done j b (s.proc b r) = true then 1 else 0) := by
  have := send_owes (c := sd.blk) (i := sd.rep) h hp b r
  rw [this]
  congr 1
  simp

theorem countTerm_append (l : List Msg) (m : Msg) :
    countTerm (l ++ [m]) = countTerm l + (if m.elem = .term then 1 else 0) := by
  simp [countTerm, List.countP_append, List.countP_cons]

theorem inv_send (h : Inv j s) (hv : j.valid b r)
    (hp : (s.proc b r).pending = sd :: rest) (hl : (s.chan sd.blk sd.rep).length < j.cap) :
    Inv j (sendState s b r sd rest) := by
  have ht := h.tgtOk b r sd (by simp [hp])
  refine ⟨?_, ?_, ?_, ?_, ?_, ?_, ?_, ?_, ?_⟩
  · intro c i
    by_cases hc : c = sd.blk ∧ i = sd.rep
    · obtain ⟨rfl, rfl⟩ := hc; rw [send_chan_self]; simp; omega
    · rw [send_chan_other hc]; exact h.capOk c i
  · intro b' r' x hx
    have hx' := send_pending hp b' r' x hx
    exact h.tgtOk b' r' x hx'
  · intro b' r' hd x hx
    rw [send_done] at hd
    exact h.pendDone b' r' hd x (send_pending hp b' r' x hx)
  · intro b' r' hd x hx
    rw [send_done] at hd
    exact h.pendNot b' r' hd x (send_pending hp b' r' x hx)
  · intro b' r' hpr
    by_cases heq : b' = b ∧ r' = r
    · obtain ⟨rfl, rfl⟩ := heq; rw [send_proc_self]; exact h.scriptOk b' r' hpr
    · rw [send_proc_other heq]; exact h.scriptOk b' r' hpr
  · intro c i hc
    have hne : ¬ (c = sd.blk ∧ i = sd.rep) := by
      intro ⟨h1, h2⟩
      subst h1 h2
      rcases hc with hc | hc
      · exact hc ⟨ht.1, ht.2.1⟩
      · rw [ht.2.2] at hc; cases hc
    rw [send_chan_other hne]; exact h.noChan c i hc
  · intro c i pb hvc hpc
    have hacc := h.termAcc c i pb hvc hpc
    have hstart : ((sendState s b r sd rest).proc c i).start = (s.proc c i).start := by
      by_cases heq : c = b ∧ i = r
      · obtain ⟨rfl, rfl⟩ := heq; rw [send_proc_self]
      · rw [send_proc_other heq]
    rw [hstart, hacc]
    by_cases hc : c = sd.blk ∧ i = sd.rep
    · obtain ⟨rfl, rfl⟩ := hc
      have hpb : pb = b := by rw [ht.2.2] at hpc; cases hpc; rfl
      subst hpb
      rw [send_chan_self, countTerm_append]
      have hsum := sumTo_change (n := j.replicas pb) (i := r)
        (f := fun q => owes j s pb q sd.blk sd.rep)
        (g := fun q => owes j (sendState s pb r sd rest) pb q sd.blk sd.rep) hv.2
        (fun k _ hk => send_owes_other h hp pb k sd.blk sd.rep (fun hh => hk hh.2.1))
      have ho := send_owes_hit h hp
      cases hd : done j pb (s.proc pb r) with
      | true =>
        have := h.pendDone pb r hd sd (by simp [hp])
        rw [hd] at ho
        simp only [if_true] at ho
        simp only [this, if_true]; omega
      | false =>
        have := h.pendNot pb r hd sd (by simp [hp])
        rw [hd] at ho
        simp only [Bool.false_eq_true, if_false] at ho
        simp only [this, if_false]; omega
    · rw [send_chan_other hc]
      congr 1
      apply sumTo_congr
      intro q _
      exact (send_owes_other h hp pb q c i (fun hh => hc hh.2.2)).symm
  · intro c i pb hvc hpc
    have hord := h.chanOrd c i pb hvc hpc
    by_cases hc : c = sd.blk ∧ i = sd.rep
    · obtain ⟨rfl, rfl⟩ := hc
      have hpb : pb = b := by rw [ht.2.2] at hpc; cases hpc; rfl
      subst hpb
      rw [send_chan_self]
      apply chanOk_append _ hord hv.2
      · intro q hq
        by_cases hqr : q = r
        · subst hqr
          have ho := send_owes_hit h hp
          cases hd : done j pb (s.proc pb q) with
          | true => exact .inr ⟨rfl, h.pendDone pb q hd sd (by simp [hp])⟩
          | false =>
            rw [hd] at ho
            simp only [Bool.false_eq_true, if_false] at ho
            left; omega
        · have ho := send_owes_other h hp pb q sd.blk sd.rep (fun hh => hqr hh.2.1)
          left; omega
      · cases hd : done j pb (s.proc pb r) with
        | true => exact .inl (h.pendDone pb r hd sd (by simp [hp]))
        | false =>
          right
          simp only [owes, send_done, hd]
          simp
    · rw [send_chan_other hc]
      apply chanOk_mono _ hord
      intro q _ hq
      have := send_owes_other h hp pb q c i (fun hh => hc hh.2.2)
      omega
  · intro c i hvc
    rw [send_done]
    by_cases heq : c = b ∧ i = r
    · obtain ⟨rfl, rfl⟩ := heq; rw [send_proc_self]; exact h.pub c i hvc
    · rw [send_proc_other heq]; exact h.pub c i hvc

end send

/-! ## preservation: pulling an element (source script or `Start`) -/

theorem done_emit (j : Job) (b r : Nat) (p0 : Proc) (outs : List (Elem Nat)) :
    done j b (emit j b r p0 outs) = done j b p0 := by
  unfold done emit
  cases j.prev b <;> rfl

/-- what the process-local part of a pull preserves -/
structure PullOk (j : Job) (s : State) (b r : Nat) (p0 : Proc) (outs : List (Elem Nat)) : Prop where
  notDone : done j b (s.proc b r) = false
  isTerm : done j b p0 = true → outs = [.term]
  noTerm : done j b p0 = false → Elem.term ∉ outs
  pubEq : p0.published = (s.proc b r).published
  scr : j.prev b = none → ScriptOk p0.script

section pull
variable {j : Job} {s s' : State} {b r : Nat} {p0 : Proc} {outs : List (Elem Nat)}

theorem pull_mem_pending {sd : Send} (h : sd ∈ (emit j b r p0 outs).pending) :
    ∃ e ∈ outs, sd ∈ sendsOf j b r p0.clock e := by
  simp only [emit, List.mem_flatMap] at h
  exact h

theorem pull_owes (hs : s'.proc = set2 s.proc b r (emit j b r p0 outs))
    (ok : PullOk j s b r p0 outs) (pb q c i : Nat) (hv : j.valid c i) (hp : j.prev c = some pb) :
    owes j s' pb q c i = owes j s pb q c i := by
  unfold owes
  rw [hs]
  by_cases heq : pb = b ∧ q = r
  · obtain ⟨rfl, rfl⟩ := heq
    rw [set2_same, ok.notDone, done_emit]
    cases hd : done j pb p0 with
    | false => rfl
    | true =>
      have := ok.isTerm hd
      subst this
      simp only [emit, List.flatMap_cons, List.flatMap_nil, List.append_nil, if_true]
      rw [tcount_sendsOf_term hv hp]
      simp
  · rw [set2_other _ _ _ _ _ _ heq]

theorem pull_tgtOk (wf : j.WF) (h : Inv j s) (hs : s'.proc = set2 s.proc b r (emit j b r p0 outs)) :
    ∀ b' r' sd, sd ∈ (s'.proc b' r').pending →
      sd.blk < j.nblocks ∧ sd.rep < j.replicas sd.blk ∧ j.prev sd.blk = some b' := by
  intro b' r' sd hsd
  rw [hs] at hsd
  by_cases heq : b' = b ∧ r' = r
  · obtain ⟨rfl, rfl⟩ := heq
    rw [set2_same] at hsd
    obtain ⟨e, _, he⟩ := pull_mem_pending hsd
    exact (mem_sendsOf wf he).2
  · rw [set2_other _ _ _ _ _ _ heq] at hsd
    exact h.tgtOk b' r' sd hsd

theorem pull_pendDone (wf : j.WF) (h : Inv j s) (hs : s'.proc = set2 s.proc b r (emit j b r p0 outs))
    (ok : PullOk j s b r p0 outs) :
    ∀ b' r', done j b' (s'.proc b' r') = true → ∀ sd ∈ (s'.proc b' r').pending, sd.elem = .term := by
  intro b' r' hd sd hsd
  rw [hs] at hsd hd
  by_cases heq : b' = b ∧ r' = r
  · obtain ⟨rfl, rfl⟩ := heq
    rw [set2_same] at hsd hd
    rw [done_emit] at hd
    obtain ⟨e, he1, he⟩ := pull_mem_pending hsd
    rw [ok.isTerm hd] at he1
    simp at he1; subst he1
    exact (mem_sendsOf wf he).1
  · rw [set2_other _ _ _ _ _ _ heq] at hsd hd
    exact h.pendDone b' r' hd sd hsd

theorem pull_pendNot (wf : j.WF) (h : Inv j s) (hs : s'.proc = set2 s.proc b r (emit j b r p0 outs))
    (ok : PullOk j s b r p0 outs) :
    ∀ b' r', done j b' (s'.proc b' r') = false → ∀ sd ∈ (s'.proc b' r').pending, sd.elem ≠ .term := by
  intro b' r' hd sd hsd
  rw [hs] at hsd hd
  by_cases heq : b' = b ∧ r' = r
  · obtain ⟨rfl, rfl⟩ := heq
    rw [set2_same] at hsd hd
    rw [done_emit] at hd
    obtain ⟨e, he1, he⟩ := pull_mem_pending hsd
    rw [(mem_sendsOf wf he).1]
    intro h; subst h
    exact ok.noTerm hd he1
  · rw [set2_other _ _ _ _ _ _ heq] at hsd hd
    exact h.pendNot b' r' hd sd hsd

theorem pull_scriptOk (h : Inv j s) (hs : s'.proc = set2 s.proc b r (emit j b r p0 outs))
    (ok : PullOk j s b r p0 outs) :
    ∀ b' r', j.prev b' = none → ScriptOk (s'.proc b' r').script := by
  intro b' r' hp
  rw [hs]
  by_cases heq : b' = b ∧ r' = r
  · obtain ⟨rfl, rfl⟩ := heq
    rw [set2_same]
    exact ok.scr hp
  · rw [set2_other _ _ _ _ _ _ heq]
    exact h.scriptOk b' r' hp

theorem pull_pub (h : Inv j s) (hs : s'.proc = set2 s.proc b r (emit j b r p0 outs))
    (ok : PullOk j s b r p0 outs) :
    ∀ b' r', j.valid b' r' →
      (s'.proc b' r').published = if done j b' (s'.proc b' r') then 1 else 0 := by
  intro b' r' hv
  rw [hs]
  by_cases heq : b' = b ∧ r' = r
  · obtain ⟨rfl, rfl⟩ := heq
    rw [set2_same, done_emit]
    have hold := h.pub b' r' hv
    rw [ok.notDone] at hold
    have hp : (emit j b' r' p0 outs).published = p0.published + outs.countP Elem.isTerm := rfl
    rw [hp, ok.pubEq, hold]
    cases hd : done j b' p0 with
    | true => rw [ok.isTerm hd]; simp [Elem.isTerm]
    | false =>
      have := ok.noTerm hd
      have h0 : outs.countP Elem.isTerm = 0 := by
        rw [List.countP_eq_zero]
        intro x hx
        cases x <;> simp [Elem.isTerm]
        exact this hx
      simp [h0]
  · rw [set2_other _ _ _ _ _ _ heq]
    exact h.pub b' r' hv

end pull

/-! ### source -/

theorem inv_src {j : Job} (wf : j.WF) {s : State} {b r : Nat} {e : Elem Nat} {es : List (Elem Nat)}
    (h : Inv j s) (hpr : j.prev b = none) (hs : (s.proc b r).script = e :: es) :
    Inv j (srcState j s b r e es) := by
  have hproc : (srcState j s b r e es).proc
      = set2 s.proc b r (emit j b r { s.proc b r with script := es } [e]) := rfl
  have hchan : (srcState j s b r e es).chan = s.chan := rfl
  have hso := h.scriptOk b r hpr
  rw [hs] at hso
  have ok : PullOk j s b r { s.proc b r with script := es } [e] := by
    refine ⟨?_, ?_, ?_, rfl, ?_⟩
    · simp [done, hpr, hs]
    · intro hd
      simp only [done, hpr, List.isEmpty_iff] at hd
      subst hd
      simp only [ScriptOk] at hso
      rw [hso]
    · intro hd
      simp only [done, hpr] at hd
      cases es with
      | nil => simp at hd
      | cons e' es' => simp only [ScriptOk] at hso; simpa using fun h => hso.1 h.symm
    · intro _
      cases es with
      | nil => trivial
      | cons e' es' => exact hso.2
  refine ⟨?_, pull_tgtOk wf h hproc, pull_pendDone wf h hproc ok, pull_pendNot wf h hproc ok,
    pull_scriptOk h hproc ok, ?_, ?_, ?_, pull_pub h hproc ok⟩
  · intro c i; rw [hchan]; exact h.capOk c i
  · intro c i hc; rw [hchan]; exact h.noChan c i hc
  · intro c i pb hvc hpc
    have hne : ¬ (c = b ∧ i = r) := by
      intro ⟨h1, _⟩; subst h1; rw [hpr] at hpc; cases hpc
    rw [hchan, hproc, set2_other _ _ _ _ _ _ hne, h.termAcc c i pb hvc hpc]
    congr 1
    exact sumTo_congr (fun q _ => (pull_owes hproc ok pb q c i hvc hpc).symm)
  · intro c i pb hvc hpc
    rw [hchan]
    apply chanOk_mono _ (h.chanOrd c i pb hvc hpc)
    intro q _ hq
    rw [pull_owes hproc ok pb q c i hvc hpc]
    exact hq

/-! ### receive -/

theorem countTerm_cons (m : Msg) (l : List Msg) :
    countTerm (m :: l) = countTerm l + (if m.elem = .term then 1 else 0) := by
  simp [countTerm, List.countP_cons]

theorem inv_recv {j : Job} (wf : j.WF) {s : State} {b r pb : Nat} {m : Msg} {ms : List Msg}
    (h : Inv j s) (hv : j.valid b r) (hpr : j.prev b = some pb)
    (hmt : (s.proc b r).start.missingTerm ≠ 0) (hc : s.chan b r = m :: ms) :
    Inv j (recvState j s b r m ms) := by
  have hproc : (recvState j s b r m ms).proc = set2 s.proc b r (emit j b r
      { s.proc b r with start := (Start.step (s.proc b r).start (.elem m.sender m.elem)).1 }
      (Start.step (s.proc b r).start (.elem m.sender m.elem)).2) := rfl
  have hchan : (recvState j s b r m ms).chan = set2 s.chan b r ms := rfl
  obtain ⟨_, hS2, hS3, hS4, _, _⟩ := start_step_cases (s.proc b r).start m.sender m.elem hmt
  have ok : PullOk j s b r
      { s.proc b r with start := (Start.step (s.proc b r).start (.elem m.sender m.elem)).1 }
      (Start.step (s.proc b r).start (.elem m.sender m.elem)).2 := by
    refine ⟨?_, ?_, ?_, rfl, ?_⟩
    · simp [done, hpr, hmt]
    · intro hd
      simp only [done, hpr, beq_iff_eq] at hd
      exact hS3 hd
    · intro hd
      simp only [done, hpr, beq_eq_false_iff_ne] at hd
      exact hS4 hd
    · intro h0; rw [hpr] at h0; cases h0
  have hpb := wf.topo b pb hv.1 hpr
  refine ⟨?_, pull_tgtOk wf h hproc, pull_pendDone wf h hproc ok, pull_pendNot wf h hproc ok,
    pull_scriptOk h hproc ok, ?_, ?_, ?_, pull_pub h hproc ok⟩
  · intro c i
    rw [hchan]
    by_cases heq : c = b ∧ i = r
    · obtain ⟨rfl, rfl⟩ := heq
      rw [set2_same]
      have := h.capOk c i
      rw [hc] at this; simp at this; omega
    · rw [set2_other _ _ _ _ _ _ heq]; exact h.capOk c i
  · intro c i hci
    rw [hchan]
    by_cases heq : c = b ∧ i = r
    · obtain ⟨rfl, rfl⟩ := heq
      rcases hci with hci | hci
      · exact absurd hv hci
      · rw [hpr] at hci; cases hci
    · rw [set2_other _ _ _ _ _ _ heq]; exact h.noChan c i hci
  · intro c i pc hvc hpc
    have hsum : sumTo (j.replicas pc) (fun q => owes j (recvState j s b r m ms) pc q c i)
        = sumTo (j.replicas pc) (fun q => owes j s pc q c i) :=
      sumTo_congr (fun q _ => pull_owes hproc ok pc q c i hvc hpc)
    rw [hsum, hchan, hproc]
    have hacc := h.termAcc c i pc hvc hpc
    by_cases heq : c = b ∧ i = r
    · obtain ⟨rfl, rfl⟩ := heq
      rw [set2_same, set2_same]
      rw [hc, countTerm_cons] at hacc
      have : (emit j c i { s.proc c i with start := (Start.step (s.proc c i).start (.elem m.sender m.elem)).1 }
          (Start.step (s.proc c i).start (.elem m.sender m.elem)).2).start
          = (Start.step (s.proc c i).start (.elem m.sender m.elem)).1 := rfl
      rw [this, hS2]
      omega
    · rw [set2_other _ _ _ _ _ _ heq, set2_other _ _ _ _ _ _ heq]
      exact hacc
  · intro c i pc hvc hpc
    have hord := h.chanOrd c i pc hvc hpc
    have hmono : ∀ q, q < j.replicas pc → 1 ≤ owes j s pc q c i →
        1 ≤ owes j (recvState j s b r m ms) pc q c i := by
      intro q _ hq
      rw [pull_owes hproc ok pc q c i hvc hpc]; exact hq
    rw [hchan]
    by_cases heq : c = b ∧ i = r
    · obtain ⟨rfl, rfl⟩ := heq
      rw [set2_same]
      rw [hc] at hord
      exact chanOk_mono _ hord.2.2 hmono
    · rw [set2_other _ _ _ _ _ _ heq]
      exact chanOk_mono _ hord hmono

theorem inv_step {j : Job} (wf : j.WF) {s : State} (h : Inv j s) (b r : Nat) :
    Inv j (step j s b r) := by
  have hc := step_case j s b r
  generalize step j s b r = s' at hc
  cases hc with
  | idle _ => exact h
  | send sd rest _ hv hp hl => exact inv_send h hv hp hl
  | src e es _ _ _ hpr hs => exact inv_src wf h hpr hs
  | recv m ms pb _ hv _ hpr hmt hc => exact inv_recv wf h hv hpr hmt hc

theorem inv_reachable {j : Job} (wf : j.WF) {s : State} (h : Reachable j s) : Inv j s := by
  induction h with
  | init => exact inv_init wf
  | step b r _ ih => exact inv_step wf ih b r


/-! ## the layer-1 configuration -/

theorem rep_le_maxRep (j : Job) {b : Nat} (hb : b < j.nblocks) : j.replicas b ≤ maxRep j :=
  (Net.foldl_max_ge j.replicas (List.range j.nblocks) 0).2 b (List.mem_range.mpr hb)

theorem pid_div (j : Job) {b i : Nat} (hi : i < maxRep j) : pid j b i / maxRep j = b := by
  unfold pid
  apply Nat.div_eq_of_lt_le
  · omega
  · rw [Nat.succ_mul]; omega

theorem pid_mod (j : Job) {b i : Nat} (hi : i < maxRep j) : pid j b i % maxRep j = i := by
  unfold pid
  rw [Nat.mul_add_mod_self_right, Nat.mod_eq_of_lt hi]

theorem pid_decode (j : Job) (p : Nat) : pid j (p / maxRep j) (p % maxRep j) = p := by
  unfold pid
  exact Nat.div_add_mod' p (maxRep j)

theorem pid_lt (j : Job) {b i : Nat} (hv : j.valid b i) : pid j b i < j.nblocks * maxRep j := by
  have h1 := rep_le_maxRep j hv.1
  have h2 := hv.2
  have h3 : (b + 1) * maxRep j ≤ j.nblocks * maxRep j := Nat.mul_le_mul_right _ hv.1
  rw [Nat.succ_mul] at h3
  unfold pid; omega

theorem valid_lt_maxRep (j : Job) {b i : Nat} (hv : j.valid b i) : i < maxRep j := by
  have := rep_le_maxRep j hv.1; have := hv.2; omega

theorem cfg_status_valid (j : Job) (s : State) {b r : Nat} (hv : j.valid b r) :
    (toConfig j s).status (pid j b r) = status j s b r := by
  have hr := valid_lt_maxRep j hv
  simp only [toConfig, pid_div j hr, pid_mod j hr, hv.2, if_true]

/-- a non-finished layer-1 process is a replica of the job -/
theorem cfg_status_inv (j : Job) (s : State) {p : Nat} (hp : p < (toConfig j s).nproc)
    (hne : (toConfig j s).status p ≠ .finished) :
    j.valid (p / maxRep j) (p % maxRep j) ∧
    (toConfig j s).status p = status j s (p / maxRep j) (p % maxRep j) := by
  have hp' : p < j.nblocks * maxRep j := hp
  by_cases hr : p % maxRep j < j.replicas (p / maxRep j)
  · refine ⟨⟨Nat.div_lt_of_lt_mul (by rwa [Nat.mul_comm] at hp'), hr⟩, ?_⟩
    simp only [toConfig, hr, if_true]
  · exfalso; apply hne; simp only [toConfig, hr, if_false]

theorem status_sendBlocked {j : Job} {s : State} {b r ch : Nat} (h : status j s b r = .sendBlocked ch) :
    ∃ sd rest, (s.proc b r).pending = sd :: rest ∧ ¬ (s.chan sd.blk sd.rep).length < j.cap ∧
      ch = pid j sd.blk sd.rep := by
  unfold status at h
  cases hp : (s.proc b r).pending with
  | nil =>
    simp only [hp] at h
    split at h
    · cases h
    · split at h
      · cases h
      · split at h <;> cases h
  | cons sd rest =>
    simp only [hp] at h
    split at h
    · cases h
    · rename_i hl
      injection h with h
      exact ⟨sd, rest, rfl, hl, h.symm⟩

theorem status_recvBlocked {j : Job} {s : State} {b r : Nat} {w : List Nat}
    (h : status j s b r = .recvBlocked w) :
    (s.proc b r).pending = [] ∧ done j b (s.proc b r) = false ∧ (∃ pb, j.prev b = some pb) ∧
      s.chan b r = [] ∧ w = [pid j b r] := by
  unfold status at h
  cases hp : (s.proc b r).pending with
  | cons sd rest =>
    simp only [hp] at h
    split at h <;> cases h
  | nil =>
    simp only [hp] at h
    split at h
    · cases h
    · rename_i hd
      split at h
      · cases h
      · rename_i pb hpb
        split at h
        · rename_i he
          injection h with h
          exact ⟨rfl, by simpa using hd, ⟨pb, hpb⟩, by simpa using he, h.symm⟩
        · cases h

theorem status_finished {j : Job} {s : State} {b r : Nat} :
    status j s b r = .finished ↔ (s.proc b r).pending = [] ∧ done j b (s.proc b r) = true := by
  unfold status
  constructor
  · intro h
    cases hp : (s.proc b r).pending with
    | cons sd rest =>
      simp only [hp] at h
      split at h <;> cases h
    | nil =>
      simp only [hp] at h
      split at h
      · rename_i hd; exact ⟨rfl, hd⟩
      · split at h
        · cases h
        · split at h <;> cases h
  · intro ⟨hp, hd⟩
    simp only [hp, hd, if_true]

/-- **A3**: a replica that has pulled `Terminate` has an empty input channel. -/
theorem done_chan_empty {j : Job} {s : State} (h : Inv j s) {b r : Nat} (hv : j.valid b r)
    (hd : done j b (s.proc b r) = true) : s.chan b r = [] := by
  cases hp : j.prev b with
  | none => exact h.noChan b r (.inr hp)
  | some pb =>
    have hacc := h.termAcc b r pb hv hp
    have hmt : (s.proc b r).start.missingTerm = 0 := by simpa [done, hp] using hd
    rw [hmt] at hacc
    apply chanOk_empty _ (h.chanOrd b r pb hv hp)
    · exact sumTo_zero (f := fun q => owes j s pb q b r) (by omega)
    · omega

theorem finished_owes {j : Job} {s : State} {pb q c i : Nat} (h : status j s pb q = .finished) :
    owes j s pb q c i = 0 := by
  obtain ⟨hp, hd⟩ := status_finished.mp h
  simp [owes, hd, hp, tcount]

theorem wellFormed_of_inv {j : Job} (wf : j.WF) {s : State} (h : Inv j s) :
    Net.WellFormed (toConfig j s) := by
  refine ⟨?_, ?_, ?_, ?_, ?_, ?_⟩
  · -- A1
    intro p ch hp hs
    obtain ⟨hv, hst⟩ := cfg_status_inv j s hp (by rw [hs]; intro h; cases h)
    rw [hst] at hs
    obtain ⟨sd, rest, hpend, hfull, rfl⟩ := status_sendBlocked hs
    obtain ⟨t1, t2, t3⟩ := h.tgtOk (p / maxRep j) (p % maxRep j) sd (by rw [hpend]; simp)
    have hvt : j.valid sd.blk sd.rep := ⟨t1, t2⟩
    have hr := valid_lt_maxRep j hvt
    have hcap := h.capOk sd.blk sd.rep
    refine ⟨?_, wf.cap_pos, pid_lt j hvt, ?_⟩
    · simp only [toConfig, pid_div j hr, pid_mod j hr]; omega
    · simp only [toConfig, pid_div j hr, pid_mod j hr, hvt, if_true, t3]
      exact List.mem_map.mpr ⟨p % maxRep j, List.mem_range.mpr hv.2, pid_decode j p⟩
  · -- A2
    intro p w ch hp hs hch
    obtain ⟨hv, hst⟩ := cfg_status_inv j s hp (by rw [hs]; intro h; cases h)
    rw [hst] at hs
    obtain ⟨_, _, ⟨pb, hpb⟩, hempty, rfl⟩ := status_recvBlocked hs
    simp only [List.mem_singleton] at hch
    subst hch
    rw [pid_decode]
    refine ⟨?_, rfl, ?_⟩
    · simp only [toConfig, hempty, List.length_nil]
    · intro q hq
      simp only [toConfig, hv, if_true, hpb] at hq
      obtain ⟨i, hi, rfl⟩ := List.mem_map.mp hq
      have := wf.topo _ pb hv.1 hpb
      exact pid_lt j ⟨by have := hv.1; omega, List.mem_range.mp hi⟩
  · -- A3
    intro ch hch hs
    simp only [toConfig] at hs ⊢
    by_cases hr : ch % maxRep j < j.replicas (ch / maxRep j)
    · have hb : ch / maxRep j < j.nblocks :=
        Nat.div_lt_of_lt_mul (by have : ch < j.nblocks * maxRep j := hch; rwa [Nat.mul_comm] at this)
      simp only [hr, if_true] at hs
      rw [done_chan_empty h ⟨hb, hr⟩ (status_finished.mp hs).2]; rfl
    · rw [h.noChan _ _ (.inl (fun hv => hr hv.2))]; rfl
  · -- A4
    intro p ch w hp hs hcs
    have hcs' : (toConfig j s).status ch = .recvBlocked w := hcs
    simp only [toConfig] at hcs'
    by_cases hr : ch % maxRep j < j.replicas (ch / maxRep j)
    · simp only [hr, if_true] at hcs'
      obtain ⟨_, _, _, _, rfl⟩ := status_recvBlocked hcs'
      rw [pid_decode]; simp
    · simp only [hr, if_false] at hcs'; cases hcs'
  · -- A5
    intro p w hp hs hall
    obtain ⟨hv, hst⟩ := cfg_status_inv j s hp (by rw [hs]; intro h; cases h)
    rw [hst] at hs
    obtain ⟨_, hnd, ⟨pb, hpb⟩, hempty, rfl⟩ := status_recvBlocked hs
    have hacc := h.termAcc _ _ pb hv hpb
    have hlt := wf.topo _ pb hv.1 hpb
    have hpbv : pb < j.nblocks := by have := hv.1; omega
    have hsum : sumTo (j.replicas pb) (fun q => owes j s pb q (p / maxRep j) (p % maxRep j)) = 0 := by
      apply sumTo_eq_zero
      intro q hq
      apply finished_owes
      rw [← cfg_status_valid j s ⟨hpbv, hq⟩]
      apply hall (pid j (p / maxRep j) (p % maxRep j)) (by simp)
      rw [pid_decode]
      simp only [toConfig, hv, if_true, hpb]
      exact List.mem_map.mpr ⟨q, List.mem_range.mpr hq, rfl⟩
    rw [hsum, hempty] at hacc
    simp [done, hpb, countTerm] at hnd hacc
    exact hnd hacc
  · -- A6
    intro ch q hq
    simp only [toConfig] at hq ⊢
    by_cases hv : j.valid (ch / maxRep j) (ch % maxRep j)
    · simp only [hv, if_true] at hq
      cases hpb : j.prev (ch / maxRep j) with
      | none => simp [hpb] at hq
      | some pb =>
        simp only [hpb] at hq
        obtain ⟨i, hi, rfl⟩ := List.mem_map.mp hq
        have hlt := wf.topo _ pb hv.1 hpb
        have hpbv : pb < j.nblocks := by have := hv.1; omega
        rw [pid_div j (valid_lt_maxRep j ⟨hpbv, List.mem_range.mp hi⟩)]
        exact hlt
    · simp only [hv, if_false] at hq; cases hq


/-! ## progress -/

theorem progress {j : Job} (wf : j.WF) {s : State} (h : Inv j s) (hnf : ¬ final j s) :
    ∃ b r, enabled j s b r := by
  apply Classical.byContradiction
  intro hno
  apply hnf
  have hall := Net.stuck_all_finished (toConfig j s) (wellFormed_of_inv wf h) (by
    intro p hp hr
    obtain ⟨hv, hst⟩ := cfg_status_inv j s hp (by rw [hr]; intro h; cases h)
    rw [hst] at hr
    exact hno ⟨_, _, hv, hr⟩)
  intro b r hv
  rw [← cfg_status_valid j s hv]
  exact hall _ (pid_lt j hv)

/-! ## the termination measure -/

def procW (j : Job) (b : Nat) (p : Proc) : Nat := p.script.length * W j b + sendW j p.pending

/-- remaining source elements, pending sends and elements in flight, each weighted by the number
    of steps it can still cause downstream -/
def cellW (j : Job) (s : State) (b r : Nat) : Nat :=
  procW j b (s.proc b r) + (s.chan b r).length * W j b

def mu (j : Job) (s : State) : Nat := sum2 j (cellW j s)

theorem sendW_cons (j : Job) (sd : Send) (l : List Send) :
    sendW j (sd :: l) = 1 + W j sd.blk + sendW j l := by
  simp [sendW]

theorem sendW_outs {j : Job} (wf : j.WF) (b r k : Nat) (outs : List (Elem Nat)) (hl : outs.length ≤ 2) :
    sendW j (outs.flatMap (sendsOf j b r k)) + 1 ≤ W j b := by
  rw [W_eq wf b]
  match outs, hl with
  | [], _ => simp [sendW]
  | [x], _ =>
    simp only [List.flatMap_cons, List.flatMap_nil, List.append_nil]
    have := sendW_sendsOf_le wf b r k x
    omega
  | [x, y], _ =>
    simp only [List.flatMap_cons, List.flatMap_nil, List.append_nil, sendW_append]
    have := sendW_sendsOf_le wf b r k x
    have := sendW_sendsOf_le wf b r k y
    omega
  | _ :: _ :: _ :: _, hl => simp at hl

theorem mu_step {j : Job} (wf : j.WF) {s : State} (h : Inv j s) {b r : Nat} (he : enabled j s b r) :
    mu j (step j s b r) < mu j s := by
  have hc := step_case j s b r
  generalize step j s b r = s' at hc
  cases hc with
  | idle hne => exact absurd he hne
  | send sd rest _ hv hp hl =>
    obtain ⟨t1, t2, t3⟩ := h.tgtOk b r sd (by rw [hp]; simp)
    have hne : ¬ (sd.blk = b ∧ sd.rep = r) := by
      intro ⟨h1, _⟩; have := wf.topo _ _ t1 t3; omega
    -- first the sender's pending list (state `s1`), then the target channel
    let s1 : State := { proc := (sendState s b r sd rest).proc, chan := s.chan }
    have h1 := sum2_change (j := j) (b := b) (r := r) hv (f := cellW j s) (g := cellW j s1)
      (by intro b' r' _ hne'; simp only [cellW, s1, send_proc_other hne'])
    have h2 := sum2_change (j := j) (b := sd.blk) (r := sd.rep) ⟨t1, t2⟩ (f := cellW j s1)
      (g := cellW j (sendState s b r sd rest))
      (by intro b' r' _ hne'; simp only [cellW, s1, send_chan_other hne'])
    have e1 : cellW j s b r = cellW j s1 b r + (1 + W j sd.blk) := by
      simp only [cellW, s1, send_proc_self, procW, hp, sendW_cons]; omega
    have e2 : cellW j (sendState s b r sd rest) sd.blk sd.rep = cellW j s1 sd.blk sd.rep + W j sd.blk := by
      simp only [cellW, s1, send_chan_self, List.length_append, List.length_singleton, Nat.succ_mul]
      omega
    unfold mu
    omega
  | src e es _ hv hp hpr hs =>
    have h1 := sum2_change (j := j) (b := b) (r := r) hv (f := cellW j s)
      (g := cellW j (srcState j s b r e es))
      (by intro b' r' _ hne'; simp only [cellW, srcState, set2_other _ _ _ _ _ _ hne'])
    have hw := sendW_sendsOf wf b r (s.proc b r).clock e
    have e1 : cellW j (srcState j s b r e es) b r + 1 ≤ cellW j s b r := by
      simp only [cellW, srcState, set2_same, procW, emit, hs, hp, List.length_cons, Nat.succ_mul,
        List.flatMap_cons, List.flatMap_nil, List.append_nil]
      have : sendW j [] = 0 := rfl
      omega
    unfold mu
    omega
  | recv m ms pb _ hv hp hpr hmt hc =>
    have h1 := sum2_change (j := j) (b := b) (r := r) hv (f := cellW j s)
      (g := cellW j (recvState j s b r m ms))
      (by intro b' r' _ hne'; simp only [cellW, recvState, set2_other _ _ _ _ _ _ hne'])
    obtain ⟨hS1, _⟩ := start_step_cases (s.proc b r).start m.sender m.elem hmt
    have hw := sendW_outs wf b r (s.proc b r).clock _ hS1
    have e1 : cellW j (recvState j s b r m ms) b r + 1 ≤ cellW j s b r := by
      simp only [cellW, recvState, set2_same, procW, emit, hc, hp, List.length_cons, Nat.succ_mul]
      have : sendW j [] = 0 := rfl
      omega
    unfold mu
    omega


/-! ## executions -/

theorem run_cons (j : Job) (s : State) (p : Nat × Nat) (l : List (Nat × Nat)) :
    run j s (p :: l) = run j (step j s p.1 p.2) l := rfl

theorem run_append (j : Job) (s : State) (l1 l2 : List (Nat × Nat)) :
    run j s (l1 ++ l2) = run j (run j s l1) l2 := by
  simp [run, List.foldl_append]

theorem reachable_run {j : Job} {s : State} (h : Reachable j s) (l : List (Nat × Nat)) :
    Reachable j (run j s l) := by
  induction l generalizing s with
  | nil => exact h
  | cons p l ih => exact ih (.step p.1 p.2 h)

theorem inv_run {j : Job} (wf : j.WF) {s : State} (h : Inv j s) (l : List (Nat × Nat)) :
    Inv j (run j s l) := by
  induction l generalizing s with
  | nil => exact h
  | cons p l ih => exact ih (inv_step wf h p.1 p.2)

theorem mu_step_le {j : Job} (wf : j.WF) {s : State} (h : Inv j s) (b r : Nat) :
    mu j (step j s b r) ≤ mu j s := by
  by_cases he : enabled j s b r
  · exact Nat.le_of_lt (mu_step wf h he)
  · rw [step_idle he]; exact Nat.le_refl _

/-- every real step costs at least one unit of the measure -/
theorem realSteps_le {j : Job} (wf : j.WF) {s : State} (h : Inv j s) (l : List (Nat × Nat)) :
    realSteps j s l + mu j (run j s l) ≤ mu j s := by
  induction l generalizing s with
  | nil => simp [realSteps, run]
  | cons p l ih =>
    have ih := ih (inv_step wf h p.1 p.2)
    rw [run_cons]
    simp only [realSteps]
    by_cases he : enabled j s p.1 p.2
    · have := mu_step wf h he
      simp only [he, if_true]; omega
    · simp only [he, if_false]
      rw [step_idle he] at ih ⊢
      omega

theorem mu_run_le {j : Job} (wf : j.WF) {s : State} (h : Inv j s) (l : List (Nat × Nat)) :
    mu j (run j s l) ≤ mu j s := by
  have := realSteps_le wf h l; omega

theorem mu_run_lt {j : Job} (wf : j.WF) {s : State} (h : Inv j s) {b r : Nat}
    (he : enabled j s b r) (l : List (Nat × Nat)) (hm : (b, r) ∈ l) : mu j (run j s l) < mu j s := by
  induction l with
  | nil => cases hm
  | cons p l ih =>
    rw [run_cons]
    by_cases hp : enabled j s p.1 p.2
    · have h1 := mu_step wf h hp
      have h2 := mu_run_le wf (inv_step wf h p.1 p.2) l
      omega
    · rw [step_idle hp]
      apply ih
      rcases List.mem_cons.mp hm with hm | hm
      · subst hm; exact absurd he hp
      · exact hm

theorem final_step {j : Job} {s : State} (hf : final j s) (b r : Nat) : step j s b r = s := by
  apply step_idle
  intro ⟨hv, hr⟩
  rw [hf b r hv] at hr; cases hr

theorem final_run {j : Job} {s : State} (hf : final j s) (l : List (Nat × Nat)) : run j s l = s := by
  induction l with
  | nil => rfl
  | cons p l ih => rw [run_cons, final_step hf]; exact ih

/-- a round gives every replica at least one slot -/
def Round (j : Job) (ρ : List (Nat × Nat)) : Prop := ∀ b r, j.valid b r → (b, r) ∈ ρ

theorem fair_rounds {j : Job} (wf : j.WF) (rounds : List (List (Nat × Nat)))
    (hr : ∀ ρ ∈ rounds, Round j ρ) {s : State} (h : Inv j s) :
    final j (run j s rounds.flatten) ∨ mu j (run j s rounds.flatten) + rounds.length ≤ mu j s := by
  induction rounds generalizing s with
  | nil => right; simp [run]
  | cons ρ rounds ih =>
    rw [List.flatten_cons, run_append]
    by_cases hf : final j s
    · left; rw [final_run hf, final_run hf]; exact hf
    · obtain ⟨b, r, he⟩ := progress wf h hf
      have hlt := mu_run_lt wf h he ρ (hr ρ (by simp) b r he.1)
      rcases ih (fun ρ' hρ' => hr ρ' (by simp [hρ'])) (inv_run wf h ρ) with h1 | h1
      · exact .inl h1
      · right; simp only [List.length_cons]; omega

theorem mu_zero_final {j : Job} (wf : j.WF) {s : State} (h : Inv j s) (h0 : mu j s = 0) : final j s := by
  apply Classical.byContradiction
  intro hf
  obtain ⟨b, r, he⟩ := progress wf h hf
  have := mu_step wf h he
  omega

theorem mem_allPids {j : Job} {b r : Nat} (hv : j.valid b r) : (b, r) ∈ allPids j := by
  simp only [allPids, List.mem_flatMap, List.mem_map, List.mem_range]
  exact ⟨b, hv.1, r, hv.2, rfl⟩

theorem finalB_iff {j : Job} {s : State} : finalB j s = true ↔ final j s := by
  simp only [finalB, List.all_eq_true, List.mem_range, beq_iff_eq, final, Job.valid]
  constructor
  · intro h b r hv; exact h b hv.1 r hv.2
  · intro h b hb r hr; exact h b r ⟨hb, hr⟩

/-! ## sinks -/

theorem published_le_one {j : Job} {s : State} (h : Inv j s) {b r : Nat} (hv : j.valid b r) :
    (s.proc b r).published ≤ 1 := by
  rw [h.pub b r hv]; split <;> omega

theorem final_published {j : Job} {s : State} (h : Inv j s) (hf : final j s) {b r : Nat}
    (hv : j.valid b r) : (s.proc b r).published = 1 := by
  rw [h.pub b r hv, (status_finished.mp (hf b r hv)).2]; rfl


/-! ## conservation of data along every link -/

def ecnt (x : Elem Nat) (l : List (Elem Nat)) : Nat := l.countP fun y => decide (y = x)
def mcnt (x : Elem Nat) (l : List Msg) : Nat := l.countP fun m => decide (m.elem = x)
def scnt (c : Nat) (x : Elem Nat) (l : List Send) : Nat :=
  l.countP fun sd => decide (sd.blk = c ∧ sd.elem = x)

theorem ecnt_append (x : Elem Nat) (l1 l2 : List (Elem Nat)) :
    ecnt x (l1 ++ l2) = ecnt x l1 + ecnt x l2 := by simp [ecnt, List.countP_append]

theorem scnt_cons (c : Nat) (x : Elem Nat) (sd : Send) (l : List Send) :
    scnt c x (sd :: l) = scnt c x l + (if sd.blk = c ∧ sd.elem = x then 1 else 0) := by
  simp [scnt, List.countP_cons]

theorem mcnt_cons (x : Elem Nat) (m : Msg) (l : List Msg) :
    mcnt x (m :: l) = mcnt x l + (if m.elem = x then 1 else 0) := by
  simp [mcnt, List.countP_cons]

theorem mcnt_append_one (x : Elem Nat) (l : List Msg) (m : Msg) :
    mcnt x (l ++ [m]) = mcnt x l + (if m.elem = x then 1 else 0) := by
  simp [mcnt, List.countP_append, List.countP_cons]

theorem scnt_map (L : List Nat) (hnd : L.Nodup) (g : Nat → Nat) (e x : Elem Nat) (c : Nat) :
    scnt c x (L.map fun c' => (⟨c', g c', e⟩ : Send)) = if c ∈ L ∧ e = x then 1 else 0 := by
  induction L with
  | nil => simp [scnt]
  | cons y L ih =>
    have hy := List.nodup_cons.mp hnd
    rw [List.map_cons, scnt_cons, ih hy.2]
    by_cases hyc : y = c
    · subst hyc
      by_cases hex : e = x <;> simp [hy.1, hex]
    · have : ¬ c = y := fun h => hyc h.symm
      simp [hyc, this]

theorem scnt_sendsOf {j : Job} (wf : j.WF) {b c : Nat} (hc : c < j.nblocks) (hp : j.prev c = some b)
    (r k : Nat) (e x : Elem Nat) (hx : x.isData = true) :
    scnt c x (sendsOf j b r k e) = if e = x then 1 else 0 := by
  have hmem : c ∈ j.next b := mem_next.mpr ⟨hc, hp⟩
  have data : scnt c x ((j.next b).map fun c' => (⟨c', j.route b r c' e k % j.replicas c', e⟩ : Send))
      = if e = x then 1 else 0 := by
    have hnd : (j.next b).Nodup := List.nodup_range.filter _
    rw [scnt_map _ hnd (fun c' => j.route b r c' e k % j.replicas c')]
    simp [hmem]
  have ctl : e.isData = false → scnt c x (sendsOf j b r k e) = if e = x then 1 else 0 := by
    intro he
    have hne : e ≠ x := by intro h; rw [h, hx] at he; cases he
    rw [if_neg hne]
    unfold scnt
    rw [List.countP_eq_zero]
    intro sd hsd
    have := (mem_sendsOf wf hsd).1
    simp [this, hne]
  cases e with
  | item a => exact data
  | ts a t => exact data
  | wm t => exact ctl rfl
  | far => exact ctl rfl
  | term => exact ctl rfl
  | flushBatch => exact ctl rfl

theorem scnt_append (c : Nat) (x : Elem Nat) (l1 l2 : List Send) :
    scnt c x (l1 ++ l2) = scnt c x l1 + scnt c x l2 := by simp [scnt, List.countP_append]

theorem scnt_outs {j : Job} (wf : j.WF) {b c : Nat} (hc : c < j.nblocks) (hp : j.prev c = some b)
    (r k : Nat) (outs : List (Elem Nat)) (x : Elem Nat) (hx : x.isData = true) :
    scnt c x (outs.flatMap (sendsOf j b r k)) = ecnt x outs := by
  induction outs with
  | nil => rfl
  | cons y outs ih =>
    rw [List.flatMap_cons, scnt_append, ih, scnt_sendsOf wf hc hp r k y x hx]
    simp [ecnt, List.countP_cons]; omega

/-- the second invariant: per link `b → c` the data handed to the chains of `b` is what the chains
    of `c` received + what is in the channels of `c` + what is pending towards `c`; the log of a
    source is what its script has lost. -/
structure Inv2 (j : Job) (s : State) : Prop where
  link : ∀ b c x, c < j.nblocks → j.prev c = some b → x.isData = true →
    sumTo (j.replicas b) (fun q => ecnt x (s.proc b q).log)
      = sumTo (j.replicas c) (fun i => ecnt x (s.proc c i).log)
        + sumTo (j.replicas c) (fun i => mcnt x (s.chan c i))
        + sumTo (j.replicas b) (fun q => scnt c x (s.proc b q).pending)
  srcLog : ∀ b r, j.prev b = none → (s.proc b r).log ++ (s.proc b r).script = j.input b r ++ [.far, .term]

theorem inv2_init (j : Job) : Inv2 j (init j) := by
  constructor
  · intro b c x _ _ _
    simp only [init, initProc, ecnt, mcnt, scnt, List.countP_nil]
    rw [sumTo_eq_zero (fun _ _ => rfl), sumTo_eq_zero (fun _ _ => rfl)]
  · intro b r hp
    simp [init, initProc, hp]

theorem sumTo_add_at {n : Nat} {f g : Nat → Nat} {i d : Nat} (hi : i < n)
    (h : ∀ k, k < n → k ≠ i → g k = f k) (hd : g i = f i + d) : sumTo n g = sumTo n f + d := by
  have := sumTo_change hi h; omega

theorem sumTo_sub_at {n : Nat} {f g : Nat → Nat} {i d : Nat} (hi : i < n)
    (h : ∀ k, k < n → k ≠ i → g k = f k) (hd : g i + d = f i) : sumTo n g + d = sumTo n f := by
  have := sumTo_change hi h; omega

theorem inv2_step {j : Job} (wf : j.WF) {s : State} (h : Inv j s) (h2 : Inv2 j s) (b0 r0 : Nat) :
    Inv2 j (step j s b0 r0) := by
  have hc := step_case j s b0 r0
  generalize step j s b0 r0 = s' at hc
  cases hc with
  | idle _ => exact h2
  | send sd rest _ hv hp hl =>
    obtain ⟨t1, t2, t3⟩ := h.tgtOk b0 r0 sd (by rw [hp]; simp)
    have hlog : ∀ b' r', ((sendState s b0 r0 sd rest).proc b' r').log = (s.proc b' r').log := by
      intro b' r'
      by_cases heq : b' = b0 ∧ r' = r0
      · obtain ⟨rfl, rfl⟩ := heq; rw [send_proc_self]
      · rw [send_proc_other heq]
    constructor
    · intro b c x hcv hpc hx
      have hl := h2.link b c x hcv hpc hx
      simp only [hlog]
      by_cases hcc : sd.blk = c
      · subst hcc
        have hb : b = b0 := by rw [t3] at hpc; cases hpc; rfl
        subst hb
        have e1 := sumTo_add_at (n := j.replicas sd.blk) (i := sd.rep)
          (f := fun i => mcnt x (s.chan sd.blk i))
          (g := fun i => mcnt x ((sendState s b r0 sd rest).chan sd.blk i))
          (d := if sd.elem = x then 1 else 0) t2
          (by intro k _ hk; rw [send_chan_other (fun hh => hk hh.2)])
          (by rw [send_chan_self, mcnt_append_one])
        have e2 := sumTo_sub_at (n := j.replicas b) (i := r0)
          (f := fun q => scnt sd.blk x (s.proc b q).pending)
          (g := fun q => scnt sd.blk x ((sendState s b r0 sd rest).proc b q).pending)
          (d := if sd.elem = x then 1 else 0) hv.2
          (by intro k _ hk; rw [send_proc_other (fun hh => hk hh.2)])
          (by rw [send_proc_self, hp, scnt_cons]; simp)
        omega
      · have e1 : sumTo (j.replicas c) (fun i => mcnt x ((sendState s b0 r0 sd rest).chan c i))
            = sumTo (j.replicas c) (fun i => mcnt x (s.chan c i)) :=
          sumTo_congr (fun i _ => by rw [send_chan_other (fun hh => hcc hh.1.symm)])
        have e2 : sumTo (j.replicas b) (fun q => scnt c x ((sendState s b0 r0 sd rest).proc b q).pending)
            = sumTo (j.replicas b) (fun q => scnt c x (s.proc b q).pending) := by
          apply sumTo_congr
          intro q _
          by_cases heq : b = b0 ∧ q = r0
          · obtain ⟨rfl, rfl⟩ := heq
            rw [send_proc_self, hp, scnt_cons]
            simp [hcc]
          · rw [send_proc_other heq]
        rw [e1, e2]; exact hl
    · intro b r hpb
      by_cases heq : b = b0 ∧ r = r0
      · obtain ⟨rfl, rfl⟩ := heq; rw [send_proc_self]; exact h2.srcLog b r hpb
      · rw [send_proc_other heq]; exact h2.srcLog b r hpb
  | src e es _ hv hp hpr hs =>
    have hproc : ∀ b' r', ¬ (b' = b0 ∧ r' = r0) → (srcState j s b0 r0 e es).proc b' r' = s.proc b' r' :=
      fun b' r' hne => by simp only [srcState, set2_other _ _ _ _ _ _ hne]
    have hself : (srcState j s b0 r0 e es).proc b0 r0
        = emit j b0 r0 { s.proc b0 r0 with script := es } [e] := by simp only [srcState, set2_same]
    constructor
    · intro b c x hcv hpc hx
      have hl := h2.link b c x hcv hpc hx
      have hcne : c ≠ b0 := by intro hh; subst hh; rw [hpr] at hpc; cases hpc
      have e0 : sumTo (j.replicas c) (fun i => ecnt x ((srcState j s b0 r0 e es).proc c i).log)
          = sumTo (j.replicas c) (fun i => ecnt x (s.proc c i).log) :=
        sumTo_congr (fun i _ => by rw [hproc c i (fun hh => hcne hh.1)])
      have ech : ∀ i, (srcState j s b0 r0 e es).chan c i = s.chan c i := fun _ => rfl
      simp only [ech]
      rw [e0]
      by_cases hb : b = b0
      · subst hb
        have e1 := sumTo_add_at (n := j.replicas b) (i := r0)
          (f := fun q => ecnt x (s.proc b q).log)
          (g := fun q => ecnt x ((srcState j s b r0 e es).proc b q).log)
          (d := if e = x then 1 else 0) hv.2
          (by intro k _ hk; rw [hproc b k (fun hh => hk hh.2)])
          (by rw [hself]; simp [emit, ecnt, List.countP_append, List.countP_cons])
        have e2 := sumTo_add_at (n := j.replicas b) (i := r0)
          (f := fun q => scnt c x (s.proc b q).pending)
          (g := fun q => scnt c x ((srcState j s b r0 e es).proc b q).pending)
          (d := if e = x then 1 else 0) hv.2
          (by intro k _ hk; rw [hproc b k (fun hh => hk hh.2)])
          (by
            rw [hself, hp]
            simp only [emit, List.flatMap_cons, List.flatMap_nil, List.append_nil]
            rw [scnt_sendsOf wf hcv hpc _ _ e x hx]; simp [scnt])
        omega
      · have e1 : sumTo (j.replicas b) (fun q => ecnt x ((srcState j s b0 r0 e es).proc b q).log)
            = sumTo (j.replicas b) (fun q => ecnt x (s.proc b q).log) :=
          sumTo_congr (fun q _ => by rw [hproc b q (fun hh => hb hh.1)])
        have e2 : sumTo (j.replicas b) (fun q => scnt c x ((srcState j s b0 r0 e es).proc b q).pending)
            = sumTo (j.replicas b) (fun q => scnt c x (s.proc b q).pending) :=
          sumTo_congr (fun q _ => by rw [hproc b q (fun hh => hb hh.1)])
        rw [e1, e2]; exact hl
    · intro b r hpb
      by_cases heq : b = b0 ∧ r = r0
      · obtain ⟨rfl, rfl⟩ := heq
        rw [hself]
        have := h2.srcLog b r hpb
        rw [hs] at this
        simp only [emit]
        rw [← this]; simp
      · rw [hproc b r heq]; exact h2.srcLog b r hpb
  | recv m ms pb0 _ hv hp hpr hmt hch =>
    have hproc : ∀ b' r', ¬ (b' = b0 ∧ r' = r0) → (recvState j s b0 r0 m ms).proc b' r' = s.proc b' r' :=
      fun b' r' hne => by simp only [recvState, set2_other _ _ _ _ _ _ hne]
    have hchan : ∀ b' r', ¬ (b' = b0 ∧ r' = r0) → (recvState j s b0 r0 m ms).chan b' r' = s.chan b' r' :=
      fun b' r' hne => by simp only [recvState, set2_other _ _ _ _ _ _ hne]
    have hchs : (recvState j s b0 r0 m ms).chan b0 r0 = ms := by simp only [recvState, set2_same]
    obtain ⟨_, _, _, _, hS5, hS6⟩ := start_step_cases (s.proc b0 r0).start m.sender m.elem hmt
    have hself : (recvState j s b0 r0 m ms).proc b0 r0 = emit j b0 r0
        { s.proc b0 r0 with start := (Start.step (s.proc b0 r0).start (.elem m.sender m.elem)).1 }
        (Start.step (s.proc b0 r0).start (.elem m.sender m.elem)).2 := by
      simp only [recvState, set2_same]
    have houts : ∀ x : Elem Nat, x.isData = true →
        ecnt x (Start.step (s.proc b0 r0).start (.elem m.sender m.elem)).2 = if m.elem = x then 1 else 0 := by
      intro x hx
      cases hd : m.elem.isData with
      | true =>
        obtain ⟨pre, hpre, hnd⟩ := hS5 hd
        rw [hpre, ecnt_append]
        have h0 : ecnt x pre = 0 := by
          unfold ecnt
          rw [List.countP_eq_zero]
          intro y hy
          have := hnd y hy
          simp only [decide_eq_true_eq]
          intro hh; rw [hh, hx] at this; cases this
        rw [h0]; simp [ecnt, List.countP_cons]
      | false =>
        have hne : m.elem ≠ x := by intro hh; rw [hh, hx] at hd; cases hd
        rw [if_neg hne]
        unfold ecnt
        rw [List.countP_eq_zero]
        intro y hy
        have := hS6 hd y hy
        simp only [decide_eq_true_eq]
        intro hh; rw [hh, hx] at this; cases this
    constructor
    · intro b c x hcv hpc hx
      have hl := h2.link b c x hcv hpc hx
      have hlogself : ecnt x ((recvState j s b0 r0 m ms).proc b0 r0).log
          = ecnt x (s.proc b0 r0).log + (if m.elem = x then 1 else 0) := by
        rw [hself]; simp only [emit]; rw [ecnt_append, houts x hx]
      by_cases hc0 : c = b0
      · subst hc0
        have hb : b = pb0 := by rw [hpr] at hpc; cases hpc; rfl
        subst hb
        have hbne : b ≠ c := by have := wf.topo c b hcv hpc; omega
        have e0 := sumTo_add_at (n := j.replicas c) (i := r0)
          (f := fun i => ecnt x (s.proc c i).log)
          (g := fun i => ecnt x ((recvState j s c r0 m ms).proc c i).log)
          (d := if m.elem = x then 1 else 0) hv.2
          (by intro k _ hk; rw [hproc c k (fun hh => hk hh.2)])
          hlogself
        have e1 := sumTo_sub_at (n := j.replicas c) (i := r0)
          (f := fun i => mcnt x (s.chan c i))
          (g := fun i => mcnt x ((recvState j s c r0 m ms).chan c i))
          (d := if m.elem = x then 1 else 0) hv.2
          (by intro k _ hk; rw [hchan c k (fun hh => hk hh.2)])
          (by rw [hchs, hch, mcnt_cons])
        have e2 : sumTo (j.replicas b) (fun q => ecnt x ((recvState j s c r0 m ms).proc b q).log)
            = sumTo (j.replicas b) (fun q => ecnt x (s.proc b q).log) :=
          sumTo_congr (fun q _ => by rw [hproc b q (fun hh => hbne hh.1)])
        have e3 : sumTo (j.replicas b) (fun q => scnt c x ((recvState j s c r0 m ms).proc b q).pending)
            = sumTo (j.replicas b) (fun q => scnt c x (s.proc b q).pending) :=
          sumTo_congr (fun q _ => by rw [hproc b q (fun hh => hbne hh.1)])
        omega
      · have e0 : sumTo (j.replicas c) (fun i => ecnt x ((recvState j s b0 r0 m ms).proc c i).log)
            = sumTo (j.replicas c) (fun i => ecnt x (s.proc c i).log) :=
          sumTo_congr (fun i _ => by rw [hproc c i (fun hh => hc0 hh.1)])
        have e1 : sumTo (j.replicas c) (fun i => mcnt x ((recvState j s b0 r0 m ms).chan c i))
            = sumTo (j.replicas c) (fun i => mcnt x (s.chan c i)) :=
          sumTo_congr (fun i _ => by rw [hchan c i (fun hh => hc0 hh.1)])
        by_cases hb : b = b0
        · subst hb
          have e2 := sumTo_add_at (n := j.replicas b) (i := r0)
            (f := fun q => ecnt x (s.proc b q).log)
            (g := fun q => ecnt x ((recvState j s b r0 m ms).proc b q).log)
            (d := if m.elem = x then 1 else 0) hv.2
            (by intro k _ hk; rw [hproc b k (fun hh => hk hh.2)])
            hlogself
          have e3 := sumTo_add_at (n := j.replicas b) (i := r0)
            (f := fun q => scnt c x (s.proc b q).pending)
            (g := fun q => scnt c x ((recvState j s b r0 m ms).proc b q).pending)
            (d := if m.elem = x then 1 else 0) hv.2
            (by intro k _ hk; rw [hproc b k (fun hh => hk hh.2)])
            (by
              rw [hself, hp]
              simp only [emit]
              rw [scnt_outs wf hcv hpc _ _ _ x hx, houts x hx]; simp [scnt])
          omega
        · have e2 : sumTo (j.replicas b) (fun q => ecnt x ((recvState j s b0 r0 m ms).proc b q).log)
              = sumTo (j.replicas b) (fun q => ecnt x (s.proc b q).log) :=
            sumTo_congr (fun q _ => by rw [hproc b q (fun hh => hb hh.1)])
          have e3 : sumTo (j.replicas b) (fun q => scnt c x ((recvState j s b0 r0 m ms).proc b q).pending)
              = sumTo (j.replicas b) (fun q => scnt c x (s.proc b q).pending) :=
            sumTo_congr (fun q _ => by rw [hproc b q (fun hh => hb hh.1)])
          rw [e0, e1, e2, e3]; exact hl
    · intro b r hpb
      by_cases heq : b = b0 ∧ r = r0
      · obtain ⟨rfl, rfl⟩ := heq; rw [hpr] at hpb; cases hpb
      · rw [hproc b r heq]; exact h2.srcLog b r hpb

theorem inv2_reachable {j : Job} (wf : j.WF) {s : State} (h : Reachable j s) : Inv2 j s := by
  induction h with
  | init => exact inv2_init j
  | step b r hr ih => exact inv2_step wf (inv_reachable wf hr) ih b r


/-! ## conservation in the final state -/

theorem perm_of_ecnt {l1 l2 : List (Elem Nat)} (h : ∀ x, ecnt x l1 = ecnt x l2) : l1.Perm l2 := by
  rw [@List.perm_iff_count _ instBEqOfDecidableEq _ l1 l2]
  intro x
  exact h x

theorem ecnt_flatMap_range (x : Elem Nat) (n : Nat) (f : Nat → List (Elem Nat)) :
    ecnt x ((List.range n).flatMap f) = sumTo n (fun q => ecnt x (f q)) := by
  induction n with
  | zero => rfl
  | succ n ih =>
    rw [List.range_succ, List.flatMap_append, ecnt_append, ih]
    simp [sumTo]

theorem ecnt_dataOf (x : Elem Nat) (l : List (Elem Nat)) :
    ecnt x (dataOf l) = if x.isData then ecnt x l else 0 := by
  induction l with
  | nil => simp [dataOf, ecnt]
  | cons y l ih =>
    unfold dataOf ecnt at ih ⊢
    by_cases hy : y.isData = true
    · rw [List.filter_cons_of_pos hy, List.countP_cons, List.countP_cons, ih]
      by_cases hx : x.isData = true
      · simp [hx]
      · have hyx : ¬ y = x := by intro h; rw [h] at hy; exact hx hy
        simp [hx, hyx]
    · rw [List.filter_cons_of_neg hy, List.countP_cons, ih]
      by_cases hyx : y = x
      · subst hyx; simp [hy]
      · simp [hyx]

theorem flatMap_congr' {β γ : Type} (l : List β) (f g : β → List γ) (h : ∀ x ∈ l, f x = g x) :
    l.flatMap f = l.flatMap g := by
  induction l with
  | nil => rfl
  | cons y l ih =>
    rw [List.flatMap_cons, List.flatMap_cons, h y (by simp), ih (fun x hx => h x (by simp [hx]))]

/-- **conservation along one link** in the final state -/
theorem final_link_perm {j : Job} (wf : j.WF) {s : State} (h : Inv j s) (h2 : Inv2 j s)
    (hf : final j s) {b c : Nat} (hc : c < j.nblocks) (hp : j.prev c = some b) :
    (dataOf (blockLog j s c)).Perm (dataOf (blockLog j s b)) := by
  apply perm_of_ecnt
  intro x
  rw [ecnt_dataOf, ecnt_dataOf]
  cases hx : x.isData with
  | false => rfl
  | true =>
    simp only [if_true]
    unfold blockLog
    rw [ecnt_flatMap_range, ecnt_flatMap_range]
    have hl := h2.link b c x hc hp hx
    have hb : b < j.nblocks := by have := wf.topo c b hc hp; omega
    have e1 : sumTo (j.replicas c) (fun i => mcnt x (s.chan c i)) = 0 := by
      apply sumTo_eq_zero
      intro i hi
      rw [done_chan_empty h ⟨hc, hi⟩ (status_finished.mp (hf c i ⟨hc, hi⟩)).2]; rfl
    have e2 : sumTo (j.replicas b) (fun q => scnt c x (s.proc b q).pending) = 0 := by
      apply sumTo_eq_zero
      intro q hq
      rw [(status_finished.mp (hf b q ⟨hb, hq⟩)).1]; rfl
    omega

/-- `a` is `b` or an ancestor of `b` -/
inductive Upstream (j : Job) : Nat → Nat → Prop where
  | refl (a : Nat) : Upstream j a a
  | step {a b c : Nat} : j.prev c = some b → Upstream j a b → Upstream j a c

theorem dataOf_flatMap (n : Nat) (f : Nat → List (Elem Nat)) :
    dataOf ((List.range n).flatMap f) = (List.range n).flatMap fun r => dataOf (f r) := by
  unfold dataOf
  rw [List.filter_flatMap]

theorem final_source_log {j : Job} {s : State} (h2 : Inv2 j s) (hf : final j s) {a : Nat}
    (ha : a < j.nblocks) (hp : j.prev a = none) :
    dataOf (blockLog j s a) = (List.range (j.replicas a)).flatMap fun r => dataOf (j.input a r) := by
  unfold blockLog
  rw [dataOf_flatMap]
  apply flatMap_congr'
  intro r hr
  have hd := (status_finished.mp (hf a r ⟨ha, List.mem_range.mp hr⟩)).2
  simp only [done, hp, List.isEmpty_iff] at hd
  have := h2.srcLog a r hp
  rw [hd, List.append_nil] at this
  rw [this]
  simp [dataOf, Elem.isData]

theorem final_conservation {j : Job} (wf : j.WF) {s : State} (h : Inv j s) (h2 : Inv2 j s)
    (hf : final j s) (c : Nat) (hc : c < j.nblocks) :
    ∃ a, a < j.nblocks ∧ j.prev a = none ∧ Upstream j a c ∧
      (dataOf (blockLog j s c)).Perm
        ((List.range (j.replicas a)).flatMap fun r => dataOf (j.input a r)) := by
  induction c using Nat.strongRecOn with
  | _ c ih =>
    cases hp : j.prev c with
    | none =>
      exact ⟨c, hc, hp, .refl c, by rw [final_source_log h2 hf hc hp]⟩
    | some b =>
      have hb := wf.topo c b hc hp
      obtain ⟨a, ha, hpa, hup, hperm⟩ := ih b hb (by omega)
      exact ⟨a, ha, hpa, .step hp hup, (final_link_perm wf h h2 hf hc hp).trans hperm⟩


end Noir.NetSim
