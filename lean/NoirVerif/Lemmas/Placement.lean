/-
  Lemmas/Placement.lean — helper lemmas for Props/C19.lean (and the graph facts used by C03).
-/
import NoirVerif.Model.Placement
namespace Noir.Placement

/-! ### the lexicographic order -/

theorem lexLe_refl : ∀ a, lexLe a a = true := by
  intro a; induction a with
  | nil => rfl
  | cons x xs ih => simp [lexLe, ih]

theorem lexLe_total : ∀ a b, (lexLe a b || lexLe b a) = true := by
  intro a
  induction a with
  | nil => intro b; simp [lexLe]
  | cons x xs ih =>
    intro b
    cases b with
    | nil => simp [lexLe]
    | cons y ys =>
      have := ih ys
      simp only [lexLe, Bool.or_eq_true, Bool.and_eq_true, decide_eq_true_eq, beq_iff_eq] at *
      by_cases h : x < y
      · simp [h]
      · by_cases h2 : y < x
        · simp [h2]
        · have : x = y := by omega
          subst this
          rcases this with h3 | h3 <;> simp [h3]

theorem lexLe_trans : ∀ a b c, lexLe a b = true → lexLe b c = true → lexLe a c = true := by
  intro a
  induction a with
  | nil => intro b c _ _; simp [lexLe]
  | cons x xs ih =>
    intro b c hab hbc
    cases b with
    | nil => simp [lexLe] at hab
    | cons y ys =>
      cases c with
      | nil => simp [lexLe] at hbc
      | cons z zs =>
        simp only [lexLe, Bool.or_eq_true, Bool.and_eq_true, decide_eq_true_eq, beq_iff_eq] at *
        rcases hab with h1 | ⟨h1, h1'⟩
        · rcases hbc with h2 | ⟨h2, _⟩
          · left; omega
          · left; omega
        · rcases hbc with h2 | ⟨h2, h2'⟩
          · left; omega
          · right; exact ⟨by omega, ih ys zs h1' h2'⟩

/-- antisymmetry for keys of the same length -/
theorem lexLe_antisymm : ∀ a b, a.length = b.length → lexLe a b = true → lexLe b a = true → a = b := by
  intro a
  induction a with
  | nil => intro b hl _ _; cases b with | nil => rfl | cons _ _ => simp at hl
  | cons x xs ih =>
    intro b hl hab hba
    cases b with
    | nil => simp at hl
    | cons y ys =>
      simp only [lexLe, Bool.or_eq_true, Bool.and_eq_true, decide_eq_true_eq, beq_iff_eq] at *
      have hxy : x = y := by
        rcases hab with h | ⟨h, _⟩ <;> rcases hba with h' | ⟨h', _⟩ <;> omega
      subst hxy
      have h1 : lexLe xs ys = true := by rcases hab with h | ⟨_, h⟩; omega; exact h
      have h2 : lexLe ys xs = true := by rcases hba with h | ⟨_, h⟩; omega; exact h
      rw [ih ys (by simpa using hl) h1 h2]

theorem Coord.key_inj {a b : Coord} (h : a.key = b.key) : a = b := by
  cases a; cases b; simp [Coord.key] at h; simp [h]

theorem Link.key_inj {a b : Link} (h : a.key = b.key) : a = b := by
  obtain ⟨⟨a1, a2, a3⟩, ⟨a4, a5, a6⟩, af⟩ := a
  obtain ⟨⟨b1, b2, b3⟩, ⟨b4, b5, b6⟩, bf⟩ := b
  simp only [Link.key, Coord.key, List.cons_append, List.nil_append, List.cons.injEq, and_true] at h
  obtain ⟨h1, h2, h3, h4, h5, h6, h7⟩ := h
  subst h1 h2 h3 h4 h5 h6
  cases af <;> cases bf <;> simp_all

theorem Demux.key_inj {a b : Demux} (h : a.key = b.key) : a = b := by
  cases a; cases b; simp [Demux.key] at h; simp [h]

theorem Link.key_length (a : Link) : a.key.length = 7 := by simp [Link.key, Coord.key]

/-- Sorting two permutations of each other by an injective key of fixed length gives one list. -/
theorem mergeSort_key_eq_of_perm {α : Type} (key : α → List Nat) (n : Nat)
    (hlen : ∀ a, (key a).length = n) (hinj : ∀ a b, key a = key b → a = b)
    {l₁ l₂ : List α} (h : l₁.Perm l₂) :
    l₁.mergeSort (fun a b => lexLe (key a) (key b)) = l₂.mergeSort (fun a b => lexLe (key a) (key b)) := by
  apply List.Perm.eq_of_pairwise (le := fun a b => lexLe (key a) (key b) = true)
  · intro a b _ _ hab hba
    exact hinj a b (lexLe_antisymm _ _ (by rw [hlen, hlen]) hab hba)
  · exact List.pairwise_mergeSort (le := fun a b => lexLe (key a) (key b))
      (fun a b c => lexLe_trans _ _ _) (fun a b => lexLe_total _ _) l₁
  · exact List.pairwise_mergeSort (le := fun a b => lexLe (key a) (key b))
      (fun a b c => lexLe_trans _ _ _) (fun a b => lexLe_total _ _) l₂
  · exact ((List.mergeSort_perm l₁ _).trans h).trans (List.mergeSort_perm l₂ _).symm

/-! ### Replication -/

theorem intersect_comm (a b : Replication) : a.intersect b = b.intersect a := by
  cases a <;> cases b <;> simp [Replication.intersect, Nat.min_comm]

theorem intersect_idem (a : Replication) : a.intersect a = a := by
  cases a <;> simp [Replication.intersect]

theorem intersect_assoc (a b c : Replication) :
    (a.intersect b).intersect c = a.intersect (b.intersect c) := by
  cases a <;> cases b <;> cases c <;> simp [Replication.intersect, Nat.min_assoc]

/-! ### placement -/

theorem mem_replicasFrom (b : Nat) : ∀ (ns : List Nat) (h0 : Nat) (c : Coord),
    c ∈ replicasFrom b h0 ns ↔
      c.block = b ∧ h0 ≤ c.host ∧ ∃ n, ns[c.host - h0]? = some n ∧ c.replica < n := by
  intro ns
  induction ns with
  | nil => intro h0 c; simp [replicasFrom]
  | cons n ns ih =>
    intro h0 c
    simp only [replicasFrom, List.mem_append, List.mem_map, List.mem_range, ih]
    constructor
    · rintro (⟨r, hr, rfl⟩ | ⟨hb, hh, m, hm, hlt⟩)
      · simp [hr]
      · refine ⟨hb, by omega, m, ?_, hlt⟩
        have : c.host - h0 = (c.host - (h0 + 1)) + 1 := by omega
        rw [this]; simpa using hm
    · rintro ⟨hb, hh, m, hm, hlt⟩
      by_cases heq : c.host = h0
      · left
        refine ⟨c.replica, ?_, ?_⟩
        · have : c.host - h0 = 0 := by omega
          rw [this] at hm; simp at hm; omega
        · cases c; simp_all
      · right
        refine ⟨hb, by omega, m, ?_, hlt⟩
        have : c.host - h0 = (c.host - (h0 + 1)) + 1 := by omega
        rw [this] at hm; simpa using hm

theorem nodup_replicasFrom (b : Nat) : ∀ (ns : List Nat) (h0 : Nat), (replicasFrom b h0 ns).Nodup := by
  intro ns
  induction ns with
  | nil => intro h0; simp [replicasFrom]
  | cons n ns ih =>
    intro h0
    simp only [replicasFrom]
    rw [List.nodup_append]
    refine ⟨?_, ih (h0 + 1), ?_⟩
    · unfold List.Nodup
      rw [List.pairwise_map]
      have := @List.nodup_range n
      unfold List.Nodup at this
      exact this.imp (fun hne heq => hne (by simpa using heq))
    · intro a ha c hc
      simp only [List.mem_map, List.mem_range] at ha
      obtain ⟨r, _, rfl⟩ := ha
      have := (mem_replicasFrom b ns (h0 + 1) c).mp hc
      intro heq; subst heq; simp at this; omega

theorem mem_replicas (bi : BlockInfo) (c : Coord) :
    c ∈ bi.replicas ↔ c.block = bi.id ∧ c.replica < (bi.counts[c.host]?).getD 0 := by
  unfold BlockInfo.replicas
  rw [mem_replicasFrom]
  simp only [Nat.zero_le, Nat.sub_zero, true_and]
  constructor
  · rintro ⟨hb, n, hn, hlt⟩; simp [hb, hn, hlt]
  · rintro ⟨hb, hlt⟩
    cases hc : bi.counts[c.host]? with
    | none => simp [hc] at hlt
    | some n => exact ⟨hb, n, rfl, by simpa [hc] using hlt⟩

theorem limitedCounts_getElem? : ∀ (hosts : List Host) (n i : Nat),
    (limitedCounts n hosts)[i]? =
      hosts[i]?.map (fun h => min h.cores (n - ((hosts.take i).map (·.cores)).sum)) := by
  intro hosts
  induction hosts with
  | nil => intro n i; simp [limitedCounts]
  | cons h hs ih =>
    intro n i
    cases i with
    | zero => simp [limitedCounts, Nat.min_comm]
    | succ i =>
      simp only [limitedCounts, List.getElem?_cons_succ, ih, List.take_succ_cons, List.map_cons,
        List.sum_cons]
      congr 1
      funext x
      congr 1
      omega

theorem limitedCounts_sum : ∀ (hosts : List Host) (n : Nat),
    (limitedCounts n hosts).sum = min n ((hosts.map (·.cores)).sum) := by
  intro hosts
  induction hosts with
  | nil => intro n; simp [limitedCounts]
  | cons h hs ih =>
    intro n
    simp only [limitedCounts, List.sum_cons, ih, List.map_cons]
    omega

/-! ### links -/

theorem filter_eq_singleton {α : Type} {p : α → Bool} : ∀ {l : List α} {a : α},
    l.Nodup → a ∈ l → p a = true → (∀ x ∈ l, p x = true → x = a) → l.filter p = [a] := by
  intro l
  induction l with
  | nil => intro a _ h; simp at h
  | cons x xs ih =>
    intro a hnd hmem hpa huniq
    rw [List.nodup_cons] at hnd
    by_cases hx : x = a
    · subst hx
      have : xs.filter p = [] := by
        rw [List.filter_eq_nil_iff]
        intro y hy hpy
        have := huniq y (List.mem_cons_of_mem _ hy) hpy
        subst this; exact hnd.1 hy
      simp [List.filter_cons, hpa, this]
    · have hmem' : a ∈ xs := by
        rcases List.mem_cons.mp hmem with h | h
        · exact absurd h.symm hx
        · exact h
      have hpx : p x = false := by
        cases hp : p x with
        | false => rfl
        | true => exact absurd (huniq x (by simp) hp) hx
      simp only [List.filter_cons, hpx]
      exact ih hnd.2 hmem' hpa (fun y hy => huniq y (List.mem_cons_of_mem _ hy))

theorem replicas_nodup (bi : BlockInfo) : bi.replicas.Nodup := nodup_replicasFrom _ _ _

/-- the same-(host, replica) partner of `f` in block `to` -/
def partner (to : BlockInfo) (f : Coord) : Coord := ⟨to.id, f.host, f.replica⟩

/-- the inner loop of `build_execution_graph` for producer replica `f` -/
def loopPart (from_ to : BlockInfo) (fragile : Bool) (f : Coord) : List Coord :=
  to.replicas.filter (connects from_.onlyOne fragile to.replicas.length f)

theorem loopPart_single (from_ to : BlockInfo) (fragile : Bool) (f : Coord)
    (h : to.replicas.length = 1) : loopPart from_ to fragile f = to.replicas := by
  unfold loopPart connects
  rw [List.filter_eq_self]
  intro a _
  simp [h]

theorem loopPart_partner (from_ to : BlockInfo) (fragile : Bool) (f : Coord)
    (hfw : (from_.onlyOne || fragile) = true) (hp : partner to f ∈ to.replicas) :
    loopPart from_ to fragile f = [partner to f] := by
  by_cases h1 : to.replicas.length = 1
  · rw [loopPart_single _ _ _ _ h1]
    match hr : to.replicas, h1 with
    | [x], _ => rw [hr] at hp; simp at hp; rw [hp]
  · unfold loopPart
    apply filter_eq_singleton (replicas_nodup to) hp
    · simp [connects, hfw, partner]
    · intro x hx hc
      have hb := ((mem_replicas to x).mp hx).1
      simp only [connects, hfw, if_true, Bool.or_eq_true, beq_iff_eq, h1, false_or,
        Bool.and_eq_true] at hc
      cases x; simp_all [partner]

theorem loopPart_orphan (from_ to : BlockInfo) (fragile : Bool) (f : Coord)
    (hfw : (from_.onlyOne || fragile) = true) (hp : partner to f ∉ to.replicas)
    (h1 : to.replicas.length ≠ 1) : loopPart from_ to fragile f = [] := by
  unfold loopPart
  rw [List.filter_eq_nil_iff]
  intro x hx hc
  have hb := ((mem_replicas to x).mp hx).1
  simp only [connects, hfw, if_true, Bool.or_eq_true, beq_iff_eq, h1, false_or,
    Bool.and_eq_true] at hc
  apply hp
  have : x = partner to f := by cases x; simp_all [partner]
  rw [← this]; exact hx

theorem any_partner (to : BlockInfo) (f : Coord) :
    to.replicas.any (fun t => t.host == f.host && t.replica == f.replica) = true ↔
      partner to f ∈ to.replicas := by
  rw [List.any_eq_true]
  constructor
  · rintro ⟨t, ht, h⟩
    have hb := ((mem_replicas to t).mp ht).1
    have : t = partner to f := by cases t; simp_all [partner]
    rw [← this]; exact ht
  · intro h; exact ⟨partner to f, h, by simp [partner]⟩

theorem consumers_eq (from_ to : BlockInfo) (fragile : Bool) (f : Coord) :
    consumers from_ to fragile f =
      (if orphan from_.onlyOne fragile to.replicas f then
        match to.replicas[from_.globalId f % to.replicas.length]? with
        | some t => [t]
        | none => []
       else []) ++ loopPart from_ to fragile f := rfl

theorem consumers_non_forward (from_ to : BlockInfo) (f : Coord) (h : from_.onlyOne = false) :
    consumers from_ to false f = to.replicas := by
  simp [consumers, orphan, connects, h]

theorem consumers_single (from_ to : BlockInfo) (fragile : Bool) (f : Coord)
    (h : to.replicas.length = 1) : consumers from_ to fragile f = to.replicas := by
  rw [consumers_eq, loopPart_single _ _ _ _ h]
  simp [orphan, h]

theorem consumers_partner (from_ to : BlockInfo) (fragile : Bool) (f : Coord)
    (hfw : (from_.onlyOne || fragile) = true) (hp : partner to f ∈ to.replicas) :
    consumers from_ to fragile f = [partner to f] := by
  rw [consumers_eq, loopPart_partner _ _ _ _ hfw hp]
  simp [orphan, (any_partner to f).mpr hp]

/-- a fragile link is never completed by the fallback -/
theorem consumers_fragile_no_partner (from_ to : BlockInfo) (f : Coord)
    (hp : partner to f ∉ to.replicas) (h1 : to.replicas.length ≠ 1) :
    consumers from_ to true f = [] := by
  rw [consumers_eq, loopPart_orphan _ _ _ _ (by simp) hp h1]
  simp [orphan]

/-- the fallback of commit 3deb123 -/
theorem consumers_orphan (from_ to : BlockInfo) (f : Coord) (hoo : from_.onlyOne = true)
    (hp : partner to f ∉ to.replicas) (h1 : to.replicas.length ≠ 1) (hne : to.replicas ≠ []) :
    ∃ h : from_.globalId f % to.replicas.length < to.replicas.length,
      consumers from_ to false f = [to.replicas[from_.globalId f % to.replicas.length]] := by
  have hpos : 0 < to.replicas.length := List.length_pos_iff.mpr hne
  have hlt := Nat.mod_lt (from_.globalId f) hpos
  refine ⟨hlt, ?_⟩
  rw [consumers_eq, loopPart_orphan _ _ _ _ (by simp [hoo]) hp h1]
  have hany : to.replicas.any (fun t => t.host == f.host && t.replica == f.replica) = false := by
    cases h : to.replicas.any (fun t => t.host == f.host && t.replica == f.replica) with
    | false => rfl
    | true => exact absurd ((any_partner to f).mp h) hp
  have hgt : to.replicas.length > 1 := by omega
  simp [orphan, hoo, hany, hgt, List.getElem?_eq_getElem hlt]

theorem replicasFrom_sorted (b : Nat) : ∀ (ns : List Nat) (h0 : Nat),
    (replicasFrom b h0 ns).Pairwise (fun a c => lexLe a.key c.key = true) := by
  intro ns
  induction ns with
  | nil => intro h0; simp [replicasFrom]
  | cons n ns ih =>
    intro h0
    simp only [replicasFrom]
    rw [List.pairwise_append]
    refine ⟨?_, ih (h0 + 1), ?_⟩
    · rw [List.pairwise_map]
      refine (List.pairwise_lt_range (n := n)).imp ?_
      intro x y hxy
      simp [Coord.key, lexLe]; omega
    · intro a ha c hc
      simp only [List.mem_map, List.mem_range] at ha
      obtain ⟨r, _, rfl⟩ := ha
      have := (mem_replicasFrom b ns (h0 + 1) c).mp hc
      obtain ⟨hb, hh, _⟩ := this
      simp [Coord.key, lexLe, hb]; omega

/-- the replicas of a block are listed in coordinate order: `sorted` in the fallback of
    `build_execution_graph` is this list -/
theorem replicas_sorted (bi : BlockInfo) :
    bi.replicas.Pairwise (fun a c => lexLe a.key c.key = true) := replicasFrom_sorted _ _ _

/-! ### ports -/

def baseOf (hosts : List Host) (h : Nat) : Nat := (hosts[h]?.getD default).basePort
def addrOf (hosts : List Host) (h : Nat) : Nat := (hosts[h]?.getD default).addr

theorem assignPorts_bounds (hosts : List Host) : ∀ (ds : List Demux) (used : Nat → Nat),
    ∀ a ∈ assignPorts hosts used ds,
      a.demux ∈ ds ∧ a.addr = addrOf hosts a.demux.host ∧
      baseOf hosts a.demux.host + used a.demux.host ≤ a.port ∧
      a.port < baseOf hosts a.demux.host + used a.demux.host + ds.countP (·.host == a.demux.host) := by
  intro ds
  induction ds with
  | nil => intro used a h; simp [assignPorts] at h
  | cons d ds ih =>
    intro used a ha
    simp only [assignPorts, List.mem_cons] at ha
    rcases ha with rfl | ha
    · simp [baseOf, addrOf, List.countP_cons]
    · have := ih _ a ha
      obtain ⟨h1, h2, h3, h4⟩ := this
      refine ⟨List.mem_cons_of_mem _ h1, h2, ?_, ?_⟩
      · split at h3 <;> omega
      · by_cases hh : a.demux.host = d.host
        · have hc : (d :: ds).countP (·.host == a.demux.host) = ds.countP (·.host == a.demux.host) + 1 := by
            simp [List.countP_cons, hh]
          rw [hc]; simp only [hh, if_true] at h4; rw [hh]; omega
        · have hc : (d :: ds).countP (·.host == a.demux.host) = ds.countP (·.host == a.demux.host) := by
            have : ¬ d.host = a.demux.host := fun h => hh h.symm
            simp [List.countP_cons, this]
          rw [hc]; simp only [hh, if_false] at h4; omega

theorem assignPorts_increasing (hosts : List Host) : ∀ (ds : List Demux) (used : Nat → Nat),
    (assignPorts hosts used ds).Pairwise
      (fun a b => a.demux.host = b.demux.host → a.port < b.port) := by
  intro ds
  induction ds with
  | nil => intro used; simp [assignPorts]
  | cons d ds ih =>
    intro used
    simp only [assignPorts, List.pairwise_cons]
    refine ⟨?_, ih _⟩
    intro b hb heq
    have := (assignPorts_bounds hosts ds _ b hb).2.2.1
    have heq' : b.demux.host = d.host := heq.symm
    rw [heq'] at this
    simp only [if_true, baseOf] at this
    show (hosts[d.host]?.getD default).basePort + used d.host < b.port
    omega

theorem assignPorts_demux (hosts : List Host) : ∀ (ds : List Demux) (used : Nat → Nat),
    (assignPorts hosts used ds).map (·.demux) = ds := by
  intro ds
  induction ds with
  | nil => intro used; simp [assignPorts]
  | cons d ds ih => intro used; simp [assignPorts, ih]

theorem mem_dedup {α : Type} [DecidableEq α] (a : α) : ∀ l : List α, a ∈ dedup l ↔ a ∈ l := by
  intro l
  induction l with
  | nil => simp [dedup]
  | cons x xs ih =>
    simp only [dedup]
    split
    · rename_i hx
      rw [ih]; constructor
      · exact List.mem_cons_of_mem _
      · intro h; rcases List.mem_cons.mp h with rfl | h
        · exact hx
        · exact h
    · simp [ih]

theorem nodup_dedup {α : Type} [DecidableEq α] : ∀ l : List α, (dedup l).Nodup := by
  intro l
  induction l with
  | nil => simp [dedup]
  | cons x xs ih =>
    simp only [dedup]
    split
    · exact ih
    · rename_i hx
      rw [List.nodup_cons]
      exact ⟨fun h => hx ((mem_dedup x xs).mp h), ih⟩

theorem demuxCoords_nodup (links : List Link) : (demuxCoords links).Nodup :=
  (List.mergeSort_perm _ _).nodup_iff.mpr (nodup_dedup _)

theorem mem_demuxCoords (links : List Link) (d : Demux) :
    d ∈ demuxCoords links ↔ ∃ l ∈ links, demuxOf l = d := by
  simp [demuxCoords, List.mem_mergeSort, mem_dedup]

end Noir.Placement
