/-
  Lemmas/CsvSplit.lean — helper lemmas for the CSV range alignment (C15). Reuses the offset view of
  Lemmas/FileSplit.lean: the aligned byte range of replica `i` contains exactly the lines of the body whose
  start offset lies in `(sᵢ, eᵢ]` (`seg`), i.e. the same lines `FileSource` replica `i` would emit.
-/
import NoirVerif.Lemmas.FileSplit
import NoirVerif.Model.CsvSplit
namespace Noir.FileSplit

theorem lines_nil : lines [] = [] := by
  rw [lines_eq]; simp [readLine]

theorem readLine_append_take (bs : List Nat) : ∀ k,
    readLine ((readLine bs).1 ++ (readLine bs).2.take k) = ((readLine bs).1, (readLine bs).2.take k) := by
  induction bs with
  | nil => intro k; simp [readLine]
  | cons c cs ih =>
    intro k
    by_cases hc : c = NL
    · simp [readLine, hc]
    · simp only [readLine, hc, if_false, List.cons_append]
      rw [ih k]

/-- the first line of a byte string, alone, is one line -/
theorem lines_first (bs : List Nat) (h : 0 < (readLine bs).1.length) :
    lines (readLine bs).1 = [(readLine bs).1] := by
  have := readLine_append_take bs 0
  simp only [List.take_zero, List.append_nil] at this
  rw [lines_eq, this]
  simp [h, lines_nil]

/-- the first line followed by a prefix of the rest -/
theorem lines_first_append (bs : List Nat) (k : Nat) (h : 0 < (readLine bs).1.length) :
    lines ((readLine bs).1 ++ (readLine bs).2.take k) = (readLine bs).1 :: lines ((readLine bs).2.take k) := by
  rw [lines_eq, readLine_append_take]
  simp [h]

theorem takeWhile_eq_nil_of_all_neg {α : Type} (p : α → Bool) (l : List α)
    (h : ∀ x ∈ l, p x = false) : l.takeWhile p = [] := by
  cases l with
  | nil => rfl
  | cons x xs => simp [h x (by simp)]

theorem take_append_add {α : Type} (l r : List α) (m : Nat) :
    (l ++ r).take (l.length + m) = l ++ r.take m := by
  induction l with
  | nil => simp
  | cons x xs ih =>
    rw [List.length_cons, show xs.length + 1 + m = (xs.length + m) + 1 by omega]
    simp only [List.cons_append, List.take_succ_cons, ih]

/-- Cutting at the aligned end `e + read_until('\n')` keeps exactly the lines whose start offset is `≤ e`. -/
theorem lines_take_aligned (rest : List Nat) : ∀ cur e, cur ≤ e →
    lines (rest.take ((e - cur) + (readLine (rest.drop (e - cur))).1.length))
      = ((linesAt cur rest).takeWhile (fun p => decide (p.1 ≤ e))).map (·.2) := by
  induction h : rest.length using Nat.strongRecOn generalizing rest with
  | _ k ih =>
    intro cur e hce
    by_cases hl : 0 < (readLine rest).1.length
    · rw [linesAt_eq]
      simp only [hl, if_true, List.takeWhile_cons, hce, decide_true, List.map_cons]
      have happ := readLine_append rest
      by_cases hd : e - cur < (readLine rest).1.length
      · -- the cut lands inside the first line: only that line is kept
        rw [readLine_drop rest _ hd]
        simp only [List.length_drop]
        have e1 : e - cur + ((readLine rest).1.length - (e - cur)) = (readLine rest).1.length := by omega
        rw [e1]
        have htake : rest.take (readLine rest).1.length = (readLine rest).1 := by
          have := take_append_add (readLine rest).1 (readLine rest).2 0
          rw [happ] at this
          simpa using this
        rw [htake, lines_first rest hl]
        rw [takeWhile_eq_nil_of_all_neg]
        · rfl
        · intro p hp
          have := linesAt_off_ge _ _ p hp
          simp only [decide_eq_false_iff_not]; omega
      · -- the cut lands after the first line
        have hlen := readLine_length rest
        rw [drop_of_fst_length_le rest _ (by omega)]
        have hih := ih _ (by omega) (readLine rest).2 rfl (cur + (readLine rest).1.length) e (by omega)
        have e2 : e - (cur + (readLine rest).1.length) = e - cur - (readLine rest).1.length := by omega
        rw [e2] at hih
        rw [← hih]
        have htake : rest.take (e - cur + (readLine ((readLine rest).2.drop (e - cur - (readLine rest).1.length))).1.length)
            = (readLine rest).1 ++ (readLine rest).2.take
                (e - cur - (readLine rest).1.length +
                  (readLine ((readLine rest).2.drop (e - cur - (readLine rest).1.length))).1.length) := by
          have := take_append_add (readLine rest).1 (readLine rest).2
            (e - cur - (readLine rest).1.length +
              (readLine ((readLine rest).2.drop (e - cur - (readLine rest).1.length))).1.length)
          rw [happ] at this
          rw [← this]
          congr 1
          omega
        rw [htake, lines_first_append rest _ hl]
    · have hb : rest = [] := readLine_nil_of_fst_length_zero hl
      subst hb
      simp [linesAt_eq, readLine, lines_nil]

/-- `A(q) = q + read_until('\n')` at offset `q` -/
def alignAt (bs : List Nat) (q : Nat) : Nat := q + (readLine (bs.drop q)).1.length

theorem alignAt_le_length (bs : List Nat) (q : Nat) (hq : q ≤ bs.length) : alignAt bs q ≤ bs.length := by
  unfold alignAt
  have := readLine_length (bs.drop q)
  simp only [List.length_drop] at this
  omega

/-- seeking inside the line that `s` was aligned over gives the same aligned offset -/
theorem alignAt_eq_of_lt (bs : List Nat) (s e : Nat) (hse : s ≤ e) (h : e < alignAt bs s) :
    alignAt bs e = alignAt bs s := by
  unfold alignAt at *
  have hd : bs.drop e = (bs.drop s).drop (e - s) := by
    rw [List.drop_drop]; congr 1; omega
  rw [hd, readLine_drop (bs.drop s) (e - s) (by omega)]
  simp only [List.length_drop]
  omega

theorem alignAt_mono (bs : List Nat) (s e : Nat) (hse : s ≤ e) : alignAt bs s ≤ alignAt bs e := by
  by_cases h : e < alignAt bs s
  · rw [alignAt_eq_of_lt bs s e hse h]; exact Nat.le_refl _
  · have : e ≤ alignAt bs e := by unfold alignAt; omega
    omega

end Noir.FileSplit

namespace Noir.CsvSplit
open Noir.FileSplit

/-- body-relative aligned range of replica `i` -/
def relRange (body : List Nat) (n i : Nat) : Nat × Nat :=
  (if i ≠ 0 then alignAt body (body.length / n * i) else 0,
   if i ≠ n - 1 then alignAt body (body.length / n * i + body.length / n) else body.length)

theorem headerSize_le (bytes : List Nat) (hh : Bool) : headerSize bytes hh ≤ bytes.length := by
  unfold headerSize
  split
  · have := readLine_length bytes; omega
  · omega

theorem body_length (bytes : List Nat) (hh : Bool) :
    (body bytes hh).length = bytes.length - headerSize bytes hh := by
  simp [body]

theorem drop_body (bytes : List Nat) (hh : Bool) (q : Nat) :
    bytes.drop (headerSize bytes hh + q) = (body bytes hh).drop q := by
  unfold body; rw [List.drop_drop]

theorem csvRange_eq (bytes : List Nat) (hh : Bool) (n i : Nat) :
    csvRange bytes hh n i = (headerSize bytes hh + (relRange (body bytes hh) n i).1,
                             headerSize bytes hh + (relRange (body bytes hh) n i).2) := by
  have hle := headerSize_le bytes hh
  unfold csvRange relRange alignAt
  simp only [body_length, Nat.add_assoc, drop_body]
  congr 1
  · split
    · rfl
    · rename_i h0
      have : i = 0 := by omega
      subst this; simp
  · split
    · rename_i h1
      rw [drop_body]; omega
    · rename_i h1
      have h2 : i = n - 1 := by omega
      simp only [← h2, if_true]
      omega

theorem replicaBytes_eq (bytes : List Nat) (hh : Bool) (n i : Nat) :
    replicaBytes bytes hh n i = ((body bytes hh).drop (relRange (body bytes hh) n i).1).take
      ((relRange (body bytes hh) n i).2 - (relRange (body bytes hh) n i).1) := by
  unfold replicaBytes
  rw [csvRange_eq]
  simp only [drop_body]
  congr 1
  omega
theorem drop_alignAt (bs : List Nat) (q : Nat) :
    bs.drop (alignAt bs q) = (readLine (bs.drop q)).2 := by
  unfold alignAt
  rw [← List.drop_drop]
  have h1 : ((readLine (bs.drop q)).1 ++ (readLine (bs.drop q)).2).drop (readLine (bs.drop q)).1.length
      = (readLine (bs.drop q)).2 := by simp
  rw [readLine_append] at h1
  exact h1

/-- the lines inside the aligned range of replica `i` are the lines with start offset in `(sᵢ, eᵢ]` -/
theorem rel_lines (b : List Nat) (n i : Nat) (hi : i < n) :
    lines ((b.drop (relRange b n i).1).take ((relRange b n i).2 - (relRange b n i).1))
      = (seg b n i).map (·.2) := by
  have hs := start_le_size b.length n i hi
  unfold relRange seg endOf
  by_cases h0 : i = 0
  · subst h0
    by_cases hl : n - 1 = 0
    · -- a single replica: the whole body
      simp only [ne_eq, not_true_eq_false, if_false, hl, if_true, List.drop_zero, Nat.sub_zero,
        List.take_length]
      rw [takeWhile_eq_self_of_all, linesAt_map_snd]
      intro p hp
      have := linesAt_off_lt b 0 p hp
      simp only [decide_eq_true_eq]; omega
    · have hl' : ¬ (0 = n - 1) := fun h => hl h.symm
      simp only [ne_eq, not_true_eq_false, if_false, hl', not_false_eq_true, if_true, List.drop_zero,
        Nat.sub_zero, Nat.mul_zero, Nat.zero_add]
      have := lines_take_aligned b 0 (b.length / n) (Nat.zero_le _)
      simp only [Nat.sub_zero] at this
      exact this
  · have hdisc := discard_eq_dropWhile b 0 (b.length / n * i) hs
    simp only [Nat.zero_add] at hdisc
    have hal : alignAt b (b.length / n * i) ≤ b.length := alignAt_le_length b _ hs
    by_cases hl : i = n - 1
    · -- last replica: from the aligned start to the end of the file
      have hl' : n - 1 = i := hl.symm
      simp only [ne_eq, h0, not_false_eq_true, if_true, hl', not_true_eq_false, if_false]
      have hfull : (b.drop (alignAt b (b.length / n * i))).take (b.length - alignAt b (b.length / n * i))
          = b.drop (alignAt b (b.length / n * i)) := by
        apply List.take_of_length_le; simp
      rw [hfull, drop_alignAt, ← hdisc, takeWhile_eq_self_of_all, linesAt_map_snd]
      intro p hp
      have h1 := linesAt_off_lt _ _ p hp
      have h2 := readLine_length (b.drop (b.length / n * i))
      simp only [List.length_drop] at h2
      simp only [decide_eq_true_eq]; omega
    · simp only [ne_eq, h0, not_false_eq_true, if_true, hl, if_false]
      rw [← hdisc]
      by_cases hae : alignAt b (b.length / n * i) ≤ b.length / n * i + b.length / n
      · have := lines_take_aligned (b.drop (alignAt b (b.length / n * i))) (alignAt b (b.length / n * i))
          (b.length / n * i + b.length / n) hae
        rw [List.drop_drop] at this
        have e1 : alignAt b (b.length / n * i) + (b.length / n * i + b.length / n - alignAt b (b.length / n * i))
            = b.length / n * i + b.length / n := by omega
        rw [e1] at this
        have e2 : alignAt b (b.length / n * i + b.length / n) - alignAt b (b.length / n * i)
            = b.length / n * i + b.length / n - alignAt b (b.length / n * i) +
              (readLine (b.drop (b.length / n * i + b.length / n))).1.length := by
          unfold alignAt at hae ⊢; omega
        rw [e2, this, drop_alignAt]
        rfl
      · have heq := alignAt_eq_of_lt b (b.length / n * i) (b.length / n * i + b.length / n)
          (Nat.le_add_right _ _) (by omega)
        rw [heq, Nat.sub_self, List.take_zero, lines_nil, takeWhile_eq_nil_of_all_neg]
        · rfl
        · intro p hp
          have := linesAt_off_ge _ _ p hp
          unfold alignAt at hae
          simp only [decide_eq_false_iff_not]; omega

/-- all replicas together: every line of the body exactly once, in order -/
theorem segs_all (b : List Nat) (n : Nat) (hn : 1 ≤ n) :
    (List.range n).flatMap (fun i => (seg b n i).map (·.2)) = lines b := by
  rw [← List.map_flatMap]
  obtain ⟨k, rfl⟩ : ∃ k, n = k + 1 := ⟨n - 1, by omega⟩
  rw [segs_prefix b (k + 1) k (by omega)]
  rw [takeWhile_eq_self_of_all, linesAt_map_snd]
  intro p hp
  have := linesAt_off_lt b 0 p hp
  simp only [endOf, Nat.add_sub_cancel, if_true, decide_eq_true_eq]
  omega

theorem relRange_ordered (b : List Nat) (n i : Nat) (hi : i < n) : (relRange b n i).1 ≤ (relRange b n i).2 := by
  have hs := start_le_size b.length n i hi
  unfold relRange
  by_cases h0 : i = 0
  · simp [h0]
  · by_cases hl : i = n - 1
    · have hl' : n - 1 = i := hl.symm
      simp only [ne_eq, h0, not_false_eq_true, if_true, hl', not_true_eq_false, if_false]
      exact alignAt_le_length b _ hs
    · simp only [ne_eq, h0, not_false_eq_true, if_true, hl]
      exact alignAt_mono b _ _ (Nat.le_add_right _ _)

theorem relRange_chain (b : List Nat) (n i : Nat) (hi : i + 1 < n) :
    (relRange b n i).2 = (relRange b n (i + 1)).1 := by
  unfold relRange
  have h1 : i ≠ n - 1 := by omega
  simp only [ne_eq, h1, not_false_eq_true, if_true, Nat.add_one_ne_zero, Nat.mul_succ]

/-! ### quote-aware records -/

theorem joinLines_id (ls : List (List Nat)) (h : ∀ l ∈ ls, oddQuotes l = false) : joinLines [] ls = ls := by
  induction ls with
  | nil => simp [joinLines]
  | cons l ls ih =>
    have hl : oddQuotes l = false := h l (by simp)
    simp only [joinLines, List.nil_append, hl]
    rw [ih (fun x hx => h x (by simp [hx]))]
    simp

theorem rawRecords_eq_lines (s : List Nat) (h : ∀ l ∈ lines s, oddQuotes l = false) :
    rawRecords s = lines s := by
  unfold rawRecords
  rw [splitLines_eq_lines s [] (by simp), List.nil_append]
  exact joinLines_id _ h

theorem filterMap_flatMap' {α β γ : Type} (l : List α) (g : α → List β) (f : β → Option γ) :
    (l.flatMap g).filterMap f = l.flatMap (fun a => (g a).filterMap f) := by
  induction l with
  | nil => rfl
  | cons x xs ih => simp [List.flatMap_cons, List.filterMap_append, ih]

end Noir.CsvSplit
