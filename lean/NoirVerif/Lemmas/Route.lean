/-
  Lemmas/Route.lean — facts about a set-up `RoutingEnd` (`Model/Route.lean`), built on the `End` lemmas of
  `Lemmas/Router.lean`.
-/
import NoirVerif.Model.Route
import NoirVerif.Model.Zip
import NoirVerif.Lemmas.Router
set_option linter.unusedSimpArgs false
namespace Noir.Route
open Noir.Placement (Coord)
open Noir.Router (Endpoint indexesOf blocksOf)

/-- the block id of every sender -/
def State.blocks (st : State) : List Nat := st.senders.map (·.coord.block)

theorem blockAt_eq (st : State) (i : Nat) : st.blockAt i = st.blocks[i]? := by
  simp [State.blockAt, State.blocks]

/-- what a successful `setup` established (`setup_endpoints`, route.rs:157-183) -/
structure SetupOk (routes : List Nat) (st : State) : Prop where
  groups : st.groups = routes.map (indexesOf st.blocks)
  nonempty : ∀ b ∈ routes, indexesOf st.blocks b ≠ []
  covered : ∀ b ∈ st.blocks, b ∈ routes
  nodup : routes.Nodup
  closed : st.closed = false
  panicked : st.panicked = false

theorem setup_ok {me : Nat} {routes : List Nat} {next : List (Coord × Bool)} {st : State}
    (h : setup me routes next = some st) : SetupOk routes st := by
  unfold setup Router.routeGroups at h
  simp only [Option.map_eq_some_iff] at h
  obtain ⟨gs, hgs, rfl⟩ := h
  split at hgs
  · rename_i hc
    simp only [Bool.and_eq_true, List.all_eq_true, Bool.not_eq_true', decide_eq_true_eq] at hc
    obtain ⟨⟨h1, h2⟩, h3⟩ := hc
    cases hgs
    refine ⟨rfl, ?_, ?_, h3, rfl, rfl⟩
    · intro b hb hnil
      have := h1 b hb
      simp only [State.blocks] at hnil
      simp [hnil] at this
    · intro b hb
      have := h2 b ((Router.mem_blocksOf b _).mpr hb)
      simpa using this
  · cases hgs

/-- the flattened route groups: every sender index exactly once -/
theorem flatten_groups {routes : List Nat} {st : State} (h : SetupOk routes st) :
    st.groups.flatten.Nodup ∧ ∀ i, i ∈ st.groups.flatten ↔ i < st.senders.length := by
  have hperm : routes.Perm (blocksOf st.blocks) := by
    rw [List.perm_ext_iff_of_nodup h.nodup (Router.nodup_blocksOf _)]
    intro b
    rw [Router.mem_blocksOf]
    constructor
    · intro hb
      have hne := h.nonempty b hb
      cases hi : indexesOf st.blocks b with
      | nil => exact absurd hi hne
      | cons i is =>
        have : i ∈ indexesOf st.blocks b := by rw [hi]; exact List.mem_cons_self
        exact List.mem_of_getElem? ((Router.mem_indexesOf _ _ _).mp this)
    · exact h.covered b
  have hp2 : st.groups.flatten.Perm ((Router.groups .onlyOne st.blocks).flatMap (fun g => g.filter fun _ => true)) := by
    rw [h.groups]
    have : (Router.groups .onlyOne st.blocks).flatMap (fun g => g.filter fun _ => true)
        = ((blocksOf st.blocks).map (indexesOf st.blocks)).flatten := by
      have hf : ∀ g : List Nat, g.filter (fun _ => true) = g := fun g => List.filter_eq_self.mpr (fun _ _ => rfl)
      simp [Router.groups, List.flatMap_def, Function.comp_def, hf]
    rw [this]
    exact (hperm.map _).flatten
  have hg := Router.groups_flatMap_filter .onlyOne st.blocks (fun _ => true)
  refine ⟨hp2.nodup_iff.mpr hg.1, fun i => ?_⟩
  rw [hp2.mem_iff, hg.2 i]
  simp [State.blocks]

variable {α : Type}

theorem accepts_getElem? (preds : List (α → Bool)) (a : α) (k : Nat) :
    (accepts preds a)[k]? = (preds[k]?).map (· a) := by
  simp [accepts]

/-- a live state: a data element is enqueued exactly to `routeData` -/
theorem step_data (preds : List (α → Bool)) (index : Nat) (st : State) (a : α)
    (hc : st.closed = false) (hp : st.panicked = false) (ts : List Nat)
    (ht : Router.routeData st.groups (accepts preds a) index = some ts) :
    (step preds index st (.item a)).2 = ts.map (fun i => (i, Elem.item a)) ∧
    ∀ t, (step preds index st (.ts a t)).2 = ts.map (fun i => (i, Elem.ts a t)) := by
  simp [step, hp, hc, ht, Elem.isTerm]

/-- a live state: a control element is enqueued to every sender of every route -/
theorem step_control (preds : List (α → Bool)) (index : Nat) (st : State)
    (hc : st.closed = false) (hp : st.panicked = false) :
    (∀ t, (step preds index st (.wm t)).2 = st.groups.flatten.map (fun i => (i, Elem.wm t))) ∧
    (step preds index st .far).2 = st.groups.flatten.map (fun i => (i, (Elem.far : Elem α))) ∧
    (step preds index st .term).2 = st.groups.flatten.map (fun i => (i, (Elem.term : Elem α))) ∧
    (step preds index st .flushBatch).2 = [] := by
  simp [step, hp, hc, Elem.isTerm]

end Noir.Route

/-! ### merge: the binary start forwards every data element of either side, in arrival order -/
namespace Noir.Merge
open Noir.Join

variable {γ : Type}

theorem stepElem_vals (s : BinStart.State) (l : Bool) (e : Elem γ) :
    mergeVals (if l then BinStart.stepElem (β := γ) s true Bin.left e
               else BinStart.stepElem (α := γ) s false Bin.right e).2 = e.value.toList := by
  cases l <;> cases e <;>
    simp [BinStart.stepElem, mergeVals, Elem.value, unwrap] <;>
    (repeat' split) <;> simp [Elem.value, unwrap]

theorem mergeVals_append (a b : List (Elem (Bin γ γ))) : mergeVals (a ++ b) = mergeVals a ++ mergeVals b := by
  simp [mergeVals]

/-- `merge` emits exactly the payloads that arrived, in arrival order -/
theorem front_vals : ∀ (arr : List (Bool × Elem γ)) (s : BinStart.State),
    mergeVals (front s arr) = arr.filterMap fun p => p.2.value := by
  intro arr
  induction arr with
  | nil => intro s; rfl
  | cons p arr ih =>
    intro s
    obtain ⟨l, e⟩ := p
    simp only [front, mergeVals_append, stepElem_vals, ih]
    cases h : e.value <;> simp [h]

/-- splitting a list by a predicate is a permutation -/
theorem filterMap_split_perm {δ ε : Type} (f : δ → Option ε) (q : δ → Bool) (l : List δ) :
    (l.filterMap f).Perm ((l.filter q).filterMap f ++ (l.filter fun x => !q x).filterMap f) := by
  induction l with
  | nil => simp
  | cons x l ih =>
    cases hq : q x <;> cases hf : f x <;> simp [List.filter_cons, List.filterMap_cons, hq, hf]
    · exact ih
    · exact (ih.cons _).trans List.perm_middle.symm
    · exact ih
    · exact ih

end Noir.Merge
